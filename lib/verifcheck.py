"""
Driver library for /verif/check.  See DESIGN.md sections 2 and 3.

Every check runs three things for one property:
  1. proof obligations  (regenerate Generated/, lake build, axiom audit, token audit)
  2. correspondence     (Go harness on the real code  vs  compiled Lean model driver)
  3. property oracle    (the property evaluated on what the real code did)
and applies the violation protocol.
"""
import glob
import hashlib
import json
import os
import re
import shutil
import subprocess
import sys
import tempfile
import time

VERIF = os.path.dirname(os.path.dirname(os.path.abspath(__file__)))
LEAN = os.path.join(VERIF, "lean")
HARNESS = os.path.join(VERIF, "harness")
BUILD = os.path.join(VERIF, ".build")
REPO = os.environ.get("VERIF_REPO", "/repo")
ALT = os.path.realpath(REPO) != "/repo"   # scratch worktree run: keep evidence/replays apart
EVID = os.path.join(VERIF, ".build", "alt-evidence") if ALT else os.path.join(VERIF, "evidence")
REPLAYS = os.path.join(VERIF, ".build", "alt-replays") if ALT else os.path.join(VERIF, "replays")
ALLOWED_AXIOMS = {"propext", "Classical.choice", "Quot.sound"}
FORBIDDEN = re.compile(r"\bsorry\b|\badmit\b|^\s*axiom\s|native_decide|bv_decide|implemented_by|\bunsafe\s|maxHeartbeats\s+0\b|@\[extern", re.M)

GOENV = dict(os.environ, GOFLAGS="-mod=mod", GOPROXY="off", GOSUMDB="off", GOTOOLCHAIN="local",
             CGO_ENABLED=os.environ.get("CGO_ENABLED", "1"))


def log(*a):
    print("[check]", *a, flush=True)


def run(cmd, cwd=None, env=None, timeout=None, stdin=None, stdout=None):
    t0 = time.time()
    try:
        p = subprocess.run(cmd, cwd=cwd, env=env, timeout=timeout, stdin=stdin,
                           stdout=stdout if stdout is not None else subprocess.PIPE,
                           stderr=subprocess.STDOUT if stdout is None else subprocess.PIPE)
        out = p.stdout.decode("utf-8", "replace") if stdout is None else (p.stderr or b"").decode("utf-8", "replace")
        return p.returncode, out, time.time() - t0
    except subprocess.TimeoutExpired as e:
        out = (e.stdout or b"").decode("utf-8", "replace") if stdout is None else ""
        return 124, out + "\n[timeout]", time.time() - t0


# ----------------------------------------------------------------------------
# registry
# ----------------------------------------------------------------------------

def load_registry(pid):
    p = os.path.join(LEAN, "registry", pid + ".json")
    if not os.path.exists(p):
        return None
    with open(p) as f:
        r = json.load(f)
    r.setdefault("modules", ["Goloop.Props." + pid])
    r.setdefault("driver", "drv_" + pid)
    r.setdefault("go_tag", pid.lower())
    r.setdefault("extract", [])
    r.setdefault("quick", {})
    r.setdefault("thorough", {})
    r.setdefault("trivial_outputs", ["err", "bad-op", "reject", "panic", "ok"])
    r.setdefault("assumptions", [])
    r.setdefault("modelled_not_verified", [])
    r.setdefault("rule", "")
    return r


def all_props():
    return sorted(os.path.basename(p)[:-5] for p in glob.glob(os.path.join(LEAN, "registry", "C*.json")))


def known_findings(pid):
    p = os.path.join(VERIF, "known_findings.json")
    if not os.path.exists(p):
        return []
    with open(p) as f:
        data = json.load(f)
    return [e for e in data.get("findings", []) if e.get("property") == pid and e.get("status") == "known"]


# ----------------------------------------------------------------------------
# stage 0: translator (regenerated defs)
# ----------------------------------------------------------------------------

def build_extractor():
    src = os.path.join(VERIF, "tools", "extract")
    if not os.path.isdir(src):
        return None, ""
    out = os.path.join(BUILD, "extract")
    rc, o, _ = run(["go", "build", "-o", out, "."], cwd=src, env=dict(GOENV, GOFLAGS="-mod=mod"))
    if rc != 0:
        return None, o
    return out, ""


def regenerate(pid, reg):
    """Runs the go/ast extractor for this property's targets. Returns (ok, message, anchors)."""
    if not reg["extract"]:
        return True, "", 0
    exe, msg = build_extractor()
    if exe is None:
        return False, "extractor does not build: " + msg[-2000:], len(reg["extract"])
    outfile = os.path.join(LEAN, "Goloop", "Generated", pid + ".lean")
    tmp = outfile + ".new"
    rc, o, _ = run([exe, "-repo", REPO, "-prop", pid, "-out", tmp], cwd=VERIF)
    if rc != 0:
        if os.path.exists(tmp):
            os.remove(tmp)
        return False, "extractor failed (anchor missing or unsupported construct): " + o[-3000:], len(reg["extract"])
    old = open(outfile).read() if os.path.exists(outfile) else None
    new = open(tmp).read()
    if old != new:
        os.replace(tmp, outfile)
        log("Generated/%s.lean changed (source differs from the committed extraction)" % pid)
    else:
        os.remove(tmp)
    return True, "", len(reg["extract"])


# ----------------------------------------------------------------------------
# stage 1: proof obligations
# ----------------------------------------------------------------------------

def import_closure(mods):
    seen, todo = set(), list(mods)
    while todo:
        m = todo.pop()
        if m in seen or not m.startswith("Goloop"):
            continue
        path = os.path.join(LEAN, *m.split(".")) + ".lean"
        if not os.path.exists(path):
            continue
        seen.add(m)
        for line in open(path, encoding="utf-8"):
            mm = re.match(r"\s*(?:public\s+)?import\s+(?:all\s+)?([\w.]+)", line)
            if mm:
                todo.append(mm.group(1))
    return sorted(seen)


def strip_comments(src):
    # block comments (nesting handled iteratively), then line comments
    out, depth, i, n = [], 0, 0, len(src)
    while i < n:
        if src.startswith("/-", i):
            depth += 1
            i += 2
        elif depth and src.startswith("-/", i):
            depth -= 1
            i += 2
        elif depth:
            if src[i] == "\n":
                out.append("\n")
            i += 1
        elif src.startswith("--", i):
            while i < n and src[i] != "\n":
                i += 1
        else:
            out.append(src[i])
            i += 1
    return "".join(out)


def token_audit(mods):
    hits = []
    for m in import_closure(mods):
        path = os.path.join(LEAN, *m.split(".")) + ".lean"
        src = strip_comments(open(path, encoding="utf-8").read())
        # string literals may legitimately contain words; drop them
        src = re.sub(r'"(?:\\.|[^"\\])*"', '""', src)
        for mm in FORBIDDEN.finditer(src):
            line = src.count("\n", 0, mm.start()) + 1
            hits.append("%s:%d: %s" % (os.path.relpath(path, VERIF), line, mm.group(0).strip()))
    return hits


def lake_build(targets, timeout=3000):
    return run(["lake", "build"] + targets, cwd=LEAN, timeout=timeout)


def axiom_audit(reg, workdir):
    """Returns dict theorem -> ('ok', [axioms]) | ('missing', msg) | ('bad-axioms', [axioms])."""
    thms = [t["name"] for t in reg["theorems"]]
    if not thms:
        return {}
    src = "".join("import %s\n" % m for m in reg["modules"])
    src += "".join("#print axioms %s\n" % t for t in thms)
    f = os.path.join(workdir, "Audit.lean")
    open(f, "w").write(src)
    rc, out, _ = run(["lake", "env", "lean", f], cwd=LEAN, timeout=1200)
    res = {}
    flat = re.sub(r"\s+", " ", out)
    for t in thms:
        short = t
        m = re.search(r"'%s' depends on axioms: \[([^\]]*)\]" % re.escape(short), flat)
        if m:
            ax = [a.strip() for a in m.group(1).split(",") if a.strip()]
            if set(ax) <= ALLOWED_AXIOMS:
                res[t] = ("ok", ax)
            else:
                res[t] = ("bad-axioms", ax)
        elif re.search(r"'%s' does not depend on any axioms" % re.escape(short), flat):
            res[t] = ("ok", [])
        else:
            res[t] = ("missing", "no '#print axioms' result (theorem absent or module failed to load)")
    if rc != 0:
        for t in thms:
            if res[t][0] == "ok":
                continue
        res["__log__"] = ("log", out[-3000:])
    return res


def failing_decls(build_out):
    """Best effort: map `error: File.lean:LINE:` lines of a failed lake build to declaration names."""
    names = []
    for m in re.finditer(r"error: ([\w/\.]+\.lean):(\d+):(\d+): (.*)", build_out):
        path, line = m.group(1), int(m.group(2))
        full = path if os.path.isabs(path) else os.path.join(LEAN, path)
        decl = None
        try:
            lines = open(full, encoding="utf-8").read().split("\n")
            for i in range(min(line, len(lines)) - 1, -1, -1):
                mm = re.match(r"\s*(?:@\[[^\]]*\]\s*)?(?:private\s+|protected\s+)?(theorem|lemma|def|example|instance|abbrev)\s+([^\s:({\[]+)?", lines[i])
                if mm:
                    decl = "%s %s" % (mm.group(1), mm.group(2) or "")
                    break
        except OSError:
            pass
        names.append("%s:%d %s — %s" % (path, line, decl or "?", m.group(4)[:160]))
    return names


# ----------------------------------------------------------------------------
# stage 2+3: correspondence and oracle
# ----------------------------------------------------------------------------

def _install_text(dst, text):
    """atomic, and a no-op when unchanged: checks of different properties may run concurrently"""
    try:
        if open(dst).read() == text:
            return
    except OSError:
        pass
    tmp = "%s.%d.tmp" % (dst, os.getpid())
    with open(tmp, "w") as f:
        f.write(text)
    os.replace(tmp, dst)


def _install_file(src, dst):
    _install_text(dst, open(src).read())


def build_harness(pid, reg):
    os.makedirs(BUILD, exist_ok=True)
    cmd = ["go", "build", "-tags", "verif," + reg["go_tag"]]
    if os.path.realpath(REPO) == "/repo":
        _install_file(os.path.join(REPO, "go.sum"), os.path.join(HARNESS, "go.sum"))
        out = os.path.join(BUILD, "harness_" + pid)
    else:
        # scratch worktree (VERIF_REPO=/tmp/wt-x): alternate go.mod with another replace target
        tag = hashlib.sha1(os.path.realpath(REPO).encode()).hexdigest()[:8]
        alt = os.path.join(BUILD, "alt_%s.mod" % tag)
        mod = open(os.path.join(HARNESS, "go.mod")).read().replace("=> /repo", "=> " + os.path.realpath(REPO))
        _install_text(alt, mod)
        _install_file(os.path.join(REPO, "go.sum"), alt[:-4] + ".sum")
        cmd += ["-modfile", alt]
        out = os.path.join(BUILD, "harness_%s_%s" % (pid, tag))
    tmpout = "%s.%d.tmp" % (out, os.getpid())
    rc, o, dt = run(cmd + ["-o", tmpout, "."], cwd=HARNESS, env=GOENV, timeout=3000)
    if rc != 0:
        if os.path.exists(tmpout):
            os.remove(tmpout)
        return None, o, dt
    os.replace(tmpout, out)
    return out, o, dt


def driver_path(reg):
    return os.path.join(LEAN, ".lake", "build", "bin", reg["driver"])


def read_lines(p):
    with open(p, encoding="utf-8", errors="replace") as f:
        return f.read().split("\n")[:-1] if os.path.getsize(p) else []


def _short(x, n=400):
    """evidence files stay small: long op lines (megabyte payloads) are abbreviated"""
    return x if len(x) <= n else x[:n] + "...[%d chars]" % len(x)


def segments(ops):
    """Split an op list into cases: runs between `reset` lines; if there is no reset, every line is a case."""
    if not any(l.startswith("reset") for l in ops):
        return [(i, i + 1) for i in range(len(ops))]
    segs, start = [], 0
    for i, l in enumerate(ops):
        if l.startswith("reset"):
            if i > start:
                segs.append((start, i))
            start = i
    if len(ops) > start:
        segs.append((start, len(ops)))
    return segs


def run_case(pid, reg, hbin, workdir, opsfile, tag, need_model=True, timeout=1800):
    """Runs impl (+oracle) and the Lean model on one ops file. Returns dict."""
    implf = os.path.join(workdir, tag + ".impl")
    modelf = os.path.join(workdir, tag + ".model")
    orcf = os.path.join(workdir, tag + ".oracle.json")
    env = dict(GOENV, TMPDIR=workdir, GOMEMLIMIT="12GiB")
    rc, out, dt_impl = run([hbin, pid, "impl", "-ops", opsfile, "-out", implf, "-oracle", orcf], env=env, timeout=timeout)
    res = {"ops": read_lines(opsfile), "impl_rc": rc, "impl_log": out[-2000:], "dt_impl": dt_impl}
    res["impl"] = read_lines(implf) if os.path.exists(implf) else []
    res["oracle"] = json.load(open(orcf)) if os.path.exists(orcf) else {"checks": 0, "fails": [{"line": 0, "op": "", "key": "harness-crash", "what": "implementation run crashed: " + out[-500:]}], "stats": {}}
    if rc != 0 and os.path.exists(orcf):
        res["oracle"].setdefault("fails", [])
        res["oracle"]["fails"] = (res["oracle"]["fails"] or []) + [{"line": len(res["impl"]), "op": "", "key": "harness-crash", "what": "implementation run exited %d: %s" % (rc, out[-500:])}]
    res["model"] = None
    if need_model:
        drv = driver_path(reg)
        if os.path.exists(drv):
            with open(opsfile, "rb") as fin, open(modelf, "wb") as fout:
                rc2, err, dt_model = run([drv], stdin=fin, stdout=fout, timeout=timeout)
            res["model"] = read_lines(modelf)
            res["model_rc"] = rc2
            res["dt_model"] = dt_model
            if rc2 != 0:
                res["model_err"] = err[-1000:]
    return res


def compare(res):
    """Returns list of mismatching line indices (model vs impl)."""
    if res["model"] is None:
        return None
    a, b = res["impl"], res["model"]
    mism = [i for i in range(min(len(a), len(b))) if a[i] != b[i]]
    if len(a) != len(b):
        mism.append(min(len(a), len(b)))
    return mism


def segment_of(ops, idx):
    for s, e in segments(ops):
        if s <= idx < e:
            return s, e
    return max(0, idx), idx + 1


def write_replay(pid, kind, payload):
    os.makedirs(REPLAYS, exist_ok=True)
    path = os.path.join(REPLAYS, "%s_%s.json" % (pid, kind))
    payload = dict(payload, property=pid, kind=kind, written_by="/verif/check",
                   how_to_replay="./check %s --replay %s" % (pid, path))
    with open(path, "w") as f:
        json.dump(payload, f, indent=1)
    return path


# ----------------------------------------------------------------------------
# main check
# ----------------------------------------------------------------------------

def check(pid, tier, seed):
    t0 = time.time()
    reg = load_registry(pid)
    if reg is None:
        log("property %s is not registered" % pid)
        return 2
    cfg = dict({"n": 2000, "seeds": 1, "search_seeds": 6, "search_time": 120}, **reg["quick"])
    if tier == "thorough":
        cfg = dict(cfg, **dict({"n": cfg["n"] * 10, "seeds": 6, "search_seeds": 20, "search_time": 900}, **reg["thorough"]))
    workdir = tempfile.mkdtemp(prefix="verif-%s-" % pid)
    try:
        return _check(pid, tier, seed, reg, cfg, workdir, t0)
    finally:
        shutil.rmtree(workdir, ignore_errors=True)


def _check(pid, tier, seed, reg, cfg, workdir, t0):
    obligations = []   # list of dict(name, kind, ok, detail)
    proof_problems = []
    # ---- stage 0: regenerate
    ok, msg, anchors = regenerate(pid, reg)
    for a in reg["extract"]:
        obligations.append({"name": "extract:" + a, "kind": "anchor", "ok": ok, "detail": "" if ok else msg[:300]})
    if not ok:
        proof_problems.append("translator: " + msg)
    # ---- stage 1: build + audits
    rc, out, dt_build = lake_build(reg["modules"] + [reg["driver"]])
    build_ok = rc == 0
    if not build_ok:
        decls = failing_decls(out)
        proof_problems.append("lake build failed: " + ("; ".join(decls[:8]) if decls else out[-1500:]))
        # try to keep the model driver alive for the search
        rc2, out2, _ = lake_build([reg["driver"]])
        if rc2 != 0:
            log("model driver does not build either")
    log("lake build %s: %s (%.1fs)" % (" ".join(reg["modules"]), "ok" if build_ok else "FAILED", dt_build))
    audit = axiom_audit(reg, workdir) if True else {}
    thm_report = []
    for t in reg["theorems"]:
        st = audit.get(t["name"], ("missing", "not audited"))
        okt = st[0] == "ok" and build_ok
        obligations.append({"name": t["name"], "kind": t.get("kind", "full"), "ok": okt,
                            "detail": ("axioms: " + ", ".join(st[1]) if st[0] == "ok" else "%s: %s" % (st[0], st[1]))})
        thm_report.append({"name": t["name"], "kind": t.get("kind", "full"), "says": t.get("says", ""),
                           "axioms": st[1] if st[0] in ("ok", "bad-axioms") else None, "status": st[0] if build_ok or st[0] != "ok" else "stale"})
        if not okt and st[0] != "ok":
            proof_problems.append("theorem %s: %s %s" % (t["name"], st[0], st[1]))
    hits = token_audit(reg["modules"])
    obligations.append({"name": "token-audit(sorry|admit|axiom|native_decide|bv_decide|implemented_by|unsafe|maxHeartbeats 0)", "kind": "audit", "ok": not hits, "detail": "; ".join(hits[:5])})
    if hits:
        proof_problems.append("forbidden tokens: " + "; ".join(hits[:5]))
    if tier == "thorough" and build_ok:
        rc, out, dt = run(["lake", "env", "leanchecker"] + reg["modules"], cwd=LEAN, timeout=3000)
        obligations.append({"name": "leanchecker " + " ".join(reg["modules"]), "kind": "recheck", "ok": rc == 0, "detail": out[-300:] if rc else ""})
        if rc != 0:
            proof_problems.append("leanchecker failed: " + out[-800:])
        log("leanchecker: %s (%.1fs)" % ("ok" if rc == 0 else "FAILED", dt))
    # ---- stage 2: harness
    hbin, hout, dt_h = build_harness(pid, reg)
    corr_problems = []
    oracle_fails = []
    totals = {"lines": 0, "oracle_checks": 0, "mismatches": 0, "runs": 0}
    stats = {}
    seen_cases = set()
    nontrivial = 0
    samples = []
    trivial = set(reg["trivial_outputs"])

    def account(res):
        nonlocal nontrivial
        totals["lines"] += len(res["ops"])
        totals["oracle_checks"] += res["oracle"].get("checks", 0)
        totals["runs"] += 1
        for k, v in (res["oracle"].get("stats") or {}).items():
            stats[k] = stats.get(k, 0) + v
        ops, impl = res["ops"], res["impl"]
        for s, e in segments(ops):
            h = hashlib.sha1("\n".join(ops[s:e]).encode()).digest()[:10]
            if h in seen_cases:
                continue
            seen_cases.add(h)
            outs = impl[s:e]
            if any(o not in trivial for k, o in enumerate(outs) if not ops[s + k].startswith("reset")):
                nontrivial += 1
                if len(samples) < 4 and (e - s) <= 40:
                    samples.append({"ops": [_short(x) for x in ops[s:e]], "impl_out": [_short(x) for x in outs]})
        for f in res["oracle"].get("fails") or []:
            oracle_fails.append((res, f))

    def one_run(opsfile, tag, need_model=True):
        res = run_case(pid, reg, hbin, workdir, opsfile, tag, need_model=need_model)
        account(res)
        mism = compare(res)
        if mism is None and need_model:
            corr_problems.append({"tag": tag, "what": "model driver unavailable"})
        elif mism:
            totals["mismatches"] += len(mism)
            i = mism[0]
            s, e = segment_of(res["ops"], i)
            corr_problems.append({"tag": tag, "line": i, "ops": res["ops"][s:i + 1],
                                  "impl": res["impl"][s:i + 1], "model": (res["model"] or [])[s:i + 1],
                                  "what": "model and implementation differ at op %d: %r -> impl %r, model %r" % (
                                      i, res["ops"][i] if i < len(res["ops"]) else "<eof>",
                                      res["impl"][i] if i < len(res["impl"]) else "<missing>",
                                      res["model"][i] if res["model"] and i < len(res["model"]) else "<missing>")})
        if need_model and res.get("model_rc", 0) != 0:
            corr_problems.append({"tag": tag, "what": "model driver exited %s: %s" % (res.get("model_rc"), res.get("model_err", ""))})
        return res

    if hbin is None:
        corr_problems.append({"tag": "build", "what": "harness does not build against the current tree: " + hout[-1500:]})
        log("harness build FAILED")
    else:
        log("harness build ok (%.1fs)" % dt_h)
        for f in sorted(glob.glob(os.path.join(VERIF, "corpus", pid, "*.ops"))):
            one_run(f, "corpus-" + os.path.basename(f)[:-4])
        for i in range(cfg["seeds"]):
            s = (seed * 1000003 + i) & 0x7fffffff
            opsfile = os.path.join(workdir, "gen-%d.ops" % i)
            rc, o, _ = run([hbin, pid, "gen", "-seed", str(s), "-n", str(cfg["n"]), "-tier", tier, "-ops", opsfile], env=GOENV, timeout=1800)
            if rc != 0:
                corr_problems.append({"tag": "gen", "what": "generator failed: " + o[-800:]})
                break
            r = one_run(opsfile, "gen-%d" % i)
            log("seed %d: %d ops, impl %.1fs, model %.1fs, oracle checks %d" % (s, len(r["ops"]), r["dt_impl"], r.get("dt_model", 0), r["oracle"].get("checks", 0)))
            os.remove(opsfile)

    # ---- directed search when a proof or the correspondence is broken
    broken = bool(proof_problems or corr_problems)
    if broken and not oracle_fails and hbin is not None:
        log("proof/correspondence broken; searching the implementation for a failing input (time box %ds)" % cfg["search_time"])
        ts = time.time()
        # first: the disagreeing op sequences themselves, as own cases
        for k, c in enumerate(corr_problems[:5]):
            if "ops" in c:
                f = os.path.join(workdir, "dis-%d.ops" % k)
                open(f, "w").write("\n".join(c["ops"]) + "\n")
                one_run(f, "dis-%d" % k, need_model=False)
        i = 0
        while not oracle_fails and i < cfg["search_seeds"] and time.time() - ts < cfg["search_time"]:
            s = (seed * 7919 + 104729 * (i + 1)) & 0x7fffffff
            opsfile = os.path.join(workdir, "search-%d.ops" % i)
            rc, o, _ = run([hbin, pid, "gen", "-seed", str(s), "-n", str(cfg["n"] * 2), "-tier", "thorough", "-ops", opsfile], env=GOENV, timeout=1800)
            if rc != 0:
                break
            one_run(opsfile, "search-%d" % i, need_model=False)
            os.remove(opsfile)
            i += 1

    # ---- verdict
    known = known_findings(pid)
    violations, known_hits = [], {}
    for res, f in oracle_fails:
        k = next((e for e in known if e.get("key") == f.get("key") or (e.get("key_re") and re.search(e["key_re"], f.get("key", "")))), None)
        if k is not None:
            known_hits.setdefault(k["key"] if "key" in k else k["key_re"], (k, f))
        else:
            violations.append((res, f))
    for key, (k, f) in known_hits.items():
        print("KNOWN-FINDING: property=%s %s [%s]" % (pid, k.get("what", ""), key))
    exit_code = 0
    replay = None
    if violations:
        res, f = violations[0]
        ln = max(0, f.get("line", 1) - 1)
        s, e = segment_of(res["ops"], ln)
        replay = write_replay(pid, "oracle", {
            "what": f.get("what"), "key": f.get("key"), "failing_op": f.get("op"),
            "ops": res["ops"][s:ln + 1], "impl_out": res["impl"][s:ln + 1],
            "proof_problems": proof_problems, "correspondence_problems": [c["what"] for c in corr_problems][:5],
            "distinct_failure_keys": sorted({v[1].get("key", "") for v in violations})})
        print("VIOLATION property=%s replay=%s" % (pid, replay))
        exit_code = 1
    elif broken:
        # Known findings may legitimately make a `_partial` situation; but a broken
        # proof / correspondence with no failing input is still a violation.
        replay = write_replay(pid, "unproved", {
            "what": "the property is no longer shown to hold: a proof obligation or the model/implementation correspondence does not check, and the search found no failing input",
            "proof_problems": proof_problems,
            "correspondence_problems": corr_problems[:5]})
        print("VIOLATION property=%s replay=%s no-failing-input-found" % (pid, replay))
        exit_code = 1

    # ---- evidence
    n_obl = len(obligations)
    n_ok = sum(1 for o in obligations if o["ok"])
    trusted = ["Lean 4.33.0 kernel" + (" + leanchecker re-check" if tier == "thorough" else ""),
               "axioms used by the property theorems: " + (", ".join(sorted({a for t in thm_report for a in (t["axioms"] or [])})) or "none"),
               "correspondence harness /verif/harness (Go, build tag verif) and its generators/canonicalisation",
               "Lean compiler for the executable model driver (lean_exe %s)" % reg["driver"]]
    if reg["extract"]:
        trusted.append("go/ast extractor /verif/tools/extract (translator for Generated/%s.lean)" % pid)
    trusted += ["modelled, not verified: " + m for m in reg["modelled_not_verified"]]
    ev = {
        "property_id": pid, "tier": tier, "seed": seed, "level": "proof",
        "coverage": {
            "obligations": n_obl, "discharged": n_ok,
            "checker_cmd": "cd /verif/lean && lake build %s && lake env lean <#print axioms audit>%s" % (" ".join(reg["modules"]), " && lake env leanchecker " + " ".join(reg["modules"]) if tier == "thorough" else ""),
            "trusted_base": trusted,
            "theorems": thm_report,
            "obligation_list": obligations,
            "evaluations": totals["lines"],
            "distinct_nontrivial": nontrivial,
            "rule": (reg["rule"] + " | " if reg["rule"] else "") + "generated op sequences (single PRNG seeded by VERIF_SEED) run on the real code and on the compiled Lean model; a case is one op line (stateless) or the ops between two `reset` lines (stateful); distinct = distinct op text (sha1); non-trivial = at least one implementation output outside %s" % sorted(trivial),
            "samples": samples or [{"note": "no correspondence samples in this run"}],
            "correspondence": dict(totals, distinct_cases=len(seen_cases), stats=stats),
            "known_findings_hit": sorted(known_hits.keys()),
            "proof_problems": [_short(x, 2000) for x in proof_problems], "correspondence_problems": [_short(c["what"], 2000) for c in corr_problems][:10],
        },
        "assumptions": reg["assumptions"],
        "wall_s": round(time.time() - t0, 2),
        "violations": (len(violations) if violations else (1 if broken else 0)),
    }
    os.makedirs(EVID, exist_ok=True)
    with open(os.path.join(EVID, pid + ".json"), "w") as f:
        json.dump(ev, f, indent=1)
    log("%s %s: obligations %d/%d, ops %d, distinct non-trivial cases %d, mismatches %d, oracle checks %d, oracle failures %d (known %d) -> exit %d (%.1fs)" % (
        pid, tier, n_ok, n_obl, totals["lines"], nontrivial, totals["mismatches"], totals["oracle_checks"], len(oracle_fails), len(oracle_fails) - len(violations), exit_code, time.time() - t0))
    return exit_code


def replay(pid, path):
    reg = load_registry(pid)
    data = json.load(open(path))
    ops = data.get("ops") or (data.get("correspondence_problems") or [{}])[0].get("ops")
    if not ops:
        print("replay file holds no op sequence (it names the broken obligation):")
        print(json.dumps({k: data[k] for k in ("what", "proof_problems", "correspondence_problems") if k in data}, indent=1))
        return 0
    workdir = tempfile.mkdtemp(prefix="verif-replay-")
    try:
        lake_build([reg["driver"]])
        hbin, hout, _ = build_harness(pid, reg)
        if hbin is None:
            print(hout)
            return 2
        f = os.path.join(workdir, "replay.ops")
        open(f, "w").write("\n".join(ops) + "\n")
        res = run_case(pid, reg, hbin, workdir, f, "replay")
        for i, op in enumerate(res["ops"]):
            print("%-60s impl=%s model=%s" % (op[:60], res["impl"][i] if i < len(res["impl"]) else "?", res["model"][i] if res["model"] and i < len(res["model"]) else "?"))
        fails = res["oracle"].get("fails") or []
        for fl in fails:
            print("ORACLE-FAIL line %s: [%s] %s" % (fl.get("line"), fl.get("key"), fl.get("what")))
        return 1 if fails or compare(res) else 0
    finally:
        shutil.rmtree(workdir, ignore_errors=True)


def setup():
    """Builds everything the claimed checks need (offline). Unclaimed (in-progress) properties are
    attempted too but their failure is not fatal."""
    t0 = time.time()
    os.makedirs(BUILD, exist_ok=True)
    props = all_props()
    claimed = [p for p in props if json.load(open(os.path.join(LEAN, "registry", p + ".json"))).get("claimed")]
    rc_all = 0
    for group, fatal in ((claimed, True), ([p for p in props if p not in claimed], False)):
        if not group:
            continue
        mods, drivers = [], []
        for p in group:
            r = load_registry(p)
            mods += r["modules"]
            drivers.append(r["driver"])
        log("lake build (%d property modules, %d drivers)%s" % (len(mods), len(drivers), "" if fatal else " [unclaimed, non-fatal]"))
        rc, out, dt = lake_build(mods + drivers, timeout=7200)
        print(out[-2000:])
        if rc != 0:
            log("lake build FAILED")
            if fatal:
                rc_all = 1
        for p in group:
            r = load_registry(p)
            hbin, hout, dt = build_harness(p, r)
            log("harness %s: %s (%.1fs)" % (p, "ok" if hbin else "FAILED", dt))
            if hbin is None:
                print(hout[-2000:])
                if fatal:
                    rc_all = 1
    log("setup done in %.0fs, status %d" % (time.time() - t0, rc_all))
    return rc_all


def main(argv):
    if not argv:
        print(__doc__)
        return 2
    if argv[0] == "--setup":
        return setup()
    seed = int(os.environ.get("VERIF_SEED", "1") or "1")
    if argv[0] == "--all":
        tier = argv[1] if len(argv) > 1 else "quick"
        bad = []
        for p in all_props():
            if check(p, tier, seed) != 0:
                bad.append(p)
        log("failed: %s" % (" ".join(bad) or "none"))
        return 1 if bad else 0
    pid = argv[0]
    if len(argv) >= 3 and argv[1] == "--replay":
        return replay(pid, argv[2])
    tier = argv[1] if len(argv) > 1 else os.environ.get("VERIF_TIER", "quick")
    if tier not in ("quick", "thorough"):
        print("tier must be quick or thorough")
        return 2
    return check(pid, tier, seed)
