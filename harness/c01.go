//go:build c01 || c02 || all

package main

// C01 / C02: one REAL consensus engine (consensus.New on a test.Node of a
// 4..7-validator fixture) driven event by event; the other validators are played
// by the harness (it owns their wallets).  Timers are fired explicitly through
// the verif hook, BlockManager callbacks are awaited after every event, the
// WALs are an in-memory WALManager owned by the harness (record granular crash),
// every externally visible effect (WAL write, WAL sync, signed message handed
// to the network, Finalize) is recorded in program order.

import (
	"bytes"
	"encoding/binary"
	"encoding/hex"
	"fmt"
	"io"
	"os"
	"path"
	"runtime/debug"
	"sort"
	"strconv"
	"strings"
	"sync"
	"time"

	"github.com/icon-project/goloop/block"
	"github.com/icon-project/goloop/chain/base"
	"github.com/icon-project/goloop/common/codec"
	"github.com/icon-project/goloop/common/log"
	"github.com/icon-project/goloop/consensus"
	"github.com/icon-project/goloop/consensus/fastsync"
	"github.com/icon-project/goloop/module"
	"github.com/icon-project/goloop/test"
)

func init() {
	Register(&Prop{ID: "C01", Gen: c01Gen, New: func() Runner { return c01NewRunner("C01") }})
}

// ---------------------------------------------------------------- test.T shim

type c01T struct {
	mu   sync.Mutex
	errs []string
}

func (t *c01T) Errorf(format string, args ...interface{}) {
	t.mu.Lock()
	defer t.mu.Unlock()
	t.errs = append(t.errs, fmt.Sprintf(format, args...))
	if os.Getenv("VERIF_DEBUG") != "" {
		fmt.Fprintf(os.Stderr, "fixture error: "+format+"\n", args...)
	}
}
func (t *c01T) Logf(format string, args ...any) {}

// ---------------------------------------------------------------- effect sink

type c01Sink struct {
	mu     sync.Mutex
	effs   []string
	dead   bool
	budget int // effects still allowed before the process "dies"; <0 = unlimited
	r      *c01Runner
}

// add records an effect; false means the process is dead and the effect must not happen.
func (s *c01Sink) add(e string) bool {
	s.mu.Lock()
	defer s.mu.Unlock()
	if s.dead {
		return false
	}
	if s.budget == 0 {
		s.dead = true
		return false
	}
	if s.budget > 0 {
		s.budget--
	}
	s.effs = append(s.effs, e)
	return true
}

func (s *c01Sink) take() []string {
	s.mu.Lock()
	defer s.mu.Unlock()
	e := s.effs
	s.effs = nil
	return e
}

// ---------------------------------------------------------------- WAL

type c01WalData struct {
	synced   [][]byte
	buffered [][]byte
}

type c01WAL struct {
	sink *c01Sink
	data map[string]*c01WalData
	// file mode: the engine's REAL file WAL (consensus.OpenWALForWrite / OpenWALForRead) under dir; the
	// in-memory data is kept as a shadow (effect log + durable-before-send oracle)
	file    bool
	writers map[string]*c01WalWriter
}

func c01NewWAL(sink *c01Sink) *c01WAL {
	return &c01WAL{sink: sink, data: map[string]*c01WalData{"round": {}, "lock": {}, "commit": {}}, writers: map[string]*c01WalWriter{}}
}

func (w *c01WAL) get(id string) (string, *c01WalData) {
	k := path.Base(id)
	d := w.data[k]
	if d == nil {
		panic("bad wal id " + id)
	}
	return k, d
}

func (w *c01WAL) OpenForRead(id string) (consensus.WALReader, error) {
	if w.file {
		return consensus.OpenWALForRead(id)
	}
	_, d := w.get(id)
	w.sink.mu.Lock()
	defer w.sink.mu.Unlock()
	return &c01WalReader{data: append([][]byte(nil), d.synced...)}, nil
}

func (w *c01WAL) OpenForWrite(id string, cfg *consensus.WALConfig) (consensus.WALWriter, error) {
	k, d := w.get(id)
	ww := &c01WalWriter{w: w, k: k, d: d}
	if w.file {
		real, err := consensus.OpenWALForWrite(id, cfg)
		if err != nil {
			return nil, err
		}
		ww.real, ww.id = real, id
		v := consensus.VerifC03WriterOf(real)
		if fi, err := os.Stat(consensus.VerifC03FileFor(id, v.TailIdx())); err == nil {
			ww.syncedSize = fi.Size()
		}
		w.writers[k] = ww
	}
	return ww, nil
}

// crash: k unsynced records of every WAL survive.  File mode: the process dies without Close; the tail
// file keeps the synced bytes plus the first k unsynced frames, plus — if there is a further frame —
// either `tear` bytes of it (torn record) or, with corrupt set, the whole frame with one payload byte
// flipped (full length, CRC mismatch).
func (w *c01WAL) crash(k, tear int, corrupt bool) {
	for _, d := range w.data {
		n := k
		if n > len(d.buffered) {
			n = len(d.buffered)
		}
		d.synced = append(d.synced, d.buffered[:n]...)
		d.buffered = nil
	}
	if !w.file {
		return
	}
	for key, ww := range w.writers {
		v := consensus.VerifC03WriterOf(ww.real)
		file := consensus.VerifC03FileFor(ww.id, v.TailIdx())
		_ = v.Crash()
		keep := ww.syncedSize
		i := 0
		for ; i < k && i < len(ww.frames); i++ {
			keep += int64(ww.frames[i])
		}
		corruptAt := int64(-1)
		if i < len(ww.frames) {
			if corrupt {
				keep += int64(ww.frames[i])
				corruptAt = keep - 1
			} else if tear > 0 {
				t := tear
				if t > ww.frames[i]-1 {
					t = ww.frames[i] - 1
				}
				keep += int64(t)
			}
		}
		if err := os.Truncate(file, keep); err != nil {
			panic(err)
		}
		if corruptAt >= 0 {
			f, err := os.OpenFile(file, os.O_RDWR, 0)
			if err != nil {
				panic(err)
			}
			b := []byte{0}
			if _, err := f.ReadAt(b, corruptAt); err != nil {
				panic(err)
			}
			b[0] ^= 0x5a
			if _, err := f.WriteAt(b, corruptAt); err != nil {
				panic(err)
			}
			f.Close()
		}
		delete(w.writers, key)
	}
}

type c01WalReader struct{ data [][]byte }

func (r *c01WalReader) ReadBytes() ([]byte, error) {
	if len(r.data) == 0 {
		return nil, io.EOF
	}
	m := r.data[0]
	r.data = r.data[1:]
	return m, nil
}
func (r *c01WalReader) Close() error          { return nil }
func (r *c01WalReader) CloseAndRepair() error { return nil }

type c01WalWriter struct {
	w *c01WAL
	k string
	d *c01WalData
	// file mode
	real       consensus.WALWriter
	id         string
	syncedSize int64 // bytes of the tail file known to be synced
	frames     []int // frame lengths (header + payload) written since the last sync
}

func (w *c01WalWriter) WriteBytes(bs []byte) (int, error) {
	cp := append([]byte(nil), bs...)
	if w.w.sink.add("w" + w.k[:1] + ":" + w.w.sink.r.canonRecord(cp)) {
		w.w.sink.mu.Lock()
		w.d.buffered = append(w.d.buffered, cp)
		w.w.sink.mu.Unlock()
		if w.real != nil {
			if _, err := w.real.WriteBytes(bs); err != nil {
				return 0, err
			}
			w.frames = append(w.frames, consensus.VerifC03HeaderLen+len(bs))
		}
	}
	return len(bs), nil
}

func (w *c01WalWriter) Sync() error {
	if w.w.sink.add("s" + w.k[:1]) {
		w.w.sink.mu.Lock()
		w.d.synced = append(w.d.synced, w.d.buffered...)
		w.d.buffered = nil
		w.w.sink.mu.Unlock()
		if w.real != nil {
			if err := w.real.Sync(); err != nil {
				return err
			}
			for _, f := range w.frames {
				w.syncedSize += int64(f)
			}
			w.frames = nil
		}
	}
	return nil
}

// Close is only reached through Term() when the harness kills the engine; nothing is flushed (the real
// file writer is dropped by c01WAL.crash without Close).
func (w *c01WalWriter) Close() error { return nil }

// ---------------------------------------------------------------- chain / network wrappers

type c01Chain struct {
	*test.Chain
	nm module.NetworkManager
}

func (c *c01Chain) NetworkManager() module.NetworkManager { return c.nm }

type c01NM struct {
	module.NetworkManager
	sink *c01Sink
}

func (n *c01NM) RegisterReactor(name string, pi module.ProtocolInfo, reactor module.Reactor, piList []module.ProtocolInfo, priority uint8, policy module.NotRegisteredProtocolPolicy) (module.ProtocolHandler, error) {
	ph, err := n.NetworkManager.RegisterReactor(name, pi, reactor, piList, priority, policy)
	if err != nil || name != "consensus" {
		return ph, err
	}
	return &c01PH{ProtocolHandler: ph, sink: n.sink}, nil
}

type c01PH struct {
	module.ProtocolHandler
	sink *c01Sink
}

func (p *c01PH) out(pi module.ProtocolInfo, b []byte) bool {
	switch pi {
	case consensus.ProtoProposal, consensus.ProtoVote:
		return p.sink.r.onSigned(pi, b)
	case consensus.ProtoBlockPart:
		p.sink.r.onOwnBlockPart(b)
	}
	return !p.sink.dead
}

func (p *c01PH) Broadcast(pi module.ProtocolInfo, b []byte, bt module.BroadcastType) error {
	if p.out(pi, b) {
		return p.ProtocolHandler.Broadcast(pi, b, bt)
	}
	return nil
}

func (p *c01PH) Multicast(pi module.ProtocolInfo, b []byte, role module.Role) error {
	if p.out(pi, b) {
		return p.ProtocolHandler.Multicast(pi, b, role)
	}
	return nil
}

// ---------------------------------------------------------------- block manager wrapper

type c01BM struct {
	module.BlockManager
	sink *c01Sink
}

func (m *c01BM) Finalize(bc module.BlockCandidate) error {
	if m.sink.r != nil && m.sink.r.watch(m) {
		if !m.sink.add(fmt.Sprintf("F.%d.%s", bc.Height(), m.sink.r.labelOfBlockID(bc.ID()))) {
			return nil // dead: nothing reaches the database
		}
		m.sink.r.onFinalize(bc.Height(), bc.ID())
	}
	return m.BlockManager.Finalize(bc)
}

// the fixture's ServiceManager has no SendDoubleSignReport (nil embedded interface); the engine calls it
// when the harness plays an equivocating validator.
type c01SM struct {
	module.ServiceManager
	r *c01Runner
}

func (m *c01SM) SendDoubleSignReport(result []byte, vh []byte, data []module.DoubleSignData) error {
	if m.r.o != nil {
		m.r.o.Count("double-sign-report")
	}
	return nil
}

// ---------------------------------------------------------------- runner

type c01Block struct {
	label   int
	id      []byte
	psid    *consensus.PartSetID
	part    []byte // the single block part
	ts      int64
	height  int64
	blkData module.BlockData
}

type c01Runner struct {
	prop string
	t    *c01T
	sink *c01Sink
	wal  *c01WAL

	n, me   int
	fx      *test.Fixture
	node    *test.Node
	bm      *c01BM
	wallets []module.Wallet
	addrIdx map[string]int
	nidBS   []byte
	genesis string
	up      bool
	everUp  bool

	byLabel map[int]*c01Block
	byPSID  map[string]*c01Block
	byBID   map[string]*c01Block
	// own proposals learnt from the wire: psid hash -> label; block part bytes follow
	lastOwnProposal *c01Block
	appData         uint64 // NID bits used by the engine in its own votes (learnt)
	appDataKnown    bool

	// oracle state, over the whole history of this case (across restarts)
	o         *Oracle
	sentVotes map[string]string // "t.h.r" -> value
	sentProps map[string]string // "h.r" -> "b.pol"
	finalized map[int64]string  // height -> label
	delivered map[string]bool   // votes handed to the engine "sg.t.h.r.v"
	myPrecommits []c01Own       // in order
	restartsAt   []int          // len(myPrecommits) at each restart
	walDir       string          // file mode: directory of the real file WALs
	kills        int             // crashes so far (= process lives - 1)
	sentRaw      map[string][]byte // signed bytes per (type,h,r) / (h,r)
	pvKeys       map[string]bool // "h/r/v" of prevotes shown to the engine
	nodesToClose []*test.Node
}

type c01Own struct {
	t    int
	h, r int64
	v    string
}

func c01NewRunner(prop string) *c01Runner {
	r := &c01Runner{prop: prop, t: &c01T{}}
	return r
}

func (r *c01Runner) watch(m *c01BM) bool { return r.bm == m }

func (r *c01Runner) cleanup() {
	for _, n := range r.nodesToClose {
		func() {
			defer func() { recover() }()
			n.Close()
		}()
	}
	r.nodesToClose = nil
	if r.walDir != "" {
		// stop the housekeeping goroutines of writers that are still open before the directory goes away
		func() {
			defer func() { recover() }()
			r.wal.crash(1<<30, 0, false)
		}()
		os.RemoveAll(r.walDir)
	}
}

func c01PSIDKey(id *consensus.PartSetID) string {
	if id == nil {
		return ""
	}
	return hex.EncodeToString(id.Hash)
}

func (r *c01Runner) labelOfPSIDKey(k string) string {
	if k == "" {
		return "-"
	}
	if b := r.byPSID[k]; b != nil {
		return strconv.Itoa(b.label)
	}
	return "?" + k[:8]
}

func (r *c01Runner) labelOfBlockID(id []byte) string {
	if b := r.byBID[string(id)]; b != nil {
		return strconv.Itoa(b.label)
	}
	return "?" + hex.EncodeToString(id)[:8]
}

func (r *c01Runner) ownLabel(h int64, rd int32) int {
	// BlockManager.Propose yields the same block in every round of a height; a second distinct own
	// block at one height gets another label (and would show up as a disagreement with the model)
	lab := 8*(100+50*int(h)+r.kills) + r.me
	for r.byLabel[lab] != nil {
		lab += 8
	}
	return lab
}

func (r *c01Runner) canonVote(vm *consensus.VoteMessage) string {
	signer, h, rd, t, bid, psid := consensus.VerifVoteInfo(vm)
	idx, ok := r.addrIdx[string(signer.Bytes())]
	sg := "?"
	if ok {
		sg = strconv.Itoa(idx)
	}
	v := "-"
	if psid != nil {
		v = r.labelOfPSIDKey(hex.EncodeToString(psid))
		if b := r.byPSID[hex.EncodeToString(psid)]; b != nil && !bytes.Equal(b.id, bid) {
			v = "!" + v // part set id and block id do not belong together
		}
	}
	return fmt.Sprintf("V.%s.%d.%d.%d.%s", sg, t, h, rd, v)
}

func (r *c01Runner) canonProposal(pm *consensus.ProposalMessage) string {
	signer, h, rd, pol, psid := consensus.VerifProposalInfo(pm)
	idx, ok := r.addrIdx[string(signer.Bytes())]
	sg := "?"
	if ok {
		sg = strconv.Itoa(idx)
	}
	return fmt.Sprintf("P.%s.%d.%d.%s.%d", sg, h, rd, r.labelOfPSIDKey(hex.EncodeToString(psid)), pol)
}

// canonRecord canonicalises one WAL record (2 byte sub-protocol + message)
func (r *c01Runner) canonRecord(bs []byte) string {
	if len(bs) < 2 {
		return "short"
	}
	sp := binary.BigEndian.Uint16(bs[:2])
	m, err := consensus.UnmarshalMessage(sp, bs[2:])
	if err != nil {
		return "undecodable"
	}
	switch msg := m.(type) {
	case *consensus.ProposalMessage:
		// the block of an own proposal is learnt here (WAL write precedes the broadcast)
		r.learnOwnProposal(msg)
		return r.canonProposal(msg)
	case *consensus.VoteMessage:
		return r.canonVote(msg)
	case *consensus.VoteListMessage:
		if msg.VoteList.Len() == 0 {
			return "L.empty"
		}
		v0 := msg.VoteList.Get(0)
		_, h, rd, t, _, _ := consensus.VerifVoteInfo(v0)
		var idxs []int
		for i := 0; i < msg.VoteList.Len(); i++ {
			sg, _, _, _, _, _ := consensus.VerifVoteInfo(msg.VoteList.Get(i))
			idxs = append(idxs, r.addrIdx[string(sg.Bytes())])
		}
		sort.Ints(idxs)
		ss := make([]string, len(idxs))
		for i, x := range idxs {
			ss[i] = strconv.Itoa(x)
		}
		return fmt.Sprintf("L.%d.%d.%d.%s", t, h, rd, strings.Join(ss, ","))
	case *consensus.BlockPartMessage:
		for _, b := range r.byLabel {
			if bytes.Equal(b.part, msg.BlockPart) {
				return fmt.Sprintf("B.%d.%d", msg.Height, b.label)
			}
		}
		return fmt.Sprintf("B.%d.?", msg.Height)
	}
	return "other"
}

func (r *c01Runner) learnOwnProposal(pm *consensus.ProposalMessage) {
	signer, h, rd, _, psid := consensus.VerifProposalInfo(pm)
	if idx, ok := r.addrIdx[string(signer.Bytes())]; !ok || idx != r.me {
		return
	}
	k := hex.EncodeToString(psid)
	if r.byPSID[k] != nil {
		return
	}
	b := &c01Block{label: r.ownLabel(h, rd), psid: pm.BlockPartSetID, height: h}
	r.byPSID[k] = b
	r.byLabel[b.label] = b
	r.lastOwnProposal = b
}

func (r *c01Runner) onOwnBlockPart(bs []byte) {
	var bpm consensus.BlockPartMessage
	if _, err := codec.UnmarshalFromBytes(bs, &bpm); err != nil {
		return
	}
	b := r.lastOwnProposal
	if b == nil || b.part != nil {
		return
	}
	b.part = bpm.BlockPart
	ps := consensus.NewPartSetFromID(b.psid)
	if pt, err := consensus.NewPart(bpm.BlockPart); err == nil {
		if ps.AddPart(pt) == nil && ps.IsComplete() {
			if blk, err := r.node.BM.NewBlockDataFromReader(ps.NewReader()); err == nil {
				b.id = blk.ID()
				b.ts = blk.Timestamp()
				b.blkData = blk
				r.byBID[string(b.id)] = b
			}
		}
	}
}

func (r *c01Runner) onFinalize(h int64, id []byte) {
	lab := r.labelOfBlockID(id)
	if old, ok := r.finalized[h]; ok {
		r.o.Check(old == lab, "two-blocks-finalized-at-one-height", "height %d finalized %s and %s", h, old, lab)
	}
	r.finalized[h] = lab
	// finalized block == the block carried by +2/3 precommits of one round among everything the engine saw
	quorum := false
	for rd := int64(0); rd < 64 && !quorum; rd++ {
		quorum = r.countDelivered(1, h, rd, lab) > r.n*2/3
	}
	r.o.Check(quorum, "finalized-block-without-commit-quorum", "height %d: finalized block %s has no +2/3 precommits in any round among the votes shown to the engine", h, lab)
}

// onSigned: a signed proposal / vote is handed to the network.  Returns false if the
// process is dead (the message does not leave).
func (r *c01Runner) onSigned(pi module.ProtocolInfo, bs []byte) bool {
	m, err := consensus.UnmarshalMessage(uint16(pi), bs)
	if err != nil {
		return r.sink.add("!undecodable")
	}
	var canon string
	switch msg := m.(type) {
	case *consensus.ProposalMessage:
		canon = r.canonProposal(msg)
	case *consensus.VoteMessage:
		canon = r.canonVote(msg)
		if !r.appDataKnown && msg.BlockPartSetIDAndNTSVoteCount != nil {
			r.appData = msg.BlockPartSetIDAndNTSVoteCount.AppData()
			r.appDataKnown = true
		}
	default:
		return !r.sink.dead
	}
	if !r.sink.add("!" + canon) {
		return false
	}
	// ---- C02 oracle: durable before send
	rec := make([]byte, 2+len(bs))
	binary.BigEndian.PutUint16(rec, uint16(pi))
	copy(rec[2:], bs)
	found := false
	r.sink.mu.Lock()
	for _, x := range r.wal.data["round"].synced {
		if bytes.Equal(x, rec) {
			found = true
			break
		}
	}
	r.sink.mu.Unlock()
	r.o.Check(found, "signed-message-sent-before-synced-to-round-wal", "message %s handed to the network but not in the synced round WAL", canon)
	// ---- C02 oracle: no equivocation over the whole history (restarts included)
	f := strings.Split(canon, ".")
	if f[0] == "V" {
		key := f[2] + "." + f[3] + "." + f[4]
		if old, ok := r.sentVotes[key]; ok {
			r.o.Check(old == f[5], "equivocation-two-votes-same-type-height-round", "votes %s and %s for (type,h,r)=%s", old, f[5], key)
			r.o.Check(bytes.Equal(r.sentRaw["V"+key], bs), "equivocation-two-votes-same-type-height-round", "two signed votes with different bytes (timestamp) for (type,h,r)=%s value %s", key, f[5])
		} else {
			r.o.Count("own-vote-" + map[string]string{"0": "prevote", "1": "precommit"}[f[2]] + map[bool]string{true: "-nil", false: "-block"}[f[5] == "-"])
		}
		r.sentVotes[key] = f[5]
		r.sentRaw["V"+key] = append([]byte(nil), bs...)
		h, _ := strconv.ParseInt(f[3], 10, 64)
		rd, _ := strconv.ParseInt(f[4], 10, 64)
		t, _ := strconv.Atoi(f[2])
		r.checkG2G3(t, h, rd, f[5])
	} else {
		key := f[2] + "." + f[3]
		val := f[4] + "." + f[5]
		if old, ok := r.sentProps[key]; ok {
			r.o.Check(old == val, "equivocation-two-proposals-same-height-round", "proposals %s and %s for (h,r)=%s", old, val, key)
		} else {
			r.o.Count("own-proposal")
		}
		r.sentProps[key] = val
	}
	return true
}

// polkaDelivered: do the votes handed to the engine so far (plus its own) contain +2/3
// prevotes (h, rd, v)?
func (r *c01Runner) countDelivered(t int, h, rd int64, v string) int {
	c := 0
	for i := 0; i < r.n; i++ {
		if r.delivered[fmt.Sprintf("%d.%d.%d.%d.%s", i, t, h, rd, v)] {
			c++
		}
	}
	return c
}

// G2 / G3 evaluated on the implementation (independent of the Lean model)
func (r *c01Runner) checkG2G3(t int, h, rd int64, v string) {
	r.delivered[fmt.Sprintf("%d.%d.%d.%d.%s", r.me, t, h, rd, v)] = true
	if t == 0 {
		r.pvKeys[fmt.Sprintf("%d/%d/%s", h, rd, v)] = true
	}
	if r.prop != "C01" {
		return // G2/G3 belong to C01's oracle
	}
	if t == 1 {
		if v != "-" {
			// G2: non-nil precommit only after a polka for that block in that round
			c := r.countDelivered(0, h, rd, v)
			r.o.Check(c > r.n*2/3, "precommit-without-polka", "precommit (h=%d r=%d b=%s) with only %d prevotes seen", h, rd, v, c)
			r.o.Count("g2-checked")
		}
		r.myPrecommits = append(r.myPrecommits, c01Own{t, h, rd, v})
		return
	}
	// G3: prevote X at r' after precommit (r,B), r<r', X != B, needs a polka (r'',Y!=B), r<r''<=r'
	for _, pc := range r.myPrecommits {
		if pc.h != h || pc.v == "-" || pc.r >= rd || pc.v == v {
			continue
		}
		ok := false
		for k := range r.polkas(h) {
			f := strings.Split(k, "/")
			rr, _ := strconv.ParseInt(f[0], 10, 64)
			if rr > pc.r && rr <= rd && f[1] != pc.v {
				ok = true
			}
		}
		key := "prevote-against-own-precommit-without-unlocking-polka"
		if len(r.restartsAt) > 0 {
			key = "lock-round-update-not-in-wal-restart-unlocks"
			// classify: this key is reserved for the F1 failure class: the validator was restarted after
			// the precommit, and the block it precommitted had been locked in an EARLIER round too
			if !r.f1Shape(pc) {
				key = "prevote-against-own-precommit-after-restart"
			}
		}
		r.o.Check(ok, key, "prevote (h=%d r=%d v=%s) after own precommit (r=%d b=%s) without a polka for something else in (%d,%d]", h, rd, v, pc.r, pc.v, pc.r, rd)
		r.o.Count("g3-checked")
	}
}

// polkas returns "round/value" for every +2/3 prevote set among the votes the engine has seen at height h
func (r *c01Runner) polkas(h int64) map[string]bool {
	res := map[string]bool{}
	for k := range r.pvKeys {
		f := strings.Split(k, "/")
		hh, _ := strconv.ParseInt(f[0], 10, 64)
		if hh != h {
			continue
		}
		rr, _ := strconv.ParseInt(f[1], 10, 64)
		if r.countDelivered(0, h, rr, f[2]) > r.n*2/3 {
			res[f[1]+"/"+f[2]] = true
		}
	}
	return res
}

// f1Shape: pc was sent before a restart, and the same block was precommitted by this validator in an
// earlier round of the same height (so pc was cast on the "update lock round" branch)
func (r *c01Runner) f1Shape(pc c01Own) bool {
	idx := -1
	earlier := false
	for i, x := range r.myPrecommits {
		if x == pc {
			idx = i
		}
		if x.h == pc.h && x.v == pc.v && x.r < pc.r {
			earlier = true
		}
	}
	restarted := false
	for _, at := range r.restartsAt {
		if idx >= 0 && idx < at {
			restarted = true
		}
	}
	return earlier && restarted
}

// ---------------------------------------------------------------- fixture

func (r *c01Runner) nodeOptions() []test.FixtureOption {
	sink := r.sink
	wal := r.wal
	return []test.FixtureOption{
		test.UseConfig(&test.FixtureConfig{
			NewCS: func(ctx *test.NodeContext) module.Consensus {
				ch := &c01Chain{Chain: ctx.C, nm: &c01NM{NetworkManager: ctx.C.NetworkManager(), sink: sink}}
				var c base.Chain = ch
				dir := path.Join(ctx.Base, "wal")
				if r.walDir != "" {
					dir = r.walDir // file mode: the same directory for every life of the node
				}
				return consensus.New(c, dir, wal, nil, nil, nil, time.Hour)
			},
			NewSM: func(ctx *test.NodeContext) module.ServiceManager {
				return &c01SM{ServiceManager: test.NewServiceManager(ctx.C, ctx.Platform, ctx.CM, ctx.EM), r: r}
			},
			NewBM: func(ctx *test.NodeContext) module.BlockManager {
				bm, err := block.NewManager(ctx.C, nil, nil)
				if err != nil {
					panic(err)
				}
				return &c01BM{BlockManager: bm, sink: sink}
			},
		}),
	}
}

func (r *c01Runner) doInit(n, me int, file bool) string {
	if r.fx != nil || n < 4 || n > 7 || me < 0 || me >= n {
		return "bad-op"
	}
	log.GlobalLogger().SetLevel(log.FatalLevel)
	r.n, r.me = n, me
	r.sink = &c01Sink{budget: -1, r: r}
	r.wal = c01NewWAL(r.sink)
	r.sentRaw = map[string][]byte{}
	if file {
		base := os.TempDir()
		if st, err := os.Stat("/dev/shm"); err == nil && st.IsDir() {
			base = "/dev/shm"
		}
		dir, err := os.MkdirTemp(base, "verif-c02-wal-")
		if err != nil {
			return "fixture-error"
		}
		r.walDir = dir
		r.wal.file = true
		r.o.Count("case-file-wal")
	} else {
		r.o.Count("case-memory-wal")
	}
	r.byLabel, r.byPSID, r.byBID = map[int]*c01Block{}, map[string]*c01Block{}, map[string]*c01Block{}
	r.sentVotes, r.sentProps = map[string]string{}, map[string]string{}
	r.finalized, r.delivered, r.pvKeys = map[int64]string{}, map[string]bool{}, map[string]bool{}
	opts := append([]test.FixtureOption{test.AddDefaultNode(false), test.AddValidatorNodes(n)}, r.nodeOptions()...)
	r.fx = test.NewFixture(r.t, opts...)
	r.nodesToClose = append(r.nodesToClose, r.fx.Nodes...)
	r.addrIdx = map[string]int{}
	for i, nd := range r.fx.Validators {
		nd.Chain.Logger().SetLevel(log.FatalLevel)
		r.wallets = append(r.wallets, nd.Chain.Wallet())
		r.addrIdx[string(nd.Chain.Wallet().Address().Bytes())] = i
	}
	r.node = r.fx.Validators[me]
	r.bm = r.node.BM.(*c01BM)
	r.nidBS = codec.MustMarshalToBytes(r.node.Chain.NID())
	r.genesis = string(r.node.Chain.Genesis())
	// candidate blocks for height 1: two per other validator (label 8*serial + proposer)
	for p := 0; p < n; p++ {
		if p == me {
			continue
		}
		for serial := 1; serial <= 2; serial++ {
			if serial == 2 {
				// a different block of the same proposer: include a transaction
				if _, err := r.fx.Validators[p].SM.SendTransaction(nil, 0, r.fx.Validators[p].NewTx().String()); err != nil {
					return "fixture-error"
				}
			}
			bc := r.fx.Validators[p].ProposeBlock(consensus.NewEmptyCommitVoteList())
			psb := consensus.NewPartSetBuffer(consensus.ConfigBlockPartSize)
			if bc.MarshalHeader(psb) != nil || bc.MarshalBody(psb) != nil {
				return "fixture-error"
			}
			ps := psb.PartSet()
			if ps.Parts() != 1 {
				return "fixture-error"
			}
			b := &c01Block{label: 8*serial + p, id: bc.ID(), psid: ps.ID(), part: ps.GetPart(0).Bytes(), ts: bc.Timestamp(), height: bc.Height()}
			if r.byBID[string(b.id)] != nil {
				return "fixture-error"
			}
			r.byLabel[b.label], r.byPSID[c01PSIDKey(b.psid)], r.byBID[string(b.id)] = b, b, b
		}
	}
	return "ok"
}

// candidate: the labels the generator may name (two blocks per other validator)
func (r *c01Runner) candidate(lab int) bool {
	return (lab/8 == 1 || lab/8 == 2) && lab%8 < r.n && lab%8 != r.me
}

func (r *c01Runner) reactor() module.Reactor { return r.node.CS.(module.Reactor) }

type c01Peer []byte

func (p c01Peer) Bytes() []byte                 { return p }
func (p c01Peer) Equal(id module.PeerID) bool   { return bytes.Equal(p, id.Bytes()) }
func (p c01Peer) String() string                { return hex.EncodeToString(p) }

// settle waits for outstanding BlockManager callbacks, fires the collapsed new-height / new-round
// timers and finally stops whatever step timer is armed.
func (r *c01Runner) settle() (consensus.VerifCSState, bool) {
	deadline := time.Now().Add(60 * time.Second)
	for {
		st := consensus.VerifState(r.node.CS)
		busy := false
		switch {
		case st.Step == 3 && st.PendingRequest: // Propose callback outstanding
			busy = true
		case st.Step >= 4 && st.Step < 8 && st.PendingRequest: // ImportBlock callback outstanding
			busy = true
		case st.Step == 8 && st.CurComplete: // commitAndEnterNewHeight in progress
			busy = true
		case (st.Step == 0 || st.Step == 2) && st.TimerArmed:
			consensus.VerifFireTimeout(r.node.CS, st.Step)
			continue
		}
		if r.sink.dead {
			busy = false // zombie: nothing it does is visible any more
		}
		if !busy {
			consensus.VerifStopTimer(r.node.CS)
			return st, true
		}
		if time.Now().After(deadline) {
			return st, false
		}
		time.Sleep(50 * time.Microsecond)
	}
}

func (r *c01Runner) stateLine(st consensus.VerifCSState) string {
	lb := "-"
	if st.LockedPSID != nil {
		lb = r.labelOfPSIDKey(hex.EncodeToString(st.LockedPSID))
	}
	cur := "z"
	if st.CurPSID != nil {
		l := r.labelOfPSIDKey(hex.EncodeToString(st.CurPSID))
		switch {
		case st.CurHasBlock && st.CurValidated:
			cur = "F" + l
		case st.CurHasBlock:
			cur = "f" + l
		default:
			cur = "i" + l
		}
	}
	tm := 0
	if st.TimerArmed {
		tm = 1
	}
	return fmt.Sprintf("%d %d %d %d %s %s %d %d |", st.Height, st.Round, st.Step, st.LockedRound, lb, cur, st.POLRound, tm)
}

func (r *c01Runner) finish(down bool) string {
	var line string
	if down {
		line = "down |"
	} else {
		st, ok := r.settle()
		if !ok {
			return "async-timeout"
		}
		line = r.stateLine(st)
	}
	for _, e := range r.sink.take() {
		line += " " + e
	}
	return line
}

func (r *c01Runner) mkVoteMsg(sg int, h int64, t int, rd int32, v string) (*consensus.VoteMessage, bool) {
	var vm *consensus.VoteMessage
	if v == "-" {
		vm = consensus.NewVoteMessage(r.wallets[sg], consensus.VoteType(t), h, rd, r.nidBS, nil, 1000+int64(h), nil, nil, 0)
	} else {
		lab, err := strconv.Atoi(v)
		if err != nil {
			return nil, false
		}
		b := r.byLabel[lab]
		if b == nil || b.id == nil || !r.candidate(lab) {
			return nil, false
		}
		vm = consensus.NewVoteMessage(r.wallets[sg], consensus.VoteType(t), h, rd, b.id, b.psid, b.ts+1, nil, nil, 0)
		if r.appDataKnown && r.appData != 0 {
			vm.BlockPartSetIDAndNTSVoteCount = b.psid.WithAppData(r.appData)
			if err := vm.Sign(r.wallets[sg]); err != nil {
				return nil, false
			}
		}
	}
	return vm, true
}

func (r *c01Runner) mkVote(sg int, h int64, t int, rd int32, v string) ([]byte, bool) {
	vm, ok := r.mkVoteMsg(sg, h, t, rd, v)
	if !ok {
		return nil, false
	}
	return codec.MustMarshalToBytes(vm), true
}

// c01BlockResult is what the fast-sync client hands to the engine (fastsync.BlockResult)
type c01BlockResult struct {
	blk      module.BlockData
	votes    []byte
	consumed bool
	rejected bool
}

func (b *c01BlockResult) Block() module.BlockData { return b.blk }
func (b *c01BlockResult) Votes() []byte           { return b.votes }
func (b *c01BlockResult) Consume()                { b.consumed = true }
func (b *c01BlockResult) Reject()                 { b.rejected = true }

func (r *c01Runner) blockData(b *c01Block) module.BlockData {
	if b.blkData != nil {
		return b.blkData
	}
	ps := consensus.NewPartSetFromID(b.psid)
	pt, err := consensus.NewPart(b.part)
	if err != nil || ps.AddPart(pt) != nil || !ps.IsComplete() {
		return nil
	}
	blk, err := r.node.BM.NewBlockDataFromReader(ps.NewReader())
	if err != nil {
		return nil
	}
	b.blkData = blk
	return blk
}

func (r *c01Runner) doEvent(toks []string) (string, bool) {
	peer := c01Peer([]byte{1, 2, 3, 4})
	atoi := func(s string) int { x, err := strconv.Atoi(s); if err != nil { panic("bad int") }; return x }
	switch toks[0] {
	case "start":
		if len(toks) != 1 || r.up {
			return "bad-op", false
		}
		if r.everUp {
			// restart: new node on the same database, genesis, wallet and WAL
			old := r.node
			opts := append([]test.FixtureOption{
				test.UseWallet(old.Chain.Wallet()), test.UseDB(old.Chain.Database()), test.UseGenesis(r.genesis),
			}, r.nodeOptions()...)
			nd := test.NewNode(r.t, opts...)
			nd.Chain.Logger().SetLevel(log.FatalLevel)
			r.nodesToClose = append(r.nodesToClose, nd)
			r.node = nd
			r.bm = nd.BM.(*c01BM)
			r.restartsAt = append(r.restartsAt, len(r.myPrecommits))
			r.o.Count("restart")
			// the transaction pool is volatile: every new life starts with a fresh transaction in it, so a
			// block proposed after a restart differs from one proposed before
			if lb, err := nd.BM.GetLastBlock(); err == nil {
				if _, err := nd.SM.SendTransaction(nil, 0, test.NewTx().SetTimestamp(lb.Timestamp()+int64(r.kills)).String()); err != nil {
					r.o.Count("pool-tx-rejected")
				}
			}
		}
		r.sink.mu.Lock()
		r.sink.dead, r.sink.budget = false, -1
		r.sink.mu.Unlock()
		if err := r.node.CS.Start(); err != nil {
			return "start-error", false
		}
		r.up, r.everUp = true, true
	case "prop":
		if len(toks) != 6 || !r.up {
			return "bad-op", false
		}
		sg, h, rd, lab, pol := atoi(toks[1]), atoi(toks[2]), atoi(toks[3]), atoi(toks[4]), atoi(toks[5])
		b := r.byLabel[lab]
		if sg < 0 || sg >= r.n || b == nil || !r.candidate(lab) {
			return "bad-op", false
		}
		pm := consensus.NewProposalMessage()
		pm.Height, pm.Round, pm.BlockPartSetID, pm.POLRound = int64(h), int32(rd), b.psid, int32(pol)
		if err := pm.Sign(r.wallets[sg]); err != nil {
			return "bad-op", false
		}
		_, _ = r.reactor().OnReceive(consensus.ProtoProposal, codec.MustMarshalToBytes(pm), peer)
		r.o.Count("ev-proposal")
	case "part":
		if len(toks) != 3 || !r.up {
			return "bad-op", false
		}
		h, lab := atoi(toks[1]), atoi(toks[2])
		b := r.byLabel[lab]
		if b == nil || b.part == nil || !r.candidate(lab) {
			return "bad-op", false
		}
		bpm := consensus.BlockPartMessage{Height: int64(h), Index: 0, BlockPart: b.part}
		_, _ = r.reactor().OnReceive(consensus.ProtoBlockPart, codec.MustMarshalToBytes(&bpm), peer)
		r.o.Count("ev-blockpart")
	case "vote":
		if len(toks) != 6 || !r.up {
			return "bad-op", false
		}
		sg, h, t, rd, v := atoi(toks[1]), atoi(toks[2]), atoi(toks[3]), atoi(toks[4]), toks[5]
		if sg < 0 || sg >= r.n || (t != 0 && t != 1) {
			return "bad-op", false
		}
		bs, ok := r.mkVote(sg, int64(h), t, int32(rd), v)
		if !ok {
			return "bad-op", false
		}
		// what the engine has been shown (for the G2/G3 oracle): recorded BEFORE delivery
		r.delivered[fmt.Sprintf("%d.%d.%d.%d.%s", sg, t, h, rd, v)] = true
		if t == 0 {
			r.pvKeys[fmt.Sprintf("%d/%d/%s", h, rd, v)] = true
		}
		_, _ = r.reactor().OnReceive(consensus.ProtoVote, bs, peer)
		r.o.Count("ev-vote")
	case "sync":
		// block sync: block `lab` of height h with the round-rd precommits of the given validators arrives
		// through ReceiveBlockResult (the fast-sync callback) instead of gossip
		if len(toks) != 5 || !r.up {
			return "bad-op", false
		}
		h, rd, lab := atoi(toks[1]), atoi(toks[2]), atoi(toks[3])
		b := r.byLabel[lab]
		if b == nil || b.part == nil || !r.candidate(lab) {
			return "bad-op", false
		}
		var vms []*consensus.VoteMessage
		for _, f := range strings.Split(toks[4], ",") {
			sg := atoi(f)
			if sg < 0 || sg >= r.n {
				return "bad-op", false
			}
			vm, ok := r.mkVoteMsg(sg, int64(h), 1, int32(rd), toks[3])
			if !ok {
				return "bad-op", false
			}
			vms = append(vms, vm)
			r.delivered[fmt.Sprintf("%d.%d.%d.%d.%s", sg, 1, h, rd, toks[3])] = true
		}
		if len(vms) == 0 {
			return "bad-op", false
		}
		blk := r.blockData(b)
		if blk == nil {
			return "fixture-error", false
		}
		br := &c01BlockResult{blk: blk, votes: consensus.NewCommitVoteList(nil, vms...).Bytes()}
		r.node.CS.(interface {
			ReceiveBlockResult(fastsync.BlockResult)
		}).ReceiveBlockResult(br)
		switch {
		case br.rejected:
			r.o.Count("ev-sync-rejected")
		case br.consumed:
			r.o.Count("ev-sync-consumed")
		default:
			r.o.Count("ev-sync-queued")
		}
	case "tmo":
		if len(toks) != 2 || !r.up {
			return "bad-op", false
		}
		st := atoi(toks[1])
		if st != 3 && st != 5 && st != 7 {
			return "bad-op", false
		}
		if consensus.VerifFireTimeout(r.node.CS, st) {
			r.o.Count("ev-timeout-fired")
		} else {
			r.o.Count("ev-timeout-noop")
		}
	default:
		return "bad-op", false
	}
	return "", true
}

func (r *c01Runner) kill(k, tear int, corrupt bool) {
	r.sink.mu.Lock()
	r.sink.dead = true
	r.sink.mu.Unlock()
	func() {
		defer func() { recover() }()
		r.node.CS.Term()
	}()
	r.sink.mu.Lock()
	r.wal.crash(k, tear, corrupt)
	r.sink.effs = append(r.sink.effs, fmt.Sprintf("X.%d", k))
	r.sink.mu.Unlock()
	r.up = false
	r.kills++
	r.o.Count("crash")
	if r.wal.file && corrupt {
		r.o.Count("crash-file-corrupt-record")
	} else if r.wal.file && tear > 0 {
		r.o.Count("crash-file-torn-record")
	}
}

func (r *c01Runner) Step(toks []string, o *Oracle) (res string) {
	r.o = o
	if len(toks) == 0 {
		return "bad-op"
	}
	defer func() {
		if e := recover(); e != nil {
			if os.Getenv("VERIF_DEBUG") != "" {
				fmt.Fprintf(os.Stderr, "PANIC %v\n%s\n", e, debug.Stack())
			}
			if s, ok := e.(string); ok && (s == "bad int") {
				res = "bad-op"
				return
			}
			panic(e)
		}
	}()
	switch toks[0] {
	case "init":
		if len(toks) != 3 && !(len(toks) == 4 && toks[3] == "f") {
			return "bad-op"
		}
		n, err1 := strconv.Atoi(toks[1])
		me, err2 := strconv.Atoi(toks[2])
		if err1 != nil || err2 != nil {
			return "bad-op"
		}
		return r.doInit(n, me, len(toks) == 4)
	case "end":
		r.cleanup()
		return "ok"
	}
	if r.fx == nil {
		return "bad-op"
	}
	switch toks[0] {
	case "crash":
		// crash k [tear corrupt]: the byte-level part only matters on the real file WAL
		if (len(toks) != 2 && len(toks) != 4) || !r.up {
			return "bad-op"
		}
		k, err := strconv.Atoi(toks[1])
		if err != nil || k < 0 {
			return "bad-op"
		}
		tear, corrupt := 0, false
		if len(toks) == 4 {
			t, err1 := strconv.Atoi(toks[2])
			c, err2 := strconv.Atoi(toks[3])
			if err1 != nil || err2 != nil || t < 0 || (c != 0 && c != 1) {
				return "bad-op"
			}
			tear, corrupt = t, c == 1
		}
		r.kill(k, tear, corrupt)
		return r.finish(true)
	case "die":
		if len(toks) < 4 || !r.up {
			return "bad-op"
		}
		j, err1 := strconv.Atoi(toks[1])
		k, err2 := strconv.Atoi(toks[2])
		if err1 != nil || err2 != nil || j < 0 || k < 0 {
			return "bad-op"
		}
		r.sink.mu.Lock()
		r.sink.budget = j
		r.sink.mu.Unlock()
		if out, ok := r.doEvent(toks[3:]); !ok {
			return out
		}
		if _, ok := r.settle(); !ok {
			return "async-timeout"
		}
		r.kill(k, 0, false)
		r.o.Count("die-mid-event")
		return r.finish(true)
	}
	if out, ok := r.doEvent(toks); !ok {
		return out
	}
	return r.finish(false)
}

// ---------------------------------------------------------------- generator

type c01G struct {
	g      *Gen
	n, me  int
	events int
	crashy int // percent chance of a crash/restart after an event
	die    bool
	file   bool // real file WAL: crashes get a byte-level tail (torn / corrupt record)
}

func (c *c01G) proposer(h, r int) int { return (h + r) % c.n }

// candidate block labels whose recorded proposer is p
func (c *c01G) blockBy(p int) int {
	if p == c.me {
		// no candidate block carries the node's own address; take any other
		p = (p + 1 + c.g.Intn(c.n-1)) % c.n
	}
	return 8*(1+c.g.Intn(2)) + p
}

func (c *c01G) anyBlock() int {
	p := c.g.Intn(c.n)
	return c.blockBy(p)
}

func (c *c01G) others() []int {
	var o []int
	for i := 0; i < c.n; i++ {
		if i != c.me {
			o = append(o, i)
		}
	}
	c.g.R.Shuffle(len(o), func(i, j int) { o[i], o[j] = o[j], o[i] })
	return o
}

func (c *c01G) emit(format string, args ...interface{}) {
	line := fmt.Sprintf(format, args...)
	if c.die && c.g.Intn(100) < 4 {
		c.g.Emit("die %d %d %s", c.g.Intn(8), c.g.Intn(3), line)
		c.g.Emit("start")
		c.events += 2
		return
	}
	c.g.Emit("%s", line)
	c.events++
	if c.g.Intn(100) < c.crashy {
		c.crash()
		c.g.Emit("start")
		c.events += 2
	}
}

// crash between events; on the file WAL with a byte-level tail: k whole unsynced records survive, then
// nothing / a torn piece of the next record / the whole next record with a flipped byte
func (c *c01G) crash() {
	k := c.g.Pick(0, 0, 1, 2, 5)
	if !c.file {
		c.g.Emit("crash %d", k)
		return
	}
	switch c.g.Intn(3) {
	case 0:
		c.g.Emit("crash %d 0 0", k)
	case 1:
		c.g.Emit("crash %d %d 0", k, c.g.Pick(1, 7, 8, 9, 40, 100000))
	default:
		c.g.Emit("crash %d 0 1", k)
	}
}

func (c *c01G) vote(sg, h, t, r int, v int) {
	if v < 0 {
		c.emit("vote %d %d %d %d -", sg, h, t, r)
	} else {
		c.emit("vote %d %d %d %d %d", sg, h, t, r, v)
	}
}

// votes of `k` other validators for v (k may exceed what is needed for +2/3)
func (c *c01G) votes(h, t, r, v, k int) {
	for i, sg := range c.others() {
		if i >= k {
			break
		}
		c.vote(sg, h, t, r, v)
		if c.g.Intn(12) == 0 { // duplicate delivery
			c.vote(sg, h, t, r, v)
		}
	}
}

func (c *c01G) noise(h, r int) {
	switch c.g.Intn(9) {
	case 0:
		c.vote(c.others()[0], h, c.g.Intn(2), c.g.Intn(r+3), c.anyBlock())
	case 1:
		c.vote(c.others()[0], h, c.g.Intn(2), c.g.Intn(r+3), -1)
	case 2:
		c.emit("tmo %d", c.g.Pick(3, 5, 7))
	case 3:
		c.emit("part %d %d", h, c.anyBlock())
	case 4:
		rr := c.g.Intn(r + 2)
		c.emit("prop %d %d %d %d %d", c.g.Intn(c.n), h, rr, c.anyBlock(), c.g.Intn(rr+2)-1)
	case 5:
		c.vote(c.others()[0], h+c.g.Pick(-1, 1, 2, 7), c.g.Intn(2), c.g.Intn(3), -1)
	}
}

// one round of the protocol as the other validators would play it, with faults
func (c *c01G) round(h, r int, locked *int) (committed bool) {
	g := c.g
	q := c.n*2/3 + 1 // votes needed for +2/3
	needOthers := q - 1
	b := c.blockBy(c.proposer(h, r))
	pol := -1
	if *locked >= 0 && g.Intn(2) == 0 {
		b = *locked
		pol = g.Intn(r+1) - 1
	}
	kind := g.Intn(10)
	if c.proposer(h, r) != c.me && kind != 0 {
		c.emit("prop %d %d %d %d %d", c.proposer(h, r), h, r, b, pol)
		if g.Intn(8) != 0 {
			c.emit("part %d %d", h, b)
		}
	} else {
		c.emit("tmo 3")
	}
	c.noise(h, r)
	if g.Intn(25) == 0 {
		c.sync(h, r+g.Intn(2), c.anyBlock())
	}
	if *locked >= 0 && r >= 2 && g.Intn(5) == 0 {
		// delayed polka of an old round for another block
		b3 := c.anyBlock()
		if b3 != *locked {
			c.votes(h, 0, g.Intn(r-1), b3, q)
		}
	}
	switch {
	case kind <= 5: // polka for b
		c.votes(h, 0, r, b, needOthers+g.Intn(2))
		if g.Intn(6) == 0 {
			c.emit("part %d %d", h, b)
		}
		c.noise(h, r)
		switch g.Intn(4) {
		case 0, 1:
			c.votes(h, 1, r, b, needOthers+g.Intn(2))
			if g.Intn(4) == 0 {
				c.emit("part %d %d", h, b)
			}
			*locked = b
			return g.Intn(5) != 0
		case 2:
			c.votes(h, 1, r, -1, needOthers+g.Intn(2))
		default:
			c.votes(h, 1, r, -1, g.Intn(needOthers+1))
			c.emit("tmo 7")
		}
		*locked = b
	case kind <= 7: // nil polka
		c.votes(h, 0, r, -1, needOthers+g.Intn(2))
		c.noise(h, r)
		c.votes(h, 1, r, -1, needOthers+g.Intn(2))
	case kind == 8: // split prevotes, timeouts
		o := c.others()
		for i, sg := range o {
			if i%2 == 0 {
				c.vote(sg, h, 0, r, b)
			} else {
				c.vote(sg, h, 0, r, -1)
			}
		}
		c.emit("tmo 5")
		c.votes(h, 1, r, -1, g.Intn(needOthers+2))
		c.emit("tmo 7")
	default: // polka for another block than proposed
		b2 := c.anyBlock()
		c.votes(h, 0, r, b2, needOthers+g.Intn(2))
		if g.Intn(2) == 0 {
			c.emit("part %d %d", h, b2)
		}
		c.votes(h, 1, r, -1, needOthers)
		c.emit("tmo 7")
	}
	return false
}

// the F1 shape: lock b at r0, polka b again at r0+2 ("update lock round"), restart, delayed polka for
// another block from round r0+1, then a proposal for that block in a later round.
func (c *c01G) f1Script(withCrash bool) {
	h := 1
	q := c.n*2/3 + 1
	o := c.others()
	A := o[:q-1]
	b := c.blockBy(c.proposer(h, 0))
	b2 := b
	for b2 == b {
		b2 = c.anyBlock()
	}
	// round 0: lock b, nobody else precommits it
	c.emit("prop %d %d %d %d -1", c.proposer(h, 0), h, 0, b)
	c.emit("part %d %d", h, b)
	for _, sg := range A {
		c.vote(sg, h, 0, 0, b)
	}
	for _, sg := range A {
		c.vote(sg, h, 1, 0, -1)
	}
	c.emit("tmo 7")
	// round 1: prevotes seen in time give no decision
	c.emit("tmo 3")
	for i, sg := range A {
		if i == 0 {
			c.vote(sg, h, 0, 1, b2)
		} else {
			c.vote(sg, h, 0, 1, -1)
		}
	}
	c.emit("tmo 5")
	for _, sg := range A {
		c.vote(sg, h, 1, 1, -1)
	}
	// round 2: polka for b again -> "update lock round"
	c.emit("tmo 3")
	for _, sg := range A {
		c.vote(sg, h, 0, 2, b)
	}
	if withCrash {
		c.g.Emit("crash 0")
		c.g.Emit("start")
	}
	// the delayed polka (1, b2): with the lock round raised to 2 it must NOT unlock (crash-free twin of F1)
	for _, sg := range o {
		c.vote(sg, h, 0, 1, b2)
	}
	for _, sg := range A {
		c.vote(sg, h, 1, 2, -1)
	}
	c.emit("tmo 7")
	if c.proposer(h, 3) != c.me {
		c.emit("prop %d %d %d %d %d", c.proposer(h, 3), h, 3, b2, 1)
		c.emit("part %d %d", h, b2)
	}
	c.emit("tmo 3")
}

// a delayed polka of an OLD round (below the lock round) for another block arrives after the validator
// has moved past the round it locked in: it must stay locked (unlock needs lockedRound < polka round).
func (c *c01G) latePolkaScript() {
	h := 1
	q := c.n*2/3 + 1
	o := c.others()
	A := o[:q-1]
	b := c.blockBy(c.proposer(h, 1))
	b2 := b
	for b2 == b {
		b2 = c.anyBlock()
	}
	// round 0 passes with nil votes
	c.emit("tmo 3")
	for _, sg := range A {
		c.vote(sg, h, 0, 0, -1)
	}
	for _, sg := range A {
		c.vote(sg, h, 1, 0, -1)
	}
	// round 1: lock b
	c.emit("prop %d %d %d %d -1", c.proposer(h, 1), h, 1, b)
	c.emit("part %d %d", h, b)
	for _, sg := range A {
		c.vote(sg, h, 0, 1, b)
	}
	for _, sg := range A {
		c.vote(sg, h, 1, 1, -1)
	}
	c.emit("tmo 7")
	if c.g.Intn(3) == 0 { // one more round on top
		c.emit("tmo 3")
		for _, sg := range A {
			c.vote(sg, h, 0, 2, -1)
		}
		c.emit("tmo 5")
		for _, sg := range A {
			c.vote(sg, h, 1, 2, -1)
		}
	}
	// the late polka of round 0 for b2
	for _, sg := range o[:q] {
		c.vote(sg, h, 0, 0, b2)
	}
	c.emit("tmo 3")
	c.emit("tmo 5")
}

// file WAL: a record left torn / corrupt by a crash must be cut away by the recovery, otherwise what is
// signed after the recovery is appended behind it and forgotten by the NEXT recovery.  Two restart cycles,
// signed votes in between, the other validators' votes re-delivered after every restart.
func (c *c01G) fileCrashScript() {
	h := 1
	o := c.others()
	b := c.blockBy(c.proposer(h, 0))
	c.g.Emit("prop %d %d %d %d -1", c.proposer(h, 0), h, 0, b)
	c.g.Emit("part %d %d", h, b)
	c.vote0(o[0], h, 0, 0, b)
	c.vote0(o[1], h, 0, 0, -1) // 3 prevotes, no decision: prevoteWait, vote list written but not synced
	if c.g.Intn(2) == 0 {
		c.g.Emit("crash 0 0 1") // the unsynced vote list survives in full length with a bad CRC
	} else {
		c.g.Emit("crash 0 %d 0", c.g.Pick(5, 8, 9, 30))
	}
	c.g.Emit("start")
	c.vote0(o[0], h, 0, 0, b)
	c.vote0(o[2], h, 0, 0, b) // polka: lock + precommit b, appended after the recovery point
	if c.g.Intn(2) == 0 {
		c.vote0(o[0], h, 1, 0, -1)
	}
	c.g.Emit("crash %d 0 0", c.g.Intn(2))
	c.g.Emit("start")
	// re-delivery; this time no polka in time
	c.vote0(o[0], h, 0, 0, b)
	c.vote0(o[1], h, 0, 0, -1)
	c.g.Emit("tmo 5")
	c.vote0(o[0], h, 1, 0, -1)
	c.vote0(o[1], h, 1, 0, -1)
	c.g.Emit("tmo 7")
	c.g.Emit("crash 0 0 %d", c.g.Intn(2))
	c.g.Emit("start")
	c.g.Emit("tmo 3")
	c.vote0(o[0], h, 0, 1, -1)
	c.vote0(o[1], h, 0, 1, -1)
	c.g.Emit("tmo 5")
}

// vote0 emits a vote line without the random crash / die decoration
func (c *c01G) vote0(sg, h, t, r, v int) {
	if v < 0 {
		c.g.Emit("vote %d %d %d %d -", sg, h, t, r)
	} else {
		c.g.Emit("vote %d %d %d %d %d", sg, h, t, r, v)
	}
}

// the validator is the proposer of a round >= 1: it has voted in the earlier rounds, signs its proposal
// and dies between the proposal's WAL sync / send and the prevote's WAL sync.  After the restart its own
// proposal is the last record of the round WAL.
func (c *c01G) proposerCrashScript() {
	h := 1
	q := c.n*2/3 + 1
	rme := (c.me - h%c.n + c.n) % c.n // (h + r) % n == me
	for rme == 0 {
		rme += c.n
	}
	A := c.others()[:q-1]
	for r := 0; r < rme; r++ {
		c.g.Emit("tmo 3")
		for _, sg := range A {
			c.vote0(sg, h, 0, r, -1)
		}
		for i, sg := range A {
			if r == rme-1 && i == len(A)-1 {
				// this precommit completes +2/3 nil: new round, own proposal, own prevote
				c.g.Emit("die %d %d vote %d %d 1 %d -", c.g.Pick(3, 4, 4, 5), c.g.Intn(2), sg, h, r)
			} else {
				c.vote0(sg, h, 1, r, -1)
			}
		}
	}
	c.g.Emit("start")
	c.g.Emit("tmo 3")
	for _, sg := range A {
		c.vote0(sg, h, 0, rme, -1)
	}
	c.g.Emit("tmo 5")
	if c.g.Intn(2) == 0 {
		c.crash()
		c.g.Emit("start")
	}
	for _, sg := range A {
		c.vote0(sg, h, 1, rme, -1)
	}
}

func (c *c01G) signers(k int) string {
	o := c.others()
	if k > len(o) {
		k = len(o)
	}
	ss := make([]string, k)
	for i := 0; i < k; i++ {
		ss[i] = strconv.Itoa(o[i])
	}
	return strings.Join(ss, ",")
}

// block sync: the other validators finalized block b in round r; the partitioned validator receives the
// block and its commit votes through the fast-sync callback
func (c *c01G) sync(h, r, b int) {
	q := c.n*2/3 + 1
	k := q
	switch c.g.Intn(8) {
	case 0:
		k = q - 1 // not a quorum: must be rejected
	case 1:
		k = c.n - 1
	}
	c.emit("sync %d %d %d %s", h, r, b, c.signers(k))
}

// the validator is cut off at an arbitrary point of a round — in particular after it has validated (and
// prevoted / locked) a proposal — and later catches up through block sync with a block decided elsewhere
func (c *c01G) syncScript() {
	h := 1
	q := c.n*2/3 + 1
	r0 := 0
	if c.proposer(h, 0) == c.me {
		r0 = 1
		c.emit("tmo 3")
		c.votes(h, 0, 0, -1, q-1)
		c.votes(h, 1, 0, -1, q-1)
	}
	x := c.blockBy(c.proposer(h, r0))
	y := x
	if c.g.Intn(5) != 0 {
		for y == x {
			y = c.anyBlock()
		}
	}
	c.emit("prop %d %d %d %d -1", c.proposer(h, r0), h, r0, x)
	c.emit("part %d %d", h, x) // validated + prevoted
	// how far the validator gets before it is partitioned
	switch c.g.Intn(5) {
	case 0:
	case 1:
		c.votes(h, 0, r0, x, 1)
	case 2:
		c.votes(h, 0, r0, -1, q-1)
		c.emit("tmo 5")
	case 3:
		c.votes(h, 0, r0, x, q-1) // polka: locked on x, precommitted x
	default:
		c.votes(h, 0, r0, x, q-1)
		c.votes(h, 1, r0, -1, q-1)
		c.emit("tmo 7")
		c.emit("tmo 3")
	}
	if c.g.Intn(3) == 0 {
		c.emit("part %d %d", h, y)
	}
	c.sync(h, r0+c.g.Intn(3), y)
	c.noise(h, r0)
	c.emit("tmo 3")
	c.votes(h+1, 0, 0, -1, q-1)
	c.emit("tmo 5")
}

func c01GenWith(g *Gen, crashy int, die bool) {
	for i := 0; i < g.N; i++ {
		n := 4
		if g.Tier == "thorough" && g.Intn(4) == 0 {
			n = g.Pick(5, 7)
		}
		c := &c01G{g: g, n: n, me: g.Intn(n), crashy: crashy, die: die}
		// C02: a quarter of the cases run on the engine's real file WAL
		c.file = die && g.Intn(4) == 0
		if c.file {
			g.Emit("init %d %d f", c.n, c.me)
		} else {
			g.Emit("init %d %d", c.n, c.me)
		}
		g.Emit("start")
		if !c.file && g.Intn(7) == 0 {
			c.syncScript()
		} else if c.file && n == 4 && c.proposer(1, 0) != c.me && g.Intn(3) == 0 {
			c.fileCrashScript()
		} else if die && n == 4 && c.proposer(1, 0) != c.me && g.Intn(8) == 0 {
			c.proposerCrashScript()
		} else if n == 4 && c.proposer(1, 1) != c.me && g.Intn(10) == 0 {
			save := c.crashy
			if !die {
				c.crashy = 0
			}
			c.latePolkaScript()
			c.crashy = save
		} else if !die && n == 4 && c.proposer(1, 0) != c.me && g.Intn(10) == 0 {
			save := c.crashy
			c.crashy = 0
			c.f1Script(g.Intn(2) == 0)
			c.crashy = save
		} else {
			h := 1
			locked := -1
			limit := 25 + g.Intn(40)
			for r := 0; r < 2*n-1 && c.events < limit; r++ {
				if c.round(h, r, &locked) {
					// after a commit: a little traffic at the next height (nil votes, timeouts)
					c.emit("tmo 3")
					c.votes(h+1, 0, 0, -1, n-2)
					c.emit("tmo 5")
					c.votes(h+1, 1, 0, -1, n-2)
					c.emit("tmo 7")
					c.noise(h, r)
					break
				}
			}
		}
		g.Emit("end")
		g.Emit("reset")
	}
	// malformed stream
	g.Emit("init 4 0")
	g.Emit("vote 1 1 0 0 -")
	g.Emit("start")
	g.Emit("vote 9 1 0 0 -")
	g.Emit("vote 1 1 2 0 -")
	g.Emit("prop 1 1 0 999 -1")
	g.Emit("bogus")
	g.Emit("tmo 4")
	g.Emit("end")
	g.Emit("reset")
}

func c01Gen(g *Gen) { c01GenWith(g, 3, false) }
