//go:build c03 || all

package main

// C03: write-ahead log recovers exactly the durable prefix after any crash.
// Real code: consensus.OpenWALForWrite / WriteBytes / Sync / Shift /
// doHousekeeping / OpenWALForRead / ReadBytes / CloseAndRepair on real files.
//
// Ops (one case = ops between `reset`s; every case has its own directory):
//   open FL TL S     OpenWALForWrite(FileLimit, TotalLimit, SyncInterval = S==1 ? 1ns : 1h), ticker never fires
//   w HEX            WriteBytes
//   sync | shift | hk | close
//   crash + K        crash: tail keeps synced bytes + min(K, unsynced) bytes
//   crash - J        crash: tail keeps synced bytes + (unsynced - min(J, unsynced)) bytes
//   recover          OpenWALForRead, ReadBytes until error; EOF -> Close, corrupted/unexpectedEOF -> CloseAndRepair
//   read             OpenWALForRead, ReadBytes until error, Close (no repair)
//   recoverc J       recovery dying inside CloseAndRepair after J file-system effects (c03_crashpoints.go)
//   crashshift J K   writer dying inside Shift after J effects (c03_crashpoints.go)
//   poke I OFF X     xor byte OFF of the I-th segment file (0 = head) with X (writer closed only)

import (
	"bytes"
	"fmt"
	"hash/crc32"
	"os"
	"path/filepath"
	"sort"
	"strconv"
	"strings"
	"time"

	"github.com/icon-project/goloop/consensus"
)

func init() {
	Register(&Prop{ID: "C03", Gen: c03Gen, New: c03New})
}

type c03Rec struct {
	data []byte
	seg  uint64
}

type c03Runner struct {
	dir, id   string
	ww        consensus.WALWriter
	hook      *consensus.VerifC03Writer
	tl        int64
	durable   map[uint64]int64 // per segment: length known to be durable (fsync'ed or survived a crash)
	// oracle state
	log      []c03Rec
	nsynced  int
	segGone  bool // an earlier repair removed a fully synced segment (F2)
	tornLeft bool // an earlier recovery ended with EOF although the tail was not at a frame boundary
	poked    bool // bytes were corrupted on purpose: the crash-only guarantees do not apply
}

var c03Current *c03Runner
var c03Base string

// c03BaseDir: the WAL files live on tmpfs when there is one (fsync on a shared
// disk makes the run time depend on what else the machine does; durability is
// simulated by truncation anyway), else under TMPDIR.
func c03BaseDir() string {
	if c03Base != "" {
		return c03Base
	}
	c03Base = os.TempDir()
	if d := os.Getenv("VERIF_C03_DIR"); d != "" {
		c03Base = d
	} else if fi, err := os.Stat("/dev/shm"); err == nil && fi.IsDir() {
		if t, err := os.MkdirTemp("/dev/shm", "c03wal-probe-"); err == nil {
			_ = os.Remove(t)
			c03Base = "/dev/shm"
		}
	}
	// sweep directories left by killed runs
	if old, err := filepath.Glob(filepath.Join(c03Base, "c03wal-*")); err == nil {
		for _, d := range old {
			if fi, err := os.Stat(d); err == nil && time.Since(fi.ModTime()) > 30*time.Minute {
				_ = os.RemoveAll(d)
			}
		}
	}
	return c03Base
}

func c03New() Runner {
	if c03Current != nil {
		c03Current.cleanup()
	}
	r := &c03Runner{}
	c03Current = r
	return r
}

// the directory is created by the first `open` of a case (a trailing `reset` leaves nothing behind)
func (r *c03Runner) ensureDir() {
	if r.dir != "" {
		return
	}
	dir, err := os.MkdirTemp(c03BaseDir(), "c03wal-")
	if err != nil {
		panic(err)
	}
	r.dir, r.id = dir, filepath.Join(dir, "wal", "round")
}

func (r *c03Runner) cleanup() {
	if r.ww != nil {
		_ = r.hook.Crash()
		r.ww = nil
	}
	if r.dir != "" {
		_ = os.RemoveAll(r.dir)
	}
}

type c03File struct {
	idx  uint64
	size int64
}

func (r *c03Runner) list() []c03File {
	if r.dir == "" {
		return nil
	}
	ents, err := os.ReadDir(filepath.Dir(r.id))
	if err != nil {
		return nil
	}
	prefix := filepath.Base(r.id) + "_"
	var fs []c03File
	for _, e := range ents {
		if !strings.HasPrefix(e.Name(), prefix) {
			continue
		}
		idx, err := strconv.ParseUint(e.Name()[len(prefix):], 10, 64)
		if err != nil {
			continue
		}
		fi, err := e.Info()
		if err != nil {
			continue
		}
		fs = append(fs, c03File{idx, fi.Size()})
	}
	sort.Slice(fs, func(i, j int) bool { return fs[i].idx < fs[j].idx })
	return fs
}

func c03Sizes(fs []c03File) string {
	if len(fs) == 0 {
		return "h=- sz=."
	}
	ss := make([]string, len(fs))
	contiguous := true
	for i, f := range fs {
		ss[i] = strconv.FormatInt(f.size, 10)
		if f.idx != fs[0].idx+uint64(i) {
			contiguous = false
		}
	}
	s := fmt.Sprintf("h=%d sz=%s", fs[0].idx, strings.Join(ss, ","))
	if !contiguous {
		s += " gap"
	}
	return s
}

// diskSum is the CRC-32C of the concatenation of all segment files (head first).
func (r *c03Runner) diskSum() string {
	h := crc32.New(crc32.MakeTable(crc32.Castagnoli))
	for _, f := range r.list() {
		bs, err := os.ReadFile(consensus.VerifC03FileFor(r.id, f.idx))
		if err != nil {
			return "crc=?"
		}
		h.Write(bs)
	}
	return fmt.Sprintf("crc=%08x", h.Sum32())
}

func c03Total(fs []c03File) int64 {
	var t int64
	for _, f := range fs {
		t += f.size
	}
	return t
}

func (r *c03Runner) tailSize() int64 {
	fi, err := os.Stat(consensus.VerifC03FileFor(r.id, r.hook.TailIdx()))
	if err != nil {
		return -1
	}
	return fi.Size()
}

// afterWriterOp maintains the durable length of every segment file: whenever the writer has
// nothing unsynced (eldestUnsyncData == nil: just opened, or sync/shift/housekeeping fsync'ed)
// everything on disk counts as durable.
func (r *c03Runner) afterWriterOp() string {
	if !r.hook.Dirty() {
		r.durable = map[uint64]int64{}
		for _, f := range r.list() {
			r.durable[f.idx] = f.size
		}
	}
	d := 0
	if r.hook.Dirty() {
		d = 1
	}
	return fmt.Sprintf("ok %s buf=%d d=%d", c03Sizes(r.list()), r.hook.Buffered(), d)
}

func c03Recs(recs [][]byte) string {
	if len(recs) == 0 {
		return "."
	}
	ss := make([]string, len(recs))
	for i, b := range recs {
		ss[i] = hx(b)
	}
	return strings.Join(ss, ",")
}

// readLoop is the recovery loop of consensus.applyRoundWAL/applyLockWAL/applyCommitWAL.
func (r *c03Runner) readLoop(repair bool) (recs [][]byte, end string, err error) {
	if r.dir == "" {
		return nil, "", os.ErrNotExist
	}
	wr, err := consensus.OpenWALForRead(r.id)
	if err != nil {
		return nil, "", err
	}
	for {
		bs, err := wr.ReadBytes()
		if consensus.IsEOF(err) {
			end = "eof"
			break
		} else if consensus.IsCorruptedWAL(err) || consensus.IsUnexpectedEOF(err) {
			if consensus.IsCorruptedWAL(err) {
				end = "crc"
			} else {
				end = "short"
			}
			if repair {
				if err := wr.CloseAndRepair(); err != nil {
					end += "+repair-err"
				}
			}
			break
		} else if err != nil {
			_ = wr.Close()
			return recs, "", err
		}
		recs = append(recs, bs)
	}
	_ = wr.Close()
	return recs, end, nil
}

func c03IsPrefix(got [][]byte, log []c03Rec) bool {
	if len(got) > len(log) {
		return false
	}
	for i := range got {
		if !bytes.Equal(got[i], log[i].data) {
			return false
		}
	}
	return true
}

func (r *c03Runner) Step(toks []string, o *Oracle) string {
	if len(toks) == 0 {
		return "bad-op"
	}
	switch toks[0] {
	case "open":
		if len(toks) != 4 || r.ww != nil {
			return "bad-op"
		}
		fl, e1 := strconv.ParseInt(toks[1], 10, 64)
		tl, e2 := strconv.ParseInt(toks[2], 10, 64)
		if e1 != nil || e2 != nil || fl <= 0 || tl <= 0 || (toks[3] != "0" && toks[3] != "1") {
			return "bad-op"
		}
		r.ensureDir()
		si := time.Hour
		if toks[3] == "1" {
			si = time.Nanosecond
		}
		ww, err := consensus.OpenWALForWrite(r.id, &consensus.WALConfig{
			FileLimit: fl, TotalLimit: tl, HousekeepingInterval: time.Hour, SyncInterval: si,
		})
		if err != nil {
			return "err"
		}
		r.ww, r.hook, r.tl = ww, consensus.VerifC03WriterOf(ww), tl
		o.Count("open")
		return r.afterWriterOp()
	case "w":
		if len(toks) != 2 || r.ww == nil {
			return "bad-op"
		}
		p := unhx(toks[1])
		seg := r.hook.TailIdx()
		n, err := r.ww.WriteBytes(p)
		if err != nil {
			return "err"
		}
		o.Check(n == len(p)+consensus.VerifC03HeaderLen, "write-length", "WriteBytes returned %d for payload %d", n, len(p))
		r.log = append(r.log, c03Rec{p, seg})
		switch {
		case len(p) == 0:
			o.Count("w-empty")
		case len(p)+8 > consensus.VerifC03BufSize:
			o.Count("w-large")
		default:
			o.Count("w")
		}
		return r.afterWriterOp()
	case "sync", "shift":
		if len(toks) != 1 || r.ww == nil {
			return "bad-op"
		}
		var err error
		if toks[0] == "sync" {
			err = r.ww.Sync()
		} else {
			err = r.hook.Shift()
		}
		if err != nil {
			return "err"
		}
		r.nsynced = len(r.log)
		o.Count(toks[0])
		return r.afterWriterOp()
	case "hk":
		if len(toks) != 1 || r.ww == nil {
			return "bad-op"
		}
		before := r.list()
		tailBefore := r.hook.TailIdx()
		r.hook.Housekeep()
		after := r.list()
		if !r.hook.Dirty() {
			r.nsynced = len(r.log)
		}
		if r.hook.TailIdx() != tailBefore {
			o.Count("hk-shift")
		}
		if len(before) > 0 && len(after) > 0 && after[0].idx > before[0].idx {
			o.Count("hk-retire")
			o.Check(c03Total(before) > r.tl, "hk-retires-under-limit", "housekeeping removed segments although total %d <= limit %d", c03Total(before), r.tl)
			// retention: records of removed head segments leave the log
			drop := 0
			for drop < len(r.log) && r.log[drop].seg < after[0].idx {
				drop++
			}
			r.log = r.log[drop:]
			if r.nsynced -= drop; r.nsynced < 0 {
				r.nsynced = 0
			}
		}
		o.Check(len(after) > 0 && after[len(after)-1].idx == r.hook.TailIdx(), "hk-removes-open-tail", "tail segment %d is not on disk after housekeeping", r.hook.TailIdx())
		o.Count("hk")
		return r.afterWriterOp()
	case "close":
		if len(toks) != 1 || r.ww == nil {
			return "bad-op"
		}
		err := r.ww.Close()
		r.ww, r.hook = nil, nil
		if err != nil {
			return "err"
		}
		r.nsynced = len(r.log)
		o.Count("close")
		return "ok " + c03Sizes(r.list()) + " " + r.diskSum()
	case "crash":
		if len(toks) != 3 || r.ww == nil || (toks[1] != "+" && toks[1] != "-") {
			return "bad-op"
		}
		k, err := strconv.ParseInt(toks[2], 10, 64)
		if err != nil || k < 0 {
			return "bad-op"
		}
		tailIdx := r.hook.TailIdx()
		tailPath := consensus.VerifC03FileFor(r.id, tailIdx)
		synced := r.durable[tailIdx]
		if err := r.hook.Crash(); err != nil {
			panic(err)
		}
		r.ww, r.hook = nil, nil
		// a non-tail segment with bytes that were never fsync'ed loses them (never the case in the
		// code as it is: shift syncs before it moves on)
		for _, f := range r.list() {
			if f.idx != tailIdx && r.durable[f.idx] < f.size {
				o.Count("crash-unsynced-older-segment")
				if err := os.Truncate(consensus.VerifC03FileFor(r.id, f.idx), r.durable[f.idx]); err != nil {
					panic(err)
				}
			}
		}
		fi, err := os.Stat(tailPath)
		if err != nil {
			panic(err)
		}
		unsynced := fi.Size() - synced
		if unsynced < 0 {
			panic("synced length beyond file size")
		}
		if k > unsynced {
			k = unsynced
		}
		keep := synced + k
		if toks[1] == "-" {
			keep = synced + unsynced - k
		}
		if err := os.Truncate(tailPath, keep); err != nil {
			panic(err)
		}
		switch {
		case unsynced == 0:
			o.Count("crash-nothing-unsynced")
		case keep == synced:
			o.Count("crash-keep-none")
		case keep == fi.Size():
			o.Count("crash-keep-all")
		default:
			o.Count("crash-keep-part")
		}
		return "ok " + c03Sizes(r.list()) + " " + r.diskSum()
	case "recover", "read":
		if len(toks) != 1 {
			return "bad-op"
		}
		if toks[0] == "recover" && r.ww != nil {
			return "bad-op"
		}
		before := r.list()
		recs, end, err := r.readLoop(toks[0] == "recover")
		if err != nil {
			o.Count(toks[0] + "-err")
			return "err"
		}
		o.Count(toks[0] + "-" + end)
		after := r.list()
		out := fmt.Sprintf("ok end=%s n=%d recs=%s %s %s", end, len(recs), c03Recs(recs), c03Sizes(after), r.diskSum())
		// ---- property oracle (independent of the Lean model) ----
		if r.poked {
			// a byte was corrupted on purpose: the reader must stop in front of the corrupted
			// record (CRC-32C detects every single-byte change) and repair cuts it off
			o.Check(c03IsPrefix(recs, r.log), "recover-returns-corrupted-record", "records read after a byte flip are not a prefix of the appended records: got %d, appended %d", len(recs), len(r.log))
			if toks[0] == "recover" {
				if c03IsPrefix(recs, r.log) {
					r.log = r.log[:len(recs)]
				}
				r.nsynced = len(r.log)
				r.poked = false
			}
			return out
		}
		o.Check(c03IsPrefix(recs, r.log), "recover-not-a-prefix-of-appended", "records read are not a prefix of the appended records: got %d records, appended %d", len(recs), len(r.log))
		deleted := false
		if toks[0] == "recover" {
			for i, f := range before {
				if i == len(before)-1 || f.size == 0 {
					continue
				}
				found := false
				for _, g := range after {
					if g.idx == f.idx {
						found = true
					}
				}
				if !found {
					deleted = true
				}
			}
		}
		if len(recs) < r.nsynced {
			key := "recover-misses-synced-record"
			if r.segGone || deleted {
				key = "repair-deletes-synced-segment"
			} else if r.tornLeft {
				key = "append-after-torn-header-lost"
			}
			o.Check(false, key, "%d synced records, only %d returned (end=%s)", r.nsynced, len(recs), end)
		} else {
			o.Check(true, "recover-misses-synced-record", "")
		}
		if toks[0] == "read" {
			return out
		}
		r.segGone = r.segGone || deleted
		o.Check(!deleted, "repair-deletes-synced-segment", "CloseAndRepair removed a fully synced non-tail segment: before %s after %s", c03Sizes(before), c03Sizes(after))
		o.Check(!strings.Contains(end, "repair-err"), "repair-returns-error", "CloseAndRepair failed: before %s after %s", c03Sizes(before), c03Sizes(after))
		// what was recovered must be what every later read returns
		again, end2, err2 := r.readLoop(false)
		same := err2 == nil && len(again) == len(recs)
		if same {
			for i := range again {
				same = same && bytes.Equal(again[i], recs[i])
			}
		}
		if !deleted {
			o.Check(same, "reread-after-repair-differs", "read after recovery returns %d records (end=%s), recovery returned %d", len(again), end2, len(recs))
		}
		if err2 == nil && end2 != "eof" {
			o.Count("torn-left-after-recover")
		}
		// the log continues from what was recovered
		if c03IsPrefix(recs, r.log) {
			r.log = r.log[:len(recs)]
		} else {
			r.log = r.log[:0]
			for _, b := range recs {
				r.log = append(r.log, c03Rec{b, 0})
			}
		}
		r.nsynced = len(r.log)
		// F2b: ended with a clean EOF although bytes remain after the last valid record
		if end == "eof" {
			var want int64
			for _, b := range recs {
				want += int64(len(b) + consensus.VerifC03HeaderLen)
			}
			if c03Total(after) != want {
				r.tornLeft = true
				o.Count("torn-header-left-unrepaired")
			}
		}
		return out
	case "recoverc":
		return r.stepRecoverC(toks, o)
	case "crashshift":
		return r.stepCrashShift(toks, o)
	case "poke":
		if len(toks) != 4 || r.ww != nil {
			return "bad-op"
		}
		i, e1 := strconv.Atoi(toks[1])
		off, e2 := strconv.ParseInt(toks[2], 10, 64)
		x, e3 := strconv.ParseUint(toks[3], 10, 8)
		if e1 != nil || e2 != nil || e3 != nil || i < 0 || off < 0 {
			return "bad-op"
		}
		fs := r.list()
		if i >= len(fs) || off >= fs[i].size {
			return "skip"
		}
		pth := consensus.VerifC03FileFor(r.id, fs[i].idx)
		bs, err := os.ReadFile(pth)
		if err != nil {
			panic(err)
		}
		bs[off] ^= byte(x)
		if err := os.WriteFile(pth, bs, 0600); err != nil {
			panic(err)
		}
		r.poked = true
		o.Count("poke")
		return "ok"
	}
	return "bad-op"
}

// ---------------------------------------------------------------------------
// generator
// ---------------------------------------------------------------------------

func c03PayloadLen(g *Gen) int {
	switch g.Intn(20) {
	case 0:
		return 0
	case 1:
		return g.Pick(1, 2, 3, 7, 8, 9)
	case 2:
		// bufio boundary: frame = 8 + len around 4096
		return g.Pick(4087, 4088, 4089, 4080+g.Intn(20))
	case 3:
		return g.Pick(55, 56, 127, 128, 255, 256)
	case 4:
		if g.Intn(4) == 0 {
			return 4097 + g.Intn(5000)
		}
		return 200 + g.Intn(2000)
	default:
		return 1 + g.Intn(40)
	}
}

func c03CrashArg(g *Gen, lastLen int) string {
	switch g.Intn(8) {
	case 0:
		return fmt.Sprintf("+ %d", g.Pick(0, 0, 1, 3, 4, 7, 8, 9, 10))
	case 1:
		return fmt.Sprintf("- %d", g.Pick(0, 0, 1, 2, 7, 8, 9))
	case 2:
		// leave exactly the header of the last frame / one byte more or less
		j := lastLen + g.Pick(0, 0, 0, 1, -1, 8, 7, 9)
		if j < 0 {
			j = 0
		}
		return fmt.Sprintf("- %d", j)
	case 3:
		return fmt.Sprintf("+ %d", g.Intn(5000))
	case 4:
		return fmt.Sprintf("- %d", g.Intn(200))
	default:
		return fmt.Sprintf("+ %d", g.Intn(80))
	}
}

// c03CorruptionCase: a clean history whose layout the generator knows, then single byte flips at
// positions that cannot turn a length field into a multi-gigabyte allocation (crc bytes, the two
// low length bytes, payload bytes), then recovery and appending.
func c03CorruptionCase(g *Gen) {
	g.Emit("reset")
	open := func() { g.Emit("open 1048576 4194304 0") }
	open()
	segs := [][]int{{}}
	n := 2 + g.Intn(8)
	for i := 0; i < n; i++ {
		switch x := g.Intn(10); {
		case x < 7:
			l := g.Pick(0, 1, 2, 5, 9, 1+g.Intn(30), 250+g.Intn(10))
			g.Emit("w %s", hx(g.Bytes(l)))
			segs[len(segs)-1] = append(segs[len(segs)-1], l)
		case x < 8:
			g.Emit("sync")
		default:
			g.Emit("shift")
			segs = append(segs, []int{})
		}
	}
	g.Emit("close")
	for pk := g.Pick(1, 1, 2); pk > 0; pk-- {
		si := g.Intn(len(segs))
		if len(segs[si]) == 0 {
			continue
		}
		fj := g.Intn(len(segs[si]))
		off := 0
		for _, l := range segs[si][:fj] {
			off += 8 + l
		}
		l := segs[si][fj]
		pos := g.Pick(0, 1, 2, 3, 6, 7)
		if l > 0 && g.Intn(2) == 0 {
			pos = 8 + g.Intn(l)
		}
		g.Emit("poke %d %d %d", si, off+pos, 1+g.Intn(255))
	}
	if g.Intn(2) == 0 {
		g.Emit("read")
	}
	if g.Intn(2) == 0 {
		// the repair of a corrupted early segment removes later segments AND truncates: die in between
		g.Emit("recoverc %d", g.Pick(0, 1, 1, 2, 3))
	}
	g.Emit("recover")
	g.Emit("recover")
	open()
	g.Emit("w %s", hx(g.Bytes(1+g.Intn(20))))
	g.Emit("sync")
	g.Emit("crash + %d", g.Intn(12))
	g.Emit("recover")
}

func c03Gen(g *Gen) {
	for c := 0; c < g.N; c++ {
		if g.Intn(12) == 0 {
			c03CorruptionCase(g)
			continue
		}
		g.Emit("reset")
		var fl, tl int
		switch g.Intn(4) {
		case 0:
			fl, tl = 1<<20, 1<<22
		case 1:
			fl = 20 + g.Intn(60)
			tl = fl * g.Pick(1, 2, 3, 6)
		default:
			fl = 50 + g.Intn(400)
			tl = fl * g.Pick(1, 2, 4, 8)
		}
		if g.Intn(10) == 0 {
			fl, tl = 4000+g.Intn(300), 9000+g.Intn(8000)
		}
		s := g.Intn(2)
		open := func() { g.Emit("open %d %d %d", fl, tl, s) }
		open()
		nops := 4 + g.Intn(30)
		if g.Tier == "thorough" {
			nops = 4 + g.Intn(70)
		}
		lastLen := 0
		bigLeft := 3 // keep the ops files small: few large payloads per case
		write := func() {
			n := c03PayloadLen(g)
			if n > 300 {
				if bigLeft == 0 {
					n = 1 + g.Intn(40)
				} else {
					bigLeft--
				}
			}
			lastLen = n
			g.Emit("w %s", hx(g.Bytes(n)))
		}
		forceRecoverC := false
		crashCycle := func(arg string) {
			if g.Intn(6) == 0 {
				// die inside Shift after J of its effects
				g.Emit("crashshift %d %d", g.Pick(0, 1, 2, 3, 3, 4), g.Pick(0, 1, 7, 8, 9, g.Intn(60), g.Intn(5000)))
			} else {
				g.Emit("crash %s", arg)
			}
			if g.Intn(3) == 0 || forceRecoverC {
				forceRecoverC = false
				// recovery attempts that die inside CloseAndRepair after J effects
				for i := g.Pick(1, 1, 2, 3); i > 0; i-- {
					g.Emit("recoverc %d", g.Pick(0, 1, 1, 2, 3))
				}
			}
			for i := g.Pick(1, 1, 1, 2); i > 0; i-- {
				g.Emit("recover")
			}
			if g.Intn(4) == 0 {
				g.Emit("read")
			}
			open()
		}
		for i := 0; i < nops; i++ {
			switch x := g.Intn(100); {
			case x < 48:
				write()
			case x < 58:
				g.Emit("sync")
			case x < 63:
				g.Emit("shift")
			case x < 72:
				g.Emit("hk")
			case x < 80:
				crashCycle(c03CrashArg(g, lastLen))
			case x < 84:
				// torn record at the start of a fresh segment
				if g.Intn(2) == 0 {
					g.Emit("shift")
				} else {
					g.Emit("hk")
				}
				write()
				if g.Intn(3) == 0 {
					write()
				}
				crashCycle(c03CrashArg(g, lastLen))
			case x < 86:
				// torn record behind empty segments: CloseAndRepair has several segments to remove
				for i := g.Pick(1, 2, 2, 3); i > 0; i-- {
					g.Emit("shift")
				}
				write()
				forceRecoverC = g.Intn(4) != 0
				crashCycle(c03CrashArg(g, lastLen))
			case x < 88:
				// torn header only
				write()
				if lastLen > 0 && g.Intn(3) != 0 {
					crashCycle(fmt.Sprintf("- %d", lastLen))
				} else {
					crashCycle(c03CrashArg(g, lastLen))
				}
			case x < 92:
				g.Emit("close")
				g.Emit("recover")
				open()
			case x < 96:
				g.Emit("read")
			default:
				// write + sync right after a recovery and crash again
				write()
				g.Emit("sync")
				crashCycle(c03CrashArg(g, lastLen))
			}
		}
		switch g.Intn(3) {
		case 0:
			g.Emit("close")
			g.Emit("recover")
		case 1:
			g.Emit("crash %s", c03CrashArg(g, lastLen))
			g.Emit("recover")
			g.Emit("recover")
		}
	}
	g.Emit("reset")
}
