//go:build c23 || all

package main

// C23: the RLP codec round-trips every supported value and rejects malformed input.
//
// ops (see lean/Goloop/Driver/C23.lean for the token grammar):
//   enc <ty> <val>   marshal a typed value            -> hex
//   dec <hex> <ty>   UnmarshalFromBytes into <ty>     -> ok <val> <rest> | err
//   ovf <val> <ty>   marshal scalar, decode into <ty> -> ok <val> <rest> | err
//   raw <hex>        untyped item structure (checked against an independent walker)
//   tobj <hex>       codec.TypedObj / TypedDict decoding of arbitrary bytes (oracle only) -> ok
//   rep <t> <byte> <n>  round trip of n copies of a byte as []byte/string, top level / nested -> <len> <head> ok|err
//
// Types are built with reflect (StructOf, SliceOf, ...) from the tokens, except that the
// declared Go types below are used whenever the tokens describe one of them.

import (
	"bytes"
	"fmt"
	"math/big"
	"math/rand"
	"reflect"
	"runtime"
	"sort"
	"strconv"
	"strings"

	"github.com/icon-project/goloop/common"
	"github.com/icon-project/goloop/common/codec"
)

func init() {
	Register(&Prop{ID: "C23", Gen: c23Gen, New: func() Runner { return c23Runner{} }})
}

// ---------------------------------------------------------------------------
// declared Go types (the "fixed set mirrored in the harness")

type c23Inner struct {
	A int8
	B uint16
	S string
}

type c23Scalars struct {
	I8  int8
	I16 int16
	I32 int32
	I64 int64
	I   int
	U8  uint8
	U16 uint16
	U32 uint32
	U64 uint64
	U   uint
	B   bool
	S   string
}

type c23Mixed struct {
	Bs  []byte
	Arr [4]byte
	Big *big.Int
	Hex *common.HexInt
	P   *c23Inner
	L   []c23Inner
	LP  []*c23Inner
	N   [][]byte
	A2  [3]int16
}

type c23Maps struct {
	M  map[string]int32
	MU map[uint16][]byte
	MI map[int64]*c23Inner
	MS map[string][]string
}

type c23Nested struct {
	Sc  c23Scalars
	Mx  *c23Mixed
	Mp  c23Maps
	LL  [][]uint32
	Opt *uint64
}

var c23Declared = []reflect.Type{
	reflect.TypeOf(c23Inner{}),
	reflect.TypeOf(c23Scalars{}),
	reflect.TypeOf(c23Mixed{}),
	reflect.TypeOf(c23Maps{}),
	reflect.TypeOf(c23Nested{}),
	reflect.TypeOf([]*c23Inner{}),
	reflect.TypeOf(map[string]*c23Mixed{}),
}

// ---------------------------------------------------------------------------
// type AST <-> tokens <-> reflect.Type

type c23Ty struct {
	K byte // b u i s B A Z H L R P S M
	N int  // width / array length / field count
	E []*c23Ty
}

var (
	c23BigT = reflect.TypeOf(big.Int{})
	c23HexT = reflect.TypeOf(common.HexInt{})
)

func c23TyOf(t reflect.Type) *c23Ty {
	switch t.Kind() {
	case reflect.Bool:
		return &c23Ty{K: 'b'}
	case reflect.Uint8:
		return &c23Ty{K: 'u', N: 8}
	case reflect.Uint16:
		return &c23Ty{K: 'u', N: 16}
	case reflect.Uint32:
		return &c23Ty{K: 'u', N: 32}
	case reflect.Uint64, reflect.Uint:
		return &c23Ty{K: 'u', N: 64}
	case reflect.Int8:
		return &c23Ty{K: 'i', N: 8}
	case reflect.Int16:
		return &c23Ty{K: 'i', N: 16}
	case reflect.Int32:
		return &c23Ty{K: 'i', N: 32}
	case reflect.Int64, reflect.Int:
		return &c23Ty{K: 'i', N: 64}
	case reflect.String:
		return &c23Ty{K: 's'}
	case reflect.Slice:
		if t.Elem().Kind() == reflect.Uint8 {
			return &c23Ty{K: 'B'}
		}
		return &c23Ty{K: 'L', E: []*c23Ty{c23TyOf(t.Elem())}}
	case reflect.Array:
		if t.Elem().Kind() == reflect.Uint8 {
			return &c23Ty{K: 'A', N: t.Len()}
		}
		return &c23Ty{K: 'R', N: t.Len(), E: []*c23Ty{c23TyOf(t.Elem())}}
	case reflect.Ptr:
		return &c23Ty{K: 'P', E: []*c23Ty{c23TyOf(t.Elem())}}
	case reflect.Map:
		return &c23Ty{K: 'M', E: []*c23Ty{c23TyOf(t.Key()), c23TyOf(t.Elem())}}
	case reflect.Struct:
		if t == c23BigT {
			return &c23Ty{K: 'Z'}
		}
		if t == c23HexT {
			return &c23Ty{K: 'H'}
		}
		r := &c23Ty{K: 'S', N: t.NumField()}
		for i := 0; i < t.NumField(); i++ {
			r.E = append(r.E, c23TyOf(t.Field(i).Type))
		}
		return r
	}
	panic("c23: unsupported type " + t.String())
}

func (t *c23Ty) tokens(sb *strings.Builder) {
	if sb.Len() > 0 {
		sb.WriteByte(' ')
	}
	switch t.K {
	case 'u', 'i':
		fmt.Fprintf(sb, "%c%d", t.K, t.N)
	case 'A', 'R', 'S':
		fmt.Fprintf(sb, "%c%d", t.K, t.N)
	case 'H':
		sb.WriteByte('Z') // same wire behaviour as *big.Int; the model has one type for both
	default:
		sb.WriteByte(t.K)
	}
	for _, e := range t.E {
		e.tokens(sb)
	}
}

// key distinguishes H from Z (tokens() does not)
func (t *c23Ty) key(sb *strings.Builder) {
	fmt.Fprintf(sb, "%c%d(", t.K, t.N)
	for _, e := range t.E {
		e.key(sb)
	}
	sb.WriteByte(')')
}

func (t *c23Ty) String() string {
	var sb strings.Builder
	t.tokens(&sb)
	return sb.String()
}

func (t *c23Ty) Key() string {
	var sb strings.Builder
	t.key(&sb)
	return sb.String()
}

var c23TypeCache = map[string]reflect.Type{}

func init() {
	for _, t := range c23Declared {
		c23TypeCache[c23TyOf(t).Key()] = t
	}
}

func (t *c23Ty) goType() reflect.Type {
	k := t.Key()
	if r, ok := c23TypeCache[k]; ok {
		return r
	}
	var r reflect.Type
	switch t.K {
	case 'b':
		r = reflect.TypeOf(false)
	case 'u':
		r = map[int]reflect.Type{8: reflect.TypeOf(uint8(0)), 16: reflect.TypeOf(uint16(0)), 32: reflect.TypeOf(uint32(0)), 64: reflect.TypeOf(uint64(0))}[t.N]
	case 'i':
		r = map[int]reflect.Type{8: reflect.TypeOf(int8(0)), 16: reflect.TypeOf(int16(0)), 32: reflect.TypeOf(int32(0)), 64: reflect.TypeOf(int64(0))}[t.N]
	case 's':
		r = reflect.TypeOf("")
	case 'B':
		r = reflect.TypeOf([]byte(nil))
	case 'A':
		r = reflect.ArrayOf(t.N, reflect.TypeOf(byte(0)))
	case 'Z':
		r = c23BigT
	case 'H':
		r = c23HexT
	case 'L':
		r = reflect.SliceOf(t.E[0].goType())
	case 'R':
		r = reflect.ArrayOf(t.N, t.E[0].goType())
	case 'P':
		r = reflect.PtrTo(t.E[0].goType())
	case 'M':
		r = reflect.MapOf(t.E[0].goType(), t.E[1].goType())
	case 'S':
		fs := make([]reflect.StructField, t.N)
		for i, e := range t.E {
			fs[i] = reflect.StructField{Name: fmt.Sprintf("F%d", i), Type: e.goType()}
		}
		r = reflect.StructOf(fs)
	}
	if r == nil {
		panic("c23: bad type " + k)
	}
	c23TypeCache[k] = r
	return r
}

// tokens -> type. Z stands for big.Int; the harness-only distinction Z/H is carried by "H".
func c23ParseTy(toks []string) (*c23Ty, []string) {
	if len(toks) == 0 {
		return nil, nil
	}
	t, rest := toks[0], toks[1:]
	num := func() int {
		n, err := strconv.Atoi(t[1:])
		if err != nil {
			return -1
		}
		return n
	}
	sub := func(n int, r *c23Ty) (*c23Ty, []string) {
		for i := 0; i < n; i++ {
			var e *c23Ty
			e, rest = c23ParseTy(rest)
			if e == nil {
				return nil, nil
			}
			r.E = append(r.E, e)
		}
		return r, rest
	}
	switch t {
	case "b", "s", "B", "Z", "H":
		return &c23Ty{K: t[0]}, rest
	case "L", "P":
		return sub(1, &c23Ty{K: t[0]})
	case "M":
		return sub(2, &c23Ty{K: 'M'})
	}
	n := num()
	if n < 0 {
		return nil, nil
	}
	switch t[0] {
	case 'u', 'i':
		if n != 8 && n != 16 && n != 32 && n != 64 {
			return nil, nil
		}
		return &c23Ty{K: t[0], N: n}, rest
	case 'A':
		return &c23Ty{K: 'A', N: n}, rest
	case 'R':
		return sub(1, &c23Ty{K: 'R', N: n})
	case 'S':
		return sub(n, &c23Ty{K: 'S', N: n})
	}
	return nil, nil
}

// wf: no pointer to a type that has its own nil encoding (the format cannot keep
// "pointer to nil" apart from "nil pointer"); big.Int only below a pointer.
func (t *c23Ty) nullable() bool {
	return t.K == 'B' || t.K == 'L' || t.K == 'P' || t.K == 'M'
}

func (t *c23Ty) wf(underPtr bool) bool {
	switch t.K {
	case 'Z', 'H':
		return underPtr
	case 'P':
		return !t.E[0].nullable() && t.E[0].wf(true)
	case 'M':
		k := t.E[0].K
		return (k == 's' || k == 'u' || k == 'i') && t.E[1].wf(false)
	}
	for _, e := range t.E {
		if !e.wf(false) {
			return false
		}
	}
	return true
}

// ---------------------------------------------------------------------------
// values: render reflect.Value -> tokens, build tokens -> reflect.Value

func c23BigOf(v reflect.Value, ty *c23Ty) *big.Int {
	if ty.K == 'H' {
		return &v.Addr().Interface().(*common.HexInt).Int
	}
	return v.Addr().Interface().(*big.Int)
}

func c23KeyLess(a, b reflect.Value) bool {
	switch a.Kind() {
	case reflect.String:
		return a.String() < b.String()
	case reflect.Int, reflect.Int8, reflect.Int16, reflect.Int32, reflect.Int64:
		return a.Int() < b.Int()
	default:
		return a.Uint() < b.Uint()
	}
}

// order: nil = canonical (maps sorted by key); otherwise order(n) gives the entry order
func c23Render(sb *strings.Builder, v reflect.Value, ty *c23Ty, order func(n int) []int) {
	if sb.Len() > 0 {
		sb.WriteByte(' ')
	}
	switch ty.K {
	case 'b':
		if v.Bool() {
			sb.WriteByte('t')
		} else {
			sb.WriteByte('f')
		}
	case 'u':
		fmt.Fprintf(sb, "u%d", v.Uint())
	case 'i':
		fmt.Fprintf(sb, "i%d", v.Int())
	case 's':
		sb.WriteString("s" + hx([]byte(v.String())))
	case 'B':
		if v.IsNil() {
			sb.WriteByte('n')
		} else {
			sb.WriteString("x" + hx(v.Bytes()))
		}
	case 'A':
		bs := make([]byte, v.Len())
		reflect.Copy(reflect.ValueOf(bs), v)
		sb.WriteString("x" + hx(bs))
	case 'Z', 'H':
		sb.WriteString("z" + c23BigOf(v, ty).String())
	case 'P':
		if v.IsNil() {
			sb.WriteByte('n')
		} else {
			sb.WriteByte('p')
			c23Render(sb, v.Elem(), ty.E[0], order)
		}
	case 'L':
		if v.IsNil() {
			sb.WriteByte('n')
			return
		}
		fallthrough
	case 'R':
		fmt.Fprintf(sb, "l%d", v.Len())
		for i := 0; i < v.Len(); i++ {
			c23Render(sb, v.Index(i), ty.E[0], order)
		}
	case 'S':
		fmt.Fprintf(sb, "l%d", v.NumField())
		for i := 0; i < v.NumField(); i++ {
			c23Render(sb, v.Field(i), ty.E[i], order)
		}
	case 'M':
		if v.IsNil() {
			sb.WriteByte('n')
			return
		}
		keys := v.MapKeys()
		sort.Slice(keys, func(i, j int) bool { return c23KeyLess(keys[i], keys[j]) })
		if order != nil {
			p := order(len(keys))
			k2 := make([]reflect.Value, len(keys))
			for i, j := range p {
				k2[i] = keys[j]
			}
			keys = k2
		}
		fmt.Fprintf(sb, "m%d", len(keys))
		for _, k := range keys {
			c23Render(sb, k, ty.E[0], order)
			// map values are not addressable: copy into an addressable slot
			slot := reflect.New(v.Type().Elem()).Elem()
			slot.Set(v.MapIndex(k))
			c23Render(sb, slot, ty.E[1], order)
		}
	}
}

func c23RenderStr(v reflect.Value, ty *c23Ty, order func(n int) []int) string {
	var sb strings.Builder
	c23Render(&sb, v, ty, order)
	return sb.String()
}

// build fills the addressable value v of type ty from tokens; reverse: insert map entries
// in reverse token order (to vary the map's insertion history).
func c23Build(toks []string, v reflect.Value, ty *c23Ty, reverse bool) ([]string, bool) {
	if len(toks) == 0 {
		return nil, false
	}
	t, rest := toks[0], toks[1:]
	switch ty.K {
	case 'b':
		if t != "t" && t != "f" {
			return nil, false
		}
		v.SetBool(t == "t")
		return rest, true
	case 'u':
		n, err := strconv.ParseUint(strings.TrimPrefix(t, "u"), 10, 64)
		if err != nil || t[0] != 'u' || v.OverflowUint(n) {
			return nil, false
		}
		v.SetUint(n)
		return rest, true
	case 'i':
		n, err := strconv.ParseInt(strings.TrimPrefix(t, "i"), 10, 64)
		if err != nil || t[0] != 'i' || v.OverflowInt(n) {
			return nil, false
		}
		v.SetInt(n)
		return rest, true
	case 's':
		if t[0] != 's' {
			return nil, false
		}
		v.SetString(string(unhx(t[1:])))
		return rest, true
	case 'B':
		if t == "n" {
			v.Set(reflect.Zero(v.Type()))
			return rest, true
		}
		if t[0] != 'x' {
			return nil, false
		}
		v.SetBytes(unhx(t[1:]))
		return rest, true
	case 'A':
		if t[0] != 'x' {
			return nil, false
		}
		bs := unhx(t[1:])
		if len(bs) != v.Len() {
			return nil, false
		}
		reflect.Copy(v, reflect.ValueOf(bs))
		return rest, true
	case 'Z', 'H':
		if t[0] != 'z' {
			return nil, false
		}
		if _, ok := c23BigOf(v, ty).SetString(t[1:], 10); !ok {
			return nil, false
		}
		return rest, true
	case 'P':
		if t == "n" {
			v.Set(reflect.Zero(v.Type()))
			return rest, true
		}
		if t != "p" {
			return nil, false
		}
		p := reflect.New(v.Type().Elem())
		rest, ok := c23Build(rest, p.Elem(), ty.E[0], reverse)
		if !ok {
			return nil, false
		}
		v.Set(p)
		return rest, true
	case 'L', 'R', 'S':
		if t == "n" && ty.K == 'L' {
			v.Set(reflect.Zero(v.Type()))
			return rest, true
		}
		if t[0] != 'l' {
			return nil, false
		}
		n, err := strconv.Atoi(t[1:])
		if err != nil {
			return nil, false
		}
		if ty.K == 'L' {
			v.Set(reflect.MakeSlice(v.Type(), n, n))
		} else if (ty.K == 'R' && n != v.Len()) || (ty.K == 'S' && n != v.NumField()) {
			return nil, false
		}
		for i := 0; i < n; i++ {
			var ok bool
			if ty.K == 'S' {
				rest, ok = c23Build(rest, v.Field(i), ty.E[i], reverse)
			} else {
				rest, ok = c23Build(rest, v.Index(i), ty.E[0], reverse)
			}
			if !ok {
				return nil, false
			}
		}
		return rest, true
	case 'M':
		if t == "n" {
			v.Set(reflect.Zero(v.Type()))
			return rest, true
		}
		if t[0] != 'm' {
			return nil, false
		}
		n, err := strconv.Atoi(t[1:])
		if err != nil {
			return nil, false
		}
		ks := make([]reflect.Value, n)
		vs := make([]reflect.Value, n)
		for i := 0; i < n; i++ {
			var ok bool
			ks[i] = reflect.New(v.Type().Key()).Elem()
			if rest, ok = c23Build(rest, ks[i], ty.E[0], reverse); !ok {
				return nil, false
			}
			vs[i] = reflect.New(v.Type().Elem()).Elem()
			if rest, ok = c23Build(rest, vs[i], ty.E[1], reverse); !ok {
				return nil, false
			}
		}
		m := reflect.MakeMap(v.Type())
		for i := 0; i < n; i++ {
			j := i
			if reverse {
				j = n - 1 - i
			}
			m.SetMapIndex(ks[j], vs[j])
		}
		v.Set(m)
		return rest, true
	}
	return nil, false
}

// ---------------------------------------------------------------------------
// generators

var c23Lens = []int{0, 0, 1, 1, 1, 2, 3, 5, 8, 31, 54, 55, 56, 57, 127, 128, 255, 256, 257}

func c23GenLen(g *Gen) int {
	if g.Intn(3) == 0 {
		return c23Lens[g.Intn(len(c23Lens))]
	}
	return g.Intn(6)
}

func c23GenBytes(g *Gen) []byte {
	n := c23GenLen(g)
	if g.Tier == "thorough" && g.Intn(400) == 0 {
		n = g.Pick(65535, 65536, 70000)
	}
	b := g.Bytes(n)
	if n > 0 && g.Intn(2) == 0 {
		b[0] = byte(g.Pick(0, 1, 0x7f, 0x80, 0x81, 0xb7, 0xb8, 0xc0, 0xf7, 0xf8, 0xff))
	}
	return b
}

func c23GenUint(g *Gen, w int) uint64 {
	var v uint64
	switch g.Intn(4) {
	case 0:
		v = uint64(g.Pick(0, 1, 0x7f, 0x80, 0xff, 0x100))
	case 1:
		k := uint(g.Intn(65))
		if k == 64 {
			v = ^uint64(0) - uint64(g.Intn(2))
		} else {
			v = uint64(1)<<k + uint64(g.Intn(3)) - 1
		}
	default:
		v = g.R.Uint64() >> uint(g.Intn(64))
	}
	if w < 64 {
		v &= uint64(1)<<uint(w) - 1
	}
	return v
}

func c23GenInt(g *Gen, w int) int64 {
	u := c23GenUint(g, 64)
	v := int64(u)
	switch w {
	case 8:
		v = int64(int8(u))
	case 16:
		v = int64(int16(u))
	case 32:
		v = int64(int32(u))
	}
	if g.Intn(4) == 0 {
		// boundaries of the width
		lo := -(int64(1) << uint(w-1))
		hi := int64(1)<<uint(w-1) - 1
		v = []int64{lo, lo + 1, hi, hi - 1, -1, -128, -129, 127, 128}[g.Intn(9)]
		if v < lo || v > hi {
			v = lo
		}
	}
	return v
}

func c23GenBig(g *Gen) *big.Int {
	var v *big.Int
	switch g.Intn(3) {
	case 0:
		v = big.NewInt(int64(g.Intn(600) - 300))
	case 1:
		k := g.Intn(140)
		v = new(big.Int).Lsh(big.NewInt(1), uint(k))
		v.Add(v, big.NewInt(int64(g.Intn(3)-1)))
	default:
		v = new(big.Int).SetBytes(g.Bytes(1 + g.Intn(40)))
	}
	if g.Intn(2) == 0 {
		v.Neg(v)
	}
	return v
}

// random type; wfOnly: only types whose every value round-trips
func c23GenTy(g *Gen, depth int, wfOnly bool, underPtr bool) *c23Ty {
	scalar := func() *c23Ty {
		switch g.Intn(6) {
		case 0:
			return &c23Ty{K: 'b'}
		case 1:
			return &c23Ty{K: 'u', N: g.Pick(8, 16, 32, 64)}
		case 2:
			return &c23Ty{K: 'i', N: g.Pick(8, 16, 32, 64)}
		case 3:
			return &c23Ty{K: 's'}
		case 4:
			return &c23Ty{K: 'B'}
		default:
			return &c23Ty{K: 'A', N: g.Pick(1, 2, 4, 32)}
		}
	}
	if depth <= 0 {
		t := scalar()
		if underPtr && wfOnly && t.nullable() {
			return &c23Ty{K: 's'}
		}
		return t
	}
	for {
		var t *c23Ty
		switch g.Intn(9) {
		case 0, 1:
			t = scalar()
		case 2:
			t = &c23Ty{K: 'L', E: []*c23Ty{c23GenTy(g, depth-1, wfOnly, false)}}
		case 3:
			t = &c23Ty{K: 'R', N: g.Pick(1, 2, 3), E: []*c23Ty{c23GenTy(g, depth-1, wfOnly, false)}}
		case 4:
			if g.Intn(3) == 0 {
				t = &c23Ty{K: 'P', E: []*c23Ty{{K: byte(g.Pick('Z', 'H'))}}}
			} else {
				t = &c23Ty{K: 'P', E: []*c23Ty{c23GenTy(g, depth-1, wfOnly, true)}}
			}
		case 5, 6:
			n := g.Intn(5)
			t = &c23Ty{K: 'S', N: n}
			for i := 0; i < n; i++ {
				t.E = append(t.E, c23GenTy(g, depth-1, wfOnly, false))
			}
		case 7:
			var k *c23Ty
			switch g.Intn(3) {
			case 0:
				k = &c23Ty{K: 's'}
			case 1:
				k = &c23Ty{K: 'u', N: g.Pick(8, 16, 32, 64)}
			default:
				k = &c23Ty{K: 'i', N: g.Pick(8, 16, 32, 64)}
			}
			t = &c23Ty{K: 'M', E: []*c23Ty{k, c23GenTy(g, depth-1, wfOnly, false)}}
		default:
			t = c23TyOf(c23Declared[g.Intn(len(c23Declared))])
		}
		// the codec treats every slice/array of a uint8 kind as a byte string
		if (t.K == 'L' || t.K == 'R') && t.E[0].K == 'u' && t.E[0].N == 8 {
			if t.K == 'L' {
				t = &c23Ty{K: 'B'}
			} else {
				t = &c23Ty{K: 'A', N: t.N}
			}
		}
		if wfOnly && (!t.wf(underPtr) || (underPtr && t.nullable())) {
			continue
		}
		return t
	}
}

// random value of the type (fills addressable v)
func c23GenVal(g *Gen, v reflect.Value, ty *c23Ty, depth int) {
	switch ty.K {
	case 'b':
		v.SetBool(g.Intn(2) == 0)
	case 'u':
		v.SetUint(c23GenUint(g, ty.N))
	case 'i':
		v.SetInt(c23GenInt(g, ty.N))
	case 's':
		v.SetString(string(c23GenBytes(g)))
	case 'B':
		if g.Intn(5) == 0 {
			return
		}
		b := c23GenBytes(g)
		if len(b) == 0 {
			b = []byte{}
		}
		v.SetBytes(b)
	case 'A':
		reflect.Copy(v, reflect.ValueOf(g.Bytes(v.Len())))
	case 'Z', 'H':
		c23BigOf(v, ty).Set(c23GenBig(g))
	case 'P':
		if g.Intn(4) == 0 {
			return
		}
		p := reflect.New(v.Type().Elem())
		c23GenVal(g, p.Elem(), ty.E[0], depth+1)
		v.Set(p)
	case 'L':
		if g.Intn(6) == 0 {
			return
		}
		n := g.Intn(4)
		if depth == 0 && g.Intn(8) == 0 {
			n = g.Pick(16, 17, 56, 60)
		}
		v.Set(reflect.MakeSlice(v.Type(), n, n))
		for i := 0; i < n; i++ {
			c23GenVal(g, v.Index(i), ty.E[0], depth+1)
		}
	case 'R':
		for i := 0; i < v.Len(); i++ {
			c23GenVal(g, v.Index(i), ty.E[0], depth+1)
		}
	case 'S':
		for i := 0; i < v.NumField(); i++ {
			c23GenVal(g, v.Field(i), ty.E[i], depth+1)
		}
	case 'M':
		if g.Intn(6) == 0 {
			return
		}
		n := g.Intn(5)
		m := reflect.MakeMap(v.Type())
		for i := 0; i < n; i++ {
			k := reflect.New(v.Type().Key()).Elem()
			c23GenVal(g, k, ty.E[0], depth+1)
			if ty.E[0].K == 's' && g.Intn(2) == 0 {
				// short keys sharing prefixes: order must be bytewise
				k.SetString([]string{"", "a", "ab", "b", "a\x00", "\x7f", "\x80", "\xff", "aa"}[g.Intn(9)])
			}
			e := reflect.New(v.Type().Elem()).Elem()
			c23GenVal(g, e, ty.E[1], depth+1)
			m.SetMapIndex(k, e)
		}
		v.Set(m)
	}
}

// --- reference RLP writers used by the fuzz encoder (independent of codec) ---

func c23SizeBytes(n int, pad int) []byte {
	var b []byte
	for v := n; v > 0; v >>= 8 {
		b = append([]byte{byte(v)}, b...)
	}
	if len(b) == 0 {
		b = []byte{0}
	}
	for ; pad > 0 && len(b) < 8; pad-- {
		b = append([]byte{0}, b...)
	}
	return b
}

// header for payload length n; mode 0 canonical, 1 long form forced, 2 long form with zero padding
func c23Header(base int, n int, mode int) []byte {
	if n <= 55 && mode == 0 {
		return []byte{byte(base + n)}
	}
	pad := 0
	if mode == 2 {
		pad = 1 + n%3
	}
	sz := c23SizeBytes(n, pad)
	return append([]byte{byte(base + 55 + len(sz))}, sz...)
}

func c23RefBytes(b []byte, mode int) []byte {
	if len(b) == 1 && b[0] < 0x80 && mode == 0 {
		return []byte{b[0]}
	}
	return append(c23Header(0x80, len(b), mode), b...)
}

func c23RefList(p []byte, mode int) []byte {
	return append(c23Header(0xc0, len(p), mode), p...)
}

// independent reference encoder: canonical RLP of a typed value, maps by sorted key
func c23RefInt(v *big.Int) []byte {
	if v.Sign() == 0 {
		return []byte{0}
	}
	if v.Sign() > 0 {
		b := v.Bytes()
		if b[0]&0x80 != 0 {
			b = append([]byte{0}, b...)
		}
		return b
	}
	// two's complement, minimal
	n := 1
	for ; ; n++ {
		lo := new(big.Int).Neg(new(big.Int).Lsh(big.NewInt(1), uint(8*n-1)))
		if v.Cmp(lo) >= 0 {
			break
		}
	}
	m := new(big.Int).Add(new(big.Int).Lsh(big.NewInt(1), uint(8*n)), v)
	b := m.Bytes()
	for len(b) < n {
		b = append([]byte{0}, b...)
	}
	return b
}

func c23RefEncode(v reflect.Value, ty *c23Ty) []byte {
	switch ty.K {
	case 'b':
		if v.Bool() {
			return []byte{1}
		}
		return []byte{0}
	case 'u':
		return c23RefBytes(c23RefInt(new(big.Int).SetUint64(v.Uint())), 0)
	case 'i':
		return c23RefBytes(c23RefInt(big.NewInt(v.Int())), 0)
	case 's':
		return c23RefBytes([]byte(v.String()), 0)
	case 'B':
		if v.IsNil() {
			return c23Nil
		}
		return c23RefBytes(v.Bytes(), 0)
	case 'A':
		bs := make([]byte, v.Len())
		reflect.Copy(reflect.ValueOf(bs), v)
		return c23RefBytes(bs, 0)
	case 'Z', 'H':
		return c23RefBytes(c23RefInt(c23BigOf(v, ty)), 0)
	case 'P':
		if v.IsNil() {
			return c23Nil
		}
		return c23RefEncode(v.Elem(), ty.E[0])
	case 'L', 'R':
		if ty.K == 'L' && v.IsNil() {
			return c23Nil
		}
		var p []byte
		for i := 0; i < v.Len(); i++ {
			p = append(p, c23RefEncode(v.Index(i), ty.E[0])...)
		}
		return c23RefList(p, 0)
	case 'S':
		var p []byte
		for i := 0; i < v.NumField(); i++ {
			p = append(p, c23RefEncode(v.Field(i), ty.E[i])...)
		}
		return c23RefList(p, 0)
	case 'M':
		if v.IsNil() {
			return c23Nil
		}
		keys := v.MapKeys()
		sort.Slice(keys, func(i, j int) bool { return c23KeyLess(keys[i], keys[j]) })
		var p []byte
		for _, k := range keys {
			p = append(p, c23RefEncode(k, ty.E[0])...)
			slot := reflect.New(v.Type().Elem()).Elem()
			slot.Set(v.MapIndex(k))
			p = append(p, c23RefEncode(slot, ty.E[1])...)
		}
		return c23RefList(p, 0)
	}
	return nil
}

// total length of the first item of b (header + declared size), -1 if the header is
// malformed or the declared size passes the end of b
func c23ItemLen(b []byte) int {
	if len(b) == 0 {
		return -1
	}
	tag := int(b[0])
	hdr, size := 1, 0
	long := func(n int) bool {
		if len(b) < 1+n {
			return false
		}
		v := new(big.Int).SetBytes(b[1 : 1+n])
		if !v.IsInt64() {
			return false
		}
		hdr, size = 1+n, int(v.Int64())
		return true
	}
	switch {
	case tag < 0x80:
		return 1
	case tag <= 0xb7:
		size = tag - 0x80
	case tag < 0xc0:
		if !long(tag - 0xb7) {
			return -1
		}
	case tag <= 0xf7:
		size = tag - 0xc0
	default:
		if !long(tag - 0xf7) {
			return -1
		}
	}
	if size > len(b)-hdr {
		return -1
	}
	return hdr + size
}

type c23Fuzz struct {
	g    *Gen
	rate int // 1/rate deviation probability per node
}

func (f *c23Fuzz) dev() bool { return f.g.Intn(f.rate) == 0 }

func (f *c23Fuzz) mode() int {
	if f.dev() {
		return 1 + f.g.Intn(2)
	}
	return 0
}

// sizeLie returns the header for a payload but declaring a different size
func (f *c23Fuzz) wrap(base int, p []byte) []byte {
	n := len(p)
	if f.dev() {
		switch f.g.Intn(5) {
		case 0:
			n++
		case 1:
			if n > 0 {
				n--
			}
		case 2:
			n += 1 + f.g.Intn(300)
		case 3:
			n = f.g.Intn(n + 1)
		default:
			// enormous size
			return append(append([]byte{byte(base + 55 + 8)}, []byte{byte(f.g.Pick(0, 0x7f, 0x80, 0xff)), 0xff, 0xff, 0xff, 0xff, 0xff, 0xff, byte(f.g.Pick(0, 0xff))}...), p...)
		}
	}
	if base == 0x80 && len(p) == 1 && p[0] < 0x80 && n == 1 && !f.dev() {
		return []byte{p[0]}
	}
	return append(c23Header(base, n, f.mode()), p...)
}

var c23Nil = []byte{0xf8, 0}

func (f *c23Fuzz) intBytes(ty *c23Ty) []byte {
	g := f.g
	var b []byte
	if f.dev() {
		// deliberately out of range / non minimal
		switch g.Intn(5) {
		case 0:
			b = g.Bytes(ty.N/8 + 1)
		case 1:
			b = append([]byte{0}, g.Bytes(ty.N/8)...)
		case 2:
			b = g.Bytes(9 + g.Intn(2))
		case 3:
			b = append([]byte{0xff}, g.Bytes(ty.N/8)...)
		default:
			b = []byte{}
		}
		return b
	}
	if ty.K == 'u' {
		v := c23GenUint(g, ty.N)
		b = c23SizeBytes(int(v&0x7fffffffffffffff), 0)
		if v>>63 != 0 {
			b = big.NewInt(0).SetUint64(v).Bytes()
		}
		if b[0]&0x80 != 0 {
			b = append([]byte{0}, b...)
		}
		return b
	}
	v := c23GenInt(g, ty.N)
	n := 1
	for ; n < 8; n++ {
		lo := -(int64(1) << uint(8*n-1))
		if v >= lo && v <= -lo-1 {
			break
		}
	}
	b = make([]byte, n)
	for i := 0; i < n; i++ {
		b[n-1-i] = byte(v >> uint(8*i))
	}
	return b
}

// enc produces bytes that look like an encoding of a value of type ty, with deviations
func (f *c23Fuzz) enc(ty *c23Ty, depth int) []byte {
	g := f.g
	if f.dev() {
		switch g.Intn(6) {
		case 0, 1:
			return c23Nil
		case 2:
			return f.wrap(0x80, c23GenBytes(g)) // a string whatever the type
		case 3:
			return f.wrap(0xc0, f.enc(&c23Ty{K: 'L', E: []*c23Ty{{K: 'u', N: 8}}}, depth+1))
		case 4:
			return []byte{}
		default:
			return g.Bytes(1 + g.Intn(4))
		}
	}
	switch ty.K {
	case 'b':
		return f.wrap(0x80, []byte{byte(g.Pick(0, 1, 0, 1, 2, 0x80))})
	case 'u', 'i':
		return f.wrap(0x80, f.intBytes(ty))
	case 's', 'B':
		return f.wrap(0x80, c23GenBytes(g))
	case 'A':
		n := ty.N
		if f.dev() {
			n = g.Intn(2 * (n + 1))
		}
		return f.wrap(0x80, g.Bytes(n))
	case 'Z', 'H':
		return f.wrap(0x80, g.Bytes(g.Intn(12)))
	case 'P':
		return f.enc(ty.E[0], depth)
	case 'L':
		n := g.Intn(4)
		if depth > 2 {
			n = g.Intn(2)
		}
		var p []byte
		for i := 0; i < n; i++ {
			p = append(p, f.enc(ty.E[0], depth+1)...)
		}
		return f.wrap(0xc0, p)
	case 'R':
		n := ty.N
		if f.dev() {
			n = g.Intn(ty.N + 3)
		}
		var p []byte
		for i := 0; i < n; i++ {
			p = append(p, f.enc(ty.E[0], depth+1)...)
		}
		return f.wrap(0xc0, p)
	case 'S':
		n := ty.N
		if f.dev() {
			n = g.Intn(ty.N + 1)
		}
		var p []byte
		for i := 0; i < n; i++ {
			p = append(p, f.enc(ty.E[i], depth+1)...)
		}
		if f.dev() {
			p = append(p, f.enc(&c23Ty{K: 's'}, depth+1)...)
		}
		return f.wrap(0xc0, p)
	case 'M':
		n := g.Intn(4)
		var p []byte
		for i := 0; i < n; i++ {
			p = append(p, f.enc(ty.E[0], depth+1)...)
			if i == n-1 && f.dev() {
				break // key without value
			}
			p = append(p, f.enc(ty.E[1], depth+1)...)
		}
		return f.wrap(0xc0, p)
	}
	return nil
}

func c23Mutate(g *Gen, b []byte) []byte {
	b = append([]byte{}, b...)
	switch g.Intn(8) {
	case 0:
		if len(b) > 0 {
			b = b[:g.Intn(len(b))]
		}
	case 1:
		b = append(b, g.Bytes(1+g.Intn(3))...)
	case 2, 3:
		if len(b) > 0 {
			b[g.Intn(len(b))] = byte(g.Pick(0, 0x7f, 0x80, 0x81, 0xb7, 0xb8, 0xbf, 0xc0, 0xc1, 0xf7, 0xf8, 0xf9, 0xff, g.Intn(256)))
		}
	case 4:
		if len(b) > 0 {
			i := g.Intn(len(b))
			b[i] += byte(g.Pick(1, 255))
		}
	case 5:
		if len(b) > 1 {
			i := g.Intn(len(b) - 1)
			b = append(b[:i], append([]byte{0xf8, 0}, b[i:]...)...)
		}
	case 6:
		if len(b) > 1 {
			i := g.Intn(len(b))
			b = append(b[:i], b[i+1:]...)
		}
	}
	return b
}

// long-form header (tag base+55+k, k size bytes) declaring n
func c23LongHeader(base int, n uint64, pad int) []byte {
	var sz []byte
	for v := n; v > 0; v >>= 8 {
		sz = append([]byte{byte(v)}, sz...)
	}
	if len(sz) == 0 {
		sz = []byte{0}
	}
	for ; pad > 0 && len(sz) < 8; pad-- {
		sz = append([]byte{0}, sz...)
	}
	return append([]byte{byte(base + 55 + len(sz))}, sz...)
}

// c23NestedLie: depth 0..3 list wrappers (slice / struct / array / pointer-to-struct / map
// value) around a byte-string-read leaf. Every wrapper gets a long-form list header whose
// declared size is far beyond the input (2^20 .. 2^62, MaxInt); the leaf (or an extra inner
// list) gets a long-form header whose size is within the enclosing claim but beyond the real
// input. A correct reader rejects without allocating; sizes are chosen either moderately
// large (a missing bound shows as allocation) or above 2^48 (shows as makeslice panic).
func c23NestedLie(g *Gen) (*c23Ty, []byte) {
	leaves := []*c23Ty{{K: 'B'}, {K: 's'}, {K: 'A', N: 4}, {K: 'u', N: 64}, {K: 'i', N: 32}, {K: 'b'},
		{K: 'P', E: []*c23Ty{{K: 'Z'}}}, {K: 'P', E: []*c23Ty{{K: 'H'}}}, {K: 'P', E: []*c23Ty{{K: 's'}}}}
	ty := leaves[g.Intn(len(leaves))]
	if g.Intn(2) == 0 {
		ty = &c23Ty{K: byte(g.Pick('B', 's'))}
	}
	depth := g.Intn(4)
	// claims from outermost to innermost, non increasing
	outer := []uint64{1 << 20, 1 << 24, 1<<31 - 1, 1 << 31, 1 << 32, 1 << 40, 1 << 48, 1 << 56, 1 << 62, 1<<63 - 1}[g.Intn(10)]
	outer += uint64(g.Intn(3))
	claims := make([]uint64, depth)
	c := outer
	for i := 0; i < depth; i++ {
		claims[i] = c
		if c > 64 && g.Intn(2) == 0 {
			c = c - 9 - uint64(g.Intn(8))
		} else if c > 1<<21 && g.Intn(2) == 0 {
			c = c >> uint(1+g.Intn(8))
		}
	}
	// leaf size: within the innermost claim (minus header room) but beyond the input
	lim := c
	if depth > 0 && lim > 16 {
		lim -= 9
	}
	var leaf uint64
	switch g.Intn(4) {
	case 0:
		leaf = lim
	case 1:
		leaf = uint64(g.Pick(1<<20+1, 1<<24, 1<<25, 1<<27, 1<<28))
	case 2:
		leaf = uint64(1)<<uint(48+g.Intn(15)) + uint64(g.Intn(2))
	default:
		leaf = lim >> uint(g.Intn(4))
	}
	if leaf > lim {
		leaf = lim
	}
	if leaf < 100 {
		leaf = 100
	}
	// sizes between what the machine can really allocate and the runtime's makeslice limit
	// (2^48) would kill the harness process with an unrecoverable out-of-memory error if the
	// bound were missing; keep to sizes that show up as an allocation or as a panic
	if leaf > 1<<28 && leaf <= 1<<48 {
		leaf = uint64(1) << uint(g.Pick(26, 27, 28))
	}
	// content: prefixes for the wrappers (innermost last)
	var pre [][]byte
	for i := depth - 1; i >= 0; i-- {
		switch g.Intn(6) {
		case 0:
			ty = &c23Ty{K: 'L', E: []*c23Ty{ty}}
			pre = append([][]byte{nil}, pre...)
		case 1:
			ty = &c23Ty{K: 'S', N: 1, E: []*c23Ty{ty}}
			pre = append([][]byte{nil}, pre...)
		case 2:
			// struct with a leading scalar field (present in the input)
			ty = &c23Ty{K: 'S', N: 3, E: []*c23Ty{{K: 'u', N: 8}, ty, {K: 's'}}}
			pre = append([][]byte{{byte(g.Intn(0x80))}}, pre...)
		case 3:
			ty = &c23Ty{K: 'R', N: 2, E: []*c23Ty{ty}}
			pre = append([][]byte{nil}, pre...)
		case 4:
			ty = &c23Ty{K: 'P', E: []*c23Ty{{K: 'S', N: 2, E: []*c23Ty{ty, {K: 'B'}}}}}
			pre = append([][]byte{nil}, pre...)
		default:
			ty = &c23Ty{K: 'M', E: []*c23Ty{{K: 's'}, ty}}
			pre = append([][]byte{{0x81, byte(0x80 + g.Intn(0x80))}}, pre...)
		}
	}
	var b []byte
	for i := 0; i < depth; i++ {
		b = append(b, c23LongHeader(0xc0, claims[i], g.Intn(3)/2)...)
		b = append(b, pre[i]...)
	}
	if g.Intn(5) == 0 {
		// the innermost lie is a list header (wrong kind for a string leaf, right for others)
		b = append(b, c23LongHeader(0xc0, leaf, 0)...)
	} else {
		b = append(b, c23LongHeader(0x80, leaf, g.Intn(3)/2)...)
	}
	b = append(b, g.Bytes(g.Intn(9))...)
	return ty, b
}

// ---- untyped item trees (generator: cut a list right after an element header) ----

type c23Node struct {
	list bool
	null bool
	b    []byte
	kids []*c23Node
}

// c23Hdr: header of the first item of b: kind (0 single byte, 1 string, 2 list, 3 nil), header
// length, payload size; ok=false if the header itself is incomplete or the size is not an int
func c23Hdr(b []byte) (kind, hdr, size int, ok bool) {
	if len(b) == 0 {
		return 0, 0, 0, false
	}
	tag := int(b[0])
	long := func(n int) (int, bool) {
		if len(b) < 1+n {
			return 0, false
		}
		v := new(big.Int).SetBytes(b[1 : 1+n])
		if !v.IsInt64() {
			return 0, false
		}
		return int(v.Int64()), true
	}
	switch {
	case tag < 0x80:
		return 0, 0, 1, true
	case tag <= 0xb7:
		return 1, 1, tag - 0x80, true
	case tag < 0xc0:
		n, ok := long(tag - 0xb7)
		return 1, 1 + tag - 0xb7, n, ok
	case tag <= 0xf7:
		return 2, 1, tag - 0xc0, true
	default:
		n, ok := long(tag - 0xf7)
		if ok && tag == 0xf8 && n == 0 {
			return 3, 2, 0, true
		}
		return 2, 1 + tag - 0xf7, n, ok
	}
}

func c23ParseTree(b []byte) (*c23Node, []byte, bool) {
	kind, hdr, size, ok := c23Hdr(b)
	if !ok || size > len(b)-hdr {
		return nil, nil, false
	}
	body, rest := b[hdr:hdr+size], b[hdr+size:]
	switch kind {
	case 0, 1:
		return &c23Node{b: body}, rest, true
	case 3:
		return &c23Node{null: true}, rest, true
	}
	n := &c23Node{list: true}
	for len(body) > 0 {
		k, r, ok := c23ParseTree(body)
		if !ok {
			return nil, nil, false
		}
		n.kids = append(n.kids, k)
		body = r
	}
	return n, rest, true
}

func (n *c23Node) enc() []byte {
	if n.null {
		return c23Nil
	}
	if !n.list {
		return c23RefBytes(n.b, 0)
	}
	var p []byte
	for _, k := range n.kids {
		p = append(p, k.enc()...)
	}
	return c23RefList(p, 0)
}

// only the header of an element, announcing a body that will not be there
func (n *c23Node) cutHeader(g *Gen) []byte {
	switch g.Intn(4) {
	case 0:
		// long form with the size bytes missing or incomplete
		base := 0xb7
		if n.list {
			base = 0xf7
		}
		k := 1 + g.Intn(3)
		return append([]byte{byte(base + k)}, g.Bytes(g.Intn(k))...)
	case 1:
		// complete long-form header, no body
		base := 0x80
		if n.list {
			base = 0xc0
		}
		return c23LongHeader(base, uint64(56+g.Intn(300)), 0)
	}
	e := n.enc()
	kind, hdr, size, _ := c23Hdr(e)
	if kind == 1 || kind == 2 {
		if size > 0 {
			return e[:hdr]
		}
	}
	// single byte / empty / nil: announce 1..55 bytes
	base := 0x80
	if n.list {
		base = 0xc0
	}
	return []byte{byte(base + 1 + g.Intn(55))}
}

// c23CutAfterHeader re-encodes the tree so that the list at `path` ends right after the
// header of its child `idx` (all enclosing list sizes stay consistent)
func (n *c23Node) encCut(g *Gen, path []int, idx int) []byte {
	var p []byte
	if len(path) == 0 {
		for i := 0; i < idx; i++ {
			p = append(p, n.kids[i].enc()...)
		}
		p = append(p, n.kids[idx].cutHeader(g)...)
		return c23RefList(p, 0)
	}
	for i, k := range n.kids {
		if i == path[0] {
			p = append(p, k.encCut(g, path[1:], idx)...)
		} else {
			p = append(p, k.enc()...)
		}
	}
	return c23RefList(p, 0)
}

// all (path to a non-empty list at depth 1..3)
func (n *c23Node) listPaths(prefix []int, out *[][]int) {
	if !n.list || len(prefix) > 2 {
		return
	}
	if len(n.kids) > 0 {
		*out = append(*out, append([]int{}, prefix...))
	}
	for i, k := range n.kids {
		k.listPaths(append(prefix, i), out)
	}
}

// c23CutGen: valid typed value, then one list (depth 1..3) cut right after an element header
func c23CutGen(g *Gen) (*c23Ty, []byte, bool) {
	for try := 0; try < 8; try++ {
		ty := c23GenTy(g, 1+g.Intn(3), g.Intn(3) != 0, false)
		if ty.K != 'L' && ty.K != 'R' && ty.K != 'S' && ty.K != 'M' && ty.K != 'P' {
			continue
		}
		v := reflect.New(ty.goType()).Elem()
		c23GenVal(g, v, ty, 0)
		b, err := codec.RLP.MarshalToBytes(v.Addr().Interface())
		if err != nil || len(b) > 1<<12 {
			continue
		}
		tree, rest, ok := c23ParseTree(b)
		if !ok || len(rest) != 0 {
			continue
		}
		var paths [][]int
		tree.listPaths(nil, &paths)
		if len(paths) == 0 {
			continue
		}
		// prefer deeper lists
		path := paths[g.Intn(len(paths))]
		if p2 := paths[g.Intn(len(paths))]; len(p2) > len(path) {
			path = p2
		}
		at := tree
		for _, i := range path {
			at = at.kids[i]
		}
		return ty, tree.encCut(g, path, g.Intn(len(at.kids))), true
	}
	return nil, nil, false
}

// ---- type-directed walk over the regions the decoder parses (oracle) ----

const (
	c23WOk = iota
	c23WNil
	c23WBadSize // an item's header+body does not lie within its enclosing list / the input
	c23WOther   // malformed in another way, or not understood: no verdict
)

// c23WalkTyped looks at the first item of region (the rest of the enclosing list, or the
// input) as a value of type ty, following only what the decoder parses: struct fields in
// order (missing trailing fields are absent, extra content is skipped unparsed, a nil in a
// non-nullable field makes the whole struct nil and skips its rest), at most n array
// elements, all slice elements and map entries. Returns the item length and a verdict.
func c23WalkTyped(ty *c23Ty, region []byte) (int, int) {
	kind, hdr, size, ok := c23Hdr(region)
	if len(region) == 0 {
		return 0, c23WOther
	}
	if !ok || size > len(region)-hdr {
		return 0, c23WBadSize
	}
	total := hdr + size
	if kind == 0 {
		total = 1
	}
	nilAbsorbing := ty.K == 'B' || ty.K == 'L' || ty.K == 'P' || ty.K == 'M'
	if kind == 3 {
		if ty.K == 'P' {
			return 2, c23WOk
		}
		if nilAbsorbing {
			return 2, c23WOk
		}
		return 2, c23WNil
	}
	switch ty.K {
	case 'P':
		n, st := c23WalkTyped(ty.E[0], region)
		if st == c23WNil {
			st = c23WOk
		}
		return n, st
	case 'L', 'R', 'S', 'M':
		if kind != 2 {
			return total, c23WOther
		}
		body := region[hdr : hdr+size]
		switch ty.K {
		case 'L', 'R':
			for i := 0; len(body) > 0 && (ty.K == 'L' || i < ty.N); i++ {
				n, st := c23WalkTyped(ty.E[0], body)
				if st == c23WBadSize || st == c23WOther {
					return total, st
				}
				body = body[n:]
			}
		case 'S':
			for i := 0; len(body) > 0 && i < ty.N; i++ {
				n, st := c23WalkTyped(ty.E[i], body)
				if st == c23WBadSize || st == c23WOther {
					return total, st
				}
				if st == c23WNil {
					return total, c23WNil
				}
				body = body[n:]
			}
		case 'M':
			for len(body) > 0 {
				n, st := c23WalkTyped(ty.E[0], body)
				if st != c23WOk {
					if st == c23WNil {
						st = c23WOther
					}
					return total, st
				}
				body = body[n:]
				if len(body) == 0 {
					return total, c23WOther
				}
				n, st = c23WalkTyped(ty.E[1], body)
				if st == c23WBadSize || st == c23WOther {
					return total, st
				}
				body = body[n:]
			}
		}
		return total, c23WOk
	default:
		if kind == 2 {
			return total, c23WOther
		}
		return total, c23WOk
	}
}

func c23GenRep(g *Gen) {
	n := []int{999999, 1000000, 1000001, 1048576 + g.Intn(5000), 1000001 + g.Intn(3), 2000000 + g.Intn(100000)}[g.Intn(6)]
	g.Emit("rep %d %02x %d", g.Intn(6), g.Pick(0, 0x61, 0x7f, 0x80, 0xff, g.Intn(256)), n)
}

func c23Gen(g *Gen) {
	// byte strings around and above MaxSizeForBytes (1e6): UnmarshalFromBytes raises the reader's
	// limit to len(input); always one above the limit, one anywhere
	g.Emit("rep %d %02x %d", g.Intn(6), g.Pick(0, 0x61, 0x80, 0xff), 1000001+g.Intn(60000))
	c23GenRep(g)
	for i := 0; i < g.N; i++ {
		if g.Tier == "thorough" && i%4000 == 1999 {
			c23GenRep(g)
		}
		depth := g.Intn(4)
		switch c := g.Intn(25); {
		case c < 7:
			// valid typed value through marshal (+ unmarshal in the oracle)
			ty := c23GenTy(g, depth, true, false)
			v := reflect.New(ty.goType()).Elem()
			c23GenVal(g, v, ty, 0)
			g.Emit("enc %s %s", ty, c23RenderStr(v, ty, func(n int) []int { return g.R.Perm(n) }))
		case c < 9:
			// valid encodings of arbitrary (also not well-formed) types, then decoded
			ty := c23GenTy(g, depth, false, false)
			v := reflect.New(ty.goType()).Elem()
			c23GenVal(g, v, ty, 0)
			b, err := codec.RLP.MarshalToBytes(v.Addr().Interface())
			if err != nil {
				continue
			}
			if g.Intn(2) == 0 {
				b = c23Mutate(g, b)
			}
			g.Emit("dec %s %s", hx(b), ty)
		case c < 16:
			// structured malformed input
			ty := c23GenTy(g, depth, g.Intn(2) == 0, false)
			f := &c23Fuzz{g: g, rate: g.Pick(4, 8, 16, 40)}
			b := f.enc(ty, 0)
			if g.Intn(6) == 0 {
				b = c23Mutate(g, b)
			}
			if len(b) > 1<<17 {
				continue
			}
			g.Emit("dec %s %s", hx(b), ty)
		case c < 17:
			// arbitrary bytes
			ty := c23GenTy(g, depth, false, false)
			n := g.Intn(12)
			b := g.Bytes(n)
			if n > 0 {
				b[0] = byte(g.Pick(0xc0+g.Intn(0x38), 0xf8, 0xf9, 0xb8, 0x80+g.Intn(0x38), g.Intn(256)))
			}
			g.Emit("dec %s %s", hx(b), ty)
		case c < 19:
			// width overflow probes
			if g.Intn(2) == 0 {
				w := g.Pick(8, 16, 32, 64)
				v := c23GenUint(g, 64)
				if g.Intn(2) == 0 {
					v = uint64(1)<<uint(w%64) - uint64(g.Intn(3)) + 1
				}
				if g.Intn(8) == 0 {
					g.Emit("ovf u%d b", v%4)
				} else {
					g.Emit("ovf u%d u%d", v, w)
				}
			} else {
				w := g.Pick(8, 16, 32, 64)
				v := c23GenInt(g, 64)
				if g.Intn(2) == 0 {
					v = (int64(1)<<uint(w-1) - int64(g.Intn(3)) + 1)
					if g.Intn(2) == 0 {
						v = -v
					}
				}
				g.Emit("ovf i%d i%d", v, w)
			}
		case c >= 24:
			// TypedObj / TypedDict histories on reused objects (decode, update Map, re-encode)
			g.Emit("tdict %d", g.R.Int63())
		case c >= 22:
			// a list (depth 1..3) that ends right after the header of one of its elements
			if ty, b, ok := c23CutGen(g); ok {
				g.Emit("dec %s %s", hx(b), ty)
			}
		case c >= 20:
			// nested size lies: huge declared list size(s), inside a long-form string/list
			// header whose size fits the enclosing claim but not the real input
			ty, b := c23NestedLie(g)
			g.Emit("dec %s %s", hx(b), ty)
		default:
			b := (&c23Fuzz{g: g, rate: 6}).enc(c23GenTy(g, depth, false, false), 0)
			if g.Intn(3) == 0 {
				b = g.Bytes(g.Intn(10))
			}
			if g.Intn(2) == 0 {
				g.Emit("raw %s", hx(b))
			} else {
				g.Emit("tobj %s", hx(b))
			}
		}
	}
}

// ---------------------------------------------------------------------------
// runner + oracle

type c23Runner struct{}

func c23Marshal(c codec.Codec, v interface{}) ([]byte, bool) {
	b, err := c.MarshalToBytes(v)
	return b, err == nil
}

// independent structural walker over one RLP item (for the raw op)
func c23Walk(b []byte, sb *strings.Builder) ([]byte, bool) {
	if len(b) == 0 {
		return nil, false
	}
	tag := int(b[0])
	b = b[1:]
	readSize := func(n int) (int, bool) {
		if len(b) < n {
			return 0, false
		}
		v := new(big.Int).SetBytes(b[:n])
		b = b[n:]
		if !v.IsInt64() {
			return 0, false
		}
		return int(v.Int64()), true
	}
	if sb.Len() > 0 {
		sb.WriteByte(' ')
	}
	var size int
	isList := false
	switch {
	case tag < 0x80:
		sb.WriteString("x" + hx([]byte{byte(tag)}))
		return b, true
	case tag <= 0xb7:
		size = tag - 0x80
	case tag < 0xc0:
		var ok bool
		if size, ok = readSize(tag - 0xb7); !ok {
			return nil, false
		}
	case tag <= 0xf7:
		size, isList = tag-0xc0, true
	default:
		var ok bool
		if size, ok = readSize(tag - 0xf7); !ok {
			return nil, false
		}
		if tag == 0xf8 && size == 0 {
			sb.WriteByte('n')
			return b, true
		}
		isList = true
	}
	if size > len(b) {
		return nil, false
	}
	p, rest := b[:size], b[size:]
	if !isList {
		sb.WriteString("x" + hx(p))
		return rest, true
	}
	var inner strings.Builder
	n := 0
	for len(p) > 0 {
		var ok bool
		inner.WriteByte(' ')
		var one strings.Builder
		if p, ok = c23Walk(p, &one); !ok {
			return nil, false
		}
		inner.WriteString(one.String())
		n++
	}
	fmt.Fprintf(sb, "l%d%s", n, inner.String())
	return rest, true
}

// ---- TypedObj / TypedDict histories ------------------------------------------------------
// "any" values: nil, string, []byte, bool, []interface{}, map[string]interface{}

func c23AnyGen(r *rand.Rand, depth int) interface{} {
	k := r.Intn(7)
	if depth <= 0 && k >= 5 {
		k = r.Intn(5)
	}
	switch k {
	case 0:
		return nil
	case 1:
		return []string{"", "a", "ab", "\x80", "value"}[r.Intn(5)]
	case 2:
		b := make([]byte, r.Intn(4))
		r.Read(b)
		return b
	case 3:
		return r.Intn(2) == 0
	case 4:
		return fmt.Sprintf("s%d", r.Intn(1000))
	case 5:
		l := make([]interface{}, r.Intn(4))
		for i := range l {
			l[i] = c23AnyGen(r, depth-1)
		}
		return l
	default:
		m := map[string]interface{}{}
		for i, n := 0, r.Intn(5); i < n; i++ {
			m[c23AnyKey(r)] = c23AnyGen(r, depth-1)
		}
		return m
	}
}

func c23AnyKey(r *rand.Rand) string {
	return []string{"", "a", "aa", "ab", "b", "k1", "k2", "k10", "z", "\x7f", "\x80", "key"}[r.Intn(12)]
}

// canonical text of an any value (maps by sorted key)
func c23AnyRender(sb *strings.Builder, v interface{}) {
	switch x := v.(type) {
	case nil:
		sb.WriteString("nil")
	case string:
		fmt.Fprintf(sb, "s%q", x)
	case []byte:
		fmt.Fprintf(sb, "x%x", x)
	case bool:
		fmt.Fprintf(sb, "b%v", x)
	case []interface{}:
		sb.WriteString("[")
		for _, e := range x {
			c23AnyRender(sb, e)
			sb.WriteString(",")
		}
		sb.WriteString("]")
	case map[string]interface{}:
		keys := make([]string, 0, len(x))
		for k := range x {
			keys = append(keys, k)
		}
		sort.Strings(keys)
		sb.WriteString("{")
		for _, k := range keys {
			fmt.Fprintf(sb, "%q:", k)
			c23AnyRender(sb, x[k])
			sb.WriteString(",")
		}
		sb.WriteString("}")
	default:
		fmt.Fprintf(sb, "?%T", v)
	}
}

func c23AnyStr(v interface{}) string {
	var sb strings.Builder
	c23AnyRender(&sb, v)
	return sb.String()
}

// all dictionaries of a decoded TypedObj tree together with the plain map they stand for
type c23DictRef struct {
	d *codec.TypedDict
	m map[string]interface{}
}

func c23CollectDicts(to *codec.TypedObj, v interface{}, out *[]c23DictRef) {
	if to == nil {
		return
	}
	switch to.Type {
	case codec.TypeDict:
		d, ok1 := to.Object.(*codec.TypedDict)
		m, ok2 := v.(map[string]interface{})
		if !ok1 || !ok2 {
			return
		}
		*out = append(*out, c23DictRef{d, m})
		for k, sub := range d.Map {
			c23CollectDicts(sub, m[k], out)
		}
	case codec.TypeList:
		l, ok1 := to.Object.([]*codec.TypedObj)
		pl, ok2 := v.([]interface{})
		if !ok1 || !ok2 || len(l) != len(pl) {
			return
		}
		for i := range l {
			c23CollectDicts(l[i], pl[i], out)
		}
	}
}

// c23TypedHistory: value -> EncodeAny -> marshal -> unmarshal into a TypedObj that is then
// *kept*: its dictionaries' exported Map is updated (add / delete / replace), the same object is
// marshalled again and must give exactly the bytes of a fresh EncodeAny of the updated value
// (deterministic, sorted keys) and decode to the updated value. The object is reused over
// several rounds; sub-objects are re-wrapped through EncodeAny's *TypedObj / *TypedDict /
// map[string]*TypedObj paths.
func c23TypedHistory(r *rand.Rand, o *Oracle) {
	top := map[string]interface{}{}
	for i, n := 0, 1+r.Intn(4); i < n; i++ {
		top[c23AnyKey(r)] = c23AnyGen(r, 2)
	}
	var val interface{} = top
	fresh := func(v interface{}) []byte {
		to, err := codec.EncodeAny(nil, v)
		if err != nil {
			return nil
		}
		b, err := codec.RLP.MarshalToBytes(to)
		if err != nil {
			return nil
		}
		return b
	}
	b0 := fresh(val)
	var held *codec.TypedObj
	if _, err := codec.RLP.UnmarshalFromBytes(b0, &held); err != nil || held == nil {
		o.Check(false, "typedobj-roundtrip", "EncodeAny value %s: %x does not decode: %v", c23AnyStr(val), b0, err)
		return
	}
	back, err := codec.DecodeAny(nil, held)
	o.Check(err == nil && c23AnyStr(back) == c23AnyStr(val), "typedobj-roundtrip", "value %s decodes as %s (err=%v)", c23AnyStr(val), c23AnyStr(back), err)
	o.Count("tdict")
	for round, rounds := 0, 1+r.Intn(3); round < rounds; round++ {
		var dicts []c23DictRef
		c23CollectDicts(held, val, &dicts)
		if len(dicts) == 0 {
			return
		}
		what := ""
		for i, n := 0, 1+r.Intn(2); i < n; i++ {
			ref := dicts[r.Intn(len(dicts))]
			keys := make([]string, 0, len(ref.m))
			for k := range ref.m {
				keys = append(keys, k)
			}
			sort.Strings(keys)
			switch op := r.Intn(4); {
			case op == 0 || len(keys) == 0:
				// add a key that is not there
				k := c23AnyKey(r) + fmt.Sprint(r.Intn(3))
				if _, ok := ref.m[k]; ok {
					continue
				}
				nv := c23AnyGen(r, 1)
				nto, _ := codec.EncodeAny(nil, nv)
				ref.m[k], ref.d.Map[k] = nv, nto
				what += "add "
				o.Count("tdict-add")
			case op == 1:
				k := keys[r.Intn(len(keys))]
				delete(ref.m, k)
				delete(ref.d.Map, k)
				what += "delete "
				o.Count("tdict-delete")
			case op == 2:
				k := keys[r.Intn(len(keys))]
				nv := c23AnyGen(r, 1)
				nto, _ := codec.EncodeAny(nil, nv)
				ref.m[k], ref.d.Map[k] = nv, nto
				what += "replace "
				o.Count("tdict-replace")
			default:
				what += "none "
			}
			// a nested dictionary may have been replaced / removed: collect again
			dicts = dicts[:0]
			c23CollectDicts(held, val, &dicts)
			if len(dicts) == 0 {
				break
			}
		}
		want := fresh(val)
		// count the histories in which the Keys cache has the same length as Map but other keys
		// (delete one key, add another): fix F16 - Keys is used only if it lists exactly Map's keys
		dicts = dicts[:0]
		c23CollectDicts(held, val, &dicts)
		for _, ref := range dicts {
			if len(ref.d.Keys) > 0 && len(ref.d.Keys) == len(ref.d.Map) {
				for _, k := range ref.d.Keys {
					if _, ok := ref.d.Map[k]; !ok {
						o.Count("tdict-same-count-other-keys")
						break
					}
				}
			}
		}
		// the kept object, marshalled again - directly and re-wrapped by EncodeAny
		got, err := codec.RLP.MarshalToBytes(held)
		o.Check(err == nil && bytes.Equal(got, want), "typeddict-reencode-after-update",
			"round %d (%s): a decoded TypedObj whose Map was updated to %s marshals to %x, a fresh EncodeAny of that value to %x (err=%v)", round, what, c23AnyStr(val), got, want, err)
		if d, ok := held.Object.(*codec.TypedDict); ok {
			w1, _ := codec.EncodeAny(nil, d)
			g1, err1 := codec.BC.MarshalToBytes(w1)
			o.Check(err1 == nil && bytes.Equal(g1, want), "typeddict-reencode-after-update", "round %d (%s): EncodeAny(*TypedDict) of the updated dictionary gives %x, want %x", round, what, g1, want)
			w2, _ := codec.EncodeAny(nil, d.Map)
			g2, err2 := codec.BC.MarshalToBytes(w2)
			o.Check(err2 == nil && bytes.Equal(g2, want), "typeddict-reencode-after-update", "round %d (%s): EncodeAny(map[string]*TypedObj) of the updated Map gives %x, want %x", round, what, g2, want)
		}
		var again *codec.TypedObj
		_, err = codec.RLP.UnmarshalFromBytes(got, &again)
		var dv interface{}
		if err == nil {
			dv, err = codec.DecodeAny(nil, again)
		}
		o.Check(err == nil && c23AnyStr(dv) == c23AnyStr(val), "typeddict-roundtrip-after-update",
			"round %d (%s): updated value %s comes back as %s (err=%v)", round, what, c23AnyStr(val), c23AnyStr(dv), err)
		if r.Intn(3) == 0 && again != nil && err == nil {
			held = again // go on with the re-decoded object
		}
	}
}

// canary: a decode must not depend on what was decoded before (the codecs keep pooled
// decoders); called after every decode of generated input.
func c23Canary(o *Oracle, after string) {
	var v c23Inner
	rest, err := codec.RLP.UnmarshalFromBytes([]byte{0xc5, 0x81, 0xff, 0x05, 0x81, 0x80, 0x07}, &v)
	o.Check(err == nil && v.A == -1 && v.B == 5 && v.S == "\x80" && bytes.Equal(rest, []byte{7}), "decoder-state-leak",
		"a valid encoding fails to decode (err=%v, got %+v rest %x) right after %s", err, v, rest, after)
}

func (r c23Runner) Step(t []string, o *Oracle) string {
	res := r.step(t, o)
	if len(t) > 0 && (t[0] == "dec" || t[0] == "ovf" || t[0] == "tobj") {
		c23Canary(o, t[0])
	}
	return res
}

func (c23Runner) step(t []string, o *Oracle) string {
	if len(t) < 2 {
		return "bad-op"
	}
	switch t[0] {
	case "enc":
		ty, rest := c23ParseTy(t[1:])
		if ty == nil {
			return "bad-op"
		}
		gt := ty.goType()
		v := reflect.New(gt)
		if r, ok := c23Build(rest, v.Elem(), ty, false); !ok || len(r) != 0 {
			return "bad-op"
		}
		b1, ok := c23Marshal(codec.RLP, v.Interface())
		if !ok {
			o.Count("enc-error")
			return "err"
		}
		o.Count("enc")
		o.Count("enc-kind-" + string(ty.K))
		if len(b1) > 55 {
			o.Count("enc-long-form")
		}
		// determinism: again, by value, through BC, and from a map built in reverse order
		b2, _ := c23Marshal(codec.RLP, v.Interface())
		o.Check(bytes.Equal(b1, b2), "marshal-not-deterministic", "second marshal differs: %x vs %x", b1, b2)
		b3, _ := c23Marshal(codec.BC, v.Elem().Interface())
		o.Check(bytes.Equal(b1, b3), "marshal-by-value-differs", "marshal by value %x vs by pointer %x", b3, b1)
		v2 := reflect.New(gt)
		c23Build(rest, v2.Elem(), ty, true)
		b4, _ := c23Marshal(codec.RLP, v2.Interface())
		o.Check(bytes.Equal(b1, b4), "map-order-dependent", "map insertion order changes the encoding: %x vs %x", b1, b4)
		// independent reference encoder (canonical headers, minimal integers, sorted map keys)
		ref := c23RefEncode(v.Elem(), ty)
		o.Check(bytes.Equal(b1, ref), "encoding-differs-from-reference", "type %s: codec gives %x, reference encoder %x", ty, b1, ref)
		// round trip
		want := c23RenderStr(v.Elem(), ty, nil)
		back := reflect.New(gt)
		rem, err := codec.RLP.UnmarshalFromBytes(b1, back.Interface())
		if ty.wf(false) {
			o.Check(err == nil && len(rem) == 0 && c23RenderStr(back.Elem(), ty, nil) == want, "roundtrip-mismatch",
				"type %s value %s encodes to %x, decodes to %v (err=%v rest=%x)", ty, want, b1, func() string {
					if err != nil {
						return "-"
					}
					return c23RenderStr(back.Elem(), ty, nil)
				}(), err, rem)
			// prefix: trailing bytes are returned untouched
			junk := []byte{0xf8, 0x00, 0x01}
			back2 := reflect.New(gt)
			rem2, err2 := codec.BC.UnmarshalFromBytes(append(append([]byte{}, b1...), junk...), back2.Interface())
			o.Check(err2 == nil && bytes.Equal(rem2, junk) && c23RenderStr(back2.Elem(), ty, nil) == want, "roundtrip-with-rest",
				"type %s: decoding %x followed by %x gave rest %x err %v", ty, b1, junk, rem2, err2)
		}
		return hx(b1)
	case "dec", "ovf":
		var b []byte
		var tt []string
		if t[0] == "dec" {
			if len(t) < 3 {
				return "bad-op"
			}
			b, tt = unhx(t[1]), t[2:]
		} else {
			if len(t) != 3 {
				return "bad-op"
			}
			var ok bool
			switch t[1][0] {
			case 'u':
				n, err := strconv.ParseUint(t[1][1:], 10, 64)
				if err != nil {
					return "bad-op"
				}
				b, ok = c23Marshal(codec.RLP, n)
			case 'i':
				n, err := strconv.ParseInt(t[1][1:], 10, 64)
				if err != nil {
					return "bad-op"
				}
				b, ok = c23Marshal(codec.RLP, n)
			}
			if !ok {
				return "bad-op"
			}
			tt = t[2:]
		}
		ty, rest := c23ParseTy(tt)
		if ty == nil || len(rest) != 0 {
			return "bad-op"
		}
		gt := ty.goType()
		v := reflect.New(gt)
		var ms0, ms1 runtime.MemStats
		runtime.ReadMemStats(&ms0)
		rem, err := codec.RLP.UnmarshalFromBytes(b, v.Interface())
		runtime.ReadMemStats(&ms1)
		// sizes beyond the input must be rejected before anything of that size is allocated
		if alloc := ms1.TotalAlloc - ms0.TotalAlloc; len(b) < 64 {
			o.Check(alloc <= 16<<20, "decode-allocates-beyond-input", "decoding %d input bytes %x into %s allocated %d bytes", len(b), b, ty, alloc)
		} else {
			o.Check(alloc <= 16<<20+uint64(len(b))*4096, "decode-allocates-beyond-input", "decoding %d input bytes into %s allocated %d bytes", len(b), ty, alloc)
		}
		if t[0] == "ovf" {
			// independent expectation: accepted iff the value fits the target width
			val, _ := new(big.Int).SetString(t[1][1:], 10)
			fits := false
			switch ty.K {
			case 'b':
				fits = t[1][0] == 'u' && val.IsUint64() && val.Uint64() <= 1
			case 'u':
				fits = t[1][0] == 'u' && val.Sign() >= 0 && val.BitLen() <= ty.N
			case 'i':
				lim := new(big.Int).Lsh(big.NewInt(1), uint(ty.N-1))
				fits = t[1][0] == 'i' && val.Cmp(new(big.Int).Neg(lim)) >= 0 && val.Cmp(lim) < 0
			}
			o.Check((err == nil) == fits, "overflow-not-rejected", "value %s into %s: err=%v, fits=%v", t[1], ty, err, fits)
			if fits {
				o.Count("ovf-fits")
			} else {
				o.Count("ovf-overflow")
			}
		}
		if err != nil {
			o.Count("dec-err")
			o.Count("dec-err-kind-" + string(ty.K))
			if _, wst := c23WalkTyped(ty, b); wst == c23WBadSize {
				o.Count("dec-err-walker-badsize")
			}
			return "err"
		}
		o.Count("dec-ok")
		o.Count("dec-ok-kind-" + string(ty.K))
		// sizes beyond the enclosing list are rejected: an independent type-directed walk over
		// the parsed regions must not find an item that does not fit its enclosing list
		_, wst := c23WalkTyped(ty, b)
		o.Check(wst != c23WBadSize, "decode-accepts-element-beyond-enclosing-list",
			"accepted %x as %s although an element's header+body does not lie within its enclosing list / the input", b, ty)
		if bytes.Contains(b, c23Nil) {
			o.Count("dec-ok-input-has-f800")
		}
		if c23ItemLen(b) > 0 && !bytes.Equal(b[:c23ItemLen(b)], c23RefEncode(v.Elem(), ty)) {
			o.Count("dec-ok-noncanonical-or-lenient")
		}
		if len(rem) > 0 {
			o.Count("dec-ok-with-rest")
		}
		o.Check(len(rem) <= len(b) && bytes.Equal(rem, b[len(b)-len(rem):]), "rest-not-suffix", "rest %x is not a suffix of the input %x", rem, b)
		// sizes beyond the input are rejected: what was consumed is exactly the first item
		o.Check(c23ItemLen(b) == len(b)-len(rem), "consumed-not-one-item", "accepted %x: consumed %d bytes, first item is %d bytes long (-1: size beyond input)", b, len(b)-len(rem), c23ItemLen(b))
		got := c23RenderStr(v.Elem(), ty, nil)
		// BC is the same codec
		vb := reflect.New(gt)
		remb, errb := codec.BC.UnmarshalFromBytes(b, vb.Interface())
		o.Check(errb == nil && bytes.Equal(rem, remb) && c23RenderStr(vb.Elem(), ty, nil) == got, "decode-not-deterministic", "second decode differs")
		if ty.wf(false) {
			// whatever was accepted is a value of the type, so it must round-trip
			m, ok := c23Marshal(codec.RLP, v.Interface())
			back := reflect.New(gt)
			var rem2 []byte
			var err2 error
			if ok {
				rem2, err2 = codec.RLP.UnmarshalFromBytes(m, back.Interface())
			}
			o.Check(ok && err2 == nil && len(rem2) == 0 && c23RenderStr(back.Elem(), ty, nil) == got, "decoded-value-roundtrip",
				"type %s: decoded %s from %x; re-encoded %x does not decode to the same value (err=%v)", ty, got, b, m, err2)
		}
		return "ok " + got + " " + hx(rem)
	case "raw":
		b := unhx(t[1])
		var sb strings.Builder
		rest, ok := c23Walk(b, &sb)
		// implementation: the generic reader must agree with the walker on acceptance of
		// the outermost item: decode as raw bytes or as a list of skipped items
		dec := codec.RLP.NewDecoder(bytes.NewReader(b))
		errSkip := dec.Skip(1)
		if ok {
			o.Check(errSkip == nil, "skip-rejects-wellformed", "Skip(1) fails on %x: %v", b, errSkip)
			o.Count("raw-ok")
			return "ok " + sb.String() + " " + hx(rest)
		}
		o.Count("raw-err")
		return "err"
	case "rep":
		// long payloads: n copies of one byte as []byte / string, top level and nested
		if len(t) != 4 {
			return "bad-op"
		}
		tm, err1 := strconv.Atoi(t[1])
		bb := unhx(t[2])
		n, err2 := strconv.Atoi(t[3])
		if err1 != nil || err2 != nil || len(bb) != 1 || n < 0 || n > 1<<26 {
			return "bad-op"
		}
		payload := bytes.Repeat(bb, n)
		if n == 0 {
			payload = []byte{}
		}
		type r2 struct {
			A uint8
			B []byte
		}
		type r3 struct {
			S string
			I int16
		}
		type r5 struct {
			P *string
			L []uint16
		}
		var val, back interface{}
		switch tm {
		case 0:
			v := payload
			val, back = &v, new([]byte)
		case 1:
			v := string(payload)
			val, back = &v, new(string)
		case 2:
			val, back = &r2{7, payload}, new(r2)
		case 3:
			v := &r3{string(payload), -2}
			val, back = &v, new(*r3)
		case 4:
			v := [][]byte{payload, {1}}
			val, back = &v, new([][]byte)
		case 5:
			ps := string(payload)
			val, back = &r5{&ps, []uint16{1, 300}}, new(r5)
		default:
			return "bad-op"
		}
		e, err := codec.RLP.MarshalToBytes(val)
		if err != nil {
			return "err"
		}
		o.Count("rep")
		if n > 1000000 {
			o.Count("rep-over-1e6")
		}
		rem, err := codec.BC.UnmarshalFromBytes(e, back)
		same := err == nil && len(rem) == 0 && reflect.DeepEqual(reflect.ValueOf(val).Elem().Interface(), reflect.ValueOf(back).Elem().Interface())
		o.Check(same, "roundtrip-mismatch", "template %d with a %d byte payload: %d encoded bytes do not decode back (err=%v, rest %d bytes)", tm, n, len(e), err, len(rem))
		res := "err"
		if same {
			res = "ok"
		}
		head := e
		if len(head) > 8 {
			head = head[:8]
		}
		return fmt.Sprintf("%d %s %s", len(e), hx(head), res)
	case "tdict":
		seed, err := strconv.ParseInt(t[1], 10, 64)
		if err != nil {
			return "bad-op"
		}
		c23TypedHistory(rand.New(rand.NewSource(seed)), o)
		return "ok"
	case "tobj":
		b := unhx(t[1])
		var to *codec.TypedObj
		_, err := codec.RLP.UnmarshalFromBytes(b, &to)
		if err == nil && to != nil {
			o.Count("tobj-ok")
			m, err2 := codec.RLP.MarshalToBytes(to)
			if err2 == nil {
				var to2 *codec.TypedObj
				_, err3 := codec.RLP.UnmarshalFromBytes(m, &to2)
				m2, _ := codec.RLP.MarshalToBytes(to2)
				o.Check(err3 == nil && bytes.Equal(m, m2), "typedobj-roundtrip", "TypedObj from %x re-encodes to %x then %x (err=%v)", b, m, m2, err3)
			}
		} else {
			o.Count("tobj-err")
		}
		return "ok"
	}
	return "bad-op"
}
