//go:build c06 || all

package main

import (
	"bytes"
	"fmt"
	"math/big"
	"strconv"
	"strings"

	"github.com/icon-project/goloop/common"
	"github.com/icon-project/goloop/common/codec"
	"github.com/icon-project/goloop/common/crypto"
	"github.com/icon-project/goloop/common/db"
	"github.com/icon-project/goloop/common/wallet"
	"github.com/icon-project/goloop/consensus"
	"github.com/icon-project/goloop/module"
	"github.com/icon-project/goloop/service/contract"
	"github.com/icon-project/goloop/service/state"
	"github.com/icon-project/goloop/service/transaction"
)

func init() {
	Register(&Prop{ID: "C06", Gen: c06Gen, New: func() Runner { c06Resign = false; return &c06Runner{} }})
}

// ---------------------------------------------------------------- descriptors

// vote:     s,h,r,t,kind,nid,blk,ps,ts,u (kind n = nil vote: blk = ps = 0; b = block vote; u = unsigned part:
//
//	0 none, k>0 one NTS vote base with section hash k; a block vote with u>0 signs NTS vote count 1)
//
// proposal: s,h,r,nid,ps,pol
type c06Vote struct {
	s, h, r, t int
	nilVote    bool
	nid        int
	blk, ps    int
	ts         int
	u          int // unsigned part: 0 none, k>0 one NTS vote base with section hash k (+ proof part)
}

func (v c06Vote) String() string {
	k := "b"
	if v.nilVote {
		k = "n"
	}
	return fmt.Sprintf("%d,%d,%d,%d,%s,%d,%d,%d,%d,%d", v.s, v.h, v.r, v.t, k, v.nid, v.blk, v.ps, v.ts, v.u)
}

type c06Prop struct{ s, h, r, nid, ps, pol int }

func (p c06Prop) String() string {
	return fmt.Sprintf("%d,%d,%d,%d,%d,%d", p.s, p.h, p.r, p.nid, p.ps, p.pol)
}

func c06ParseInts(parts []string, skip int) ([]int, bool) {
	out := make([]int, len(parts))
	for i, p := range parts {
		if i == skip {
			continue
		}
		v, err := strconv.Atoi(p)
		if err != nil {
			return nil, false
		}
		out[i] = v
	}
	return out, true
}

func c06ParseVote(s string) (c06Vote, bool) {
	parts := strings.Split(s, ",")
	if len(parts) != 10 || (parts[4] != "n" && parts[4] != "b") {
		return c06Vote{}, false
	}
	a, ok := c06ParseInts(parts, 4)
	if !ok || a[0] < 0 || a[0] > 40 || a[3] < 0 || a[3] > 255 || a[5] < 0 || a[5] > 0x7fffffff || a[6] < 0 || a[7] < 0 || a[9] < 0 {
		return c06Vote{}, false
	}
	v := c06Vote{s: a[0], h: a[1], r: a[2], t: a[3], nilVote: parts[4] == "n", nid: a[5], blk: a[6], ps: a[7], ts: a[8], u: a[9]}
	if v.nilVote && (v.blk != 0 || v.ps != 0) {
		return c06Vote{}, false
	}
	return v, true
}

func c06ParseProp(s string) (c06Prop, bool) {
	parts := strings.Split(s, ",")
	if len(parts) != 6 {
		return c06Prop{}, false
	}
	a, ok := c06ParseInts(parts, -1)
	if !ok || a[0] < 0 || a[0] > 40 || a[3] < 0 || a[3] > 0x7fffffff || a[4] < 0 {
		return c06Prop{}, false
	}
	return c06Prop{a[0], a[1], a[2], a[3], a[4], a[5]}, true
}

// ---------------------------------------------------------------- generator

func c06GenVote(g *Gen) c06Vote {
	v := c06Vote{s: g.Intn(3), h: 1 + g.Intn(3), r: g.Intn(3), t: g.Intn(2), nid: g.Pick(0, 1, 2, 1, 2, 7), ts: 100 + g.Intn(3)}
	if g.Intn(4) == 0 {
		v.nilVote = true
	} else {
		v.blk, v.ps = g.Intn(3), g.Intn(3)
		if g.Intn(3) == 0 { // a precommit carrying an NTS vote
			v.t = 1
			v.u = 1 + g.Intn(2)
		}
	}
	return v
}

func c06MutVote(g *Gen, v c06Vote) c06Vote {
	for k := g.Pick(0, 1, 1, 1, 2, 2, 3); k > 0; k-- {
		switch g.Intn(10) {
		case 9: // only the unsigned part changes (another NTS section hash): same signed contents, same signature
			if v.u > 0 {
				v.u = 1 + v.u%3
			} else if v.nilVote {
				v.u = 1 + g.Intn(2)
			} else {
				v.ts += g.Pick(-1, 1)
			}
		case 0:
			v.s = (v.s + 1 + g.Intn(2)) % 3
		case 1:
			v.h += g.Pick(-1, 1)
		case 2:
			v.r += g.Pick(-1, 1, 2)
		case 3:
			v.t = 1 - v.t
		case 4:
			v.nilVote = !v.nilVote
			v.blk, v.ps = 0, 0
			if !v.nilVote {
				v.blk, v.ps = g.Intn(3), g.Intn(3)
			}
		case 5:
			v.nid = g.Pick(0, 1, 2, 3, 7)
		case 6:
			if !v.nilVote {
				v.blk = (v.blk + 1) % 3
			}
		case 7:
			if !v.nilVote {
				v.ps = (v.ps + 1) % 3
			}
		case 8:
			v.ts += g.Pick(-1, 1)
		}
	}
	return v
}

func c06GenProp(g *Gen) c06Prop {
	r := g.Intn(3)
	return c06Prop{s: g.Intn(3), h: 1 + g.Intn(3), r: r, nid: g.Pick(0, 1, 2, 1, 2, 7), ps: g.Intn(3), pol: -1 + g.Intn(r+1)}
}

func c06MutProp(g *Gen, p c06Prop) c06Prop {
	for k := g.Pick(0, 1, 1, 1, 2, 2, 3); k > 0; k-- {
		switch g.Intn(6) {
		case 0:
			p.s = (p.s + 1 + g.Intn(2)) % 3
		case 1:
			p.h += g.Pick(-1, 1)
		case 2:
			p.r += g.Pick(-1, 1, 2)
		case 3:
			p.nid = g.Pick(0, 1, 2, 3, 7)
		case 4:
			p.ps = (p.ps + 1) % 3
		case 5:
			p.pol += g.Pick(-1, 1)
		}
	}
	return p
}

func c06Gen(g *Gen) {
	for i := 0; i < g.N; i++ {
		g.Emit("reset")
		if g.Intn(4) == 0 {
			// message objects of this case are REUSED objects: first signed by another key (and with another
			// timestamp), their signer / hash / String() read, then changed and signed again through Sign()
			g.Emit("mode resign")
		}
		switch x := g.Intn(100); {
		case x < 28:
			c06GenReport(g)
		case x < 36:
			// same signed contents, same signature, different unsigned part (precommits with NTS votes)
			v := c06GenVote(g)
			if !v.nilVote {
				v.t = 1
			}
			v.u = 1 + g.Intn(3)
			w := v
			w.u = 1 + v.u%3
			switch g.Intn(4) {
			case 0:
				g.Emit("cf v %s v %s", v, w)
				g.Emit("cf v %s v %s", w, v)
			case 1:
				g.Emit("log v %s", v)
				g.Emit("log v %s", w)
				g.Emit("log v %s", c06MutVote(g, w))
			case 2:
				c06EmitReport(g, c06Item{kind: "v", v: v}, c06Item{kind: "v", v: w})
			default:
				x := v
				x.ts++
				g.Emit("log v %s", v)
				g.Emit("log v %s", w)
				g.Emit("log v %s", x)
				g.Emit("cf v %s v %s", w, x)
			}
		case x < 55:
			v := c06GenVote(g)
			g.Emit("cf v %s v %s", v, c06MutVote(g, v))
			if g.Intn(3) == 0 { // and the symmetric question
				v2 := c06MutVote(g, v)
				g.Emit("cf v %s v %s", v2, v)
			}
		case x < 72:
			p := c06GenProp(g)
			g.Emit("cf p %s p %s", p, c06MutProp(g, p))
		case x < 76:
			if g.Intn(2) == 0 {
				g.Emit("cf v %s p %s", c06GenVote(g), c06GenProp(g))
			} else {
				g.Emit("cf p %s v %s", c06GenProp(g), c06GenVote(g))
			}
		case x < 80:
			g.Emit("mn %d %d", g.Pick(0, 1, 2, 7, 0x7fffffff, 0xffffffff), g.Pick(0, 1, 2, 7, 0x7fffffff, 0xffffffff))
		default:
			// a dsmLog history over a small key space
			n := 3 + g.Intn(12)
			var votes []c06Vote
			var props []c06Prop
			for k := 0; k < n; k++ {
				if g.Intn(3) > 0 {
					var v c06Vote
					if len(votes) > 0 && g.Intn(3) > 0 {
						v = c06MutVote(g, votes[g.Intn(len(votes))])
					} else {
						v = c06GenVote(g)
					}
					votes = append(votes, v)
					g.Emit("log v %s", v)
				} else {
					var p c06Prop
					if len(props) > 0 && g.Intn(3) > 0 {
						p = c06MutProp(g, props[g.Intn(len(props))])
					} else {
						p = c06GenProp(g)
					}
					props = append(props, p)
					g.Emit("log p %s", p)
				}
			}
		}
	}
}

// rep <rev> <blockHeight> <callOk> <from n|s|u> <hasData> <tag v|p|o> <ord lt|eq|gt|na> <ctx> <hist> <items>
//
//	the evidence acceptance path: a doubleSignReportTx built from the items (bytes of really signed
//	messages, `g j` = garbage bytes), context = encoded validator list of the signer ids in <ctx>
//	('x' = bytes that do not decode), <hist> = DSContextHistory entries height:ids;...
func c06GenReport(g *Gen) {
	var a, b c06Item
	if g.Intn(3) == 0 {
		p := c06GenProp(g)
		a, b = c06Item{kind: "p", p: p}, c06Item{kind: "p", p: c06MutProp(g, p)}
	} else {
		v := c06GenVote(g)
		a, b = c06Item{kind: "v", v: v}, c06Item{kind: "v", v: c06MutVote(g, v)}
	}
	if g.Intn(3) > 0 && !c06Genuine(a, b) { // bias to genuine conflicts: change only a content field
		if a.kind == "v" {
			b.v = a.v
			b.v.ts++
		} else {
			b.p = a.p
			b.p.ps = (b.p.ps + 1) % 3
		}
	}
	c06EmitReport(g, a, b)
}

// c06EmitReport emits one `rep` op for the evidence pair (a, b), with the envelope variations.
func c06EmitReport(g *Gen, a, b c06Item) {
	tag := a.kind
	items := []string{a.String(), b.String()}
	ord := "lt"
	switch g.Intn(30) {
	case 0: // cross kind under one tag
		if a.kind == "v" {
			items[1] = "p " + c06GenProp(g).String()
		} else {
			items[1] = "v " + c06GenVote(g).String()
		}
	case 1:
		items[g.Intn(2)] = fmt.Sprintf("g %d", g.Intn(50))
	case 2:
		items = items[:1]
		ord = "na"
	case 3:
		items = append(items, a.String())
		ord = "na"
	case 4:
		tag = g.Pick2("v", "p", "o")
	}
	if len(items) == 2 {
		// order of the encoded bytes decides; mostly present them sorted as NewDoubleSignReport does
		c := bytes.Compare(c06ItemBytes(items[0]), c06ItemBytes(items[1]))
		if c > 0 && g.Intn(8) > 0 {
			items[0], items[1] = items[1], items[0]
			c = -c
		}
		ord = map[int]string{-1: "lt", 0: "eq", 1: "gt"}[c]
	}
	signer := a.v.s
	height := a.v.h
	if a.kind == "p" {
		signer, height = a.p.s, a.p.h
	}
	// context: validators of the evidence height; mostly containing the signer
	vals := []int{0, 1, 2}
	switch g.Intn(8) {
	case 0:
		vals = []int{(signer + 1) % 3, (signer + 2) % 3}
	case 1:
		vals = []int{signer}
	case 2:
		vals = []int{2, 1, 0}
	}
	ctx := c06JoinInts(vals)
	if g.Intn(25) == 0 {
		ctx = "x"
	}
	// history: mostly an entry at or below height-2 with this validator list
	var hist []string
	switch g.Intn(8) {
	case 0: // no history
	case 1: // first entry above height-2
		hist = append(hist, fmt.Sprintf("%d:%s", height-1, c06JoinInts(vals)))
	case 2: // another validator list recorded
		hist = append(hist, fmt.Sprintf("%d:%s", height-3, c06JoinInts([]int{0, 1})))
	case 3: // superseded: right list first, another one later but still <= height-2
		hist = append(hist, fmt.Sprintf("%d:%s", height-5, c06JoinInts(vals)), fmt.Sprintf("%d:%s", height-2, "0.3"))
	case 4: // older other list, then the right one, then a newer one above
		hist = append(hist, fmt.Sprintf("%d:%s", height-6, "0.3"), fmt.Sprintf("%d:%s", height-2, c06JoinInts(vals)), fmt.Sprintf("%d:%s", height-1, "1.3"))
	default:
		hist = append(hist, fmt.Sprintf("%d:%s", height-2-g.Intn(3), c06JoinInts(vals)))
	}
	h := "-"
	if len(hist) > 0 {
		h = strings.Join(hist, ";")
	}
	bh := height + g.Pick(0, 0, 1, 5, -1)
	rev, call, from, hasData := 1, 1, "n", 1
	switch g.Intn(25) {
	case 0:
		rev = 0
	case 1:
		call = 0
	case 2:
		from = "s"
	case 3:
		from = "u"
	case 4:
		hasData = 0
	}
	g.Emit("rep %d %d %d %s %d %s %s %s %s %s", rev, bh, call, from, hasData, tag, ord, ctx, h, strings.Join(items, " "))
}

func (g *Gen) Pick2(xs ...string) string { return xs[g.R.Intn(len(xs))] }

func c06JoinInts(xs []int) string {
	if len(xs) == 0 {
		return "-"
	}
	ss := make([]string, len(xs))
	for i, x := range xs {
		ss[i] = strconv.Itoa(x)
	}
	return strings.Join(ss, ".")
}

func c06ParseInts2(s string) ([]int, bool) {
	if s == "-" {
		return nil, true
	}
	var out []int
	for _, p := range strings.Split(s, ".") {
		v, err := strconv.Atoi(p)
		if err != nil || v < 0 || v > 40 {
			return nil, false
		}
		out = append(out, v)
	}
	return out, true
}

// bytes of an item given as "v <desc>" / "p <desc>" / "g <j>"
func c06ItemBytes(s string) []byte {
	f := strings.Fields(s)
	if f[0] == "g" {
		return crypto.SHA3Sum256([]byte("verif-c06-garbage-" + f[1]))
	}
	it, ok := c06ParseItem(f[0], f[1])
	if !ok {
		panic("bad item " + s)
	}
	return it.ds().Bytes()
}

// ---------------------------------------------------------------- material

var c06Wallets []module.Wallet

func c06Wallet(i int) module.Wallet {
	for len(c06Wallets) <= i {
		sk, err := crypto.ParsePrivateKey(crypto.SHA3Sum256([]byte(fmt.Sprintf("verif-c06-key-%d", len(c06Wallets)))))
		if err != nil {
			panic(err)
		}
		w, _ := wallet.NewFromPrivateKey(sk)
		c06Wallets = append(c06Wallets, w)
	}
	return c06Wallets[i]
}

func c06Hash(s string, i int) []byte {
	return crypto.SHA3Sum256([]byte(fmt.Sprintf("verif-c06-%s-%d", s, i)))
}

var c06VoteCache = map[c06Vote]*consensus.VoteMessage{}
var c06PropCache = map[c06Prop]*consensus.ProposalMessage{}

// c06Resign: build message objects through an object-reuse history instead of freshly (set per case
// by the op `mode resign`): the object is first signed by ANOTHER key over another timestamp, its
// signer, hash and String() are read (filling whatever the object caches), then the timestamp is set
// and the object is signed again through Sign() with the key of the descriptor.
var c06Resign bool
var c06VoteCacheR = map[c06Vote]*consensus.VoteMessage{}
var c06PropCacheR = map[c06Prop]*consensus.ProposalMessage{}

func c06MakeVote(v c06Vote) *consensus.VoteMessage {
	cache := c06VoteCache
	if c06Resign {
		cache = c06VoteCacheR
	}
	if m, ok := cache[v]; ok {
		return m
	}
	w, ts := c06Wallet(v.s), int64(v.ts)
	if c06Resign {
		// the first signer varies, so that objects of different keys may share their former signer
		w, ts = c06Wallet(v.s+1+(v.ts+v.blk)%2), int64(v.ts)+7
	}
	var m *consensus.VoteMessage
	if v.nilVote {
		m = consensus.VerifSignedVote(w, consensus.VoteType(v.t), int64(v.h), int32(v.r),
			codec.MustMarshalToBytes(int32(v.nid)), nil, 0, 0, ts)
	} else {
		psid := &consensus.PartSetID{Count: uint16(1 + v.ps), Hash: c06Hash("ps", v.ps)}
		cnt := uint16(0)
		if v.u > 0 {
			cnt = 1
		}
		m = consensus.VerifSignedVote(w, consensus.VoteType(v.t), int64(v.h), int32(v.r),
			c06Hash("blk", v.blk), psid, uint32(v.nid), cnt, ts)
	}
	if c06Resign {
		_ = consensus.VerifVoteSigner(m)
		_ = consensus.VerifVoteHash(m)
		_ = consensus.VerifDSVote(m).Signer()
		_ = m.String()
		m.Timestamp = int64(v.ts)
		if err := m.Sign(c06Wallet(v.s)); err != nil {
			panic(err)
		}
	}
	if v.u > 0 {
		// outside the signed payload: the signature made above stays valid
		consensus.VerifC06SetNTS(m, []module.NTSHashEntryFormat{{NetworkTypeID: 1, NetworkTypeSectionHash: c06Hash("nts", v.u)}},
			[][]byte{c06Hash("ntsproof", v.u)})
	}
	if len(cache) > 100000 {
		for k := range cache {
			delete(cache, k)
		}
	}
	cache[v] = m
	return m
}

func c06MakeProp(p c06Prop) *consensus.ProposalMessage {
	cache := c06PropCache
	if c06Resign {
		cache = c06PropCacheR
	}
	if m, ok := cache[p]; ok {
		return m
	}
	m := consensus.NewProposalMessage()
	m.Height = int64(p.h)
	m.Round = int32(p.r)
	m.BlockPartSetID = &consensus.PartSetID{Count: uint16(1 + p.ps), Hash: c06Hash("ps", p.ps)}
	m.POLRound = int32(p.pol)
	m.NID = uint32(p.nid)
	if c06Resign {
		m.POLRound = int32(p.pol) + 5
		if err := m.Sign(c06Wallet(p.s + 1 + p.ps%2)); err != nil {
			panic(err)
		}
		_ = consensus.VerifProposalSigner(m)
		_ = consensus.VerifProposalHash(m)
		_ = consensus.VerifDSProposal(m).Signer()
		_ = m.String()
		m.POLRound = int32(p.pol)
	}
	if err := m.Sign(c06Wallet(p.s)); err != nil {
		panic(err)
	}
	if len(cache) > 100000 {
		for k := range cache {
			delete(cache, k)
		}
	}
	cache[p] = m
	return m
}

// c06CheckObject: what the message OBJECT says about itself must be what its wire bytes say:
// signer = key of the signature = signer of the decoded evidence; hash = hash of the decoded one.
func c06CheckObject(o *Oracle, it c06Item) {
	if it.kind != "v" && it.kind != "p" {
		return
	}
	d := it.ds()
	want := c06Wallet(it.v.s).Address().ID()
	if it.kind == "p" {
		want = c06Wallet(it.p.s).Address().ID()
	}
	o.Check(bytes.Equal(d.Signer(), want), "c06-signer-differs-from-signature",
		"%s: the object reports signer %x but it is signed by %x", it, d.Signer(), want)
	dd, err := it.decoded()
	if err != nil {
		o.Check(false, "c06-evidence-does-not-decode", "DecodeDoubleSignData(%s): %v", it, err)
		return
	}
	o.Check(bytes.Equal(dd.Signer(), d.Signer()) && dd.Height() == d.Height() && bytes.Equal(dd.Bytes(), d.Bytes()),
		"c06-signer-differs-from-signature", "%s: object and its decoded bytes disagree: signer %x vs %x", it, d.Signer(), dd.Signer())
	if it.kind == "v" {
		m := c06MakeVote(it.v)
		o.Check(bytes.Equal(consensus.VerifVoteSigner(m)[1:], want), "c06-signer-differs-from-signature", "%s: address() is stale", it)
	}
}

// the property, evaluated on the descriptors (independent of the code under test)
func c06SameNet(a, b int) bool { return a == 0 || b == 0 || a == b }

// signed contents of a vote: everything but the signer and the unsigned part; a block vote's
// signed app data holds the NTS vote count (1 iff it carries an NTS vote)
func c06Signed(v c06Vote) c06Vote {
	v.s = 0
	if v.nilVote || v.u == 0 {
		v.u = 0
	} else {
		v.u = 1
	}
	return v
}

func c06GenuineVotes(a, b c06Vote) bool {
	ca, cb := c06Signed(a), c06Signed(b)
	return a.s == b.s && a.h == b.h && a.r == b.r && a.t == b.t && c06SameNet(a.nid, b.nid) && ca != cb
}

func c06GenuineProps(a, b c06Prop) bool {
	ca, cb := a, b
	ca.s, cb.s = 0, 0
	return a.s == b.s && a.h == b.h && a.r == b.r && c06SameNet(a.nid, b.nid) && ca != cb
}

type c06Item struct {
	kind string // "v" | "p"
	v    c06Vote
	p    c06Prop
}

func (it c06Item) String() string {
	if it.kind == "v" {
		return "v " + it.v.String()
	}
	return "p " + it.p.String()
}

func c06ParseItem(kind, s string) (c06Item, bool) {
	switch kind {
	case "v":
		v, ok := c06ParseVote(s)
		return c06Item{kind: kind, v: v}, ok
	case "p":
		p, ok := c06ParseProp(s)
		return c06Item{kind: kind, p: p}, ok
	}
	return c06Item{}, false
}

func (it c06Item) ds() module.DoubleSignData {
	if it.kind == "v" {
		return consensus.VerifDSVote(c06MakeVote(it.v))
	}
	return consensus.VerifDSProposal(c06MakeProp(it.p))
}

// the same evidence as it arrives in a double sign report: type tag + bytes, decoded
func (it c06Item) decoded() (module.DoubleSignData, error) {
	d := it.ds()
	return consensus.DecodeDoubleSignData(d.Type(), d.Bytes())
}

func c06Genuine(a, b c06Item) bool {
	if a.kind != b.kind {
		return false
	}
	if a.kind == "v" {
		return c06GenuineVotes(a.v, b.v)
	}
	return c06GenuineProps(a.p, b.p)
}

func c06SameKey(a, b c06Item) bool {
	if a.kind != b.kind {
		return false
	}
	if a.kind == "v" {
		return a.v.s == b.v.s && a.v.h == b.v.h && a.v.r == b.v.r && a.v.t == b.v.t
	}
	return a.p.s == b.p.s && a.p.h == b.p.h && a.p.r == b.p.r
}

func c06Nids(a c06Item) int {
	if a.kind == "v" {
		return a.v.nid
	}
	return a.p.nid
}

// checks one verdict of IsConflictWith against the property; specific keys for the classes of failure
func c06Judge(o *Oracle, a, b c06Item, got bool, where string) {
	want := c06Genuine(a, b)
	if got && a.kind == b.kind && !c06SameNet(c06Nids(a), c06Nids(b)) {
		key := "dsvote-nid-from-wrong-receiver"
		if a.kind == "p" {
			key = "dsproposal-different-networks-conflict"
		}
		o.Check(false, key, "%s: messages of networks %d and %d reported as double sign: %s | %s", where, c06Nids(a), c06Nids(b), a, b)
		return
	}
	if got && a.kind == "v" && b.kind == "v" && c06Signed(a.v) == c06Signed(b.v) && a.v.s == b.v.s {
		o.Check(false, "c06-conflict-for-identical-signed-contents",
			"%s: two votes with the same signed payload (and signature) but different unsigned parts (NTS vote bases) count as double sign: %s | %s", where, a, b)
		return
	}
	if got && !want {
		o.Check(false, "c06-non-conflict-reported", "%s: not a genuine conflict but reported: %s | %s", where, a, b)
		return
	}
	o.Check(got == want, "c06-genuine-conflict-missed", "%s: genuine conflict not reported: %s | %s", where, a, b)
}

// ---------------------------------------------------------------- runner

type c06Runner struct {
	log    *consensus.VerifDSMLog
	logged []c06Item
	byPtr  map[interface{}]c06Item
}

func c06B01(b bool) string {
	if b {
		return "1"
	}
	return "0"
}

func (r *c06Runner) Step(t []string, o *Oracle) string {
	if len(t) == 0 {
		return "bad-op"
	}
	switch t[0] {
	case "mode":
		if len(t) != 2 || (t[1] != "resign" && t[1] != "fresh") {
			return "bad-op"
		}
		c06Resign = t[1] == "resign"
		o.Count("mode-" + t[1])
		return "ok"
	case "mn":
		if len(t) != 3 {
			return "bad-op"
		}
		a, e1 := strconv.ParseUint(t[1], 10, 32)
		b, e2 := strconv.ParseUint(t[2], 10, 32)
		if e1 != nil || e2 != nil {
			return "bad-op"
		}
		got := consensus.VerifMatchNID(uint32(a), uint32(b))
		o.Check(got == (a == 0 || b == 0 || a == b), "c06-matchnid-wrong", "matchNID(%d,%d)=%v", a, b, got)
		return c06B01(got)
	case "cf":
		if len(t) != 5 {
			return "bad-op"
		}
		a, ok1 := c06ParseItem(t[1], t[2])
		b, ok2 := c06ParseItem(t[3], t[4])
		if !ok1 || !ok2 {
			return "bad-op"
		}
		c06CheckObject(o, a)
		c06CheckObject(o, b)
		got := a.ds().IsConflictWith(b.ds())
		o.Count("cf-" + a.kind + b.kind + "-" + c06B01(got))
		if a.kind == b.kind && !c06SameNet(c06Nids(a), c06Nids(b)) {
			o.Count("cf-different-networks")
		}
		c06Judge(o, a, b, got, "IsConflictWith")
		// irreflexive
		o.Check(!a.ds().IsConflictWith(a.ds()), "c06-conflict-with-itself", "%s conflicts with itself", a)
		// the report path: DecodeDoubleSignData(type, bytes) of both, then IsConflictWith
		da, err1 := a.decoded()
		db, err2 := b.decoded()
		if err1 != nil || err2 != nil {
			o.Check(false, "c06-evidence-does-not-decode", "DecodeDoubleSignData: %v %v", err1, err2)
		} else {
			got2 := da.IsConflictWith(db)
			c06Judge(o, a, b, got2, "decoded evidence")
			o.Check(got2 == got, "c06-decoded-evidence-differs", "decoded %v, direct %v: %s | %s", got2, got, a, b)
			o.Check(string(da.Signer()) == string(a.ds().Signer()) && da.Height() == a.ds().Height() && da.Type() == a.ds().Type(),
				"c06-decoded-evidence-fields", "decoded signer/height/type differ for %s", a)
		}
		return c06B01(got)
	case "rep":
		return r.stepReport(t, o)
	case "log":
		if len(t) != 3 {
			return "bad-op"
		}
		it, ok := c06ParseItem(t[1], t[2])
		if !ok {
			return "bad-op"
		}
		c06CheckObject(o, it)
		if r.log == nil {
			r.log = consensus.VerifNewDSMLog(1 << 30)
			r.byPtr = map[interface{}]c06Item{}
		}
		var res []module.DoubleSignData
		if it.kind == "v" {
			m := c06MakeVote(it.v)
			r.byPtr[m] = it
			res = r.log.LogVote(m)
		} else {
			m := c06MakeProp(it.p)
			r.byPtr[m] = it
			res = r.log.LogProposal(m)
		}
		// was there an earlier logged message this one genuinely conflicts with?
		// sameKey: earlier messages of the same kind/type/signer/height/round; if the new message
		// conflicts with every one of them, a report is due whichever of them the cache retained.
		anyGenuine := false
		sameKey, sameKeyConflicts := 0, 0
		for _, old := range r.logged {
			if c06Genuine(old, it) {
				anyGenuine = true
			}
			if c06SameKey(old, it) {
				sameKey++
				if c06Genuine(old, it) {
					sameKeyConflicts++
				}
			}
		}
		r.logged = append(r.logged, it)
		o.Check(res != nil || sameKey == 0 || sameKeyConflicts < sameKey, "c06-dsmlog-missed-conflict",
			"%s conflicts with all %d earlier messages of its key but nothing was reported", it, sameKey)
		if res == nil {
			o.Count("log-none")
			if anyGenuine {
				o.Count("log-none-but-earlier-conflict") // allowed: the cache keeps one message per key
			}
			return "-"
		}
		o.Count("log-report")
		if len(res) != 2 {
			o.Check(false, "c06-dsmlog-report-size", "report of %d items", len(res))
			return "ds ?"
		}
		// identify the old message among the logged ones by its bytes
		var old *c06Item
		for i := range r.logged[:len(r.logged)-1] {
			c := r.logged[i]
			if c.ds().Type() == res[0].Type() && string(c.ds().Bytes()) == string(res[0].Bytes()) {
				old = &r.logged[i]
			}
		}
		o.Check(old != nil, "c06-dsmlog-reports-unknown-message", "first item of the report was never logged")
		o.Check(res[1].Type() == it.ds().Type() && string(res[1].Bytes()) == string(it.ds().Bytes()), "c06-dsmlog-report-second", "second item is not the new message")
		if old == nil {
			return "ds ?"
		}
		c06Judge(o, *old, it, true, "dsmLog report")
		return "ds " + old.String()
	}
	return "bad-op"
}

// ---------------------------------------------------------------- report acceptance path

var c06VLists = map[string]module.ValidatorList{}

func c06ValidatorList(ids []int) module.ValidatorList {
	key := c06JoinInts(ids)
	if vl, ok := c06VLists[key]; ok {
		return vl
	}
	vs := make([]module.Validator, len(ids))
	for i, id := range ids {
		v, err := state.ValidatorFromAddress(c06Wallet(id).Address())
		if err != nil {
			panic(err)
		}
		vs[i] = v
	}
	vl, err := state.ValidatorSnapshotFromSlice(db.NewMapDB(), vs)
	if err != nil {
		panic(err)
	}
	c06VLists[key] = vl
	return vl
}

type c06Account struct {
	state.AccountState
	values map[string][]byte
}

func (a *c06Account) GetValue(key []byte) ([]byte, error) { return a.values[string(key)], nil }
func (a *c06Account) SetValue(key []byte, value []byte) ([]byte, error) {
	old := a.values[string(key)]
	a.values[string(key)] = value
	return old, nil
}
func (a *c06Account) DeleteValue(key []byte) ([]byte, error) {
	old := a.values[string(key)]
	delete(a.values, string(key))
	return old, nil
}

// world context as PreValidate sees it
type c06WC struct {
	state.WorldContext
	rev    module.Revision
	height int64
	sys    *c06Account
}

func (w *c06WC) Revision() module.Revision { return w.rev }
func (w *c06WC) BlockHeight() int64        { return w.height }
func (w *c06WC) GetAccountState(id []byte) state.AccountState {
	return w.sys
}
func (w *c06WC) DecodeDoubleSignData(t string, d []byte) (module.DoubleSignData, error) {
	return consensus.DecodeDoubleSignData(t, d)
}
func (w *c06WC) DecodeDoubleSignContext(t string, d []byte) (module.DoubleSignContext, error) {
	return state.VerifC06DecodeDoubleSignContext(t, d)
}

// call context as the DSR handler sees it
type c06CC struct {
	contract.CallContext
	wc     *c06WC
	callOk bool
	calls  int
}

func (c *c06CC) Revision() module.Revision                    { return c.wc.rev }
func (c *c06CC) BlockHeight() int64                           { return c.wc.height }
func (c *c06CC) GetAccountState(id []byte) state.AccountState { return c.wc.sys }
func (c *c06CC) DecodeDoubleSignData(t string, d []byte) (module.DoubleSignData, error) {
	return c.wc.DecodeDoubleSignData(t, d)
}
func (c *c06CC) DecodeDoubleSignContext(t string, d []byte) (module.DoubleSignContext, error) {
	return c.wc.DecodeDoubleSignContext(t, d)
}
func (c *c06CC) StepAvailable() *big.Int { return big.NewInt(10_000_000) }
func (c *c06CC) Call(h contract.ContractHandler, limit *big.Int) (error, *big.Int, *codec.TypedObj, module.Address) {
	c.calls++
	if c.callOk {
		return nil, big.NewInt(1000), nil, nil
	}
	return fmt.Errorf("score rejects"), big.NewInt(1000), nil, nil
}

func c06ErrClass(err error, classes ...string) string {
	if err == nil {
		return "ok"
	}
	msg := fmt.Sprintf("%+v", err)
	for i := 0; i+1 < len(classes); i += 2 {
		if strings.Contains(msg, classes[i]) {
			return classes[i+1]
		}
	}
	return "err:" + err.Error()
}

func (r *c06Runner) stepReport(t []string, o *Oracle) string {
	if len(t) < 10 {
		return "bad-op"
	}
	rev, e1 := strconv.Atoi(t[1])
	bh, e2 := strconv.Atoi(t[2])
	call, e3 := strconv.Atoi(t[3])
	from := t[4]
	hasData, e4 := strconv.Atoi(t[5])
	tag, ord := t[6], t[7]
	if e1 != nil || e2 != nil || e3 != nil || e4 != nil || rev < 0 || rev > 1 || call < 0 || call > 1 || hasData < 0 || hasData > 1 ||
		(from != "n" && from != "s" && from != "u") || (tag != "v" && tag != "p" && tag != "o") ||
		(ord != "lt" && ord != "eq" && ord != "gt" && ord != "na") {
		return "bad-op"
	}
	typ := map[string]string{"v": module.DSTVote, "p": module.DSTProposal, "o": "other"}[tag]
	// items
	rest := t[10:]
	if len(rest)%2 != 0 {
		return "bad-op"
	}
	var data [][]byte
	var items []c06Item
	allMsgs := true
	for i := 0; i < len(rest); i += 2 {
		if rest[i] == "g" {
			if _, err := strconv.Atoi(rest[i+1]); err != nil {
				return "bad-op"
			}
			allMsgs = false
			items = append(items, c06Item{kind: "g"})
		} else {
			it, ok := c06ParseItem(rest[i], rest[i+1])
			if !ok {
				return "bad-op"
			}
			items = append(items, it)
			c06CheckObject(o, it)
		}
		data = append(data, c06ItemBytes(rest[i]+" "+rest[i+1]))
	}
	if len(data) == 2 {
		c := bytes.Compare(data[0], data[1])
		if ord != map[int]string{-1: "lt", 0: "eq", 1: "gt"}[c] {
			return "bad-op" // the op line must state the real byte order
		}
	} else if ord != "na" {
		return "bad-op"
	}
	// context bytes and history
	var ctxBytes []byte
	var ctxVals []int
	ctxOK := t[8] != "x"
	if ctxOK {
		vals, ok := c06ParseInts2(t[8])
		if !ok {
			return "bad-op"
		}
		ctxVals = vals
		dsc, err := state.VerifC06ContextOf(c06ValidatorList(vals), module.DSTVote)
		if err != nil {
			panic(err)
		}
		ctxBytes = dsc.Bytes()
	} else {
		ctxBytes = []byte{0x01, 0x02, 0x03}
	}
	sys := &c06Account{values: map[string][]byte{}}
	histOK := false // oracle: the recorded validator list for height-2 is the context's
	var evHeight int64
	if len(items) > 0 && items[0].kind != "g" {
		evHeight = items[0].ds().Height()
	}
	if t[9] != "-" {
		hdb, err := contract.NewDSContextHistoryDB(sys)
		if err != nil {
			panic(err)
		}
		var best []int
		found := false
		first, below := true, false
		for _, e := range strings.Split(t[9], ";") {
			f := strings.Split(e, ":")
			if len(f) != 2 {
				return "bad-op"
			}
			h, err := strconv.Atoi(f[0])
			vals, ok := c06ParseInts2(f[1])
			if err != nil || !ok {
				return "bad-op"
			}
			if err := hdb.Push(int64(h), c06ValidatorList(vals).Hash()); err != nil {
				return "bad-op"
			}
			if first && evHeight-2 < int64(h) {
				below = true
			}
			first = false
			if !below && int64(h) <= evHeight-2 {
				best, found = vals, true
			}
		}
		histOK = found && ctxOK && c06JoinInts(best) == c06JoinInts(ctxVals)
	}
	revision := module.Revision(module.NoRevision)
	if rev == 1 {
		revision = module.AllRevision
	}
	wc := &c06WC{rev: revision, height: int64(bh), sys: sys}

	// the transaction, through its wire form
	var fromAddr *common.Address
	var sig *common.Signature
	if from != "n" {
		fromAddr = common.AddressToPtr(c06Wallet(5).Address())
	}
	raw := transaction.VerifC06RawDSRTx(typ, data, ctxBytes, 1, 1000, fromAddr, nil, hasData == 1)
	if from == "s" && hasData == 1 {
		sb, err := c06Wallet(5).Sign(raw.ID())
		if err != nil {
			panic(err)
		}
		cs, err := crypto.ParseSignature(sb)
		if err != nil {
			panic(err)
		}
		sig = &common.Signature{Signature: cs}
		raw = transaction.VerifC06RawDSRTx(typ, data, ctxBytes, 1, 1000, fromAddr, sig, hasData == 1)
	}
	var tx transaction.Transaction
	var err error
	if from == "n" {
		tx, err = transaction.NewTransaction(raw.Bytes())
		if err != nil || !transaction.VerifC06IsDSRTx(tx) {
			o.Check(false, "c06-report-tx-does-not-parse", "NewTransaction(Bytes()) of a report: %v", err)
			return "err"
		}
	} else {
		// a report with a sender is not recognised by the binary parser (checkDSRTxBytes wants From == nil):
		// such an object can only exist in process
		ptx, perr := transaction.NewTransaction(raw.Bytes())
		o.Check(perr != nil || !transaction.VerifC06IsDSRTx(ptx), "c06-report-with-sender-parses", "a DSR tx with From parses as DSR tx")
		tx = raw
	}
	if hasData == 1 { // ID() of a report tx without data dereferences nil; Verify rejects it first
		o.Check(bytes.Equal(tx.ID(), raw.ID()), "c06-report-tx-id-changes", "tx id differs after encode/decode")
	}
	vres := c06ErrClass(tx.Verify())
	if vres != "ok" {
		vres = "err"
	}
	if hasData == 0 {
		o.Check(vres == "err", "c06-report-without-data-verifies", "report tx without data passes Verify")
		return "V=" + vres + " P=- H=-"
	}
	pres := c06ErrClass(tx.PreValidate(wc, false),
		"ReportDoubleSignIsDisabled", "disabled", "UnsupportedDoubleSignReport", "from",
		"InvalidTransactionData", "decode", "NotBelongToCurrentNetwork", "net", "InvalidDoubleSignReport", "invalid")
	hres := "none"
	cc := &c06CC{wc: wc, callOk: call == 1}
	// a fresh parse for the handler, so that it does not see values cached by PreValidate
	var tx2 transaction.Transaction = transaction.VerifC06RawDSRTx(typ, data, ctxBytes, 1, 1000, fromAddr, sig, true)
	if from == "n" {
		tx2, _ = transaction.NewTransaction(raw.Bytes())
	}
	if h, err := transaction.VerifC06DSRHandler(tx2); err == nil {
		herr, _, _ := h.ExecuteSync(cc)
		hres = c06ErrClass(herr, "AccessDenied", "denied", "InvalidFormat", "format", "DoubleSignDataDoesntConflict", "conflict",
			"FutureDoubleSignReport", "future", "NotValidSigner", "signer", "FailToVerifyContextData", "context", "score rejects", "call")
		if herr == nil && cc.calls == 0 {
			hres = "ok-nocall"
		}
	}
	o.Count("rep-V=" + vres)
	o.Count("rep-P=" + pres)
	o.Count("rep-H=" + hres)

	// ---- property oracle, from the descriptors
	genuine := len(items) == 2 && allMsgs && c06Genuine(items[0], items[1]) &&
		((tag == "v" && items[0].kind == "v") || (tag == "p" && items[0].kind == "p"))
	signerInCtx := false
	if len(items) > 0 && items[0].kind != "g" {
		s := items[0].v.s
		if items[0].kind == "p" {
			s = items[0].p.s
		}
		for _, v := range ctxVals {
			if v == s {
				signerInCtx = true
			}
		}
	}
	if hres == "ok" || hres == "ok-nocall" {
		o.Check(genuine, "c06-handler-succeeds-for-non-conflict", "DSR handler returns success (%s) for %v", hres, rest)
		o.Check(signerInCtx && ctxOK, "c06-handler-succeeds-for-non-validator", "DSR handler succeeds, signer not in context %v", t[8])
		o.Check(evHeight <= int64(bh), "c06-handler-succeeds-for-future-evidence", "evidence height %d, block height %d", evHeight, bh)
		o.Check(histOK, "c06-handler-succeeds-with-unrecorded-context", "context %s is not the one recorded for height %d in %s", t[8], evHeight-2, t[9])
		o.Check(ord != "gt", "c06-handler-succeeds-for-unordered-data", "data items in descending byte order accepted")
	}
	if pres == "ok" {
		o.Check(genuine, "c06-prevalidate-passes-non-conflict", "PreValidate passes %v", rest)
		o.Check(signerInCtx, "c06-prevalidate-passes-non-validator", "PreValidate passes although the signer is not in the context %v", t[8])
	}
	acc := vres == "ok" && pres == "ok" && hres == "ok"
	if acc {
		o.Count("rep-accepted")
		o.Check(genuine, "c06-report-accepted-for-non-conflict", "report accepted for %v", rest)
		o.Check(signerInCtx && ctxOK, "c06-report-accepted-non-validator", "report accepted, signer not a validator of the context %v", t[8])
		o.Check(evHeight <= int64(bh), "c06-report-accepted-from-future", "evidence height %d, block height %d", evHeight, bh)
		o.Check(histOK, "c06-report-accepted-with-unrecorded-context", "context %s is not the one recorded for height %d in %s", t[8], evHeight-2, t[9])
		o.Check(from == "n" && rev == 1 && call == 1 && ord != "gt", "c06-report-accepted-wrong-envelope", "from=%s rev=%d call=%d ord=%s", from, rev, call, ord)
		nid := c06Nids(items[0])
		if nid != 0 && nid != 1 {
			o.Count("rep-accepted-evidence-of-other-network") // observation: chain nid is 1, ValidateNetwork is constantly true
		}
	} else if genuine && signerInCtx && ctxOK && histOK && evHeight <= int64(bh) && from == "n" && rev == 1 && call == 1 && ord != "gt" && tag != "o" {
		o.Check(false, "c06-genuine-report-rejected", "V=%s P=%s H=%s for %v", vres, pres, hres, rest)
	}
	return "V=" + vres + " P=" + pres + " H=" + hres
}
