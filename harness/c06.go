//go:build c06 || all

package main

import (
	"fmt"
	"strconv"
	"strings"

	"github.com/icon-project/goloop/common/codec"
	"github.com/icon-project/goloop/common/crypto"
	"github.com/icon-project/goloop/common/wallet"
	"github.com/icon-project/goloop/consensus"
	"github.com/icon-project/goloop/module"
)

func init() {
	Register(&Prop{ID: "C06", Gen: c06Gen, New: func() Runner { return &c06Runner{} }})
}

// ---------------------------------------------------------------- descriptors

// vote:     s,h,r,t,kind,nid,blk,ps,ts   (kind n = nil vote: blk = ps = 0; b = block vote)
// proposal: s,h,r,nid,ps,pol
type c06Vote struct {
	s, h, r, t int
	nilVote    bool
	nid        int
	blk, ps    int
	ts         int
}

func (v c06Vote) String() string {
	k := "b"
	if v.nilVote {
		k = "n"
	}
	return fmt.Sprintf("%d,%d,%d,%d,%s,%d,%d,%d,%d", v.s, v.h, v.r, v.t, k, v.nid, v.blk, v.ps, v.ts)
}

type c06Prop struct{ s, h, r, nid, ps, pol int }

func (p c06Prop) String() string {
	return fmt.Sprintf("%d,%d,%d,%d,%d,%d", p.s, p.h, p.r, p.nid, p.ps, p.pol)
}

func c06ParseInts(parts []string, skip int) ([]int, bool) {
	out := make([]int, len(parts))
	for i, p := range parts {
		if i == skip {
			continue
		}
		v, err := strconv.Atoi(p)
		if err != nil {
			return nil, false
		}
		out[i] = v
	}
	return out, true
}

func c06ParseVote(s string) (c06Vote, bool) {
	parts := strings.Split(s, ",")
	if len(parts) != 9 || (parts[4] != "n" && parts[4] != "b") {
		return c06Vote{}, false
	}
	a, ok := c06ParseInts(parts, 4)
	if !ok || a[0] < 0 || a[0] > 40 || a[3] < 0 || a[3] > 255 || a[5] < 0 || a[5] > 0x7fffffff || a[6] < 0 || a[7] < 0 {
		return c06Vote{}, false
	}
	v := c06Vote{s: a[0], h: a[1], r: a[2], t: a[3], nilVote: parts[4] == "n", nid: a[5], blk: a[6], ps: a[7], ts: a[8]}
	if v.nilVote && (v.blk != 0 || v.ps != 0) {
		return c06Vote{}, false
	}
	return v, true
}

func c06ParseProp(s string) (c06Prop, bool) {
	parts := strings.Split(s, ",")
	if len(parts) != 6 {
		return c06Prop{}, false
	}
	a, ok := c06ParseInts(parts, -1)
	if !ok || a[0] < 0 || a[0] > 40 || a[3] < 0 || a[3] > 0x7fffffff || a[4] < 0 {
		return c06Prop{}, false
	}
	return c06Prop{a[0], a[1], a[2], a[3], a[4], a[5]}, true
}

// ---------------------------------------------------------------- generator

func c06GenVote(g *Gen) c06Vote {
	v := c06Vote{s: g.Intn(3), h: 1 + g.Intn(3), r: g.Intn(3), t: g.Intn(2), nid: g.Pick(0, 1, 2, 1, 2, 7), ts: 100 + g.Intn(3)}
	if g.Intn(4) == 0 {
		v.nilVote = true
	} else {
		v.blk, v.ps = g.Intn(3), g.Intn(3)
	}
	return v
}

func c06MutVote(g *Gen, v c06Vote) c06Vote {
	for k := g.Pick(0, 1, 1, 1, 2, 2, 3); k > 0; k-- {
		switch g.Intn(9) {
		case 0:
			v.s = (v.s + 1 + g.Intn(2)) % 3
		case 1:
			v.h += g.Pick(-1, 1)
		case 2:
			v.r += g.Pick(-1, 1, 2)
		case 3:
			v.t = 1 - v.t
		case 4:
			v.nilVote = !v.nilVote
			v.blk, v.ps = 0, 0
			if !v.nilVote {
				v.blk, v.ps = g.Intn(3), g.Intn(3)
			}
		case 5:
			v.nid = g.Pick(0, 1, 2, 3, 7)
		case 6:
			if !v.nilVote {
				v.blk = (v.blk + 1) % 3
			}
		case 7:
			if !v.nilVote {
				v.ps = (v.ps + 1) % 3
			}
		case 8:
			v.ts += g.Pick(-1, 1)
		}
	}
	return v
}

func c06GenProp(g *Gen) c06Prop {
	r := g.Intn(3)
	return c06Prop{s: g.Intn(3), h: 1 + g.Intn(3), r: r, nid: g.Pick(0, 1, 2, 1, 2, 7), ps: g.Intn(3), pol: -1 + g.Intn(r+1)}
}

func c06MutProp(g *Gen, p c06Prop) c06Prop {
	for k := g.Pick(0, 1, 1, 1, 2, 2, 3); k > 0; k-- {
		switch g.Intn(6) {
		case 0:
			p.s = (p.s + 1 + g.Intn(2)) % 3
		case 1:
			p.h += g.Pick(-1, 1)
		case 2:
			p.r += g.Pick(-1, 1, 2)
		case 3:
			p.nid = g.Pick(0, 1, 2, 3, 7)
		case 4:
			p.ps = (p.ps + 1) % 3
		case 5:
			p.pol += g.Pick(-1, 1)
		}
	}
	return p
}

func c06Gen(g *Gen) {
	for i := 0; i < g.N; i++ {
		g.Emit("reset")
		switch x := g.Intn(100); {
		case x < 45:
			v := c06GenVote(g)
			g.Emit("cf v %s v %s", v, c06MutVote(g, v))
			if g.Intn(3) == 0 { // and the symmetric question
				v2 := c06MutVote(g, v)
				g.Emit("cf v %s v %s", v2, v)
			}
		case x < 70:
			p := c06GenProp(g)
			g.Emit("cf p %s p %s", p, c06MutProp(g, p))
		case x < 75:
			if g.Intn(2) == 0 {
				g.Emit("cf v %s p %s", c06GenVote(g), c06GenProp(g))
			} else {
				g.Emit("cf p %s v %s", c06GenProp(g), c06GenVote(g))
			}
		case x < 80:
			g.Emit("mn %d %d", g.Pick(0, 1, 2, 7, 0x7fffffff, 0xffffffff), g.Pick(0, 1, 2, 7, 0x7fffffff, 0xffffffff))
		default:
			// a dsmLog history over a small key space
			n := 3 + g.Intn(12)
			var votes []c06Vote
			var props []c06Prop
			for k := 0; k < n; k++ {
				if g.Intn(3) > 0 {
					var v c06Vote
					if len(votes) > 0 && g.Intn(3) > 0 {
						v = c06MutVote(g, votes[g.Intn(len(votes))])
					} else {
						v = c06GenVote(g)
					}
					votes = append(votes, v)
					g.Emit("log v %s", v)
				} else {
					var p c06Prop
					if len(props) > 0 && g.Intn(3) > 0 {
						p = c06MutProp(g, props[g.Intn(len(props))])
					} else {
						p = c06GenProp(g)
					}
					props = append(props, p)
					g.Emit("log p %s", p)
				}
			}
		}
	}
}

// ---------------------------------------------------------------- material

var c06Wallets []module.Wallet

func c06Wallet(i int) module.Wallet {
	for len(c06Wallets) <= i {
		sk, err := crypto.ParsePrivateKey(crypto.SHA3Sum256([]byte(fmt.Sprintf("verif-c06-key-%d", len(c06Wallets)))))
		if err != nil {
			panic(err)
		}
		w, _ := wallet.NewFromPrivateKey(sk)
		c06Wallets = append(c06Wallets, w)
	}
	return c06Wallets[i]
}

func c06Hash(s string, i int) []byte {
	return crypto.SHA3Sum256([]byte(fmt.Sprintf("verif-c06-%s-%d", s, i)))
}

var c06VoteCache = map[c06Vote]*consensus.VoteMessage{}
var c06PropCache = map[c06Prop]*consensus.ProposalMessage{}

func c06MakeVote(v c06Vote) *consensus.VoteMessage {
	if m, ok := c06VoteCache[v]; ok {
		return m
	}
	var m *consensus.VoteMessage
	if v.nilVote {
		m = consensus.VerifSignedVote(c06Wallet(v.s), consensus.VoteType(v.t), int64(v.h), int32(v.r),
			codec.MustMarshalToBytes(int32(v.nid)), nil, 0, 0, int64(v.ts))
	} else {
		psid := &consensus.PartSetID{Count: uint16(1 + v.ps), Hash: c06Hash("ps", v.ps)}
		m = consensus.VerifSignedVote(c06Wallet(v.s), consensus.VoteType(v.t), int64(v.h), int32(v.r),
			c06Hash("blk", v.blk), psid, uint32(v.nid), 0, int64(v.ts))
	}
	c06VoteCache[v] = m
	return m
}

func c06MakeProp(p c06Prop) *consensus.ProposalMessage {
	if m, ok := c06PropCache[p]; ok {
		return m
	}
	m := consensus.NewProposalMessage()
	m.Height = int64(p.h)
	m.Round = int32(p.r)
	m.BlockPartSetID = &consensus.PartSetID{Count: uint16(1 + p.ps), Hash: c06Hash("ps", p.ps)}
	m.POLRound = int32(p.pol)
	m.NID = uint32(p.nid)
	if err := m.Sign(c06Wallet(p.s)); err != nil {
		panic(err)
	}
	c06PropCache[p] = m
	return m
}

// the property, evaluated on the descriptors (independent of the code under test)
func c06SameNet(a, b int) bool { return a == 0 || b == 0 || a == b }

func c06GenuineVotes(a, b c06Vote) bool {
	ca, cb := a, b
	ca.s, cb.s = 0, 0
	return a.s == b.s && a.h == b.h && a.r == b.r && a.t == b.t && c06SameNet(a.nid, b.nid) && ca != cb
}

func c06GenuineProps(a, b c06Prop) bool {
	ca, cb := a, b
	ca.s, cb.s = 0, 0
	return a.s == b.s && a.h == b.h && a.r == b.r && c06SameNet(a.nid, b.nid) && ca != cb
}

type c06Item struct {
	kind string // "v" | "p"
	v    c06Vote
	p    c06Prop
}

func (it c06Item) String() string {
	if it.kind == "v" {
		return "v " + it.v.String()
	}
	return "p " + it.p.String()
}

func c06ParseItem(kind, s string) (c06Item, bool) {
	switch kind {
	case "v":
		v, ok := c06ParseVote(s)
		return c06Item{kind: kind, v: v}, ok
	case "p":
		p, ok := c06ParseProp(s)
		return c06Item{kind: kind, p: p}, ok
	}
	return c06Item{}, false
}

func (it c06Item) ds() module.DoubleSignData {
	if it.kind == "v" {
		return consensus.VerifDSVote(c06MakeVote(it.v))
	}
	return consensus.VerifDSProposal(c06MakeProp(it.p))
}

// the same evidence as it arrives in a double sign report: type tag + bytes, decoded
func (it c06Item) decoded() (module.DoubleSignData, error) {
	d := it.ds()
	return consensus.DecodeDoubleSignData(d.Type(), d.Bytes())
}

func c06Genuine(a, b c06Item) bool {
	if a.kind != b.kind {
		return false
	}
	if a.kind == "v" {
		return c06GenuineVotes(a.v, b.v)
	}
	return c06GenuineProps(a.p, b.p)
}

func c06SameKey(a, b c06Item) bool {
	if a.kind != b.kind {
		return false
	}
	if a.kind == "v" {
		return a.v.s == b.v.s && a.v.h == b.v.h && a.v.r == b.v.r && a.v.t == b.v.t
	}
	return a.p.s == b.p.s && a.p.h == b.p.h && a.p.r == b.p.r
}

func c06Nids(a c06Item) int {
	if a.kind == "v" {
		return a.v.nid
	}
	return a.p.nid
}

// checks one verdict of IsConflictWith against the property; specific keys for the classes of failure
func c06Judge(o *Oracle, a, b c06Item, got bool, where string) {
	want := c06Genuine(a, b)
	if got && a.kind == b.kind && !c06SameNet(c06Nids(a), c06Nids(b)) {
		key := "dsvote-nid-from-wrong-receiver"
		if a.kind == "p" {
			key = "dsproposal-different-networks-conflict"
		}
		o.Check(false, key, "%s: messages of networks %d and %d reported as double sign: %s | %s", where, c06Nids(a), c06Nids(b), a, b)
		return
	}
	if got && !want {
		o.Check(false, "c06-non-conflict-reported", "%s: not a genuine conflict but reported: %s | %s", where, a, b)
		return
	}
	o.Check(got == want, "c06-genuine-conflict-missed", "%s: genuine conflict not reported: %s | %s", where, a, b)
}

// ---------------------------------------------------------------- runner

type c06Runner struct {
	log    *consensus.VerifDSMLog
	logged []c06Item
	byPtr  map[interface{}]c06Item
}

func c06B01(b bool) string {
	if b {
		return "1"
	}
	return "0"
}

func (r *c06Runner) Step(t []string, o *Oracle) string {
	if len(t) == 0 {
		return "bad-op"
	}
	switch t[0] {
	case "mn":
		if len(t) != 3 {
			return "bad-op"
		}
		a, e1 := strconv.ParseUint(t[1], 10, 32)
		b, e2 := strconv.ParseUint(t[2], 10, 32)
		if e1 != nil || e2 != nil {
			return "bad-op"
		}
		got := consensus.VerifMatchNID(uint32(a), uint32(b))
		o.Check(got == (a == 0 || b == 0 || a == b), "c06-matchnid-wrong", "matchNID(%d,%d)=%v", a, b, got)
		return c06B01(got)
	case "cf":
		if len(t) != 5 {
			return "bad-op"
		}
		a, ok1 := c06ParseItem(t[1], t[2])
		b, ok2 := c06ParseItem(t[3], t[4])
		if !ok1 || !ok2 {
			return "bad-op"
		}
		got := a.ds().IsConflictWith(b.ds())
		o.Count("cf-" + a.kind + b.kind + "-" + c06B01(got))
		if a.kind == b.kind && !c06SameNet(c06Nids(a), c06Nids(b)) {
			o.Count("cf-different-networks")
		}
		c06Judge(o, a, b, got, "IsConflictWith")
		// irreflexive
		o.Check(!a.ds().IsConflictWith(a.ds()), "c06-conflict-with-itself", "%s conflicts with itself", a)
		// the report path: DecodeDoubleSignData(type, bytes) of both, then IsConflictWith
		da, err1 := a.decoded()
		db, err2 := b.decoded()
		if err1 != nil || err2 != nil {
			o.Check(false, "c06-evidence-does-not-decode", "DecodeDoubleSignData: %v %v", err1, err2)
		} else {
			got2 := da.IsConflictWith(db)
			c06Judge(o, a, b, got2, "decoded evidence")
			o.Check(got2 == got, "c06-decoded-evidence-differs", "decoded %v, direct %v: %s | %s", got2, got, a, b)
			o.Check(string(da.Signer()) == string(a.ds().Signer()) && da.Height() == a.ds().Height() && da.Type() == a.ds().Type(),
				"c06-decoded-evidence-fields", "decoded signer/height/type differ for %s", a)
		}
		return c06B01(got)
	case "log":
		if len(t) != 3 {
			return "bad-op"
		}
		it, ok := c06ParseItem(t[1], t[2])
		if !ok {
			return "bad-op"
		}
		if r.log == nil {
			r.log = consensus.VerifNewDSMLog(1 << 30)
			r.byPtr = map[interface{}]c06Item{}
		}
		var res []module.DoubleSignData
		if it.kind == "v" {
			m := c06MakeVote(it.v)
			r.byPtr[m] = it
			res = r.log.LogVote(m)
		} else {
			m := c06MakeProp(it.p)
			r.byPtr[m] = it
			res = r.log.LogProposal(m)
		}
		// was there an earlier logged message this one genuinely conflicts with?
		// sameKey: earlier messages of the same kind/type/signer/height/round; if the new message
		// conflicts with every one of them, a report is due whichever of them the cache retained.
		anyGenuine := false
		sameKey, sameKeyConflicts := 0, 0
		for _, old := range r.logged {
			if c06Genuine(old, it) {
				anyGenuine = true
			}
			if c06SameKey(old, it) {
				sameKey++
				if c06Genuine(old, it) {
					sameKeyConflicts++
				}
			}
		}
		r.logged = append(r.logged, it)
		o.Check(res != nil || sameKey == 0 || sameKeyConflicts < sameKey, "c06-dsmlog-missed-conflict",
			"%s conflicts with all %d earlier messages of its key but nothing was reported", it, sameKey)
		if res == nil {
			o.Count("log-none")
			if anyGenuine {
				o.Count("log-none-but-earlier-conflict") // allowed: the cache keeps one message per key
			}
			return "-"
		}
		o.Count("log-report")
		if len(res) != 2 {
			o.Check(false, "c06-dsmlog-report-size", "report of %d items", len(res))
			return "ds ?"
		}
		// identify the old message among the logged ones by its bytes
		var old *c06Item
		for i := range r.logged[:len(r.logged)-1] {
			c := r.logged[i]
			if c.ds().Type() == res[0].Type() && string(c.ds().Bytes()) == string(res[0].Bytes()) {
				old = &r.logged[i]
			}
		}
		o.Check(old != nil, "c06-dsmlog-reports-unknown-message", "first item of the report was never logged")
		o.Check(res[1].Type() == it.ds().Type() && string(res[1].Bytes()) == string(it.ds().Bytes()), "c06-dsmlog-report-second", "second item is not the new message")
		if old == nil {
			return "ds ?"
		}
		c06Judge(o, *old, it, true, "dsmLog report")
		return "ds " + old.String()
	}
	return "bad-op"
}
