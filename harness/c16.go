//go:build c16 || all

package main

// C16 uses the runner, the oracle and the model of C15 (see c15.go); its
// generator is biased to transactions that fail after partially mutating state.

func c16Gen(g *Gen) {
	for i := 0; i < g.N; i++ {
		if i > 0 {
			g.Emit("reset")
		}
		c15GenCase(g, true)
	}
	c15Malformed(g)
}

func init() {
	Register(&Prop{ID: "C16", Gen: c16Gen, New: c15NewRunner})
}
