package main

import (
	"bufio"
	"encoding/hex"
	"fmt"
	"math/rand"
)

// Gen is the single source of randomness of a generated run.
type Gen struct {
	R    *rand.Rand
	N    int
	Tier string
	w    *bufio.Writer
}

func NewGen(seed int64, n int, tier string, w *bufio.Writer) *Gen {
	return &Gen{R: rand.New(rand.NewSource(seed)), N: n, Tier: tier, w: w}
}

func (g *Gen) Emit(format string, args ...interface{}) {
	fmt.Fprintf(g.w, format, args...)
	g.w.WriteByte('\n')
}

func (g *Gen) Intn(n int) int { return g.R.Intn(n) }

func (g *Gen) Bytes(n int) []byte {
	b := make([]byte, n)
	g.R.Read(b)
	return b
}

// Pick returns one of the choices.
func (g *Gen) Pick(xs ...int) int { return xs[g.R.Intn(len(xs))] }

// hx is the wire form of a byte string ("-" for empty).
func hx(b []byte) string {
	if len(b) == 0 {
		return "-"
	}
	return hex.EncodeToString(b)
}

func unhx(s string) []byte {
	if s == "-" {
		return []byte{}
	}
	b, err := hex.DecodeString(s)
	if err != nil {
		panic("bad hex " + s)
	}
	return b
}
