//go:build c13 || all

package main

import (
	"bytes"
	"encoding/base64"
	"encoding/json"
	"fmt"
	"math/big"
	"strings"

	"github.com/icon-project/goloop/common"
	"github.com/icon-project/goloop/common/codec"
	"github.com/icon-project/goloop/common/crypto"
	"github.com/icon-project/goloop/service/transaction"
)

func init() {
	Register(&Prop{ID: "C13", Gen: c13Gen, New: func() Runner { return c13Runner{} }})
}

var c13N, _ = new(big.Int).SetString("FFFFFFFFFFFFFFFFFFFFFFFFFFFFFFFEBAAEDCE6AF48A03BBFD25E8CD0364141", 16)

func c13Key(g *Gen) *crypto.PrivateKey {
	var b []byte
	switch g.Intn(12) {
	case 0:
		b = make([]byte, 32)
		b[31] = byte(1 + g.Intn(3))
	case 1:
		b = new(big.Int).Sub(c13N, big.NewInt(int64(1+g.Intn(3)))).Bytes()
	default:
		b = g.Bytes(32)
		if new(big.Int).SetBytes(b).Cmp(c13N) >= 0 || new(big.Int).SetBytes(b).Sign() == 0 {
			b[0] = 0x7f
		}
	}
	k, err := crypto.ParsePrivateKey(b)
	if err != nil {
		panic(err)
	}
	return k
}

func c13Hash(g *Gen) []byte {
	switch g.Intn(10) {
	case 0:
		return g.Bytes(g.Pick(1, 2, 20, 31))
	case 1:
		h := make([]byte, 32)
		if g.Intn(2) == 0 {
			for i := range h {
				h[i] = 0xff
			}
		}
		return h
	default:
		return g.Bytes(32)
	}
}

func c13Flip(g *Gen, b []byte, from, to int) []byte {
	r := append([]byte{}, b...)
	i := from + g.Intn(to-from)
	r[i] ^= 1 << uint(g.Intn(8))
	return r
}

// c13Malleate: (r, s, v) -> (r, n-s, v^1): the other valid signature of the same key.
func c13Malleate(rsv []byte) []byte {
	r := append([]byte{}, rsv...)
	s := new(big.Int).SetBytes(rsv[32:64])
	s.Sub(c13N, s)
	sb := s.Bytes()
	copy(r[32:64], make([]byte, 32))
	copy(r[64-len(sb):64], sb)
	r[64] ^= 1
	return r
}

// c13MutSig: a mutation of a valid [R|S|V] signature and whether the result
// still is a signature of the same key over the same hash ("same"), surely not
// ("other"), or malformed ("bad": must fail to parse or to recover).
func c13MutSig(g *Gen, rsv []byte) ([]byte, string, string) {
	be := func(v *big.Int) []byte {
		b := v.Bytes()
		return append(make([]byte, 32-len(b)), b...)
	}
	set := func(off int, v []byte) []byte {
		r := append([]byte{}, rsv...)
		copy(r[off:off+32], v)
		return r
	}
	switch g.Intn(14) {
	case 0:
		return rsv, "same", "valid"
	case 1:
		return c13Malleate(rsv), "same", "malleated"
	case 2:
		return c13Flip(g, rsv, 0, 32), "other", "flip-r"
	case 3:
		return c13Flip(g, rsv, 32, 64), "other", "flip-s"
	case 4:
		r := append([]byte{}, rsv...)
		r[64] ^= 1
		return r, "other", "flip-v"
	case 5:
		r := append([]byte{}, rsv...)
		r[64] = byte(g.Pick(2, 3))
		return r, "other", "v-overflow-bit"
	case 6:
		r := append([]byte{}, rsv...)
		r[64] = rsv[64] + 4
		return r, "same", "v-compressed-bit" // decred ignores bit 2 (compressed-key flag) for recovery
	case 7:
		r := append([]byte{}, rsv...)
		r[64] = byte(g.Pick(8, 9, 27, 28, 31, 128, 228, 229, 255))
		return r, "bad", "v-out-of-range"
	case 8:
		return set(0, make([]byte, 32)), "bad", "r-zero"
	case 9:
		return set(32, make([]byte, 32)), "bad", "s-zero"
	case 10:
		v := new(big.Int).Add(c13N, big.NewInt(int64(g.Intn(3))))
		if g.Intn(3) == 0 {
			v.Sub(new(big.Int).Lsh(big.NewInt(1), 256), big.NewInt(1))
		}
		return set(32*g.Intn(2), be(v)), "bad", "r-or-s-ge-n"
	case 11:
		return rsv[:64], "bad", "no-v"
	case 12:
		return append(append([]byte{}, rsv...), 0)[:g.Pick(63, 66)], "bad", "bad-length"
	default:
		v := new(big.Int).Sub(c13N, big.NewInt(int64(1+g.Intn(2))))
		return set(32*g.Intn(2), be(v)), "other", "r-or-s-n-minus"
	}
}

func c13Sign(hash []byte, k *crypto.PrivateKey) []byte {
	s, err := crypto.NewSignature(hash, k)
	if err != nil {
		panic(err)
	}
	rsv, err := s.SerializeRSV()
	if err != nil {
		panic(err)
	}
	return rsv
}

func c13TxCase(g *Gen) {
	t := c12NewTx(g, g.Intn(5) == 0)
	class := g.Intn(12)
	if class == 10 {
		// contract-typed sender with the signer's id
		from, _ := c12Get(t.obj, "from")
		if s, ok := from.(string); ok && len(s) == 42 {
			t.obj = c12Set(t.obj, "from", "cx"+s[2:])
		}
	}
	switch class {
	case 0, 1, 2:
		t.sign(g, 0)
		g.Emit("txverify %s %s valid", hx([]byte(c12Text(g, g.Intn(3), t.obj))), t.expect())
	case 3:
		m := g.Pick(1, 2, 4, 5)
		t.sign(g, m)
		g.Emit("txverify %s n %s", hx([]byte(c12Text(g, g.Intn(3), t.obj))), t.kind)
	case 4, 5:
		// signed, then a signed field is changed: the signature is over another id
		t.sign(g, 0)
		for tries := 0; tries < 10; tries++ {
			m, same, what := c12Mutate(g, t)
			if !same {
				g.Emit("txverify %s n changed-%s", hx([]byte(c12Text(g, g.Intn(3), m))), what)
				return
			}
		}
		g.Emit("txverify %s %s valid", hx([]byte(c12Text(g, 0, t.obj))), t.expect())
	case 10:
		t.sign(g, 0)
		g.Emit("txverify %s n contract-sender", hx([]byte(c12Text(g, g.Intn(3), t.obj))))
	default:
		t.sign(g, 0)
		v, _ := c12Get(t.obj, "signature")
		rsv, err := base64.StdEncoding.DecodeString(v.(string))
		if err != nil || len(rsv) != 65 {
			panic("c13: signature")
		}
		ms, rel, what := c13MutSig(g, rsv)
		t.obj = c12Set(t.obj, "signature", base64.StdEncoding.EncodeToString(ms))
		exp := "n"
		switch rel {
		case "same":
			exp = t.expect()
		case "any":
			exp = "u"
		}
		if t.kind != "valid" {
			exp = "u"
		}
		g.Emit("txverify %s %s sig-%s", hx([]byte(c12Text(g, g.Intn(3), t.obj))), exp, what)
	}
}


// c13TypedData: data payloads for every dataType, well-formed and malformed
// (for the dataType-specific checks Verify() runs before the signature check).
// Returns the dataType (nil = absent), the data (c13Absent = no data member),
// whether the type-specific check is expected to pass, and a label.
type c13AbsentT struct{}

var c13Absent = c13AbsentT{}

func c13TypedData(g *Gen) (dt interface{}, data interface{}, ok bool, what string) {
	hexs := func(n int) string { return "0x" + hx(g.Bytes(n)) }
	switch g.Intn(7) {
	case 0: // plain transfer
		if g.Intn(3) == 0 {
			return c13Absent, c12RandValue(g, 2, false), true, "none-data"
		}
		return c13Absent, c13Absent, true, "none"
	case 1: // message
		switch g.Intn(4) {
		case 0:
			return "message", c12RandValue(g, 2, false), true, "message-anydata"
		case 1:
			return "message", c13Absent, true, "message-nodata"
		default:
			return "message", hexs(1 + g.Intn(20)), true, "message"
		}
	case 2: // call
		switch g.Intn(10) {
		case 0:
			return "call", c12Obj{}, false, "call-no-method"
		case 1:
			return "call", c12Obj{{"method", ""}, {"params", c12Obj{}}}, false, "call-empty-method"
		case 2:
			return "call", c12Obj{{"method", c12Num("1")}}, false, "call-method-number"
		case 3:
			return "call", []interface{}{nil, "transfer", c12Num("5"), []interface{}{"a"}}[g.Intn(4)], false, "call-not-object"
		case 4:
			return "call", c13Absent, false, "call-nodata"
		case 5:
			return "call", c12Obj{{"method", []interface{}{"m"}}}, false, "call-method-list"
		default:
			return "call", c12CallData(g), true, "call"
		}
	case 3: // deploy
		well := c12Obj{{"contentType", "application/zip"}, {"content", hexs(1 + g.Intn(30))}}
		if g.Intn(2) == 0 {
			well = append(well, c12KV{"params", c12Obj{{"name", "x"}}})
		}
		switch g.Intn(12) {
		case 0:
			return "deploy", c12Obj{{"contentType", "application/zip"}, {"content", "0xzz12"}}, false, "deploy-content-nothex"
		case 1:
			return "deploy", c12Obj{{"contentType", "application/zip"}, {"content", "0x123"}}, false, "deploy-content-odd"
		case 2:
			return "deploy", c12Obj{{"contentType", "application/zip"}, {"content", c12Num("12")}}, false, "deploy-content-number"
		case 3:
			return "deploy", c12Obj{{"contentType", c12Num("5")}, {"content", "0x00"}}, false, "deploy-contenttype-number"
		case 4:
			return "deploy", []interface{}{"0x1234", c12Num("7"), []interface{}{}}[g.Intn(3)], false, "deploy-not-object"
		case 5:
			return "deploy", c13Absent, false, "deploy-nodata"
		case 6:
			return "deploy", c12Obj{{"contentType", "application/java"}, {"content", nil}}, true, "deploy-content-null"
		case 7:
			return "deploy", c12Obj{{"params", c12Obj{}}}, true, "deploy-no-content"
		case 8:
			return "deploy", c12Obj{{"contentType", "x"}, {"content", "504B0304AB"}}, true, "deploy-content-no0x"
		default:
			return "deploy", well, true, "deploy"
		}
	case 4: // deposit
		switch g.Intn(12) {
		case 0:
			return "deposit", c12Obj{{"action", "add"}, {"zzz", c12Num("1")}}, true, "deposit-unknown-field"
		case 1:
			return "deposit", c12Obj{{"action", "withdraw"}, {"amount", "xyz"}}, true, "deposit-amount-nothex"
		case 2:
			return "deposit", []interface{}{"add", c12Num("5"), []interface{}{"add"}, nil}[g.Intn(4)], true, "deposit-not-object"
		case 3:
			return "deposit", c12Obj{{"action", c12Num("5")}}, true, "deposit-action-number"
		case 4:
			return "deposit", c12Obj{{"action", "withdraw"}, {"id", "0xzz"}}, true, "deposit-id-nothex"
		case 5:
			return "deposit", c13Absent, false, "deposit-nodata"
		case 6, 7:
			return "deposit", c12Obj{{"action", "withdraw"}, {"id", hexs(32)}, {"amount", c12HexInt(g, true, false)}}, true, "deposit-withdraw"
		case 8:
			return "deposit", c12Obj{{"action", "withdraw"}}, true, "deposit-withdraw-all"
		default:
			return "deposit", c12Obj{{"action", "add"}}, true, "deposit-add"
		}
	case 5: // patch
		switch g.Intn(8) {
		case 0:
			return "patch", c12Obj{{"type", "other"}, {"data", "AAEC"}}, false, "patch-unknown-type"
		case 1:
			return "patch", c12Obj{{"data", "AAEC"}}, false, "patch-no-type"
		case 2:
			return "patch", c12Obj{{"type", "skip_txs"}, {"data", "!!!"}}, false, "patch-data-notb64"
		case 3:
			return "patch", c13Absent, false, "patch-nodata"
		case 4:
			return "patch", []interface{}{"skip_txs", nil, c12Num("1")}[g.Intn(3)], false, "patch-not-object"
		case 5:
			return "patch", c12Obj{{"type", "skip_txs"}, {"data", nil}}, true, "patch-data-null"
		default:
			return "patch", c12Obj{{"type", "skip_txs"}, {"data", base64.StdEncoding.EncodeToString(g.Bytes(g.Intn(40)))}}, true, "patch"
		}
	default: // unknown dataType strings, dataType null
		if g.Intn(3) == 0 {
			return nil, c12RandValue(g, 1, false), true, "datatype-null"
		}
		return []string{"dsr", "base", "Call", "deposit ", ""}[g.Intn(5)], c12RandValue(g, 2, false), true, "datatype-unknown"
	}
}

// c13TypedTxCase: every dataType (well-formed / malformed data) crossed with
// signed by the sender / other key / changed after signing / malformed signature.
func c13TypedTxCase(g *Gen) {
	t := c12NewTx(g, false)
	t.obj = c12Del(c12Del(t.obj, "dataType"), "data")
	dt, data, dok, what := c13TypedData(g)
	if dt != c13Absent {
		t.obj = append(t.obj, c12KV{"dataType", dt})
	}
	if data != c13Absent {
		t.obj = append(t.obj, c12KV{"data", data})
	}
	if dt == "deploy" {
		switch g.Intn(6) {
		case 0:
			t.obj = c12Set(t.obj, "value", "0x1")
			dok = false
			what += "+value"
		case 1:
			t.obj = c12Set(t.obj, "value", "0x0")
		default:
			t.obj = c12Del(t.obj, "value")
		}
	}
	emit := func(obj c12Obj, exp, sigWhat string) {
		g.Emit("txverify %s %s %s/%s", hx([]byte(c12Text(g, g.Intn(3), obj))), exp, what, sigWhat)
	}
	switch g.Intn(8) {
	case 0, 1, 2:
		t.sign(g, 0)
		exp := t.expect()
		if !dok && exp == "v" {
			exp = "n" // rejected by the data check (stricter than the property asks; asserted for the diff)
		}
		emit(t.obj, exp, "sender")
	case 3:
		t.sign(g, 4)
		emit(t.obj, "n", "otherkey")
	case 4:
		t.sign(g, 0)
		for tries := 0; tries < 10; tries++ {
			m, same, w := c12Mutate(g, t)
			if !same && !strings.HasPrefix(w, "data") && !strings.HasPrefix(w, "drop-data") {
				emit(m, "n", "changed-"+w)
				return
			}
		}
		t.sign(g, 1)
		emit(t.obj, "n", "absent")
	case 5:
		t.sign(g, g.Pick(1, 2, 3, 5))
		emit(t.obj, "n", t.kind)
	default:
		t.sign(g, 0)
		v, _ := c12Get(t.obj, "signature")
		rsv, err := base64.StdEncoding.DecodeString(v.(string))
		if err != nil || len(rsv) != 65 {
			panic("c13: signature")
		}
		ms, rel, w := c13MutSig(g, rsv)
		if rel == "same" || len(ms) == 63 || len(ms) == 66 {
			ms = c13Flip(g, rsv, 0, 64)
			w = "flip"
		}
		t.obj = c12Set(t.obj, "signature", base64.StdEncoding.EncodeToString(ms))
		exp := "n"
		if t.kind != "valid" {
			exp = "u"
		}
		emit(t.obj, exp, "sig-"+w)
	}
}

// c13V3Data mirrors transactionV3Data (same field types, same order) so that the
// binary form of transactions that could never be submitted as JSON can be built.
type c13V3Data struct {
	Version   common.HexUint16
	From      common.Address
	To        common.Address
	Value     *common.HexInt
	StepLimit common.HexInt
	TimeStamp common.HexInt64
	NID       *common.HexInt64
	Nonce     *common.HexInt
	Signature common.Signature
	DataType  *string
	Data      []byte
}

func c13Unhashable(g *Gen) interface{} {
	b := g.Intn(2) == 0
	switch g.Intn(6) {
	case 0:
		return b
	case 1:
		return c12Obj{{"a", b}}
	case 2:
		return []interface{}{c12Num("1"), []interface{}{"x", b}}
	case 3:
		return c12Obj{{"method", "m"}, {"params", c12Obj{{"flag", b}, {"n", "0x1"}}}}
	case 4:
		return c12Obj{{"k", []interface{}{c12Obj{{"deep", c12Obj{{"er", b}}}}}}}
	default:
		return []interface{}{b, !b}
	}
}

// c13BinCase: transactions in BINARY form (NewTransaction from bytes), with hashable and
// unhashable data, crossed with genuine-looking / other-key / random / crafted signatures.
func c13BinCase(g *Gen) {
	key := c13Key(g)
	pub := key.PublicKey().SerializeUncompressed()
	d := &c13V3Data{}
	d.Version.Value = 3
	d.From.Set(common.NewAccountAddressFromPublicKey(key.PublicKey()))
	d.To.SetTypeAndID(g.Intn(3) == 0, g.Bytes(20))
	if g.Intn(2) == 0 {
		d.Value = common.NewHexInt(int64(g.Intn(1 << 30)))
	}
	d.StepLimit.SetInt64(int64(g.Intn(1 << 30)))
	d.TimeStamp.Value = int64(g.R.Uint64() >> uint(8+g.Intn(40)))
	if g.Intn(2) == 0 {
		d.NID = &common.HexInt64{Value: int64(g.Intn(100))}
	}
	if g.Intn(2) == 0 {
		d.Nonce = common.NewHexInt(int64(g.Intn(1000)))
	}
	hashable := g.Intn(3) == 0
	what := "unhashable"
	var data interface{}
	switch g.Intn(4) {
	case 0:
		// dataType nil
		what += "-nil"
	case 1, 2:
		dt := "message"
		d.DataType = &dt
		what += "-message"
	default:
		dt := "x" + c12RandString(g)
		d.DataType = &dt
		what += "-other"
	}
	if hashable {
		what = "hashable" + what[len("unhashable"):]
		switch g.Intn(3) {
		case 0:
			data = c13Absent
		default:
			data = c12RandValue(g, 2, false)
		}
	} else {
		data = c13Unhashable(g)
	}
	if data != c13Absent {
		d.Data = []byte(c12Text(g, g.Intn(2), data))
	}
	enc := func() []byte {
		bs, err := codec.BC.MarshalToBytes(d)
		if err != nil {
			panic(err)
		}
		return bs
	}
	// the id the implementation computes for the unsigned form (empty when not computable)
	var id []byte
	if tx, err := transaction.NewTransaction(enc()); err == nil {
		id = tx.ID()
	}
	signOver := id
	if len(signOver) == 0 {
		signOver = make([]byte, 32) // what a placeholder all-zero id would be
	}
	exp := "n"
	sigWhat := ""
	setSig := func(rsv []byte) {
		s, err := crypto.ParseSignature(rsv)
		if err != nil {
			panic(err)
		}
		d.Signature.Signature = s
	}
	switch g.Intn(7) {
	case 0, 1:
		setSig(c13Sign(signOver, key))
		sigWhat = "genuine"
		if hashable && len(id) > 0 {
			exp = "v"
		}
	case 2:
		other := c13Key(g)
		for bytes.Equal(other.Bytes(), key.Bytes()) {
			other = c13Key(g)
		}
		setSig(c13Sign(signOver, other))
		sigWhat = "otherkey"
	case 3:
		r := g.Bytes(65)
		r[64] = byte(g.Intn(2))
		setSig(r)
		sigWhat = "random"
	case 4, 5:
		// forgery from the PUBLIC key alone: r = s = P.x, V = parity(P.y); recovers P when e = 0
		r := append(append(append([]byte{}, pub[1:33]...), pub[1:33]...), pub[64]&1)
		setSig(r)
		sigWhat = "crafted-px-px"
	default:
		sigWhat = "absent"
	}
	g.Emit("binverify %s %s %s/%s", hx(enc()), exp, what, sigWhat)
}

// c13ReplayCase: histories in one process. A genuine transaction A of sender S is verified
// first; then other transactions with from=S that carry A's signature bytes (different
// to / value / nonce / ... => different id) are verified, in JSON and in binary form, and A
// again.  Whatever was verified before, B verifies only with a signature over B's own id.
func c13ReplayCase(g *Gen) {
	if g.Intn(2) == 0 {
		t := c12NewTx(g, false)
		t.sign(g, 0)
		a := hx([]byte(c12Text(g, g.Intn(3), t.obj)))
		g.Emit("txverify %s %s history/genuine-first", a, t.expect())
		n := 1 + g.Intn(3)
		for k := 0; k < n; k++ {
			for tries := 0; tries < 10; tries++ {
				m, same, w := c12Mutate(g, t)
				if !same && !strings.HasPrefix(w, "data") && !strings.HasPrefix(w, "drop-data") {
					g.Emit("txverify %s n history/replayed-signature-%s", hx([]byte(c12Text(g, g.Intn(3), m))), w)
					break
				}
			}
		}
		if g.Intn(2) == 0 {
			g.Emit("txverify %s %s history/genuine-again", a, t.expect())
		}
		return
	}
	key := c13Key(g)
	d := &c13V3Data{}
	d.Version.Value = 3
	d.From.Set(common.NewAccountAddressFromPublicKey(key.PublicKey()))
	d.To.SetTypeAndID(g.Intn(3) == 0, g.Bytes(20))
	d.Value = common.NewHexInt(int64(g.Intn(1 << 30)))
	d.StepLimit.SetInt64(int64(g.Intn(1 << 30)))
	d.TimeStamp.Value = int64(g.R.Uint64() >> uint(8+g.Intn(40)))
	d.Nonce = common.NewHexInt(int64(g.Intn(1000)))
	enc := func() []byte {
		bs, err := codec.BC.MarshalToBytes(d)
		if err != nil {
			panic(err)
		}
		return bs
	}
	tx, err := transaction.NewTransaction(enc())
	if err != nil {
		panic(err)
	}
	s, err := crypto.ParseSignature(c13Sign(tx.ID(), key))
	if err != nil {
		panic(err)
	}
	d.Signature.Signature = s
	a := hx(enc())
	g.Emit("binverify %s v history/genuine-first", a)
	n := 1 + g.Intn(3)
	for k := 0; k < n; k++ {
		w := ""
		switch g.Intn(4) {
		case 0:
			d.To.SetTypeAndID(false, g.Bytes(20))
			w = "to"
		case 1:
			d.Value = common.NewHexInt(d.Value.Int64() + 1 + int64(g.Intn(1000)))
			w = "value"
		case 2:
			d.Nonce = common.NewHexInt(d.Nonce.Int64() + 1)
			w = "nonce"
		default:
			d.TimeStamp.Value++
			w = "timestamp"
		}
		g.Emit("binverify %s n history/replayed-signature-%s", hx(enc()), w)
	}
	if g.Intn(2) == 0 {
		g.Emit("binverify %s v history/genuine-again", a)
	}
}

func c13Gen(g *Gen) {
	for i := 0; i < g.N; i++ {
		// a case = a history of 16 generator steps in one process state
		if i%16 == 0 {
			g.Emit("reset")
		}
		switch g.Intn(19) {
		case 0:
			n := g.Pick(0, 1, 32, 63, 64, 64, 65, 65, 65, 66, 128, 130)
			b := g.Bytes(n)
			if n == 65 && g.Intn(2) == 0 {
				b[64] = byte(g.Pick(0, 1, 2, 3, 27, 28, 228, 229, 255))
			}
			g.Emit("parse %s", hx(b))
		case 1:
			n := g.Pick(0, 64, 65, 65, 65, 66)
			b := g.Bytes(n)
			if n == 65 && g.Intn(2) == 0 {
				b[0] = byte(g.Pick(0, 1, 2, 3, 27, 28, 228, 229, 255))
			}
			g.Emit("parsevrs %s", hx(b))
		case 2, 3:
			k := c13Key(g)
			g.Emit("signrec %s %s", hx(k.Bytes()), hx(c13Hash(g)))
		case 4, 5, 6:
			k := c13Key(g)
			h := c13Hash(g)
			rsv := c13Sign(h, k)
			pub := k.PublicKey().SerializeUncompressed()
			ms, rel, what := c13MutSig(g, rsv)
			switch g.Intn(8) {
			case 0:
				// other hash: the recovered key must differ
				h2 := c13Flip(g, h, 0, len(h))
				if rel == "same" {
					rel = "other"
				}
				g.Emit("recover %s %s %s %s other-hash-%s", hx(ms), hx(h2), rel, hx(pub), what)
			case 1:
				hl := g.Pick(0, 33, 40)
				g.Emit("recover %s %s bad %s hash-length-%s", hx(ms), hx(g.Bytes(hl)), hx(pub), what)
			default:
				g.Emit("recover %s %s %s %s %s", hx(ms), hx(h), rel, hx(pub), what)
			}
		case 7, 8:
			k := c13Key(g)
			h := c13Hash(g)
			rsv := c13Sign(h, k)
			pub := k.PublicKey().SerializeUncompressed()
			ms, rel, _ := c13MutSig(g, rsv)
			if len(ms) != 65 && len(ms) != 64 {
				ms = rsv
				rel = "same"
			}
			if rel == "any" {
				rel = "same" // Verify ignores V altogether
			}
			switch g.Intn(4) {
			case 0:
				pub = c13Key(g).PublicKey().SerializeUncompressed()
				rel = "other"
			case 1:
				h = c13Flip(g, h, 0, len(h))
				rel = "other"
			}
			g.Emit("verify %s %s %s", hx(ms), hx(h), hx(pub))
			_ = rel
		case 9:
			c13TxCase(g)
		case 15, 16:
			c13BinCase(g)
		case 17, 18:
			c13ReplayCase(g)
		default:
			c13TypedTxCase(g)
		}
	}
}

// c13ReplayProbe (oracle only, no output): right after a transaction was accepted, the same
// JSON with one signed field changed and the signature kept must be rejected.
func c13ReplayProbe(o *Oracle, js []byte) {
	var m map[string]interface{}
	if json.Unmarshal(js, &m) != nil {
		return
	}
	for _, k := range []string{"timestamp", "to", "zzprobe"} {
		m2 := map[string]interface{}{}
		for kk, vv := range m {
			m2[kk] = vv
		}
		switch k {
		case "timestamp":
			m2[k] = "0x1234567"
		case "to":
			m2[k] = "hx00000000000000000000000000000000000000aa"
		default:
			m2[k] = "x"
		}
		js2, err := json.Marshal(m2)
		if err != nil {
			return
		}
		tx2, err := transaction.NewTransactionFromJSON(js2)
		if err != nil {
			continue
		}
		o.Count("replay-probe")
		o.Check(tx2.Verify() != nil, "unauthorized-transaction-verifies", "history: after a genuine transaction was verified, the same signature on a transaction with another %s verifies: %s", k, js2)
	}
}

type c13Runner struct{}

func c13Lab(t []string) string {
	if len(t) >= 4 {
		return t[3]
	}
	return "-"
}

func c13ShowSig(s *crypto.Signature) string {
	e := func(b []byte, err error) string {
		if err != nil {
			return "err"
		}
		return hx(b)
	}
	hv := 0
	if s.HasV() {
		hv = 1
	}
	return fmt.Sprintf("ok hasv=%d rsv=%s vrs=%s rs=%s", hv, e(s.SerializeRSV()), e(s.SerializeVRS()), e(s.SerializeRS()))
}

func c13ShowPk(pk *crypto.PublicKey) string {
	return fmt.Sprintf("ok %s %s", hx(pk.SerializeUncompressed()), hx(common.NewAccountAddressFromPublicKey(pk).ID()))
}

func (c13Runner) Step(t []string, o *Oracle) string {
	if len(t) < 2 {
		return "bad-op"
	}
	switch t[0] {
	case "parse", "parsevrs":
		b := unhx(t[1])
		var s *crypto.Signature
		var err error
		if t[0] == "parse" {
			s, err = crypto.ParseSignature(b)
		} else {
			s, err = crypto.ParseSignatureVRS(b)
		}
		// property: exactly the 64/65 byte strings are accepted, and the layout round trips
		okLen := len(b) == 65 || (t[0] == "parse" && len(b) == 64)
		o.Check((err == nil) == okLen, "signature-length-acceptance", "%s len=%d err=%v", t[0], len(b), err)
		if err != nil {
			o.Count(t[0] + "-err")
			return "err"
		}
		o.Count(fmt.Sprintf("%s-%d", t[0], len(b)))
		if len(b) == 65 {
			var back []byte
			if t[0] == "parse" {
				back, err = s.SerializeRSV()
			} else {
				back, err = s.SerializeVRS()
			}
			o.Check(err == nil && bytes.Equal(back, b), "signature-layout-roundtrip", "%s %x -> %x (%v)", t[0], b, back, err)
			rs, _ := s.SerializeRS()
			if t[0] == "parse" {
				o.Check(bytes.Equal(rs, b[:64]), "signature-rs-view", "%x -> rs %x", b, rs)
			} else {
				o.Check(bytes.Equal(rs, b[1:]), "signature-rs-view", "%x -> rs %x", b, rs)
			}
		} else {
			_, e1 := s.SerializeRSV()
			_, e2 := s.SerializeVRS()
			o.Check(!s.HasV() && e1 != nil && e2 != nil, "no-v-has-v-form", "64-byte signature has a V form")
			_, e3 := s.RecoverPublicKey(make([]byte, 32))
			o.Check(e3 != nil, "no-v-recovers", "64-byte signature recovers a key")
		}
		return c13ShowSig(s)
	case "signrec":
		if len(t) != 3 {
			return "bad-op"
		}
		k, err := crypto.ParsePrivateKey(unhx(t[1]))
		if err != nil {
			return "err"
		}
		h := unhx(t[2])
		s, err := crypto.NewSignature(h, k)
		if err != nil {
			return "err"
		}
		pk, err := s.RecoverPublicKey(h)
		o.Check(err == nil && pk.Equal(k.PublicKey()), "sign-recover-roundtrip", "key %x hash %x: recovered %v (%v)", k.Bytes(), h, pk, err)
		o.Check(s.Verify(h, k.PublicKey()), "sign-verify", "own signature does not verify: key %x hash %x", k.Bytes(), h)
		rsv, _ := s.SerializeRSV()
		o.Check(len(rsv) == 65 && rsv[64] <= 1, "sign-v-range", "V=%d", rsv[64])
		o.Count(fmt.Sprintf("signrec-hashlen-%d", len(h)))
		if err != nil {
			return "err"
		}
		return c13ShowPk(pk)
	case "recover":
		if len(t) < 3 {
			return "bad-op"
		}
		s, err := crypto.ParseSignature(unhx(t[1]))
		if err != nil {
			o.Count("recover-parse-err")
			if len(t) >= 4 {
				o.Check(t[3] == "bad", "wellformed-signature-unparsable", "%s", t[1])
			}
			return "err-parse"
		}
		h := unhx(t[2])
		pk, err := s.RecoverPublicKey(h)
		if len(t) >= 6 {
			rel, pub, what := t[3], unhx(t[4]), t[5]
			o.Count("recover-" + what + map[bool]string{true: "-ok", false: "-err"}[err == nil])
			switch rel {
			case "same":
				o.Check(err == nil && bytes.Equal(pk.SerializeUncompressed(), pub), "signer-not-recovered", "%s: signer %x not recovered (%v)", what, pub, err)
			case "other":
				o.Check(err != nil || !bytes.Equal(pk.SerializeUncompressed(), pub), "foreign-signature-recovers-signer", "%s: still recovers the signer %x", what, pub)
			case "bad":
				o.Check(err != nil, "malformed-signature-recovers", "%s: recovers %v", what, pk)
			}
		}
		if err != nil {
			return "err"
		}
		// recover / verify consistency on the real code
		o.Check(s.Verify(h, pk), "recovered-key-does-not-verify", "sig %s hash %x", t[1], h)
		return c13ShowPk(pk)
	case "verify":
		if len(t) != 4 {
			return "bad-op"
		}
		s, err := crypto.ParseSignature(unhx(t[1]))
		if err != nil {
			return "err-parse"
		}
		pk, err := crypto.ParsePublicKey(unhx(t[3]))
		if err != nil {
			return "bad-op"
		}
		h := unhx(t[2])
		ok := s.Verify(h, pk)
		if ok && s.HasV() {
			// a key a signature verifies for is the key recovered with V or V^1
			rsv, _ := s.SerializeRSV()
			found := false
			for _, v := range []byte{0, 1, 2, 3} {
				rsv[64] = v
				if s2, err := crypto.ParseSignature(rsv); err == nil {
					if p2, err := s2.RecoverPublicKey(h); err == nil && p2.Equal(pk) {
						found = true
					}
				}
			}
			o.Check(found, "verified-key-not-recoverable", "sig %s verifies for %x but no V recovers it", t[1], unhx(t[3]))
		}
		o.Count(fmt.Sprintf("verify-%v", ok))
		if ok {
			return "true"
		}
		return "false"
	case "txverify", "binverify":
		var tx transaction.Transaction
		var err error
		if t[0] == "txverify" {
			tx, err = transaction.NewTransactionFromJSON(unhx(t[1]))
		} else {
			tx, err = transaction.NewTransaction(unhx(t[1]))
		}
		if err != nil {
			o.Count("tx-err")
			if len(t) >= 4 && (t[2] == "v") {
				o.Check(false, "valid-transaction-unparsable", "%s: %v", t[3], err)
			}
			return "err"
		}
		got := "verified"
		if err := tx.Verify(); err != nil {
			got = "rejected"
		}
		// legal call order: Verify is called several times on one object
		again := "verified"
		if err := tx.Verify(); err != nil {
			again = "rejected"
		}
		o.Check(again == got, "verify-not-repeatable", "first %s then %s", got, again)
		if got == "verified" && t[0] == "txverify" {
			c13ReplayProbe(o, unhx(t[1]))
		}
		pre := "tx-"
		if t[0] == "binverify" {
			pre = "bin-"
		}
		if len(t) >= 4 {
			o.Count(pre + t[3] + "-" + t[2] + "-" + got)
			switch t[2] {
			case "v":
				o.Check(got == "verified", "sender-signature-rejected", "%s: signed by the sender key over the id, but rejected", t[3])
			case "n":
				o.Check(got == "rejected", "unauthorized-transaction-verifies", "%s: verifies without the sender's signature over its id: %x", t[3], unhx(t[1]))
			}
		}
		f, _, ok := transaction.VerifC12Fields(tx)
		// independent: is the id computable at all? (data must be serialisable)
		unhashable := false
		if ok && f[8] != "nil" && f[8] != "-" {
			var dv interface{}
			if json.Unmarshal(unhx(f[8]), &dv) == nil {
				if _, can := c12SpecSer(dv); !can {
					unhashable = true
				}
			} else {
				unhashable = true
			}
		}
		if unhashable {
			o.Count(pre + "unhashable-" + got)
			o.Check(got == "rejected", "unhashable-transaction-verifies", "%s: the id of this transaction cannot be computed (data %s) but Verify passes", c13Lab(t), unhx(f[8]))
		}
		// independent re-check of the accept decision on the real objects
		if got == "verified" {
			if ok && f[9] != "-" {
				sig, err := crypto.ParseSignature(unhx(f[9]))
				good := false
				if err == nil && len(tx.ID()) > 0 {
					if pk, err := sig.RecoverPublicKey(tx.ID()); err == nil {
						good = common.NewAccountAddressFromPublicKey(pk).String() == f[0] && strings.HasPrefix(f[0], "hx")
					}
				}
				o.Check(good, "unauthorized-transaction-verifies", "%s: Verify passed but recover(id, sig) is not from=%s: %s", c13Lab(t), f[0], unhx(t[1]))
			} else {
				o.Check(false, "unauthorized-transaction-verifies", "%s: Verify passed without signature: %s", c13Lab(t), unhx(t[1]))
			}
		}
		return got
	}
	return "bad-op"
}
