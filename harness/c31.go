//go:build c31 || all

package main

import (
	"bytes"
	"errors"
	"fmt"
	"io"
	"net"
	"strconv"
	"strings"
	"time"

	"github.com/icon-project/goloop/network"
)

// C31: the encrypted peer channel (network/secure.go).
//
// A case is one direction of a connection (writer SecureAead -> reader SecureAead)
// over a capturing net.Conn whose in-flight frames can be tampered with:
//   init <toy|chacha|aes128|aes256> <key>   toy = a trivial cipher.AEAD injected into the real SecureAead
//                                            (its wire bytes are compared with the model byte by byte)
//   w <hex>            SecureAead.Write            -> frames (toy: hex, real suites: lengths)
//   r <buflen>         SecureAead.Read(buf)        -> bytes | eof | auth | closed
//   fin <buflen>       Read until error            -> all bytes + status
//   tamper <pos> <xormask> | swap i j | drop i | dup i     on the in-flight frames
// stateless:
//   keys dA dB dfltA dfltB n XA YA XB YB    real secureKey.setup on both ends + NewSecureConn direction choice
//   conn <suite> s0 s1 lowerA lowerB        two real SecureConn ends, ping in both directions
//   pipe <suite> <key> <writeSize> <bufSize>  real SecureAead pair over net.Pipe

func init() {
	Register(&Prop{ID: "C31", Gen: c31Gen, New: func() Runner { return &c31Runner{} }})
}

// ---- toy AEAD (mirrors Goloop.C31.Toy in Model/C31.lean)

type c31Toy struct{ key []byte }

func (t c31Toy) NonceSize() int { return 12 }
func (t c31Toy) Overhead() int  { return 16 }
func (t c31Toy) ks(nonce []byte, i int) byte {
	var k byte
	if len(t.key) > 0 {
		k = t.key[i%len(t.key)]
	}
	var n byte
	if len(nonce) > 0 {
		n = nonce[len(nonce)-1]
	}
	return k + n
}
func (t c31Toy) tag(nonce, p []byte) []byte {
	acc := uint64(7)
	for _, s := range [][]byte{t.key, nonce, p} {
		for _, b := range s {
			acc = acc*31 + uint64(b)
		}
	}
	var r [16]byte
	for i := 0; i < 8; i++ {
		r[i] = byte(acc >> uint(56-8*i))
		r[8+i] = r[i]
	}
	return r[:]
}
func (t c31Toy) Seal(dst, nonce, plaintext, _ []byte) []byte {
	tag := t.tag(nonce, plaintext)
	out := dst
	for i, b := range plaintext {
		out = append(out, b+t.ks(nonce, i))
	}
	return append(out, tag...)
}
func (t c31Toy) Open(dst, nonce, ciphertext, _ []byte) ([]byte, error) {
	if len(ciphertext) < 16 {
		return nil, errors.New("toy: short")
	}
	body := ciphertext[:len(ciphertext)-16]
	p := make([]byte, len(body))
	for i, b := range body {
		p[i] = b - t.ks(nonce, i)
	}
	if !bytes.Equal(ciphertext[len(ciphertext)-16:], t.tag(nonce, p)) {
		return nil, errors.New("toy: authentication failed")
	}
	return append(dst, p...), nil
}

// ---- capturing connection

type c31Link struct {
	frames [][]byte // conn.Write calls not yet consumed
	plens  []int    // plaintext length carried by each frame (as written)
	popped int      // plaintext bytes of frames fully consumed
}

func (l *c31Link) size() int {
	n := 0
	for _, f := range l.frames {
		n += len(f)
	}
	return n
}

type c31Conn struct {
	in, out *c31Link
}

func (c *c31Conn) Read(p []byte) (int, error) {
	l := c.in
	for len(l.frames) > 0 && len(l.frames[0]) == 0 {
		l.popped += l.plens[0]
		l.frames, l.plens = l.frames[1:], l.plens[1:]
	}
	if len(l.frames) == 0 {
		return 0, io.EOF
	}
	n := copy(p, l.frames[0])
	l.frames[0] = l.frames[0][n:]
	if len(l.frames[0]) == 0 {
		l.popped += l.plens[0]
		l.frames, l.plens = l.frames[1:], l.plens[1:]
	}
	return n, nil
}
func (c *c31Conn) Write(p []byte) (int, error) {
	c.out.frames = append(c.out.frames, append([]byte{}, p...))
	pl := len(p) - 20
	if pl < 0 {
		pl = 0
	}
	c.out.plens = append(c.out.plens, pl)
	return len(p), nil
}
func (c *c31Conn) Close() error                       { return nil }
func (c *c31Conn) LocalAddr() net.Addr                { return nil }
func (c *c31Conn) RemoteAddr() net.Addr               { return nil }
func (c *c31Conn) SetDeadline(t time.Time) error      { return nil }
func (c *c31Conn) SetReadDeadline(t time.Time) error  { return nil }
func (c *c31Conn) SetWriteDeadline(t time.Time) error { return nil }

func c31Suite(s string) (byte, int, bool) {
	switch s {
	case "chacha":
		return 1, 32, true
	case "aes128":
		return 2, 16, true
	case "aes256":
		return 3, 32, true
	}
	return 0, 0, false
}

func c31NewPair(suite string, key []byte, wc, rc net.Conn) (w, r *network.SecureAead, ok bool) {
	if suite == "toy" {
		if len(key) == 0 {
			return nil, nil, false
		}
		return network.VerifC31NewAead(wc, c31Toy{key}), network.VerifC31NewAead(rc, c31Toy{key}), true
	}
	sa, kl, ok := c31Suite(suite)
	if !ok || len(key) != kl {
		return nil, nil, false
	}
	w, err1 := network.VerifC31NewSuiteAead(wc, sa, key)
	r, err2 := network.VerifC31NewSuiteAead(rc, sa, key)
	return w, r, err1 == nil && err2 == nil
}

func c31ErrName(err error) string {
	if err == io.EOF || err == io.ErrUnexpectedEOF {
		return "eof"
	}
	return "auth"
}

type c31Runner struct {
	active, real, closed bool
	w, r                 *network.SecureAead
	link                 *c31Link
	sent, recv           []byte
	rbuf                 []byte
	nframes              int // conn.Write calls of this session (frames sent in this direction)
	limit                int // -1: untampered; else max number of plaintext bytes that may still be delivered in total
}

const c31DropKey = "secure-read-short-buffer-drops-bytes"

func (c *c31Runner) setLimit(v int) {
	if c.limit < 0 || v < c.limit {
		c.limit = v
	}
}

func (c *c31Runner) plainBefore(i int) int {
	n := c.link.popped
	for k := 0; k < i && k < len(c.link.plens); k++ {
		n += c.link.plens[k]
	}
	return n
}

func (c *c31Runner) checkStream(o *Oracle, off int) {
	// incremental prefix check: the bytes appended since `off` continue the sent stream
	o.Check(len(c.recv) <= len(c.sent) && bytes.Equal(c.sent[off:len(c.recv)], c.recv[off:]), "secure-stream-not-prefix",
		"received %d bytes that are not a prefix of the %d bytes sent", len(c.recv), len(c.sent))
	if c.limit >= 0 {
		o.Check(len(c.recv) <= c.limit, "secure-tampered-stream-accepted",
			"%d plaintext bytes delivered although the stream was tampered with after %d", len(c.recv), c.limit)
	}
}

func (c *c31Runner) read(n int, o *Oracle) (string, bool) {
	// one caller-owned buffer reused for all reads of the session, scribbled over after each read:
	// nothing the reader keeps for later may alias it
	if cap(c.rbuf) < n {
		c.rbuf = make([]byte, n)
	}
	buf := c.rbuf[:n]
	defer func() {
		for i := range buf {
			buf[i] ^= 0x3c
		}
	}()
	m, err := c.r.Read(buf)
	if err != nil {
		c.closed = true
		o.Count("read-" + c31ErrName(err))
		return c31ErrName(err), false
	}
	o.Check(m <= n, c31DropKey, "Read(buf[%d]) returned n=%d: the rest of the frame is lost", n, m)
	if m > n {
		m = n
	}
	off := len(c.recv)
	c.recv = append(c.recv, buf[:m]...)
	c.checkStream(o, off)
	if n < 1024 {
		o.Count("read-small-buf")
	} else {
		o.Count("read-big-buf")
	}
	return hx(buf[:m]), true
}

func (c *c31Runner) Step(t []string, o *Oracle) string {
	if len(t) == 0 {
		return "bad-op"
	}
	switch t[0] {
	case "init":
		if len(t) != 3 {
			return "bad-op"
		}
		link := &c31Link{}
		w, r, ok := c31NewPair(t[1], unhx(t[2]), &c31Conn{out: link, in: &c31Link{}}, &c31Conn{in: link, out: &c31Link{}})
		if !ok {
			return "bad-op"
		}
		*c = c31Runner{active: true, real: t[1] != "toy", w: w, r: r, link: link, limit: -1}
		o.Count("init-" + t[1])
		return "ok"
	case "w":
		if len(t) != 2 || !c.active {
			return "bad-op"
		}
		data := unhx(t[1])
		k := len(c.link.frames)
		n, err := c.w.Write(data)
		if err != nil {
			return "err"
		}
		o.Check(n == len(data), "secure-write-short", "Write returned %d for %d bytes", n, len(data))
		switch {
		case len(data) >= 65536:
			o.Count("write-ge-65536")
		case len(data) == 65535:
			o.Count("write-65535")
		}
		c.sent = append(c.sent, data...)
		for i := range data { // the caller reuses its buffer after Write returned
			data[i] ^= 0xc3
		}
		fr := c.link.frames[k:]
		c.nframes += len(fr)
		for i := range fr {
			c.link.plens[k+i] = len(fr[i]) - 4 - c.w.VerifC31Overhead()
		}
		if len(fr) == 0 {
			return "none"
		}
		var s []string
		for _, f := range fr {
			if c.real {
				s = append(s, strconv.Itoa(len(f)))
			} else {
				s = append(s, hx(f))
			}
		}
		if len(fr) > 1 {
			o.Count("write-multi-frame")
		}
		return strings.Join(s, ",")
	case "r":
		if len(t) != 2 || !c.active {
			return "bad-op"
		}
		n, err := strconv.ParseUint(t[1], 10, 24)
		if err != nil {
			return "bad-op"
		}
		if c.closed {
			return "closed"
		}
		s, _ := c.read(int(n), o)
		return s
	case "fin":
		if len(t) != 2 || !c.active {
			return "bad-op"
		}
		n, err := strconv.ParseUint(t[1], 10, 24)
		if err != nil || n == 0 {
			return "bad-op"
		}
		if c.closed {
			return "closed"
		}
		switch {
		case c.nframes > 65536:
			o.Count("session-over-65536-frames")
		case c.nframes > 256:
			o.Count("session-over-256-frames")
		}
		start := len(c.recv)
		st := "stuck"
		for i := 0; i < len(c.sent)+c.link.size()+10; i++ {
			s, ok := c.read(int(n), o)
			if !ok {
				st = s
				break
			}
		}
		if c.limit < 0 && st == "eof" {
			o.Check(bytes.Equal(c.recv, c.sent), "secure-stream-not-faithful",
				"untampered stream: %d bytes sent, %d received before EOF (buffer %d)", len(c.sent), len(c.recv), n)
			o.Count("fin-faithful")
		} else {
			o.Count("fin-" + st)
		}
		o.Check(st != "stuck" && (c.limit >= 0 || st == "eof"), "secure-untampered-stream-rejected", "fin status %s", st)
		c.closed = true
		c.link.frames, c.link.plens = nil, nil
		return hx(c.recv[start:]) + " " + st
	case "tamper":
		if len(t) != 3 || !c.active {
			return "bad-op"
		}
		pos, e1 := strconv.ParseUint(t[1], 10, 31)
		nb, e2 := strconv.ParseUint(t[2], 10, 31)
		if e1 != nil || e2 != nil || nb > 255 || nb == 0 {
			return "bad-op"
		}
		p := int(pos)
		for i, f := range c.link.frames {
			if p < len(f) {
				f[p] ^= byte(nb) // xor mask: independent of the (unpredicted) ciphertext value
				if p == 2 || p == 3 {
					o.Count("tamper-header-pad")
				} else {
					c.setLimit(c.plainBefore(i))
					if p < 2 {
						o.Count("tamper-length")
					} else {
						o.Count("tamper-sealed")
					}
				}
				return "ok"
			}
			p -= len(f)
		}
		return "bad-op"
	case "swap":
		if len(t) != 3 || !c.active {
			return "bad-op"
		}
		i, e1 := strconv.ParseUint(t[1], 10, 31)
		j, e2 := strconv.ParseUint(t[2], 10, 31)
		fr := c.link.frames
		if e1 != nil || e2 != nil || int(i) >= len(fr) || int(j) >= len(fr) {
			return "bad-op"
		}
		if !bytes.Equal(fr[i], fr[j]) {
			m := int(i)
			if int(j) < m {
				m = int(j)
			}
			c.setLimit(c.plainBefore(m))
			o.Count("swap")
		}
		fr[i], fr[j] = fr[j], fr[i]
		c.link.plens[i], c.link.plens[j] = c.link.plens[j], c.link.plens[i]
		return "ok"
	case "drop":
		if len(t) != 2 || !c.active {
			return "bad-op"
		}
		i, e1 := strconv.ParseUint(t[1], 10, 31)
		if e1 != nil || int(i) >= len(c.link.frames) {
			return "bad-op"
		}
		c.setLimit(c.plainBefore(int(i)))
		c.link.frames = append(append([][]byte{}, c.link.frames[:i]...), c.link.frames[i+1:]...)
		c.link.plens = append(append([]int{}, c.link.plens[:i]...), c.link.plens[i+1:]...)
		o.Count("drop")
		return "ok"
	case "dup":
		if len(t) != 2 || !c.active {
			return "bad-op"
		}
		i, e1 := strconv.ParseUint(t[1], 10, 31)
		if e1 != nil || int(i) >= len(c.link.frames) {
			return "bad-op"
		}
		c.setLimit(c.plainBefore(int(i) + 1))
		fr := append([][]byte{}, c.link.frames[:i+1]...)
		fr = append(fr, append([]byte{}, c.link.frames[i]...))
		c.link.frames = append(fr, c.link.frames[i+1:]...)
		pl := append([]int{}, c.link.plens[:i+1]...)
		pl = append(pl, c.link.plens[i])
		c.link.plens = append(pl, c.link.plens[i+1:]...)
		o.Count("dup")
		return "ok"
	case "keys":
		return c31Keys(t, o)
	case "conn":
		return c31ConnOp(t, o)
	case "pipe":
		return c31Pipe(t, o)
	}
	return "bad-op"
}

func c31Bool(s string) (bool, bool) {
	switch s {
	case "true":
		return true, true
	case "false":
		return false, true
	}
	return false, false
}

func c31Keys(t []string, o *Oracle) string {
	if len(t) != 10 {
		return "bad-op"
	}
	dfA, ok1 := c31Bool(t[3])
	dfB, ok2 := c31Bool(t[4])
	n, err := strconv.ParseUint(t[5], 10, 8)
	if !ok1 || !ok2 || err != nil {
		return "bad-op"
	}
	kA := network.VerifC31KeyFromD(unhx(t[1]))
	kB := network.VerifC31KeyFromD(unhx(t[2]))
	xa, ya := kA.XY()
	xb, yb := kB.XY()
	if xa.Text(16) != strings.TrimLeft(t[6], "0") || ya.Text(16) != strings.TrimLeft(t[7], "0") ||
		xb.Text(16) != strings.TrimLeft(t[8], "0") || yb.Text(16) != strings.TrimLeft(t[9], "0") {
		return "bad-op"
	}
	if kA.Setup(1, kB.Public(), dfA, int(n)) != nil || kB.Setup(1, kA.Public(), dfB, int(n)) != nil {
		return "err"
	}
	sA, sB := kA.Secrets(), kB.Secrets()
	same := len(sA) == len(sB) && bytes.Equal(kA.Extra(), kB.Extra())
	for i := 0; same && i < len(sA); i++ {
		same = bytes.Equal(sA[i], sB[i])
	}
	o.Check(same, "ecdh-secrets-differ", "the two ends derived different secrets")
	if n >= 2 {
		o.Check(!bytes.Equal(sA[0], sA[1]), "direction-keys-equal", "secret[0] == secret[1]")
	}
	idx := func(k *network.VerifC31Key) (string, []byte, []byte) {
		c, err := k.NewSecureConn(&c31Conn{in: &c31Link{}, out: &c31Link{}}, 1)
		if err != nil {
			return "nosecret", nil, nil
		}
		in, out := network.VerifC31ConnSecrets(c)
		f := func(s []byte) int {
			for i, x := range k.Secrets() {
				if bytes.Equal(x, s) {
					return i
				}
			}
			return 9
		}
		return fmt.Sprintf("%d%d", f(in), f(out)), in, out
	}
	ia, inA, outA := idx(kA)
	ib, inB, outB := idx(kB)
	distinct := xa.Cmp(xb) != 0 || ya.Cmp(yb) != 0 || dfA != dfB
	if distinct && n >= 1 {
		o.Check(bytes.Equal(inA, outB) && bytes.Equal(outA, inB), "direction-keys-mismatch",
			"A(in,out)=%s B(in,out)=%s: one end's write key is not the other's read key", ia, ib)
		if n >= 2 {
			o.Check(!bytes.Equal(inA, outA), "direction-keys-not-separate", "both directions use the same key")
		}
		o.Count("keys-distinct")
	} else {
		o.Count("keys-degenerate")
	}
	return fmt.Sprintf("%v %v %s %s", kA.IsLower(), kB.IsLower(), ia, ib)
}

func c31ConnOp(t []string, o *Oracle) string {
	if len(t) != 6 {
		return "bad-op"
	}
	sa, kl, ok := c31Suite(t[1])
	lA, ok1 := c31Bool(t[4])
	lB, ok2 := c31Bool(t[5])
	if !ok || !ok1 || !ok2 {
		return "bad-op"
	}
	secrets := [][]byte{unhx(t[2])}
	if t[3] != "-" {
		secrets = append(secrets, unhx(t[3]))
	}
	for _, s := range secrets {
		if len(s) != kl {
			return "bad-op"
		}
	}
	ab, ba := &c31Link{}, &c31Link{}
	cA, err1 := network.VerifC31KeyFromSecrets(secrets, lA).NewSecureConn(&c31Conn{out: ab, in: ba}, sa)
	cB, err2 := network.VerifC31KeyFromSecrets(secrets, lB).NewSecureConn(&c31Conn{out: ba, in: ab}, sa)
	if err1 != nil || err2 != nil {
		return "err"
	}
	ping := func(x, y *network.SecureConn) string {
		if _, err := x.Write([]byte("ping")); err != nil {
			return "err"
		}
		buf := make([]byte, 16)
		n, err := y.Read(buf)
		if err != nil {
			return c31ErrName(err)
		}
		if n == 4 && string(buf[:4]) == "ping" {
			return "ok"
		}
		return "garbled"
	}
	r1, r2 := ping(cA, cB), ping(cB, cA)
	if lA != lB || len(secrets) == 1 {
		o.Check(r1 == "ok" && r2 == "ok", "direction-keys-mismatch", "ends with opposite isLower cannot talk: ab=%s ba=%s", r1, r2)
		o.Count("conn-matching")
	} else {
		o.Check(bytes.Equal(secrets[0], secrets[1]) || (r1 == "auth" && r2 == "auth"), "wrong-key-accepted", "ab=%s ba=%s", r1, r2)
		o.Count("conn-misconfigured")
	}
	return "ab=" + r1 + " ba=" + r2
}

func c31Pattern(n int) []byte {
	b := make([]byte, n)
	for i := range b {
		b[i] = byte(i*7 + i/251)
	}
	return b
}

func c31Pipe(t []string, o *Oracle) string {
	if len(t) != 5 {
		return "bad-op"
	}
	wsz, e1 := strconv.ParseUint(t[3], 10, 24)
	bsz, e2 := strconv.ParseUint(t[4], 10, 24)
	if e1 != nil || e2 != nil || bsz == 0 || t[1] == "toy" {
		return "bad-op"
	}
	c1, c2 := net.Pipe()
	defer c2.Close()
	w, r, ok := c31NewPair(t[1], unhx(t[2]), c1, c2)
	if !ok {
		c1.Close()
		return "bad-op"
	}
	data := c31Pattern(int(wsz))
	go func() {
		w.Write(data)
		c1.Close()
	}()
	var got []byte
	buf := make([]byte, bsz)
	st := ""
	for {
		c2.SetReadDeadline(time.Now().Add(5 * time.Second))
		n, err := r.Read(buf)
		if err != nil {
			st = c31ErrName(err)
			break
		}
		o.Check(n <= len(buf), c31DropKey, "net.Pipe: Read(buf[%d]) returned n=%d: the rest of the frame is lost", len(buf), n)
		if n > len(buf) {
			n = len(buf)
		}
		got = append(got, buf[:n]...)
	}
	o.Check(bytes.Equal(got, data) && st == "eof", "secure-stream-not-faithful",
		"net.Pipe %s: wrote %d bytes, read %d with %d-byte buffers, status %s", t[1], len(data), len(got), bsz, st)
	o.Count("pipe")
	if wsz >= 65536 {
		o.Count("pipe-write-ge-65536")
	}
	if !bytes.Equal(got, data) {
		return fmt.Sprintf("differs %d", len(got))
	}
	return fmt.Sprintf("ok %d", len(got))
}

// ---------------------------------------------------------------- generator

func c31GenKey(g *Gen) (string, []byte) {
	switch g.Intn(7) {
	case 0:
		return "chacha", g.Bytes(32)
	case 1:
		return "aes128", g.Bytes(16)
	case 2:
		return "aes256", g.Bytes(32)
	default:
		return "toy", g.Bytes(g.Pick(1, 16, 32))
	}
}

func c31WriteSize(g *Gen) int {
	if g.Intn(150) == 0 {
		return g.Pick(65535, 65536, 65537, 131072, 65536+g.Intn(70000))
	}
	return g.Pick(0, 1, 2, 5, 100, 1023, 1024, 1025, 2047, 2048, 2049, 3000, g.Intn(64), g.Intn(64), g.Intn(1500))
}

func c31BufSize(g *Gen) int {
	return g.Pick(1, 1, 2, 3, 7, 100, 512, 1023, 1024, 1025, 4096, 1+g.Intn(40), 1+g.Intn(1100), 0)
}

// c31BigSession: one single Write at/over the uint16 limit of the frame length
// header (the code cuts at secureConnFrameSize = 1024, far below it).
func c31BigSession(g *Gen, n int) {
	g.Emit("reset")
	suite, key := c31GenKey(g)
	g.Emit("init %s %s", suite, hx(key))
	g.Emit("w %s", hx(g.Bytes(n)))
	if g.Intn(2) == 0 {
		g.Emit("r %d", c31BufSize(g))
	}
	g.Emit("fin %d", g.Pick(512, 1024, 4096, 70000, 1+g.Intn(2000)))
}

// c31LongSessions: more than 256 (thorough: more than 65536) frames in ONE direction on ONE
// connection, so that the nonce counter carries into its second (third) byte on both ends.
func c31LongSessions(g *Gen) {
	suites := []string{"toy", []string{"chacha", "aes128", "aes256"}[g.Intn(3)]}
	for _, suite := range suites {
		// one Write of 300+ frames
		_, kl, _ := c31Suite(suite)
		if suite == "toy" {
			kl = 16
		}
		g.Emit("reset")
		g.Emit("init %s %s", suite, hx(g.Bytes(kl)))
		g.Emit("w %s", hx(g.Bytes(300*1024+g.Intn(40*1024))))
		g.Emit("r %d", c31BufSize(g))
		g.Emit("fin %d", g.Pick(1024, 4096, 70000, 1000+g.Intn(3000)))
	}
	// 300+ small writes, reads interleaved
	suite, key := c31GenKey(g)
	g.Emit("reset")
	g.Emit("init %s %s", suite, hx(key))
	n := 300 + g.Intn(60)
	for k := 0; k < n; k++ {
		g.Emit("w %s", hx(g.Bytes(1+g.Intn(5))))
		if g.Intn(3) == 0 {
			g.Emit("r %d", g.Pick(1, 2, 16))
		}
	}
	g.Emit("fin %d", g.Pick(3, 64, 4096))
	g.Emit("reset")
	g.Emit("pipe %s %s %d %d", "aes256", hx(g.Bytes(32)), 300*1024+g.Intn(5000), g.Pick(1024, 4096, 70000))
	if g.Tier == "thorough" {
		// 70 000 one-frame writes, each drained at once (keeps the in-flight queue short)
		suite, key := c31GenKey(g)
		g.Emit("reset")
		g.Emit("init %s %s", suite, hx(key))
		for k := 0; k < 70000; k++ {
			g.Emit("w %s", hx(g.Bytes(1+g.Intn(2))))
			g.Emit("r %d", g.Pick(2, 4, 16))
		}
		g.Emit("fin 16")
	}
}

func c31Gen(g *Gen) {
	c31LongSessions(g)
	// every run (quick included): single writes of 65535 / >= 65536 bytes, also over net.Pipe
	c31BigSession(g, 65535)
	c31BigSession(g, g.Pick(65536, 65537, 131072, 65536+g.Intn(70000)))
	g.Emit("reset")
	g.Emit("pipe %s %s %d %d", "chacha", hx(g.Bytes(32)), g.Pick(65536, 65537, 131072), g.Pick(1000, 4096, 70000))
	for i := 0; i < g.N; i++ {
		g.Emit("reset")
		switch r := g.Intn(100); {
		case r < 72:
			suite, key := c31GenKey(g)
			g.Emit("init %s %s", suite, hx(key))
			tamperAt := -1
			nops := 2 + g.Intn(10)
			if g.Intn(100) < 40 {
				tamperAt = g.Intn(nops)
			}
			frames := 0 // rough count of frames in flight (upper bound), for indices
			wire := 0
			for k := 0; k < nops; k++ {
				if k == tamperAt && frames > 0 {
					switch g.Intn(8) {
					case 0, 1, 2, 3:
						pos := g.Intn(wire + 1)
						if g.Intn(3) == 0 {
							pos = g.Pick(0, 1, 2, 3, 4, 5)
						}
						g.Emit("tamper %d %d", pos, 1+g.Intn(255))
					case 4, 5:
						g.Emit("swap %d %d", g.Intn(frames), g.Intn(frames))
					case 6:
						g.Emit("drop %d", g.Intn(frames))
					default:
						g.Emit("dup %d", g.Intn(frames))
					}
					continue
				}
				if g.Intn(5) < 3 {
					n := c31WriteSize(g)
					g.Emit("w %s", hx(g.Bytes(n)))
					frames += (n + 1023) / 1024
					wire += n + 20*((n+1023)/1024)
				} else {
					g.Emit("r %d", c31BufSize(g))
				}
			}
			b := c31BufSize(g)
			if b == 0 {
				b = 1
			}
			g.Emit("fin %d", b)
		case r < 82:
			dA, dB := g.Bytes(31), g.Bytes(31)
			dA[30] |= 1
			dB[30] |= 1
			dfA := g.Intn(2) == 0
			dfB := !dfA
			switch g.Intn(6) {
			case 0:
				dB = dA
			case 1:
				dB = dA
				dfB = dfA
			case 2:
				// tiny scalars: small multiples of the base point
				dA = []byte{byte(1 + g.Intn(5))}
				dB = []byte{byte(1 + g.Intn(5))}
			}
			xa, ya := network.VerifC31KeyFromD(dA).XY()
			xb, yb := network.VerifC31KeyFromD(dB).XY()
			g.Emit("keys %s %s %v %v %d %s %s %s %s", hx(dA), hx(dB), dfA, dfB, g.Pick(2, 2, 2, 1, 0, 3),
				xa.Text(16), ya.Text(16), xb.Text(16), yb.Text(16))
		case r < 90:
			suite := []string{"chacha", "aes128", "aes256"}[g.Intn(3)]
			_, kl, _ := c31Suite(suite)
			s0, s1 := hx(g.Bytes(kl)), hx(g.Bytes(kl))
			if g.Intn(5) == 0 {
				s1 = "-"
			}
			lA := g.Intn(2) == 0
			lB := !lA
			if g.Intn(4) == 0 {
				lB = lA
			}
			g.Emit("conn %s %s %s %v %v", suite, s0, s1, lA, lB)
		default:
			suite := []string{"chacha", "aes128", "aes256"}[g.Intn(3)]
			_, kl, _ := c31Suite(suite)
			b := c31BufSize(g)
			if b == 0 {
				b = 1
			}
			g.Emit("pipe %s %s %d %d", suite, hx(g.Bytes(kl)), c31WriteSize(g), b)
		}
	}
}
