// Command harness drives the real goloop code (built from /repo's working
// tree with -tags verif) for the correspondence checks of /verif.
//
//	harness <prop> gen   -seed N -n N -tier quick|thorough -ops FILE
//	harness <prop> impl  -ops FILE -out FILE -oracle FILE
//
// gen writes one operation per line; impl runs the real code on the same
// lines, writes one canonical output line per op, and writes the verdict of
// the property oracle (evaluated on the implementation) to the oracle file.
package main

import (
	"bufio"
	"encoding/json"
	"flag"
	"fmt"
	"os"
	"sort"
	"strings"
)

type Prop struct {
	ID string
	// Gen writes operation lines for the given seed/size.
	Gen func(g *Gen)
	// New returns a fresh implementation runner; Step is called per line.
	New func() Runner
}

// Runner executes one op line on the real code and returns the canonical
// output line. Oracle failures are reported through Fail.
type Runner interface {
	Step(toks []string, o *Oracle) string
}

type Oracle struct {
	Fails   []OracleFail
	Checks  int
	Stats   map[string]int
	lineNo  int
	curLine string
}

type OracleFail struct {
	Line int    `json:"line"`
	Op   string `json:"op"`
	What string `json:"what"`
	Key  string `json:"key"`
}

// Check records one evaluation of the property predicate on the
// implementation; ok=false is a property failure on the real code.
func (o *Oracle) Check(ok bool, key, what string, args ...interface{}) {
	o.Checks++
	if !ok {
		o.Fails = append(o.Fails, OracleFail{Line: o.lineNo, Op: o.curLine, Key: key, What: fmt.Sprintf(what, args...)})
	}
}

func (o *Oracle) Count(k string) {
	if o.Stats == nil {
		o.Stats = map[string]int{}
	}
	o.Stats[k]++
}

var props = map[string]*Prop{}

func Register(p *Prop) { props[p.ID] = p }

func main() {
	if len(os.Args) < 3 {
		ids := []string{}
		for k := range props {
			ids = append(ids, k)
		}
		sort.Strings(ids)
		fmt.Fprintln(os.Stderr, "usage: harness <prop> gen|impl ...; props:", strings.Join(ids, " "))
		os.Exit(2)
	}
	p, ok := props[os.Args[1]]
	if !ok {
		fmt.Fprintln(os.Stderr, "unknown property", os.Args[1])
		os.Exit(2)
	}
	fs := flag.NewFlagSet("harness", flag.ExitOnError)
	seed := fs.Int64("seed", 1, "PRNG seed")
	n := fs.Int("n", 1000, "number of cases")
	tier := fs.String("tier", "quick", "quick|thorough")
	ops := fs.String("ops", "", "ops file")
	out := fs.String("out", "", "impl output file")
	orc := fs.String("oracle", "", "oracle report file (json)")
	fs.Parse(os.Args[3:])
	switch os.Args[2] {
	case "gen":
		f, err := os.Create(*ops)
		if err != nil {
			panic(err)
		}
		w := bufio.NewWriterSize(f, 1<<20)
		g := NewGen(*seed, *n, *tier, w)
		p.Gen(g)
		w.Flush()
		f.Close()
	case "impl":
		runImpl(p, *ops, *out, *orc)
	default:
		fmt.Fprintln(os.Stderr, "unknown mode", os.Args[2])
		os.Exit(2)
	}
}

func safeStep(r Runner, toks []string, o *Oracle) (res string) {
	defer func() {
		if e := recover(); e != nil {
			res = "panic"
			o.Count("panic")
			if os.Getenv("VERIF_DEBUG") != "" {
				fmt.Fprintf(os.Stderr, "panic at line %d: %v\n", o.lineNo, e)
			}
		}
	}()
	return r.Step(toks, o)
}

func runImpl(p *Prop, opsFile, outFile, orcFile string) {
	in, err := os.Open(opsFile)
	if err != nil {
		panic(err)
	}
	defer in.Close()
	of, err := os.Create(outFile)
	if err != nil {
		panic(err)
	}
	w := bufio.NewWriterSize(of, 1<<20)
	sc := bufio.NewScanner(in)
	sc.Buffer(make([]byte, 1<<20), 1<<28)
	o := &Oracle{Stats: map[string]int{}}
	r := p.New()
	for sc.Scan() {
		o.lineNo++
		line := sc.Text()
		o.curLine = line
		toks := strings.Fields(line)
		if len(toks) > 0 && toks[0] == "reset" {
			r = p.New()
			fmt.Fprintln(w, "ok")
			continue
		}
		fmt.Fprintln(w, safeStep(r, toks, o))
	}
	w.Flush()
	of.Close()
	rep := map[string]interface{}{
		"checks": o.Checks,
		"fails":  o.Fails,
		"stats":  o.Stats,
		"lines":  o.lineNo,
	}
	if len(o.Fails) > 50 {
		rep["fails"] = o.Fails[:50]
		rep["fails_total"] = len(o.Fails)
	}
	bs, _ := json.MarshalIndent(rep, "", " ")
	os.WriteFile(orcFile, bs, 0644)
}
