//go:build c25 || all

package main

import (
	"bytes"
	stdlzw "compress/lzw"
	"fmt"
	"io"

	"github.com/icon-project/goloop/common"
)

func init() {
	Register(&Prop{ID: "C25", Gen: c25Gen, New: func() Runner { return &c25Runner{} }})
}

// c25ResetPoint returns the smallest n such that compressing data[:n] makes
// the writer run out of codes inside Close (the savedCode written by Close is
// the 3838th code of the segment, so the clear code directly precedes eof),
// or 0 if data is too short. Phrase counting only, map based.
func c25ResetPoint(data []byte) int {
	if len(data) == 0 {
		return 0
	}
	tbl := map[uint32]uint32{}
	hi := uint32(257)
	code := uint32(data[0])
	for i := 1; i < len(data); i++ {
		key := code<<8 | uint32(data[i])
		if v, ok := tbl[key]; ok {
			code = v
			continue
		}
		code = uint32(data[i])
		hi++
		if hi == 4094 {
			// the next emission (at Close) makes hi == 4095
			return i + 1
		}
		tbl[key] = hi
	}
	return 0
}

// c25RefEncode is an independent, map based encoder of the legacy format
// (GIF/PDF style LZW, MSB first, 8 bit literals, codes 9..12 bits, first
// dictionary code 258, NO leading clear code, clear code sent when code 4094
// has been assigned, eof at the end). Written from the format description,
// not from common/lzw.
func c25RefEncode(data []byte) []byte {
	if len(data) == 0 {
		return []byte{}
	}
	p := &c25Packer{}
	dict := map[string]uint{}
	next, width := uint(258), uint(9)
	emit := func(code uint) {
		p.put(code, width)
		// the decoder will have assigned `next` after this code
		if next == 4095 {
			p.put(256, 12)
			dict = map[string]uint{}
			next, width = 258, 9
			return
		}
		if next == 1<<width {
			width++
		}
		next++
	}
	codeOf := func(w []byte) uint {
		if len(w) == 1 {
			return uint(w[0])
		}
		return dict[string(w)]
	}
	w := []byte{data[0]}
	for _, x := range data[1:] {
		wx := append(append([]byte{}, w...), x)
		if _, ok := dict[string(wx)]; ok {
			w = wx
			continue
		}
		c := codeOf(w)
		full := next == 4095
		if !full {
			dict[string(wx)] = next
		}
		emit(c)
		w = []byte{x}
	}
	emit(codeOf(w))
	p.put(257, width)
	return p.done()
}

// c25FlushAlign walks the code stream the legacy encoder produces for data and
// follows two pieces of reader state: the pending output (handed to Read and
// reset whenever it reaches flushBuffer = 4096 bytes after a code) and the
// number k of codes since start / the last clear code (the code width grows
// after code 255, 767 and 1791). It reports how many flushes fall exactly on a
// width-growth code (hits) and how many fall on a neighbouring code (near),
// plus the number of flushes. Phrase lengths only, map based.
func c25FlushAlign(data []byte) (hits, near, flushes int) {
	if len(data) == 0 {
		return
	}
	tbl := map[uint32]uint32{}
	plen := map[uint32]int{}
	hi := uint32(257)
	k, o := 0, 0
	grow := func(k int) bool { return k == 255 || k == 767 || k == 1791 }
	emit := func(code uint32) {
		l := 1
		if code >= 256 {
			l = plen[code]
		}
		k++
		o += l
		if o >= 4096 {
			flushes++
			if grow(k) {
				hits++
			} else if grow(k-1) || grow(k+1) {
				near++
			}
			o = 0
		}
	}
	code := uint32(data[0])
	for i := 1; i < len(data); i++ {
		key := code<<8 | uint32(data[i])
		if v, ok := tbl[key]; ok {
			code = v
			continue
		}
		emit(code)
		l := 1
		if code >= 256 {
			l = plen[code]
		}
		code = uint32(data[i])
		hi++
		if hi == 4095 {
			tbl = map[uint32]uint32{}
			plen = map[uint32]int{}
			hi, k = 257, 0
			continue
		}
		tbl[key] = hi
		plen[hi] = l + 1
	}
	emit(code)
	return
}

// c25Family builds structured inputs whose code streams have long phrases, so
// that the reader's 4096 byte output flush can be steered onto a chosen code
// index by one parameter (prm).
//
//	0: prm distinct literals, then a long run of one byte
//	1: prm random bytes, then runs of a few bytes
//	2: prm random bytes, then a pattern of period p repeated
//	3: a run, prm distinct literals, another long run (flush inside the second segment of output)
func c25Family(fam, prm int, seedBytes []byte, runByte byte, period, total int) []byte {
	var b []byte
	switch fam {
	case 0:
		for i := 0; i < prm; i++ {
			b = append(b, byte(int(seedBytes[0])+i))
		}
	case 1, 2:
		for i := 0; i < prm; i++ {
			b = append(b, seedBytes[i%len(seedBytes)]^byte(i/len(seedBytes)*37))
		}
	default:
		b = append(b, bytes.Repeat([]byte{runByte ^ 0x55}, 4096+int(seedBytes[1]))...)
		for i := 0; i < prm; i++ {
			b = append(b, byte(int(seedBytes[0])+i))
		}
	}
	for len(b) < total {
		switch fam {
		case 1:
			n := 1500 + int(seedBytes[len(b)%len(seedBytes)])*8
			b = append(b, bytes.Repeat([]byte{runByte + byte(len(b)%3)}, n)...)
		case 2:
			b = append(b, seedBytes[:period]...)
		default:
			b = append(b, runByte)
		}
	}
	return b[:total]
}

// c25Aligned searches a family parameter such that a reader flush coincides
// with a width-growth code (or, when wantNear, is next to one).
func c25Aligned(g *Gen, max int) []byte {
	fam := g.Intn(4)
	target := g.Pick(255, 255, 767, 1791)
	seedBytes := g.Bytes(2048)
	runByte := byte(g.Intn(256))
	period := 1 + g.Intn(9)
	total := 4300 + g.Intn(max-4300+1)
	if fam == 3 {
		total += 4400
	}
	lo, hi := target-150, target+12
	if fam == 0 || fam == 3 {
		lo, hi = 0, 255
	}
	if lo < 0 {
		lo = 0
	}
	start := lo + g.Intn(hi-lo+1)
	var best []byte
	for d := 0; d <= hi-lo; d++ {
		prm := lo + (start-lo+d)%(hi-lo+1)
		b := c25Family(fam, prm, seedBytes, runByte, period, total+prm)
		hits, near, _ := c25FlushAlign(b)
		if hits > 0 {
			return b
		}
		if near > 0 && best == nil {
			best = b
		}
	}
	if best != nil {
		return best
	}
	return c25Family(fam, start, seedBytes, runByte, period, total)
}

func c25Sparse(g *Gen, n, ones int) []byte {
	b := make([]byte, n)
	for i := 0; i < ones && n > 0; i++ {
		k := g.Intn(n * 8)
		b[k/8] |= 1 << uint(k%8)
	}
	return b
}

func c25Size(g *Gen, max int) int {
	switch g.Intn(6) {
	case 0:
		return g.Pick(0, 1, 1, 2, 3, 55, 56, 127, 128, 255, 256, 257, 258, 511, 512, 513)
	case 1:
		return g.Intn(64)
	case 2:
		return g.Intn(600)
	default:
		return g.Intn(max + 1)
	}
}

func c25Input(g *Gen, max int) []byte {
	switch g.Intn(10) {
	case 0, 1:
		// bloom like: big.Int.Bytes() of a 2048 bit value with few bits set
		b := c25Sparse(g, 256, g.Pick(0, 1, 3, 6, 9, 30, 90, 300))
		for len(b) > 0 && b[0] == 0 {
			b = b[1:]
		}
		return b
	case 2:
		// sparse, any size
		n := c25Size(g, max)
		return c25Sparse(g, n, g.Intn(n/16+2))
	case 3:
		// one byte repeated (KwKwK on every code)
		n := c25Size(g, max)
		return bytes.Repeat([]byte{byte(g.Intn(256))}, n)
	case 4:
		// short period
		n := c25Size(g, max)
		p := g.Bytes(1 + g.Intn(5))
		return bytes.Repeat(p, n/len(p)+1)[:n]
	case 5:
		// small alphabet
		n := c25Size(g, max)
		k := 2 + g.Intn(3)
		b := make([]byte, n)
		al := g.Bytes(k)
		for i := range b {
			b[i] = al[g.Intn(k)]
		}
		return b
	case 6, 7:
		// random; long ones fill the dictionary and force the clear code
		n := c25Size(g, max)
		if g.Intn(2) == 0 {
			n = max - g.Intn(max/4+1)
		}
		return g.Bytes(n)
	case 8:
		// exactly around the point where the table fills inside Close
		b := g.Bytes(max)
		if g.Intn(2) == 0 {
			for i := range b {
				b[i] &= byte(g.Pick(0x0f, 0x3f, 0x7f))
			}
		}
		n := c25ResetPoint(b)
		if n == 0 {
			return b
		}
		n += g.Intn(7) - 3
		if n < 0 {
			n = 0
		}
		if n > len(b) {
			n = len(b)
		}
		return b[:n]
	default:
		// random followed by repetition (long phrases after a reset)
		n := c25Size(g, max)
		b := g.Bytes(n)
		if n > 8 {
			k := g.Intn(n)
			copy(b[k:], bytes.Repeat(b[:1+g.Intn(7)], n)[:n-k])
		}
		return b
	}
}

// c25Pack packs (code,width) pairs MSB first.
type c25Packer struct {
	out  []byte
	bits uint64
	n    uint
}

func (p *c25Packer) put(code, width uint) {
	p.bits = p.bits<<width | uint64(code&(1<<width-1))
	p.n += width
	for p.n >= 8 {
		p.out = append(p.out, byte(p.bits>>(p.n-8)))
		p.n -= 8
	}
}
func (p *c25Packer) done() []byte {
	if p.n > 0 {
		p.out = append(p.out, byte(p.bits<<(8-p.n)))
		p.n = 0
	}
	return p.out
}

// c25CraftStream writes a code stream following the reader's width rule, with
// mostly acceptable codes; no clear code unless chosen, so long streams reach
// the reader's "table full, width 12" state.
func c25CraftStream(g *Gen, ncodes int) []byte {
	p := &c25Packer{}
	hi, width, overflow := uint(257), uint(9), uint(512)
	last := false
	for i := 0; i < ncodes; i++ {
		var code uint
		switch r := g.Intn(100); {
		case r < 40:
			code = uint(g.Intn(256))
		case r < 75:
			if hi > 258 {
				code = 258 + uint(g.Intn(int(hi-258)))
			} else {
				code = uint(g.Intn(256))
			}
		case r < 90:
			code = hi // KwKwK (or eof right after a clear)
		case r < 93:
			if hi > 300 {
				code = hi - uint(g.Intn(3))
			} else {
				code = uint(g.Intn(256))
			}
		case r < 94:
			code = 256
		case r < 95 && i > ncodes/2:
			code = 257
		case r < 96 && i > ncodes/2:
			code = hi + 1 + uint(g.Intn(3)) // invalid
		default:
			code = uint(g.Intn(256))
		}
		p.put(code, width)
		switch {
		case code == 256:
			hi, width, overflow, last = 257, 9, 512, false
			continue
		case code == 257 || code > hi:
			// reader stops here; append some garbage
			for j := 0; j < g.Intn(4); j++ {
				p.put(uint(g.Intn(512)), 9)
			}
			return p.done()
		}
		last = true
		hi++
		if hi >= overflow {
			if width == 12 {
				last = false
				hi--
			} else {
				width++
				overflow = 1 << width
			}
		}
	}
	_ = last
	if g.Intn(3) > 0 {
		p.put(257, width)
	}
	return p.done()
}

func c25Gen(g *Gen) {
	max := 8192
	if g.Tier == "thorough" {
		max = 12288
	}
	if g.Tier == "thorough" {
		// sweeps: every number of leading distinct literals before a long run, and
		// periodic patterns, at sizes that cross several flushes (4..40 KiB)
		runByte := byte(g.Intn(256))
		sb := g.Bytes(2048)
		for L := 0; L <= 255; L++ {
			g.Emit("c %s", hx(c25Family(0, L, sb, runByte, 1, L+4200+g.Intn(400))))
		}
		for L := 0; L <= 255; L += 5 {
			g.Emit("c %s", hx(c25Family(3, L, sb, runByte, 1, L+8800+g.Intn(400))))
		}
		for p := 1; p <= 12; p++ {
			g.Emit("c %s", hx(c25Family(2, g.Intn(300), sb, runByte, p, 20000+g.Intn(20000))))
		}
	}
	for i := 0; i < g.N; i++ {
		switch g.Intn(11) {
		case 10:
			// long inputs steered so that the reader's output flush (every 4096
			// bytes) falls on / next to a code where the code width grows
			g.Emit("c %s", hx(c25Aligned(g, max)))
		case 0, 1, 2, 3, 4, 5:
			g.Emit("c %s", hx(c25Input(g, max)))
		case 6:
			// mutated valid stream
			z := common.Compress(c25Input(g, max/4))
			z = append([]byte{}, z...)
			if len(z) > 0 {
				switch g.Intn(4) {
				case 0:
					z = z[:g.Intn(len(z))]
				case 1:
					k := g.Intn(len(z) * 8)
					z[k/8] ^= 0x80 >> uint(k%8)
				case 2:
					z = append(z, g.Bytes(g.Intn(4))...)
				default:
					k := g.Intn(len(z))
					z[k] = byte(g.Intn(256))
				}
			}
			g.Emit("d %s", hx(z))
		case 7:
			g.Emit("d %s", hx(g.Bytes(c25Size(g, 300))))
		case 8:
			n := g.Intn(300)
			if g.Intn(4) == 0 {
				n = 3800 + g.Intn(600) // reaches hi == 4095 without a clear
			}
			g.Emit("d %s", hx(c25CraftStream(g, n)))
		default:
			// valid stream, decompressed by both sides
			g.Emit("d %s", hx(common.Compress(c25Input(g, max/2))))
		}
	}
}

// c25Held is a result of Compress or Decompress that the caller keeps (block
// headers and receipts keep compressed blooms) while later calls happen.
type c25Held struct {
	got  []byte // the slice exactly as returned
	cp   []byte // copy taken at that moment
	x    []byte // for Compress results: the input (nil for Decompress results)
	what string
}

const c25MaxHeld = 8

type c25Runner struct {
	held []c25Held
	n    int
}

func (r *c25Runner) hold(got, x []byte, what string) {
	h := c25Held{got: got, cp: append([]byte{}, got...), x: x, what: fmt.Sprintf("%s of op %d", what, r.n)}
	if len(r.held) >= c25MaxHeld {
		copy(r.held, r.held[1:])
		r.held = r.held[:len(r.held)-1]
	}
	r.held = append(r.held, h)
}

// verifyHeld: earlier results must be unchanged by later calls, and a held
// compressed form must still decompress to its input.
func (r *c25Runner) verifyHeld(o *Oracle) {
	for i := range r.held {
		h := &r.held[i]
		o.Check(bytes.Equal(h.got, h.cp), "held-result-changed", "%s changed while held (len %d): now %s, was %s", h.what, len(h.cp), c25Short(h.got), c25Short(h.cp))
		if h.x != nil {
			o.Check(bytes.Equal(common.Decompress(h.got), h.x), "held-compressed-roundtrip", "%s no longer decompresses to its input %s", h.what, c25Short(h.x))
		}
	}
}

func (r *c25Runner) Step(t []string, o *Oracle) string {
	r.n++
	res := r.step(t, o)
	r.verifyHeld(o)
	return res
}

// c25FirstCode returns the first 9 bit code of a stream.
func c25FirstCode(z []byte) int {
	if len(z) < 2 {
		return -1
	}
	return int(z[0])<<1 | int(z[1])>>7
}

func (r *c25Runner) step(t []string, o *Oracle) string {
	if len(t) != 2 {
		return "bad-op"
	}
	switch t[0] {
	case "c":
		x := unhx(t[1])
		z := common.Compress(x)
		if len(x) > 0 {
			r.hold(z, x, "Compress result")
		}
		back := common.Decompress(z)
		r.hold(back, nil, "Decompress result")
		rt := bytes.Equal(back, x)
		o.Check(rt, "compress-roundtrip", "Decompress(Compress(x)) != x for len %d input %s", len(x), c25Short(x))
		first := "none"
		if len(x) == 0 {
			o.Check(len(z) == 0, "compress-empty", "Compress(empty) = %x", z)
			o.Count("c-empty")
		} else {
			fc := c25FirstCode(z)
			first = fmt.Sprint(fc)
			o.Check(fc == int(x[0]), "first-code-literal", "first code of Compress(x) is %d, want the literal %d (256 would be a leading clear code)", fc, x[0])
			if string(x) == "TOBEORNOTTOBEORTOBEORNOT" {
				// published vector of the format (also the MSB/8 vector of Go's compress/lzw reader tests)
				kat := []byte("\x2a\x13\xc8\x44\x52\x79\x48\x9c\x4f\x2a\x40\xa0\x90\x68\x5c\x16\x0f\x09\x80\x80")
				o.Check(bytes.Equal(z, kat), "known-answer-legacy-vector", "Compress(TOBEORNOT…) = %x, want %x", z, kat)
				o.Count("c-known-answer")
			}
			ref := c25RefEncode(x)
			o.Check(bytes.Equal(ref, z), "format-differs-from-legacy-reference", "Compress(x) differs from the independent legacy LZW reference encoder (len %d: got %d bytes, want %d)", len(x), len(z), len(ref))
			// independent decoder: the Go standard library reader accepts the legacy format
			r := stdlzw.NewReader(bytes.NewReader(z), stdlzw.MSB, 8)
			sb, err := io.ReadAll(r)
			r.Close()
			o.Check(err == nil && bytes.Equal(sb, x), "stdlib-reader-decodes", "compress/lzw reader on Compress(x): err=%v equal=%v len %d", err, bytes.Equal(sb, x), len(x))
			// clear codes present? (12 bit aligned search is not possible; use size heuristics only for stats)
			switch {
			case len(x) == 1:
				o.Count("c-single")
			case len(z)*8 >= 9*255+10*512+11*1024+12*2048:
				o.Count("c-table-filled")
			case len(z)*8 >= 9*255:
				o.Count("c-width-grew")
			default:
				o.Count("c-width9")
			}
			if len(z)*2 < len(x) {
				o.Count("c-compressible")
			}
			if hits, near, fl := c25FlushAlign(x); fl > 0 {
				o.Count("c-reader-flushes")
				if hits > 0 {
					o.Count("c-flush-on-width-growth-code")
				} else if near > 0 {
					o.Count("c-flush-next-to-width-growth-code")
				}
			}
		}
		s := "nort"
		if rt {
			s = "rt"
		}
		return hx(z) + " " + s + " " + first
	case "d":
		z := unhx(t[1])
		out := common.Decompress(z)
		r.hold(out, nil, "Decompress result")
		switch {
		case len(out) == 0:
			o.Count("d-empty-out")
		case len(out) >= 3838:
			o.Count("d-long-out")
		default:
			o.Count("d-some-out")
		}
		if len(z) >= (9*255+10*512+11*1024+12*2048)/8 {
			o.Count("d-stream-reaches-width12")
		}
		// idempotence of the pair on whatever came out (property oracle on derived input)
		o.Check(bytes.Equal(common.Decompress(common.Compress(out)), out), "compress-roundtrip", "Decompress(Compress(y)) != y for derived y of len %d", len(out))
		return hx(out)
	}
	return "bad-op"
}

func c25Short(x []byte) string {
	if len(x) > 48 {
		return fmt.Sprintf("%x…(%d bytes)", x[:48], len(x))
	}
	return fmt.Sprintf("%x", x)
}
