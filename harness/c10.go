//go:build c10 || all

package main

// C10: block execution never silently drops a transaction.
//
// Op line (one case per line, stateless):
//
//	exec <level> <n> <spec_0> ... <spec_{n-1}> s <tok>*
//
// level   chain ConcurrencyLevel (<=1: executeTxsSequential, >1: executeTxsConcurrent)
// spec_i  optional leading 'p' (handler Prepare fails), then one code per
//         execution attempt (missing codes = 'o'):
//           o  Execute succeeds            e  Execute -> ExecutionFailError (retryable)
//           c  Execute -> CriticalRerunError (retryable)
//           x  Execute -> InvalidStateError (non-retryable)
//           T  platform OnTransactionEnd -> non-retryable error
//           E  platform OnTransactionEnd -> ExecutionFailError (retryable)
//           h  GetHandler for this attempt fails
// tok     schedule: at every quiescent state the enabled actions are
//         [D (dispatcher proceeds with the next transaction)] ++ [W j for every
//         worker j blocked in Execute, ascending]; the next token picks
//         enabled[tok % len]; no tokens left = 0.
//
// Output: "<res> x=<execute calls> | <res-full>" where <res> is the result of
// the real executeTxs through the hook VerifC10ExecuteTxs and <res-full> the
// one of a complete transition.Execute (callback error + NormalReceipts);
// res = "ok a_0 .. a_{n-1}" (a_i = attempt of tx i that produced receipt i,
// '-' = missing receipt) or "err i:k" (error injected into tx i, attempt k;
// k=p for Prepare).

import (
	"fmt"
	"math/big"
	"regexp"
	"strconv"
	"strings"
	"sync"
	"time"

	"github.com/icon-project/goloop/chain/base"
	"github.com/icon-project/goloop/common"
	"github.com/icon-project/goloop/common/crypto"
	"github.com/icon-project/goloop/common/db"
	"github.com/icon-project/goloop/common/errors"
	"github.com/icon-project/goloop/common/log"
	"github.com/icon-project/goloop/common/merkle"
	"github.com/icon-project/goloop/common/trie"
	"github.com/icon-project/goloop/module"
	"github.com/icon-project/goloop/service"
	"github.com/icon-project/goloop/service/contract"
	"github.com/icon-project/goloop/service/platform/basic"
	"github.com/icon-project/goloop/service/state"
	"github.com/icon-project/goloop/service/transaction"
	"github.com/icon-project/goloop/service/txresult"
)

func init() {
	Register(&Prop{ID: "C10", Gen: c10Gen, New: func() Runner { return &c10Runner{} }})
}

// ---------------------------------------------------------------- generator

var c10Codes = []byte("oecxTEh")

func c10Spec(g *Gen, failing bool) string {
	if !failing {
		switch g.Intn(10) {
		case 0:
			return "eo"
		case 1:
			return "co"
		case 2:
			return "eco"
		case 3:
			return "Eo"
		default:
			return "o"
		}
	}
	switch g.Intn(14) {
	case 0:
		return "x"
	case 1:
		return "ex"
	case 2:
		return "eee"
	case 3:
		return "ccc"
	case 4:
		return "ece"
	case 5:
		return "h"
	case 6:
		return "eh"
	case 7:
		return "po"
	case 8:
		return "T"
	case 9:
		return "eT"
	case 10:
		return "EEE"
	case 11:
		return "ceh"
	case 12:
		return "eex"
	default:
		// arbitrary code string
		l := 1 + g.Intn(4)
		b := make([]byte, l)
		for i := range b {
			b[i] = c10Codes[g.Intn(len(c10Codes))]
		}
		s := string(b)
		if g.Intn(6) == 0 {
			s = "p" + s
		}
		return s
	}
}

func c10Gen(g *Gen) {
	for c := 0; c < g.N; c++ {
		level := g.Pick(1, 2, 2, 3, 3, 4, 4, 0, 5)
		n := g.Pick(0, 1, 2, 3, 3, 4, 4, 5, 5, 6, 7)
		if g.Tier == "thorough" && g.Intn(8) == 0 {
			n = 8 + g.Intn(6)
		}
		specs := make([]string, n)
		mode := g.Intn(12) - 2
		for i := range specs {
			specs[i] = c10Spec(g, false)
		}
		switch {
		case n == 0 || mode <= 0: // all succeed
		case mode <= 5: // one failing position
			specs[g.Intn(n)] = c10Spec(g, true)
		case mode <= 7: // two failing positions
			specs[g.Intn(n)] = c10Spec(g, true)
			specs[g.Intn(n)] = c10Spec(g, true)
		case mode == 8: // failure at a boundary position
			specs[g.Pick(0, n-1)] = c10Spec(g, true)
		default:
			for i := range specs {
				if g.Intn(2) == 0 {
					specs[i] = c10Spec(g, true)
				}
			}
		}
		if g.Intn(60) == 0 { // malformed lines
			switch g.Intn(5) {
			case 0:
				g.Emit("exec %d %d o s", level, n+2)
			case 1:
				g.Emit("exec 2 1 oq s")
			case 2:
				g.Emit("run 2 1 o s")
			case 3:
				g.Emit("exec 2 1 p s")
			default:
				g.Emit("exec 2 2 o o 1 2")
			}
			continue
		}
		var sb strings.Builder
		op := "exec"
		if g.Intn(5) == 0 {
			op = "free"
		}
		fmt.Fprintf(&sb, "%s %d %d", op, level, n)
		for _, s := range specs {
			sb.WriteString(" " + s)
		}
		sb.WriteString(" s")
		var nt int
		switch g.Intn(4) {
		case 0:
			nt = 0 // eager dispatcher, lowest worker first
		default:
			nt = 4*n + 2
		}
		style := g.Intn(4)
		for i := 0; i < nt; i++ {
			var t int
			switch style {
			case 0:
				t = g.Intn(8)
			case 1: // prefer the last enabled action (latest worker)
				t = 7 - g.Intn(2)*g.Intn(8)
				if t < 0 {
					t = 0
				}
				t = 839 // 839 % k == k-1 for k in 1..8 except 7,5 -> still varied
				if g.Intn(3) == 0 {
					t = g.Intn(8)
				}
			case 2: // prefer workers over the dispatcher
				t = 1 + g.Intn(7)
			default:
				t = g.Intn(2)
			}
			fmt.Fprintf(&sb, " %d", t)
		}
		g.Emit("%s", sb.String())
	}
}

// ---------------------------------------------------------------- stubs

type c10Chain struct {
	module.Chain
	dbase db.Database
	level int
	lg    log.Logger
}

func (c *c10Chain) Database() db.Database { return c.dbase }
func (c *c10Chain) ConcurrencyLevel() int { return c.level }
func (c *c10Chain) Logger() log.Logger    { return c.lg }
func (c *c10Chain) NID() int              { return 1 }
func (c *c10Chain) CID() int              { return 1 }
func (c *c10Chain) NetID() int            { return 1 }

type c10Platform struct {
	base.Platform
	env *c10Env
}

func (p *c10Platform) OnTransactionEnd(wc state.WorldContext, l log.Logger, rct txresult.Receipt) error {
	return p.env.onTxEnd(rct)
}

type c10Made struct{ tx, att int }

type c10Ev struct {
	kind string // dgate | wgate | commit | fin
	tx   int
	att  int
	err  error
	buf  []txresult.Receipt
}

var (
	c10EnvMu   sync.Mutex
	c10Envs    = map[int]*c10Env{}
	c10EnvNext int
	c10Once    sync.Once
)

// the transaction list stores transactions by their bytes and re-creates them
// through the registered factories; ours resolves to the live stub object.
func c10Register() {
	c10Once.Do(func() {
		transaction.RegisterFactory(&transaction.Factory{
			Priority: 4,
			CheckJSON: func(jso map[string]interface{}) bool {
				v, ok := jso["type"]
				return ok && v == "c10"
			},
			ParseJSON: func(js []byte, jsm map[string]interface{}, raw bool) (transaction.Transaction, error) {
				id, _ := jsm["env"].(float64)
				idx, _ := jsm["idx"].(float64)
				c10EnvMu.Lock()
				e := c10Envs[int(id)]
				c10EnvMu.Unlock()
				if e == nil || int(idx) >= len(e.txs) {
					return nil, errors.IllegalArgumentError.New("c10: unknown transaction")
				}
				return e.txs[int(idx)], nil
			},
		})
	})
}

type c10Env struct {
	id     int
	level  int
	par    bool // concurrent executor selected (level > 1)
	gated  bool // par && the harness controls the interleaving
	txs    []*c10Tx
	dbase  db.Database
	mu     sync.Mutex
	made   map[txresult.Receipt]c10Made
	execs  int
	finals []string // final (non-retried) injected errors in time order, "i:k"
	wfinal []string // the worker-reported ones among them
	propMissing []string // executions whose context lacks PropInitialSnapshot
	perTx  []int    // execute calls per tx
	succ   []int    // successful attempt per tx or -1
	ev     chan c10Ev
	dRel   chan struct{}
	rRel   chan struct{}
	wRel   []chan struct{}
	lRel   []chan struct{}
}

func (e *c10Env) onTxEnd(rct txresult.Receipt) error {
	e.mu.Lock()
	m, ok := e.made[rct]
	e.mu.Unlock()
	if !ok {
		return nil
	}
	tx := e.txs[m.tx]
	switch tx.code(m.att) {
	case 'T':
		e.final(m.tx, strconv.Itoa(m.att), true)
		return errors.InvalidStateError.New(fmt.Sprintf("c10:%d:%d", m.tx, m.att))
	case 'E':
		e.retryable(m.tx, m.att)
		return errors.ExecutionFailError.New(fmt.Sprintf("c10:%d:%d", m.tx, m.att))
	}
	e.mu.Lock()
	e.succ[m.tx] = m.att
	e.mu.Unlock()
	return nil
}

func (e *c10Env) final(tx int, k string, worker bool) {
	e.mu.Lock()
	e.finals = append(e.finals, fmt.Sprintf("%d:%s", tx, k))
	if worker {
		e.wfinal = append(e.wfinal, fmt.Sprintf("%d:%s", tx, k))
	}
	e.mu.Unlock()
}

func (e *c10Env) retryable(tx, att int) {
	if att >= service.VerifC10RetryCount {
		e.final(tx, strconv.Itoa(att), true)
	}
}

type c10Tx struct {
	env   *c10Env
	idx   int
	prep  bool
	atts  string
	hcall int
	id    []byte
}

func (t *c10Tx) code(k int) byte {
	if k < len(t.atts) {
		return t.atts[k]
	}
	return 'o'
}

func (t *c10Tx) addr() module.Address {
	b := make([]byte, 20)
	b[0] = 0xc1
	b[19] = byte(t.idx)
	return common.NewAccountAddress(b)
}

// module.Transaction
func (t *c10Tx) Group() module.TransactionGroup { return module.TransactionGroupNormal }
func (t *c10Tx) ID() []byte {
	if t.id == nil {
		t.id = crypto.SHA3Sum256(t.Bytes())
	}
	return t.id
}
func (t *c10Tx) From() module.Address { return t.addr() }
func (t *c10Tx) Bytes() []byte {
	return []byte(fmt.Sprintf(`{"type":"c10","env":%d,"idx":%d}`, t.env.id, t.idx))
}
func (t *c10Tx) Hash() []byte         { return t.ID() }
func (t *c10Tx) Verify() error        { return nil }
func (t *c10Tx) Version() int         { return module.TransactionVersion3 }
func (t *c10Tx) ToJSON(version module.JSONVersion) (interface{}, error) {
	return map[string]interface{}{"type": "c10"}, nil
}
func (t *c10Tx) ValidateNetwork(nid int) bool { return true }

// transaction.Transaction
func (t *c10Tx) PreValidate(wc state.WorldContext, update bool) error { return nil }
func (t *c10Tx) Timestamp() int64                                     { return 0 }
func (t *c10Tx) Nonce() *big.Int                                      { return nil }
func (t *c10Tx) To() module.Address                                   { return t.addr() }
func (t *c10Tx) IsSkippable() bool                                    { return false }

// trie.Object
func (t *c10Tx) Reset(s db.Database, k []byte) error { return nil }
func (t *c10Tx) Flush() error                        { return nil }
func (t *c10Tx) Equal(o trie.Object) bool {
	if x, ok := o.(*c10Tx); ok {
		return x.idx == t.idx
	}
	return false
}
func (t *c10Tx) Resolve(builder merkle.Builder) error { return nil }
func (t *c10Tx) ClearCache()                          {}

func (t *c10Tx) GetHandler(cm contract.ContractManager) (transaction.Handler, error) {
	e := t.env
	e.mu.Lock()
	k := t.hcall
	t.hcall++
	e.mu.Unlock()
	if e.gated && k == 0 {
		// the dispatcher's call: gate
		e.ev <- c10Ev{kind: "dgate", tx: t.idx}
		<-e.dRel
	}
	if t.code(k) == 'h' {
		e.final(t.idx, strconv.Itoa(k), e.par && k > 0)
		return nil, errors.InvalidStateError.New(fmt.Sprintf("c10:%d:%d", t.idx, k))
	}
	return &c10Handler{tx: t, att: k}, nil
}

type c10Handler struct {
	tx  *c10Tx
	att int
}

func (h *c10Handler) Prepare(ctx contract.Context) (state.WorldContext, error) {
	t := h.tx
	if t.prep {
		t.env.final(t.idx, "p", false)
		return nil, errors.InvalidStateError.New(fmt.Sprintf("c10:%d:p", t.idx))
	}
	lq := []state.LockRequest{{ID: string(t.addr().ID()), Lock: state.AccountWriteLock}}
	wc := ctx.GetFuture(lq)
	return &c10WC{WorldContext: wc, tx: t}, nil
}

func (h *c10Handler) Execute(ctx contract.Context, wcs state.WorldSnapshot, estimate bool) (txresult.Receipt, error) {
	t, e := h.tx, h.tx.env
	if e.gated {
		e.ev <- c10Ev{kind: "wgate", tx: t.idx, att: h.att}
		<-e.wRel[t.idx]
	}
	e.mu.Lock()
	e.execs++
	e.perTx[t.idx]++
	// the per-transaction contract context must carry transition.initialSnapshot: under a
	// revision with LegacyBalanceCheck() the real transactionHandler.Execute does
	// cc.GetProperty(contract.PropInitialSnapshot).(state.WorldSnapshot) on it (nil -> panic)
	if v := ctx.GetProperty(contract.PropInitialSnapshot); v == nil {
		e.propMissing = append(e.propMissing, fmt.Sprintf("%d:%d", t.idx, h.att))
	} else if _, ok := v.(state.WorldSnapshot); !ok {
		e.propMissing = append(e.propMissing, fmt.Sprintf("%d:%d(wrong type)", t.idx, h.att))
	}
	e.mu.Unlock()
	msg := fmt.Sprintf("c10:%d:%d", t.idx, h.att)
	switch t.code(h.att) {
	case 'e':
		e.retryable(t.idx, h.att)
		return nil, errors.ExecutionFailError.New(msg)
	case 'c':
		e.retryable(t.idx, h.att)
		return nil, errors.CriticalRerunError.New(msg)
	case 'x', 'h':
		e.final(t.idx, strconv.Itoa(h.att), true)
		return nil, errors.InvalidStateError.New(msg)
	}
	if !e.gated {
		// touch the declared account so that the world state is really used
		// (not under a harness-chosen interleaving: a state access of a worker
		// blocks while the dispatcher's final Realize holds the mutexes)
		as := ctx.GetAccountState(t.addr().ID())
		if as != nil {
			as.SetBalance(big.NewInt(int64(1000 + t.idx*8 + h.att)))
		}
	}
	r := txresult.NewReceipt(ctx.Database(), ctx.Revision(), t.To())
	r.SetResult(module.StatusSuccess, big.NewInt(int64(t.idx*8+h.att)), big.NewInt(1), nil)
	e.mu.Lock()
	e.made[r] = c10Made{t.idx, h.att}
	c := t.code(h.att)
	if c != 'T' && c != 'E' {
		// decided in onTxEnd otherwise
	}
	e.mu.Unlock()
	return r, nil
}

func (h *c10Handler) Dispose() {}

// c10WC wraps the world context returned by Prepare so that the worker's
// final wvs.Commit() is observable (it happens after ec.Report, before ec.Done).
type c10WC struct {
	state.WorldContext
	tx *c10Tx
}

func (w *c10WC) WorldVirtualState() state.WorldVirtualState {
	wvs := w.WorldContext.WorldVirtualState()
	if wvs == nil {
		return nil
	}
	return &c10WVS{WorldVirtualState: wvs, tx: w.tx}
}

type c10WVS struct {
	state.WorldVirtualState
	tx *c10Tx
}

func (w *c10WVS) Commit() {
	w.WorldVirtualState.Commit()
	if w.tx.env.gated {
		w.tx.env.ev <- c10Ev{kind: "commit", tx: w.tx.idx}
		// the worker stays here (its virtual state is committed, it has not yet done anything
		// that follows Commit in the worker: ec.Done(), ...) until the controller lets it leave.
		// For the last worker the controller first lets the dispatcher run through its final
		// Realize and ec.Error(): whatever the worker has to tell the dispatcher about its
		// transaction must have been told before Commit.
		<-w.tx.env.lRel[w.tx.idx]
	}
}

// Realize is called by the dispatcher after the last transaction was
// dispatched. It takes the mutex of every uncommitted virtual state of the
// block, so under a harness-chosen interleaving it is scheduled after the
// last worker committed (the overlapping case is covered by the `free` op).
func (w *c10WVS) Realize() {
	if w.tx.env.gated {
		w.tx.env.ev <- c10Ev{kind: "rgate"}
		<-w.tx.env.rRel
	}
	w.WorldVirtualState.Realize()
}

// ---------------------------------------------------------------- controller

type c10Ctl struct {
	env     *c10Env
	pending []c10Ev
	desync  string
}

func (c *c10Ctl) take(match func(c10Ev) bool) (c10Ev, bool) {
	for i, ev := range c.pending {
		if match(ev) {
			c.pending = append(c.pending[:i:i], c.pending[i+1:]...)
			return ev, true
		}
	}
	tm := time.NewTimer(10 * time.Second)
	defer tm.Stop()
	for {
		select {
		case ev := <-c.env.ev:
			if match(ev) {
				return ev, true
			}
			c.pending = append(c.pending, ev)
		case <-tm.C:
			return c10Ev{}, false
		}
	}
}

// run drives one concurrent execution under the schedule; start launches the
// real executor in its own goroutine and must deliver a "fin" event.
func (c *c10Ctl) run(sched []int, start func()) c10Ev {
	e := c.env
	n := len(e.txs)
	tokens := e.level
	blocked := map[int]int{} // tx -> attempt
	done := 0
	launched := 0
	const (
		dStart = iota
		dGate
		dReady
		dRealize
	)
	disp := dStart
	dtx := 0
	var fin *c10Ev
	go start()
	isFin := func(ev c10Ev) bool { return ev.kind == "fin" }
	realize := func() {
		if launched > 0 {
			if _, ok := c.take(func(ev c10Ev) bool { return ev.kind == "rgate" }); !ok {
				c.desync = "no-rgate"
				return
			}
			e.rRel <- struct{}{}
		}
		if ev, ok := c.take(isFin); ok {
			fin = &ev
		} else {
			c.desync = "no-fin-after-realize"
		}
	}
	// head(i): what the dispatcher does at the loop head for index i
	head := func(i int) {
		if i >= n {
			disp = dRealize
			if done == launched {
				realize()
			}
			return
		}
		ev, ok := c.take(func(ev c10Ev) bool { return ev.kind == "fin" || (ev.kind == "dgate" && ev.tx == i) })
		if !ok {
			c.desync = fmt.Sprintf("no-dgate-%d", i)
			return
		}
		if ev.kind == "fin" {
			fin = &ev
			return
		}
		disp, dtx = dGate, i
	}
	launch := func(i int) {
		// dispatcher got a token: worker i arrives at its gate, dispatcher goes to head(i+1)
		if _, ok := c.take(func(ev c10Ev) bool { return ev.kind == "wgate" && ev.tx == i }); !ok {
			c.desync = fmt.Sprintf("no-wgate-%d", i)
			return
		}
		tokens--
		launched++
		blocked[i] = 0
		head(i + 1)
	}
	head(0)
	si := 0
	for fin == nil && c.desync == "" {
		var acts []int // -1 = D, j = W j
		if disp == dGate {
			acts = append(acts, -1)
		}
		for j := 0; j < n; j++ {
			if _, ok := blocked[j]; ok {
				acts = append(acts, j)
			}
		}
		if len(acts) == 0 {
			c.desync = "deadlock"
			break
		}
		tok := 0
		if si < len(sched) {
			tok = sched[si]
			si++
		}
		a := acts[tok%len(acts)]
		if a == -1 {
			tx := e.txs[dtx]
			e.dRel <- struct{}{}
			if tx.code(0) == 'h' || tx.prep {
				if ev, ok := c.take(isFin); ok {
					fin = &ev
				} else {
					c.desync = "no-fin-after-dispatch-error"
				}
				continue
			}
			if tokens > 0 {
				launch(dtx)
			} else {
				disp = dReady
			}
			continue
		}
		// release worker a
		e.wRel[a] <- struct{}{}
		ev, ok := c.take(func(ev c10Ev) bool { return (ev.kind == "wgate" || ev.kind == "commit") && ev.tx == a })
		if !ok {
			c.desync = fmt.Sprintf("worker-%d-lost", a)
			break
		}
		if ev.kind == "wgate" {
			blocked[a] = ev.att
			continue
		}
		delete(blocked, a)
		done++
		tokens++
		if disp == dRealize && done == launched {
			// schedule class "the dispatcher finishes before the last worker leaves Commit"
			realize()
			e.lRel[a] <- struct{}{}
			continue
		}
		e.lRel[a] <- struct{}{}
		if disp == dReady {
			launch(dtx)
		}
	}
	execsAtFin := 0
	e.mu.Lock()
	execsAtFin = e.execs
	e.mu.Unlock()
	// drain: let every remaining goroutine run to completion
	if c.desync == "" {
		if disp == dGate && fin == nil {
			e.dRel <- struct{}{}
		}
		for len(blocked) > 0 {
			for j := range blocked {
				e.wRel[j] <- struct{}{}
				ev, ok := c.take(func(ev c10Ev) bool { return (ev.kind == "wgate" || ev.kind == "commit") && ev.tx == j })
				if !ok {
					c.desync = "drain-lost"
					delete(blocked, j)
				} else if ev.kind == "commit" {
					e.lRel[j] <- struct{}{}
					delete(blocked, j)
				}
				break
			}
		}
	}
	if fin == nil {
		return c10Ev{kind: "desync", att: execsAtFin}
	}
	fin.att = execsAtFin
	return *fin
}

// ---------------------------------------------------------------- runner

type c10Runner struct{}

var c10ErrRe = regexp.MustCompile(`c10:(\d+):(\w+)`)

func c10NewEnv(level int, specs []string, free bool) (*c10Env, module.Transition, module.TransactionList, error) {
	e := &c10Env{level: level, par: level > 1, gated: level > 1 && !free, made: map[txresult.Receipt]c10Made{}}
	e.dbase = db.NewMapDB()
	c10Register()
	c10EnvMu.Lock()
	c10EnvNext++
	e.id = c10EnvNext
	c10Envs[e.id] = e
	c10EnvMu.Unlock()
	n := len(specs)
	e.ev = make(chan c10Ev, 4*n+16)
	e.dRel = make(chan struct{})
	e.rRel = make(chan struct{})
	e.perTx = make([]int, n)
	e.succ = make([]int, n)
	txs := make([]module.Transaction, n)
	for i, s := range specs {
		t := &c10Tx{env: e, idx: i}
		if strings.HasPrefix(s, "p") {
			t.prep = true
			s = s[1:]
		}
		t.atts = s
		e.txs = append(e.txs, t)
		e.wRel = append(e.wRel, make(chan struct{}))
		e.lRel = append(e.lRel, make(chan struct{}, 1))
		e.succ[i] = -1
		txs[i] = t
	}
	lg := log.New()
	lg.SetLevel(log.PanicLevel)
	ch := &c10Chain{dbase: e.dbase, level: level, lg: lg}
	plt := &c10Platform{Platform: basic.Platform, env: e}
	parent, err := service.NewInitTransition(e.dbase, nil, nil, nil, nil, ch, lg, plt, service.NewTimestampChecker())
	if err != nil {
		return nil, nil, nil, err
	}
	tl := transaction.NewTransactionListFromSlice(e.dbase, txs)
	return e, parent, tl, nil
}

func c10Drop(e *c10Env) {
	c10EnvMu.Lock()
	delete(c10Envs, e.id)
	c10EnvMu.Unlock()
}

type c10CB struct{ ch chan error }

func (cb *c10CB) OnValidate(tr module.Transition, e error) {
	if e != nil {
		cb.ch <- e
	}
}
func (cb *c10CB) OnExecute(tr module.Transition, e error) { cb.ch <- e }

func c10Describe(e *c10Env, n int, buf []txresult.Receipt, err error) string {
	if err != nil {
		m := c10ErrRe.FindStringSubmatch(err.Error())
		if m == nil {
			return "err other"
		}
		return "err " + m[1] + ":" + m[2]
	}
	parts := []string{"ok"}
	for i := 0; i < n; i++ {
		if i >= len(buf) || buf[i] == nil {
			parts = append(parts, "-")
			continue
		}
		e.mu.Lock()
		m, ok := e.made[buf[i]]
		e.mu.Unlock()
		if !ok {
			// a receipt from the receipt list of a full transition: identify by content
			su := buf[i].StepUsed()
			if su != nil && buf[i].To() != nil {
				v := int(su.Int64())
				parts = append(parts, fmt.Sprintf("%d", v%8))
				if v/8 != i {
					parts[len(parts)-1] = fmt.Sprintf("wrong(%d)", v/8)
				}
				continue
			}
			parts = append(parts, "?")
			continue
		}
		if m.tx != i {
			parts = append(parts, fmt.Sprintf("wrong(%d)", m.tx))
		} else {
			parts = append(parts, strconv.Itoa(m.att))
		}
	}
	return strings.Join(parts, " ")
}

// c10Oracle evaluates the property on one execution of the real code.
func c10Oracle(o *Oracle, e *c10Env, n int, buf []txresult.Receipt, err error, where string) bool {
	okAll := true
	e.mu.Lock()
	finals := append([]string{}, e.finals...)
	wfinal := append([]string{}, e.wfinal...)
	succ := append([]int{}, e.succ...)
	perTx := append([]int{}, e.perTx...)
	e.mu.Unlock()
	mode := "se"
	if e.par {
		mode = "pe"
	}
	if err == nil {
		o.Count(mode + "-result-ok")
		missing, wrong := -1, -1
		for i := 0; i < n; i++ {
			if i >= len(buf) || buf[i] == nil {
				if missing < 0 {
					missing = i
				}
				continue
			}
			v := int(buf[i].StepUsed().Int64())
			if v/8 != i || v%8 != succ[i] {
				wrong = i
			}
		}
		if len(finals) > 0 {
			key := "se-failed-tx-skipped"
			if e.par {
				key = "pe-fatal-error-not-latched"
			}
			o.Check(false, key, "%s: level=%d n=%d: transaction error(s) %v were injected (non-retryable or retries exhausted) but the block execution returned no error; first missing receipt index %d", where, e.level, n, finals, missing)
			okAll = false
		} else {
			o.Check(missing < 0, mode+"-missing-receipt", "%s: execution returned nil error but receipt %d is missing", where, missing)
			okAll = okAll && missing < 0
		}
		o.Check(wrong < 0, mode+"-wrong-receipt", "%s: receipt %d does not come from the successful attempt of transaction %d", where, wrong, wrong)
		okAll = okAll && wrong < 0
	} else {
		o.Count(mode + "-result-err")
		m := c10ErrRe.FindStringSubmatch(err.Error())
		got := ""
		if m != nil {
			got = m[1] + ":" + m[2]
		}
		in := false
		for _, f := range finals {
			if f == got {
				in = true
			}
		}
		o.Check(in, mode+"-spurious-error", "%s: execution failed with %q which is not a final error of any transaction (finals %v)", where, err.Error(), finals)
		okAll = okAll && in
		if in {
			isWorker := false
			for _, f := range wfinal {
				if f == got {
					isWorker = true
				}
			}
			if e.gated && isWorker { // only under the harness-chosen interleaving is the Report order known
				o.Check(wfinal[0] == got, "pe-latch-not-first-error", "%s: reported error %s but the first error reported by a worker was %s", where, got, wfinal[0])
				okAll = okAll && wfinal[0] == got
			}
			if !e.par {
				o.Check(finals[0] == got, "se-wrong-error", "%s: reported %s, first failure was %s", where, got, finals[0])
			}
		}
	}
	e.mu.Lock()
	pm := append([]string{}, e.propMissing...)
	e.mu.Unlock()
	o.Check(len(pm) == 0, mode+"-legacy-balance-check-panics", "%s: level=%d: the contract context handed to the handler of tx:attempt %v has no %s property; transactionHandler.Execute type-asserts it to state.WorldSnapshot under a LegacyBalanceCheck revision (panic in the executing goroutine), the other executor mode provides it", where, e.level, pm, contract.PropInitialSnapshot)
	for i, c := range perTx {
		o.Check(c <= service.VerifC10RetryCount+1, mode+"-retry-bound", "%s: tx %d executed %d times", where, i, c)
	}
	return okAll
}

func (r *c10Runner) Step(toks []string, o *Oracle) string {
	if len(toks) < 3 || (toks[0] != "exec" && toks[0] != "free") {
		return "bad-op"
	}
	free := toks[0] == "free"
	level, e1 := strconv.Atoi(toks[1])
	n, e2 := strconv.Atoi(toks[2])
	if e1 != nil || e2 != nil || n < 0 || n > 64 || level < 0 || level > 16 || len(toks) < 4+n || toks[3+n] != "s" {
		return "bad-op"
	}
	specs := toks[3 : 3+n]
	for _, s := range specs {
		if s == "" || s == "p" {
			return "bad-op"
		}
		for i, c := range []byte(s) {
			if c == 'p' && i == 0 {
				continue
			}
			if !strings.ContainsRune("oecxTEh", rune(c)) {
				return "bad-op"
			}
		}
	}
	var sched []int
	for _, t := range toks[4+n:] {
		v, err := strconv.Atoi(t)
		if err != nil || v < 0 {
			return "bad-op"
		}
		sched = append(sched, v)
	}
	bi := common.NewBlockInfo(1, 1000)

	// 1. the executor through the hook
	e, parent, tl, err := c10NewEnv(level, specs, free)
	if err != nil {
		panic(err)
	}
	defer c10Drop(e)
	var buf []txresult.Receipt
	var xerr error
	execs := 0
	if e.gated {
		ctl := &c10Ctl{env: e}
		fin := ctl.run(sched, func() {
			b, err := service.VerifC10ExecuteTxs(parent, tl, bi, n)
			e.ev <- c10Ev{kind: "fin", err: err, buf: b}
		})
		if ctl.desync != "" || fin.kind != "fin" {
			return "desync " + ctl.desync
		}
		buf, xerr, execs = fin.buf, fin.err, fin.att
		o.Count(fmt.Sprintf("par-level-%d", level))
	} else {
		buf, xerr = service.VerifC10ExecuteTxs(parent, tl, bi, n)
		e.mu.Lock()
		execs = e.execs
		e.mu.Unlock()
		if e.par {
			o.Count(fmt.Sprintf("free-level-%d", level))
		} else {
			o.Count("seq")
		}
	}
	res1 := c10Describe(e, n, buf, xerr)
	if free && e.par && xerr != nil {
		// which error wins and how many executions happened is up to the Go scheduler
		res1, execs = "err", 0
	}
	for _, f := range e.finals {
		if strings.HasSuffix(f, ":p") {
			o.Count("inj-prepare")
		} else {
			o.Count("inj-final-error")
		}
	}
	consistent := c10Oracle(o, e, n, buf, xerr, "executeTxs")
	out := fmt.Sprintf("%s x=%d", res1, execs)
	if !consistent {
		// a complete transition would dereference the missing receipt in doExecute
		return out + " | skipped"
	}

	// 2. the complete transition (Execute -> doExecute -> callback, receipt list)
	e, parent, tl, err = c10NewEnv(level, specs, free)
	if err != nil {
		panic(err)
	}
	defer c10Drop(e)
	tr := service.NewTransition(parent, nil, tl, bi, nil, true)
	cb := &c10CB{ch: make(chan error, 2)}
	runFull := func() (error, []txresult.Receipt) {
		if _, err := tr.Execute(cb); err != nil {
			return err, nil
		}
		err := <-cb.ch
		if err != nil {
			return err, nil
		}
		var rl []txresult.Receipt
		if l := tr.NormalReceipts(); l != nil {
			for it := l.Iterator(); it.Has(); it.Next() {
				rc, err := it.Get()
				if err != nil {
					return err, nil
				}
				rl = append(rl, rc.(txresult.Receipt))
			}
		}
		return nil, rl
	}
	var fbuf []txresult.Receipt
	var ferr error
	if e.gated {
		ctl := &c10Ctl{env: e}
		fin := ctl.run(sched, func() {
			err, b := runFull()
			e.ev <- c10Ev{kind: "fin", err: err, buf: b}
		})
		if ctl.desync != "" || fin.kind != "fin" {
			return out + " | desync " + ctl.desync
		}
		fbuf, ferr = fin.buf, fin.err
	} else {
		ferr, fbuf = runFull()
	}
	if ferr == nil {
		o.Check(len(fbuf) == n, "transition-receipt-count", "transition executed without error but the receipt list has %d entries for %d transactions", len(fbuf), n)
	}
	c10Oracle(o, e, n, fbuf, ferr, "transition.Execute")
	res2 := c10Describe(e, n, fbuf, ferr)
	if free && e.par && ferr != nil {
		res2 = "err"
	}
	return out + " | " + res2
}
