//go:build c02 || all

package main

// C02 uses the C01 runner (harness/c01.go, also built under tag c02); its generator crashes the
// engine far more often, between events and in the middle of events (`die j k ev`: only the first j
// externally visible effects of the event happen, k unsynced WAL records survive).

func init() {
	Register(&Prop{ID: "C02", Gen: func(g *Gen) { c01GenWith(g, 14, true) }, New: func() Runner { return c01NewRunner("C02") }})
}
