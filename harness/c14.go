//go:build c14 || all

package main

import (
	"bytes"
	"fmt"
	"math/big"
	"strconv"
	"strings"

	"github.com/icon-project/goloop/common"
	"github.com/icon-project/goloop/common/crypto"
	"github.com/icon-project/goloop/common/db"
	"github.com/icon-project/goloop/service/state"
)

const (
	c14NAcct = 6
	c14NKey  = 4
)

func init() {
	Register(&Prop{ID: "C14", Gen: c14Gen, New: func() Runner { return c14New() }})
}

// ---------------------------------------------------------------- generator

func c14Gen(g *Gen) {
	for i := 0; i < g.N; i++ {
		if i > 0 {
			g.Emit("reset")
		}
		c14GenCase(g)
	}
	// malformed stream
	g.Emit("reset")
	for _, l := range []string{"bal 9 1", "set 0 7 1", "wreset 0", "read 3", "reload 1", "bal x 1", "frob", "set 1 1", "get 0", "snap 1", "deploy 0 0", "sog 0 1 1", "deploy 9 1", "gog 1", "sgog 1", "deploy 1 5", "sog 1 2000 1", "sog 1 0 0", "gog 1"} {
		g.Emit("%s", l)
	}
}

func c14GenCase(g *Gen) {
	n := 20 + g.Intn(60)
	if g.Tier == "thorough" && g.Intn(4) == 0 {
		n += 100
	}
	nsnap := 0
	// a small working set makes collisions (same content again, empty again) frequent
	nA := 2 + g.Intn(c14NAcct-1)
	nK := 1 + g.Intn(c14NKey)
	acct := func() int { return g.Intn(nA) }
	key := func() int { return g.Intn(nK) }
	val := func() int {
		switch g.Intn(6) {
		case 0:
			return 0
		case 1:
			return 255 + g.Intn(3)
		default:
			return 1 + g.Intn(3)
		}
	}
	balv := func() string {
		switch g.Intn(8) {
		case 0, 1, 2:
			return "0"
		case 3:
			return "340282366920938463463374607431768211456" // 2^128
		default:
			return strconv.Itoa(1 + g.Intn(3))
		}
	}
	ncode := 0
	var contracts []int
	for j := 0; j < n; j++ {
		if g.Intn(100) < 14 {
			// contract part: deploy (always a fresh code number), object graph writes and reads
			switch c := g.Intn(14); {
			case c >= 10:
				// the deployment life cycle in separate steps, with snapshots in between, so that
				// there are intervals in which ONLY the next contract changes
				a := acct()
				if len(contracts) > 0 && g.Intn(2) == 0 {
					a = contracts[g.Intn(len(contracts))]
				}
				snap := func() {
					if g.Intn(3) != 0 {
						g.Emit("snap")
						nsnap++
					}
				}
				if g.Intn(4) != 0 {
					g.Emit("init %d", a)
					snap()
				}
				ncode++
				g.Emit("dep %d %d", a, ncode)
				snap()
				switch g.Intn(5) {
				case 0:
					g.Emit("rej %d %d", a, ncode)
					snap()
					if g.Intn(2) == 0 {
						g.Emit("acc %d %d", a, ncode) // error: already rejected
					}
				case 1:
					ncode++
					g.Emit("dep %d %d", a, ncode) // update deploy replaces the pending one
					snap()
					g.Emit("acc %d %d", a, ncode-g.Intn(2))
					snap()
				case 2:
					// left pending
				default:
					g.Emit("acc %d %d", a, ncode)
					snap()
					contracts = append(contracts, a)
				}
				if g.Intn(3) == 0 && nsnap > 0 {
					g.Emit("wreset %d", nsnap-1)
				}
			case c < 2 || len(contracts) == 0:
				ncode++
				a := acct()
				g.Emit("deploy %d %d", a, ncode)
				contracts = append(contracts, a)
			case c < 6:
				a := contracts[g.Intn(len(contracts))]
				if g.Intn(8) == 0 {
					a = acct()
				}
				g.Emit("sog %d %d %d", a, g.Pick(0, 0, 1, 2, 3), g.Pick(0, 0, 1, 2, 300))
			case c < 8:
				g.Emit("gog %d", contracts[g.Intn(len(contracts))])
			default:
				g.Emit("sgog %d", contracts[g.Intn(len(contracts))])
			}
			continue
		}
		switch c := g.Intn(100); {
		case c < 16:
			g.Emit("bal %d %s", acct(), balv())
		case c < 34:
			g.Emit("set %d %d %d", acct(), key(), val())
		case c < 44:
			g.Emit("del %d %d", acct(), key())
		case c < 48:
			// make an account empty again
			a := acct()
			g.Emit("bal %d 0", a)
			for k := 0; k < nK; k++ {
				g.Emit("del %d %d", a, k)
			}
		case c < 52:
			g.Emit("getbal %d", acct())
		case c < 56:
			g.Emit("get %d %d", acct(), key())
		case c < 60:
			g.Emit("sbal %d", acct())
		case c < 64:
			g.Emit("sget %d %d", acct(), key())
		case c < 78:
			g.Emit("snap")
			nsnap++
		case c < 88:
			if nsnap > 0 {
				i := g.Intn(nsnap)
				if g.Intn(3) == 0 {
					i = nsnap - 1
				}
				g.Emit("wreset %d", i)
			}
		case c < 93:
			g.Emit("cc")
		case c < 97:
			if nsnap > 0 {
				g.Emit("reload %d", g.Intn(nsnap))
			}
		default:
			if nsnap > 0 {
				g.Emit("read %d", g.Intn(nsnap))
			}
		}
	}
	g.Emit("snap")
	nsnap++
	for i := 0; i < nsnap; i++ {
		g.Emit("read %d", i)
	}
}

// ------------------------------------------------------------------ runner

type c14Runner struct {
	dbase db.Database
	ws    state.WorldState
	snaps []state.WorldSnapshot
	dumps []string         // logical content recorded when the snapshot was taken
	hash  [][]byte         // hash recorded when the snapshot was taken
	seen  map[string]int   // hash numbering
	line  int
	// index of the last snapshot taken with no mutation/reset/reload since, or -1
	cleanSince int
}

func c14New() *c14Runner {
	dbase := db.NewMapDB()
	return &c14Runner{
		dbase: dbase,
		ws:    state.NewWorldState(dbase, nil, nil, nil, nil),
		seen:  map[string]int{},
		cleanSince: -1,
	}
}

func c14Addr(a int) []byte {
	b := make([]byte, 20)
	b[0] = 0xa0
	b[19] = byte(a + 1)
	return common.NewAccountAddress(b).ID()
}

func c14Key(k int) []byte { return []byte{'k', byte('0' + k)} }

func c14Val(v int) []byte {
	if v == 0 {
		return []byte{}
	}
	return big.NewInt(int64(v)).Bytes()
}

func c14UnVal(b []byte) string {
	if len(b) == 0 {
		return "0"
	}
	return new(big.Int).SetBytes(b).String()
}

// c14Deploy makes the account a contract whose current (accepted, active) contract has code c.
func c14Code(c int) []byte { return []byte(fmt.Sprintf("verif-code-%d", c)) }

func c14Deploy(as state.AccountState, c int) error {
	as.InitContractAccount(common.NewAccountAddress(make([]byte, 20)))
	code := c14Code(c)
	tx := c14CodeID(c)
	if _, err := as.DeployContract(code, state.JavaEE, state.CTAppJava, nil, tx); err != nil {
		return err
	}
	return as.AcceptContract(tx, tx)
}

func c14CodeID(c int) []byte { return crypto.SHA3Sum256([]byte(fmt.Sprintf("verif-deploy-tx-%d", c))) }

var c14CodeNo = map[string]int{}

type c14ContractInfo interface {
	CodeID() []byte
	Status() state.ContractStatus
}

func c14No(id []byte) string {
	if n, ok := c14CodeNo[string(id)]; ok {
		return strconv.Itoa(n)
	}
	return "?"
}

// c14ContractStr renders the contract part: "-" = not a contract; else
// c<current code or 0>n<next code or 0><p pending | r rejected | - none>; also returns the current code id
func c14ContractStr(isContract bool, cur, next c14ContractInfo) (string, []byte) {
	if !isContract {
		return "-", nil
	}
	var id []byte
	s := "c0"
	if cur != nil {
		id = cur.CodeID()
		s = "c" + c14No(id)
	}
	if next != nil {
		st := "?"
		switch next.Status() {
		case state.CSPending:
			st = "p"
		case state.CSRejected:
			st = "r"
		}
		s += "n" + c14No(next.CodeID()) + st
	} else {
		s += "n0-"
	}
	return s, id
}

type c14Grapher interface {
	GetObjGraph(hash []byte, flags bool) (int, []byte, []byte, error)
}

func c14Graph(g c14Grapher, id []byte) string {
	nh, _, data, err := g.GetObjGraph(id, true)
	if err != nil {
		return "-"
	}
	return fmt.Sprintf("%d/%s", nh, c14UnVal(data))
}

func c14SnapMeta(as state.AccountSnapshot) string {
	var cur, next c14ContractInfo
	if c := as.Contract(); c != nil {
		cur = c
	}
	if c := as.NextContract(); c != nil {
		next = c
	}
	code, id := c14ContractStr(as.IsContract(), cur, next)
	g := "-"
	if id != nil {
		g = c14Graph(as, id)
	}
	return code + ":" + g
}

func c14StateMeta(as state.AccountState) (string, string, []byte) {
	var cur, next c14ContractInfo
	if c := as.Contract(); c != nil {
		cur = c
	}
	if c := as.NextContract(); c != nil {
		next = c
	}
	code, id := c14ContractStr(as.IsContract(), cur, next)
	g := "-"
	if id != nil {
		g = c14Graph(as, id)
	}
	return code, g, id
}

func (r *c14Runner) hashNo(h []byte) string {
	k := string(h)
	if i, ok := r.seen[k]; ok {
		return fmt.Sprintf("h%d", i)
	}
	i := len(r.seen)
	r.seen[k] = i
	return fmt.Sprintf("h%d", i)
}

// c14Dump reads a world snapshot through the AccountSnapshot getters.
func c14Dump(wss state.WorldSnapshot) string {
	parts := make([]string, c14NAcct)
	for a := 0; a < c14NAcct; a++ {
		as := wss.GetAccountSnapshot(c14Addr(a))
		if as == nil {
			parts[a] = "-"
			continue
		}
		vs := make([]string, c14NKey)
		for k := 0; k < c14NKey; k++ {
			v, err := as.GetValue(c14Key(k))
			if err != nil {
				vs[k] = "err"
			} else {
				vs[k] = c14UnVal(v)
			}
		}
		parts[a] = as.GetBalance().String() + ":" + strings.Join(vs, ",") + ":" + c14SnapMeta(as)
	}
	return strings.Join(parts, "|")
}

// c14Rebuild builds the logical content of a dump in a fresh world state on
// a fresh database, in an order derived from salt, never touching accounts
// that are absent in the dump, and returns its state hash.
func c14Rebuild(dump string, salt int) []byte {
	ws := state.NewWorldState(db.NewMapDB(), nil, nil, nil, nil)
	parts := strings.Split(dump, "|")
	type item struct {
		a, k int // k == -1: balance
		v    string
	}
	var items []item
	meta := map[int][2]string{}
	for a, p := range parts {
		if p == "-" {
			continue
		}
		bv := strings.SplitN(p, ":", 4)
		items = append(items, item{a, -1, bv[0]})
		for k, v := range strings.Split(bv[1], ",") {
			if v != "0" {
				items = append(items, item{a, k, v})
			}
		}
		if bv[2] != "-" {
			// deploy, then (necessarily later) the object graph
			meta[a] = [2]string{bv[2], bv[3]}
			items = append(items, item{a, -2, bv[2]})
		}
	}
	// deterministic shuffle
	x := uint32(salt)*2654435761 + 12345
	for i := len(items) - 1; i > 0; i-- {
		x = x*1664525 + 1013904223
		j := int(x>>8) % (i + 1)
		items[i], items[j] = items[j], items[i]
	}
	for n, it := range items {
		as := ws.GetAccountState(c14Addr(it.a))
		if it.k == -2 {
			// "c<cur>n<next><p|r|->"
			cn := strings.SplitN(it.v[1:], "n", 2)
			c, _ := strconv.Atoi(cn[0])
			nx, _ := strconv.Atoi(cn[1][:len(cn[1])-1])
			as.InitContractAccount(common.NewAccountAddress(make([]byte, 20)))
			if c != 0 {
				if salt%3 == 1 {
					// via a rejected earlier deployment
					as.DeployContract([]byte("x"), state.JavaEE, state.CTAppJava, nil, c14CodeID(999999))
					as.RejectContract(c14CodeID(999999), c14CodeID(999999))
				}
				if err := c14Deploy(as, c); err != nil {
					panic(err)
				}
				if g := meta[it.a][1]; g != "-" {
					ng := strings.SplitN(g, "/", 2)
					nh, _ := strconv.Atoi(ng[0])
					gv, _ := strconv.Atoi(ng[1])
					if salt%2 == 0 {
						as.SetObjGraph(c14CodeID(c), true, 7, []byte{9}) // overwritten below
					}
					as.SetObjGraph(c14CodeID(c), true, nh, c14Val(gv))
				}
			}
			if nx != 0 {
				if salt%2 == 1 {
					ws.GetSnapshot()
				}
				if _, err := as.DeployContract(c14Code(nx), state.JavaEE, state.CTAppJava, nil, c14CodeID(nx)); err != nil {
					panic(err)
				}
				if strings.HasSuffix(it.v, "r") {
					if salt%5 == 2 {
						ws.GetSnapshot()
					}
					if err := as.RejectContract(c14CodeID(nx), c14CodeID(nx)); err != nil {
						panic(err)
					}
				}
			}
		} else if it.k < 0 {
			b, _ := new(big.Int).SetString(it.v, 10)
			as.SetBalance(b)
		} else {
			b, _ := new(big.Int).SetString(it.v, 10)
			as.SetValue(c14Key(it.k), b.Bytes())
		}
		if salt%3 == 0 && n == len(items)/2 {
			ws.GetSnapshot()
		}
		if salt%5 == 0 && n == len(items)/3 {
			ws.ClearCache()
		}
	}
	return ws.GetSnapshot().StateHash()
}

// c14Live reads the mutable world through GetAccountSnapshot (no mutable
// account is created).
func (r *c14Runner) live() string {
	parts := make([]string, c14NAcct)
	for a := 0; a < c14NAcct; a++ {
		as := r.ws.GetAccountSnapshot(c14Addr(a))
		if as.IsEmpty() {
			parts[a] = "-"
			continue
		}
		vs := make([]string, c14NKey)
		for k := 0; k < c14NKey; k++ {
			v, _ := as.GetValue(c14Key(k))
			vs[k] = c14UnVal(v)
		}
		parts[a] = as.GetBalance().String() + ":" + strings.Join(vs, ",") + ":" + c14SnapMeta(as)
	}
	return strings.Join(parts, "|")
}

func (r *c14Runner) checkSnap(i int, o *Oracle) (string, []byte) {
	d := c14Dump(r.snaps[i])
	h := r.snaps[i].StateHash()
	o.Check(d == r.dumps[i], "snapshot-changed-after-later-ops", "snapshot %d read %q when taken, now %q", i, r.dumps[i], d)
	o.Check(bytes.Equal(h, r.hash[i]), "snapshot-hash-changed-after-later-ops", "snapshot %d hash %x when taken, now %x", i, r.hash[i], h)
	return d, h
}

func (r *c14Runner) Step(t []string, o *Oracle) string {
	r.line++
	atoi := func(s string, lim int) (int, bool) {
		v, err := strconv.Atoi(s)
		if err != nil || v < 0 || v >= lim {
			return 0, false
		}
		return v, true
	}
	if len(t) == 0 {
		return "bad-op"
	}
	switch {
	case t[0] == "bal" && len(t) == 3:
		a, ok := atoi(t[1], c14NAcct)
		v, ok2 := new(big.Int).SetString(t[2], 10)
		if !ok || !ok2 {
			return "bad-op"
		}
		r.ws.GetAccountState(c14Addr(a)).SetBalance(v)
		r.cleanSince = -1
		o.Count("op-bal")
		return "ok"
	case t[0] == "set" && len(t) == 4:
		a, ok := atoi(t[1], c14NAcct)
		k, ok2 := atoi(t[2], c14NKey)
		v, ok3 := atoi(t[3], 1<<30)
		if !ok || !ok2 || !ok3 {
			return "bad-op"
		}
		r.cleanSince = -1
		old, err := r.ws.GetAccountState(c14Addr(a)).SetValue(c14Key(k), c14Val(v))
		if err != nil {
			return "err"
		}
		if v == 0 {
			o.Count("op-set-empty-value")
		} else {
			o.Count("op-set")
		}
		return c14UnVal(old)
	case t[0] == "del" && len(t) == 3:
		a, ok := atoi(t[1], c14NAcct)
		k, ok2 := atoi(t[2], c14NKey)
		if !ok || !ok2 {
			return "bad-op"
		}
		r.cleanSince = -1
		old, err := r.ws.GetAccountState(c14Addr(a)).DeleteValue(c14Key(k))
		if err != nil {
			return "err"
		}
		if len(old) > 0 {
			o.Count("op-del-existing")
		} else {
			o.Count("op-del-absent")
		}
		return c14UnVal(old)
	case t[0] == "getbal" && len(t) == 2:
		a, ok := atoi(t[1], c14NAcct)
		if !ok {
			return "bad-op"
		}
		return r.ws.GetAccountState(c14Addr(a)).GetBalance().String()
	case t[0] == "get" && len(t) == 3:
		a, ok := atoi(t[1], c14NAcct)
		k, ok2 := atoi(t[2], c14NKey)
		if !ok || !ok2 {
			return "bad-op"
		}
		v, err := r.ws.GetAccountState(c14Addr(a)).GetValue(c14Key(k))
		if err != nil {
			return "err"
		}
		return c14UnVal(v)
	case t[0] == "sbal" && len(t) == 2:
		a, ok := atoi(t[1], c14NAcct)
		if !ok {
			return "bad-op"
		}
		return r.ws.GetAccountSnapshot(c14Addr(a)).GetBalance().String()
	case t[0] == "sget" && len(t) == 3:
		a, ok := atoi(t[1], c14NAcct)
		k, ok2 := atoi(t[2], c14NKey)
		if !ok || !ok2 {
			return "bad-op"
		}
		v, err := r.ws.GetAccountSnapshot(c14Addr(a)).GetValue(c14Key(k))
		if err != nil {
			return "err"
		}
		return c14UnVal(v)
	case t[0] == "deploy" && len(t) == 3:
		a, ok := atoi(t[1], c14NAcct)
		c, ok2 := atoi(t[2], 1000000)
		if !ok || !ok2 || c == 0 {
			return "bad-op"
		}
		c14CodeNo[string(c14CodeID(c))] = c
		r.cleanSince = -1
		if err := c14Deploy(r.ws.GetAccountState(c14Addr(a)), c); err != nil {
			return "err"
		}
		o.Count("op-deploy")
		return "ok"
	case t[0] == "init" && len(t) == 2:
		a, ok := atoi(t[1], c14NAcct)
		if !ok {
			return "bad-op"
		}
		r.cleanSince = -1
		r.ws.GetAccountState(c14Addr(a)).InitContractAccount(common.NewAccountAddress(make([]byte, 20)))
		o.Count("op-init-contract")
		return "ok"
	case (t[0] == "dep" || t[0] == "acc" || t[0] == "rej") && len(t) == 3:
		a, ok := atoi(t[1], c14NAcct)
		c, ok2 := atoi(t[2], 1000000)
		if !ok || !ok2 || c == 0 {
			return "bad-op"
		}
		c14CodeNo[string(c14CodeID(c))] = c
		r.cleanSince = -1
		as := r.ws.GetAccountState(c14Addr(a))
		var err error
		switch t[0] {
		case "dep":
			_, err = as.DeployContract(c14Code(c), state.JavaEE, state.CTAppJava, nil, c14CodeID(c))
		case "acc":
			err = as.AcceptContract(c14CodeID(c), c14CodeID(c))
		default:
			err = as.RejectContract(c14CodeID(c), c14CodeID(c))
		}
		if err != nil {
			o.Count("op-" + t[0] + "-err")
			return "err"
		}
		o.Count("op-" + t[0])
		return "ok"
	case t[0] == "sog" && len(t) == 4:
		a, ok := atoi(t[1], c14NAcct)
		nh, ok2 := atoi(t[2], 1000)
		g, ok3 := atoi(t[3], 1000000)
		if !ok || !ok2 || !ok3 {
			return "bad-op"
		}
		as := r.ws.GetAccountState(c14Addr(a))
		_, _, id := c14StateMeta(as)
		if id == nil {
			return "nocontract"
		}
		r.cleanSince = -1
		if err := as.SetObjGraph(id, true, nh, c14Val(g)); err != nil {
			return "err"
		}
		o.Count("op-setobjgraph")
		return "ok"
	case t[0] == "gog" && len(t) == 2:
		a, ok := atoi(t[1], c14NAcct)
		if !ok {
			return "bad-op"
		}
		_, g, id := c14StateMeta(r.ws.GetAccountState(c14Addr(a)))
		if id == nil {
			return "nocontract"
		}
		return g
	case t[0] == "sgog" && len(t) == 2:
		a, ok := atoi(t[1], c14NAcct)
		if !ok {
			return "bad-op"
		}
		as := r.ws.GetAccountSnapshot(c14Addr(a))
		if as.Contract() == nil {
			return "nocontract"
		}
		return strings.SplitN(c14SnapMeta(as), ":", 2)[1]
	case t[0] == "snap" && len(t) == 1:
		before := r.live()
		wss := r.ws.GetSnapshot()
		d := c14Dump(wss)
		h := wss.StateHash()
		r.snaps = append(r.snaps, wss)
		r.dumps = append(r.dumps, d)
		r.hash = append(r.hash, append([]byte{}, h...))
		o.Count("op-snap")
		if r.cleanSince >= 0 {
			// only reads / ClearCache / Reset-to / reload-of snapshot cleanSince happened since
			o.Count("snap-without-mutation-since")
			o.Check(bytes.Equal(h, r.hash[r.cleanSince]), "hash-changes-without-mutation", "snapshot %d hash %x, but no mutation since snapshot %d with hash %x", len(r.snaps)-1, h, r.cleanSince, r.hash[r.cleanSince])
		}
		r.cleanSince = len(r.snaps) - 1
		// oracle: the snapshot holds exactly the logical content of the world, and empty accounts are absent
		o.Check(d == before, "snapshot-differs-from-live-content", "world read %q before GetSnapshot, snapshot reads %q", before, d)
		for a := 0; a < c14NAcct; a++ {
			if as := wss.GetAccountSnapshot(c14Addr(a)); as != nil {
				o.Check(!as.IsEmpty(), "empty-account-present-in-trie", "account %d is empty but present in snapshot %d", a, len(r.snaps)-1)
			}
		}
		// oracle: hash is a function of the logical content (fresh state, other order, other db)
		h2 := c14Rebuild(d, r.line)
		o.Check(bytes.Equal(h, h2), "hash-depends-on-history", "content %q: hash %x here, %x when rebuilt from scratch", d, h, h2)
		if d == strings.Repeat("-|", c14NAcct-1)+"-" {
			o.Count("snap-of-empty-world")
		}
		return fmt.Sprintf("s%d %s", len(r.snaps)-1, r.hashNo(h))
	case t[0] == "wreset" && len(t) == 2:
		i, ok := atoi(t[1], len(r.snaps))
		if !ok {
			return "bad-op"
		}
		if err := r.ws.Reset(r.snaps[i]); err != nil {
			return "err"
		}
		r.cleanSince = i
		o.Count("op-wreset")
		// oracle: reset restores exactly the snapshot's observable content
		now := r.live()
		o.Check(now == r.dumps[i], "reset-does-not-restore", "after Reset(snapshot %d) world reads %q, snapshot was %q", i, now, r.dumps[i])
		// also through the account states that are still cached
		for a := 0; a < c14NAcct; a++ {
			as := r.ws.GetAccountState(c14Addr(a))
			want := strings.Split(r.dumps[i], "|")[a]
			got := "-"
			vs := make([]string, c14NKey)
			nz := as.GetBalance().Sign() != 0
			for k := 0; k < c14NKey; k++ {
				v, _ := as.GetValue(c14Key(k))
				vs[k] = c14UnVal(v)
				if len(v) > 0 {
					nz = true
				}
			}
			code, gr, _ := c14StateMeta(as)
			if nz || code != "-" {
				got = as.GetBalance().String() + ":" + strings.Join(vs, ",") + ":" + code + ":" + gr
			}
			o.Check(got == want, "reset-does-not-restore-account-state", "after Reset(snapshot %d) account state %d reads %q, snapshot has %q", i, a, got, want)
		}
		return "ok"
	case t[0] == "cc" && len(t) == 1:
		before := r.live()
		r.ws.ClearCache()
		after := r.live()
		o.Count("op-clearcache")
		o.Check(before == after, "content-changes-on-clearcache", "before %q after %q", before, after)
		return "ok"
	case t[0] == "reload" && len(t) == 2:
		i, ok := atoi(t[1], len(r.snaps))
		if !ok {
			return "bad-op"
		}
		if err := r.snaps[i].Flush(); err != nil {
			return "err"
		}
		h := r.snaps[i].StateHash()
		r.ws = state.NewWorldState(r.dbase, h, nil, nil, nil)
		r.cleanSince = i
		wss := r.ws.GetSnapshot()
		o.Count("op-reload")
		o.Check(bytes.Equal(wss.StateHash(), h), "hash-changes-on-reload", "snapshot %d hash %x, reloaded %x", i, h, wss.StateHash())
		d := c14Dump(wss)
		o.Check(d == r.dumps[i], "content-changes-on-reload", "snapshot %d was %q, reloaded world reads %q", i, r.dumps[i], d)
		return r.hashNo(wss.StateHash())
	case t[0] == "read" && len(t) == 2:
		i, ok := atoi(t[1], len(r.snaps))
		if !ok {
			return "bad-op"
		}
		d, h := r.checkSnap(i, o)
		o.Count("op-read")
		return d + " " + r.hashNo(h)
	}
	return "bad-op"
}
