//go:build c36 || all

package main

import (
	"bytes"
	"encoding/hex"
	"encoding/json"
	"regexp"
	"strings"

	"github.com/icon-project/goloop/common"
	"github.com/icon-project/goloop/server/jsonrpc"
)

func init() {
	Register(&Prop{ID: "C36", Gen: c36Gen, New: func() Runner { return &c36Runner{v: jsonrpc.NewValidator()} }})
}

// c36Canon is the harness' own, independent definition of "canonical text".
var c36Canon = regexp.MustCompile(`\A(hx|cx)[0-9a-f]{40}\z`)

func c36Addr(g *Gen) []byte {
	b := g.Bytes(21)
	switch g.Intn(10) {
	case 0:
		b[0] = byte(g.Pick(2, 3, 0x80, 0xff, 0x10, 0x31))
	default:
		b[0] = byte(g.Intn(2))
	}
	switch g.Intn(8) {
	case 0: // leading zero id bytes
		for i := 1; i < 1+g.Intn(20); i++ {
			b[i] = 0
		}
	case 1:
		for i := 1; i < 21; i++ {
			b[i] = byte(g.Pick(0, 0xff, 0x0a, 0xa0, 0x99, 0xaf))
		}
	}
	return b
}

// c36Text: candidate strings around the canonical form.
func c36Text(g *Gen) []byte {
	a := c36Addr(g)
	a[0] &= 1
	var ad common.Address
	copy(ad[:], a)
	s := []byte(ad.String())
	for m := g.Pick(0, 0, 1, 1, 1, 2, 3); m > 0; m-- {
		switch g.Intn(14) {
		case 0: // upper-case one hex letter (or the whole body)
			if len(s) <= 2 {
				break
			}
			if g.Intn(3) == 0 {
				s = append(s[:2:2], bytes.ToUpper(s[2:])...)
			} else {
				for try := 0; try < 8; try++ {
					p := 2 + g.Intn(len(s)-2)
					if s[p] >= 'a' && s[p] <= 'f' {
						s[p] -= 32
						break
					}
				}
			}
		case 1: // prefix variants
			if len(s) >= 2 {
				copy(s[:2], []string{"Hx", "hX", "HX", "CX", "Cx", "cX", "0x", "0X", "hy", "cx", "hx", "xh", "  ", "h\x00"}[g.Intn(14)])
			}
		case 2: // drop chars (odd / short lengths)
			n := g.Pick(1, 1, 2, 3, 40)
			if n > len(s) {
				n = len(s)
			}
			if g.Intn(2) == 0 {
				s = s[:len(s)-n]
			} else if len(s) >= 2+n {
				s = append(s[:2:2], s[2+n:]...)
			}
		case 3: // extra chars
			ex := []string{"0", "00", "a", "ab", "\n", " ", "g", "0x"}[g.Intn(8)]
			if g.Intn(2) == 0 {
				s = append(s, ex...)
			} else if len(s) >= 2 {
				s = append(s[:2:2], append([]byte(ex), s[2:]...)...)
			}
		case 4: // non-hex ASCII in the body, same length
			if len(s) > 2 {
				s[2+g.Intn(len(s)-2)] = "gGzZ xX-_+.:/@`\x00\x7f"[g.Intn(17)]
			}
		case 5: // non-ASCII, keeping the byte length (2- and 3-byte runes, lower-invariant and not)
			r := []string{"é", "É", "K", "ß", "ı", "ａ", "µ"}[g.Intn(7)]
			if len(s) >= 2+len(r) {
				p := 2 + g.Intn(len(s)-2-len(r)+1)
				copy(s[p:], r)
			}
		case 6: // invalid UTF-8
			if len(s) > 2 {
				s[2+g.Intn(len(s)-2)] = byte(g.Pick(0x80, 0xff, 0xc3, 0xfe))
			}
		case 7: // strip prefix
			if len(s) >= 2 {
				s = s[2:]
			}
		case 8: // double prefix
			s = append([]byte{'h', 'x'}, s...)
			if g.Intn(2) == 0 && len(s) >= 2 {
				s = s[:len(s)-2]
			}
		case 9: // very short
			s = []byte([]string{"", "h", "hx", "cx", "0x", "hx0", "cx1", "1", "ab", "abc", "hxg"}[g.Intn(11)])
		case 10: // long: more than 20 id bytes
			s = append(s, hex.EncodeToString(g.Bytes(1+g.Intn(4)))...)
		case 11: // whitespace around
			if g.Intn(2) == 0 {
				s = append([]byte{' '}, s...)
			} else {
				s = append(s, ' ')
			}
		case 12: // swap prefix type only
			if len(s) >= 1 {
				s[0] ^= 'h' ^ 'c'
			}
		default: // digit replaced by another digit: still canonical
			if len(s) > 2 {
				s[2+g.Intn(len(s)-2)] = "0123456789abcdef"[g.Intn(16)]
			}
		}
	}
	return s
}

func c36Gen(g *Gen) {
	for i := 0; i < g.N; i++ {
		switch g.Intn(10) {
		case 0, 1:
			g.Emit("strict %s", hx(c36Text(g)))
		case 2, 3:
			g.Emit("lenient %s", hx(c36Text(g)))
		case 4, 5:
			g.Emit("validate %s", hx(c36Text(g)))
		case 6, 7:
			g.Emit("print %s", hx(c36Addr(g)))
		case 8:
			var b []byte
			switch g.Intn(4) {
			case 0:
				b = c36Addr(g)
			case 1:
				b = g.Bytes(20)
			default:
				b = g.Bytes(g.Pick(0, 1, 19, 20, 21, 22, 32, 40, 42, g.Intn(45)))
				if len(b) > 0 && g.Intn(2) == 0 {
					b[0] = byte(g.Pick(0, 1, 2, 0xff))
				}
			}
			g.Emit("setbytes %s", hx(b))
		default:
			g.Emit("typeid %d %s", g.Intn(2), hx(g.Bytes(g.Pick(0, 1, 19, 20, 21, 25, g.Intn(30)))))
		}
	}
}

type c36Runner struct {
	v *jsonrpc.Validator
}

func c36Valid(a *common.Address) bool { return a[0] == 0 || a[0] == 1 }

func (r *c36Runner) validate(s string) (eoa, score, addr bool) {
	eoa = r.v.Validate(struct {
		A string `validate:"t_addr_eoa"`
	}{s}) == nil
	score = r.v.Validate(struct {
		A string `validate:"t_addr_score"`
	}{s}) == nil
	addr = r.v.Validate(struct {
		A string `validate:"t_addr"`
	}{s}) == nil
	return
}

func (r *c36Runner) Step(t []string, o *Oracle) string {
	if len(t) < 2 {
		return "bad-op"
	}
	switch t[0] {
	case "strict", "lenient", "validate":
		if len(t) != 2 {
			return "bad-op"
		}
		s := string(unhx(t[1]))
		canon := c36Canon.MatchString(s)
		if canon {
			o.Count("text-canonical")
		} else {
			o.Count("text-noncanonical")
		}
		var a common.Address
		for i := range a {
			a[i] = 0xee // poison: a failed setter must not be observed through stale bytes
		}
		errStrict := (&a).SetStringStrict(s)
		// property: the strict parser accepts only canonical strings (and all of them)
		o.Check((errStrict == nil) == canon, "strict-accepts-noncanonical-or-rejects-canonical", "SetStringStrict(%q) err=%v canonical=%v", s, errStrict, canon)
		if errStrict == nil {
			o.Check(a.String() == s, "strict-parse-print", "SetStringStrict(%q) prints as %q", s, a.String())
			o.Check(c36Valid(&a), "strict-result-type-byte", "SetStringStrict(%q) type byte %d", s, a[0])
			var b common.Address
			o.Check(b.SetString(s) == nil && b == a, "lenient-differs-from-strict", "SetString(%q)=%x strict %x", s, b[:], a[:])
		}
		eoa, score, addr := r.validate(s)
		o.Check(addr == (errStrict == nil), "validator-differs-from-strict-parser", "t_addr(%q)=%v strict err=%v", s, addr, errStrict)
		o.Check(addr == (eoa || score) && !(eoa && score), "validator-alias", "t_addr(%q)=%v eoa=%v score=%v", s, addr, eoa, score)
		if errStrict == nil {
			o.Check(eoa == !a.IsContract() && score == a.IsContract(), "validator-type-mismatch", "%q eoa=%v score=%v contract=%v", s, eoa, score, a.IsContract())
		}
		switch t[0] {
		case "strict":
			if errStrict != nil {
				o.Count("strict-err")
				return "err"
			}
			o.Count("strict-ok")
			return "ok " + hx(a[:])
		case "lenient":
			var b common.Address
			if err := b.SetString(s); err != nil {
				o.Count("lenient-err")
				return "err"
			}
			o.Count("lenient-ok")
			o.Check(c36Valid(&b), "lenient-result-type-byte", "SetString(%q) type byte %d", s, b[0])
			// JSON goes through the lenient parser
			if js, err := json.Marshal(s); err == nil && !strings.ContainsRune(s, 0xfffd) && json.Valid(js) {
				var c common.Address
				if err := json.Unmarshal(js, &c); err == nil {
					var s2 string
					json.Unmarshal(js, &s2)
					if s2 == s {
						o.Check(c == b, "json-differs-from-setstring", "UnmarshalJSON(%s)=%x SetString=%x", js, c[:], b[:])
					}
				}
			}
			return "ok " + hx(b[:])
		default:
			res := "no"
			if eoa {
				res = "eoa"
			} else if score {
				res = "score"
			}
			if addr {
				return res + " addr"
			}
			return res + " -"
		}
	case "print":
		raw := unhx(t[1])
		if len(raw) != common.AddressBytes || len(t) != 2 {
			return "bad-op"
		}
		var a common.Address
		copy(a[:], raw)
		s := a.String()
		if c36Valid(&a) {
			o.Count("print-valid")
			o.Check(c36Canon.MatchString(s), "print-not-canonical", "%x prints as %q", raw, s)
			var b common.Address
			err := b.SetStringStrict(s)
			o.Check(err == nil && b == a, "print-strict-parse", "%x prints as %q, strict-parses to %x (%v)", raw, s, b[:], err)
			var c common.Address
			err = c.SetString(s)
			o.Check(err == nil && c == a, "print-lenient-parse", "%x prints as %q, parses to %x (%v)", raw, s, c[:], err)
			var d common.Address
			err = d.SetBytes(a.Bytes())
			o.Check(err == nil && d == a, "bytes-roundtrip", "%x SetBytes(Bytes()) = %x (%v)", raw, d[:], err)
			if !a.IsContract() {
				var e common.Address
				err = e.SetBytes(a.ID())
				o.Check(err == nil && e == a, "bytes-roundtrip-20", "%x SetBytes(ID()) = %x (%v)", raw, e[:], err)
			}
			js, err := json.Marshal(&a)
			var f common.Address
			o.Check(err == nil && json.Unmarshal(js, &f) == nil && f == a, "json-roundtrip", "%x JSON %s -> %x", raw, js, f[:])
			_, _, addr := r.validate(s)
			o.Check(addr, "validator-rejects-printed", "t_addr rejects %q", s)
		} else {
			o.Count("print-invalid-type-byte")
		}
		return hx([]byte(s))
	case "setbytes":
		if len(t) != 2 {
			return "bad-op"
		}
		in := unhx(t[1])
		var a common.Address
		for i := range a {
			a[i] = 0xee
		}
		err := a.SetBytes(in)
		want := (len(in) == 21 && in[0] <= 1) || len(in) == 20
		o.Check((err == nil) == want, "setbytes-accept-set", "SetBytes(%x) err=%v", in, err)
		if err != nil {
			o.Count("setbytes-err")
			return "err"
		}
		o.Count("setbytes-ok")
		o.Check(c36Valid(&a), "setbytes-result-type-byte", "SetBytes(%x) type byte %d", in, a[0])
		if len(in) == 21 {
			o.Check(bytes.Equal(a.Bytes(), in), "setbytes-bytes-roundtrip", "SetBytes(%x).Bytes()=%x", in, a.Bytes())
		} else {
			o.Check(a[0] == 0 && bytes.Equal(a.ID(), in), "setbytes-bytes-roundtrip-20", "SetBytes(%x).Bytes()=%x", in, a.Bytes())
		}
		return "ok " + hx(a[:])
	case "typeid":
		if len(t) != 3 || (t[1] != "0" && t[1] != "1") {
			return "bad-op"
		}
		id := unhx(t[2])
		a := common.NewAddressWithTypeAndID(t[1] == "1", id)
		o.Check(c36Valid(a) && a.IsContract() == (t[1] == "1"), "typeid-type-byte", "SetTypeAndID(%s,%x) = %x", t[1], id, a[:])
		return hx(a[:])
	}
	return "bad-op"
}
