//go:build c05 || all

package main

import (
	"bytes"
	"fmt"
	"io"
	"os"
	"runtime/debug"
	"strconv"
	"strings"
	"time"

	"github.com/icon-project/goloop/block"
	"github.com/icon-project/goloop/common/codec"
	"github.com/icon-project/goloop/common/crypto"
	"github.com/icon-project/goloop/common/db"
	"github.com/icon-project/goloop/common/log"
	"github.com/icon-project/goloop/common/wallet"
	"github.com/icon-project/goloop/consensus"
	"github.com/icon-project/goloop/module"
	"github.com/icon-project/goloop/service/state"
	"github.com/icon-project/goloop/test"
)

func init() {
	Register(&Prop{ID: "C05", Gen: c05Gen, New: c05New})
}

// ---------------------------------------------------------------- generator
//
//   vb <std|h0|nilv> <n> <round> <item>...
//   item: v<k>  signature of key k over the exact target (keys 0..n-1 are the validators, k>=n foreign)
//         wb<k> wr<k> wp<k> wa<k> wt<k> wh<k> wy<k>: key k signed another block id / round / part set /
//               app data / timestamp / height / vote type
//         f<j>  random 65 bytes as signature
//   enough <voted> <voters>

func c05Gen(g *Gen) {
	kinds := []string{"wb", "wr", "wp", "wa", "wt", "wh", "wy"}
	for i := 0; i < g.N; i++ {
		g.Emit("reset") // every op is its own case (the import cases are the ops between two resets)
		if g.Intn(25) == 0 {
			v := g.Intn(14)
			g.Emit("enough %d %d", g.Pick(v*2/3, v*2/3+1, v*2/3+2, g.Intn(v+2), 0), v)
			continue
		}
		n := g.Pick(1, 2, 3, 4, 5, 6, 7, 8, 9, 10, 1+g.Intn(10))
		if g.Intn(30) == 0 {
			n = 0
		}
		if g.Intn(4) == 0 {
			c05GenPB(g, n)
			continue
		}
		if g.Intn(20) == 0 {
			c05GenChain(g)
			continue
		}
		if g.Intn(12) == 0 {
			c05GenSnapshots(g)
			continue
		}
		mode := "std"
		switch g.Intn(30) {
		case 0:
			mode = "h0"
		case 1:
			mode = "nilv"
		}
		// a subset of the validators, size around the threshold
		q := n * 2 / 3
		m := g.Pick(q, q+1, q+1, q+1, q+2, n, n, g.Intn(n+1))
		if m > n {
			m = n
		}
		if m < 0 {
			m = 0
		}
		if mode != "std" && g.Intn(2) == 0 {
			m = 0
		}
		perm := g.R.Perm(n)
		items := make([]string, 0, m+2)
		for _, k := range perm[:m] {
			items = append(items, fmt.Sprintf("v%d", k))
		}
		// mutations
		switch g.Intn(10) {
		case 0, 1, 2, 3: // clean
		case 4: // replace one by a wrong-target / forged signature
			if len(items) > 0 {
				j := g.Intn(len(items))
				k := items[j][1:]
				if g.Intn(4) == 0 {
					items[j] = fmt.Sprintf("f%d", g.Intn(1000))
				} else {
					items[j] = kinds[g.Intn(len(kinds))] + k
				}
			}
		case 5: // duplicate one (replace another, or append)
			if len(items) > 0 {
				j := g.Intn(len(items))
				if g.Intn(2) == 0 || len(items) < 2 {
					items = append(items, items[j])
				} else {
					j2 := (j + 1 + g.Intn(len(items)-1)) % len(items)
					items[j2] = items[j]
				}
			}
		case 6: // add / substitute a foreign key
			f := fmt.Sprintf("v%d", n+g.Intn(3))
			if len(items) > 0 && g.Intn(2) == 0 {
				items[g.Intn(len(items))] = f
			} else {
				items = append(items, f)
			}
		case 7: // pad a short list with wrong-target signatures of the missing validators
			for _, k := range perm[m:] {
				if g.Intn(2) == 0 {
					items = append(items, fmt.Sprintf("%s%d", kinds[g.Intn(len(kinds))], k))
				}
			}
		case 8: // pad a short list with duplicates up to beyond the threshold
			for len(items) > 0 && len(items) <= q+1 {
				items = append(items, items[g.Intn(len(items))])
			}
		case 9: // append junk
			items = append(items, fmt.Sprintf("f%d", g.Intn(1000)))
		}
		g.R.Shuffle(len(items), func(a, b int) { items[a], items[b] = items[b], items[a] })
		g.Emit("vb %s %d %d %s", mode, n, g.Pick(0, 0, 1, 2, 7), strings.Join(items, " "))
	}
}

// chain <A> <B> <C> <D> / imp <round> <items>: the import path on a real block manager.
// A chain genesis(validators A) - b1(sets B) - b2(sets C) - b3(sets D) is built; every `imp` imports a
// candidate block 4 on b3 whose votes (the certificate for b3) are the given items. The designated
// voters of b3 are NextValidators(b2) = C. Items: k<key> right target, k<key>h signed height+1,
// k<key>b signed the id of b2, k<key>r signed round+1; keys are a pool of 6 wallets.
func c05GenChain(g *Gen) {
	set := func() []int {
		m := g.Pick(1, 2, 3, 3, 4, 4)
		return g.R.Perm(6)[:m]
	}
	js := func(xs []int) string {
		ss := make([]string, len(xs))
		for i, x := range xs {
			ss[i] = strconv.Itoa(x)
		}
		return strings.Join(ss, ".")
	}
	A, B, C, D := set(), set(), set(), set()
	if g.Intn(3) == 0 { // same size, disjoint where possible: C and D differ completely
		p := g.R.Perm(6)
		m := g.Pick(1, 2, 3)
		B, C = p[:m], p[m:2*m]
	}
	g.Emit("chain %s %s %s %s", js(A), js(B), js(C), js(D))
	// NextValidators of heights 0..3 are A, A, B, C: designated voters of b3 = B, b3's own next validators = C
	des, own, old := B, C, A
	_ = D
	full := func(xs []int, suffix string) []string {
		var it []string
		for _, k := range xs {
			it = append(it, fmt.Sprintf("k%d%s", k, suffix))
		}
		return it
	}
	for j := 0; j < 10; j++ {
		var items []string
		switch g.Intn(10) {
		case 0, 1: // the designated set, all of it or a quorum-sized part
			items = full(des, "")
			if g.Intn(2) == 0 {
				q := len(des)*2/3 + g.Pick(0, 1)
				if q < len(items) {
					items = items[:q]
				}
			}
		case 2: // the set the block itself designates
			items = full(own, "")
		case 3:
			items = full(old, "")
		case 4:
			items = full(D, "")
		case 5: // right signers, wrong target
			items = full(des, g.c05Pick2("h", "b", "r"))
		case 6: // one wrong-target item among right ones
			items = full(des, "")
			if len(items) > 0 {
				items[g.Intn(len(items))] += g.c05Pick2("h", "b", "r")
			}
		case 7: // union of all sets (members outside C must make it fail)
			seen := map[int]bool{}
			for _, xs := range [][]int{des, own, old} {
				for _, k := range xs {
					if !seen[k] {
						seen[k] = true
						items = append(items, fmt.Sprintf("k%d", k))
					}
				}
			}
		case 8: // duplicate
			items = full(des, "")
			items = append(items, items[0])
		case 9: // empty
		}
		g.R.Shuffle(len(items), func(a, b int) { items[a], items[b] = items[b], items[a] })
		g.Emit("imp %d %s", g.Pick(0, 0, 1, 2), strings.Join(items, " "))
	}
}

func (g *Gen) c05Pick2(xs ...string) string { return xs[g.R.Intn(len(xs))] }

// validator snapshot histories (one case): vnew <keys> | vwarm <snap> | vder <snap> | vrep <old> <new> |
// vset <i> <key> | vadd <key> | vrem <key> | vsnap | vver <snap> <keys...>. Keys are a pool of 8 wallets.
// A real state.ValidatorSnapshot is created, used (IndexOf / VerifyBlock build its address cache), a
// ValidatorState is derived from it and changed, and commit vote lists are verified against the OLD and
// the NEW snapshot objects.
func c05GenSnapshots(g *Gen) {
	n := g.Pick(3, 4, 4, 5)
	perm := g.R.Perm(8)
	cur := append([]int(nil), perm[:n]...)
	out := append([]int(nil), perm[n:]...) // keys not in the set
	js := func(xs []int) string {
		ss := make([]string, len(xs))
		for i, x := range xs {
			ss[i] = strconv.Itoa(x)
		}
		return strings.Join(ss, " ")
	}
	g.Emit("vnew %s", strings.ReplaceAll(js(cur), " ", "."))
	snaps := [][]int{append([]int(nil), cur...)}
	verify := func(j int) {
		l := snaps[j]
		q := len(l)*2/3 + 1
		var keys []int
		switch g.Intn(6) {
		case 0, 1: // members, quorum or all
			keys = append(keys, l...)
			g.R.Shuffle(len(keys), func(a, b int) { keys[a], keys[b] = keys[b], keys[a] })
			if g.Intn(2) == 0 && q < len(keys) {
				keys = keys[:q]
			}
		case 2: // quorum-1 members + one key that is (or became) a member of another snapshot
			keys = append(keys, l...)
			g.R.Shuffle(len(keys), func(a, b int) { keys[a], keys[b] = keys[b], keys[a] })
			if q-1 < len(keys) {
				keys = keys[:q-1]
			}
			other := snaps[g.Intn(len(snaps))]
			keys = append(keys, other[g.Intn(len(other))])
		case 3: // the members of another snapshot
			keys = append(keys, snaps[g.Intn(len(snaps))]...)
		case 4: // members + an outsider
			keys = append(keys, l...)
			keys = append(keys, g.Intn(8))
		case 5: // too few
			keys = append(keys, l[:len(l)*2/3]...)
		}
		g.Emit("vver %d %s", j, js(keys))
	}
	if g.Intn(4) > 0 {
		if g.Intn(2) == 0 {
			g.Emit("vwarm 0")
		} else {
			verify(0)
		}
	}
	for round := 0; round < 1+g.Intn(2); round++ {
		base := g.Intn(len(snaps))
		if g.Intn(3) > 0 {
			base = len(snaps) - 1
		}
		g.Emit("vder %d", base)
		cur = append([]int(nil), snaps[base]...)
		outs := []int{}
		for k := 0; k < 8; k++ {
			in := false
			for _, x := range cur {
				if x == k {
					in = true
				}
			}
			if !in {
				outs = append(outs, k)
			}
		}
		out = outs
		for m := 0; m < 1+g.Intn(3); m++ {
			switch g.Intn(8) {
			case 0, 1, 2: // replace a member by an outsider
				if len(out) > 0 && len(cur) > 0 {
					i, j := g.Intn(len(cur)), g.Intn(len(out))
					g.Emit("vrep %d %d", cur[i], out[j])
					cur[i], out[j] = out[j], cur[i]
				}
			case 3, 4:
				if len(out) > 0 && len(cur) > 0 {
					i, j := g.Intn(len(cur)), g.Intn(len(out))
					g.Emit("vset %d %d", i, out[j])
					cur[i], out[j] = out[j], cur[i]
				}
			case 5:
				if len(out) > 0 {
					j := g.Intn(len(out))
					g.Emit("vadd %d", out[j])
					cur = append(cur, out[j])
					out = append(out[:j], out[j+1:]...)
				}
			case 6:
				if len(cur) > 2 {
					i := g.Intn(len(cur))
					g.Emit("vrem %d", cur[i])
					out = append(out, cur[i])
					cur = append(cur[:i], cur[i+1:]...)
				}
			case 7: // refused operations
				if len(cur) > 1 {
					g.Emit("vrep %d %d", cur[0], cur[1])
					g.Emit("vset %d %d", len(cur)+1, cur[0])
				}
			}
			if g.Intn(3) == 0 { // the old snapshot is used while the state is being changed
				verify(g.Intn(len(snaps)))
			}
		}
		g.Emit("vsnap")
		snaps = append(snaps, append([]int(nil), cur...))
		for k := 0; k < 2+g.Intn(3); k++ {
			verify(g.Intn(len(snaps)))
		}
		if g.Intn(2) == 0 {
			g.Emit("vwarm %d", g.Intn(len(snaps)))
		}
	}
}

// pb <n> <round> <pseq> <pre> <items>: the fast-sync path (consensus.processBlock)
//
//	pre   = '-' or k:d:ts,...  precommits already in the height vote set (d: 1 target, 2 other block, 0 nil)
//	items = '-' or v<k>:<ts> | w<k>:<ts> | f<j>:<ts>, ...
func c05GenPB(g *Gen, n int) {
	q := n * 2 / 3
	var items, pre []string
	distinct := func(m int) []int {
		if m > n {
			m = n
		}
		if m < 0 {
			m = 0
		}
		return g.R.Perm(n)[:m]
	}
	ts := func() int { return 100 + g.Intn(4) }
	switch g.Intn(8) {
	case 0: // one signer repeated with different timestamps (2..n copies), maybe a few others
		if n > 0 {
			k := g.Intn(n)
			c := 2 + g.Intn(n)
			if g.Intn(2) == 0 {
				c = g.Pick(q, q+1, q+2, n)
			}
			for j := 0; j < c; j++ {
				items = append(items, fmt.Sprintf("v%d:%d", k, 100+j))
			}
			for _, o := range distinct(g.Intn(q + 1)) {
				if o != k && g.Intn(2) == 0 {
					items = append(items, fmt.Sprintf("v%d:%d", o, ts()))
				}
			}
		}
	case 1: // one signer repeated with identical items
		if n > 0 {
			k := g.Intn(n)
			t := ts()
			for j := 0; j < g.Pick(2, q+1, q+2, n); j++ {
				items = append(items, fmt.Sprintf("v%d:%d", k, t))
			}
			for _, o := range distinct(g.Intn(q + 1)) {
				if o != k {
					items = append(items, fmt.Sprintf("v%d:%d", o, ts()))
				}
			}
		}
	case 2: // mixed: too few distinct signers, padded beyond the threshold with repeats (same / other ts)
		m := g.Pick(1, q-1, q)
		if m < 1 {
			m = 1
		}
		ds := distinct(m)
		for _, k := range ds {
			items = append(items, fmt.Sprintf("v%d:%d", k, 100))
		}
		for len(ds) > 0 && len(items) <= q+1+g.Intn(2) {
			k := ds[g.Intn(len(ds))]
			items = append(items, fmt.Sprintf("v%d:%d", k, 100+g.Intn(2)*(1+len(items))))
		}
	case 3, 4: // distinct signers around the threshold
		for _, k := range distinct(g.Pick(q, q+1, q+1, q+2, n)) {
			items = append(items, fmt.Sprintf("v%d:%d", k, ts()))
		}
	case 5: // quorum of distinct signers plus repeats
		ds := distinct(g.Pick(q+1, q+1, n))
		for _, k := range ds {
			items = append(items, fmt.Sprintf("v%d:%d", k, 100))
		}
		for j := g.Intn(3); j > 0 && len(ds) > 0; j-- {
			items = append(items, fmt.Sprintf("v%d:%d", ds[g.Intn(len(ds))], 100+g.Intn(3)))
		}
	case 6: // votes already in the height vote set, list around the threshold
		for _, k := range distinct(g.Intn(n + 1)) {
			pre = append(pre, fmt.Sprintf("%d:%d:%d", k, g.Pick(1, 1, 2, 2, 0), ts()))
		}
		for _, k := range distinct(g.Pick(q-1, q, q+1, n)) {
			items = append(items, fmt.Sprintf("v%d:%d", k, ts()))
		}
		if n > 0 && g.Intn(2) == 0 {
			k := g.Intn(n)
			items = append(items, fmt.Sprintf("v%d:%d", k, 104), fmt.Sprintf("v%d:%d", k, 105))
		}
	case 7: // a bad item among good ones
		for _, k := range distinct(g.Pick(q+1, n)) {
			items = append(items, fmt.Sprintf("v%d:%d", k, ts()))
		}
		bad := []string{fmt.Sprintf("w%d:%d", g.Intn(n+1), ts()), fmt.Sprintf("f%d:%d", 1+g.Intn(999), ts()), fmt.Sprintf("v%d:%d", n+g.Intn(2), ts())}[g.Intn(3)]
		if len(items) > 0 && g.Intn(2) == 0 {
			items[g.Intn(len(items))] = bad
		} else {
			items = append(items, bad)
		}
	}
	g.R.Shuffle(len(items), func(a, b int) { items[a], items[b] = items[b], items[a] })
	pseq := 1
	if g.Intn(10) == 0 {
		pseq = 0
	}
	j := func(xs []string) string {
		if len(xs) == 0 {
			return "-"
		}
		return strings.Join(xs, ",")
	}
	g.Emit("pb %d %d %d %s %s", n, g.Pick(0, 0, 1, 3), pseq, j(pre), j(items))
}

// ---------------------------------------------------------------- material

var c05Wallets []module.Wallet

func c05Wallet(i int) module.Wallet {
	for len(c05Wallets) <= i {
		sk, err := crypto.ParsePrivateKey(crypto.SHA3Sum256([]byte(fmt.Sprintf("verif-c05-key-%d", len(c05Wallets)))))
		if err != nil {
			panic(err)
		}
		w, _ := wallet.NewFromPrivateKey(sk)
		c05Wallets = append(c05Wallets, w)
	}
	return c05Wallets[i]
}

var c05VLists = map[int]module.ValidatorList{}

func c05Validators(n int) module.ValidatorList {
	if vl, ok := c05VLists[n]; ok {
		return vl
	}
	vs := make([]module.Validator, n)
	for i := range vs {
		v, err := state.ValidatorFromAddress(c05Wallet(i).Address())
		if err != nil {
			panic(err)
		}
		vs[i] = v
	}
	vl, err := state.ValidatorSnapshotFromSlice(db.NewMapDB(), vs)
	if err != nil {
		panic(err)
	}
	c05VLists[n] = vl
	return vl
}

type c05Block struct {
	module.BlockData
	height int64
	id     []byte
}

func (b *c05Block) Height() int64 { return b.height }
func (b *c05Block) ID() []byte    { return b.id }

type c05Runner struct {
	seq int
	// import fixture
	t     *c05T
	nd    *test.Node
	keys  []module.Wallet
	sets  [][]int
	nv    [][]int // NextValidators of heights 0..3 (key indices)
	b2    module.Block
	b3    module.Block
	hf    *block.V2HeaderFormat
	bf    *block.V2BodyFormat
	count int
	// validator snapshot histories
	vsnaps []state.ValidatorSnapshot
	vaddrs [][]string // addresses of every snapshot, captured when it was created
	vstate state.ValidatorState
}

type c05T struct{ errs []string }

func (t *c05T) Errorf(format string, args ...interface{}) {
	t.errs = append(t.errs, fmt.Sprintf(format, args...))
}
func (t *c05T) Logf(format string, args ...any) {}

var c05Current *c05Runner

func c05New() Runner {
	if c05Current != nil {
		c05Current.close()
	}
	c05Current = &c05Runner{}
	return c05Current
}

func (r *c05Runner) close() {
	if r.nd != nil {
		func() {
			defer func() { recover() }()
			r.nd.Close()
		}()
		r.nd = nil
	}
}

func c05Quiet(f func()) {
	old := os.Stderr
	if dn, err := os.OpenFile(os.DevNull, os.O_WRONLY, 0); err == nil {
		os.Stderr = dn
		defer func() { os.Stderr = old; dn.Close() }()
	}
	f()
}

func c05ParseSet(s string) ([]int, bool) {
	var out []int
	for _, p := range strings.Split(s, ".") {
		v, err := strconv.Atoi(p)
		if err != nil || v < 0 || v > 5 {
			return nil, false
		}
		out = append(out, v)
	}
	return out, len(out) > 0
}

// precommits of the given keys for (height, round, id) -> commit vote list
func (r *c05Runner) cert(keys []int, height int64, round int32, id []byte, ts int64) module.CommitVoteSet {
	msgs := make([]*consensus.VoteMessage, len(keys))
	for i, k := range keys {
		msgs[i] = consensus.NewVoteMessage(r.keys[k], consensus.VoteTypePrecommit, height, round, id, nil, ts, nil, nil, 0)
	}
	if len(msgs) == 0 {
		return consensus.NewEmptyCommitVoteList()
	}
	return consensus.NewCommitVoteList(nil, msgs...)
}

func (r *c05Runner) addrs(set []int) []module.Address {
	as := make([]module.Address, len(set))
	for i, k := range set {
		as[i] = r.keys[k].Address()
	}
	return as
}

var c05TxSerial int64

// every transaction of every chain gets its own timestamp, so that no two have the same id
func (r *c05Runner) setValidatorsTx(set []int) string {
	c05TxSerial++
	return r.nd.NewTx().SetValidators(r.addrs(set)...).SetTimestamp(c05TxSerial).String()
}

// waitTx waits until the transaction of the block just finalized is visible in the locator
// bucket, which is what the fixture's transaction pool is filtered against.
func (r *c05Runner) waitTx() {
	if len(r.t.errs) > 0 {
		return
	}
	tx, err := r.nd.LastBlock.NormalTransactions().Get(0)
	if err != nil {
		return
	}
	bk, err := r.nd.Chain.Database().GetBucket(db.TransactionLocatorByHash)
	if err != nil {
		return
	}
	for i := 0; i < 500; i++ {
		if bs, err := bk.Get(tx.ID()); err == nil && bs != nil {
			return
		}
		time.Sleep(5 * time.Millisecond)
	}
}

func (r *c05Runner) startChain(t []string, o *Oracle) string {
	defer func() {
		if e := recover(); e != nil {
			if os.Getenv("VERIF_DEBUG") != "" {
				fmt.Fprintf(os.Stderr, "c05 chain: %v %v\n%s\n", e, r.t.errs, debug.Stack())
			}
			if r.t != nil {
				msg := strings.Join(strings.Fields(strings.Join(r.t.errs, " ")), " ")
				o.Check(!strings.Contains(msg, "bad voter"), "c05-certificate-verified-against-wrong-validator-set",
					"building genesis(A)-b1-b2-b3 with certificates of the designated voters (NextValidators of the block two below) fails: %.300s", msg)
			}
			panic(e)
		}
	}()
	r.close()
	log.GlobalLogger().SetOutput(io.Discard)
	log.GlobalLogger().SetLevel(log.PanicLevel)
	r.sets = nil
	for _, s := range t[1:5] {
		set, ok := c05ParseSet(s)
		if !ok {
			return "bad-op"
		}
		r.sets = append(r.sets, set)
	}
	r.t = &c05T{}
	r.keys = make([]module.Wallet, 6)
	for i := range r.keys {
		r.keys[i] = c05Wallet(20 + i)
	}
	var vs []string
	for _, a := range r.addrs(r.sets[0]) {
		vs = append(vs, fmt.Sprintf(`"%s"`, a))
	}
	gs := fmt.Sprintf(`{
		"accounts": [
			{"name": "treasury", "address": "hx1000000000000000000000000000000000000000", "balance": "0x0"},
			{"name": "god", "address": "hx0000000000000000000000000000000000000000", "balance": "0x0"}
		],
		"message": "",
		"nid": "0x1",
		"chain": {"validatorList": [ %s ]}
	}`, strings.Join(vs, ", "))
	c05Quiet(func() {
		r.nd = test.NewNode(r.t, test.UseGenesis(gs))
		// A block carries the result of executing its parent's transactions, so the validator change
		// requested in block k shows in NextValidators(block k+1): with the change to B sent in b1 and
		// to C in b2: NextValidators(g) = NextValidators(b1) = A, NextValidators(b2) = B, NextValidators(b3) = C.
		r.nd.ProposeFinalizeBlockWithTX(consensus.NewEmptyCommitVoteList(), r.setValidatorsTx(r.sets[1]))
		r.waitTx()
		b1 := r.nd.LastBlock
		r.nd.ProposeFinalizeBlockWithTX(r.cert(r.sets[0], b1.Height(), 0, b1.ID(), b1.Timestamp()+1), r.setValidatorsTx(r.sets[2]))
		r.waitTx()
		r.b2 = r.nd.LastBlock
		r.nd.ProposeFinalizeBlockWithTX(r.cert(r.sets[0], r.b2.Height(), 0, r.b2.ID(), r.b2.Timestamp()+1), r.setValidatorsTx(r.sets[3]))
		r.waitTx()
		r.b3 = r.nd.LastBlock
	})
	if len(r.t.errs) > 0 {
		msg := strings.Join(strings.Fields(strings.Join(r.t.errs, " ")), " ")
		// the chain is built with certificates signed by the designated voters of each block
		o.Check(!strings.Contains(msg, "bad voter"), "c05-certificate-verified-against-wrong-validator-set",
			"building genesis(A)-b1-b2-b3 with certificates of the designated voters (NextValidators of the block two below) fails: %.300s", msg)
		if len(msg) > 200 {
			msg = msg[:200]
		}
		return "harness-error:chain:" + msg
	}
	r.nv = [][]int{r.sets[0], r.sets[0], r.sets[1], r.sets[2]}
	for h, set := range r.nv {
		blk, err := r.nd.BM.GetBlockByHeight(int64(h))
		if err != nil || blk.NextValidators().Len() != len(set) {
			return fmt.Sprintf("harness-error:nextvalidators:%d", h)
		}
		for i, k := range set {
			if v, ok := blk.NextValidators().Get(i); !ok || !v.Address().Equal(r.keys[k].Address()) {
				return fmt.Sprintf("harness-error:nextvalidators:%d/%d", h, i)
			}
		}
	}
	// template of a valid child of b3 (certificate by the designated voters NextValidators(b2)).
	// The fixture's transaction pool is filtered against the locator database when a block is
	// finalized; until that write is visible a proposal may carry b3's transaction again, so the
	// template is re-proposed until it has no transactions.
	var bc module.BlockCandidate
	for try := 0; ; try++ {
		var err, cbErr error
		c05Quiet(func() {
			bc, err, cbErr = test.ProposeBlock(r.nd.BM, r.b3.ID(), r.cert(r.nv[2], r.b3.Height(), 0, r.b3.ID(), r.b3.Timestamp()+1))
		})
		if err != nil || cbErr != nil {
			o.Check(!strings.Contains(fmt.Sprint(err, cbErr), "bad voter"), "c05-certificate-verified-against-wrong-validator-set",
				"proposing on b3 with the certificate of its designated voters %v fails: %v %v", r.nv[2], err, cbErr)
			return fmt.Sprintf("harness-error:template:%v %v", err, cbErr)
		}
		var hb, bb bytes.Buffer
		if bc.MarshalHeader(&hb) != nil || bc.MarshalBody(&bb) != nil {
			return "harness-error:marshal"
		}
		r.hf, r.bf = new(block.V2HeaderFormat), new(block.V2BodyFormat)
		if _, err := codec.BC.UnmarshalFromBytes(hb.Bytes(), r.hf); err != nil {
			return "harness-error:hf"
		}
		if _, err := codec.BC.UnmarshalFromBytes(bb.Bytes(), r.bf); err != nil {
			return "harness-error:bf"
		}
		if len(r.bf.NormalTransactions) == 0 && len(r.bf.PatchTransactions) == 0 {
			break
		}
		bc.Dispose()
		if try > 200 {
			return "harness-error:template-has-transactions"
		}
		time.Sleep(10 * time.Millisecond)
	}
	bc.Dispose()
	return "ok"
}

func (r *c05Runner) stepImp(t []string, o *Oracle) string {
	if r.nd == nil || r.hf == nil || len(t) < 2 {
		return "bad-op"
	}
	round, err := strconv.Atoi(t[1])
	if err != nil || round < 0 || round > 100 {
		return "bad-op"
	}
	r.count++
	ts := r.b3.Timestamp() + 10 + int64(r.count)
	C := r.nv[2] // voters designated for b3: NextValidators(b2)
	inSet := func(set []int, k int) bool {
		for _, x := range set {
			if x == k {
				return true
			}
		}
		return false
	}
	msgs := make([]*consensus.VoteMessage, 0, len(t)-2)
	allRight, allInC, distinct := true, true, true
	seen := map[int]bool{}
	outsider := false // a correctly targeted signature of a validator of another block's set, not of C
	for _, it := range t[2:] {
		if len(it) < 2 || it[0] != 'k' {
			return "bad-op"
		}
		suffix := ""
		num := it[1:]
		if c := it[len(it)-1]; c == 'h' || c == 'b' || c == 'r' {
			suffix, num = string(c), it[1:len(it)-1]
		}
		k, err := strconv.Atoi(num)
		if err != nil || k < 0 || k > 5 {
			return "bad-op"
		}
		h, rd, id := r.b3.Height(), int32(round), r.b3.ID()
		switch suffix {
		case "h":
			h++
		case "b":
			id = r.b2.ID()
		case "r":
			rd++
		}
		if suffix != "" {
			allRight = false
			o.Count("imp-item-wrong-target")
		}
		if !inSet(C, k) {
			allInC = false
			if suffix == "" && (inSet(r.nv[3], k) || inSet(r.nv[1], k) || inSet(r.sets[3], k)) {
				outsider = true
			}
		}
		if seen[k] {
			distinct = false
		}
		seen[k] = true
		msgs = append(msgs, consensus.NewVoteMessage(r.keys[k], consensus.VoteTypePrecommit, h, rd, id, nil, ts, nil, nil, 0))
	}
	// the list itself states `round`; wrong-target items were signed over something else
	var votes module.CommitVoteSet
	if len(msgs) == 0 {
		cvl := consensus.NewEmptyCommitVoteList().(*consensus.CommitVoteList)
		cvl.Round = int32(round)
		votes = cvl
	} else {
		tss := make([]int64, len(msgs))
		sigs := make([][]byte, len(msgs))
		for i, m := range msgs {
			tss[i] = ts
			sigs[i] = consensus.VerifVoteSignatureBytes(m)
		}
		v, err := consensus.VerifRawCommitVoteList(int32(round), nil, tss, sigs)
		if err != nil {
			return "bad-op"
		}
		votes = v
	}
	h2, b2 := *r.hf, *r.bf
	h2.Timestamp = votes.Timestamp()
	if len(msgs) == 0 {
		h2.Timestamp = ts
	}
	h2.VotesHash = votes.Hash()
	b2.Votes = votes.Bytes()
	bd, err := r.nd.BM.NewBlockDataFromReader(block.NewBlockReaderFromFormat(&h2, &b2))
	if err != nil {
		return "harness-error:decode"
	}
	type res struct {
		bc  module.BlockCandidate
		err error
	}
	ch := make(chan res, 1)
	var ierr error
	c05Quiet(func() {
		_, ierr = r.nd.BM.ImportBlock(bd, 0, func(bc module.BlockCandidate, err error) { ch <- res{bc, err} })
	})
	verdict := "accept"
	if ierr != nil {
		msg := ierr.Error()
		switch {
		case strings.Contains(msg, "bad voter"), strings.Contains(msg, "bad signature"), strings.Contains(msg, "duplicated validator"),
			strings.Contains(msg, "<= 2/3 of validators"), strings.Contains(msg, "voters for height 0"):
			verdict = "reject:cert"
		default:
			verdict = "reject:other:" + strings.Join(strings.Fields(msg), "_")
		}
	} else {
		select {
		case x := <-ch:
			if x.err != nil {
				verdict = "reject:async:" + strings.Join(strings.Fields(x.err.Error()), "_")
			} else if x.bc != nil {
				x.bc.Dispose()
			}
		case <-time.After(30 * time.Second):
			verdict = "harness-error:timeout"
		}
	}
	o.Count("imp-" + strings.SplitN(verdict, ":", 3)[0])
	m := len(msgs)
	good := allRight && allInC && distinct && 3*m > 2*len(C)
	if verdict == "accept" {
		if outsider || !allInC {
			o.Check(false, "c05-certificate-verified-against-wrong-validator-set",
				"import accepted a certificate for block %d signed by %v; the voters designated by block %d are keys %v (block's own next validators %v)",
				r.b3.Height(), t[2:], r.b2.Height(), C, r.nv[3])
		} else {
			o.Check(good, "c05-import-accepted-bad-certificate", "import accepted certificate %v (round %d) for designated voters %v", t[2:], round, C)
		}
	} else if good {
		o.Check(false, "c05-import-rejected-valid-certificate", "%s for %v, designated voters %v", verdict, t[2:], C)
	}
	if outsider {
		o.Count("imp-other-set-signer")
	}
	return verdict
}

func (b *c05Block) NTSHashEntryList() (module.NTSHashEntryList, error) {
	return module.ZeroNTSHashEntryList{}, nil
}

// the last finalized block as processBlock sees it: Result() and NextValidators() only
type c05PrevBlock struct {
	module.Block
	validators module.ValidatorList
}

func (b *c05PrevBlock) Result() []byte                       { return nil }
func (b *c05PrevBlock) NextValidators() module.ValidatorList { return b.validators }

func c05Split(s string) []string {
	if s == "-" {
		return nil
	}
	return strings.Split(s, ",")
}

func c05ProcessBlock(bs []byte, blk module.BlockData, prev module.Block, validators module.ValidatorList,
	psid *consensus.PartSetID, preIdx []int, pre []*consensus.VoteMessage) (res string, panicked interface{}) {
	defer func() {
		if e := recover(); e != nil {
			panicked = e
		}
	}()
	res = consensus.VerifC05ProcessBlockAccepts(bs, blk, prev, validators, c05DB, psid, preIdx, pre)
	return
}

func (r *c05Runner) stepPB(t []string, o *Oracle) string {
	n, e1 := strconv.Atoi(t[1])
	round, e2 := strconv.Atoi(t[2])
	pseq, e3 := strconv.Atoi(t[3])
	if e1 != nil || e2 != nil || e3 != nil || n < 0 || n > 64 || round < 0 || pseq < 0 || pseq > 1 {
		return "bad-op"
	}
	r.seq++
	height := int64(12)
	bid := c05Hash("block", r.seq%7)
	psid := &consensus.PartSetID{Count: uint16(1 + r.seq%3), Hash: c05Hash("ps", r.seq%5)}
	otherBid := c05Hash("other-block", r.seq%7)
	otherPsid := &consensus.PartSetID{Count: psid.Count, Hash: c05Hash("other-ps", r.seq%5)}
	nid := uint32(r.seq % 3)
	validators := c05Validators(n)
	blk := &c05Block{height: height, id: bid}
	prev := &c05PrevBlock{validators: validators}
	support := map[int]bool{} // validators with a precommit for the target (already there, or in the list)

	var preIdx []int
	var pre []*consensus.VoteMessage
	for _, p := range c05Split(t[4]) {
		f := strings.Split(p, ":")
		if len(f) != 3 {
			return "bad-op"
		}
		k, e1 := strconv.Atoi(f[0])
		d, e2 := strconv.Atoi(f[1])
		ts, e3 := strconv.Atoi(f[2])
		if e1 != nil || e2 != nil || e3 != nil || k < 0 || k >= n || d < 0 || d > 2 {
			return "bad-op"
		}
		var vm *consensus.VoteMessage
		switch d {
		case 0:
			vm = consensus.VerifSignedVote(c05Wallet(k), consensus.VoteTypePrecommit, height, int32(round), codec.MustMarshalToBytes(int32(nid)), nil, 0, 0, int64(ts))
		case 1:
			vm = consensus.VerifSignedVote(c05Wallet(k), consensus.VoteTypePrecommit, height, int32(round), bid, psid, nid, 0, int64(ts))
			support[k] = true
		case 2:
			vm = consensus.VerifSignedVote(c05Wallet(k), consensus.VoteTypePrecommit, height, int32(round), otherBid, otherPsid, nid, 0, int64(ts))
		}
		preIdx = append(preIdx, k)
		pre = append(pre, vm)
		o.Count("pb-pre-vote")
	}
	items := c05Split(t[5])
	tss := make([]int64, len(items))
	sigs := make([][]byte, len(items))
	allValid := true
	listSigners := map[int]int{}
	for i, it := range items {
		f := strings.Split(it, ":")
		if len(f) != 2 || len(f[0]) < 2 {
			return "bad-op"
		}
		k, e1 := strconv.Atoi(f[0][1:])
		ts, e2 := strconv.Atoi(f[1])
		if e1 != nil || e2 != nil || k < 0 || (f[0][0] != 'f' && k > 80) {
			return "bad-op"
		}
		tss[i] = int64(ts)
		switch f[0][0] {
		case 'v':
			sigs[i] = consensus.VerifVoteSignatureBytes(consensus.VerifSignedVote(c05Wallet(k), consensus.VoteTypePrecommit, height, int32(round), bid, psid, nid, 0, int64(ts)))
			if k < n {
				support[k] = true
				listSigners[k]++
			} else {
				allValid = false
			}
		case 'w':
			sigs[i] = consensus.VerifVoteSignatureBytes(consensus.VerifSignedVote(c05Wallet(k), consensus.VoteTypePrecommit, height, int32(round), otherBid, psid, nid, 0, int64(ts)))
			allValid = false
		case 'f':
			sig := crypto.SHA3Sum256([]byte(fmt.Sprintf("verif-c05-forged-%d", k)))
			sigs[i] = append(append(append([]byte{}, sig...), crypto.SHA3Sum256(sig)...), byte(k%2))
			allValid = false
		default:
			return "bad-op"
		}
	}
	repeated := false
	for _, c := range listSigners {
		if c > 1 {
			repeated = true
		}
	}
	if repeated {
		o.Count("pb-repeated-signer")
	}
	cvl, err := consensus.VerifRawCommitVoteList(int32(round), consensus.VerifPSIDWithAppData(psid, nid, 0), tss, sigs)
	if err != nil {
		return "bad-op"
	}
	blockPSID := psid
	if pseq == 0 { // the received block has a part set id nobody voted for
		blockPSID = &consensus.PartSetID{Count: psid.Count, Hash: c05Hash("third-ps", r.seq%5)}
	}
	res, panicked := c05ProcessBlock(cvl.Bytes(), blk, prev, validators, blockPSID, preIdx, pre)
	if panicked != nil {
		o.Check(false, "c05-fastsync-panics", "processBlock path panics on %v: %v", items, panicked)
		return "panic"
	}
	o.Count("pb-" + res)
	if res == "accept" {
		o.Check(allValid, "c05-fastsync-accepted-bad-signature", "fast-sync path accepted a list with a non-validator signature: %v", items)
		o.Check(pseq == 1, "c05-fastsync-accepted-wrong-partset", "fast-sync path accepted a block whose part set id differs from the voted one")
		o.Check(3*len(support) > 2*n, "c05-fastsync-accepted-without-quorum-of-distinct-signers",
			"fast-sync path accepted with precommits of %d distinct validators of %d (pre %v, items %v)", len(support), n, t[4], items)
	} else if len(pre) == 0 && allValid && pseq == 1 && 3*len(listSigners) > 2*n {
		o.Check(false, "c05-fastsync-rejected-valid-certificate", "%s for %d distinct valid signers of %d: %v", res, len(listSigners), n, items)
	}
	if res == "reject-signer" || res == "reject-decode" {
		// not distinguished by the model: the same validator list is used by toVoteList
		return "reject-tovotelist"
	}
	return res
}

func c05Verify(cvl module.CommitVoteSet, blk module.BlockData, validators module.ValidatorList) (voted []bool, err error, panicked interface{}) {
	defer func() {
		if e := recover(); e != nil {
			panicked = e
		}
	}()
	voted, err = cvl.VerifyBlock(blk, validators)
	return
}

var c05DB = db.NewMapDB()

func c05ToVoteList(cvl module.CommitVoteSet, height int64, bid []byte, validators module.ValidatorList) (vl *consensus.VoteList, err error, panicked interface{}) {
	defer func() {
		if e := recover(); e != nil {
			panicked = e
		}
	}()
	vl, err = consensus.VerifCommitToVoteList(cvl, height, bid, validators, c05DB)
	return
}

func c05Hash(s string, i int) []byte {
	return crypto.SHA3Sum256([]byte(fmt.Sprintf("verif-c05-%s-%d", s, i)))
}

func (r *c05Runner) Step(t []string, o *Oracle) string {
	if len(t) == 3 && t[0] == "enough" {
		a, e1 := strconv.Atoi(t[1])
		b, e2 := strconv.Atoi(t[2])
		if e1 != nil || e2 != nil || a < 0 || b < 0 {
			return "bad-op"
		}
		res := consensus.VerifEnoughVote(a, b)
		o.Check(res == (b == 0 || 3*a > 2*b), "c05-enoughvote-threshold", "enoughVote(%d,%d)=%v", a, b, res)
		if res {
			return "1"
		}
		return "0"
	}
	if len(t) == 6 && t[0] == "pb" {
		return r.stepPB(t, o)
	}
	if len(t) >= 1 && len(t[0]) > 1 && t[0][0] == 'v' && t[0] != "vb" {
		return r.stepSnapshots(t, o)
	}
	if len(t) == 5 && t[0] == "chain" {
		return r.startChain(t, o)
	}
	if len(t) >= 2 && t[0] == "imp" {
		return r.stepImp(t, o)
	}
	if len(t) < 4 || t[0] != "vb" {
		return "bad-op"
	}
	mode := t[1]
	n, err := strconv.Atoi(t[2])
	round, err2 := strconv.Atoi(t[3])
	if err != nil || err2 != nil || n < 0 || n > 64 || round < 0 || (mode != "std" && mode != "h0" && mode != "nilv") {
		return "bad-op"
	}
	r.seq++
	height := int64(10 + r.seq%5)
	if mode == "h0" {
		height = 0
	}
	bid := c05Hash("block", r.seq%7)
	psid := &consensus.PartSetID{Count: uint16(1 + r.seq%3), Hash: c05Hash("ps", r.seq%5)}
	nid := uint32(r.seq % 3)
	blk := &c05Block{height: height, id: bid}
	var validators module.ValidatorList
	if mode != "nilv" {
		validators = c05Validators(n)
	}
	o.Count("mode-" + mode)
	o.Count(fmt.Sprintf("n=%d", n))

	items := t[4:]
	tss := make([]int64, len(items))
	sigs := make([][]byte, len(items))
	// what the oracle expects, from the way the items were made
	allValid, distinct, noV := true, true, false
	seen := map[int]bool{}
	for i, it := range items {
		ts := int64(1000 + (r.seq*31+i*7)%50)
		tss[i] = ts
		kind, arg := it[:1], it[1:]
		if kind == "w" {
			if len(it) < 3 {
				return "bad-op"
			}
			kind, arg = it[:2], it[2:]
		}
		k, err := strconv.Atoi(arg)
		if err != nil || k < 0 || (kind != "f" && k > 80) {
			return "bad-op"
		}
		h2, r2, bid2, psid2, nid2, ts2, vt := height, int32(round), bid, psid, nid, ts, consensus.VoteTypePrecommit
		if h2 == 0 {
			h2 = 1 // a signature exists, but VerifyBlock must not look at it
		}
		switch kind {
		case "v":
		case "wb":
			bid2 = c05Hash("other-block", k)
		case "wr":
			r2++
		case "wp":
			psid2 = &consensus.PartSetID{Count: psid.Count, Hash: c05Hash("other-ps", k)}
			if k%2 == 0 {
				psid2 = &consensus.PartSetID{Count: psid.Count + 1, Hash: psid.Hash}
			}
		case "wa":
			nid2 = nid + 1
		case "wt":
			ts2 = ts + 1
		case "wh":
			h2++
		case "wy":
			vt = consensus.VoteTypePrevote
		case "f":
			sig := crypto.SHA3Sum256([]byte(fmt.Sprintf("verif-c05-forged-%d", k)))
			sigs[i] = append(append([]byte{}, sig...), crypto.SHA3Sum256(sig)...)
			sigs[i] = append(sigs[i], byte(k%2))
			if k%5 == 0 {
				sigs[i] = sigs[i][:64] // [R|S] without V: no key can be recovered
				noV = true
			}
		default:
			return "bad-op"
		}
		o.Count("item-" + kind)
		if kind != "f" {
			vm := consensus.VerifSignedVote(c05Wallet(k), vt, h2, r2, bid2, psid2, nid2, 0, ts2)
			sigs[i] = consensus.VerifVoteSignatureBytes(vm)
			if !bytes.Equal(consensus.VerifVoteSigner(vm), c05Wallet(k).Address().Bytes()) {
				panic("harness: signature does not recover to its signer")
			}
		}
		if kind == "v" && k < n {
			if seen[k] {
				distinct = false
				o.Count("item-duplicate")
			}
			seen[k] = true
		} else {
			allValid = false
			if kind == "v" {
				o.Count("item-foreign-key")
			}
		}
	}
	cvl, err := consensus.VerifRawCommitVoteList(int32(round), consensus.VerifPSIDWithAppData(psid, nid, 0), tss, sigs)
	if err != nil {
		return "bad-op"
	}
	voted, verr, panicked := c05Verify(cvl, blk, validators)
	if panicked != nil {
		o.Check(false, "c05-unrecoverable-signature-panics", "VerifyBlock panics instead of rejecting %v: %v", items, panicked)
		return "panic"
	}

	// the same list through its wire encoding (a signature without V cannot be encoded)
	if !noV {
		cvl2 := consensus.NewCommitVoteSetFromBytes(cvl.Bytes())
		if cvl2 == nil {
			o.Check(false, "c05-bytes-roundtrip-fails", "NewCommitVoteSetFromBytes(Bytes()) = nil")
		} else {
			voted2, verr2, p2 := c05Verify(cvl2, blk, validators)
			o.Check(p2 == nil && (verr == nil) == (verr2 == nil) && fmt.Sprint(voted) == fmt.Sprint(voted2), "c05-bytes-roundtrip-differs",
				"VerifyBlock differs after encode/decode: %v,%v vs %v,%v", voted, verr, voted2, verr2)
		}
	}
	// the conversion used for fast-synced blocks (processBlock): every item must be a validator's
	if mode == "std" {
		vl, terr, tp := c05ToVoteList(cvl, height, bid, validators)
		o.Check(tp == nil, "c05-tovotelist-panics", "toVoteList panics on %v: %v", items, tp)
		if tp == nil {
			o.Check((terr == nil) == allValid, "c05-tovotelist-accepts-non-validator", "toVoteList err=%v for %v", terr, items)
			if terr == nil {
				o.Check(vl.Len() == len(items), "c05-tovotelist-size", "toVoteList has %d votes for %d items", vl.Len(), len(items))
				for i := 0; i < vl.Len(); i++ {
					vm := vl.Get(i)
					k, _ := strconv.Atoi(items[i][1:])
					o.Check(bytes.Equal(consensus.VerifVoteSigner(vm), c05Wallet(k).Address().Bytes()) && vm.Height == height &&
						vm.Round == int32(round) && vm.Type == consensus.VoteTypePrecommit && bytes.Equal(vm.BlockID, bid),
						"c05-tovotelist-wrong-vote", "vote %d of toVoteList is not validator %d's precommit for the block", i, k)
				}
			}
		}
	}

	// property oracle
	m := len(items)
	if mode != "std" {
		o.Check((verr == nil) == (m == 0), "c05-bootstrap-accepts-votes", "height 0 / nil validators: %d items, err=%v", m, verr)
	} else if verr == nil {
		o.Count("accepted")
		o.Check(allValid, "c05-accepted-bad-signature", "accepted a list with a forged/foreign/wrong-target signature: %v", items)
		o.Check(distinct, "c05-accepted-duplicate-signer", "accepted a list with a duplicated signer: %v", items)
		o.Check((n == 0 && m == 0) || 3*len(seen) > 2*n, "c05-accepted-without-quorum", "accepted %d distinct signers of %d validators: %v", len(seen), n, items)
		nv := 0
		for i, b := range voted {
			if b {
				nv++
			}
			o.Check(b == seen[i], "c05-voted-bitmap-wrong", "voted[%d]=%v", i, b)
		}
		o.Check(len(voted) == n && nv == m, "c05-voted-bitmap-size", "bitmap %v for %d items, n=%d", voted, m, n)
	} else {
		o.Count("rejected")
		good := allValid && distinct && ((n == 0 && m == 0) || 3*m > 2*n)
		o.Check(!good, "c05-rejected-valid-certificate", "rejected a valid certificate of %d distinct validators of %d: %v (%v)", m, n, items, verr)
		o.Check(voted == nil, "c05-reject-returns-bitmap", "error with bitmap")
		if allValid && distinct {
			o.Count("rejected-too-few")
		}
	}
	if verr != nil {
		return "reject"
	}
	if voted == nil {
		return "ok nil"
	}
	if len(voted) == 0 {
		return "ok -"
	}
	var sb strings.Builder
	sb.WriteString("ok ")
	for _, b := range voted {
		if b {
			sb.WriteByte('1')
		} else {
			sb.WriteByte('0')
		}
	}
	return sb.String()
}

// ---------------------------------------------------------------- validator snapshot histories

func c05VKey(k int) module.Wallet { return c05Wallet(40 + k) }

func c05Validator(k int) module.Validator {
	v, err := state.ValidatorFromAddress(c05VKey(k).Address())
	if err != nil {
		panic(err)
	}
	return v
}

// capture reads the members of a snapshot through Get(i) (never through IndexOf)
func c05Capture(vss state.ValidatorSnapshot) []string {
	var as []string
	for i := 0; i < vss.Len(); i++ {
		v, _ := vss.Get(i)
		as = append(as, string(v.Address().Bytes()))
	}
	return as
}

func (r *c05Runner) showSnap(j int) string {
	var ks []string
	for _, a := range r.vaddrs[j] {
		name := "?"
		for k := 0; k < 8; k++ {
			if string(c05VKey(k).Address().Bytes()) == a {
				name = strconv.Itoa(k)
			}
		}
		ks = append(ks, name)
	}
	if len(ks) == 0 {
		return fmt.Sprintf("snap %d -", j)
	}
	return fmt.Sprintf("snap %d %s", j, strings.Join(ks, "."))
}

// every snapshot must still hold the validators it was created with
func (r *c05Runner) checkSnapshotsUnchanged(o *Oracle) {
	for j, vss := range r.vsnaps {
		now := c05Capture(vss)
		o.Check(strings.Join(now, "|") == strings.Join(r.vaddrs[j], "|"), "c05-verified-against-mutated-validator-snapshot",
			"snapshot %d no longer lists the validators it was created with", j)
	}
}

func (r *c05Runner) stepSnapshots(t []string, o *Oracle) string {
	atoi := func(s string, max int) (int, bool) {
		v, err := strconv.Atoi(s)
		return v, err == nil && v >= 0 && v <= max
	}
	snapArg := func(s string) (int, bool) {
		j, ok := atoi(s, 1000)
		return j, ok && j < len(r.vsnaps)
	}
	switch t[0] {
	case "vnew":
		if len(t) != 2 {
			return "bad-op"
		}
		var vs []module.Validator
		seen := map[int]bool{}
		if t[1] != "-" {
			for _, p := range strings.Split(t[1], ".") {
				k, ok := atoi(p, 7)
				if !ok || seen[k] {
					return "bad-op"
				}
				seen[k] = true
				vs = append(vs, c05Validator(k))
			}
		}
		vss, err := state.ValidatorSnapshotFromSlice(db.NewMapDB(), vs)
		if err != nil {
			return "bad-op"
		}
		r.vsnaps = append(r.vsnaps, vss)
		r.vaddrs = append(r.vaddrs, c05Capture(vss))
		o.Count("vs-new")
		return r.showSnap(len(r.vsnaps) - 1)
	case "vwarm":
		if len(t) != 2 {
			return "bad-op"
		}
		j, ok := snapArg(t[1])
		if !ok {
			return "bad-op"
		}
		var out []string
		for k := 0; k < 8; k++ {
			idx := r.vsnaps[j].IndexOf(c05VKey(k).Address())
			want := -1
			for i, a := range r.vaddrs[j] {
				if a == string(c05VKey(k).Address().Bytes()) {
					want = i
				}
			}
			o.Check(idx == want, "c05-verified-against-mutated-validator-snapshot",
				"snapshot %d: IndexOf(key %d)=%d, the list it was created with says %d", j, k, idx, want)
			out = append(out, strconv.Itoa(idx))
		}
		o.Count("vs-indexof")
		return strings.Join(out, " ")
	case "vder":
		if len(t) != 2 {
			return "bad-op"
		}
		j, ok := snapArg(t[1])
		if !ok {
			return "bad-op"
		}
		r.vstate = state.ValidatorStateFromSnapshot(r.vsnaps[j])
		return "ok"
	case "vrep", "vset":
		if len(t) != 3 || r.vstate == nil {
			return "bad-op"
		}
		a, ok1 := atoi(t[1], 100)
		b, ok2 := atoi(t[2], 7)
		if !ok1 || !ok2 || (t[0] == "vrep" && a > 7) {
			return "bad-op"
		}
		var err error
		if t[0] == "vrep" {
			err = r.vstate.Replace(c05Validator(a), c05Validator(b))
		} else {
			err = r.vstate.SetAt(a, c05Validator(b))
		}
		r.checkSnapshotsUnchanged(o)
		o.Count("vs-" + t[0])
		if err != nil {
			return "err"
		}
		return "ok"
	case "vadd", "vrem":
		if len(t) != 2 || r.vstate == nil {
			return "bad-op"
		}
		k, ok := atoi(t[1], 7)
		if !ok {
			return "bad-op"
		}
		o.Count("vs-" + t[0])
		if t[0] == "vadd" {
			if err := r.vstate.Add(c05Validator(k)); err != nil {
				return "err"
			}
			r.checkSnapshotsUnchanged(o)
			return "ok"
		}
		res := r.vstate.Remove(c05Validator(k))
		r.checkSnapshotsUnchanged(o)
		if res {
			return "1"
		}
		return "0"
	case "vsnap":
		if len(t) != 1 || r.vstate == nil {
			return "bad-op"
		}
		vss := r.vstate.GetSnapshot()
		r.vsnaps = append(r.vsnaps, vss)
		r.vaddrs = append(r.vaddrs, c05Capture(vss))
		return r.showSnap(len(r.vsnaps) - 1)
	case "vver":
		if len(t) < 2 {
			return "bad-op"
		}
		j, ok := snapArg(t[1])
		if !ok {
			return "bad-op"
		}
		height, round := int64(7), int32(0)
		bid := c05Hash("vs-block", 1)
		psid := &consensus.PartSetID{Count: 1, Hash: c05Hash("vs-ps", 1)}
		var tss []int64
		var sigs [][]byte
		// expectation from the addresses captured at creation time (no IndexOf involved)
		members := map[string]int{}
		for i, a := range r.vaddrs[j] {
			members[a] = i
		}
		allMembers, distinct := true, true
		seen := map[int]bool{}
		for _, p := range t[2:] {
			k, ok := atoi(p, 7)
			if !ok {
				return "bad-op"
			}
			vm := consensus.VerifSignedVote(c05VKey(k), consensus.VoteTypePrecommit, height, round, bid, psid, 0, 0, 500)
			tss = append(tss, 500)
			sigs = append(sigs, consensus.VerifVoteSignatureBytes(vm))
			if _, in := members[string(c05VKey(k).Address().Bytes())]; !in {
				allMembers = false
			}
			if seen[k] {
				distinct = false
			}
			seen[k] = true
		}
		cvl, err := consensus.VerifRawCommitVoteList(round, consensus.VerifPSIDWithAppData(psid, 0, 0), tss, sigs)
		if err != nil {
			return "bad-op"
		}
		n, m := len(r.vaddrs[j]), len(sigs)
		voted, verr, panicked := c05Verify(cvl, &c05Block{height: height, id: bid}, r.vsnaps[j])
		if panicked != nil {
			o.Check(false, "c05-verified-against-mutated-validator-snapshot", "VerifyBlock against snapshot %d panics: %v", j, panicked)
			return "panic"
		}
		want := allMembers && distinct && ((n == 0 && m == 0) || 3*m > 2*n)
		o.Check((verr == nil) == want, "c05-verified-against-mutated-validator-snapshot",
			"VerifyBlock against snapshot %d (%s): err=%v for signers %v, but by the validators the snapshot was created with the list is valid=%v",
			j, r.showSnap(j), verr, t[2:], want)
		if verr == nil {
			for i, b := range voted {
				var by bool
				for k := range seen {
					if members[string(c05VKey(k).Address().Bytes())] == i && allMembers {
						by = true
					}
				}
				o.Check(b == by, "c05-verified-against-mutated-validator-snapshot", "voted[%d]=%v against snapshot %d", i, b, j)
			}
		}
		r.checkSnapshotsUnchanged(o)
		o.Count("vs-verify")
		if verr != nil {
			return "reject"
		}
		if len(voted) == 0 {
			return "ok -"
		}
		var sb strings.Builder
		sb.WriteString("ok ")
		for _, b := range voted {
			if b {
				sb.WriteByte('1')
			} else {
				sb.WriteByte('0')
			}
		}
		return sb.String()
	}
	return "bad-op"
}
