//go:build c11 || all

package main

import (
	"fmt"
	"sort"
	"strconv"
	"strings"
	"time"

	"github.com/icon-project/goloop/common/db"
	"github.com/icon-project/goloop/common/log"
	"github.com/icon-project/goloop/common/txlocator"
	"github.com/icon-project/goloop/module"
	"github.com/icon-project/goloop/service"
	"github.com/icon-project/goloop/service/transaction"
)

// C11: replay protection.  Ops (handles are creation indices of loggers):
//
//	root g ts th             tim.NewLogger(g, h, ts) with the checker threshold set to th
//	new p ts th              logger[p].NewLogger(h, ts, th)
//	add i force id:ts ...    logger[i].Add(list, force)      -> ok n | dup n | added | committed
//	commit i                 logger[i].Commit(), then wait for the flush worker -> ok
//	has i id ts              logger[i].Has(id, ts)           -> true | false
//	mhas g id ts             tim.HasRecent(g, id, ts)        -> true | false
//	win bts th ts            NewTimestampRange(bts,th).CheckTx -> in | expired | future
//	dump                     maxTSInDB / cached list count per group, sorted m.locators keys
//	restart                  new locator manager / TXID manager over the SAME database (node restart);
//	                         all earlier loggers are dead (ops on them: bad-op), handles keep counting
func init() {
	Register(&Prop{ID: "C11", Gen: c11Gen, New: func() Runner { return c11New() }})
}

// ---------------------------------------------------------------- dummy txs

type c11Tx struct {
	id []byte
	ts int64
	g  module.TransactionGroup
	transaction.Transaction
}

func (t *c11Tx) Group() module.TransactionGroup { return t.g }
func (t *c11Tx) ID() []byte                      { return t.id }
func (t *c11Tx) Hash() []byte                    { return t.id }
func (t *c11Tx) Timestamp() int64                { return t.ts }

type c11TxList struct {
	txs []*c11Tx
	module.TransactionList
}

func (l *c11TxList) Get(i int) (module.Transaction, error) { return l.txs[i], nil }
func (l *c11TxList) Iterator() module.TransactionIterator   { return &c11TxIter{l: l} }

type c11TxIter struct {
	l   *c11TxList
	idx int
}

func (t *c11TxIter) Has() bool   { return t.idx < len(t.l.txs) }
func (t *c11TxIter) Next() error { t.idx++; return nil }
func (t *c11TxIter) Get() (module.Transaction, int, error) {
	return t.l.txs[t.idx], t.idx, nil
}

func c11ID(n int) []byte { return []byte(fmt.Sprintf("tx-%09d", n)) }

// ---------------------------------------------------------------- runner

type c11Block struct {
	g         int
	ts, th    int64
	parent    int // creation parent (spec level), -1 for a root
	txs       map[int]int64
	order     []int
	committed bool
	added     bool
	epoch     int // number of restarts before the block was created
}

type c11Runner struct {
	epoch int
	dbase   db.Database
	lm      module.LocatorManager
	tsc     *service.TxTimestampChecker
	tim     service.TXIDManager
	loggers []service.TXIDLogger
	blocks  []*c11Block // spec-level shadow used only by the oracle
	// committed blocks per group, in commit order (oracle)
	final [2][]int
	taint bool // a non-empty block with timestamp 0 exists: outside the theorem's hypothesis
}

func c11New() *c11Runner {
	dbase := db.NewMapDB()
	logger := log.New()
	logger.SetLevel(log.FatalLevel)
	log.GlobalLogger().SetLevel(log.FatalLevel)
	lm, err := txlocator.NewManager(dbase, logger)
	if err != nil {
		panic(err)
	}
	tsc := service.NewTimestampChecker()
	tim, err := service.NewTXIDManager(lm, tsc, nil)
	if err != nil {
		panic(err)
	}
	return &c11Runner{dbase: dbase, lm: lm, tsc: tsc, tim: tim}
}

func c11I64(s string) (int64, bool) {
	v, err := strconv.ParseInt(s, 10, 64)
	return v, err == nil
}

func c11Nat(s string) (int, bool) {
	v, err := strconv.ParseUint(s, 10, 31)
	return int(v), err == nil
}

func c11Group(s string) (int, bool) {
	if s == "0" {
		return 0, true
	}
	if s == "1" {
		return 1, true
	}
	return 0, false
}

func c11InWindow(bts, th, ts int64) bool { return bts-th < ts && ts <= bts+th }

// specChain lists the blocks on the chain below (and excluding) block i:
// creation ancestors, plus every block of the group committed so far.
func (r *c11Runner) specChain(i int) []int {
	seen := map[int]bool{}
	var res []int
	for p := r.blocks[i].parent; p >= 0; p = r.blocks[p].parent {
		if !seen[p] {
			seen[p] = true
			res = append(res, p)
		}
	}
	for _, b := range r.final[r.blocks[i].g] {
		if !seen[b] && b != i {
			seen[b] = true
			res = append(res, b)
		}
	}
	return res
}

// classify names the input class of a replay that was accepted: id with
// timestamp ts included in block i although block b on its chain holds it.
func (r *c11Runner) classify(i, b int, ts int64) string {
	return r.classifyFrom(r.blocks[i].parent, b, ts)
}

// classifyFrom: `from` is the first tracker whose guard is evaluated on the way to b.
func (r *c11Runner) classifyFrom(from, b int, ts int64) string {
	B := r.blocks[b]
	if B.committed && B.epoch < r.epoch {
		// finalized before a restart: the new manager knows it only through the database
		if r.laterWindowEndsEarlier(B.g, ts) {
			return "replay-after-restart-beyond-later-window-end"
		}
		return "replay-after-restart"
	}
	if !B.committed && ts == B.ts+B.th {
		return "replay-at-upper-boundary-of-unfinalized-ancestor"
	}
	for p := from; p >= 0 && p != b; p = r.blocks[p].parent {
		P := r.blocks[p]
		if ts >= P.ts+P.th {
			return "replay-behind-ancestor-with-earlier-window-end"
		}
	}
	if !B.committed {
		return "replay-in-unfinalized-ancestor"
	}
	if ts == B.ts+B.th {
		return "replay-at-upper-boundary-of-finalized-block"
	}
	return "replay-in-finalized-block"
}

// laterWindowEndsEarlier: some block finalized since the last restart (timestamp != 0) has a
// window that ends before ts, i.e. the window ends are not monotone across the restart.
func (r *c11Runner) laterWindowEndsEarlier(g int, ts int64) bool {
	for _, p := range r.final[g] {
		P := r.blocks[p]
		if P.epoch == r.epoch && P.ts != 0 && P.ts+P.th < ts {
			return true
		}
	}
	return false
}

func (r *c11Runner) restart() {
	txlocator.VerifWaitFlush(r.lm)
	logger := log.New()
	logger.SetLevel(log.FatalLevel)
	lm, err := txlocator.NewManager(r.dbase, logger)
	if err != nil {
		panic(err)
	}
	tsc := service.NewTimestampChecker()
	tim, err := service.NewTXIDManager(lm, tsc, nil)
	if err != nil {
		panic(err)
	}
	r.lm, r.tsc, r.tim = lm, tsc, tim
	for i := range r.loggers {
		r.loggers[i] = nil
	}
	r.epoch++
}

func (r *c11Runner) Step(t []string, o *Oracle) string {
	if len(t) == 0 {
		return "bad-op"
	}
	switch t[0] {
	case "root":
		if len(t) != 4 {
			return "bad-op"
		}
		g, ok1 := c11Group(t[1])
		ts, ok2 := c11I64(t[2])
		th, ok3 := c11I64(t[3])
		if !ok1 || !ok2 || !ok3 {
			return "bad-op"
		}
		// the root logger takes its threshold from the timestamp checker
		r.tsc.SetThreshold(time.Duration(th) * time.Microsecond)
		var l service.TXIDLogger
		if g == 1 {
			l = r.tim.NewLogger(module.TransactionGroupNormal, int64(len(r.loggers)), ts)
		} else {
			// NewLogger uses tsc.Threshold() for either group
			l = r.tim.NewLogger(module.TransactionGroupPatch, int64(len(r.loggers)), ts)
		}
		r.loggers = append(r.loggers, l)
		r.blocks = append(r.blocks, &c11Block{g: g, ts: ts, th: th, parent: -1, txs: map[int]int64{}, epoch: r.epoch})
		if ts == 0 && th != 0 {
			o.Count("root-service-style-ts0")
		}
		o.Count("root")
		return "ok"
	case "new":
		if len(t) != 4 {
			return "bad-op"
		}
		p, ok1 := c11Nat(t[1])
		ts, ok2 := c11I64(t[2])
		th, ok3 := c11I64(t[3])
		if !ok1 || !ok2 || !ok3 || p >= len(r.loggers) || r.loggers[p] == nil {
			return "bad-op"
		}
		l := r.loggers[p].NewLogger(int64(len(r.loggers)), ts, th)
		r.loggers = append(r.loggers, l)
		r.blocks = append(r.blocks, &c11Block{g: r.blocks[p].g, ts: ts, th: th, parent: p, txs: map[int]int64{}, epoch: r.epoch})
		o.Count("new")
		if th != r.blocks[p].th {
			o.Count("new-threshold-changed")
		}
		return "ok"
	case "add":
		if len(t) < 3 {
			return "bad-op"
		}
		i, ok1 := c11Nat(t[1])
		f, ok2 := c11Group(t[2])
		if !ok1 || !ok2 || i >= len(r.loggers) || r.loggers[i] == nil {
			return "bad-op"
		}
		B := r.blocks[i]
		var ids []int
		var tss []int64
		list := &c11TxList{}
		for _, s := range t[3:] {
			ab := strings.Split(s, ":")
			if len(ab) != 2 {
				return "bad-op"
			}
			id, ok1 := c11Nat(ab[0])
			ts, ok2 := c11I64(ab[1])
			if !ok1 || !ok2 {
				return "bad-op"
			}
			ids = append(ids, id)
			tss = append(tss, ts)
			list.txs = append(list.txs, &c11Tx{id: c11ID(id), ts: ts, g: module.TransactionGroup(B.g)})
		}
		for k, id := range ids {
			for _, b := range r.final[B.g] {
				A := r.blocks[b]
				if ats, ok := A.txs[id]; ok && A.epoch < r.epoch && ats == tss[k] && c11InWindow(A.ts, A.th, ats) && c11InWindow(B.ts, B.th, ats) {
					o.Count("add-offers-id-finalized-before-restart")
				}
			}
		}
		cnt, err := r.loggers[i].Add(list, f == 1)
		if err != nil {
			msg := err.Error()
			switch {
			case strings.Contains(msg, "AlreadyAdded"):
				o.Count("add-already-added")
				return "added"
			case strings.Contains(msg, "AlreadyCommitted"):
				o.Count("add-already-committed")
				return "committed"
			case strings.Contains(msg, "DuplicateTx"):
				o.Count("add-dup")
				for k := 0; k < cnt; k++ {
					B.txs[ids[k]] = tss[k]
					B.order = append(B.order, ids[k])
				}
				if cnt > 0 {
					B.added = true
					if B.ts == 0 {
						r.taint = true
					}
				}
				return fmt.Sprintf("dup %d", cnt)
			}
			return "err"
		}
		o.Count("add-ok")
		if f == 1 {
			o.Count("add-forced")
		}
		for k := 0; k < cnt; k++ {
			B.txs[ids[k]] = tss[k]
			B.order = append(B.order, ids[k])
		}
		if cnt > 0 {
			B.added = true
			if B.ts == 0 {
				r.taint = true
			}
		}
		// ---- property oracle: a block accepted without force holds no id twice and
		// no id that a block on its chain holds (for txs inside that block's window)
		if f == 0 {
			seen := map[int]bool{}
			for k, id := range ids {
				o.Check(!seen[id], "replay-in-same-block", "block %d accepted id %d twice", i, id)
				seen[id] = true
				if r.taint {
					o.Count("oracle-skipped-ts0-block")
					continue
				}
				// accepted = Add succeeded and validateTxs' window check passes
				if !c11InWindow(B.ts, B.th, tss[k]) {
					o.Count("add-ok-tx-outside-own-window")
					continue
				}
				for _, b := range r.specChain(i) {
					A := r.blocks[b]
					ats, ok := A.txs[id]
					if !ok || ats != tss[k] || !c11InWindow(A.ts, A.th, ats) {
						continue
					}
					key := r.classify(i, b, tss[k])
					o.Check(false, key,
						"replay accepted: id %d (ts %d) added to block %d (ts %d th %d) although block %d (ts %d th %d committed=%v) on its chain holds it",
						id, tss[k], i, B.ts, B.th, b, A.ts, A.th, A.committed)
				}
				o.Check(true, "replay", "")
			}
		}
		return fmt.Sprintf("ok %d", cnt)
	case "commit":
		if len(t) != 2 {
			return "bad-op"
		}
		i, ok := c11Nat(t[1])
		if !ok || i >= len(r.loggers) || r.loggers[i] == nil {
			return "bad-op"
		}
		if err := r.loggers[i].Commit(); err != nil {
			return "err"
		}
		txlocator.VerifWaitFlush(r.lm)
		// spec: ancestors first
		var chain []int
		for p := i; p >= 0; p = r.blocks[p].parent {
			chain = append(chain, p)
		}
		for k := len(chain) - 1; k >= 0; k-- {
			b := chain[k]
			if !r.blocks[b].committed {
				r.blocks[b].committed = true
				r.final[r.blocks[b].g] = append(r.final[r.blocks[b].g], b)
				o.Count("commit-block")
			}
		}
		return "ok"
	case "has":
		if len(t) != 4 {
			return "bad-op"
		}
		i, ok1 := c11Nat(t[1])
		id, ok2 := c11Nat(t[2])
		ts, ok3 := c11I64(t[3])
		if !ok1 || !ok2 || !ok3 || i >= len(r.loggers) || r.loggers[i] == nil {
			return "bad-op"
		}
		has, err := r.loggers[i].Has(c11ID(id), ts)
		if err != nil {
			return "err"
		}
		// oracle: complete on the chain including block i itself
		if !r.taint {
			chain := r.specChain(i)
			if !r.blocks[i].committed {
				chain = append(chain, i)
			}
			for _, b := range chain {
				A := r.blocks[b]
				if ats, ok := A.txs[id]; ok && ats == ts && c11InWindow(A.ts, A.th, ats) {
					o.Check(has, "has-misses-"+r.classifyHas(i, b, ts),
						"Has(%d, ts %d) on block %d is false although block %d (ts %d th %d committed=%v) on its chain holds it", id, ts, i, b, A.ts, A.th, A.committed)
				}
			}
		}
		if has {
			o.Count("has-true")
			found := false
			for _, A := range r.blocks {
				if _, ok := A.txs[id]; ok {
					found = true
				}
			}
			o.Check(found, "has-false-positive", "Has(%d) true but no block ever held the id", id)
			return "true"
		}
		o.Count("has-false")
		return "false"
	case "mhas":
		if len(t) != 4 {
			return "bad-op"
		}
		g, ok1 := c11Group(t[1])
		id, ok2 := c11Nat(t[2])
		ts, ok3 := c11I64(t[3])
		if !ok1 || !ok2 || !ok3 {
			return "bad-op"
		}
		has, err := r.tim.HasRecent(module.TransactionGroup(g), c11ID(id), ts)
		if err != nil {
			return "err"
		}
		if !r.taint {
			for _, b := range r.final[g] {
				A := r.blocks[b]
				if ats, ok := A.txs[id]; ok && ats == ts && c11InWindow(A.ts, A.th, ats) {
					key := "mhas-misses-finalized"
					if A.epoch < r.epoch {
						key = "mhas-misses-finalized-after-restart"
						if r.laterWindowEndsEarlier(g, ts) {
							key = "mhas-misses-finalized-after-restart-beyond-later-window-end"
						}
					} else if ts == A.ts+A.th {
						key = "mhas-misses-finalized-at-upper-boundary"
					}
					o.Check(has, key, "HasRecent(%d, ts %d) false although finalized block %d (ts %d th %d) holds it", id, ts, b, A.ts, A.th)
				}
			}
		}
		if has {
			o.Count("mhas-true")
			return "true"
		}
		o.Count("mhas-false")
		return "false"
	case "win":
		if len(t) != 4 {
			return "bad-op"
		}
		bts, ok1 := c11I64(t[1])
		th, ok2 := c11I64(t[2])
		ts, ok3 := c11I64(t[3])
		if !ok1 || !ok2 || !ok3 {
			return "bad-op"
		}
		err := service.NewTimestampRange(bts, th).CheckTx(&c11Tx{id: c11ID(0), ts: ts})
		in := c11InWindow(bts, th, ts)
		o.Check((err == nil) == in, "window", "CheckTx(bts %d th %d ts %d) = %v, window says %v", bts, th, ts, err, in)
		switch {
		case err == nil:
			o.Count("win-in")
			return "in"
		case service.ExpiredTransactionError.Equals(err):
			o.Check(ts <= bts-th, "window-expired-kind", "expired but ts %d > min %d", ts, bts-th)
			o.Count("win-expired")
			return "expired"
		case service.FutureTransactionError.Equals(err):
			o.Check(ts > bts+th, "window-future-kind", "future but ts %d <= max %d", ts, bts+th)
			o.Count("win-future")
			return "future"
		}
		return "err"
	case "restart":
		if len(t) != 1 {
			return "bad-op"
		}
		r.restart()
		o.Count("restart")
		return "ok"
	case "dump":
		if len(t) != 1 {
			return "bad-op"
		}
		maxTS, cached, keys := txlocator.VerifDump(r.lm)
		var sb strings.Builder
		fmt.Fprintf(&sb, "max %d %d cached %d %d loc", maxTS[0], maxTS[1], cached[0], cached[1])
		var ns []int
		for _, k := range keys {
			n, err := strconv.Atoi(strings.TrimPrefix(k, "tx-"))
			if err != nil {
				return "err"
			}
			ns = append(ns, n)
		}
		sort.Ints(ns)
		for _, n := range ns {
			fmt.Fprintf(&sb, " %d", n)
		}
		if maxTS[0] != 0 || maxTS[1] != 0 {
			o.Count("dump-evicted")
		}
		return sb.String()
	}
	return "bad-op"
}

func (r *c11Runner) classifyHas(i, b int, ts int64) string {
	I := r.blocks[i]
	if b == i {
		if ts == I.ts+I.th {
			return "own-block-at-upper-boundary"
		}
		return "own-block"
	}
	return strings.TrimPrefix(r.classifyFrom(i, b, ts), "replay-")
}

// ---------------------------------------------------------------- generator

type c11GenBlock struct {
	g         int
	ts, th    int64
	parent    int
	ids       []int
	committed bool
	added     bool
	dead      bool
}

type c11GenCase struct {
	g      *Gen
	blocks []*c11GenBlock
	tsOf   map[int]int64
	nextID int
}

func (c *c11GenCase) emitRoot(grp int, ts, th int64) int {
	c.g.Emit("root %d %d %d", grp, ts, th)
	c.blocks = append(c.blocks, &c11GenBlock{g: grp, ts: ts, th: th, parent: -1})
	return len(c.blocks) - 1
}

func (c *c11GenCase) emitNew(p int, ts, th int64) int {
	c.g.Emit("new %d %d %d", p, ts, th)
	c.blocks = append(c.blocks, &c11GenBlock{g: c.blocks[p].g, ts: ts, th: th, parent: p})
	return len(c.blocks) - 1
}

func (c *c11GenCase) emitRestart() {
	c.g.Emit("restart")
	for _, B := range c.blocks {
		B.dead = true
	}
}

// pick returns a random live block (def if there is none)
func (c *c11GenCase) pick(def int) int {
	var alive []int
	for i, B := range c.blocks {
		if !B.dead {
			alive = append(alive, i)
		}
	}
	if len(alive) == 0 || c.g.Intn(40) == 0 {
		return def
	}
	return alive[c.g.Intn(len(alive))]
}

func (c *c11GenCase) fresh(ts int64) int {
	c.nextID++
	c.tsOf[c.nextID] = ts
	return c.nextID
}

func (c *c11GenCase) emitAdd(i int, force bool, ids []int) {
	var sb strings.Builder
	f := 0
	if force {
		f = 1
	}
	fmt.Fprintf(&sb, "add %d %d", i, f)
	for _, id := range ids {
		fmt.Fprintf(&sb, " %d:%d", id, c.tsOf[id])
	}
	c.g.Emit("%s", sb.String())
	// the generator does not know the verdict; it records the ids as candidates for
	// later duplicates either way
	if !c.blocks[i].added {
		c.blocks[i].ids = append(c.blocks[i].ids, ids...)
		c.blocks[i].added = len(ids) > 0
	}
}

func (c *c11GenCase) emitCommit(i int) {
	c.g.Emit("commit %d", i)
	for p := i; p >= 0; p = c.blocks[p].parent {
		c.blocks[p].committed = true
	}
}

// a timestamp inside / at the edges of the window of block b
func (c *c11GenCase) tsIn(b int) int64 {
	B := c.blocks[b]
	g := c.g
	switch g.Intn(8) {
	case 0:
		return B.ts + B.th // upper boundary (inside)
	case 1:
		return B.ts + B.th - 1
	case 2:
		return B.ts - B.th + 1 // lowest inside
	case 3:
		return B.ts - B.th // lower boundary (outside)
	case 4:
		return B.ts + B.th + 1 // outside
	case 5:
		return B.ts
	default:
		if B.th <= 0 {
			return B.ts
		}
		return B.ts - B.th + 1 + int64(g.Intn(int(2*B.th)))
	}
}

func (c *c11GenCase) nextTh(mode int, th int64) int64 {
	g := c.g
	switch mode {
	case 0: // constant
		return th
	case 1: // lowered now and then
		if g.Intn(3) == 0 && th > 2 {
			return th - int64(1+g.Intn(int(th-1)))
		}
		return th
	case 2: // raised now and then
		if g.Intn(3) == 0 {
			return th + int64(1+g.Intn(60))
		}
		return th
	default:
		if g.Intn(2) == 0 {
			return int64(g.Pick(0, 1, 2, 5, 10, 30, 60, 200))
		}
		return th
	}
}

func (c *c11GenCase) nextTs(ts, th int64) int64 {
	g := c.g
	switch g.Intn(10) {
	case 0:
		return ts // equal timestamps
	case 1:
		return ts + th
	case 2:
		return ts + 2*th
	case 3:
		return ts + 2*th + 1
	case 4:
		return ts + 2*th - 1
	case 5:
		return ts + 3*th + int64(g.Intn(50))
	default:
		return ts + 1 + int64(g.Intn(12))
	}
}

func (c *c11GenCase) randomCase() {
	g := c.g
	mode := g.Intn(4)
	grp := 1
	if g.Intn(4) == 0 {
		grp = 0
	}
	th := int64(g.Pick(1, 2, 5, 10, 20, 50))
	ts := int64(1 + g.Intn(200))
	if g.Intn(25) == 0 {
		ts = 0
	}
	tip := c.emitRoot(grp, ts, th)
	if g.Intn(6) == 0 {
		// a second chain in the other group sharing the manager
		c.emitRoot(1-grp, ts+int64(g.Intn(5)), th)
	}
	steps := 6 + g.Intn(20)
	if g.Tier == "thorough" {
		steps += g.Intn(30)
	}
	for s := 0; s < steps; s++ {
		switch k := g.Intn(20); {
		case k < 7: // extend the chain (sometimes fork)
			p := tip
			if g.Intn(6) == 0 {
				p = c.pick(tip)
			}
			P := c.blocks[p]
			nth := c.nextTh(mode, P.th)
			nts := c.nextTs(P.ts, P.th)
			b := c.emitNew(p, nts, nth)
			c.addTo(b)
			if p == tip || g.Intn(2) == 0 {
				tip = b
			}
		case k < 9: // add to some block again / late, or restart the node
			if g.Intn(5) == 0 {
				lastTs, lastTh := c.blocks[tip].ts, c.blocks[tip].th
				c.emitRestart()
				rts := int64(0) // the service creates its root loggers with timestamp 0
				if g.Intn(5) == 0 {
					rts = lastTs
				}
				rth := lastTh
				if rth == 0 || g.Intn(4) == 0 {
					rth = int64(g.Pick(1, 5, 10, 50))
				}
				r := c.emitRoot(grp, rts, rth)
				b := c.emitNew(r, c.nextTs(lastTs, lastTh), c.nextTh(mode, lastTh))
				c.addTo(b)
				tip = b
				if g.Intn(2) == 0 {
					c.emitCommit(b)
				}
				break
			}
			c.addTo(c.pick(tip))
		case k < 13: // commit: mostly the oldest unfinalized ancestor of the tip
			b := tip
			if g.Intn(4) != 0 {
				for c.blocks[b].parent >= 0 && !c.blocks[c.blocks[b].parent].committed {
					b = c.blocks[b].parent
				}
			} else if g.Intn(3) == 0 {
				b = c.pick(tip)
			}
			c.emitCommit(b)
		case k < 16:
			c.query("has")
		case k < 18:
			c.query("mhas")
		case k < 19:
			g.Emit("dump")
		default:
			bts := int64(g.Intn(1000))
			wth := int64(g.Pick(0, 1, 5, 50))
			wts := bts + int64(g.Pick(-1, 1))*wth + int64(g.Intn(3)-1)
			g.Emit("win %d %d %d", bts, wth, wts)
		}
	}
	g.Emit("dump")
}

func (c *c11GenCase) pickKnownID() (int, bool) {
	var cand []int
	for _, B := range c.blocks {
		cand = append(cand, B.ids...)
	}
	if len(cand) == 0 {
		return 0, false
	}
	return cand[c.g.Intn(len(cand))], true
}

func (c *c11GenCase) query(op string) {
	g := c.g
	id, ok := c.pickKnownID()
	if !ok || g.Intn(8) == 0 {
		id = 1000 + g.Intn(5)
		if _, ok := c.tsOf[id]; !ok {
			c.tsOf[id] = int64(g.Intn(300))
		}
	}
	ts := c.tsOf[id]
	if g.Intn(8) == 0 {
		ts += int64(g.Intn(3) - 1)
	}
	if op == "has" {
		g.Emit("has %d %d %d", c.pick(len(c.blocks)-1), id, ts)
	} else {
		g.Emit("mhas %d %d %d", g.Intn(2), id, ts)
	}
}

// addTo emits an Add for block b: fresh ids with boundary-biased timestamps and,
// often, a duplicate taken from another block (ancestor, finalized, sibling, itself).
func (c *c11GenCase) addTo(b int) {
	g := c.g
	B := c.blocks[b]
	n := g.Pick(0, 1, 1, 2, 3, 5)
	var ids []int
	for k := 0; k < n; k++ {
		ts := c.tsIn(b)
		if B.ts == 0 && g.Intn(4) != 0 {
			continue
		}
		ids = append(ids, c.fresh(ts))
	}
	force := g.Intn(7) == 0
	if g.Intn(2) == 0 {
		// duplicate: prefer ids whose timestamp is inside this block's window
		var cand, inwin []int
		for p := B.parent; p >= 0; p = c.blocks[p].parent {
			cand = append(cand, c.blocks[p].ids...)
		}
		if g.Intn(3) == 0 {
			for _, X := range c.blocks {
				if X.committed {
					cand = append(cand, X.ids...)
				}
			}
		}
		if g.Intn(10) == 0 {
			cand = append(cand, ids...)
			for _, X := range c.blocks {
				cand = append(cand, X.ids...)
			}
		}
		for _, id := range cand {
			if c11InWindow(B.ts, B.th, c.tsOf[id]) {
				inwin = append(inwin, id)
			}
		}
		if len(inwin) > 0 && g.Intn(5) != 0 {
			cand = inwin
		}
		if len(cand) > 0 {
			d := cand[g.Intn(len(cand))]
			pos := g.Intn(len(ids) + 1)
			ids = append(ids[:pos], append([]int{d}, ids[pos:]...)...)
		}
	}
	c.emitAdd(b, force, ids)
}

// templateCase: the boundary situations of the three guards, with +-1 jitter so that both
// sides of every comparison are produced.
func (c *c11GenCase) templateCase() {
	g := c.g
	j := func() int64 { return int64(g.Intn(3) - 1) }
	grp := 1
	if g.Intn(5) == 0 {
		grp = 0
	}
	switch g.Intn(6) {
	case 4, 5:
		// node restart: X finalized and flushed, new manager on the same database, service-style
		// root logger (ts 0, threshold != 0), first new blocks evict it, then X is offered again
		th := int64(g.Pick(5, 10, 20))
		ts := int64(100 + g.Intn(300))
		r := c.emitRoot(grp, 0, th)
		a := c.emitNew(r, ts, th)
		x := c.fresh(ts + th - int64(g.Pick(0, 0, 1, int(th))))
		c.emitAdd(a, false, []int{c.fresh(ts), x})
		c.emitCommit(a)
		tip := a
		if g.Intn(2) == 0 {
			tip = c.emitNew(a, ts+1+int64(g.Intn(3)), th)
			c.emitAdd(tip, false, []int{c.fresh(c.blocks[tip].ts)})
			c.emitCommit(tip)
		}
		lastTs := c.blocks[tip].ts
		c.emitRestart()
		th2 := th
		if g.Intn(4) == 0 {
			th2 = int64(g.Pick(1, 3, 40)) // threshold changed by governance
		}
		r2 := c.emitRoot(grp, 0, th2)
		tip = r2
		n := 1 + g.Intn(3)
		for k := 0; k < n; k++ {
			if th2 < th && g.Intn(3) != 0 {
				// lowered threshold: blocks far enough apart to evict one another while their
				// windows still end before X's timestamp
				lastTs += 2*th2 + int64(g.Intn(2))
			} else {
				lastTs += 1 + int64(g.Intn(int(th)))
			}
			tip = c.emitNew(tip, lastTs, th2)
			c.emitAdd(tip, false, []int{c.fresh(lastTs)})
			if g.Intn(4) != 0 {
				c.emitCommit(tip)
			}
		}
		g.Emit("dump")
		g.Emit("mhas %d %d %d", grp, x, c.tsOf[x])
		// a block whose window contains X's timestamp
		thd := th2
		if g.Intn(3) == 0 {
			thd = th2 + int64(g.Intn(30))
		}
		tsd := lastTs + int64(g.Intn(3))
		if g.Intn(3) != 0 && c.tsOf[x]+thd-1 > tsd {
			tsd = c.tsOf[x] + thd - 1 - int64(g.Intn(2))
		}
		d := c.emitNew(tip, tsd, thd)
		g.Emit("has %d %d %d", d, x, c.tsOf[x])
		c.emitAdd(d, false, []int{c.fresh(tsd), x})
	case 0:
		// duplicate at the upper window boundary of a parent (unfinalized or finalized)
		th := int64(g.Pick(1, 5, 10, 50))
		ts := int64(1 + g.Intn(500))
		r := c.emitRoot(grp, ts, th)
		p := c.emitNew(r, ts+1+int64(g.Intn(5)), th)
		P := c.blocks[p]
		x := c.fresh(P.ts + P.th + j())
		c.emitAdd(p, false, []int{c.fresh(P.ts), x})
		if g.Intn(3) == 0 {
			c.emitCommit(p)
		}
		ch := c.emitNew(p, P.ts+1+int64(g.Intn(int(th)+1)), th)
		g.Emit("has %d %d %d", ch, x, c.tsOf[x])
		c.emitAdd(ch, false, []int{c.fresh(c.blocks[ch].ts), x})
	case 1:
		// threshold lowered: window end decreases along the chain
		th0 := int64(20 + g.Intn(60))
		th1 := int64(1 + g.Intn(15))
		ts := int64(50 + g.Intn(200))
		r := c.emitRoot(grp, ts-1, th0)
		a := c.emitNew(r, ts, th0)
		x := c.fresh(ts + th0 - int64(g.Intn(int(th0-th1)+1)))
		c.emitAdd(a, false, []int{x})
		if g.Intn(4) == 0 {
			c.emitCommit(a)
		}
		b := c.emitNew(a, ts+int64(5+g.Intn(10)), th1)
		c.emitAdd(b, false, []int{c.fresh(c.blocks[b].ts)})
		if g.Intn(4) == 0 {
			c.emitCommit(b)
		}
		// grandchild whose window contains x
		gts := c.tsOf[x] - th1 + int64(g.Intn(int(2*th1))) + j()
		d := c.emitNew(b, gts, th1)
		g.Emit("has %d %d %d", d, x, c.tsOf[x])
		c.emitAdd(d, false, []int{x})
	case 2:
		// eviction, then a later block with a larger threshold reaching back
		th0 := int64(5 + g.Intn(20))
		ts0 := int64(20 + g.Intn(100))
		r := c.emitRoot(grp, ts0-1, th0)
		a := c.emitNew(r, ts0, th0)
		x := c.fresh(ts0 + th0 + j())
		c.emitAdd(a, g.Intn(5) == 0, []int{c.fresh(ts0), x})
		b := c.emitNew(a, ts0+2*th0+int64(g.Intn(4))+j(), th0)
		c.emitAdd(b, false, []int{c.fresh(c.blocks[b].ts)})
		c.emitCommit(b)
		d := c.emitNew(b, c.blocks[b].ts+2*th0+int64(g.Intn(4))+j(), th0)
		c.emitAdd(d, false, []int{c.fresh(c.blocks[d].ts)})
		c.emitCommit(d)
		g.Emit("dump")
		big := c.blocks[d].ts - ts0 + int64(g.Intn(10)) + 1
		e := c.emitNew(d, c.blocks[d].ts+1+int64(g.Intn(5)), big)
		g.Emit("mhas %d %d %d", grp, x, c.tsOf[x])
		g.Emit("has %d %d %d", e, x, c.tsOf[x])
		c.emitAdd(e, false, []int{x})
	default:
		// forced re-add of a finalized id (blanking), eviction of the older list, lookups
		th := int64(5 + g.Intn(10))
		ts := int64(10 + g.Intn(50))
		r := c.emitRoot(grp, ts, th)
		x := c.fresh(ts + th)
		c.emitAdd(r, false, []int{x, c.fresh(ts)})
		c.emitCommit(r)
		a := c.emitNew(r, ts+1+int64(g.Intn(int(th))), th)
		c.emitAdd(a, true, []int{x})
		c.emitCommit(a)
		g.Emit("dump")
		b := c.emitNew(a, ts+2*th+j(), th)
		c.emitAdd(b, false, []int{c.fresh(c.blocks[b].ts)})
		c.emitCommit(b)
		g.Emit("dump")
		g.Emit("mhas %d %d %d", grp, x, c.tsOf[x])
		d := c.emitNew(b, c.blocks[b].ts+1, th+int64(g.Intn(30)))
		c.emitAdd(d, false, []int{x})
	}
	g.Emit("dump")
}

func c11Gen(g *Gen) {
	for i := 0; i < g.N; i++ {
		g.Emit("reset")
		c := &c11GenCase{g: g, tsOf: map[int]int64{}}
		switch k := g.Intn(20); {
		case k < 5:
			c.templateCase()
		case k == 5:
			// malformed / out-of-range operations
			c.emitRoot(1, 10, 5)
			for n := 0; n < 4; n++ {
				switch g.Intn(7) {
				case 0:
					g.Emit("new %d 5 5", 3+g.Intn(4))
				case 1:
					g.Emit("add 0 2 1:1")
				case 2:
					g.Emit("add 0 0 1-1")
				case 3:
					g.Emit("commit %d", 2+g.Intn(3))
				case 4:
					g.Emit("has 0 x 1")
				case 5:
					g.Emit("root 2 1 1")
				default:
					g.Emit("frob")
				}
			}
			c.addTo(0)
			g.Emit("dump")
		default:
			c.randomCase()
		}
	}
}
