//go:build c09 || all

package main

// C09: parallel transaction execution is equivalent to sequential execution.
//
// Op line (one case per line):
//
//	blk <g|f> <nacc> <n> <tx_0> .. <tx_{n-1}> <s|p> <tok>*
//
// nacc  size of the account universe; account a starts with balance (a+1)*1000
// tx    <locks>:<prog>; locks = comma list of w<a> r<a> W R ('-' = none)
//       (W/R = write/read lock on the whole world), prog = comma list of r<a>
//       (read balance) / w<a> (write a value computed from everything read so
//       far) ('-' = none)
// l/d   like g/f, but the virtual state of a transaction is created lazily (GetFuture when the
//       transaction is first scheduled / dispatched, after earlier ones may have committed),
//       as the dispatcher of transition_pe.go does; g/f create all of them up front
//       a trailing '!' on a tx: executor retry - the transaction takes GetSnapshot() as its
//       first action, runs its program, Reset()s to that snapshot and runs the program again
//       (the observations and writes of the second run count)
// g     the harness chooses the interleaving: every transaction runs in its own
//       goroutine on its own virtual state created by the real
//       NewWorldVirtualState/GetFuture chain; at each point the enabled actions
//       are, per unfinished transaction in block order, its next program step
//       or its Commit if that action would not block (decided from the real
//       dependency pointers read through the hook VerifC09Inspect and from
//       which Commits were made); `s` tokens pick enabled[tok % len], `p`
//       gives a priority order of transactions (first enabled in that order).
// f     free running goroutines (sync.Cond wait/broadcast really used).
//
// Output: "ok d=<dependency table> o=<observed reads per tx> f=<final balances>".

import (
	"bytes"
	"fmt"
	"math/big"
	"runtime"
	"sort"
	"strconv"
	"strings"
	"sync"
	"time"

	"github.com/icon-project/goloop/common/db"
	"github.com/icon-project/goloop/service/state"
)

func init() {
	Register(&Prop{ID: "C09", Gen: c09Gen, New: func() Runner { return &c09Runner{} }})
}

const c09M = 1000003

type c09Req struct {
	world bool
	acct  int
	write bool
}

type c09Step struct {
	write bool
	acct  int
}

type c09Tx struct {
	reqs  []c09Req
	prog  []c09Step
	retry bool // takes GetSnapshot() at its start, runs, Reset()s to it and runs again (executor retry)
}

func c09ID(a int) []byte { return []byte(fmt.Sprintf("acct-%02d", a)) }

// ---------------------------------------------------------------- generator

func c09GenTx(g *Gen, nacc int, style int) string {
	var locks, prog []string
	wl := 0 // 0 none, 2 world write
	switch {
	case style == 0 && g.Intn(6) == 0, style == 1 && g.Intn(3) == 0:
		wl = 2
	}
	locked := map[int]int{} // acct -> 1 read 2 write
	if wl == 2 {
		locks = append(locks, "W")
		if g.Intn(3) == 0 { // redundant account requests next to the world lock
			a := g.Intn(nacc)
			locks = append(locks, fmt.Sprintf("%s%d", []string{"r", "w"}[g.Intn(2)], a))
		}
	} else {
		k := 1 + g.Intn(3)
		if style == 2 { // heavy conflicts on few accounts
			k = 1 + g.Intn(2)
		}
		for j := 0; j < k; j++ {
			a := g.Intn(nacc)
			if style == 2 {
				a = g.Intn(2) % nacc
			}
			l := 1 + g.Intn(2)
			if g.Intn(3) == 0 {
				l = 2
			}
			if l > locked[a] {
				locked[a] = l
			}
			locks = append(locks, fmt.Sprintf("%s%d", []string{"", "r", "w"}[l], a))
		}
	}
	// like worldContext.GetFuture: a read lock on the system account (account 0)
	if g.Intn(8) != 0 {
		locks = append(locks, "r0")
		if locked[0] < 1 {
			locked[0] = 1
		}
	}
	// like the worker: ctx.UpdateSystemInfo() reads the system account first
	if wl == 2 || g.Intn(4) != 0 {
		prog = append(prog, "r0")
	}
	ns := g.Intn(5)
	for j := 0; j < ns; j++ {
		a := g.Intn(nacc)
		if wl == 2 {
			if g.Intn(2) == 0 {
				prog = append(prog, fmt.Sprintf("r%d", a))
			} else {
				prog = append(prog, fmt.Sprintf("w%d", a))
			}
			continue
		}
		// mostly declared accounts
		if g.Intn(10) != 0 && len(locked) > 0 {
			keys := make([]int, 0, len(locked))
			for k := range locked {
				keys = append(keys, k)
			}
			sort.Ints(keys)
			a = keys[g.Intn(len(keys))]
		}
		switch locked[a] {
		case 2:
			if g.Intn(2) == 0 {
				prog = append(prog, fmt.Sprintf("r%d", a))
			} else {
				prog = append(prog, fmt.Sprintf("w%d", a))
			}
		case 1:
			prog = append(prog, fmt.Sprintf("r%d", a))
		default: // undeclared: the virtual state returns nil
			prog = append(prog, fmt.Sprintf("%s%d", []string{"r", "w"}[g.Intn(2)], a))
		}
	}
	ls, ps := "-", "-"
	if len(locks) > 0 {
		ls = strings.Join(locks, ",")
	}
	if len(prog) > 0 {
		ps = strings.Join(prog, ",")
	}
	return ls + ":" + ps
}

func c09Perms(n int) [][]int {
	if n == 0 {
		return [][]int{{}}
	}
	var res [][]int
	for _, p := range c09Perms(n - 1) {
		for pos := 0; pos <= len(p); pos++ {
			q := append(append(append([]int{}, p[:pos]...), n-1), p[pos:]...)
			res = append(res, q)
		}
	}
	return res
}

// c09Mode picks up-front (g/f) or lazy (l/d) creation of the virtual states
func c09Mode(g *Gen, free bool) string {
	lazy := g.Intn(2) == 0
	switch {
	case free && lazy:
		return "d"
	case free:
		return "f"
	case lazy:
		return "l"
	}
	return "g"
}

func c09Gen(g *Gen) {
	emitted := 0
	for emitted < g.N {
		if g.Intn(80) == 0 {
			switch g.Intn(4) {
			case 0:
				g.Emit("blk g 3 1 w1:w2 s")
			case 1:
				g.Emit("blk g 3 2 w1:w1 s")
			case 2:
				g.Emit("blk x 3 1 w1:w1 s")
			default:
				g.Emit("blk g 2 1 w5:r1 s")
			}
			emitted++
			continue
		}
		nacc := g.Pick(2, 3, 4, 4, 4, 5)
		n := g.Pick(1, 2, 3, 3, 4, 4, 5, 5, 6, 8)
		if g.Tier == "thorough" && g.Intn(10) == 0 {
			n = 9 + g.Intn(8)
		}
		style := g.Intn(3)
		txs := make([]string, n)
		for i := range txs {
			txs[i] = c09GenTx(g, nacc, style)
		}
		// a transaction that write-locks an account other transactions use but never touches it
		// (its Commit must still wait for the previous writer: it relays the dependency)
		if n >= 3 && g.Intn(4) == 0 {
			a := g.Intn(nacc)
			k := 1 + g.Intn(n-2)
			txs[k-1] = fmt.Sprintf("w%d,r0:r0,r%d,w%d", a, a, a)
			txs[k] = fmt.Sprintf("w%d:-", a)
			if g.Intn(2) == 0 {
				txs[k] = fmt.Sprintf("w%d,r0:r0", a)
			}
			txs[k+1] = fmt.Sprintf("w%d,r0:r%d,w%d,r0", a, a, a)
		}
		// executor retry: GetSnapshot at start, run, Reset, run again
		kW := -1
		for i := range txs {
			if g.Intn(4) == 0 {
				txs[i] += "!"
				if strings.HasPrefix(txs[i], "W") {
					kW = i
				}
			}
		}
		outside := false
		if g.Intn(60) == 0 {
			// outside the assumptions (see registry): a world READ lock, or a world write
			// locker that never touches the state; only model/implementation are compared
			outside = true
			k := g.Intn(n)
			if g.Intn(2) != 0 {
				txs[k] = fmt.Sprintf("R:r%d,r%d", g.Intn(nacc), g.Intn(nacc))
			} else {
				txs[k] = "W:-"
			}
		}
		head := fmt.Sprintf("%d %d %s", nacc, n, strings.Join(txs, " "))
		if kW > 0 && !outside && g.Intn(2) == 0 {
			// the predecessors of a retrying world write locker in block order, so that its
			// start snapshot can be requested before they have written
			ss := make([]string, 0, n)
			for i := 0; i < kW; i++ {
				ss = append(ss, strconv.Itoa(i))
			}
			for _, v := range g.R.Perm(n - kW) {
				ss = append(ss, strconv.Itoa(kW+v))
			}
			g.Emit("blk g %s p %s", head, strings.Join(ss, " "))
			emitted++
			continue
		}
		switch {
		case outside:
			if g.Intn(2) == 0 && n <= 8 {
				p := g.R.Perm(n)
				ss := make([]string, n)
				for i, v := range p {
					ss[i] = strconv.Itoa(v)
				}
				g.Emit("blk %s %s p %s", c09Mode(g, false), head, strings.Join(ss, " "))
			} else {
				var sb strings.Builder
				for i := 0; i < 7*n+4; i++ {
					fmt.Fprintf(&sb, " %d", g.Intn(12))
				}
				g.Emit("blk %s %s s%s", c09Mode(g, false), head, sb.String())
			}
			emitted++
		case n <= 4 && g.Intn(6) == 0:
			// all priority permutations of this block
			pm := c09Mode(g, false)
			for _, p := range c09Perms(n) {
				ss := make([]string, len(p))
				for i, v := range p {
					ss[i] = strconv.Itoa(v)
				}
				g.Emit("blk %s %s p %s", pm, head, strings.Join(ss, " "))
				emitted++
			}
		case g.Intn(4) == 0:
			g.Emit("blk %s %s s %d", c09Mode(g, true), head, g.Intn(1000))
			emitted++
		case g.Intn(3) == 0 && n <= 8:
			p := g.R.Perm(n)
			ss := make([]string, n)
			for i, v := range p {
				ss[i] = strconv.Itoa(v)
			}
			g.Emit("blk %s %s p %s", c09Mode(g, false), head, strings.Join(ss, " "))
			emitted++
		default:
			var sb strings.Builder
			for i := 0; i < 7*n+4; i++ {
				fmt.Fprintf(&sb, " %d", g.Intn(12))
			}
			g.Emit("blk %s %s s%s", c09Mode(g, false), head, sb.String())
			emitted++
		}
	}
}

// ---------------------------------------------------------------- parsing

func c09Parse(toks []string) (mode string, nacc int, txs []c09Tx, kind string, sched []int, ok bool) {
	if len(toks) < 5 || toks[0] != "blk" {
		return
	}
	mode = toks[1]
	if mode != "g" && mode != "f" && mode != "l" && mode != "d" {
		return
	}
	nacc, e1 := strconv.Atoi(toks[2])
	n, e2 := strconv.Atoi(toks[3])
	if e1 != nil || e2 != nil || nacc < 1 || nacc > 16 || n < 0 || n > 32 || len(toks) < 5+n {
		return
	}
	num := func(s string) (int, bool) {
		if s == "" || len(s) > 3 {
			return 0, false
		}
		for _, c := range s {
			if c < '0' || c > '9' {
				return 0, false
			}
		}
		v, _ := strconv.Atoi(s)
		return v, v < nacc
	}
	for _, t := range toks[4 : 4+n] {
		var tx c09Tx
		if strings.HasSuffix(t, "!") {
			tx.retry = true
			t = t[:len(t)-1]
		}
		parts := strings.Split(t, ":")
		if len(parts) != 2 {
			return
		}
		if parts[0] != "-" {
			for _, l := range strings.Split(parts[0], ",") {
				switch {
				case l == "W":
					tx.reqs = append(tx.reqs, c09Req{world: true, write: true})
				case l == "R":
					tx.reqs = append(tx.reqs, c09Req{world: true})
				case strings.HasPrefix(l, "w") || strings.HasPrefix(l, "r"):
					a, good := num(l[1:])
					if !good {
						return
					}
					tx.reqs = append(tx.reqs, c09Req{acct: a, write: l[0] == 'w'})
				default:
					return
				}
			}
		}
		if parts[1] != "-" {
			for _, l := range strings.Split(parts[1], ",") {
				if !(strings.HasPrefix(l, "w") || strings.HasPrefix(l, "r")) {
					return
				}
				a, good := num(l[1:])
				if !good {
					return
				}
				tx.prog = append(tx.prog, c09Step{write: l[0] == 'w', acct: a})
			}
		}
		txs = append(txs, tx)
	}
	kind = toks[4+n]
	if kind != "s" && kind != "p" {
		return
	}
	for _, t := range toks[5+n:] {
		v, good := 0, len(t) > 0 && len(t) < 7
		for _, c := range t {
			if c < '0' || c > '9' {
				good = false
			}
		}
		if !good {
			return
		}
		v, _ = strconv.Atoi(t)
		sched = append(sched, v)
	}
	ok = true
	return
}

// effective access of a transaction to an account, from its request list only
// (what applyLockRequests is supposed to grant): 0 nil, 1 read-only, 2 read-write
func c09Access(tx c09Tx, a int) int {
	wl, al := 0, 0
	for _, r := range tx.reqs {
		l := 1
		if r.write {
			l = 2
		}
		if r.world {
			if l > wl {
				wl = l
			}
		} else if r.acct == a && l > al {
			al = l
		}
	}
	if wl == 2 {
		return 2
	}
	if al > wl {
		return al
	}
	return wl
}

func c09WorldWrite(tx c09Tx) bool {
	for _, r := range tx.reqs {
		if r.world && r.write {
			return true
		}
	}
	return false
}

// ---------------------------------------------------------------- runner

type c09Runner struct{}

type c09Sys struct {
	ws     state.WorldState
	nacc   int
	txs    []c09Tx
	wvs    []state.WorldVirtualState
	wl     []int
	locks  []map[int]state.VerifC09Lock
	depIdx []map[int]int // account -> index of the transaction depended on (-1 none)
	acc    []int
	obs    [][]string
	idx    map[state.WorldVirtualState]int
	created int
	snap      []state.WorldSnapshot // start snapshot of a retrying transaction
	snapDone  []chan struct{}
	retryNote []string
}

func c09Init(ws state.WorldState, nacc int) {
	for a := 0; a < nacc; a++ {
		ws.GetAccountState(c09ID(a)).SetBalance(big.NewInt(int64((a + 1) * 1000)))
	}
}

// c09DoStep performs one program step of transaction i on the given state view.
func c09DoStep(get func(id []byte) state.AccountState, i int, st c09Step, acc *int, obs *[]string) {
	as := get(c09ID(st.acct))
	if as == nil {
		*obs = append(*obs, "n")
		return
	}
	if !st.write {
		v := int(as.GetBalance().Int64())
		*obs = append(*obs, strconv.Itoa(v))
		*acc = (*acc*31 + v + 7) % c09M
		return
	}
	val := (*acc*17 + (i+1)*101 + st.acct*13 + 1) % c09M
	as.SetBalance(big.NewInt(int64(val)))
	*acc = (*acc + val) % c09M
}

func c09Build(nacc int, txs []c09Tx) *c09Sys {
	n := len(txs)
	s := &c09Sys{nacc: nacc, txs: txs}
	s.ws = state.NewWorldState(db.NewMapDB(), nil, nil, nil, nil)
	c09Init(s.ws, nacc)
	s.idx = map[state.WorldVirtualState]int{}
	s.wvs = make([]state.WorldVirtualState, n)
	s.wl = make([]int, n)
	s.locks = make([]map[int]state.VerifC09Lock, n)
	s.depIdx = make([]map[int]int, n)
	s.acc = make([]int, n)
	s.obs = make([][]string, n)
	s.snap = make([]state.WorldSnapshot, n)
	s.snapDone = make([]chan struct{}, n)
	s.retryNote = make([]string, n)
	return s
}

// takeSnapshot is the first action of the worker of a retrying transaction.
func (s *c09Sys) takeSnapshot(i int) {
	s.snap[i] = s.wvs[i].GetSnapshot()
	close(s.snapDone[i])
}

// rerun is the executor's retry: back to the start snapshot, the whole program again.
func (s *c09Sys) rerun(i int, pause func()) {
	if err := s.wvs[i].Reset(s.snap[i]); err != nil {
		s.retryNote[i] = "Reset failed: " + err.Error()
		return
	}
	acc := 0
	var obs []string
	for _, st := range s.txs[i].prog {
		pause()
		c09DoStep(s.wvs[i].GetAccountState, i, st, &acc, &obs)
	}
	if strings.Join(obs, ",") != strings.Join(s.obs[i], ",") {
		s.retryNote[i] = fmt.Sprintf("first run observed %v, run after Reset observed %v", s.obs[i], obs)
	}
	s.acc[i], s.obs[i] = acc, obs
}

// create makes the virtual state of transaction i (the previous ones exist) exactly like the
// dispatcher: NewWorldVirtualState for the first, GetFuture on the previous one otherwise, and
// reads the lock bookkeeping it got through the hook.
func (s *c09Sys) create(i int, o *Oracle) {
	tx := s.txs[i]
	var lq []state.LockRequest
	for _, r := range tx.reqs {
		l := state.AccountReadLock
		if r.write {
			l = state.AccountWriteLock
		}
		id := state.WorldIDStr
		if !r.world {
			id = string(c09ID(r.acct))
		}
		lq = append(lq, state.LockRequest{ID: id, Lock: l})
	}
	var w state.WorldVirtualState
	if i == 0 {
		w = state.NewWorldVirtualState(s.ws, lq)
	} else {
		w = s.wvs[i-1].GetFuture(lq)
	}
	s.idx[w] = i
	wl, locks, _ := state.VerifC09Inspect(w)
	lm := map[int]state.VerifC09Lock{}
	dm := map[int]int{}
	for _, l := range locks {
		a := -1
		for k := 0; k < s.nacc; k++ {
			if string(c09ID(k)) == l.ID {
				a = k
			}
		}
		lm[a] = l
		dm[a] = -1
		if l.Depend != nil {
			dm[a] = s.idx[l.Depend]
		}
	}
	s.wl[i], s.locks[i], s.depIdx[i] = wl, lm, dm
	s.wvs[i] = w
	s.created = i + 1

	// oracle 1: dependency = last earlier transaction that may write the account
	for a, d := range dm {
		want := c09LastWriter(s.txs, i, a)
		o.Check(d == want, "depend-not-last-writer", "tx %d account %d: real dependency %d, last earlier writer %d (locks %v)", i, a, d, want, tx.reqs)
		if want >= 0 {
			o.Count("dep-some")
		} else {
			o.Count("dep-none")
		}
	}
	if wl == state.AccountWriteLock {
		o.Count("world-write-tx")
	}
	for a, l := range lm {
		touched := false
		for _, st := range tx.prog {
			touched = touched || st.acct == a
		}
		if l.Lock == state.AccountWriteLock && !touched && dm[a] >= 0 {
			o.Count("untouched-write-lock-with-dependency")
		}
	}
}

func (s *c09Sys) ensure(i int, o *Oracle) {
	for s.created <= i {
		s.create(s.created, o)
	}
}

func c09LastWriter(txs []c09Tx, i, a int) int {
	want := -1
	for j := 0; j < i; j++ {
		if c09Access(txs[j], a) == 2 {
			want = j
		}
	}
	return want
}

type c09LI struct{ lock, dep int }

// view of the lock bookkeeping of transaction i: what the real virtual state holds once it
// exists; before that (lazy creation) what the request lists say it will hold, which only
// decides when the harness asks for the creation.
func (s *c09Sys) view(i int) (int, map[int]c09LI) {
	m := map[int]c09LI{}
	if i < s.created {
		for a, l := range s.locks[i] {
			m[a] = c09LI{l.Lock, s.depIdx[i][a]}
		}
		return s.wl[i], m
	}
	wl := 0
	for _, r := range s.txs[i].reqs {
		if r.world && r.write {
			wl = 2
		}
	}
	if wl == 2 {
		return wl, m
	}
	for _, r := range s.txs[i].reqs {
		if r.world {
			continue
		}
		l := 1
		if r.write {
			l = 2
		}
		if cur, ok := m[r.acct]; !ok || cur.lock < l {
			m[r.acct] = c09LI{l, c09LastWriter(s.txs, i, r.acct)}
		}
	}
	return wl, m
}

func (s *c09Sys) depTable() string {
	var parts []string
	for i := range s.txs {
		var es []string
		switch s.wl[i] {
		case state.AccountWriteLock:
			es = append(es, "W")
		case state.AccountReadLock:
			es = append(es, "R")
		}
		keys := make([]int, 0)
		for a := range s.locks[i] {
			keys = append(keys, a)
		}
		sort.Ints(keys)
		for _, a := range keys {
			d := "-"
			if s.depIdx[i][a] >= 0 {
				d = strconv.Itoa(s.depIdx[i][a])
			}
			k := "r"
			if s.locks[i][a].Lock == state.AccountWriteLock {
				k = "w"
			}
			es = append(es, fmt.Sprintf("%s%d>%s", k, a, d))
		}
		if len(es) == 0 {
			es = []string{"-"}
		}
		parts = append(parts, strings.Join(es, ","))
	}
	if len(parts) == 0 {
		return "-"
	}
	return strings.Join(parts, ";")
}

func c09Join(obs [][]string) string {
	var parts []string
	for _, o := range obs {
		if len(o) == 0 {
			parts = append(parts, "-")
		} else {
			parts = append(parts, strings.Join(o, ","))
		}
	}
	if len(parts) == 0 {
		return "-"
	}
	return strings.Join(parts, ";")
}

func c09Balances(ws state.WorldState, nacc int) string {
	var parts []string
	for a := 0; a < nacc; a++ {
		ass := ws.GetAccountSnapshot(c09ID(a))
		v := "n"
		if ass != nil {
			v = ass.GetBalance().String()
		}
		parts = append(parts, v)
	}
	return strings.Join(parts, ",")
}

func (r *c09Runner) Step(toks []string, o *Oracle) string {
	mode, nacc, txs, kind, sched, ok := c09Parse(toks)
	if !ok {
		return "bad-op"
	}
	n := len(txs)
	if kind == "p" {
		seen := map[int]bool{}
		for _, v := range sched {
			if v >= n || seen[v] {
				return "bad-op"
			}
			seen[v] = true
		}
		if len(sched) != n {
			return "bad-op"
		}
	}
	// a write needs write access (a read-only account state panics on SetBalance)
	for _, tx := range txs {
		for _, st := range tx.prog {
			if st.write && c09Access(tx, st.acct) == 1 {
				return "bad-op"
			}
		}
	}
	// A world write locker that commits without any state access never realizes its base; what
	// later readers of its view then wait for is not modelled (and cannot happen in the service:
	// the worker calls ctx.UpdateSystemInfo() before Execute). Left out of the ops.
	// A world READ lock (requested by no handler of the repository) is not serializable in the
	// real code (a later writer can be observed, see the report) and what exactly the reader sees
	// depends on world-snapshot internals: also left out.
	for _, tx := range txs {
		if len(tx.prog) == 0 && c09WorldWrite(tx) {
			return "unsupported"
		}
		for _, r := range tx.reqs {
			if r.world && !r.write {
				return "unsupported"
			}
		}
	}
	s := c09Build(nacc, txs)
	o.Count("mode-" + mode + "-" + kind)

	lazy := mode == "l" || mode == "d"
	if !lazy {
		s.ensure(n-1, o)
	}
	gated := mode == "g" || mode == "l"
	// start snapshots of retrying transactions (the worker's first action). With account locks
	// GetSnapshot never blocks: taken as soon as the virtual state exists, i.e. before the
	// predecessors have written. With the world write lock it waits (in Realize, holding the
	// mutexes of all uncommitted predecessors but the oldest) until every predecessor committed:
	// it is started early only under a priority schedule that runs the predecessors in block
	// order, otherwise when the transaction is first scheduled.
	snapAccounts := func() {
		for j := 0; j < s.created; j++ {
			if txs[j].retry && !c09WorldWrite(txs[j]) && s.snapDone[j] == nil {
				s.snapDone[j] = make(chan struct{})
				s.takeSnapshot(j)
				o.Count("retry-snapshot-account-locks")
			}
		}
	}
	if gated {
		snapAccounts()
	}
	if mode == "g" && kind == "p" {
		for k := 0; k < n; k++ {
			if !txs[k].retry || !c09WorldWrite(txs[k]) {
				continue
			}
			inOrder := true
			for j := 0; j < k; j++ {
				inOrder = inOrder && sched[j] == j
			}
			if inOrder && k > 0 {
				s.snapDone[k] = make(chan struct{})
				go s.takeSnapshot(k)
				o.Count("retry-snapshot-world-early")
			}
		}
	}

	type cmd struct{ commit bool }
	cmds := make([]chan cmd, n)
	done := make(chan int, n+1)
	pc := make([]int, n)
	committed := make([]bool, n)
	resolved := make([]map[int]bool, n)
	for i := range cmds {
		cmds[i] = make(chan cmd)
		resolved[i] = map[int]bool{}
	}
	allBefore := func(i int) bool {
		for j := 0; j < i; j++ {
			if !committed[j] {
				return false
			}
		}
		return true
	}
	depOK := func(i, a, d int) bool {
		// (the harness's own record of the Commits it ordered: asking the virtual state would
		// need its mutex, which a pending blocked action of that transaction holds)
		return d < 0 || resolved[i][a] || committed[d]
	}
	enabled := func(i int) bool {
		if committed[i] {
			return false
		}
		wl, lm := s.view(i)
		if pc[i] < len(txs[i].prog) {
			a := txs[i].prog[pc[i]].acct
			if li, ok := lm[a]; ok {
				return depOK(i, a, li.dep)
			}
			if wl != state.AccountNoLock {
				return allBefore(i)
			}
			return true
		}
		for a, li := range lm {
			if li.lock == state.AccountWriteLock && !depOK(i, a, li.dep) {
				return false
			}
		}
		return true
	}
	result := "ok"
	if mode == "g" || mode == "l" {
		for i := 0; i < n; i++ {
			go func(i int) {
				for c := range cmds[i] {
					if c.commit {
						if txs[i].retry {
							s.rerun(i, func() {})
						}
						s.wvs[i].Commit()
						done <- i
						return
					}
					c09DoStep(s.wvs[i].GetAccountState, i, txs[i].prog[pc[i]], &s.acc[i], &s.obs[i])
					done <- i
				}
			}(i)
		}
		si := 0
		remaining := n
		pending := make([]bool, n)
		finished := make([]bool, n)
		for remaining > 0 {
			var en []int
			for i := 0; i < n; i++ {
				if enabled(i) {
					en = append(en, i)
				}
			}
			if len(en) == 0 {
				result = "deadlock"
				break
			}
			pick := en[0]
			tokNow := 1
			if kind == "s" {
				t := 0
				if si < len(sched) {
					t = sched[si]
					si++
				}
				tokNow = t
				pick = en[t%len(en)]
			} else {
				for _, p := range sched {
					if enabled(p) {
						pick = p
						break
					}
				}
			}
			// probe: hand a transaction whose next action must block (per the real dependency
			// pointers) its command now and check that it really does not complete; it stays
			// pending and is only accounted when the schedule picks it. If the property holds
			// this is invisible: the blocked action runs as soon as its dependency commits, on
			// accounts nobody else may touch before this transaction commits.
			if pick >= s.created {
				o.Count("lazy-future-creation")
				for j := 0; j < pick; j++ {
					if committed[j] {
						o.Count("future-created-after-a-commit")
						break
					}
				}
			}
			created := make(chan struct{})
			go func() { s.ensure(pick, o); close(created) }()
			select {
			case <-created:
			case <-time.After(10 * time.Second):
				return "desync-create"
			}
			snapAccounts()
			if txs[pick].retry {
				if s.snapDone[pick] == nil {
					s.snapDone[pick] = make(chan struct{})
					go s.takeSnapshot(pick)
					o.Count("retry-snapshot-world-at-first-step")
				}
				select {
				case <-s.snapDone[pick]:
				case <-time.After(10 * time.Second):
					return "desync-snapshot"
				}
			}
			anyPending := false
			for _, pd := range pending {
				anyPending = anyPending || pd
			}
			// (one pending action at a time: a pending Commit may already have happened for
			// real, which would unblock a second probed transaction)
			// (not with lazy creation: a pending transaction sleeps holding its own mutex, and the
			// harness must not depend on GetFuture never looking at an existing virtual state)
			if kind == "s" && tokNow%5 == 0 && !anyPending && !lazy {
				for q := n - 1; q >= 0; q-- {
					if q >= s.created || q == pick || committed[q] || pending[q] || enabled(q) {
						continue
					}
					if pc[q] < len(txs[q].prog) {
						// a world locker waiting in Realize holds the mutexes of all its
						// uncommitted predecessors (they could then only proceed in block
						// order): only per-account waits are probed
						if _, ok := s.locks[q][txs[q].prog[pc[q]].acct]; !ok {
							continue
						}
					}
					cmds[q] <- cmd{commit: pc[q] >= len(txs[q].prog)}
					pending[q] = true
					o.Count("probe-blocked-action")
					early := false
					tm := time.NewTimer(1500 * time.Microsecond)
					select {
					case d := <-done:
						finished[d] = true
						early = d == q
					case <-tm.C:
					}
					tm.Stop()
					o.Check(!early, "blocked-action-completed-early", "tx %d: action at pc %d must wait for an uncommitted predecessor but completed", q, pc[q])
					if early {
						return fmt.Sprintf("early %d", q)
					}
					break
				}
			}
			isCommit := pc[pick] >= len(txs[pick].prog)
			if !pending[pick] {
				cmds[pick] <- cmd{commit: isCommit}
			}
			pending[pick] = false
			for !finished[pick] {
				select {
				case d := <-done:
					finished[d] = true
				case <-time.After(10 * time.Second):
					return "desync"
				}
			}
			finished[pick] = false
			if isCommit {
				committed[pick] = true
				remaining--
			} else {
				resolved[pick][txs[pick].prog[pc[pick]].acct] = true
				pc[pick]++
			}
		}
		if result != "ok" {
			for i := 0; i < n; i++ {
				if !committed[i] {
					close(cmds[i])
				}
			}
			return result
		}
	} else {
		seed := 0
		if len(sched) > 0 {
			seed = sched[0]
		}
		var wg sync.WaitGroup
		order := make([]int, n)
		for i := range order {
			order[i] = (i*7 + seed) % (n + 0)
		}
		started := map[int]bool{}
		launch := func(i int) {
			if started[i] {
				return
			}
			started[i] = true
			wg.Add(1)
			go func(i int) {
				defer wg.Done()
				x := uint32(seed*2654435761 + i*40503 + 1)
				if txs[i].retry {
					s.snapDone[i] = make(chan struct{})
					s.takeSnapshot(i)
				}
				for _, st := range txs[i].prog {
					x = x*1664525 + 1013904223
					switch (x >> 16) % 4 {
					case 0:
						runtime.Gosched()
					case 1:
						time.Sleep(time.Duration((x>>20)%200) * time.Microsecond)
					}
					c09DoStep(s.wvs[i].GetAccountState, i, st, &s.acc[i], &s.obs[i])
				}
				x = x*1664525 + 1013904223
				if (x>>16)%3 == 0 {
					time.Sleep(time.Duration((x>>20)%300) * time.Microsecond)
				}
				if txs[i].retry {
					s.rerun(i, func() {
						x = x*1664525 + 1013904223
						if (x>>16)%4 == 0 {
							runtime.Gosched()
						}
					})
				}
				s.wvs[i].Commit()
			}(i)
		}
		if mode == "d" {
			// like the dispatcher of transition_pe.go: the future of transaction i is created
			// when i is dispatched, while earlier transactions run and commit
			y := uint32(seed*7919 + 13)
			for i := 0; i < n; i++ {
				s.create(i, o)
				launch(i)
				y = y*1664525 + 1013904223
				switch (y >> 16) % 3 {
				case 0:
					runtime.Gosched()
				case 1:
					time.Sleep(time.Duration((y>>20)%400) * time.Microsecond)
				}
			}
		} else {
			for _, i := range order {
				launch(i)
			}
			for i := 0; i < n; i++ {
				launch(i)
			}
		}
		fin := make(chan struct{})
		go func() { wg.Wait(); close(fin) }()
		select {
		case <-fin:
		case <-time.After(20 * time.Second):
			o.Check(false, "free-run-deadlock", "free-running transactions did not finish within 20s")
			return "deadlock"
		}
	}
	for i := 0; i < n; i++ {
		o.Check(state.VerifC09Committed(s.wvs[i]), "commit-not-recorded", "virtual state %d is not committed after its Commit", i)
	}
	var hash []byte
	if n > 0 {
		s.wvs[n-1].Realize()
		hash = s.wvs[n-1].GetSnapshot().StateHash()
	} else {
		hash = s.ws.GetSnapshot().StateHash()
	}
	fin := c09Balances(s.ws, nacc)

	// sequential reference on a plain world state (same programs, block order)
	ref := state.NewWorldState(db.NewMapDB(), nil, nil, nil, nil)
	c09Init(ref, nacc)
	robs := make([][]string, n)
	for i, tx := range txs {
		acc := 0
		for _, st := range tx.prog {
			c09DoStep(func(id []byte) state.AccountState {
				if c09Access(tx, st.acct) == 0 {
					return nil
				}
				return ref.GetAccountState(id)
			}, i, st, &acc, &robs[i])
		}
	}
	rfin := c09Balances(ref, nacc)
	rhash := ref.GetSnapshot().StateHash()
	// assumptions of the serializability theorem (see registry): no world READ lock (no handler
	// requests one) and a world write locker accesses the state before it commits (the worker
	// always calls ctx.UpdateSystemInfo() first)
	wf := true
	for _, tx := range txs {
		ww := false
		for _, r := range tx.reqs {
			if r.world && !r.write {
				wf = false
			}
			if r.world && r.write {
				ww = true
			}
		}
		if ww && len(tx.prog) == 0 {
			wf = false
		}
	}
	if !wf {
		o.Count("outside-assumptions")
		if fin != rfin {
			o.Count("outside-assumptions-nonserial")
		}
		return fmt.Sprintf("ok d=%s o=%s f=%s", s.depTable(), c09Join(s.obs), fin)
	}
	for i := range txs {
		if txs[i].retry {
			o.Count("retry-tx")
			o.Check(s.retryNote[i] == "", "retry-read-differs", "tx %d (GetSnapshot at start, Reset, run again): %s", i, s.retryNote[i])
		}
	}
	for i := range txs {
		same := strings.Join(robs[i], ",") == strings.Join(s.obs[i], ",")
		o.Check(same, "tx-read-not-serial", "tx %d observed %v, sequential execution observes %v", i, s.obs[i], robs[i])
	}
	o.Check(fin == rfin, "final-state-differs", "final balances %s, sequential %s", fin, rfin)
	o.Check(bytes.Equal(hash, rhash), "state-hash-differs", "state hash after Realize %x, sequential %x", hash, rhash)
	return fmt.Sprintf("ok d=%s o=%s f=%s", s.depTable(), c09Join(s.obs), fin)
}
