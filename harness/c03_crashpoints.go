//go:build c03 || all

package main

// C03, crash points INSIDE Shift and INSIDE CloseAndRepair.
//
// wal.go calls os.* directly, so the file-system effects cannot be injected
// add-only. Instead the harness watches the WAL directory with inotify while
// the REAL function runs: the kernel reports create / modify (write, truncate)
// / delete events in the order the code issued them. The state "crash after
// the first j effects" is then rebuilt from the snapshot taken before the call
// by replaying the first j observed effects (final sizes taken from the state
// after the call).  The observed effect sequence is part of the output line, so
// the Lean model's sequence (order included) is compared with the real one.
//
//   recoverc J       writer closed: recovery loop (read + CloseAndRepair), crash after J effects of the repair
//   crashshift J K   writer open: Shift, crash after J of its effects
//                    (1 flush to the OS, 2 fsync, 3 create next segment); K = unsynced bytes kept when J < 2

import (
	"fmt"
	"os"
	"path/filepath"
	"strconv"
	"strings"
	"syscall"
	"unsafe"

	"github.com/icon-project/goloop/consensus"
)

type c03Effect struct {
	kind byte // 'w' modify (write/truncate), 'c' create, 'r' remove
	idx  uint64
}

type c03Watch struct {
	fd     int
	prefix string
}

func (r *c03Runner) watch() *c03Watch {
	fd, err := syscall.InotifyInit1(syscall.IN_NONBLOCK | syscall.IN_CLOEXEC)
	if err != nil {
		panic(err)
	}
	if _, err := syscall.InotifyAddWatch(fd, filepath.Dir(r.id), syscall.IN_MODIFY|syscall.IN_CREATE|syscall.IN_DELETE); err != nil {
		panic(err)
	}
	return &c03Watch{fd, filepath.Base(r.id) + "_"}
}

// effects returns the events since watch(), consecutive duplicates merged, and closes the watch.
func (w *c03Watch) effects() []c03Effect {
	defer syscall.Close(w.fd)
	var out []c03Effect
	buf := make([]byte, 1<<16)
	for {
		n, err := syscall.Read(w.fd, buf)
		if n <= 0 || err != nil {
			break
		}
		for off := 0; off+syscall.SizeofInotifyEvent <= n; {
			ev := (*syscall.InotifyEvent)(unsafe.Pointer(&buf[off]))
			name := strings.TrimRight(string(buf[off+syscall.SizeofInotifyEvent:off+syscall.SizeofInotifyEvent+int(ev.Len)]), "\x00")
			off += syscall.SizeofInotifyEvent + int(ev.Len)
			if !strings.HasPrefix(name, w.prefix) {
				continue
			}
			idx, err := strconv.ParseUint(name[len(w.prefix):], 10, 64)
			if err != nil {
				continue
			}
			var k byte
			switch {
			case ev.Mask&syscall.IN_CREATE != 0:
				k = 'c'
			case ev.Mask&syscall.IN_DELETE != 0:
				k = 'r'
			case ev.Mask&syscall.IN_MODIFY != 0:
				k = 'w'
			default:
				continue
			}
			e := c03Effect{k, idx}
			if len(out) > 0 && out[len(out)-1] == e {
				continue
			}
			out = append(out, e)
		}
	}
	return out
}

func c03Effects(es []c03Effect) string {
	if len(es) == 0 {
		return "."
	}
	ss := make([]string, len(es))
	for i, e := range es {
		ss[i] = fmt.Sprintf("%c%d", e.kind, e.idx)
	}
	return strings.Join(ss, ",")
}

func (r *c03Runner) snapshot() map[uint64][]byte {
	m := map[uint64][]byte{}
	for _, f := range r.list() {
		bs, err := os.ReadFile(consensus.VerifC03FileFor(r.id, f.idx))
		if err != nil {
			panic(err)
		}
		m[f.idx] = bs
	}
	return m
}

func (r *c03Runner) restore(m map[uint64][]byte) {
	for _, f := range r.list() {
		if _, ok := m[f.idx]; !ok {
			_ = os.Remove(consensus.VerifC03FileFor(r.id, f.idx))
		}
	}
	for idx, bs := range m {
		if err := os.WriteFile(consensus.VerifC03FileFor(r.id, idx), bs, 0600); err != nil {
			panic(err)
		}
	}
}

// stepRecoverC: recovery that crashes after j file-system effects of CloseAndRepair.
func (r *c03Runner) stepRecoverC(toks []string, o *Oracle) string {
	if len(toks) != 2 || r.ww != nil {
		return "bad-op"
	}
	j, err := strconv.Atoi(toks[1])
	if err != nil || j < 0 {
		return "bad-op"
	}
	if r.dir == "" || len(r.list()) == 0 {
		return "err"
	}
	before := r.snapshot()
	w := r.watch()
	recs, end, err := r.readLoop(true)
	effs := w.effects()
	if err != nil {
		o.Count("recoverc-err")
		return "err"
	}
	afterSize := map[uint64]int64{}
	for _, f := range r.list() {
		afterSize[f.idx] = f.size
	}
	// rebuild the state after the first j effects
	r.restore(before)
	applied := 0
	for i, e := range effs {
		if i >= j {
			break
		}
		pth := consensus.VerifC03FileFor(r.id, e.idx)
		switch e.kind {
		case 'w':
			if err := os.Truncate(pth, afterSize[e.idx]); err != nil {
				panic(err)
			}
		case 'r':
			if err := os.Remove(pth); err != nil {
				panic(err)
			}
		default:
			panic("unexpected effect of CloseAndRepair: " + c03Effects(effs))
		}
		applied++
	}
	switch {
	case len(effs) == 0:
		o.Count("recoverc-no-effects")
	case applied == len(effs):
		o.Count("recoverc-complete")
	case applied == 0:
		o.Count("recoverc-crash-before-first-effect")
	default:
		o.Count("recoverc-crash-between-effects")
	}
	out := fmt.Sprintf("ok end=%s n=%d eff=%s %s %s", end, len(recs), c03Effects(effs), c03Sizes(r.list()), r.diskSum())
	if r.poked {
		return out
	}
	// ---- oracle: whatever the crash point inside the repair, the next recovery must still see
	// every durable record and only a prefix of the appended ones
	again, end2, err2 := r.readLoop(false)
	if err2 != nil {
		o.Check(r.nsynced == 0, "crash-inside-repair-loses-synced-record", "after %d of the effects %s the WAL cannot be opened (%v): %d synced records unreachable; files %s", applied, c03Effects(effs), err2, r.nsynced, c03Sizes(r.list()))
		return out
	}
	o.Check(c03IsPrefix(again, r.log), "crash-inside-repair-returns-non-prefix", "after %d of the effects %s a read returns records that are not a prefix of the appended ones (end=%s)", applied, c03Effects(effs), end2)
	o.Check(len(again) >= r.nsynced, "crash-inside-repair-loses-synced-record", "after %d of the effects %s a read returns %d records, %d were synced; files %s", applied, c03Effects(effs), len(again), r.nsynced, c03Sizes(r.list()))
	return out
}

// stepCrashShift: Shift that crashes after j of its effects.
func (r *c03Runner) stepCrashShift(toks []string, o *Oracle) string {
	if len(toks) != 3 || r.ww == nil {
		return "bad-op"
	}
	j, e1 := strconv.Atoi(toks[1])
	k, e2 := strconv.ParseInt(toks[2], 10, 64)
	if e1 != nil || e2 != nil || j < 0 || k < 0 {
		return "bad-op"
	}
	oldTail := r.hook.TailIdx()
	durable := map[uint64]int64{}
	for idx, v := range r.durable {
		durable[idx] = v
	}
	before := r.snapshot()
	w := r.watch()
	if err := r.hook.Shift(); err != nil {
		panic(err)
	}
	effs := w.effects()
	newTail := r.hook.TailIdx()
	if err := r.hook.Crash(); err != nil {
		panic(err)
	}
	r.ww, r.hook = nil, nil
	// the order the code issued the effects: flush (if anything was buffered) before create
	created := -1
	for i, e := range effs {
		if e.kind == 'c' && e.idx == newTail {
			created = i
		}
		if e.kind == 'w' && e.idx == oldTail {
			o.Check(created < 0, "shift-creates-next-segment-before-flush", "Shift created segment %d before flushing segment %d: %s", newTail, oldTail, c03Effects(effs))
		}
	}
	o.Check(created >= 0 && newTail == oldTail+1, "shift-no-new-segment", "Shift effects %s", c03Effects(effs))
	if j < 3 {
		// the next segment does not exist yet
		if err := os.Remove(consensus.VerifC03FileFor(r.id, newTail)); err != nil {
			panic(err)
		}
	}
	if j < 2 {
		// not fsync'ed yet: the old tail keeps its durable bytes plus k of the others; a file that
		// was not even created durably before keeps nothing beyond its durable length
		_ = before
		for _, f := range r.list() {
			d := durable[f.idx]
			if f.idx == oldTail {
				uns := f.size - d
				kk := k
				if kk > uns {
					kk = uns
				}
				d += kk
			}
			if d < f.size {
				if err := os.Truncate(consensus.VerifC03FileFor(r.id, f.idx), d); err != nil {
					panic(err)
				}
			}
		}
	}
	jj := j
	if jj > 3 {
		jj = 3
	}
	o.Count(fmt.Sprintf("crashshift-%d", jj))
	return fmt.Sprintf("ok eff=%s %s %s", c03Effects(effs), c03Sizes(r.list()), r.diskSum())
}
