//go:build c34 || all

package main

import (
	stderrors "errors"
	"fmt"
	"os"
	"math/big"
	"sort"
	"strconv"
	"strings"

	"github.com/icon-project/goloop/common"
	"github.com/icon-project/goloop/common/log"
	"github.com/icon-project/goloop/icon/icmodule"
	"github.com/icon-project/goloop/icon/icsim"
	"github.com/icon-project/goloop/icon/iiss/icstate"
	"github.com/icon-project/goloop/module"
	"github.com/icon-project/goloop/service/state"
)

func init() {
	Register(&Prop{ID: "C34", Gen: c34Gen, New: func() Runner { return &c34Runner{} }})
}

const (
	c34TermPeriod  = 10
	c34LockMult    = 1
	c34SlotMax     = 3
	c34UnbondMult  = 1
	c34NPreps      = 7
	c34NActors     = 8
	c34NonPrepTgt  = 7 // vote target index that is no P-Rep
)

var c34ICX = new(big.Int).Exp(big.NewInt(10), big.NewInt(18), nil)

// c34World wraps one real simulator (icsim.Env at the latest revision).
type c34World struct {
	env    *icsim.Env
	sim    icsim.Simulator
	actors []module.Address
	tgts   []module.Address // vote targets 0..7
	all    []module.Address // every account that can hold ICX
}

func c34NewWorld() *c34World {
	log.GlobalLogger().SetLevel(c34LogLevel())
	c := icsim.NewSimConfig()
	c.TermPeriod = c34TermPeriod
	c.MainPRepCount = 4
	c.SubPRepCount = 3
	c.ExtraMainPRepCount = 0
	c.LockMinMultiplier = c34LockMult
	c.LockMaxMultiplier = c34LockMult
	c.UnstakeSlotMax = c34SlotMax
	c.UnbondingPeriodMultiplier = c34UnbondMult
	env, err := icsim.NewEnv(c, icmodule.ValueToRevision(icmodule.LatestRevision))
	if err != nil {
		panic(err)
	}
	w := &c34World{env: env, sim: env.Simulator()}
	users, bonders, preps := icsim.VerifC34Users(env), icsim.VerifC34Bonders(env), icsim.VerifC34PReps(env)
	// five fresh accounts (funded below) act as stakers/delegators: every vote of theirs is made
	// after decentralization, so the reward database knows all of it
	for i := 0; i < 5; i++ {
		b := make([]byte, 21)
		v := 5000 + i
		b[19], b[20] = byte(v>>8), byte(v)
		w.actors = append(w.actors, common.MustNewAddress(b))
	}
	w.actors = append(w.actors, bonders[0:2]...)
	w.actors = append(w.actors, preps[0])
	w.tgts = append(w.tgts, preps...)
	w.tgts = append(w.tgts, users[99])
	w.tgts = append(w.tgts, w.actors[0:5]...) // targets 8..12: the five fresh accounts, which may register as P-Reps later
	w.all = append(w.all, w.actors[0:5]...)
	w.all = append(w.all, preps...)
	w.all = append(w.all, users...)
	w.all = append(w.all, bonders...)
	for i := 0; i < 4; i++ {
		b := make([]byte, 21)
		v := 4000 + i
		b[19], b[20] = byte(v>>8), byte(v)
		w.all = append(w.all, common.MustNewAddress(b))
	}
	w.all = append(w.all, icsim.VerifC34Treasury(w.sim), state.SystemAddress, env.Governance())
	// fund the treasury so that claims can be paid (moves ICX inside the non-modelled rest)
	rc, err := w.sim.GoByTransfer(nil, users[60], icsim.VerifC34Treasury(w.sim), new(big.Int).Mul(big.NewInt(1000), c34ICX))
	if err != nil || !icsim.CheckReceiptSuccess(rc...) {
		panic("treasury funding failed")
	}
	for i := 0; i < 5; i++ {
		rc, err = w.sim.GoByTransfer(nil, users[10+i], w.actors[i], new(big.Int).Mul(big.NewInt(5000), c34ICX))
		if err != nil || !icsim.CheckReceiptSuccess(rc...) {
			panic("actor funding failed")
		}
	}
	// bonders in the bonder lists of several P-Reps (through the P-Rep owners' setBonderList):
	// actor 5 (bonders[0]) may bond to P-Reps 0,1,2; actor 6 (bonders[1]) to P-Reps 1,0  -- see c34MayBond
	addBonder := func(prep int, bonder module.Address) {
		bl := append(icstate.BonderList{}, w.sim.GetBonderList(preps[prep])...)
		bl = append(bl, common.AddressToPtr(bonder))
		rc, err = w.sim.GoBySetBonderList(nil, preps[prep], bl)
		if err != nil || !icsim.CheckReceiptSuccess(rc...) {
			panic(fmt.Sprintf("setBonderList failed: %v", err))
		}
	}
	addBonder(1, bonders[0])
	addBonder(2, bonders[0])
	addBonder(0, bonders[1])
	return w
}

// slash sets the double-sign slashing rate (one block) and reports a double sign of P-Rep k (next block).
func (w *c34World) slash(k int, rate int64, between func()) {
	rc, err := w.sim.GoBySetSlashingRates(nil, w.env.Governance(), map[string]icmodule.Rate{
		icmodule.PenaltyDoubleSign.String(): icmodule.Rate(rate),
	})
	if err != nil || !icsim.CheckReceiptSuccess(rc...) {
		panic(fmt.Sprintf("setSlashingRates failed: %v", err))
	}
	if between != nil {
		between()
	}
	rc, err = w.sim.GoByHandleDoubleSignReport(nil, state.SystemAddress, module.DSTProposal, w.sim.BlockHeight(), w.tgts[k])
	if err != nil || !icsim.CheckReceiptSuccess(rc...) {
		panic(fmt.Sprintf("double sign report failed: %v", err))
	}
}

// stakeFingerprint: the stakes of all accounts and the network totals (to see whether a penalty slashed anything)
func (w *c34World) stakeFingerprint() string {
	var sb strings.Builder
	for _, a := range w.all {
		sb.WriteString(w.acct(a).stake.String())
		sb.WriteByte(',')
	}
	sb.WriteString(w.sim.TotalStake().String())
	return sb.String()
}

// c34MayBond: the bonder lists of the environment (parameter of the model, same table in Driver/C34.lean)
var c34MayBond = map[int][]int{5: {0, 1, 2}, 6: {1, 0}, 7: {0}}

type c34Acct struct {
	bal, stake     *big.Int
	unstakes       [][2]*big.Int // value, expire
	delegs, bonds  []c34Vote
	unbonds        []c34Unbond
	deleg, bond, unbond *big.Int
}
type c34Vote struct {
	to  int
	amt *big.Int
}
type c34Unbond struct {
	to     int
	amt    *big.Int
	expire int64
}

func (w *c34World) tgtIndex(a module.Address) int {
	for i, t := range w.tgts {
		if t.Equal(a) {
			return i
		}
	}
	return 99
}

func (w *c34World) acct(a module.Address) *c34Acct {
	r := &c34Acct{bal: w.sim.GetBalance(a), stake: new(big.Int), deleg: new(big.Int), bond: new(big.Int), unbond: new(big.Int)}
	as := w.sim.GetAccountSnapshot(a)
	if as == nil {
		return r
	}
	r.stake = as.Stake()
	for _, u := range as.UnStakes() {
		r.unstakes = append(r.unstakes, [2]*big.Int{u.GetValue(), big.NewInt(u.GetExpire())})
	}
	for _, d := range as.Delegations() {
		r.delegs = append(r.delegs, c34Vote{w.tgtIndex(d.To()), d.Amount()})
	}
	for _, b := range as.Bonds() {
		r.bonds = append(r.bonds, c34Vote{w.tgtIndex(b.To()), b.Amount()})
	}
	for _, u := range as.Unbonds() {
		r.unbonds = append(r.unbonds, c34Unbond{w.tgtIndex(u.Address()), u.Value(), u.Expire()})
	}
	sort.Slice(r.unbonds, func(i, j int) bool { return r.unbonds[i].to < r.unbonds[j].to })
	r.deleg, r.bond, r.unbond = as.Delegating(), as.Bond(), as.Unbond()
	return r
}

func c34Votes(vs []c34Vote) string {
	if len(vs) == 0 {
		return "-"
	}
	p := make([]string, len(vs))
	for i, v := range vs {
		p[i] = fmt.Sprintf("%d:%s", v.to, v.amt)
	}
	return strings.Join(p, ",")
}

func (a *c34Acct) digest() string {
	us := make([]string, len(a.unstakes))
	for i, u := range a.unstakes {
		us[i] = fmt.Sprintf("%s@%s", u[0], u[1])
	}
	ub := make([]string, len(a.unbonds))
	for i, u := range a.unbonds {
		ub[i] = fmt.Sprintf("%d:%s@%d", u.to, u.amt, u.expire)
	}
	return fmt.Sprintf("%s %s [%s] %s %s [%s]", a.bal, a.stake, strings.Join(us, ","), c34Votes(a.delegs), c34Votes(a.bonds), strings.Join(ub, ","))
}

func (w *c34World) digest(ok bool) string { return w.digestOks([]bool{ok}) }

func (w *c34World) digestOks(oks []bool) string {
	var sb strings.Builder
	for i, ok := range oks {
		if i > 0 {
			sb.WriteString(",")
		}
		if ok {
			sb.WriteString("done")
		} else {
			sb.WriteString("fail")
		}
	}
	fmt.Fprintf(&sb, " h=%d", w.sim.BlockHeight())
	for _, a := range w.actors {
		sb.WriteString(" | ")
		sb.WriteString(w.acct(a).digest())
	}
	fmt.Fprintf(&sb, " | TS=%s TD=%s TB=%s", w.sim.TotalStake(), icsim.VerifC34TotalDelegation(w.sim), w.sim.TotalBond())
	return sb.String()
}

// exec runs one block with the given transaction (nil = empty block); returns tx success.
func (w *c34World) exec(tx icsim.Transaction) bool {
	var rc []icsim.Receipt
	var err error
	if tx == nil {
		rc, err = w.sim.GoByBlock(nil, nil)
	} else {
		rc, err = w.sim.GoByTransaction(nil, tx)
	}
	if err != nil {
		msg := fmt.Sprintf("block %d failed: %+v", w.sim.BlockHeight()+1, err)
		for e := stderrors.Unwrap(err); e != nil; e = stderrors.Unwrap(e) {
			msg += " <- " + e.Error()
		}
		panic(msg)
	}
	if tx == nil {
		return true
	}
	return rc[1].Status() == 1
}

// execMany runs one block with several transactions; returns the success of each.
func (w *c34World) execMany(txs ...icsim.Transaction) []bool {
	rc, err := w.sim.GoByTransaction(nil, txs...)
	if err != nil {
		panic(fmt.Sprintf("block %d failed: %+v", w.sim.BlockHeight()+1, err))
	}
	oks := make([]bool, len(txs))
	for i := range txs {
		oks[i] = rc[i+1].Status() == 1
	}
	return oks
}

func (w *c34World) mkStake2(toks []string) ([]icsim.Transaction, bool) {
	if len(toks) != 4 {
		return nil, false
	}
	i, err := strconv.Atoi(toks[1])
	v1, ok1 := new(big.Int).SetString(toks[2], 10)
	v2, ok2 := new(big.Int).SetString(toks[3], 10)
	if err != nil || i < 0 || i >= len(w.actors) || !ok1 || !ok2 {
		return nil, false
	}
	return []icsim.Transaction{w.sim.SetStake(w.actors[i], v1), w.sim.SetStake(w.actors[i], v2)}, true
}

func (w *c34World) mkTx(toks []string) (icsim.Transaction, bool) {
	actor := func(s string) (module.Address, bool) {
		i, err := strconv.Atoi(s)
		if err != nil || i < 0 || i >= len(w.actors) {
			return nil, false
		}
		return w.actors[i], true
	}
	switch toks[0] {
	case "stake":
		if len(toks) != 3 {
			return nil, false
		}
		a, ok := actor(toks[1])
		v, ok2 := new(big.Int).SetString(toks[2], 10)
		if !ok || !ok2 {
			return nil, false
		}
		return w.sim.SetStake(a, v), true
	case "deleg", "bond":
		if len(toks) != 3 {
			return nil, false
		}
		a, ok := actor(toks[1])
		vs, ok2 := c34ParseVotes(toks[2])
		if !ok || !ok2 {
			return nil, false
		}
		for _, v := range vs {
			if v.to >= len(w.tgts) {
				return nil, false
			}
		}
		if toks[0] == "deleg" {
			ds := icstate.Delegations{}
			for _, v := range vs {
				ds = append(ds, icstate.NewDelegation(common.AddressToPtr(w.tgts[v.to]), v.amt))
			}
			return w.sim.SetDelegation(a, ds), true
		}
		bs := icstate.Bonds{}
		for _, v := range vs {
			bs = append(bs, icstate.NewBond(common.AddressToPtr(w.tgts[v.to]), v.amt))
		}
		return w.sim.SetBond(a, bs), true
	case "xfer":
		if len(toks) != 4 {
			return nil, false
		}
		a, ok := actor(toks[1])
		b, ok2 := actor(toks[2])
		v, ok3 := new(big.Int).SetString(toks[3], 10)
		if !ok || !ok2 || !ok3 {
			return nil, false
		}
		return w.sim.Transfer(a, b, v), true
	case "claim":
		if len(toks) != 4 {
			return nil, false
		}
		a, ok := actor(toks[1])
		if !ok {
			return nil, false
		}
		return w.sim.ClaimIScore(a), true
	case "regprep":
		if len(toks) != 3 {
			return nil, false
		}
		i, err := strconv.Atoi(toks[1])
		if err != nil || i < 0 || i >= 5 || toks[2] != icmodule.BigIntRegPRepFee.String() {
			return nil, false
		}
		return w.sim.RegisterPRep(w.actors[i], icsim.VerifC34DummyPRepInfo(500+i)), true
	}
	return nil, false
}

func c34ParseVotes(s string) ([]c34Vote, bool) {
	if s == "-" {
		return nil, true
	}
	var vs []c34Vote
	for _, part := range strings.Split(s, ",") {
		kv := strings.Split(part, ":")
		if len(kv) != 2 {
			return nil, false
		}
		k, err := strconv.Atoi(kv[0])
		if err != nil || k < 0 {
			return nil, false
		}
		a, ok := new(big.Int).SetString(kv[1], 10)
		if !ok {
			return nil, false
		}
		vs = append(vs, c34Vote{k, a})
	}
	return vs, true
}

// ---------------------------------------------------------------- generator
// The generator drives its own simulator to learn the parameters the model
// takes as inputs (claimed amounts) and to bias towards boundary values.

func c34Amt(g *Gen, max *big.Int) *big.Int {
	// a value in [0, max], often a whole number of ICX
	if max.Sign() <= 0 {
		return new(big.Int)
	}
	v := new(big.Int).Rand(g.R, new(big.Int).Add(max, big.NewInt(1)))
	if g.Intn(3) != 0 {
		v.Div(v, c34ICX)
		v.Mul(v, c34ICX)
	}
	return v
}

func c34Case(g *Gen, nOps int) {
	w := c34NewWorld()
	g.Emit("init %d %d %d %d %s %s %s", w.sim.BlockHeight(), c34LockMult*c34TermPeriod, c34SlotMax, c34UnbondMult*c34TermPeriod,
		w.sim.TotalStake(), icsim.VerifC34TotalDelegation(w.sim), w.sim.TotalBond())
	for i, a := range w.actors {
		ac := w.acct(a)
		g.Emit("acct %d %s %s %s %s", i, ac.bal, ac.stake, c34Votes(ac.delegs), c34Votes(ac.bonds))
	}
	one := big.NewInt(1)
	focus := g.Intn(5) // one staker acts in bursts so that unstake slots fill up
	cand := g.Intn(5)  // one fresh account collects delegations and registers as a P-Rep later in the case
	for n := 0; n < nOps; n++ {
		i := g.Intn(c34NActors)
		burst := g.Intn(3) == 0
		if burst {
			i = focus
		}
		ac := w.acct(w.actors[i])
		using := new(big.Int).Add(ac.deleg, new(big.Int).Add(ac.bond, ac.unbond))
		unstaking := new(big.Int)
		for _, u := range ac.unstakes {
			unstaking.Add(unstaking, u[0])
		}
		maxStake := new(big.Int).Add(ac.bal, new(big.Int).Add(ac.stake, unstaking))
		var line string
		kind := g.Pick(0, 0, 0, 1, 1, 2, 2, 3, 4, 5, 5, 5, 6)
		if n > nOps/3 && g.Intn(6) == 0 {
			kind = 7
		}
		// penalties with slashing: mostly while some bonder has a pending unbond for the P-Rep
		slashK := -1
		for _, bi := range []int{5, 6, 7} {
			for _, u := range w.acct(w.actors[bi]).unbonds {
				if u.to < 2 {
					slashK = u.to
				}
			}
		}
		if (slashK >= 0 && g.Intn(4) == 0) || g.Intn(40) == 0 {
			if slashK < 0 || g.Intn(5) == 0 {
				slashK = g.Intn(2)
			}
			rate := int64(g.Pick(1, 100, 1000, 1000, 2500, 5000, 9999, 1+g.Intn(9999)))
			fp := w.stakeFingerprint()
			w.slash(slashK, rate, nil)
			applied := 0
			if w.stakeFingerprint() != fp {
				applied = 1
			}
			g.Emit("slash %d %d %d", slashK, rate, applied)
			continue
		}
		sub := g.Intn(9)
		if burst && g.Intn(3) != 0 {
			kind, sub = 0, g.Pick(6, 6, 6, 5, 7)
			if g.Intn(4) == 0 {
				kind = 6
			}
		}
		if ac.unbond.Sign() > 0 && g.Intn(2) == 0 {
			kind = 1 // delegate while something is unbonding
		} else if i >= 5 && g.Intn(2) == 0 {
			kind = g.Pick(1, 2, 2, 0) // bonders: bond / unbond / delegate / stake around the unbonding amount
		}
		if kind == 0 && sub == 6 && ac.stake.Cmp(using) == 0 {
			sub = 7
		}
		switch kind {
		case 0: // stake
			var v *big.Int
			switch sub {
			case 0:
				v = new(big.Int).Set(using)
			case 1:
				v = new(big.Int).Sub(using, one)
				if ac.unbond.Sign() > 0 && g.Intn(2) == 0 {
					v = new(big.Int).Sub(using, c34Amt(g, ac.unbond))
				}
			case 2:
				v = new(big.Int).Set(maxStake)
			case 3:
				v = new(big.Int).Add(maxStake, one)
			case 4:
				v = new(big.Int).Set(ac.stake)
			case 5: // cancel exactly the last unstake slot
				v = new(big.Int).Set(ac.stake)
				if len(ac.unstakes) > 0 {
					v.Add(v, ac.unstakes[len(ac.unstakes)-1][0])
				}
			case 6: // unstake a little
				v = new(big.Int).Sub(ac.stake, c34Amt(g, new(big.Int).Sub(ac.stake, using)))
			default:
				v = c34Amt(g, maxStake)
			}
			line = fmt.Sprintf("stake %d %s", i, v)
		case 1: // delegation
			avail := new(big.Int).Sub(ac.stake, new(big.Int).Add(ac.bond, ac.unbond))
			if ac.unbond.Sign() > 0 && g.Intn(2) == 0 {
				avail.Add(avail, c34Amt(g, ac.unbond)) // probe: count (part of) the unbonding amount as free
			}
			k := g.Intn(4)
			var vs []c34Vote
			used := map[int]bool{}
			rem := new(big.Int).Set(avail)
			for j := 0; j < k; j++ {
				t := g.Intn(8)
				if g.Intn(3) == 0 {
					t = 7 + g.Intn(6) // not (yet) P-Reps: users[99] and the five fresh accounts
				} else if g.Intn(2) == 0 {
					t = 8 + cand
				}
				if used[t] {
					continue
				}
				used[t] = true
				a := c34Amt(g, rem)
				if j == k-1 && g.Intn(2) == 0 {
					a = new(big.Int).Set(rem)
					if g.Intn(4) == 0 {
						a.Add(a, one)
					}
				}
				if a.Sign() <= 0 {
					continue
				}
				rem.Sub(rem, a)
				vs = append(vs, c34Vote{t, a})
			}
			line = fmt.Sprintf("deleg %d %s", i, c34Votes(vs))
		case 2: // bond
			avail := new(big.Int).Sub(ac.stake, new(big.Int).Add(ac.deleg, ac.unbond))
			t := g.Intn(3)
			switch i {
			case 5:
				t = g.Pick(0, 0, 1, 2, 3)
			case 6:
				t = g.Pick(1, 1, 0, 2)
			case 7:
				t = g.Pick(0, 0, 0, 2)
			}
			var vs []c34Vote
			sub2 := g.Intn(6)
			if al := c34MayBond[i]; len(al) > 1 && g.Intn(2) == 0 {
				sub2 = 6 + g.Intn(3)
			}
			switch sub2 {
			case 6: // split the whole voting power between two P-Reps the account may bond to
				al := c34MayBond[i]
				t1, t2 := al[0], al[1+g.Intn(len(al)-1)]
				if avail.Sign() > 1 {
					h1 := c34Amt(g, avail)
					if g.Intn(2) == 0 {
						h1 = new(big.Int).Rsh(avail, 1)
					}
					if h1.Sign() > 0 && h1.Cmp(avail) < 0 {
						vs = []c34Vote{{t1, h1}, {t2, new(big.Int).Sub(avail, h1)}}
					}
				}
			case 7: // move the whole current bond to one P-Rep in one call (bond total unchanged, at full stake or not)
				al := c34MayBond[i]
				if ac.bond.Sign() > 0 {
					vs = []c34Vote{{al[g.Intn(len(al))], new(big.Int).Set(ac.bond)}}
				}
			case 8: // move part of the bond between P-Reps, total unchanged
				al := c34MayBond[i]
				if len(ac.bonds) > 0 && ac.bond.Sign() > 1 {
					keep := c34Amt(g, ac.bond)
					t1 := ac.bonds[0].to
					t2 := al[g.Intn(len(al))]
					if t2 != t1 && keep.Sign() > 0 && keep.Cmp(ac.bond) < 0 {
						vs = []c34Vote{{t1, keep}, {t2, new(big.Int).Sub(ac.bond, keep)}}
					}
				}
			case 0:
			case 1:
				vs = []c34Vote{{t, new(big.Int).Add(avail, one)}}
			case 2:
				if avail.Sign() > 0 {
					vs = []c34Vote{{t, new(big.Int).Set(avail)}}
				}
			default:
				a := c34Amt(g, avail)
				if a.Sign() > 0 {
					vs = []c34Vote{{t, a}}
				}
			}
			line = fmt.Sprintf("bond %d %s", i, c34Votes(vs))
		case 3: // transfer
			j := g.Intn(c34NActors)
			var v *big.Int
			switch g.Intn(6) {
			case 0:
				v = new(big.Int).Set(ac.bal)
			case 1:
				v = new(big.Int).Add(ac.bal, one)
			case 2:
				v = new(big.Int)
			case 3:
				v = big.NewInt(-1)
			default:
				v = c34Amt(g, ac.bal)
			}
			line = fmt.Sprintf("xfer %d %d %s", i, j, v)
		case 7: // one of the fresh accounts (which may already have received delegations) registers as a P-Rep
			who := cand
			if g.Intn(4) == 0 {
				who = g.Intn(5)
			}
			line = fmt.Sprintf("regprep %d %s", who, icmodule.BigIntRegPRepFee)
		case 6: // two setStake transactions of one account in the same block (slots sharing an expiry height)
			free := new(big.Int).Sub(ac.stake, using)
			if free.Sign() <= 0 {
				free = new(big.Int)
			}
			d1 := c34Amt(g, free)
			v1 := new(big.Int).Sub(ac.stake, d1)
			var v2 *big.Int
			switch g.Intn(4) {
			case 0: // second one stakes up again
				v2 = new(big.Int).Add(v1, c34Amt(g, d1))
			case 1:
				v2 = c34Amt(g, maxStake)
			default: // second decrease
				v2 = new(big.Int).Sub(v1, c34Amt(g, new(big.Int).Sub(free, d1)))
			}
			line = fmt.Sprintf("stake2 %d %s %s", i, v1, v2)
			txs, _ := w.mkStake2(strings.Fields(line))
			w.execMany(txs...)
			g.Emit("%s", line)
			continue
		case 4: // claim: the amount paid is a parameter of the model, observed here
			before := w.sim.GetBalance(w.actors[i])
			tx, _ := w.mkTx([]string{"claim", strconv.Itoa(i), "0", "0"})
			ok := w.exec(tx)
			paid := new(big.Int).Sub(w.sim.GetBalance(w.actors[i]), before)
			paid.Sub(paid, c34Expiring(ac, w.sim.BlockHeight())) // unstakes returned by the timers of this block
			paid.Add(paid, c34Expiring(w.acct(w.actors[i]), w.sim.BlockHeight())) // ... unless the slot is still there (lost timer)
			okS := 0
			if ok {
				okS = 1
			}
			g.Emit("claim %d %s %d", i, paid, okS)
			continue
		default: // idle blocks
			nb := g.Pick(1, 1, 2, 3, 5, 9, 10, 11, 20)
			g.Emit("idle %d", nb)
			for b := 0; b < nb; b++ {
				w.exec(nil)
			}
			continue
		}
		tx, ok := w.mkTx(strings.Fields(line))
		if !ok {
			panic("generator made a bad op: " + line)
		}
		if os.Getenv("VERIF_DEBUG") != "" {
			fmt.Fprintln(os.Stderr, line)
		}
		w.exec(tx)
		g.Emit("%s", line)
	}
}

func c34Gen(g *Gen) {
	nOps := 40
	if g.Tier == "thorough" {
		nOps = 120
	}
	for i := 0; i < g.N; i++ {
		c34Case(g, nOps)
		g.Emit("reset")
	}
	g.Emit("stake 0")
	g.Emit("frobnicate")
}

// ---------------------------------------------------------------- runner + oracle

type c34Runner struct {
	shared map[string]bool // accounts that have held two unstake slots with the same expiry height
	w    *c34World
	last map[string]*c34Acct // state of every account after the previous block
}

func (r *c34Runner) Step(toks []string, o *Oracle) string {
	if len(toks) == 0 {
		return "bad-op"
	}
	switch toks[0] {
	case "init":
		if len(toks) != 8 {
			return "bad-op"
		}
		r.w = c34NewWorld()
		r.last = nil
		r.shared = nil
		if toks[1] != strconv.FormatInt(r.w.sim.BlockHeight(), 10) || toks[5] != r.w.sim.TotalStake().String() ||
			toks[6] != icsim.VerifC34TotalDelegation(r.w.sim).String() || toks[7] != r.w.sim.TotalBond().String() {
			return "init-mismatch"
		}
		r.checkBlock(o, nil, -1)
		return "ok"
	case "acct":
		if r.w == nil || len(toks) != 6 {
			return "bad-op"
		}
		i, err := strconv.Atoi(toks[1])
		if err != nil || i < 0 || i >= len(r.w.actors) {
			return "bad-op"
		}
		ac := r.w.acct(r.w.actors[i])
		if ac.bal.String() != toks[2] || ac.stake.String() != toks[3] || c34Votes(ac.delegs) != toks[4] || c34Votes(ac.bonds) != toks[5] ||
			len(ac.unstakes) != 0 || len(ac.unbonds) != 0 {
			return "init-mismatch"
		}
		return "ok"
	case "idle":
		if r.w == nil || len(toks) != 2 {
			return "bad-op"
		}
		n, err := strconv.Atoi(toks[1])
		if err != nil || n < 0 || n > 1000 {
			return "bad-op"
		}
		for b := 0; b < n; b++ {
			before := r.snapshot()
			r.w.exec(nil)
			r.checkBlock(o, before, -1)
		}
		o.Count("idle")
		return r.w.digest(true)
	case "slash":
		if r.w == nil || len(toks) != 4 {
			return "bad-op"
		}
		k, err1 := strconv.Atoi(toks[1])
		rate, err2 := strconv.ParseInt(toks[2], 10, 64)
		if err1 != nil || err2 != nil || k < 0 || k >= 2 || rate < 1 || rate >= 10000 {
			return "bad-op"
		}
		before := r.snapshot()
		fp := r.w.stakeFingerprint()
		r.w.slash(k, rate, func() { r.checkBlock(o, before, -1); before = r.snapshot() })
		// the bonders of the P-Rep are touched by the penalty (their balances must not change, checked below)
		r.checkBlock(o, before, 5, 6, 7)
		applied := "0"
		if r.w.stakeFingerprint() != fp {
			applied = "1"
			o.Count("slash-applied")
			for _, bi := range []int{5, 6, 7} {
				for _, u := range before[r.w.actors[bi].String()].unbonds {
					if u.to == k {
						o.Count("slash-with-pending-unbond")
					}
				}
			}
		} else {
			o.Count("slash-ignored")
		}
		for _, bi := range []int{5, 6, 7} {
			a := r.w.actors[bi]
			o.Check(before[a.String()].bal.Cmp(r.w.sim.GetBalance(a)) == 0, "c34-penalty-changes-balance", "bonder %s balance changed by a penalty", a)
		}
		if applied != toks[3] {
			return "slash-param-mismatch"
		}
		return r.w.digest(true)
	case "stake2":
		if r.w == nil {
			return "bad-op"
		}
		txs, ok := r.w.mkStake2(toks)
		if !ok {
			return "bad-op"
		}
		actor, _ := strconv.Atoi(toks[1])
		before := r.snapshot()
		oks := r.w.execMany(txs...)
		r.checkBlock(o, before, actor)
		af := r.w.acct(r.w.actors[actor])
		for k := 1; k < len(af.unstakes); k++ {
			if af.unstakes[k][1].Cmp(af.unstakes[k-1][1]) == 0 {
				o.Count("two-slots-same-expiry")
				break
			}
		}
		o.Count("stake2")
		return r.w.digestOks(oks)
	case "stake", "deleg", "bond", "xfer", "claim", "regprep":
		if r.w == nil {
			return "bad-op"
		}
		tx, ok := r.w.mkTx(toks)
		if !ok {
			return "bad-op"
		}
		actor, _ := strconv.Atoi(toks[1])
		actor2 := -1
		if toks[0] == "xfer" {
			actor2, _ = strconv.Atoi(toks[2])
		}
		before := r.snapshot()
		okTx := r.w.exec(tx)
		r.checkBlock(o, before, actor, actor2)
		if okTx {
			o.Count(toks[0] + "-ok")
			if toks[0] == "stake" {
				bf, af := before[r.w.actors[actor].String()], r.w.acct(r.w.actors[actor])
				if af.stake.Cmp(bf.stake) < 0 {
					if len(bf.unstakes) >= c34SlotMax {
						o.Count("unstake-into-full-slots")
					} else {
						o.Count("unstake-new-slot")
					}
				} else if af.stake.Cmp(bf.stake) > 0 && len(bf.unstakes) > 0 {
					if len(af.unstakes) < len(bf.unstakes) {
						o.Count("restake-removes-slot")
					} else {
						o.Count("restake-shrinks-slot")
					}
				}
			}
		} else {
			o.Count(toks[0] + "-fail")
		}
		if toks[0] == "claim" {
			paid := new(big.Int).Sub(r.w.sim.GetBalance(r.w.actors[actor]), before[r.w.actors[actor].String()].bal)
			paid.Sub(paid, c34Expiring(before[r.w.actors[actor].String()], r.w.sim.BlockHeight()))
			paid.Add(paid, c34Expiring(r.w.acct(r.w.actors[actor]), r.w.sim.BlockHeight()))
			exp := "0"
			if okTx {
				exp = "1"
			}
			if paid.String() != toks[2] || exp != toks[3] {
				return "claim-param-mismatch"
			}
		}
		return r.w.digest(okTx)
	}
	return "bad-op"
}

func (r *c34Runner) snapshot() map[string]*c34Acct {
	if r.last != nil {
		return r.last
	}
	m := map[string]*c34Acct{}
	for _, a := range r.w.all {
		m[a.String()] = r.w.acct(a)
	}
	return m
}

// checkBlock evaluates the property on the real state after a block.
// touched = indices of actors whose transaction ran in this block (-1 none).
func (r *c34Runner) checkBlock(o *Oracle, before map[string]*c34Acct, touched ...int) {
	w := r.w
	h := w.sim.BlockHeight()
	sum := new(big.Int)
	sumStake := new(big.Int)
	sumDeleg := new(big.Int)
	sumBond := new(big.Int)
	treasury := icsim.VerifC34Treasury(w.sim).String()
	isTouched := map[string]bool{treasury: true}
	for _, t := range touched {
		if t >= 0 {
			isTouched[w.actors[t].String()] = true
		}
	}
	now := map[string]*c34Acct{}
	defer func() { r.last = now }()
	activeTgt := make([]bool, len(w.tgts))
	for t, ta := range w.tgts {
		if p := w.sim.GetPRepByOwner(ta); p != nil && p.IsActive() {
			activeTgt[t] = true
		}
	}
	isActive := func(t int) bool { return t >= 0 && t < len(activeTgt) && activeTgt[t] }
	for _, a := range w.all {
		ac := w.acct(a)
		now[a.String()] = ac
		sum.Add(sum, ac.bal)
		sum.Add(sum, ac.stake)
		sumStake.Add(sumStake, ac.stake)
		if r.shared == nil {
			r.shared = map[string]bool{}
		}
		for k := 1; k < len(ac.unstakes); k++ {
			if ac.unstakes[k][1].Cmp(ac.unstakes[k-1][1]) == 0 {
				r.shared[a.String()] = true
			}
		}
		lostTimer := false
		for _, u := range ac.unstakes {
			sum.Add(sum, u[0])
			if r.shared[a.String()] {
				// known failure class: the account left the unstaking timer of a height at which it still had a slot
				o.Check(u[1].Int64() > h, "c34-unstake-timer-lost-shared-expiry", "account %s (had two slots sharing an expiry height) still holds unstake %s expiring at %s after block %d", a, u[0], u[1], h)
				if u[1].Int64() <= h {
					lostTimer = true
				}
			} else {
				o.Check(u[1].Int64() > h, "c34-unstake-overdue", "account %s still holds unstake %s expiring at %s after block %d", a, u[0], u[1], h)
			}
			o.Check(u[0].Sign() > 0, "c34-unstake-nonpositive", "account %s unstake slot %s", a, u[0])
		}
		for _, u := range ac.unbonds {
			o.Check(u.expire > h, "c34-unbond-overdue", "account %s still holds unbond %s expiring at %d after block %d", a, u.amt, u.expire, h)
		}
		using := new(big.Int).Add(ac.deleg, new(big.Int).Add(ac.bond, ac.unbond))
		o.Check(using.Cmp(ac.stake) <= 0, "c34-using-exceeds-stake", "account %s delegated+bonded+unbonding %s > stake %s at %d", a, using, ac.stake, h)
		o.Check(ac.bal.Sign() >= 0 && ac.stake.Sign() >= 0, "c34-negative-balance", "account %s balance %s stake %s", a, ac.bal, ac.stake)
		// totals of the account equal its lists
		ld, lb, lu := new(big.Int), new(big.Int), new(big.Int)
		for _, d := range ac.delegs {
			ld.Add(ld, d.amt)
			if isActive(d.to) {
				sumDeleg.Add(sumDeleg, d.amt)
			}
		}
		for _, b := range ac.bonds {
			lb.Add(lb, b.amt)
			if isActive(b.to) {
				sumBond.Add(sumBond, b.amt)
			}
		}
		for _, u := range ac.unbonds {
			lu.Add(lu, u.amt)
		}
		o.Check(ld.Cmp(ac.deleg) == 0 && lb.Cmp(ac.bond) == 0 && lu.Cmp(ac.unbond) == 0, "c34-account-totals", "account %s cached totals differ from lists", a)
		if before != nil {
			bf := before[a.String()]
			if len(ac.unbonds) > len(bf.unbonds) {
				o.Count("unbond-created")
			}
			for _, u := range bf.unbonds {
				if u.expire == h {
					o.Count("unbond-expired")
				}
			}
		}
		// unstaked ICX returns exactly once, exactly at expiry
		if before != nil && !isTouched[a.String()] && !lostTimer {
			bf := before[a.String()]
			exp := new(big.Int).Set(bf.bal)
			remain := 0
			for _, u := range bf.unstakes {
				if u[1].Int64() == h {
					exp.Add(exp, u[0])
					o.Count("unstake-returned")
				} else {
					remain++
				}
			}
			o.Check(exp.Cmp(ac.bal) == 0 && remain == len(ac.unstakes), "c34-unstake-return", "account %s at block %d: balance %s -> %s, expected %s; unstake slots %d -> %d",
				a, h, bf.bal, ac.bal, exp, len(bf.unstakes), len(ac.unstakes))
		}
	}
	o.Check(sum.Cmp(w.sim.TotalSupply()) == 0, "c34-supply-mismatch", "block %d: total supply %s != sum of balances+stakes+unstaking %s", h, w.sim.TotalSupply(), sum)
	o.Check(sumStake.Cmp(w.sim.TotalStake()) == 0, "c34-total-stake-mismatch", "block %d: totalStake %s != sum %s", h, w.sim.TotalStake(), sumStake)
	o.Check(sumDeleg.Cmp(icsim.VerifC34TotalDelegation(w.sim)) == 0, "c34-total-delegation-mismatch", "block %d: totalDelegation %s != sum over accounts to active P-Reps %s", h, icsim.VerifC34TotalDelegation(w.sim), sumDeleg)
	o.Check(sumBond.Cmp(w.sim.TotalBond()) == 0, "c34-total-bond-mismatch", "block %d: totalBond %s != sum %s", h, w.sim.TotalBond(), sumBond)
}

func c34LogLevel() log.Level {
	if os.Getenv("VERIF_LOG") != "" {
		return log.TraceLevel
	}
	return log.PanicLevel
}

// c34Expiring sums the unstake slots of a (state before the block) that expire at height h.
func c34Expiring(a *c34Acct, h int64) *big.Int {
	s := new(big.Int)
	for _, u := range a.unstakes {
		if u[1].Int64() == h {
			s.Add(s, u[0])
		}
	}
	return s
}
