//go:build c32 || all

package main

import (
	"bytes"
	"crypto/elliptic"
	"fmt"
	"math/big"
	"strconv"
	"strings"

	"github.com/icon-project/goloop/common"
	"github.com/icon-project/goloop/common/codec"
	"github.com/icon-project/goloop/common/crypto"
	"github.com/icon-project/goloop/common/wallet"
	"github.com/icon-project/goloop/module"
	"github.com/icon-project/goloop/network"
)

// C32: Authenticator.VerifySignature and the 4-message handshake.
//
// ops (symbolic; keys are derived from small ids, key 0 is the node's own):
//
//	vs <pub> <sig> <content>            Authenticator.VerifySignature
//	sess <in>                           new authenticator + peer, real onPeer
//	secreq <suites> <aeads> <ok|bad>    deliver SecureRequest (param = remote ephemeral key / junk)
//	secresp <suite> <aead> <ok|bad> <err>
//	sigreq <pub> <sig> / sigresp <pub> <sig> <err>
//	garbage <sub> / unk
//
// pub: k<i>c | k<i>u | k<i>h (compressed/uncompressed/hybrid) | bx<kind>
// sig: g<i>.<content>.<r|s|v> (key i signs sha3(content); 65 bytes, 64 bytes, 65 with V=9)
//      | b<len> (junk of that length) | z (65 zero bytes)
// content: t (this session's secret) | o (another session's secret) | m<j>

func init() {
	Register(&Prop{ID: "C32", Gen: c32Gen, New: func() Runner { return &c32Runner{} }})
}

// sessions alive in the current case (disposed when the next case starts)
var c32LiveAll []*network.VerifC32Session

var (
	c32Keys   = map[int]*crypto.PrivateKey{}
	c32IDs    = map[string]int{}
	c32SigMem = map[string][]byte{}
)

func c32Key(k int) *crypto.PrivateKey {
	if p, ok := c32Keys[k]; ok {
		return p
	}
	p, err := crypto.ParsePrivateKey(crypto.SHA3Sum256([]byte(fmt.Sprintf("c32-key-%d", k))))
	if err != nil {
		panic(err)
	}
	c32Keys[k] = p
	c32IDs[string(network.NewPeerIDFromPublicKey(p.PublicKey()).Bytes())] = k
	return p
}

func c32IDStr(id []byte) string {
	if id == nil {
		return "nil"
	}
	if k, ok := c32IDs[string(id)]; ok {
		return fmt.Sprintf("k%d", k)
	}
	return "?"
}

func c32Pub(tok string) ([]byte, int, bool) {
	if strings.HasPrefix(tok, "bx") {
		switch tok {
		case "bx0":
			return []byte{}, -1, true
		case "bx1":
			return []byte{0}, -1, true
		case "bx33":
			b := bytes.Repeat([]byte{0x11}, 33)
			b[0] = 5
			return b, -1, true
		case "bx64":
			return bytes.Repeat([]byte{0x22}, 64), -1, true
		default: // 65 bytes, right prefix, not on the curve
			b := bytes.Repeat([]byte{0x33}, 65)
			b[0] = 4
			return b, -1, true
		}
	}
	if len(tok) < 3 || tok[0] != 'k' {
		return nil, 0, false
	}
	k, err := strconv.ParseUint(tok[1:len(tok)-1], 10, 16)
	if err != nil {
		return nil, 0, false
	}
	pk := c32Key(int(k)).PublicKey()
	switch tok[len(tok)-1] {
	case 'c':
		return pk.SerializeCompressed(), int(k), true
	case 'u':
		return pk.SerializeUncompressed(), int(k), true
	case 'h':
		b := append([]byte{}, pk.SerializeUncompressed()...)
		b[0] = 6 | (b[64] & 1)
		return b, int(k), true
	}
	return nil, 0, false
}

type c32Existing struct {
	s   *network.VerifC32Session
	key int
	id  []byte
}

// c32Sess: per-session bookkeeping of the runner (several sessions of a case can be alive)
type c32Sess struct {
	s      *network.VerifC32Session
	in     bool
	aead   byte
	curKey int
	hid    []byte // id at hand-over (copy)
	snap   []byte // copy of the session secret taken right after the secure stage
}

type c32Runner struct {
	all      []*c32Sess
	cur      int
	badParam bool // the secure-stage message being delivered carries an invalid SecureParam
	started  bool
	existing []c32Existing // peers of this case that were handed over and stay connected
	prev     []byte        // secret of the previous session of this case
	curKey   int           // key the current session's peer proved at hand-over (-1: none)
	s      *network.VerifC32Session
	w      module.Wallet
	in     bool
	other  []byte
	secure bool
	aead   byte
}

func (r *c32Runner) content(tok string) ([]byte, bool) {
	switch {
	case tok == "t":
		if r.s == nil {
			return []byte("c32-vs-this"), true
		}
		x := r.s.LocalExtra()
		if x == nil {
			return []byte("c32-no-secret-yet"), true
		}
		return x, true
	case tok == "p":
		if r.s == nil || r.cur == 0 || r.all[r.cur-1].s.LocalExtra() == nil {
			return []byte("c32-no-previous-session"), true
		}
		return r.all[r.cur-1].s.LocalExtra(), true
	case len(tok) > 1 && tok[0] == 'x':
		j, err := strconv.ParseUint(tok[1:], 10, 16)
		if err != nil || j >= 65535 {
			return nil, false
		}
		if r.s == nil || int(j) >= len(r.all) || r.all[j].s.LocalExtra() == nil {
			return []byte(fmt.Sprintf("c32-no-secret-of-session-%d", j)), true
		}
		return r.all[j].s.LocalExtra(), true
	case tok == "o":
		if r.other == nil {
			r.other = network.VerifC32OtherSecret()
		}
		return r.other, true
	case len(tok) > 1 && tok[0] == 'm':
		j, err := strconv.ParseUint(tok[1:], 10, 16)
		if err != nil {
			return nil, false
		}
		return []byte(fmt.Sprintf("c32-msg-%d", j)), true
	}
	return nil, false
}

type c32SigInfo struct {
	key     int    // -1: junk
	content string // token
}

func (r *c32Runner) sig(tok string) ([]byte, c32SigInfo, bool) {
	info := c32SigInfo{key: -1}
	switch {
	case tok == "z":
		return make([]byte, 65), info, true
	case len(tok) > 1 && tok[0] == 'b':
		n, err := strconv.ParseUint(tok[1:], 10, 16)
		if err != nil || n > 200 {
			return nil, info, false
		}
		return bytes.Repeat([]byte{0xEE}, int(n)), info, true
	case len(tok) > 1 && tok[0] == 'g':
		ps := strings.Split(tok[1:], ".")
		if len(ps) != 3 {
			return nil, info, false
		}
		k, err := strconv.ParseUint(ps[0], 10, 16)
		c, ok := r.content(ps[1])
		if err != nil || !ok {
			return nil, info, false
		}
		memo := fmt.Sprintf("%d/%x", k, c)
		rsv, ok := c32SigMem[memo]
		if !ok {
			s, err := crypto.NewSignature(crypto.SHA3Sum256(c), c32Key(int(k)))
			if err != nil {
				panic(err)
			}
			rsv, _ = s.SerializeRSV()
			c32SigMem[memo] = append([]byte{}, rsv...)
		}
		rsv = append([]byte{}, rsv...)
		info = c32SigInfo{key: int(k), content: ps[1]}
		switch ps[2] {
		case "r":
			return rsv, info, true
		case "v":
			rsv[64] = 9
			return rsv, info, true
		case "s":
			return rsv[:64], info, true
		}
	}
	return nil, info, false
}

// c32Param: SecureParam for a token. "ok" = the simulated remote's ephemeral key; all others
// must be rejected: junk, and well-sized encodings of things that are not points of P-256.
func c32Param(tok string, remote []byte) ([]byte, bool) {
	P := elliptic.P256().Params().P
	pt := func(x, y *big.Int) []byte {
		b := make([]byte, 65)
		b[0] = 4
		x.FillBytes(b[1:33])
		y.FillBytes(b[33:65])
		return b
	}
	rx := new(big.Int).SetBytes(remote[1:33])
	ry := new(big.Int).SetBytes(remote[33:65])
	switch tok {
	case "ok":
		return remote, true
	case "bad":
		return []byte{0}, true
	case "z0":
		return pt(big.NewInt(0), big.NewInt(0)), true
	case "oc":
		y := new(big.Int).Add(ry, big.NewInt(1))
		if y.Cmp(P) >= 0 {
			y.Sub(ry, big.NewInt(1))
		}
		return pt(rx, y), true
	case "xp":
		return pt(P, ry), true
	case "yp":
		return pt(rx, new(big.Int).Add(P, big.NewInt(1))), true
	case "sm":
		return remote[:64], true
	case "c2":
		b := append([]byte{2 | byte(ry.Bit(0))}, remote[1:33]...)
		return b, true
	}
	return nil, false
}

func c32NatList(s string) ([]int, bool) {
	if s == "_" {
		return nil, true
	}
	var l []int
	for _, t := range strings.Split(s, ",") {
		v, err := strconv.ParseUint(t, 10, 8)
		if err != nil {
			return nil, false
		}
		l = append(l, int(v))
	}
	return l, true
}

var c32SubName = map[uint16]string{0x0100: "secreq", 0x0200: "secresp", 0x0300: "sigreq", 0x0400: "sigresp"}
var c32SubCode = map[string]uint16{"secreq": 0x0100, "secresp": 0x0200, "sigreq": 0x0300, "sigresp": 0x0400}

// render drains what was sent and prints the state; it also runs the oracle
// checks that concern the local side's own messages.
func (r *c32Runner) render(o *Oracle) string {
	subs, payloads, opaque := r.s.Sent()
	var shown []string
	for i, sub := range subs {
		switch sub {
		case 0x0100:
			shown = append(shown, "secreq")
		case 0x0200:
			var m network.SecureResponse
			codec.MP.MustUnmarshalFromBytes(payloads[i], &m)
			e := 0
			if m.SecureError != network.SecureErrorNone {
				e = 1
			}
			shown = append(shown, fmt.Sprintf("secresp(%d,%d,%d)", m.SecureSuite, m.SecureAeadSuite, e))
			if e == 0 {
				r.aead = byte(m.SecureAeadSuite)
				if m.SecureSuite == network.SecureSuiteNone {
					r.aead = 0
				}
			}
		case 0x0300:
			var m network.SignatureRequest
			codec.MP.MustUnmarshalFromBytes(payloads[i], &m)
			r.checkOwn(o, m.PublicKey, m.Signature)
			shown = append(shown, "sigreq")
		case 0x0400:
			var m network.SignatureResponse
			codec.MP.MustUnmarshalFromBytes(payloads[i], &m)
			switch {
			case m.Error == "":
				r.checkOwn(o, m.PublicKey, m.Signature)
				shown = append(shown, "sigresp(ok)")
			case strings.Contains(m.Error, "fail to parse public key"):
				shown = append(shown, "sigresp(key)")
			case strings.Contains(m.Error, "fail to parse signature"):
				shown = append(shown, "sigresp(sig)")
			case strings.Contains(m.Error, "InvalidSignature"):
				shown = append(shown, "sigresp(invalid)")
			case m.Error == "selfAddress":
				shown = append(shown, "sigresp(self)")
			default:
				shown = append(shown, "sigresp(?"+m.Error+")")
			}
		default:
			shown = append(shown, fmt.Sprintf("sub%04x", sub))
		}
	}
	if opaque > 0 {
		shown = append(shown, "enc")
	}
	sent := "-"
	if len(shown) > 0 {
		sent = strings.Join(shown, ",")
	}
	closed, handed, _, id, wait, processing, hasWait := r.s.State()
	st := ""
	switch {
	case handed:
		st = "next"
	case closed:
		st = "closed"
	case !hasWait:
		st = "wait=none"
	default:
		st = "wait=" + c32SubName[wait]
		if processing {
			st += "*"
		}
	}
	return fmt.Sprintf("%s|%s id=%s", sent, st, c32IDStr(id))
}

// checkOwn: the local side's own signature message carries its wallet key and
// a signature over this session's secret.
func (r *c32Runner) checkOwn(o *Oracle, pub, sig []byte) {
	o.Check(bytes.Equal(pub, r.w.PublicKey()), "c32-own-key", "own signature message carries another key")
	pk, err := crypto.ParsePublicKey(pub)
	s, err2 := crypto.ParseSignature(sig)
	ok := err == nil && err2 == nil && s.Verify(crypto.SHA3Sum256(r.s.LocalExtra()), pk)
	o.Check(ok, "c32-own-signature", "own signature does not verify over the session secret")
}

func (r *c32Runner) deliver(o *Oracle, sub uint16, payload []byte, what string, pubKey int, si c32SigInfo, errFlag bool) string {
	if r.s == nil {
		return "bad-op"
	}
	closed, handed, _, _, wait, processing, hasWait := r.s.State()
	if closed || handed {
		return "done"
	}
	inSeq := hasWait && wait == sub && !processing
	before := r.s.HandOverCount()
	r.s.Deliver(sub, payload)
	out := r.render(o)
	_, handed, handedID, _, _, _, _ := r.s.State()
	o.Count(what)

	// ---- property oracle on the real code ----
	isSig := what == "sigreq" || what == "sigresp"
	own := si.content == "t" || si.content == fmt.Sprintf("x%d", r.cur)
	proof := isSig && pubKey >= 0 && si.key == pubKey && own && !errFlag
	r.checkSecrets(o)
	if (what == "secreq" || what == "secresp") && r.badParam && inSeq {
		cl, _, _, _, _, _, _ := r.s.State()
		o.Check(cl, "c32-invalid-secure-param-accepted", "a SecureParam that is not a valid P-256 point was accepted: %s", out)
		o.Count("invalid-param")
	}
	r.badParam = false
	if handed {
		r.curKey = pubKey
		r.all[r.cur].curKey = pubKey
		r.all[r.cur].hid = append([]byte{}, handedID...)
		o.Count("handed-" + what)
		o.Check(r.s.HandOverCount() == before+1, "c32-handed-twice", "nextOnPeer called %d times", r.s.HandOverCount()-before)
		o.Check(isSig, "c32-identity-without-signature-message", "peer handed over by a %s message", what)
		o.Check(!isSig || pubKey >= 0, "c32-identity-with-malformed-key", "peer handed over with malformed key")
		o.Check(!isSig || si.key >= 0, "c32-identity-with-malformed-signature", "peer handed over with junk signature")
		o.Check(!isSig || si.key < 0 || si.key == pubKey, "c32-identity-signed-by-other-key", "signature by key %d accepted for key %d", si.key, pubKey)
		o.Check(!isSig || si.key < 0 || own, "c32-identity-over-other-content", "signature over %q accepted in session %d", si.content, r.cur)
		if pubKey >= 0 {
			want := network.NewPeerIDFromPublicKey(c32Key(pubKey).PublicKey()).Bytes()
			o.Check(bytes.Equal(handedID, want), "c32-identity-not-of-key", "peer handed over with id %x, key %d has id %x", handedID, pubKey, want)
		}
		o.Check(!(r.in && pubKey == 0), "c32-self-accepted", "accepting side took its own identity")
		o.Check(inSeq, "c32-identity-out-of-sequence", "handed over by an out-of-sequence message")
		if r.s.LocalExtra() != nil {
			re, err := r.s.RemoteExtra(r.aead)
			o.Check(err == nil && bytes.Equal(re, r.s.LocalExtra()), "c32-secret-mismatch", "both sides derive different session secrets")
		}
	} else if proof && inSeq && !(r.in && pubKey == 0) {
		o.Check(false, "c32-valid-proof-rejected", "valid key/signature over this session's secret rejected: %s", out)
	}
	closedNow, _, _, idNow, _, _, _ := r.s.State()
	if !handed {
		// failing / undecided branches: the next handler has seen nothing of this peer
		o.Check(r.s.HandOverCount() == 0 && r.s.NextCloseCount() == 0, "c32-failed-peer-reached-next-handler",
			"next handler saw onPeer %d / onClose %d for a peer that was not handed over", r.s.HandOverCount(), r.s.NextCloseCount())
		o.Check(idNow == nil || closedNow, "c32-id-on-open-unverified-peer", "open, not handed-over peer carries id %x", idNow)
	}
	for _, e := range r.existing {
		ec, eh, eid, _, _, _, _ := e.s.State()
		o.Check(!ec && eh && bytes.Equal(eid, e.id) && e.s.NextCloseCount() == 0, "c32-existing-peer-disturbed",
			"existing peer k%d disturbed by another session (closed=%v handed=%v)", e.key, ec, eh)
		if isSig && pubKey == e.key {
			if handed {
				o.Count("claimed-existing-id-accepted-with-proof")
			} else if closedNow {
				o.Count("claimed-existing-id-rejected")
			}
		}
	}
	return out
}

func (r *c32Runner) save() {
	if r.s == nil || r.cur >= len(r.all) {
		return
	}
	e := r.all[r.cur]
	e.in, e.aead, e.curKey = r.in, r.aead, r.curKey
}

func (r *c32Runner) load(i int) {
	e := r.all[i]
	r.cur = i
	r.s, r.in, r.aead, r.curKey = e.s, e.in, e.aead, e.curKey
	r.existing = nil
	for j, x := range r.all {
		if j == i {
			continue
		}
		if closed, handed, _, _, _, _, _ := x.s.State(); handed && !closed && x.curKey >= 0 {
			r.existing = append(r.existing, c32Existing{x.s, x.curKey, x.hid})
		}
	}
}

// checkSecrets: the secret a session checks signatures against is the one derived for
// THAT session in its secure stage: it never changes afterwards.
func (r *c32Runner) checkSecrets(o *Oracle) {
	for i, e := range r.all {
		x := e.s.LocalExtra()
		if x == nil {
			continue
		}
		if e.snap == nil {
			e.snap = append([]byte{}, x...)
			continue
		}
		o.Check(bytes.Equal(e.snap, x), "c32-session-secret-changed",
			"session %d: secret was %x right after its secure stage, is %x now", i, e.snap, x)
	}
	for i, e := range r.all {
		for j := 0; j < i; j++ {
			if e.snap != nil && r.all[j].snap != nil {
				o.Check(!bytes.Equal(e.snap, r.all[j].snap), "c32-sessions-share-secret",
					"sessions %d and %d derived the same secret %x", j, i, e.snap)
			}
		}
	}
}

// checkIdentities re-reads the id of every peer that was handed over earlier in
// this case and compares it with the address of the key it proved then
// (computed without the peer-id cache).
func (r *c32Runner) checkIdentities(o *Oracle) {
	r.checkSecrets(o)
	check := func(s *network.VerifC32Session, key int) {
		want := common.NewAccountAddressFromPublicKey(c32Key(key).PublicKey()).ID()
		_, _, hid, id, _, _, _ := s.State()
		o.Check(bytes.Equal(id, want) && bytes.Equal(hid, want), "c32-assigned-identity-changed-later",
			"peer authenticated with key %d now reports id %x / %x, the key's address is %x", key, id, hid, want)
		o.Count("identity-rechecked")
	}
	for _, e := range r.existing {
		check(e.s, e.key)
	}
	if r.s != nil && r.curKey >= 0 {
		if closed, handed, _, _, _, _, _ := r.s.State(); handed && !closed {
			check(r.s, r.curKey)
		}
	}
}

func (r *c32Runner) Step(t []string, o *Oracle) string {
	if len(t) == 0 {
		return "bad-op"
	}
	switch t[0] {
	case "vs":
		if len(t) != 4 {
			return "bad-op"
		}
		save := r.s
		r.s = nil
		pub, pk, ok1 := c32Pub(t[1])
		sig, si, ok2 := r.sig(t[2])
		content, ok3 := r.content(t[3])
		r.s = save
		if !ok1 || !ok2 || !ok3 {
			return "bad-op"
		}
		w, _ := wallet.NewFromPrivateKey(c32Key(0))
		a := network.VerifC32Authenticator(w)
		id, err := a.VerifySignature(pub, sig, content)
		good := pk >= 0 && si.key == pk && si.content == t[3]
		if err == nil {
			o.Count("vs-ok")
			o.Check(good, "c32-verifysignature-accepts-bad-input", "VerifySignature(%s,%s,%s) = nil error", t[1], t[2], t[3])
			want := network.NewPeerIDFromPublicKey(c32Key(pk).PublicKey())
			o.Check(id != nil && id.Equal(want), "c32-verifysignature-wrong-id", "VerifySignature returned id %v for key %d", id, pk)
			return "ok " + c32IDStr(id.Bytes())
		}
		o.Check(!good, "c32-verifysignature-rejects-valid", "VerifySignature(%s,%s,%s) = %v", t[1], t[2], t[3], err)
		s := err.Error()
		switch {
		case strings.Contains(s, "fail to parse public key"):
			o.Count("vs-err-key")
			o.Check(id == nil, "c32-verifysignature-id-with-bad-key", "id returned with unparsable key")
			return "err-key"
		case strings.Contains(s, "fail to parse signature"):
			o.Count("vs-err-sig")
			return "err-sig"
		}
		o.Count("vs-err-invalid")
		return "err-invalid " + c32IDStr(id.Bytes())
	case "use":
		if len(t) != 2 {
			return "bad-op"
		}
		k, err := strconv.ParseUint(t[1], 10, 16)
		if err != nil || int(k) >= len(r.all) {
			return "bad-op"
		}
		r.save()
		r.load(int(k))
		return "ok"
	case "idfill":
		if len(t) != 3 {
			return "bad-op"
		}
		a, e1 := strconv.ParseUint(t[1], 10, 16)
		n, e2 := strconv.ParseUint(t[2], 10, 16)
		if e1 != nil || e2 != nil || a < 1000 || a+n >= 65536 || n > 1000 {
			return "bad-op"
		}
		for k := a; k < a+n; k++ {
			// the path VerifySignature takes for every connecting peer
			network.NewPeerIDFromPublicKey(c32Key(int(k)).PublicKey())
		}
		o.Count("idfill")
		r.checkIdentities(o)
		return "ok"
	case "ids":
		if len(t) != 1 {
			return "bad-op"
		}
		r.checkIdentities(o)
		var ss []string
		r.save()
		for _, e := range r.all {
			closed, handed, _, id, _, _, _ := e.s.State()
			if handed && !closed {
				ss = append(ss, c32IDStr(id))
			}
		}
		if len(ss) == 0 {
			return "ids -"
		}
		return "ids " + strings.Join(ss, ",")
	case "sess":
		if len(t) != 2 || (t[1] != "0" && t[1] != "1") {
			return "bad-op"
		}
		w, err := wallet.NewFromPrivateKey(c32Key(0))
		if err != nil {
			panic(err)
		}
		if !r.started {
			for _, old := range c32LiveAll {
				old.Dispose()
			}
			c32LiveAll, r.started = nil, true
		}
		r.save()
		ns := &c32Sess{s: network.VerifC32NewSession(w, t[1] == "1"), in: t[1] == "1", curKey: -1}
		r.all = append(r.all, ns)
		r.w, r.other, r.secure = w, nil, false
		r.load(len(r.all) - 1)
		c32LiveAll = append(c32LiveAll, r.s)
		return r.render(o)
	case "secreq":
		if len(t) != 4 || r.s == nil {
			return "bad-op"
		}
		ss, ok1 := c32NatList(t[1])
		as, ok2 := c32NatList(t[2])
		prm, okp := c32Param(t[3], r.s.RemoteParam())
		if !ok1 || !ok2 || !okp {
			return "bad-op"
		}
		m := &network.SecureRequest{Channel: network.VerifC32Channel, SecureParam: []byte{0}}
		for _, v := range ss {
			m.SecureSuites = append(m.SecureSuites, network.SecureSuite(v))
		}
		for _, v := range as {
			m.SecureAeadSuites = append(m.SecureAeadSuites, network.SecureAeadSuite(v))
		}
		m.SecureParam = prm
		r.badParam = t[3] != "ok"
		return r.deliver(o, 0x0100, codec.MP.MustMarshalToBytes(m), "secreq", -1, c32SigInfo{key: -1}, false)
	case "secresp":
		if len(t) != 5 || r.s == nil {
			return "bad-op"
		}
		su, e1 := strconv.ParseUint(t[1], 10, 8)
		ae, e2 := strconv.ParseUint(t[2], 10, 8)
		prm, okp := c32Param(t[3], r.s.RemoteParam())
		if e1 != nil || e2 != nil || !okp || (t[4] != "0" && t[4] != "1") {
			return "bad-op"
		}
		m := &network.SecureResponse{Channel: network.VerifC32Channel, SecureSuite: network.SecureSuite(su),
			SecureAeadSuite: network.SecureAeadSuite(ae), SecureParam: []byte{0}}
		m.SecureParam = prm
		r.badParam = t[3] != "ok"
		if t[4] == "1" {
			m.SecureError = network.SecureErrorInvalid
		}
		r.aead = byte(ae)
		if su == 1 {
			r.aead = 0
		}
		return r.deliver(o, 0x0200, codec.MP.MustMarshalToBytes(m), "secresp", -1, c32SigInfo{key: -1}, false)
	case "sigreq", "sigresp":
		isReq := t[0] == "sigreq"
		if (isReq && len(t) != 3) || (!isReq && len(t) != 4) || r.s == nil {
			return "bad-op"
		}
		pub, pk, ok1 := c32Pub(t[1])
		sig, si, ok2 := r.sig(t[2])
		if !ok1 || !ok2 {
			return "bad-op"
		}
		if si.key >= 0 {
			o.Count("sig-content-" + si.content)
		}
		if isReq {
			m := &network.SignatureRequest{PublicKey: pub, Signature: sig}
			return r.deliver(o, 0x0300, codec.MP.MustMarshalToBytes(m), "sigreq", pk, si, false)
		}
		if t[3] != "0" && t[3] != "1" {
			return "bad-op"
		}
		m := &network.SignatureResponse{PublicKey: pub, Signature: sig}
		if t[3] == "1" {
			m.Error = "error"
		}
		return r.deliver(o, 0x0400, codec.MP.MustMarshalToBytes(m), "sigresp", pk, si, t[3] == "1")
	case "garbage":
		if len(t) != 2 || r.s == nil {
			return "bad-op"
		}
		sub, ok := c32SubCode[t[1]]
		if !ok {
			return "bad-op"
		}
		return r.deliver(o, sub, []byte{0xc1}, "garbage", -1, c32SigInfo{key: -1}, false)
	case "unk":
		if len(t) != 1 || r.s == nil {
			return "bad-op"
		}
		return r.deliver(o, 0x0500, []byte{0x90}, "unk", -1, c32SigInfo{key: -1}, false)
	}
	return "bad-op"
}

// ---- generator ----

func c32GenPub(g *Gen, k int, mutate bool) string {
	if mutate && g.Intn(3) == 0 {
		return []string{"bx0", "bx1", "bx33", "bx64", "bx65"}[g.Intn(5)]
	}
	return fmt.Sprintf("k%d%c", k, "cuh"[g.Pick(0, 0, 1, 1, 2)])
}

func c32GenSig(g *Gen, k int, content string, mutate bool) string {
	form := string("rsv"[g.Pick(0, 0, 0, 1, 2)])
	if mutate {
		switch g.Intn(7) {
		case 0:
			return fmt.Sprintf("b%d", g.Pick(0, 1, 63, 64, 65, 66, 130))
		case 1:
			return "z"
		case 2, 3:
			return fmt.Sprintf("g%d.%s.%s", k, []string{"o", "m1", "m2"}[g.Intn(3)], form)
		case 4, 5:
			return fmt.Sprintf("g%d.%s.%s", k+1+g.Intn(3), content, form)
		}
	}
	return fmt.Sprintf("g%d.%s.%s", k, content, form)
}

func c32BadParam(g *Gen) string {
	return []string{"bad", "z0", "z0", "oc", "xp", "yp", "sm", "c2"}[g.Intn(8)]
}

func c32GenSecReq(g *Gen) string {
	suites := []string{"1", "3", "3,1", "1,3", "2", "2,1", "2,3", "0", "_", "7,3", "0,1"}[g.Intn(11)]
	aeads := []string{"1", "2", "3", "1,2,3", "_", "0", "9", "9,2", "0,3"}[g.Intn(9)]
	param := "ok"
	if g.Intn(6) == 0 {
		param = c32BadParam(g)
	}
	return fmt.Sprintf("secreq %s %s %s", suites, aeads, param)
}

func c32GenSecResp(g *Gen) string {
	suite := g.Pick(1, 1, 1, 3, 3, 2, 0, 7)
	aead := g.Pick(0, 1, 2, 3, 9)
	param, e := "ok", 0
	if g.Intn(6) == 0 {
		param = c32BadParam(g)
	}
	if g.Intn(12) == 0 {
		e = 1
	}
	return fmt.Sprintf("secresp %d %d %s %d", suite, aead, param, e)
}

// c32GenIDCache: peers are authenticated and stay connected, then more distinct
// peer ids than the global peer-id cache holds (peerIDCacheSize = 100) pass
// through NewPeerIDFromPublicKey - by plain calls and by further handshakes -
// and the ids of the earlier peers are read again.
func c32GenIDCache(g *Gen) {
	base := 1000 + g.Intn(50)*300
	for k := 1; k <= 3; k++ {
		in := g.Intn(2)
		g.Emit("sess %d", in)
		if in == 1 {
			g.Emit("secreq 1 1 ok")
			g.Emit("sigreq k%dc g%d.t.r", k, k)
		} else {
			g.Emit("secresp 1 0 ok 0")
			g.Emit("sigresp k%du g%d.t.s 0", k, k)
		}
	}
	g.Emit("ids")
	g.Emit("idfill %d %d", base, g.Pick(99, 100, 101, 130))
	g.Emit("ids")
	// further handshakes with distinct (failing and succeeding) claimed keys
	for i := 0; i < 12; i++ {
		k := base + 200 + i
		g.Emit("sess 1")
		g.Emit("secreq 1 1 ok")
		if i%3 == 0 {
			g.Emit("sigreq k%dc g%d.o.r", k, k)
		} else {
			g.Emit("sigreq k%dc g%d.t.r", k, k)
		}
	}
	g.Emit("idfill %d 130", base+30)
	g.Emit("ids")
	g.Emit("reset")
}

// c32GenInterleaved: two or three sessions alive at once with interleaved stages: session 0
// finishes its secure stage, then the others run theirs (and possibly finish), then session 0
// gets its signature message - the honest one, or one replaying a signature made for
// another live session's secret.
func c32GenInterleaved(g *Gen) {
	n := 2 + g.Intn(2)
	ins := make([]int, n)
	for i := 0; i < n; i++ {
		ins[i] = g.Intn(2)
	}
	// sometimes every session gets the same attacker-chosen (invalid) SecureParam
	prm := "ok"
	if g.Intn(4) == 0 {
		prm = c32BadParam(g)
	}
	sec := func(i int) {
		if ins[i] == 1 {
			g.Emit("secreq %s %s %s", []string{"1", "3"}[g.Intn(2)], []string{"1", "2", "3"}[g.Intn(3)], prm)
		} else {
			g.Emit("secresp %d %d %s 0", g.Pick(1, 3), g.Pick(1, 2, 3), prm)
		}
	}
	sig := func(i, key int, content string) {
		form := string("rsv"[g.Intn(3)])
		if ins[i] == 1 {
			g.Emit("sigreq k%dc g%d.%s.%s", key, key, content, form)
		} else {
			g.Emit("sigresp k%du g%d.%s.%s 0", key, key, content, form)
		}
	}
	g.Emit("sess %d", ins[0])
	sec(0)
	for i := 1; i < n; i++ {
		g.Emit("sess %d", ins[i])
		sec(i)
		if g.Intn(2) == 0 {
			sig(i, 10+i, "t") // the honest peer of session i authenticates
		}
	}
	g.Emit("use 0")
	switch g.Intn(4) {
	case 0:
		sig(0, 10, "t")
	case 1:
		sig(0, 10, "x0")
	default:
		j := 1 + g.Intn(n-1)
		sig(0, 10+j, fmt.Sprintf("x%d", j)) // replay of what session j's honest peer signs
	}
	for i := 1; i < n; i++ {
		g.Emit("use %d", i)
		sig(i, 10+i, []string{"t", "x0", fmt.Sprintf("x%d", i)}[g.Intn(3)])
	}
	g.Emit("ids")
	g.Emit("reset")
}

func c32Gen(g *Gen) {
	for c := 0; c < g.N; c++ {
		if g.Intn(6) == 0 {
			c32GenInterleaved(g)
			continue
		}
		if c == 0 || (g.Tier == "thorough" && g.Intn(400) == 0) {
			c32GenIDCache(g)
			continue
		}
		if g.Intn(4) == 0 {
			// VerifySignature directly
			for i := 0; i < 4; i++ {
				k := g.Intn(6)
				content := []string{"m1", "m2", "o"}[g.Intn(3)]
				mutK, mutS := g.Intn(3) == 0, g.Intn(2) == 0
				g.Emit("vs %s %s %s", c32GenPub(g, k, mutK), c32GenSig(g, k, content, mutS), content)
			}
			g.Emit("reset")
			continue
		}
		in := g.Intn(2)
		g.Emit("sess %d", in)
		k := g.Pick(1, 2, 3, 4, 5, 0)
		noise := func() {
			switch g.Intn(8) {
			case 0:
				g.Emit("unk")
			case 1:
				g.Emit("garbage %s", []string{"secreq", "secresp", "sigreq", "sigresp"}[g.Intn(4)])
			case 2:
				g.Emit("%s", c32GenSecReq(g))
			case 3:
				g.Emit("%s", c32GenSecResp(g))
			case 4:
				g.Emit("sigreq %s %s", c32GenPub(g, k, false), c32GenSig(g, k, "t", false))
			case 5:
				g.Emit("sigresp %s %s 0", c32GenPub(g, k, false), c32GenSig(g, k, "t", false))
			}
		}
		if g.Intn(6) == 0 {
			noise() // something out of sequence before the secure stage
		}
		// secure stage (mostly the right message for the side)
		if in == 1 {
			if g.Intn(3) == 0 {
				g.Emit("%s", c32GenSecReq(g))
			} else {
				g.Emit("secreq %s %s ok", []string{"1", "3", "3,1", "2,1"}[g.Intn(4)], []string{"1", "2", "3", "1,2,3"}[g.Intn(4)])
			}
		} else {
			if g.Intn(3) == 0 {
				g.Emit("%s", c32GenSecResp(g))
			} else {
				g.Emit("secresp %d %d ok 0", g.Pick(1, 3), g.Pick(1, 2, 3))
			}
		}
		if g.Intn(8) == 0 {
			noise()
		}
		// signature stage
		mutK, mutS := g.Intn(4) == 0, g.Intn(2) == 0
		if in == 1 {
			g.Emit("sigreq %s %s", c32GenPub(g, k, mutK), c32GenSig(g, k, "t", mutS))
		} else {
			e := 0
			if g.Intn(10) == 0 {
				e = 1
			}
			g.Emit("sigresp %s %s %d", c32GenPub(g, k, mutK), c32GenSig(g, k, "t", mutS), e)
		}
		if g.Intn(4) == 0 {
			noise() // after the decision: must be ignored ("done")
		}
		if g.Intn(3) == 0 {
			// another connection claims the identity of the peer of the first session
			in2 := g.Intn(2)
			g.Emit("sess %d", in2)
			if in2 == 1 {
				g.Emit("secreq %s %s ok", []string{"1", "3"}[g.Intn(2)], []string{"1", "2", "3"}[g.Intn(3)])
			} else {
				g.Emit("secresp %d %d ok 0", g.Pick(1, 3), g.Pick(1, 2, 3))
			}
			form := string("rsv"[g.Intn(3)])
			sig := []string{
				fmt.Sprintf("g%d.p.%s", k, form), // replay of the signature of the first session
				fmt.Sprintf("g%d.p.%s", k, form),
				fmt.Sprintf("g%d.o.%s", k, form),
				fmt.Sprintf("g%d.t.%s", k+1, form), // own key, victim's public key
				"z", "b65", "b64",
				fmt.Sprintf("g%d.t.%s", k, form), // the peer itself reconnecting
			}[g.Intn(8)]
			pub := fmt.Sprintf("k%d%c", k, "cuh"[g.Intn(3)])
			if in2 == 1 {
				g.Emit("sigreq %s %s", pub, sig)
			} else {
				g.Emit("sigresp %s %s 0", pub, sig)
			}
			if g.Intn(3) == 0 {
				noise()
			}
		}
		g.Emit("reset")
	}
}
