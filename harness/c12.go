//go:build c12 || all

package main

import (
	"bytes"
	"encoding/json"
	"fmt"
	"regexp"
	"strings"

	"github.com/icon-project/goloop/common"
	"github.com/icon-project/goloop/module"
	"github.com/icon-project/goloop/service/transaction"
)

func init() {
	Register(&Prop{ID: "C12", Gen: c12Gen, New: func() Runner { return &c12Runner{} }})
}

func c12Gen(g *Gen) {
	for i := 0; i < g.N; i++ {
		// a case = a history of 16 ops in one process state (transactions created in it are
		// held and re-checked after the later ops of the case)
		if i%16 == 0 {
			g.Emit("reset")
		}
		switch g.Intn(10) {
		case 0, 1, 2, 3:
			t := c12NewTx(g, g.Intn(3) == 0)
			t.sign(g, c12SigMode(g))
			g.Emit("tx %s %s", hx([]byte(c12Text(g, g.Intn(3), t.obj))), t.expect())
		case 4, 5:
			v := c12RandValue(g, 3, g.Intn(8) == 0)
			g.Emit("ser %s", hx([]byte(c12Text(g, g.Intn(3), v))))
		case 6:
			// a nested key named like a top-level field (signature, txHash, from, ...) is signed
			t := c12NewTx(g, false)
			a, b, key := c12NestedField(g)
			t.obj = c12Set(c12Del(c12Del(t.obj, "dataType"), "data"), "data", a)
			if g.Intn(2) == 0 {
				t.obj = c12Set(t.obj, "dataType", "message")
			}
			t.sign(g, g.Pick(0, 1))
			m := c12Set(append(c12Obj{}, t.obj...), "data", b)
			g.Emit("mut diff:nested-%s %s %s", key, hx([]byte(c12Text(g, g.Intn(3), t.obj))), hx([]byte(c12Text(g, g.Intn(3), m))))
			if g.Intn(2) == 0 {
				g.Emit("tx %s %s", hx([]byte(c12Text(g, g.Intn(3), t.obj))), t.expect())
			}
		case 7, 8:
			t := c12NewTx(g, g.Intn(4) == 0)
			t.sign(g, g.Pick(0, 0, 1, 3))
			m, same, what := c12Mutate(g, t)
			lab := "diff"
			if same {
				lab = "same"
			}
			g.Emit("mut %s:%s %s %s", lab, what, hx([]byte(c12Text(g, g.Intn(3), t.obj))), hx([]byte(c12Text(g, g.Intn(3), m))))
		default:
			// stored forms fed to NewTransaction directly
			t := c12NewTx(g, g.Intn(3) == 0)
			t.sign(g, g.Pick(0, 0, 1, 3))
			js := []byte(c12Text(g, 0, t.obj))
			if tx, err := transaction.NewTransactionFromJSON(js); err == nil && g.Intn(2) == 0 && tx.Bytes() != nil {
				g.Emit("bin %s", hx(tx.Bytes()))
			} else {
				g.Emit("bin %s", hx(js))
			}
		}
	}
}

// ---------------------------------------------------------------------------
// runner + oracle
// ---------------------------------------------------------------------------

var c12BigLit = regexp.MustCompile(`[:\[,][ \t\r\n]*-?[0-9]{16,}`)

// c12Held: a transaction object kept alive across later operations, with a
// snapshot of everything observable taken right after it was created.
type c12Held struct {
	tx     module.Transaction
	src    string
	id     []byte
	bytes  []byte
	fields []string
	verify string
	age    int
}

type c12Runner struct {
	held []*c12Held
}

func (r *c12Runner) hold(tx module.Transaction, f []string, src string) {
	h := &c12Held{tx: tx, src: src, fields: f, verify: c12VerifyStr(tx)}
	h.id = append([]byte{}, tx.ID()...)
	if b := tx.Bytes(); b != nil {
		h.bytes = append([]byte{}, b...)
	}
	r.held = append(r.held, h)
}

// recheck: every held transaction must still be what it was, whatever was
// parsed / serialised / verified in between (no shared or pooled buffers, no
// stale caches): Bytes(), ID() on every later op; full reload + Verify at
// ages 1, 2, 5 and 12 (then it is released).
func (r *c12Runner) recheck(o *Oracle) {
	keep := r.held[:0]
	for _, h := range r.held {
		h.age++
		b := h.tx.Bytes()
		okb := (b == nil && h.bytes == nil) || bytes.Equal(b, h.bytes)
		o.Check(okb, "held-transaction-bytes-change", "%s: Bytes() of a held transaction changed after %d later ops: was %q now %q", h.src, h.age, h.bytes, b)
		o.Check(bytes.Equal(h.tx.ID(), h.id), "held-transaction-id-changes", "%s: ID() %x -> %x after %d later ops", h.src, h.id, h.tx.ID(), h.age)
		if h.age == 1 || h.age == 2 || h.age == 5 || h.age == 12 {
			o.Count("held-full-recheck")
			f2, _, _ := transaction.VerifC12Fields(h.tx)
			o.Check(strings.Join(f2, "|") == strings.Join(h.fields, "|"), "held-transaction-fields-change", "%s: fields %v -> %v", h.src, h.fields, f2)
			o.Check(c12VerifyStr(h.tx) == h.verify, "held-transaction-verify-changes", "%s: Verify %s -> %s", h.src, h.verify, c12VerifyStr(h.tx))
			if b != nil {
				tx2, err := transaction.NewTransaction(append([]byte{}, b...))
				if c12Check(o, err == nil, "held-transaction-reload-fails", "%s: NewTransaction(Bytes()) of a held transaction fails after %d later ops: %v; bytes %q", h.src, h.age, err, b) {
					o.Check(bytes.Equal(tx2.ID(), h.id), "held-transaction-reload-id-differs", "%s: reload after %d later ops has id %x, was %x", h.src, h.age, tx2.ID(), h.id)
					f3, _, _ := transaction.VerifC12Fields(tx2)
					o.Check(strings.Join(f3, "|") == strings.Join(h.fields, "|"), "held-transaction-reload-fields-differ", "%s: reload fields %v, were %v", h.src, f3, h.fields)
					o.Check(c12VerifyStr(tx2) == h.verify, "held-transaction-reload-verify-differs", "%s: reload Verify %s, was %s", h.src, c12VerifyStr(tx2), h.verify)
				}
			}
		}
		if h.age < 12 {
			keep = append(keep, h)
		}
	}
	if len(keep) > 8 {
		keep = keep[len(keep)-8:]
	}
	r.held = keep
}

func c12Show(tx module.Transaction) (string, []string) {
	f, raw, ok := transaction.VerifC12Fields(tx)
	if !ok {
		return "other", nil
	}
	r := 0
	if raw {
		r = 1
	}
	bs := "nil"
	if b := tx.Bytes(); b != nil {
		bs = hx(b)
	}
	return fmt.Sprintf("ok id=%s raw=%d bytes=%s from=%s to=%s value=%s step=%s ts=%s nid=%s nonce=%s dtype=%s data=%s sig=%s",
		hx(tx.ID()), r, bs, f[0], f[1], f[2], f[3], f[4], f[5], f[6], f[7], f[8], f[9]), f
}

func c12Check(o *Oracle, ok bool, key, what string, args ...interface{}) bool {
	o.Check(ok, key, what, args...)
	return ok
}

func c12VerifyStr(tx module.Transaction) string {
	if err := tx.Verify(); err != nil {
		return "rejected"
	}
	return "verified"
}

// c12RoundTrips: Bytes() -> NewTransaction, three times; everything observable must stay.
func c12RoundTrips(o *Oracle, tx module.Transaction, f []string) {
	b := tx.Bytes()
	if b == nil {
		o.Count("bytes-nil")
		return
	}
	v0 := c12VerifyStr(tx)
	cur := b
	for k := 1; k <= 3; k++ {
		tx2, err := transaction.NewTransaction(cur)
		if !c12Check(o, err == nil, "roundtrip-parse-fails", "round %d: NewTransaction(Bytes()) fails: %v", k, err) {
			return
		}
		o.Check(bytes.Equal(tx2.ID(), tx.ID()), "roundtrip-id-changes", "round %d: id %x -> %x", k, tx.ID(), tx2.ID())
		f2, _, _ := transaction.VerifC12Fields(tx2)
		o.Check(strings.Join(f2, "|") == strings.Join(f, "|"), "roundtrip-fields-change", "round %d: fields %v -> %v", k, f, f2)
		o.Check(common.AddressEqual(tx2.From(), tx.From()), "roundtrip-from-changes", "round %d", k)
		o.Check(c12VerifyStr(tx2) == v0, "roundtrip-verify-changes", "round %d: Verify %s -> %s", k, v0, c12VerifyStr(tx2))
		nb := tx2.Bytes()
		o.Check(bytes.Equal(nb, b), "roundtrip-bytes-change", "round %d: bytes %x -> %x", k, b, nb)
		if nb == nil {
			return
		}
		cur = nb
	}
}

func (r *c12Runner) Step(t []string, o *Oracle) string {
	if len(t) < 2 {
		return "bad-op"
	}
	switch t[0] {
	case "tx":
		js := unhx(t[1])
		in := append([]byte{}, js...)
		tx, err := transaction.NewTransactionFromJSON(in)
		// the caller's buffer is the caller's: overwrite it after the call
		for i := range in {
			in[i] = '#'
		}
		if err != nil {
			o.Count("tx-err")
			r.recheck(o)
			return "err"
		}
		line, f := c12Show(tx)
		if f == nil {
			return line
		}
		if c12BigLit.Match(js) {
			o.Count("tx-with-big-bare-literal")
		}
		if strings.Contains(line, " raw=1 ") {
			o.Count("tx-raw-fallback")
		} else {
			o.Count("tx-binary-form")
		}
		// property: the id is H(salt ++ map serialisation), independent of representation details
		if want, ok := c12SpecID(js); ok {
			o.Check(bytes.Equal(want, tx.ID()), "id-not-map-serialisation", "id %x, spec %x for %s", tx.ID(), want, js)
		} else {
			o.Check(false, "accepted-unserialisable", "accepted although the map cannot be serialised: %s", js)
		}
		c12RoundTrips(o, tx, f)
		if len(t) > 2 {
			got := c12VerifyStr(tx)
			o.Count("verify-" + t[2] + "-" + got)
			switch t[2] {
			case "v":
				o.Check(got == "verified", "valid-signature-rejected", "signed by sender over id but Verify fails: %s", js)
			case "n":
				o.Check(got == "rejected", "invalid-signature-accepted", "Verify passes without a valid sender signature: %s", js)
			}
		}
		r.recheck(o)
		r.hold(tx, f, "tx "+t[1][:16])
		return line
	case "bin":
		tx, err := transaction.NewTransaction(unhx(t[1]))
		if err != nil {
			o.Count("bin-err")
			return "err"
		}
		line, f := c12Show(tx)
		if f != nil {
			c12RoundTrips(o, tx, f)
		}
		r.recheck(o)
		if f != nil {
			r.hold(tx, f, "bin "+t[1][:16])
		}
		return line
	case "ser":
		var v interface{}
		if err := json.Unmarshal(unhx(t[1]), &v); err != nil {
			return "bad-op"
		}
		bs, err := transaction.SerializeValue(v)
		want, ok := c12SpecSer(v)
		o.Check((err == nil) == ok && (err != nil || string(bs) == want), "serialize-differs-from-format", "SerializeValue=%q,%v spec=%q,%v", bs, err, want, ok)
		if err != nil {
			o.Count("ser-err")
			return "err"
		}
		o.Count("ser-ok")
		return hx(bs)
	case "mut":
		if len(t) != 4 {
			return "bad-op"
		}
		a, err1 := transaction.NewTransactionFromJSON(unhx(t[2]))
		if err1 == nil {
			if fa, _, ok := transaction.VerifC12Fields(a); ok {
				r.hold(a, fa, "mut-a "+t[2][:16])
			}
		}
		b, err2 := transaction.NewTransactionFromJSON(unhx(t[3]))
		r.recheck(o)
		if err2 == nil {
			if fb, _, ok := transaction.VerifC12Fields(b); ok {
				r.hold(b, fb, "mut-b "+t[3][:16])
			}
		}
		if err1 != nil || err2 != nil {
			o.Count("mut-err")
			return "err"
		}
		same := bytes.Equal(a.ID(), b.ID())
		lab := strings.SplitN(t[1], ":", 2)
		o.Count("mut-" + t[1])
		if lab[0] == "same" {
			o.Check(same, "equivalent-forms-different-id", "%s: ids %x / %x", t[1], a.ID(), b.ID())
		} else {
			o.Check(!same, "signed-field-change-keeps-id", "%s: id %x unchanged: %s -> %s", t[1], a.ID(), unhx(t[2]), unhx(t[3]))
		}
		if same {
			return "same"
		}
		return "diff"
	}
	return "bad-op"
}
