//go:build c17 || c18 || all

package main

// C17 (trie is a canonical map) and the runner shared with C18 (proofs).
// Real code: common/trie/ompt through trie_manager over a map DB.
// Oracle (independent of the Lean model): a Go map as reference, an
// order-independent root (fresh trie rebuilt from the sorted pairs), sorted
// iteration, prefix selection, proof soundness/completeness against the map.

import (
	"bytes"
	"sort"
	"strconv"
	"strings"

	"golang.org/x/crypto/sha3"

	"github.com/icon-project/goloop/common/db"
	"github.com/icon-project/goloop/common/errors"
	"github.com/icon-project/goloop/common/trie"
	"github.com/icon-project/goloop/common/trie/trie_manager"
)

func init() {
	Register(&Prop{ID: "C17", Gen: c17Gen, New: func() Runner { return c17NewRunner() }})
}

const c17KnownEmpty = "empty-value-at-branch-lost-on-reload"
const c17PanicHonest = "prove-nil-deref-valueless-branch"

// ---------------------------------------------------------------- generator

var c17Alpha = []byte{0x00, 0x01, 0x10, 0x11, 0x12, 0x1f, 0x20, 0xf0, 0xf1, 0xff}

func c17Byte(g *Gen) byte {
	if g.Intn(4) == 0 {
		return byte(g.Intn(256))
	}
	return c17Alpha[g.Intn(len(c17Alpha))]
}

func c17FreshKey(g *Gen) []byte {
	n := g.Pick(0, 1, 1, 2, 2, 3, 3, 4, 5, 8, 20, 31, 32, 33, 40, g.Intn(41))
	k := make([]byte, n)
	for i := range k {
		k[i] = c17Byte(g)
	}
	return k
}

// c17Keys builds a pool of keys with heavy prefix sharing (byte and nibble level).
func c17Keys(g *Gen, n int) [][]byte {
	keys := [][]byte{c17FreshKey(g)}
	for len(keys) < n {
		base := keys[g.Intn(len(keys))]
		var k []byte
		switch g.Intn(8) {
		case 0, 1: // extend
			k = append([]byte{}, base...)
			for j := g.Intn(3) + 1; j > 0 && len(k) < 40; j-- {
				k = append(k, c17Byte(g))
			}
		case 2: // truncate
			k = append([]byte{}, base[:g.Intn(len(base)+1)]...)
		case 3: // same high nibble, other low nibble in the last byte
			k = append([]byte{}, base...)
			if len(k) > 0 {
				k[len(k)-1] = k[len(k)-1]&0xf0 | byte(g.Intn(16))
			}
		case 4: // other high nibble at a random position, keep the rest
			k = append([]byte{}, base...)
			if len(k) > 0 {
				p := g.Intn(len(k))
				k[p] = k[p]&0x0f | byte(g.Intn(16))<<4
			}
		case 5: // diverge in the middle then random tail
			k = append([]byte{}, base...)
			if len(k) > 0 {
				p := g.Intn(len(k))
				for ; p < len(k); p++ {
					k[p] = c17Byte(g)
				}
			}
		default:
			k = c17FreshKey(g)
		}
		keys = append(keys, k)
	}
	return keys
}

func c17Val(g *Gen) []byte {
	n := g.Pick(1, 1, 1, 2, 3, 5, 8, 16, 20, 24, 26, 27, 28, 29, 30, 31, 32, 33, 34, 40, 54, 55, 56, 57, 70, 1+g.Intn(70))
	v := g.Bytes(n)
	if n == 1 && g.Intn(2) == 0 {
		v[0] = byte(g.Pick(0x00, 0x01, 0x7f, 0x80, 0x81, 0xff))
	}
	return v
}

func c17PickKey(g *Gen, keys [][]byte) []byte {
	if g.Intn(12) == 0 {
		// a key that is probably not in the pool: neighbour of a pool key
		k := append([]byte{}, keys[g.Intn(len(keys))]...)
		switch g.Intn(3) {
		case 0:
			k = append(k, c17Byte(g))
		case 1:
			if len(k) > 0 {
				k = k[:len(k)-1]
			}
		default:
			if len(k) > 0 {
				k[g.Intn(len(k))] ^= byte(1 << uint(g.Intn(8)))
			}
		}
		return k
	}
	return keys[g.Intn(len(keys))]
}

func c17Prefix(g *Gen, keys [][]byte) []byte {
	k := keys[g.Intn(len(keys))]
	switch g.Intn(6) {
	case 0:
		return []byte{}
	case 1:
		return k
	case 2:
		return append(append([]byte{}, k...), c17Byte(g))
	case 3:
		if len(k) > 0 {
			p := append([]byte{}, k[:g.Intn(len(k))+1]...)
			p[len(p)-1] ^= byte(1 << uint(g.Intn(8)))
			return p
		}
		return []byte{c17Byte(g)}
	default:
		return k[:g.Intn(len(k)+1)]
	}
}

// one case of the main class: arbitrary histories over non-empty values
func c17CaseMain(g *Gen, nops int) {
	keys := c17Keys(g, g.Pick(2, 3, 5, 8, 12, 20, 40))
	snaps := 0
	for i := 0; i < nops; i++ {
		x := g.Intn(100)
		switch {
		case x < 36:
			g.Emit("set %s %s", hx(c17PickKey(g, keys)), hx(c17Val(g)))
		case x < 52:
			g.Emit("del %s", hx(c17PickKey(g, keys)))
		case x < 60:
			g.Emit("get %s", hx(c17PickKey(g, keys)))
		case x < 65:
			g.Emit("root")
		case x < 69:
			g.Emit("iter")
		case x < 75:
			g.Emit("filter %s", hx(c17Prefix(g, keys)))
		case x < 78:
			g.Emit("snap")
			snaps++
		case x < 81:
			g.Emit("flush")
		case x < 85:
			g.Emit("reload")
		case x < 88:
			g.Emit("clear")
		case x < 93:
			if snaps == 0 {
				g.Emit("root")
				break
			}
			j := g.Intn(snaps)
			switch g.Intn(7) {
			case 5, 6:
				g.Emit("scheck")
			case 0:
				g.Emit("restore %d", j)
			case 1:
				g.Emit("sroot %d", j)
			case 2:
				g.Emit("siter %d", j)
			case 3:
				g.Emit("sclear %d", j)
			default:
				g.Emit("sget %d %s", j, hx(c17PickKey(g, keys)))
			}
		case x < 96:
			g.Emit("proof %s", hx(c17PickKey(g, keys)))
		default:
			g.Emit("prove %s", hx(c17PickKey(g, keys)))
		}
	}
	g.Emit("root")
	g.Emit("iter")
}

// c17SnapKeys: 4-byte keys sharing long prefixes, diverging at every nibble position, plus
// shorter/longer relatives: extensions of several nibbles that later sets split in the middle
func c17SnapKeys(g *Gen) [][]byte {
	base := []byte{c17Byte(g), c17Byte(g), c17Byte(g), c17Byte(g)}
	keys := [][]byte{base}
	n := g.Pick(4, 6, 8, 12)
	for len(keys) < n {
		k := append([]byte{}, keys[g.Intn(len(keys))]...)
		switch g.Intn(6) {
		case 0, 1, 2: // differ from nibble position p on
			p := g.Pick(7, 7, 6, 6, 5, 4, 3, 2, g.Intn(8))
			if p/2 < len(k) {
				if p%2 == 0 {
					k[p/2] ^= byte(1+g.Intn(15)) << 4
				} else {
					k[p/2] ^= byte(1 + g.Intn(15))
				}
				for q := p/2 + 1; q < len(k); q++ {
					if g.Intn(2) == 0 {
						k[q] = c17Byte(g)
					}
				}
			}
		case 3:
			k = append(k, c17Byte(g))
		case 4:
			k = k[:g.Intn(len(k))+1]
		default:
			k[len(k)-1] ^= byte(1 + g.Intn(15))
		}
		keys = append(keys, k)
	}
	return keys
}

// snapshot persistence: several snapshots stay alive; after every later batch of updates all of
// them are re-read completely (`scheck`); delete-heavy phases force extension/leaf merges
func c17CaseSnapshots(g *Gen, rounds int) {
	keys := c17SnapKeys(g)
	snaps := 0
	for r := 0; r < rounds; r++ {
		// grow
		for i := g.Intn(5) + 2; i > 0; i-- {
			g.Emit("set %s %s", hx(keys[g.Intn(len(keys))]), hx(c17Val(g)))
		}
		switch g.Intn(4) {
		case 0:
			g.Emit("flush")
			g.Emit("snap")
		case 1:
			g.Emit("snap")
			g.Emit("flush")
		default:
			g.Emit("snap")
		}
		snaps++
		if g.Intn(6) == 0 {
			g.Emit("sroot %d", g.Intn(snaps))
		}
		// mixed batch
		for i := g.Intn(5) + 1; i > 0; i-- {
			if g.Intn(2) == 0 {
				g.Emit("set %s %s", hx(c17PickKey(g, keys)), hx(c17Val(g)))
			} else {
				g.Emit("del %s", hx(keys[g.Intn(len(keys))]))
			}
		}
		g.Emit("scheck")
		// delete-heavy phase: remove most keys in random order
		perm := g.R.Perm(len(keys))
		for _, i := range perm {
			if g.Intn(5) != 0 {
				g.Emit("del %s", hx(keys[i]))
			}
			if g.Intn(6) == 0 {
				g.Emit("scheck")
			}
		}
		g.Emit("scheck")
		switch g.Intn(6) {
		case 0:
			g.Emit("restore %d", g.Intn(snaps))
			g.Emit("scheck")
		case 1:
			g.Emit("reload")
		case 2:
			g.Emit("clear")
		case 3:
			g.Emit("sclear %d", g.Intn(snaps))
		}
	}
	g.Emit("root")
	g.Emit("iter")
	g.Emit("scheck")
}

// c17DeepKeys: a "comb": a base key of 31..48 bytes and, for (almost) every nibble position i, a
// sibling sharing the first i nibbles and differing at nibble i — a branch at every nibble, so
// the path of the base key has 2*len+1 nodes (proofs of 63..97 elements); a few positions are
// left out so that extensions appear and lengths around every boundary (63,64,65,66,...) occur.
func c17DeepKeys(g *Gen) (base []byte, sibs [][]byte) {
	n := g.Pick(31, 32, 32, 32, 33, 36, 40, 48)
	base = make([]byte, n)
	for i := range base {
		base[i] = c17Byte(g)
	}
	skip := map[int]bool{}
	for j := g.Pick(0, 0, 1, 2, 3); j > 0; j-- {
		skip[g.Intn(2*n)] = true
	}
	for i := 0; i < 2*n; i++ {
		if skip[i] {
			continue
		}
		k := append([]byte{}, base...)
		if i%2 == 0 {
			k[i/2] ^= byte(1+g.Intn(15)) << 4
		} else {
			k[i/2] ^= byte(1 + g.Intn(15))
		}
		switch g.Intn(4) {
		case 0: // keep the tail
		case 1: // shorter sibling
			k = k[:i/2+1]
		default: // random tail
			for q := i/2 + 1; q < len(k); q++ {
				k[q] = c17Byte(g)
			}
		}
		sibs = append(sibs, k)
	}
	return
}

func c17DeepVal(g *Gen) []byte {
	// long enough that even a leaf with an empty remaining key is a hashed node
	return g.Bytes(g.Pick(31, 32, 33, 33, 40, 56))
}

// deep tries: boundary sizes of depth / proof length; every API is exercised on them
func c17CaseDeep(g *Gen) {
	base, sibs := c17DeepKeys(g)
	order := g.R.Perm(len(sibs))
	if g.Intn(2) == 0 {
		g.Emit("set %s %s", hx(base), hx(c17DeepVal(g)))
	}
	for _, i := range order {
		g.Emit("set %s %s", hx(sibs[i]), hx(c17DeepVal(g)))
	}
	g.Emit("set %s %s", hx(base), hx(c17DeepVal(g)))
	deepest := sibs[len(sibs)-1]
	g.Emit("snap")
	g.Emit("get %s", hx(base))
	g.Emit("prove %s", hx(base))
	g.Emit("prove %s", hx(deepest))
	g.Emit("prove %s", hx(sibs[g.Intn(len(sibs))]))
	g.Emit("prove %s", hx(append(append([]byte{}, base...), 0)))
	switch g.Intn(3) {
	case 0:
		g.Emit("reload")
	case 1:
		g.Emit("flush")
		g.Emit("clear")
	}
	g.Emit("filter %s", hx(base[:len(base)-1]))
	// shrink from the deep end: merges all the way up
	for j := len(sibs) - 1; j >= 0 && j > len(sibs)-1-g.Intn(6); j-- {
		g.Emit("del %s", hx(sibs[j]))
	}
	g.Emit("prove %s", hx(base))
	g.Emit("scheck")
	g.Emit("root")
}

// empty values (known finding): restricted op set, no cache clearing
func c17CaseEmpty(g *Gen, nops int) {
	keys := c17Keys(g, g.Pick(2, 3, 5, 8))
	for i := 0; i < nops; i++ {
		x := g.Intn(100)
		switch {
		case x < 40:
			v := c17Val(g)
			if g.Intn(2) == 0 {
				v = []byte{}
			}
			g.Emit("set %s %s", hx(c17PickKey(g, keys)), hx(v))
		case x < 52:
			g.Emit("del %s", hx(c17PickKey(g, keys)))
		case x < 62:
			g.Emit("get %s", hx(c17PickKey(g, keys)))
		case x < 72:
			g.Emit("root")
		case x < 82:
			g.Emit("iter")
		case x < 88:
			g.Emit("filter %s", hx(c17Prefix(g, keys)))
		case x < 92:
			g.Emit("flush")
		default:
			g.Emit("reload")
		}
	}
	g.Emit("root")
	g.Emit("iter")
}

func c17Gen(g *Gen) {
	for i := 0; i < g.N; i++ {
		g.Emit("reset")
		nops := g.Pick(5, 10, 20, 40, 80)
		if g.Tier == "thorough" && g.Intn(10) == 0 {
			nops = 300
		}
		switch x := g.Intn(100); {
		case x < 4:
			c17CaseEmpty(g, nops)
		case x < 7:
			c17CaseDeep(g)
		case x < 30:
			c17CaseSnapshots(g, g.Pick(1, 2, 3, 4))
		default:
			c17CaseMain(g, nops)
		}
	}
}

// ---------------------------------------------------------------- runner

type c17Runner struct {
	mgr      trie.Manager
	mut      trie.Mutable
	ref      map[string][]byte
	snaps    []trie.Snapshot
	snapRefs []map[string][]byte
	everKeys map[string]bool // every key used in this case (for complete re-reads of snapshots)
	// empty-value bookkeeping (known finding)
	emptyReloaded bool // a reload happened while an empty value was stored
	// reused verifier (C18): one trie object that knows only a root hash and is asked to Prove
	// many times, with Flush / ClearCache / reload-from-hash in between
	vsrc  trie.Snapshot // the trie the genuine proofs come from
	vver  trie.Snapshot
	vmgr  trie.Manager
	vroot []byte
	vref  map[string][]byte
	dead          bool // Delete panicked: the trie may be half-updated, the rest of the case is skipped
}

func c17NewRunner() *c17Runner {
	mgr := trie_manager.New(db.NewMapDB())
	return &c17Runner{mgr: mgr, mut: mgr.NewMutable(nil), ref: map[string][]byte{}, everKeys: map[string]bool{}}
}

func c17CopyRef(m map[string][]byte) map[string][]byte {
	r := make(map[string][]byte, len(m))
	for k, v := range m {
		r[k] = v
	}
	return r
}

func c17SortedKeys(m map[string][]byte) []string {
	ks := make([]string, 0, len(m))
	for k := range m {
		ks = append(ks, k)
	}
	sort.Strings(ks)
	return ks
}

// order independent root: rebuild from the pairs in a fresh trie over a fresh DB
func c17FreshRoot(m map[string][]byte, reverse bool) []byte {
	t := trie_manager.New(db.NewMapDB()).NewMutable(nil)
	ks := c17SortedKeys(m)
	if reverse {
		for i, j := 0, len(ks)-1; i < j; i, j = i+1, j-1 {
			ks[i], ks[j] = ks[j], ks[i]
		}
	}
	for _, k := range ks {
		t.Set([]byte(k), m[k])
	}
	return t.GetSnapshot().Hash()
}

func c17Pairs(m map[string][]byte, prefix []byte) string {
	var sb []string
	for _, k := range c17SortedKeys(m) {
		if bytes.HasPrefix([]byte(k), prefix) {
			sb = append(sb, hx([]byte(k))+"="+hx(m[k]))
		}
	}
	if len(sb) == 0 {
		return "-"
	}
	return strings.Join(sb, ";")
}

func c17IterOut(it trie.Iterator) (string, bool) {
	var sb []string
	for ; it.Has(); it.Next() {
		v, k, err := it.Get()
		if err != nil {
			return "err", false
		}
		sb = append(sb, hx(k)+"="+hx(v))
	}
	if len(sb) == 0 {
		return "-", true
	}
	return strings.Join(sb, ";"), true
}

func c17HasEmpty(m map[string][]byte) bool {
	for _, v := range m {
		if len(v) == 0 {
			return true
		}
	}
	return false
}

// key for an oracle failure: the known empty-value finding only for cases that
// reloaded while an empty value was stored.
func (r *c17Runner) key(k string) string {
	if r.emptyReloaded {
		return c17KnownEmpty
	}
	return k
}

func c17ProofOut(p [][]byte) string {
	if p == nil {
		return "nil"
	}
	if len(p) == 0 {
		return "-"
	}
	s := make([]string, len(p))
	for i, b := range p {
		s[i] = hx(b)
	}
	return strings.Join(s, ",")
}

func c17ParseItems(s string) [][]byte {
	if s == "nil" || s == "none" {
		return [][]byte{}
	}
	var p [][]byte
	for _, x := range strings.Split(s, ",") {
		p = append(p, unhx(x))
	}
	return p
}

// c17Mutate is the deterministic proof mutation shared with the Lean driver (`mutate`).
func c17Mutate(p0 [][]byte, kind, a, b, c int, x []byte) [][]byte {
	p := make([][]byte, len(p0))
	for i := range p0 {
		p[i] = append([]byte{}, p0[i]...)
	}
	n := len(p)
	if n == 0 {
		if kind == 2 || kind == 5 {
			return [][]byte{x}
		}
		return p
	}
	i := a % n
	it := p[i]
	switch kind {
	case 0:
		if len(it) == 0 {
			return p
		}
		it[b%len(it)] ^= byte(c%255 + 1)
	case 1:
		p = append(p[:i], p[i+1:]...)
	case 2:
		p = append(p, x)
	case 3:
		q := append([][]byte{}, p[:i+1]...)
		q = append(q, append([]byte{}, it...))
		p = append(q, p[i+1:]...)
	case 4:
		if len(it) > 0 {
			p[i] = it[:len(it)-1]
		}
	case 5:
		q := append([][]byte{}, p[:i]...)
		q = append(q, x)
		p = append(q, p[i:]...)
	case 6:
		if i+1 < n {
			p[i], p[i+1] = p[i+1], p[i]
		}
	case 7:
		p[i] = x
	}
	return p
}

func c17ProofEq(a, b [][]byte) bool {
	if len(a) != len(b) {
		return false
	}
	for i := range a {
		if !bytes.Equal(a[i], b[i]) {
			return false
		}
	}
	return true
}

func c17IsPrefixProof(a, b [][]byte) bool { // a is a proper prefix of b
	return len(a) < len(b) && c17ProofEq(a, b[:len(a)])
}

// c17Prove runs Prove on a fresh Immutable that knows only the root hash (empty DB).
func c17Prove(o *Oracle, root, k []byte, p [][]byte, panicKey string) (string, []byte, bool) {
	run := func(im trie.Immutable) (out string, val []byte, ok bool) {
		defer func() {
			if e := recover(); e != nil {
				o.Check(false, panicKey, "Prove(%x, %s) under root %x panics: %v", k, c17ProofOut(p), root, e)
				out, val, ok = "panic", nil, false
			}
		}()
		v, err := im.Prove(k, p)
		if err == nil {
			return "ok " + hx(v), v, true
		}
		if errors.NotFoundError.Equals(err) {
			return "notfound", nil, false
		}
		return "reject", nil, false
	}
	im := trie_manager.New(db.NewMapDB()).NewImmutable(root)
	out, v, ok := run(im)
	// the same object again: nodes cached by the first call must not change the verdict
	out2, _, _ := run(im)
	o.Check(out == out2, "prove-repeat-differs", "Prove(%x) twice on one Immutable: %s then %s", k, out, out2)
	return out, v, ok
}

func c17Delete(m trie.Mutable, k []byte) (old []byte, err error, panicked bool) {
	defer func() {
		if e := recover(); e != nil {
			panicked = true
		}
	}()
	old, err = m.Delete(k)
	return
}

func c17Sha3(b []byte) []byte {
	h := sha3.Sum256(b)
	return h[:]
}

func (r *c17Runner) snapIdx(s string) (int, bool) {
	j, err := strconv.Atoi(s)
	if err != nil || j < 0 || j >= len(r.snaps) {
		return 0, false
	}
	return j, true
}

func (r *c17Runner) Step(t []string, o *Oracle) string {
	if len(t) == 0 {
		return "bad-op"
	}
	if r.dead {
		return "dead"
	}
	switch {
	case t[0] == "set" && len(t) == 3:
		k, v := unhx(t[1]), unhx(t[2])
		r.everKeys[string(k)] = true
		old, err := r.mut.Set(k, v)
		if err != nil {
			return "err"
		}
		want, had := r.ref[string(k)]
		o.Check(bytes.Equal(old, want) && (had || old == nil), r.key("set-old-value"), "Set(%x) returned old %x, reference %x (present %v)", k, old, want, had)
		r.ref[string(k)] = v
		if len(v) == 0 {
			o.Count("set-empty-value")
		} else if had {
			o.Count("set-overwrite")
		} else {
			o.Count("set-new")
		}
		return hx(old)
	case t[0] == "del" && len(t) == 2:
		k := unhx(t[1])
		r.everKeys[string(k)] = true
		old, err, panicked := c17Delete(r.mut, k)
		if panicked {
			// log.Panicln("Value is nil") in branch.delete
			o.Check(false, r.key("delete-panics"), "Delete(%x) panics", k)
			r.dead = true
			return "panic"
		}
		if err != nil {
			return "err"
		}
		want, had := r.ref[string(k)]
		o.Check(bytes.Equal(old, want) && (had || old == nil), r.key("delete-old-value"), "Delete(%x) returned old %x, reference %x (present %v)", k, old, want, had)
		delete(r.ref, string(k))
		if had {
			o.Count("del-present")
		} else {
			o.Count("del-absent")
		}
		return hx(old)
	case t[0] == "get" && len(t) == 2:
		k := unhx(t[1])
		v, err := r.mut.Get(k)
		if err != nil {
			return "err"
		}
		want, had := r.ref[string(k)]
		o.Check(bytes.Equal(v, want) && (had || v == nil), r.key("get-last-written"), "Get(%x) = %x, reference %x (present %v)", k, v, want, had)
		return hx(v)
	case t[0] == "root" && len(t) == 1:
		h := r.mut.GetSnapshot().Hash()
		r.checkRoot(o, h)
		return hx(h)
	case t[0] == "snap" && len(t) == 1:
		s := r.mut.GetSnapshot()
		r.snaps = append(r.snaps, s)
		r.snapRefs = append(r.snapRefs, c17CopyRef(r.ref))
		h := s.Hash()
		r.checkRoot(o, h)
		o.Count("snapshot")
		return hx(h)
	case t[0] == "flush" && len(t) == 1:
		s := r.mut.GetSnapshot()
		if err := s.Flush(); err != nil {
			return "err"
		}
		h := s.Hash()
		r.checkRoot(o, h)
		o.Count("flush")
		return hx(h)
	case t[0] == "reload" && len(t) == 1:
		s := r.mut.GetSnapshot()
		if err := s.Flush(); err != nil {
			return "err"
		}
		h := s.Hash()
		r.mut = r.mgr.NewMutable(h)
		if c17HasEmpty(r.ref) {
			r.emptyReloaded = true
		}
		h2 := r.mut.GetSnapshot().Hash()
		o.Check(bytes.Equal(h, h2), "reload-root-changed", "root %x became %x after flush+reload", h, h2)
		// every stored pair must be readable from the database copy
		im := r.mgr.NewImmutable(h)
		for _, k := range c17SortedKeys(r.ref) {
			v, err := im.Get([]byte(k))
			o.Check(err == nil && bytes.Equal(v, r.ref[k]), r.key("reload-get"), "after reload Get(%x) = %x err=%v, reference %x", k, v, err, r.ref[k])
		}
		it, _ := c17IterOut(im.Iterator())
		o.Check(it == c17Pairs(r.ref, nil), r.key("reload-iter"), "after reload iterator gives %s, reference %s", it, c17Pairs(r.ref, nil))
		o.Count("reload")
		return hx(h2)
	case t[0] == "clear" && len(t) == 1:
		r.mut.ClearCache()
		o.Count("clear-cache")
		return "ok"
	case t[0] == "sclear" && len(t) == 2:
		j, ok := r.snapIdx(t[1])
		if !ok {
			return "bad-op"
		}
		r.snaps[j].ClearCache()
		o.Count("clear-cache-snapshot")
		return "ok"
	case t[0] == "scheck" && len(t) == 1:
		// persistence: every snapshot taken so far is re-read completely and compared with the
		// reference map frozen when it was taken
		if len(r.snaps) == 0 {
			return "-"
		}
		roots := make([]string, len(r.snaps))
		for j, s := range r.snaps {
			ref := r.snapRefs[j]
			for k := range r.everKeys {
				v, err := s.Get([]byte(k))
				want, had := ref[k]
				o.Check(err == nil && bytes.Equal(v, want) && (had || v == nil), r.key("snapshot-get-changed"), "snapshot %d Get(%x) = %x err=%v, reference at snapshot time %x (present %v)", j, []byte(k), v, err, want, had)
			}
			out, _ := c17IterOut(s.Iterator())
			o.Check(out == c17Pairs(ref, nil), r.key("snapshot-iter-changed"), "snapshot %d iterates %s, reference %s", j, out, c17Pairs(ref, nil))
			h := s.Hash()
			want := c17FreshRoot(ref, false)
			o.Check(bytes.Equal(h, want), r.key("snapshot-root-changed"), "snapshot %d root %x, rebuilt from its pairs %x", j, h, want)
			// the serialised form must be intact too: a proof from the snapshot verifies
			for _, k := range c17SortedKeys(ref) {
				if len(ref[k]) == 0 {
					continue
				}
				p := s.GetProof([]byte(k))
				_, v, ok := c17Prove(o, h, []byte(k), p, c17PanicHonest)
				o.Check(p != nil && ok && bytes.Equal(v, ref[k]), r.key("snapshot-proof-changed"), "snapshot %d proof of %x no longer verifies", j, []byte(k))
				break
			}
			roots[j] = hx(h)
		}
		o.Count("snapshot-full-recheck")
		return strings.Join(roots, ",")
	case t[0] == "restore" && len(t) == 2:
		j, ok := r.snapIdx(t[1])
		if !ok {
			return "bad-op"
		}
		if err := r.mut.Reset(r.snaps[j]); err != nil {
			return "err"
		}
		r.ref = c17CopyRef(r.snapRefs[j])
		h := r.mut.GetSnapshot().Hash()
		r.checkRoot(o, h)
		o.Count("restore-snapshot")
		return hx(h)
	case t[0] == "sget" && len(t) == 3:
		j, ok := r.snapIdx(t[1])
		if !ok {
			return "bad-op"
		}
		k := unhx(t[2])
		v, err := r.snaps[j].Get(k)
		if err != nil {
			return "err"
		}
		want, had := r.snapRefs[j][string(k)]
		o.Check(bytes.Equal(v, want) && (had || v == nil), r.key("snapshot-get-changed"), "snapshot %d Get(%x) = %x, reference at snapshot time %x", j, k, v, want)
		return hx(v)
	case t[0] == "sroot" && len(t) == 2:
		j, ok := r.snapIdx(t[1])
		if !ok {
			return "bad-op"
		}
		h := r.snaps[j].Hash()
		want := c17FreshRoot(r.snapRefs[j], false)
		o.Check(bytes.Equal(h, want), r.key("snapshot-root-changed"), "snapshot %d root %x, rebuilt from its pairs %x", j, h, want)
		return hx(h)
	case t[0] == "siter" && len(t) == 2:
		j, ok := r.snapIdx(t[1])
		if !ok {
			return "bad-op"
		}
		out, _ := c17IterOut(r.snaps[j].Iterator())
		o.Check(out == c17Pairs(r.snapRefs[j], nil), r.key("snapshot-iter-changed"), "snapshot %d iterates %s, reference %s", j, out, c17Pairs(r.snapRefs[j], nil))
		return out
	case t[0] == "iter" && len(t) == 1:
		out, _ := c17IterOut(r.mut.GetSnapshot().Iterator())
		want := c17Pairs(r.ref, nil)
		o.Check(out == want, r.key("iter-sorted-complete"), "iterator gives %s, sorted reference %s", out, want)
		return out
	case t[0] == "filter" && len(t) == 2:
		p := unhx(t[1])
		out, _ := c17IterOut(r.mut.GetSnapshot().Filter(p))
		want := c17Pairs(r.ref, p)
		o.Check(out == want, r.key("filter-prefix-exact"), "Filter(%x) gives %s, reference %s", p, out, want)
		if out != "-" {
			o.Count("filter-nonempty")
		}
		return out
	case t[0] == "proof" && len(t) == 2:
		k := unhx(t[1])
		p := r.mut.GetSnapshot().GetProof(k)
		if _, had := r.ref[string(k)]; had {
			o.Check(p != nil, r.key("proof-missing-for-stored-key"), "GetProof(%x) = nil for a stored key", k)
		}
		return c17ProofOut(p)
	case t[0] == "prove" && len(t) == 2:
		return r.prove(o, unhx(t[1]), nil, -1)
	case t[0] == "pmut" && len(t) == 7:
		kind, e1 := strconv.Atoi(t[2])
		a, e2 := strconv.Atoi(t[3])
		b, e3 := strconv.Atoi(t[4])
		c, e4 := strconv.Atoi(t[5])
		if e1 != nil || e2 != nil || e3 != nil || e4 != nil || kind < 0 || a < 0 || b < 0 || c < 0 {
			return "bad-op"
		}
		x := unhx(t[6])
		return r.prove(o, unhx(t[1]), func(p [][]byte) [][]byte { return c17Mutate(p, kind, a, b, c, x) }, kind)
	case t[0] == "vnew" && len(t) == 1:
		r.vsrc = r.mut.GetSnapshot()
		r.vroot = r.vsrc.Hash()
		r.vref = c17CopyRef(r.ref)
		r.vmgr = trie_manager.New(db.NewMapDB())
		r.vver = r.vmgr.NewMutable(r.vroot).GetSnapshot()
		o.Count("verifier-new")
		return "ok"
	case (t[0] == "vflush" || t[0] == "vclear" || t[0] == "vreload") && len(t) == 1:
		if r.vver == nil {
			return "bad-op"
		}
		switch t[0] {
		case "vflush":
			if err := r.vver.Flush(); err != nil {
				return "err"
			}
		case "vclear":
			r.vver.ClearCache()
		default:
			r.vver = r.vmgr.NewMutable(r.vroot).GetSnapshot()
		}
		o.Count("verifier-" + t[0][1:])
		return "ok"
	case t[0] == "vprove" && len(t) == 2:
		if r.vver == nil {
			return "bad-op"
		}
		return r.vprove(o, unhx(t[1]), r.vsrc, nil, -1)
	case t[0] == "vpmut" && len(t) == 7:
		if r.vver == nil {
			return "bad-op"
		}
		kind, e1 := strconv.Atoi(t[2])
		a, e2 := strconv.Atoi(t[3])
		b, e3 := strconv.Atoi(t[4])
		c, e4 := strconv.Atoi(t[5])
		if e1 != nil || e2 != nil || e3 != nil || e4 != nil || kind < 0 || a < 0 || b < 0 || c < 0 {
			return "bad-op"
		}
		x := unhx(t[6])
		return r.vprove(o, unhx(t[1]), r.vsrc, func(p [][]byte) [][]byte { return c17Mutate(p, kind, a, b, c, x) }, kind)
	case t[0] == "vother" && len(t) == 3:
		j, okj := r.snapIdx(t[1])
		if r.vver == nil || !okj {
			return "bad-op"
		}
		return r.vprove(o, unhx(t[2]), r.snaps[j], nil, -2)
	case t[0] == "pother" && len(t) == 3:
		k, k2 := unhx(t[1]), unhx(t[2])
		s := r.mut.GetSnapshot()
		p := s.GetProof(k2)
		if p == nil {
			return "noproof"
		}
		out, v, ok := c17Prove(o, s.Hash(), k, p, c17PanicHonest)
		want, had := r.ref[string(k)]
		if ok {
			o.Check(had && bytes.Equal(v, want), r.key("prove-yields-wrong-value"), "Prove(%x) with the proof of %x yields %x, stored %x (present %v)", k, k2, v, want, had)
			o.Count("other-key-proof-accepted")
		} else {
			o.Count("other-key-proof-refused")
		}
		return out
	case t[0] == "psnap" && len(t) == 3:
		j, okj := r.snapIdx(t[1])
		if !okj {
			return "bad-op"
		}
		k := unhx(t[2])
		s := r.mut.GetSnapshot()
		p := s.GetProof(k)
		if p == nil {
			return "noproof"
		}
		root := r.snaps[j].Hash()
		out, v, ok := c17Prove(o, root, k, p, c17PanicHonest)
		if ok {
			same := bytes.Equal(root, s.Hash())
			want, had := r.ref[string(k)]
			o.Check(same && had && bytes.Equal(v, want), r.key("proof-accepted-for-other-root"), "proof of %x under root %x accepted by root %x with value %x", k, s.Hash(), root, v)
			o.Count("other-root-same-root")
		} else {
			o.Count("other-root-refused")
		}
		return out
	case t[0] == "provex" && len(t) == 4:
		root, k, p := unhx(t[1]), unhx(t[2]), c17ParseItems(t[3])
		out, _, ok := c17Prove(o, root, k, p, "prove-panics-on-crafted-node")
		if ok {
			o.Count("crafted-accepted")
		} else {
			o.Count("crafted-" + out)
		}
		return out
	case t[0] == "hashof" && len(t) == 2:
		return hx(c17Sha3(unhx(t[1])))
	}
	return "bad-op"
}

func (r *c17Runner) checkRoot(o *Oracle, h []byte) {
	want := c17FreshRoot(r.ref, false)
	o.Check(bytes.Equal(h, want), r.key("root-depends-on-history"), "root %x after this history, %x when the same %d pairs are inserted in ascending order into a fresh trie", h, want, len(r.ref))
	if len(r.ref) > 1 {
		want2 := c17FreshRoot(r.ref, true)
		o.Check(bytes.Equal(want, want2), r.key("root-depends-on-insertion-order"), "ascending insertion gives %x, descending %x", want, want2)
	}
	o.Check((h == nil) == (len(r.ref) == 0), r.key("root-nil-iff-empty"), "root %x with %d pairs", h, len(r.ref))
}

func c17ProveOn(o *Oracle, im trie.Immutable, k []byte, p [][]byte) (out string, val []byte, ok bool) {
	defer func() {
		if e := recover(); e != nil {
			o.Check(false, c17PanicHonest, "Prove(%x, %s) on a reused verifier panics: %v", k, c17ProofOut(p), e)
			out, val, ok = "panic", nil, false
		}
	}()
	v, err := im.Prove(k, p)
	if err == nil {
		return "ok " + hx(v), v, true
	}
	if errors.NotFoundError.Equals(err) {
		return "notfound", nil, false
	}
	return "reject", nil, false
}

// vprove: Prove on the REUSED verifier. src is the trie the proof is taken from (the verifier's own
// source, or another snapshot = another root); mut alters the proof. Whatever the verifier cached,
// flushed or reloaded before, it must answer exactly like a fresh verifier: accept only the stored
// value, and of altered proofs only those that merely append elements to the genuine one.
func (r *c17Runner) vprove(o *Oracle, k []byte, src trie.Snapshot, mut func([][]byte) [][]byte, kind int) string {
	p := src.GetProof(k)
	if p == nil {
		o.Count("verifier-noproof")
		return "noproof"
	}
	genuine := r.vsrc.GetProof(k)
	q := p
	if mut != nil {
		q = mut(p)
	}
	want, had := r.vref[string(k)]
	out, v, ok := c17ProveOn(o, r.vver, k, q)
	if ok {
		o.Check(had && bytes.Equal(v, want), "prove-yields-wrong-value", "reused verifier: Prove(%x) yields %x, stored %x (present %v)", k, v, want, had)
		o.Check(genuine != nil && (c17ProofEq(genuine, q) || c17IsPrefixProof(genuine, q)), "altered-proof-accepted", "reused verifier accepts an altered proof (kind %d) of %x: genuine %s, given %s", kind, k, c17ProofOut(genuine), c17ProofOut(q))
		o.Count("verifier-accepted")
	} else {
		o.Count("verifier-refused")
	}
	// the same call again: a rejected (or accepted) proof must get the same verdict — a first
	// attempt must not poison or prime the verifier
	out2, _, _ := c17ProveOn(o, r.vver, k, q)
	o.Check(out == out2, "prove-repeat-differs", "reused verifier: Prove(%x) %s then %s for the same proof", k, out, out2)
	// and the genuine proof still verifies afterwards
	if genuine != nil {
		out3, v3, ok3 := c17ProveOn(o, r.vver, k, genuine)
		if had {
			o.Check(ok3 && bytes.Equal(v3, want), "proof-of-stored-key-refused", "reused verifier: genuine proof of stored key %x gives %s after an altered attempt", k, out3)
		} else {
			o.Check(!ok3, "absent-key-proved", "reused verifier: Prove(%x) = %s for an absent key", k, out3)
		}
	}
	// a fresh verifier agrees
	outF, _, _ := c17Prove(o, r.vroot, k, q, c17PanicHonest)
	o.Check(out == outF, "verifier-state-changes-verdict", "Prove(%x): reused verifier says %s, fresh verifier says %s", k, out, outF)
	return out
}

// prove: honest proof (mut == nil) or a mutated one; the C18 oracle
func (r *c17Runner) prove(o *Oracle, k []byte, mut func([][]byte) [][]byte, kind int) string {
	s := r.mut.GetSnapshot()
	p := s.GetProof(k)
	want, had := r.ref[string(k)]
	if had {
		o.Check(p != nil, r.key("proof-missing-for-stored-key"), "GetProof(%x) = nil for a stored key", k)
	}
	if p == nil {
		o.Count("noproof")
		return "noproof"
	}
	q := p
	if mut != nil {
		q = mut(p)
	}
	altered := !c17ProofEq(p, q)
	out, v, ok := c17Prove(o, s.Hash(), k, q, c17PanicHonest)
	if ok {
		// soundness: whatever was accepted is the stored value
		o.Check(had && bytes.Equal(v, want), r.key("prove-yields-wrong-value"), "Prove(%x) yields %x, stored %x (present %v), altered=%v", k, v, want, had, altered)
	}
	if !altered {
		if had {
			// completeness
			o.Check(ok, r.key("proof-of-stored-key-refused"), "Prove(%x, GetProof(%x)) = %s for a stored key", k, k, out)
			o.Count("prove-stored")
			o.Count("proof-items-" + strconv.Itoa(len(p)))
		} else {
			o.Check(!ok, r.key("absent-key-proved"), "Prove(%x) = %s for an absent key", k, out)
			o.Count("prove-absent-" + out)
		}
	} else {
		if ok {
			// the only alterations the code lets through: extra elements after a complete proof
			o.Check(c17IsPrefixProof(p, q), r.key("altered-proof-accepted"), "altered proof (kind %d) of %x accepted: %s -> %s", kind, k, c17ProofOut(p), c17ProofOut(q))
			o.Count("altered-trailing-extra-accepted")
		} else {
			o.Count("altered-refused-kind" + strconv.Itoa(kind))
		}
	}
	return out
}
