//go:build c37 || all

package main

import (
	"encoding/base64"
	"fmt"
	"math/big"
	"strconv"
	"strings"
	"time"

	"github.com/icon-project/goloop/common/crypto"
	"github.com/icon-project/goloop/common/db"
	"github.com/icon-project/goloop/common/log"
	"github.com/icon-project/goloop/common/txlocator"
	"github.com/icon-project/goloop/common/wallet"
	"github.com/icon-project/goloop/module"
	"github.com/icon-project/goloop/service"
	"github.com/icon-project/goloop/service/scoredb"
	"github.com/icon-project/goloop/service/state"
	"github.com/icon-project/goloop/service/transaction"
)

// C37: candidates of the real TransactionPool re-validate as a block.
//
//	cand bts th price minStep maxBytes maxCount b0..b5 nF id*nF nT (id ts from to value stepLimit size)*nT
//	  -> sel n id.. size S bal b0..b5
//
// th in microseconds (multiple of 1000: the chain stores milliseconds); accounts are 0..5 (fixed
// wallets); a tx is a real signed v3 transfer whose nonce is `id`.
func init() {
	Register(&Prop{ID: "C37", Gen: c37Gen, New: func() Runner { return c37Runner{} }})
}

const c37NID = 1
const c37Accounts = 6

var c37Wallets []module.Wallet

func c37Wallet(i int) module.Wallet {
	if c37Wallets == nil {
		for k := 0; k < c37Accounts; k++ {
			sk, err := crypto.ParsePrivateKey(crypto.SHA3Sum256([]byte(fmt.Sprintf("c37-account-%d", k))))
			if err != nil {
				panic(err)
			}
			w, err := wallet.NewFromPrivateKey(sk)
			if err != nil {
				panic(err)
			}
			c37Wallets = append(c37Wallets, w)
		}
	}
	return c37Wallets[i]
}

type c37Spec struct {
	id              int
	ts              int64
	from, to        int
	value, stepLimit int64
}

var c37TxCache = map[c37Spec]transaction.Transaction{}

func c37MakeTx(s c37Spec) transaction.Transaction {
	if tx, ok := c37TxCache[s]; ok {
		return tx
	}
	body := fmt.Sprintf(`"version":"0x3","from":"%s","to":"%s","value":"0x%x","stepLimit":"0x%x","timestamp":"0x%x","nid":"0x%x","nonce":"0x%x"`,
		c37Wallet(s.from).Address().String(), c37Wallet(s.to).Address().String(), s.value, s.stepLimit, s.ts, c37NID, s.id)
	tx0, err := transaction.NewTransactionFromJSON([]byte("{" + body + "}"))
	if err != nil {
		panic(err)
	}
	sig, err := c37Wallet(s.from).Sign(tx0.ID())
	if err != nil {
		panic(err)
	}
	js := "{" + body + `,"signature":"` + base64.StdEncoding.EncodeToString(sig) + `"}`
	tx, err := transaction.NewTransactionFromJSON([]byte(js))
	if err != nil {
		panic(err)
	}
	if len(c37TxCache) > 50000 {
		c37TxCache = map[c37Spec]transaction.Transaction{}
	}
	c37TxCache[s] = tx
	return tx
}

type c37BI struct{ h, ts int64 }

func (b *c37BI) Height() int64    { return b.h }
func (b *c37BI) Timestamp() int64 { return b.ts }

type c37Plt struct{}

func (c37Plt) ToRevision(v int) module.Revision { return module.Revision(v) }

type c37Mon struct{}

func (c37Mon) OnDropTx(n int, user bool)                         {}
func (c37Mon) OnAddTx(n int, user bool)                          {}
func (c37Mon) OnRemoveTx(n int, user bool)                       {}
func (c37Mon) OnCommit(id []byte, ts time.Time, d time.Duration) {}

type c37Runner struct{}

func (c37Runner) Step(t []string, o *Oracle) string {
	if len(t) < 1 || t[0] != "cand" {
		return "bad-op"
	}
	var v []int64
	for _, s := range t[1:] {
		x, err := strconv.ParseInt(s, 10, 64)
		if err != nil {
			return "bad-op"
		}
		v = append(v, x)
	}
	if len(v) < 13 {
		return "bad-op"
	}
	bts, th, price, minStep, maxB, maxC := v[0], v[1], v[2], v[3], v[4], v[5]
	bal := v[6:12]
	nF := v[12]
	for _, x := range append([]int64{price, minStep, nF}, bal...) {
		if x < 0 {
			return "bad-op"
		}
	}
	if int64(len(v)) < 13+nF+1 {
		return "bad-op"
	}
	fin := map[int]bool{}
	for _, x := range v[13 : 13+nF] {
		fin[int(x)] = true
	}
	rest := v[13+nF:]
	nT := rest[0]
	rest = rest[1:]
	if nT < 0 || int64(len(rest)) != nT*7 {
		return "bad-op"
	}
	var specs []c37Spec
	var sizes []int64
	for k := int64(0); k < nT; k++ {
		f := rest[k*7 : k*7+7]
		if f[0] < 0 || f[2] < 0 || f[3] < 0 || f[4] < 0 || f[5] < 0 || f[6] < 0 {
			return "bad-op"
		}
		if f[2] >= c37Accounts || f[3] >= c37Accounts || th <= 0 || th%1000 != 0 {
			return "err"
		}
		specs = append(specs, c37Spec{id: int(f[0]), ts: f[1], from: int(f[2]), to: int(f[3]), value: f[4], stepLimit: f[5]})
		sizes = append(sizes, f[6])
	}
	if th <= 0 || th%1000 != 0 {
		return "err"
	}

	// ---- the world
	dbase := db.NewMapDB()
	lg := log.New()
	lg.SetLevel(log.FatalLevel)
	log.GlobalLogger().SetLevel(log.FatalLevel)
	ws := state.NewWorldState(dbase, nil, nil, nil, nil)
	sys := ws.GetAccountState(state.SystemID)
	must := func(err error) {
		if err != nil {
			panic(err)
		}
	}
	must(scoredb.NewVarDB(sys, state.VarStepPrice).Set(big.NewInt(price)))
	must(scoredb.NewVarDB(sys, state.VarTimestampThreshold).Set(th / 1000))
	must(scoredb.NewVarDB(sys, state.VarNextBlockVersion).Set(int64(module.BlockVersion2)))
	if minStep > 0 {
		must(scoredb.NewArrayDB(sys, state.VarStepTypes).Put(state.StepTypeDefault))
		must(scoredb.NewDictDB(sys, state.VarStepCosts, 1).Set(state.StepTypeDefault, minStep))
	}
	for a := 0; a < c37Accounts; a++ {
		ws.GetAccountState(c37Wallet(a).Address().ID()).SetBalance(big.NewInt(bal[a]))
	}
	wss := ws.GetSnapshot()

	lm, err := txlocator.NewManager(dbase, lg)
	must(err)
	tsc := service.NewTimestampChecker()
	tsc.SetThreshold(time.Duration(th) * time.Microsecond)
	tim, err := service.NewTXIDManager(lm, tsc, nil)
	must(err)
	pool := service.NewTransactionPool(module.TransactionGroupNormal, 5000, tim, c37Mon{}, lg)

	// finalized parent block holding the already-included transactions
	root := tim.NewLogger(module.TransactionGroupNormal, 1, bts-1)
	var ftxs []module.Transaction
	seenF := map[int]bool{}
	nonce := map[string]int{}
	for k, s := range specs {
		tx := c37MakeTx(s)
		if int64(len(tx.Bytes())) != sizes[k] {
			return "err"
		}
		nonce[string(tx.ID())] = s.id
		if fin[s.id] && !seenF[s.id] {
			seenF[s.id] = true
			ftxs = append(ftxs, tx)
		}
	}
	if _, err := root.Add(transaction.NewTransactionListFromSlice(dbase, ftxs), true); err != nil {
		panic(err)
	}
	must(root.Commit())
	txlocator.VerifWaitFlush(lm)

	added := map[int]bool{}
	for _, s := range specs {
		err := pool.Add(c37MakeTx(s), true)
		if err == nil {
			added[s.id] = true
			o.Count("pool-add")
		} else if err == service.ErrDuplicateTransaction {
			o.Count("pool-add-duplicate")
		} else {
			panic(err)
		}
	}

	wc := state.NewWorldContext(ws, &c37BI{2, bts}, nil, c37Plt{})
	txs, size := pool.Candidate(wc, int(maxB), int(maxC))

	var sb strings.Builder
	fmt.Fprintf(&sb, "sel %d", len(txs))
	for _, tx := range txs {
		fmt.Fprintf(&sb, " %d", nonce[string(tx.ID())])
	}
	fmt.Fprintf(&sb, " size %d bal", size)
	for a := 0; a < c37Accounts; a++ {
		fmt.Fprintf(&sb, " %s", ws.GetAccountState(c37Wallet(a).Address().ID()).GetBalance().String())
	}
	o.Count(fmt.Sprintf("selected-%d", c37Bucket(len(txs))))
	if len(txs) < len(added) {
		o.Count("some-not-selected")
	}

	// ---- property oracle: the candidate list re-validates as a block from the same state
	if err := ws.Reset(wss); err != nil {
		panic(err)
	}
	wc2 := state.NewWorldContext(ws, &c37BI{2, bts}, nil, c37Plt{})
	list := transaction.NewTransactionListFromSlice(dbase, txs)
	verr := service.VerifValidateTxs(list, wc2, c37NID)
	o.Check(verr == nil, "candidate-rejected-by-validateTxs", "validateTxs on the candidates: %v", verr)
	child := root.NewLogger(2, bts, service.TransactionTimestampThreshold(wc2, module.TransactionGroupNormal))
	cnt, aerr := child.Add(list, false)
	o.Check(aerr == nil && cnt == len(txs), "candidate-rejected-by-txid-logger", "TXIDLogger.Add(candidates,false) = %d, %v", cnt, aerr)
	effB, effC := maxB, maxC
	if effB <= 0 {
		effB = 1024 * 1024
	}
	if effC <= 0 {
		effC = 1500
	}
	o.Check(int64(size) <= effB && int64(len(txs)) <= effC, "candidate-over-limits", "size %d count %d over limits %d %d", size, len(txs), effB, effC)
	seen := map[int]bool{}
	total := 0
	for _, tx := range txs {
		n := nonce[string(tx.ID())]
		ts := tx.(transaction.Transaction).Timestamp()
		o.Check(bts-th < ts && ts <= bts+th, "candidate-outside-window", "tx %d ts %d outside (%d,%d]", n, ts, bts-th, bts+th)
		o.Check(!fin[n], "candidate-already-included", "tx %d is in the finalized block", n)
		o.Check(!seen[n], "candidate-duplicate", "tx %d selected twice", n)
		seen[n] = true
		total += len(tx.Bytes())
	}
	o.Check(total == size, "candidate-size-sum", "reported size %d, sum %d", size, total)

	// ---- the property itself, with the harness' own accounting (independent of the model and
	// of PreValidate): at its position every selected tx must be affordable by its sender given
	// the true effect of the ones selected before it (a self-transfer nets to -fee).
	specOf := map[int]c37Spec{}
	for _, sp := range specs {
		if _, ok := specOf[sp.id]; !ok {
			specOf[sp.id] = sp
		}
	}
	own := make([]int64, c37Accounts)
	copy(own, bal)
	selfBefore := map[int]bool{}
	var order []string
	for _, sp := range specs {
		order = append(order, fmt.Sprintf("%d:%d->%d v%d s%d", sp.id, sp.from, sp.to, sp.value, sp.stepLimit))
	}
	for pos, tx := range txs {
		sp := specOf[nonce[string(tx.ID())]]
		cost := sp.value + sp.stepLimit*price
		o.Check(sp.stepLimit >= minStep, "candidate-below-minimum-step", "tx %d at position %d: stepLimit %d < minStep %d", sp.id, pos, sp.stepLimit, minStep)
		key := "candidate-unaffordable-at-its-position"
		if selfBefore[sp.from] {
			key = "candidate-unaffordable-after-self-transfer"
		}
		o.Check(own[sp.from] >= cost, key,
			"selected tx %d (position %d, %d->%d value %d fee %d) needs %d but sender %d has %d left; balances %v price %d pool [%s]",
			sp.id, pos, sp.from, sp.to, sp.value, sp.stepLimit*price, cost, sp.from, own[sp.from], bal, price, strings.Join(order, ", "))
		own[sp.from] -= cost
		own[sp.to] += sp.value
		if sp.from == sp.to && sp.value > 0 {
			selfBefore[sp.from] = true
			o.Count("selected-self-transfer")
		}
		if pos > 0 {
			o.Count("selected-after-others")
		}
	}
	// the balances the validator tracked while re-validating the list (wc2) are the true ones
	if verr == nil {
		for a := 0; a < c37Accounts; a++ {
			got := ws.GetAccountState(c37Wallet(a).Address().ID()).GetBalance()
			key := "cumulative-balance-mismatch"
			if selfBefore[a] {
				key = "cumulative-balance-mismatch-after-self-transfer"
			}
			o.Check(got.Cmp(big.NewInt(own[a])) == 0, key,
				"account %d: tracked balance after the candidates %s, true balance %d; balances %v price %d pool [%s]",
				a, got, own[a], bal, price, strings.Join(order, ", "))
		}
	}
	return sb.String()
}

func c37Bucket(n int) int {
	switch {
	case n == 0:
		return 0
	case n <= 2:
		return 2
	case n <= 5:
		return 5
	}
	return 9
}

func c37Gen(g *Gen) {
	for i := 0; i < g.N; i++ {
		if g.Intn(40) == 0 {
			g.Emit("%s", []string{"cand 1 2 3", "cand x", "frob", "cand 1000000 1000 1 0 0 0 1 1 1 1 1 1 -1 0", "cand 1000000 1000 1 0 0 0 1 1 1 1 1 1 0 2 1 1 0 1 1 1 1"}[g.Intn(5)])
			continue
		}
		bts := int64(1000000 + g.Intn(1000000))
		th := int64(g.Pick(1000, 2000, 5000))
		price := int64(g.Pick(0, 1, 1, 3, 10))
		minStep := int64(g.Pick(0, 0, 5, 10))
		var bal [c37Accounts]int64
		for a := range bal {
			bal[a] = int64(g.Pick(0, 1, 50, 100, 200, 500, 100000, g.Intn(300)))
		}
		nT := g.Pick(0, 1, 2, 3, 5, 8, 12)
		if g.Tier == "thorough" && g.Intn(10) == 0 {
			nT = 20 + g.Intn(20)
		}
		var specs []c37Spec
		for k := 0; k < nT; k++ {
			if len(specs) > 0 && g.Intn(8) == 0 {
				specs = append(specs, specs[g.Intn(len(specs))]) // same transaction offered twice
				continue
			}
			var ts int64
			switch g.Intn(10) {
			case 0:
				ts = bts + th
			case 1:
				ts = bts + th + 1
			case 2:
				ts = bts - th
			case 3:
				ts = bts - th + 1
			case 4:
				ts = bts - th - int64(g.Intn(500))
			default:
				ts = bts - th + 1 + int64(g.Intn(int(2*th)))
			}
			from := g.Intn(c37Accounts)
			if g.Intn(2) == 0 {
				from = g.Intn(2) // concentrate spending on few accounts: cumulative exhaustion
			}
			to := g.Intn(c37Accounts)
			switch g.Intn(6) {
			case 0:
				to = from // self-transfer
			case 1, 2:
				to = g.Intn(2) // to an account that is itself a busy sender
			}
			specs = append(specs, c37Spec{id: k + 1, ts: ts, from: from, to: to,
				value: int64(g.Pick(0, 1, 10, 50, 100, 200, g.Intn(120))), stepLimit: int64(g.Pick(0, 4, 5, 9, 10, 20))})
		}
		if g.Intn(6) == 0 {
			// self-transfer, then a spend of the same sender around what is really left
			// (and around balance+value), then a transfer back from the receiver
			sdr := g.Intn(2)
			sl := int64(g.Pick(0, 5, 10))
			if sl < minStep {
				sl = minStep
			}
			B := int64(g.Pick(100, 200, 500, 1000))
			bal[sdr] = B
			v := B/2 + int64(g.Intn(int(B/2))) - sl*price
			if v < 1 {
				v = 1
			}
			left := B - sl*price
			next := g.Pick(int(left-sl*price)-1, int(left-sl*price), int(left-sl*price)+1, int(left), int(left+v/2), int(B+v-sl*price), int(B+v))
			if next < 0 {
				next = 0
			}
			base := len(specs)
			t0 := bts - th + 1 + int64(g.Intn(int(th)))
			specs = append(specs,
				c37Spec{id: base + 1, ts: t0, from: sdr, to: sdr, value: v, stepLimit: sl},
				c37Spec{id: base + 2, ts: t0 + 1 + int64(g.Intn(5)), from: sdr, to: 1 - sdr, value: int64(next), stepLimit: sl},
				c37Spec{id: base + 3, ts: t0 + 7, from: 1 - sdr, to: sdr, value: int64(g.Intn(50)), stepLimit: sl})
		}
		var fin []int
		for _, s := range specs {
			if g.Intn(7) == 0 {
				fin = append(fin, s.id)
			}
		}
		size1 := 190
		if len(specs) > 0 {
			size1 = len(c37MakeTx(specs[0]).Bytes())
		}
		maxB := int64(g.Pick(0, 0, -1, size1-1, size1, size1+1, 2*size1+g.Intn(3)-1, 3*size1+g.Intn(40), 1<<20))
		maxC := int64(g.Pick(0, 0, -5, 1, 2, 3, 5, 1500))
		var sb strings.Builder
		fmt.Fprintf(&sb, "cand %d %d %d %d %d %d", bts, th, price, minStep, maxB, maxC)
		for _, b := range bal {
			fmt.Fprintf(&sb, " %d", b)
		}
		fmt.Fprintf(&sb, " %d", len(fin))
		for _, f := range fin {
			fmt.Fprintf(&sb, " %d", f)
		}
		fmt.Fprintf(&sb, " %d", len(specs))
		for _, s := range specs {
			fmt.Fprintf(&sb, " %d %d %d %d %d %d %d", s.id, s.ts, s.from, s.to, s.value, s.stepLimit, len(c37MakeTx(s).Bytes()))
		}
		g.Emit("%s", sb.String())
	}
}
