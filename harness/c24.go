//go:build c24 || all

package main

import (
	"bytes"
	"fmt"
	"math"
	"math/big"
	"regexp"
	"strconv"

	"github.com/icon-project/goloop/common"
	"github.com/icon-project/goloop/common/intconv"
)

func init() {
	Register(&Prop{ID: "C24", Gen: c24Gen, New: func() Runner { return &c24Runner{} }})
}

func c24Boundary(g *Gen) *big.Int {
	// values around every byte-length boundary, either sign
	k := g.Intn(80)
	v := new(big.Int).Lsh(big.NewInt(1), uint(k))
	if k%8 != 7 && k%8 != 0 && g.Intn(2) == 0 {
		// not at a byte boundary: also try k rounded
		v.Lsh(big.NewInt(1), uint(k/8*8+7*g.Intn(2)))
	}
	v.Add(v, big.NewInt(int64(g.Intn(5)-2)))
	if g.Intn(2) == 0 {
		v.Neg(v)
	}
	return v
}

func c24Big(g *Gen) *big.Int {
	if g.Intn(8) == 0 {
		// single-byte neighbourhood, repeated often within a run
		return big.NewInt(int64(g.Intn(300) - 150))
	}
	switch g.Intn(4) {
	case 0:
		return c24Boundary(g)
	case 1:
		return big.NewInt(int64(g.Intn(70000) - 35000))
	case 2:
		n := g.Intn(75) + 1
		v := new(big.Int).SetBytes(g.Bytes(n))
		if g.Intn(2) == 0 {
			v.Neg(v)
		}
		return v
	default:
		v := big.NewInt(int64(g.R.Uint64()))
		v.Rsh(v, uint(g.Intn(64)))
		return v
	}
}

func clampI64(v *big.Int) int64 {
	if v.IsInt64() {
		return v.Int64()
	}
	if v.Sign() < 0 {
		return math.MinInt64 + int64(v.Bits()[0]%3)
	}
	return math.MaxInt64 - int64(v.Bits()[0]%3)
}

func clampU64(v *big.Int) uint64 {
	a := new(big.Int).Abs(v)
	if a.IsUint64() {
		return a.Uint64()
	}
	return math.MaxUint64 - uint64(a.Bits()[0]%3)
}

func c24Gen(g *Gen) {
	for i := 0; i < g.N; i++ {
		switch g.Intn(16) {
		case 13:
			g.Emit("parse_big %s", c24Text(g, 0))
		case 14:
			bits := g.Pick(16, 32, 64)
			g.Emit("parse_int %d %s", bits, c24Text(g, bits))
		case 15:
			bits := g.Pick(16, 32, 64)
			g.Emit("parse_uint %d %s", bits, c24Text(g, bits))
		case 0:
			g.Emit("i64 %d", clampI64(c24Big(g)))
		case 1:
			g.Emit("u64 %d", clampU64(c24Big(g)))
		case 2:
			g.Emit("size %d", clampU64(c24Big(g)))
		case 3:
			g.Emit("big %s", c24Big(g).String())
		case 4, 5, 6, 7:
			// decoders on arbitrary (mostly short) byte strings, incl. non minimal
			n := g.Pick(0, 1, 2, 3, 7, 8, 9, 10, 1+g.Intn(12))
			b := g.Bytes(n)
			if n > 0 && g.Intn(3) == 0 {
				b[0] = byte(g.Pick(0, 0x7f, 0x80, 0xff))
			}
			if n > 1 && g.Intn(4) == 0 {
				b[1] = byte(g.Pick(0, 0x7f, 0x80, 0xff))
			}
			op := []string{"d_i64", "d_u64", "d_size", "d_big"}[g.Intn(4)]
			g.Emit("%s %s", op, hx(b))
		case 8:
			g.Emit("fmt_big %s", c24Big(g).String())
		case 9:
			g.Emit("fmt_i64 %d", clampI64(c24Big(g)))
		case 10:
			g.Emit("fmt_u64 %d", clampU64(c24Big(g)))
		default:
			v := c24Big(g)
			var s string
			switch g.Intn(6) {
			case 0, 1, 2:
				s = intconv.FormatBigInt(v)
			case 3:
				s = v.String()
			case 4:
				// leading zeros / upper-case digits
				s = intconv.FormatBigInt(v)
				if len(s) > 3 {
					neg := s[0] == '-'
					if neg {
						s = s[1:]
					}
					s = "0x" + "00"[:g.Intn(3)] + s[2:]
					if neg {
						s = "-" + s
					}
				}
			default:
				s = []string{"0x", "-", "-0x", "0xg", "12a", "0x-1"}[g.Intn(6)]
			}
			g.Emit("parse_big %s", s)
		}
	}
}

// c24Text: ASCII number-like text for the three parsers: formatted numbers
// (hex / decimal / other prefixes), then mutated: separators, signs, case,
// stray characters, values at the 16/32/64-bit range boundaries.
func c24Text(g *Gen, bits int) string {
	var v *big.Int
	if bits > 0 && g.Intn(10) < 6 {
		// in range for the width under test (any bit length up to bits)
		v = new(big.Int).SetUint64(g.R.Uint64() >> uint(63-g.Intn(bits)))
		if g.Intn(4) == 0 {
			v.Neg(v)
		}
		return c24Mutate(g, v)
	}
	switch g.Intn(4) {
	case 0:
		k := g.Pick(15, 16, 31, 32, 63, 64)
		v = new(big.Int).Lsh(big.NewInt(1), uint(k))
		v.Add(v, big.NewInt(int64(g.Intn(5)-2)))
		if g.Intn(2) == 0 {
			v.Neg(v)
		}
	default:
		v = c24Big(g)
	}
	return c24Mutate(g, v)
}

func c24Mutate(g *Gen, v *big.Int) string {
	neg := v.Sign() < 0
	a := new(big.Int).Abs(v)
	var body string
	switch g.Intn(8) {
	case 0, 1, 2:
		body = "0x" + a.Text(16)
	case 3:
		body = a.Text(10)
	case 4:
		body = []string{"0b", "0B", "0o", "0O", "0X", "0"}[g.Intn(6)] + a.Text(g.Pick(2, 8, 16, 8))
	case 5:
		body = "0X" + a.Text(16)
	case 6:
		body = "0" + a.Text(10)
	default:
		body = "0x" + a.Text(16)
	}
	bs := []byte(body)
	const alpha = "0123456789abcdefABCDEFxXoObB_+-gz.__00"
	for m := g.Pick(0, 0, 0, 1, 1, 2, 3); m > 0; m-- {
		switch g.Intn(5) {
		case 0: // insert a separator
			p := g.Intn(len(bs) + 1)
			bs = append(bs[:p], append([]byte{'_'}, bs[p:]...)...)
		case 1: // insert a stray char
			p := g.Intn(len(bs) + 1)
			bs = append(bs[:p], append([]byte{alpha[g.Intn(len(alpha))]}, bs[p:]...)...)
		case 2: // upper-case a char
			if len(bs) > 0 {
				p := g.Intn(len(bs))
				if bs[p] >= 'a' && bs[p] <= 'z' {
					bs[p] -= 32
				}
			}
		case 3: // delete a char
			if len(bs) > 0 {
				p := g.Intn(len(bs))
				bs = append(bs[:p], bs[p+1:]...)
			}
		default: // replace
			if len(bs) > 0 {
				bs[g.Intn(len(bs))] = alpha[g.Intn(len(alpha))]
			}
		}
	}
	sign := ""
	if neg {
		sign = "-"
	} else if g.Intn(8) == 0 {
		sign = "+"
	}
	if g.Intn(40) == 0 {
		sign += []string{"-", "+"}[g.Intn(2)]
	}
	res := sign + string(bs)
	if res == "" || g.Intn(60) == 0 {
		res = []string{"0", "-", "+", "_", "0x", "0_", "-0", "+0x_1", "0x_1", "1_000", "0_1", "0__1", "+012", "012", "1__0"}[g.Intn(15)]
	}
	return res
}

// canonical hex text: optional sign, 0x, no superfluous leading zero, lower case
// (the non-negative part is the jsonrpc validator's t_int pattern).
var c24HexMinimal = regexp.MustCompile(`\A-?0x(0|[1-9a-f][0-9a-f]*)\z`)

// c24Held is an encoder result recorded earlier in the run: the value's
// encoding must stay what it was, whatever callers did to returned slices since.
type c24Held struct {
	kind, val string
	want      []byte
	again     func() []byte
}

type c24Runner struct {
	held []c24Held
	next int
}

const c24HeldMax = 12

// own treats bs as what it is for every caller of the encoders: a buffer the
// caller owns.  It records the result, calls the encoder again (equal bytes,
// distinct memory), then overwrites the whole backing array of the first
// result (its spare capacity included = what an append would write) and
// appends to it, and checks that neither a fresh call nor any result held
// from earlier operations has changed.  Returns the wire form of the
// result as it was before the caller touched it.
func (r *c24Runner) own(o *Oracle, kind, val string, bs []byte, again func() []byte) string {
	out := hx(bs)
	want := append([]byte(nil), bs...)
	b2 := again()
	o.Check(bytes.Equal(b2, want), kind+"-encoder-not-deterministic", "%s(%s) = %x, then %x", kind, val, want, b2)
	if len(bs) > 0 && len(b2) > 0 {
		o.Check(&bs[0] != &b2[0], kind+"-encoder-results-share-memory", "two calls of %s(%s) return the same backing memory", kind, val)
	}
	if cap(bs) > len(bs) {
		o.Count(kind + "-spare-capacity")
	}
	full := bs[:cap(bs)]
	for i := range full {
		full[i] ^= 0xa5
	}
	bs = append(bs, 0xaa, 0xbb, 0xcc)
	for i := range bs {
		bs[i] = 0x5a
	}
	b3 := again()
	o.Check(bytes.Equal(b3, want), kind+"-encoder-result-aliases-shared-state", "after the caller overwrote/appended to an earlier result, %s(%s) = %x, want %x", kind, val, b3, want)
	for _, h := range r.held {
		got := h.again()
		o.Check(bytes.Equal(got, h.want), h.kind+"-encoding-changed-by-history", "%s(%s) was %x, is %x after later calls mutated their own results (last: %s %s)", h.kind, h.val, h.want, got, kind, val)
	}
	h := c24Held{kind: kind, val: val, want: want, again: again}
	if len(r.held) < c24HeldMax {
		r.held = append(r.held, h)
	} else {
		r.held[r.next%c24HeldMax] = h
	}
	r.next++
	return out
}

func (r *c24Runner) Step(t []string, o *Oracle) string {
	if len(t) == 3 && (t[0] == "parse_int" || t[0] == "parse_uint") {
		bits, err := strconv.Atoi(t[1])
		if err != nil || (bits != 16 && bits != 32 && bits != 64) {
			return "bad-op"
		}
		if t[0] == "parse_int" {
			v, err := intconv.ParseInt(t[2], bits)
			if err != nil {
				o.Count("parse_int-err")
				return "err"
			}
			o.Count("parse_int-ok")
			return fmt.Sprintf("ok %d", v)
		}
		v, err := intconv.ParseUint(t[2], bits)
		if err != nil {
			o.Count("parse_uint-err")
			return "err"
		}
		o.Count("parse_uint-ok")
		return fmt.Sprintf("ok %d", v)
	}
	if len(t) != 2 {
		return "bad-op"
	}
	arg := t[1]
	switch t[0] {
	case "i64":
		v, err := strconv.ParseInt(arg, 10, 64)
		if err != nil {
			return "bad-op"
		}
		bs := intconv.Int64ToBytes(v)
		// property oracle on the implementation: round trip + minimality
		back, ok := intconv.SafeBytesToInt64(bs)
		o.Check(ok && back == v, "i64-roundtrip", "Int64ToBytes(%d)=%x decodes to %d,%v", v, bs, back, ok)
		o.Check(minimalSigned(bs), "i64-minimal", "Int64ToBytes(%d)=%x not minimal", v, bs)
		return r.own(o, "Int64ToBytes", arg, bs, func() []byte { return intconv.Int64ToBytes(v) })
	case "u64":
		v, err := strconv.ParseUint(arg, 10, 64)
		if err != nil {
			return "bad-op"
		}
		bs := intconv.Uint64ToBytes(v)
		back, ok := intconv.SafeBytesToUint64(bs)
		o.Check(ok && back == v, "u64-roundtrip", "Uint64ToBytes(%d)=%x decodes to %d,%v", v, bs, back, ok)
		o.Check(minimalSigned(bs) && bs[0]&0x80 == 0, "u64-minimal", "Uint64ToBytes(%d)=%x not minimal", v, bs)
		return r.own(o, "Uint64ToBytes", arg, bs, func() []byte { return intconv.Uint64ToBytes(v) })
	case "size":
		v, err := strconv.ParseUint(arg, 10, 64)
		if err != nil {
			return "bad-op"
		}
		bs := intconv.SizeToBytes(v)
		back, ok := intconv.SafeBytesToSize64(bs)
		o.Check(ok && back == v, "size-roundtrip", "SizeToBytes(%d)=%x decodes to %d,%v", v, bs, back, ok)
		o.Check(len(bs) == 1 || bs[0] != 0, "size-minimal", "SizeToBytes(%d)=%x not minimal", v, bs)
		return r.own(o, "SizeToBytes", arg, bs, func() []byte { return intconv.SizeToBytes(v) })
	case "big":
		v, ok := new(big.Int).SetString(arg, 10)
		if !ok {
			return "bad-op"
		}
		bs := intconv.BigIntToBytes(v)
		back := intconv.BigIntSetBytes(new(big.Int), bs)
		o.Check(back.Cmp(v) == 0, "big-roundtrip", "BigIntToBytes(%s)=%x decodes to %s", v, bs, back)
		o.Check(minimalSigned(bs), "big-minimal", "BigIntToBytes(%s)=%x not minimal", v, bs)
		var h common.HexInt
		h.Set(v)
		var h2 common.HexInt
		h2.SetBytes(h.Bytes())
		o.Check(h2.Cmp(v) == 0, "hexint-bytes-roundtrip", "HexInt bytes round trip %s -> %s", v, &h2.Int)
		r.own(o, "HexInt.Bytes", arg, h.Bytes(), func() []byte { return h.Bytes() })
		o.Check(h.Cmp(v) == 0, "hexint-value-aliases-bytes", "HexInt %s changed to %s after its Bytes() were overwritten", v, &h.Int)
		if v.IsInt64() {
			// the same number through the int64 encoder (HexInt16.Bytes etc. use it)
			i := v.Int64()
			r.own(o, "Int64ToBytes", arg, intconv.Int64ToBytes(i), func() []byte { return intconv.Int64ToBytes(i) })
		}
		if v.Sign() == 0 {
			r.own(o, "BytesForZero", arg, intconv.BytesForZero(), intconv.BytesForZero)
		}
		out := r.own(o, "BigIntToBytes", arg, bs, func() []byte { return intconv.BigIntToBytes(v) })
		back2 := intconv.BigIntSetBytes(new(big.Int), unhx(out))
		o.Check(back2.Cmp(v) == 0 && v.String() == arg, "big-value-aliases-bytes", "big %s changed to %s after its bytes were overwritten", arg, v)
		return out
	case "d_i64":
		in := unhx(arg)
		v, ok := intconv.SafeBytesToInt64(in)
		o.Check(ok == (len(in) <= 8), "i64-decoder-accepts-iff-len-le-8", "SafeBytesToInt64(%x) ok=%v", in, ok)
		if !ok {
			o.Count("d_i64-reject")
			return "err"
		}
		if len(in) > 0 {
			enc := intconv.Int64ToBytes(v)
			o.Check(len(enc) <= len(in), "i64-encoder-not-shortest", "%x decodes to %d but Int64ToBytes gives longer %x", in, v, enc)
			o.Check(len(enc) != len(in) || string(enc) == string(in), "i64-encoding-not-unique", "%x and %x both decode to %d", in, enc, v)
		}
		return fmt.Sprintf("ok %d", v)
	case "d_u64":
		in := unhx(arg)
		v, ok := intconv.SafeBytesToUint64(in)
		if len(in) > 0 && in[0]&0x80 != 0 {
			o.Check(!ok, "u64-decoder-accepts-sign-bit", "SafeBytesToUint64(%x) accepted", in)
		}
		if len(in) > 9 || (len(in) == 9 && in[0] != 0) {
			o.Check(!ok, "u64-decoder-accepts-overlong", "SafeBytesToUint64(%x) accepted", in)
		}
		if !ok {
			o.Count("d_u64-reject")
			return "err"
		}
		if len(in) > 0 {
			enc := intconv.Uint64ToBytes(v)
			o.Check(len(enc) <= len(in), "u64-encoder-not-shortest", "%x decodes to %d but Uint64ToBytes gives longer %x", in, v, enc)
			o.Check(len(enc) != len(in) || string(enc) == string(in), "u64-encoding-not-unique", "%x and %x both decode to %d", in, enc, v)
		}
		return fmt.Sprintf("ok %d", v)
	case "d_size":
		v, ok := intconv.SafeBytesToSize64(unhx(arg))
		if !ok {
			return "err"
		}
		return fmt.Sprintf("ok %d", v)
	case "d_big":
		in := unhx(arg)
		v := intconv.BigIntSetBytes(new(big.Int), in)
		{
			// the caller owns (and may reuse) its input buffer after the call
			before := v.String()
			for i := range in {
				in[i] ^= 0xa5
			}
			o.Check(v.String() == before, "big-decoder-aliases-input", "BigIntSetBytes(%s) changed from %s to %s when the input buffer was reused", arg, before, v)
			in = unhx(arg)
		}
		if len(in) > 0 {
			enc := intconv.BigIntToBytes(v)
			o.Check(len(enc) <= len(in), "big-encoder-not-shortest", "%x decodes to %s but BigIntToBytes gives longer %x", in, v, enc)
			o.Check(len(enc) != len(in) || string(enc) == string(in), "big-encoding-not-unique", "%x and %x both decode to %s", in, enc, v)
		}
		return "ok " + v.String()
	case "fmt_big":
		v, ok := new(big.Int).SetString(arg, 10)
		if !ok {
			return "bad-op"
		}
		s := intconv.FormatBigInt(v)
		back := new(big.Int)
		err := intconv.ParseBigInt(back, s)
		o.Check(err == nil && back.Cmp(v) == 0, "hex-roundtrip", "FormatBigInt(%s)=%s parses to %s (%v)", v, s, back, err)
		o.Check(c24HexMinimal.MatchString(s) && (s[0] == '-') == (v.Sign() < 0), "hex-text-not-minimal", "FormatBigInt(%s)=%s has a superfluous leading zero / wrong sign / upper case", v, s)
		var h common.HexInt
		h.Set(v)
		js, _ := h.MarshalJSON()
		var h2 common.HexInt
		err = h2.UnmarshalJSON(js)
		o.Check(err == nil && h2.Cmp(v) == 0, "hexint-json-roundtrip", "HexInt JSON %s -> %s", js, &h2.Int)
		return s
	case "fmt_i64":
		v, err := strconv.ParseInt(arg, 10, 64)
		if err != nil {
			return "bad-op"
		}
		s := intconv.FormatInt(v)
		back, err := intconv.ParseInt(s, 64)
		o.Check(err == nil && back == v, "hex-roundtrip-i64", "FormatInt(%d)=%s parses to %d (%v)", v, s, back, err)
		o.Check(c24HexMinimal.MatchString(s) && (s[0] == '-') == (v < 0), "hex-text-not-minimal-i64", "FormatInt(%d)=%s", v, s)
		// the JSON wrappers of common/hexint.go at every width the value fits
		{
			js, _ := common.HexInt64{Value: v}.MarshalJSON()
			var h common.HexInt64
			o.Check(h.UnmarshalJSON(js) == nil && h.Value == v, "hexint64-json-roundtrip", "HexInt64 %d -> %s -> %d", v, js, h.Value)
		}
		if v >= math.MinInt32 && v <= math.MaxInt32 {
			js, _ := common.HexInt32{Value: int32(v)}.MarshalJSON()
			var h common.HexInt32
			o.Check(h.UnmarshalJSON(js) == nil && int64(h.Value) == v, "hexint32-json-roundtrip", "HexInt32 %d -> %s -> %d", v, js, h.Value)
		}
		if v >= math.MinInt16 && v <= math.MaxInt16 {
			js, _ := common.HexInt16{Value: int16(v)}.MarshalJSON()
			var h common.HexInt16
			o.Check(h.UnmarshalJSON(js) == nil && int64(h.Value) == v, "hexint16-json-roundtrip", "HexInt16 %d -> %s -> %d", v, js, h.Value)
		}
		return s
	case "fmt_u64":
		v, err := strconv.ParseUint(arg, 10, 64)
		if err != nil {
			return "bad-op"
		}
		s := intconv.FormatUint(v)
		back, err := intconv.ParseUint(s, 64)
		o.Check(err == nil && back == v, "hex-roundtrip-u64", "FormatUint(%d)=%s parses to %d (%v)", v, s, back, err)
		o.Check(c24HexMinimal.MatchString(s) && s[0] != '-', "hex-text-not-minimal-u64", "FormatUint(%d)=%s", v, s)
		{
			js, _ := common.HexUint64{Value: v}.MarshalJSON()
			var h common.HexUint64
			o.Check(h.UnmarshalJSON(js) == nil && h.Value == v, "hexuint64-json-roundtrip", "HexUint64 %d -> %s -> %d", v, js, h.Value)
		}
		if v <= math.MaxUint32 {
			js, _ := common.HexUint32{Value: uint32(v)}.MarshalJSON()
			var h common.HexUint32
			o.Check(h.UnmarshalJSON(js) == nil && uint64(h.Value) == v, "hexuint32-json-roundtrip", "HexUint32 %d -> %s -> %d", v, js, h.Value)
		}
		if v <= math.MaxUint16 {
			js, _ := common.HexUint16{Value: uint16(v)}.MarshalJSON()
			var h common.HexUint16
			o.Check(h.UnmarshalJSON(js) == nil && uint64(h.Value) == v, "hexuint16-json-roundtrip", "HexUint16 %d -> %s -> %d", v, js, h.Value)
		}
		return s
	case "parse_big":
		v := new(big.Int)
		if err := intconv.ParseBigInt(v, arg); err != nil {
			o.Count("parse_big-err")
			return "err"
		}
		o.Count("parse_big-ok")
		return "ok " + v.String()
	}
	return "bad-op"
}

// minimalSigned: a two's complement string is minimal when it is one byte or
// its first byte is not a pure sign extension of the second.
func minimalSigned(bs []byte) bool {
	if len(bs) == 0 {
		return false
	}
	if len(bs) == 1 {
		return true
	}
	if bs[0] == 0 && bs[1]&0x80 == 0 {
		return false
	}
	if bs[0] == 0xff && bs[1]&0x80 != 0 {
		return false
	}
	return true
}
