//go:build c24 || all

package main

import (
	"fmt"
	"math"
	"math/big"
	"strconv"

	"github.com/icon-project/goloop/common"
	"github.com/icon-project/goloop/common/intconv"
)

func init() {
	Register(&Prop{ID: "C24", Gen: c24Gen, New: func() Runner { return c24Runner{} }})
}

func c24Boundary(g *Gen) *big.Int {
	// values around every byte-length boundary, either sign
	k := g.Intn(80)
	v := new(big.Int).Lsh(big.NewInt(1), uint(k))
	if k%8 != 7 && k%8 != 0 && g.Intn(2) == 0 {
		// not at a byte boundary: also try k rounded
		v.Lsh(big.NewInt(1), uint(k/8*8+7*g.Intn(2)))
	}
	v.Add(v, big.NewInt(int64(g.Intn(5)-2)))
	if g.Intn(2) == 0 {
		v.Neg(v)
	}
	return v
}

func c24Big(g *Gen) *big.Int {
	switch g.Intn(4) {
	case 0:
		return c24Boundary(g)
	case 1:
		return big.NewInt(int64(g.Intn(70000) - 35000))
	case 2:
		n := g.Intn(75) + 1
		v := new(big.Int).SetBytes(g.Bytes(n))
		if g.Intn(2) == 0 {
			v.Neg(v)
		}
		return v
	default:
		v := big.NewInt(int64(g.R.Uint64()))
		v.Rsh(v, uint(g.Intn(64)))
		return v
	}
}

func clampI64(v *big.Int) int64 {
	if v.IsInt64() {
		return v.Int64()
	}
	if v.Sign() < 0 {
		return math.MinInt64 + int64(v.Bits()[0]%3)
	}
	return math.MaxInt64 - int64(v.Bits()[0]%3)
}

func clampU64(v *big.Int) uint64 {
	a := new(big.Int).Abs(v)
	if a.IsUint64() {
		return a.Uint64()
	}
	return math.MaxUint64 - uint64(a.Bits()[0]%3)
}

func c24Gen(g *Gen) {
	for i := 0; i < g.N; i++ {
		switch g.Intn(13) {
		case 0:
			g.Emit("i64 %d", clampI64(c24Big(g)))
		case 1:
			g.Emit("u64 %d", clampU64(c24Big(g)))
		case 2:
			g.Emit("size %d", clampU64(c24Big(g)))
		case 3:
			g.Emit("big %s", c24Big(g).String())
		case 4, 5, 6, 7:
			// decoders on arbitrary (mostly short) byte strings, incl. non minimal
			n := g.Pick(0, 1, 2, 3, 7, 8, 9, 10, 1+g.Intn(12))
			b := g.Bytes(n)
			if n > 0 && g.Intn(3) == 0 {
				b[0] = byte(g.Pick(0, 0x7f, 0x80, 0xff))
			}
			if n > 1 && g.Intn(4) == 0 {
				b[1] = byte(g.Pick(0, 0x7f, 0x80, 0xff))
			}
			op := []string{"d_i64", "d_u64", "d_size", "d_big"}[g.Intn(4)]
			g.Emit("%s %s", op, hx(b))
		case 8:
			g.Emit("fmt_big %s", c24Big(g).String())
		case 9:
			g.Emit("fmt_i64 %d", clampI64(c24Big(g)))
		case 10:
			g.Emit("fmt_u64 %d", clampU64(c24Big(g)))
		default:
			v := c24Big(g)
			var s string
			switch g.Intn(6) {
			case 0, 1, 2:
				s = intconv.FormatBigInt(v)
			case 3:
				s = v.String()
			case 4:
				// leading zeros / upper-case digits
				s = intconv.FormatBigInt(v)
				if len(s) > 3 {
					neg := s[0] == '-'
					if neg {
						s = s[1:]
					}
					s = "0x" + "00"[:g.Intn(3)] + s[2:]
					if neg {
						s = "-" + s
					}
				}
			default:
				s = []string{"0x", "-", "-0x", "0xg", "12a", "0x-1"}[g.Intn(6)]
			}
			g.Emit("parse_big %s", s)
		}
	}
}

type c24Runner struct{}

func (c24Runner) Step(t []string, o *Oracle) string {
	if len(t) != 2 {
		return "bad-op"
	}
	arg := t[1]
	switch t[0] {
	case "i64":
		v, err := strconv.ParseInt(arg, 10, 64)
		if err != nil {
			return "bad-op"
		}
		bs := intconv.Int64ToBytes(v)
		// property oracle on the implementation: round trip + minimality
		back, ok := intconv.SafeBytesToInt64(bs)
		o.Check(ok && back == v, "i64-roundtrip", "Int64ToBytes(%d)=%x decodes to %d,%v", v, bs, back, ok)
		o.Check(minimalSigned(bs), "i64-minimal", "Int64ToBytes(%d)=%x not minimal", v, bs)
		return hx(bs)
	case "u64":
		v, err := strconv.ParseUint(arg, 10, 64)
		if err != nil {
			return "bad-op"
		}
		bs := intconv.Uint64ToBytes(v)
		back, ok := intconv.SafeBytesToUint64(bs)
		o.Check(ok && back == v, "u64-roundtrip", "Uint64ToBytes(%d)=%x decodes to %d,%v", v, bs, back, ok)
		o.Check(minimalSigned(bs) && bs[0]&0x80 == 0, "u64-minimal", "Uint64ToBytes(%d)=%x not minimal", v, bs)
		return hx(bs)
	case "size":
		v, err := strconv.ParseUint(arg, 10, 64)
		if err != nil {
			return "bad-op"
		}
		bs := intconv.SizeToBytes(v)
		back, ok := intconv.SafeBytesToSize64(bs)
		o.Check(ok && back == v, "size-roundtrip", "SizeToBytes(%d)=%x decodes to %d,%v", v, bs, back, ok)
		o.Check(len(bs) == 1 || bs[0] != 0, "size-minimal", "SizeToBytes(%d)=%x not minimal", v, bs)
		return hx(bs)
	case "big":
		v, ok := new(big.Int).SetString(arg, 10)
		if !ok {
			return "bad-op"
		}
		bs := intconv.BigIntToBytes(v)
		back := intconv.BigIntSetBytes(new(big.Int), bs)
		o.Check(back.Cmp(v) == 0, "big-roundtrip", "BigIntToBytes(%s)=%x decodes to %s", v, bs, back)
		o.Check(minimalSigned(bs), "big-minimal", "BigIntToBytes(%s)=%x not minimal", v, bs)
		var h common.HexInt
		h.Set(v)
		var h2 common.HexInt
		h2.SetBytes(h.Bytes())
		o.Check(h2.Cmp(v) == 0, "hexint-bytes-roundtrip", "HexInt bytes round trip %s -> %s", v, &h2.Int)
		return hx(bs)
	case "d_i64":
		v, ok := intconv.SafeBytesToInt64(unhx(arg))
		if !ok {
			return "err"
		}
		return fmt.Sprintf("ok %d", v)
	case "d_u64":
		v, ok := intconv.SafeBytesToUint64(unhx(arg))
		if !ok {
			return "err"
		}
		return fmt.Sprintf("ok %d", v)
	case "d_size":
		v, ok := intconv.SafeBytesToSize64(unhx(arg))
		if !ok {
			return "err"
		}
		return fmt.Sprintf("ok %d", v)
	case "d_big":
		v := intconv.BigIntSetBytes(new(big.Int), unhx(arg))
		return "ok " + v.String()
	case "fmt_big":
		v, ok := new(big.Int).SetString(arg, 10)
		if !ok {
			return "bad-op"
		}
		s := intconv.FormatBigInt(v)
		back := new(big.Int)
		err := intconv.ParseBigInt(back, s)
		o.Check(err == nil && back.Cmp(v) == 0, "hex-roundtrip", "FormatBigInt(%s)=%s parses to %s (%v)", v, s, back, err)
		var h common.HexInt
		h.Set(v)
		js, _ := h.MarshalJSON()
		var h2 common.HexInt
		err = h2.UnmarshalJSON(js)
		o.Check(err == nil && h2.Cmp(v) == 0, "hexint-json-roundtrip", "HexInt JSON %s -> %s", js, &h2.Int)
		return s
	case "fmt_i64":
		v, err := strconv.ParseInt(arg, 10, 64)
		if err != nil {
			return "bad-op"
		}
		s := intconv.FormatInt(v)
		back, err := intconv.ParseInt(s, 64)
		o.Check(err == nil && back == v, "hex-roundtrip-i64", "FormatInt(%d)=%s parses to %d (%v)", v, s, back, err)
		return s
	case "fmt_u64":
		v, err := strconv.ParseUint(arg, 10, 64)
		if err != nil {
			return "bad-op"
		}
		s := intconv.FormatUint(v)
		back, err := intconv.ParseUint(s, 64)
		o.Check(err == nil && back == v, "hex-roundtrip-u64", "FormatUint(%d)=%s parses to %d (%v)", v, s, back, err)
		return s
	case "parse_big":
		v := new(big.Int)
		if err := intconv.ParseBigInt(v, arg); err != nil {
			return "err"
		}
		return "ok " + v.String()
	}
	return "bad-op"
}

// minimalSigned: a two's complement string is minimal when it is one byte or
// its first byte is not a pure sign extension of the second.
func minimalSigned(bs []byte) bool {
	if len(bs) == 0 {
		return false
	}
	if len(bs) == 1 {
		return true
	}
	if bs[0] == 0 && bs[1]&0x80 == 0 {
		return false
	}
	if bs[0] == 0xff && bs[1]&0x80 != 0 {
		return false
	}
	return true
}
