//go:build c26 || all

package main

import (
	"bytes"
	"fmt"
	"math/big"
	"sort"
	"strconv"
	"strings"

	"github.com/icon-project/goloop/common"
	"github.com/icon-project/goloop/common/db"
	"github.com/icon-project/goloop/module"
	"github.com/icon-project/goloop/service/txresult"
)

func init() {
	Register(&Prop{ID: "C26", Gen: c26Gen, New: func() Runner { return newC26Runner() }})
}

// ---------------------------------------------------------------- generator

type c26Pools struct {
	addrs [][]byte
	vals  [][]byte
}

func c26NewPools(g *Gen) *c26Pools {
	p := &c26Pools{}
	for i := 0; i < 6; i++ {
		a := g.Bytes(21)
		a[0] = byte(g.Intn(2))
		if i == 0 {
			a = make([]byte, 21)
			a[0] = 1
		}
		p.addrs = append(p.addrs, a)
	}
	for i := 0; i < 10; i++ {
		n := g.Pick(0, 1, 2, 3, 20, 21, 32, 33, 1+g.Intn(40), 135, 136, 137, 300)
		p.vals = append(p.vals, g.Bytes(n))
	}
	// event signature like values
	p.vals = append(p.vals, []byte("Transfer(Address,Address,int)"), []byte("ICXTransfer(Address,Address,int)"))
	return p
}

func (p *c26Pools) addr(g *Gen) []byte { return p.addrs[g.Intn(len(p.addrs))] }
func (p *c26Pools) val(g *Gen) []byte  { return p.vals[g.Intn(len(p.vals))] }

func (p *c26Pools) logArgs(g *Gen) string {
	n := g.Pick(0, 1, 1, 2, 2, 3, 4, 4, 5)
	var sb strings.Builder
	sb.WriteString(hx(p.addr(g)))
	for i := 0; i < n; i++ {
		sb.WriteByte(' ')
		if i > 0 && g.Intn(6) == 0 {
			sb.WriteString("nil")
		} else {
			sb.WriteString(hx(p.val(g)))
		}
	}
	return sb.String()
}

func c26Gen(g *Gen) {
	for i := 0; i < g.N; i++ {
		g.Emit("reset")
		p := c26NewPools(g)
		switch g.Intn(10) {
		case 8:
			// several different blooms compressed one after the other, results kept
			// (block header / receipts / TxShare keep compressed blooms), then used
			nb := 2 + g.Intn(5)
			for b := 1; b <= nb; b++ {
				for l := 0; l < 1+g.Intn(3); l++ {
					g.Emit("addlog %d %s", b, p.logArgs(g))
				}
			}
			for b := 1; b <= nb; b++ {
				g.Emit("comp %d", b)
			}
			for b := 1; b <= nb; b++ {
				g.Emit("copycomp 7 %d", b)
				g.Emit("contain 7 %d", b)
				g.Emit("qaddr 7 %s", hx(p.addr(g)))
			}
		case 9:
			// receipts finished before the receipt list is serialised (as a block does)
			nr := 1 + g.Intn(5)
			for r := 0; r < nr; r++ {
				for l := 0; l < g.Intn(3); l++ {
					g.Emit("rcptlog %s", p.logArgs(g))
				}
				g.Emit("rcptdone %s", []string{"pay", "pay", "pay", "plain", "nobloom"}[g.Intn(5)])
				if g.Intn(4) == 0 {
					g.Emit("comp %d", g.Intn(3)) // unrelated compression in between
				}
			}
			g.Emit("rcptcheck")
			if g.Intn(3) == 0 {
				g.Emit("rcptlog %s", p.logArgs(g))
				g.Emit("rcptdone pay")
				g.Emit("rcptcheck")
			}
		case 0, 1, 2, 3:
			// receipts 1..4 get logs, block bloom 0 merges them in a random order, queries
			nr := 1 + g.Intn(4)
			for r := 1; r <= nr; r++ {
				nl := g.Intn(4)
				for l := 0; l < nl; l++ {
					g.Emit("addlog %d %s", r, p.logArgs(g))
				}
			}
			order := g.R.Perm(nr)
			for _, r := range order {
				g.Emit("merge 0 %d", r+1)
				if g.Intn(3) == 0 {
					g.Emit("merge 0 %d", 1+g.Intn(nr)) // idempotence / repeated merge
				}
			}
			// a second aggregation in another order and tree shape
			order = g.R.Perm(nr)
			for k, r := range order {
				if k%2 == 0 {
					g.Emit("merge 5 %d", r+1)
				} else {
					g.Emit("merge 6 %d", r+1)
				}
			}
			g.Emit("merge 6 5")
			g.Emit("contain 6 0")
			g.Emit("contain 0 6")
			for q := 0; q < 6; q++ {
				switch g.Intn(3) {
				case 0:
					g.Emit("qaddr %d %s", g.Pick(0, 6, 1+g.Intn(nr)), hx(p.addr(g)))
				case 1:
					g.Emit("qidx %d %d %s", g.Pick(0, 6, 1+g.Intn(nr)), g.Intn(5), hx(p.val(g)))
				default:
					g.Emit("contain %d %d", g.Intn(7), g.Intn(7))
				}
			}
			g.Emit("comp 0")
			g.Emit("copycomp 7 0")
			g.Emit("contain 7 0")
			g.Emit("qaddr 7 %s", hx(p.addr(g)))
			g.Emit("qidx 7 %d %s", g.Intn(5), hx(p.val(g)))
			if g.Intn(2) == 0 {
				g.Emit("logbytes 0")
			}
		case 4:
			// single item adds with large / wrapping positions, queries at other positions
			for k := 0; k < 6; k++ {
				if g.Intn(3) == 0 {
					g.Emit("addaddr %d %s", g.Intn(3), hx(p.addr(g)))
				} else {
					g.Emit("addidx %d %d %s", g.Intn(3), g.Pick(0, 1, 2, 3, 4, 254, 255, 256, 257, 511), hx(p.val(g)))
				}
			}
			for q := 0; q < 5; q++ {
				g.Emit("qidx %d %d %s", g.Intn(3), g.Pick(0, 1, 2, 3, 4, 255, 256), hx(p.val(g)))
			}
			g.Emit("merge 0 1")
			g.Emit("merge 0 2")
			g.Emit("copycomp 3 0")
			g.Emit("contain 3 0")
		case 5:
			// dense blooms: many logs, so that compression is non trivial and false positives appear
			nl := 20 + g.Intn(200)
			if g.Tier == "thorough" && g.Intn(3) == 0 {
				nl = 600 + g.Intn(600)
			}
			for l := 0; l < nl; l++ {
				a := g.Bytes(21)
				a[0] &= 1
				g.Emit("addlog %d %s %s %s", g.Intn(2), hx(a), hx(g.Bytes(1+g.Intn(32))), hx(g.Bytes(g.Intn(33))))
			}
			g.Emit("merge 0 1")
			g.Emit("comp 0")
			g.Emit("copycomp 2 0")
			g.Emit("contain 2 0")
			g.Emit("contain 0 2")
			for q := 0; q < 8; q++ {
				g.Emit("qidx 2 %d %s", g.Intn(3), hx(g.Bytes(1+g.Intn(4))))
			}
			g.Emit("logbytes 2")
		case 6:
			// arbitrary big integers as blooms (also wider than 2048 bits), subset tests, bytes
			for k := 0; k < 4; k++ {
				n := g.Pick(0, 1, 7, 8, 9, 16, 255, 256, 257, 300, g.Intn(300))
				b := g.Bytes(n)
				if n > 0 && g.Intn(2) == 0 {
					b[0] = byte(g.Pick(0, 1, 0x80, 0xff))
				}
				if g.Intn(3) == 0 {
					for j := range b {
						b[j] &= byte(g.Pick(0x01, 0x10, 0x81, 0x00))
					}
				}
				g.Emit("setbytes %d %s", k, hx(b))
			}
			g.Emit("merge 4 0")
			g.Emit("merge 4 1")
			for q := 0; q < 6; q++ {
				g.Emit("contain %d %d", g.Intn(5), g.Intn(5))
			}
			g.Emit("logbytes %d", g.Intn(5))
			g.Emit("comp %d", g.Intn(5))
			g.Emit("copycomp 5 4")
			g.Emit("contain 5 4")
		default:
			// compressed forms from outside: valid, empty, corrupted
			g.Emit("addlog 0 %s", p.logArgs(g))
			g.Emit("addlog 0 %s", p.logArgs(g))
			z := common.Compress(c26Sparse(g))
			if len(z) > 0 && g.Intn(2) == 0 {
				z = append([]byte{}, z...)
				z[g.Intn(len(z))] ^= byte(1 << uint(g.Intn(8)))
			}
			g.Emit("fromcomp 1 %s", hx(z))
			g.Emit("fromcomp 2 -")
			g.Emit("merge 1 0")
			g.Emit("contain 1 0")
			g.Emit("contain 2 0")
			g.Emit("contain 0 2")
			g.Emit("comp 1")
		}
	}
}

// c26Sparse: bloom sized sparse bytes
func c26Sparse(g *Gen) []byte {
	b := make([]byte, g.Pick(1, 32, 255, 256, 256, 256))
	for i := 0; i < g.Pick(1, 3, 9, 60); i++ {
		k := g.Intn(len(b) * 8)
		b[k/8] |= 1 << uint(k%8)
	}
	for len(b) > 0 && b[0] == 0 {
		b = b[1:]
	}
	return b
}

// ---------------------------------------------------------------- runner

type c26Item struct {
	isAddr bool
	addr   common.Address
	pos    int
	val    []byte
	q      *txresult.LogsBloom // cached single item bloom (filled by put)
}

func c26Put(m map[string]c26Item, it c26Item) {
	k := it.key()
	if _, ok := m[k]; ok {
		return
	}
	it.q = it.bloom()
	m[k] = it
}

func (it c26Item) key() string {
	if it.isAddr {
		return "a" + string(it.addr[:])
	}
	return fmt.Sprintf("i%d:%s", it.pos, it.val)
}

func (it c26Item) bloom() *txresult.LogsBloom {
	lb := txresult.NewLogsBloom(nil)
	if it.isAddr {
		lb.AddAddressOfLog(&it.addr)
	} else {
		lb.AddIndexedOfLog(it.pos, it.val)
	}
	return lb
}

func (it c26Item) String() string {
	if it.isAddr {
		return fmt.Sprintf("address %x", it.addr[:])
	}
	return fmt.Sprintf("indexed[%d]=%x", it.pos, it.val)
}

// c26Foreign is a module.LogsBloom that is not a *txresult.LogsBloom, to take
// the Bytes() based paths of Merge and Contain.
type c26Foreign struct{ *txresult.LogsBloom }

// c26Held is a compressed bloom that a caller keeps (as a receipt, a block
// header or a TxShare message does) while other blooms are compressed.
type c26Held struct {
	z     []byte    // the slice exactly as CompressedBytes() returned it
	cp    []byte    // copy taken at that moment
	want  []byte    // Bytes() of the bloom it came from, at that moment
	items []c26Item // (some of) the items that bloom held
	from  string
}

// c26Rcpt is a finished receipt kept until the receipt list is serialised.
type c26Rcpt struct {
	r     txresult.Receipt
	want  []byte
	items []c26Item
	mode  string
}

const c26MaxHeld = 12

type c26Runner struct {
	slots [8]*txresult.LogsBloom
	items [8]map[string]c26Item
	n     int
	held  []c26Held
	// receipts
	dbase  db.Database
	pend   txresult.Receipt
	pitems map[string]c26Item
	rcpts  []c26Rcpt
}

func c26SomeItems(m map[string]c26Item, max int) []c26Item {
	keys := make([]string, 0, len(m))
	for k := range m {
		keys = append(keys, k)
	}
	sort.Strings(keys)
	if len(keys) > max {
		keys = keys[:max]
	}
	res := make([]c26Item, 0, len(keys))
	for _, k := range keys {
		res = append(res, m[k])
	}
	return res
}

// hold keeps a compressed form for later; the oldest one is dropped when full.
func (r *c26Runner) hold(z []byte, lb *txresult.LogsBloom, items map[string]c26Item, from string) {
	h := c26Held{z: z, cp: append([]byte{}, z...), want: append([]byte{}, lb.Bytes()...), items: c26SomeItems(items, 8), from: from}
	if len(r.held) >= c26MaxHeld {
		copy(r.held, r.held[1:])
		r.held = r.held[:len(r.held)-1]
	}
	r.held = append(r.held, h)
}

// verifyHeld: every compressed bloom still held must be byte for byte what was
// returned, must decompress to the bloom it came from and report its items.
func (r *c26Runner) verifyHeld(o *Oracle) {
	for i := range r.held {
		h := &r.held[i]
		o.Check(bytes.Equal(h.z, h.cp), "held-compressed-bytes-changed", "compressed bloom returned earlier (%s) changed while held: now %x, was %x", h.from, h.z, h.cp)
		back := txresult.NewLogsBloomFromCompressed(h.z)
		o.Check(bytes.Equal(back.Bytes(), h.want), "held-compressed-bloom-differs", "held compressed bloom (%s) decompresses to %x, want %x", h.from, back.Bytes(), h.want)
		for _, it := range h.items {
			o.Check(back.Contain(it.q), "bloom-false-negative-after-compress", "held compressed bloom (%s) after decompress does not contain %v", h.from, it)
		}
	}
}

func (r *c26Runner) Step(t []string, o *Oracle) string {
	var res string
	if len(t) > 0 && strings.HasPrefix(t[0], "rcpt") {
		res = r.stepReceipt(t, o)
	} else {
		res = r.step(t, o)
	}
	r.verifyHeld(o)
	return res
}

func (r *c26Runner) stepReceipt(t []string, o *Oracle) string {
	switch t[0] {
	case "rcptlog":
		if len(t) < 2 {
			return "bad-op"
		}
		a, ok := c26Addr(unhx(t[1]))
		if !ok {
			return "bad-op"
		}
		var log [][]byte
		for _, s := range t[2:] {
			if s == "nil" {
				log = append(log, nil)
			} else {
				log = append(log, unhx(s))
			}
		}
		if r.pend == nil {
			r.pend = txresult.NewReceipt(r.dbase, module.LatestRevision, &a)
			r.pitems = map[string]c26Item{}
		}
		r.pend.AddLog(&a, log, nil)
		if len(log) > 0 {
			c26Put(r.pitems, c26Item{isAddr: true, addr: a})
			for i, v := range log {
				if v != nil {
					c26Put(r.pitems, c26Item{pos: i, val: v})
				}
			}
		}
		return hx(r.pend.LogsBloom().Bytes())
	case "rcptdone":
		if len(t) != 2 || (t[1] != "pay" && t[1] != "plain" && t[1] != "nobloom") {
			return "bad-op"
		}
		if r.pend == nil {
			var a common.Address
			r.pend = txresult.NewReceipt(r.dbase, module.LatestRevision, &a)
			r.pitems = map[string]c26Item{}
		}
		rc := r.pend
		switch t[1] {
		case "pay":
			var payer common.Address
			payer[0] = 1
			payer[20] = byte(len(r.rcpts) + 1)
			rc.AddPayment(&payer, big.NewInt(100), big.NewInt(100))
		case "nobloom":
			rc.DisableLogsBloom()
			r.pitems = map[string]c26Item{}
		}
		rc.SetResult(module.StatusSuccess, big.NewInt(100), big.NewInt(1000), nil)
		want := append([]byte{}, rc.LogsBloom().Bytes()...)
		r.rcpts = append(r.rcpts, c26Rcpt{r: rc, want: want, items: c26SomeItems(r.pitems, 16), mode: t[1]})
		r.pend, r.pitems = nil, nil
		o.Count("receipt-" + t[1])
		return hx(want)
	case "rcptcheck":
		if len(t) != 1 {
			return "bad-op"
		}
		if len(r.rcpts) == 0 {
			return "none"
		}
		list := make([]txresult.Receipt, len(r.rcpts))
		for i := range r.rcpts {
			list[i] = r.rcpts[i].r
		}
		rl := txresult.NewReceiptListFromSlice(r.dbase, list)
		if err := rl.Flush(); err != nil {
			return "err"
		}
		rl2 := txresult.NewReceiptListFromHash(r.dbase, rl.Hash())
		outs := make([]string, len(r.rcpts))
		for i := range r.rcpts {
			rc2, err := rl2.Get(i)
			if err != nil {
				o.Check(false, "receipt-not-restored", "receipt %d of %d cannot be read back: %v", i, len(r.rcpts), err)
				outs[i] = "err"
				continue
			}
			lb := rc2.LogsBloom()
			o.Check(bytes.Equal(lb.Bytes(), r.rcpts[i].want), "receipt-bloom-changed-by-serialization", "receipt %d (%s) of %d: bloom after serialization %x, before %x", i, r.rcpts[i].mode, len(r.rcpts), lb.Bytes(), r.rcpts[i].want)
			for _, it := range r.rcpts[i].items {
				o.Check(lb.Contain(it.q), "bloom-false-negative-after-serialization", "receipt %d (%s) of %d read back from the receipt list does not contain %v", i, r.rcpts[i].mode, len(r.rcpts), it)
			}
			outs[i] = hx(lb.Bytes())
		}
		o.Count("receipt-list-check")
		return strings.Join(outs, ",")
	}
	return "bad-op"
}

func newC26Runner() *c26Runner {
	r := &c26Runner{dbase: db.NewMapDB()}
	for i := range r.slots {
		r.slots[i] = txresult.NewLogsBloom(nil)
		r.items[i] = map[string]c26Item{}
	}
	return r
}

func c26Slot(s string) int {
	k, err := strconv.Atoi(s)
	if err != nil || k < 0 || k >= 8 {
		return -1
	}
	return k
}

func c26Addr(b []byte) (common.Address, bool) {
	var a common.Address
	if len(b) != len(a) {
		return a, false
	}
	copy(a[:], b)
	return a, true
}

// arg selects between passing the concrete type and a foreign implementation.
func (r *c26Runner) arg(lb *txresult.LogsBloom) module.LogsBloom {
	r.n++
	if r.n%3 == 0 {
		return c26Foreign{lb}
	}
	return lb
}

// oracle: everything ever added to slot k must be reported as possibly present,
// directly and after a compress/decompress round trip.
func (r *c26Runner) checkSlot(k int, o *Oracle) {
	lb := r.slots[k]
	if len(r.items[k]) == 0 {
		return
	}
	z := lb.CompressedBytes()
	r.hold(z, lb, r.items[k], fmt.Sprintf("slot %d after op %d", k, r.n))
	back := txresult.NewLogsBloomFromCompressed(z)
	o.Check(back.Equal(lb), "bloom-compress-roundtrip", "slot %d: FromCompressed(CompressedBytes()) = %x, want %x", k, back.Bytes(), lb.Bytes())
	for _, it := range r.items[k] {
		q := it.q
		o.Check(lb.Contain(r.arg(q)), "bloom-false-negative", "slot %d does not contain %v", k, it)
		o.Check(back.Contain(q), "bloom-false-negative-after-compress", "slot %d after compress/decompress does not contain %v", k, it)
	}
}

func (r *c26Runner) step(t []string, o *Oracle) string {
	if len(t) < 2 {
		return "bad-op"
	}
	k := c26Slot(t[1])
	if k < 0 {
		return "bad-op"
	}
	lb := r.slots[k]
	switch t[0] {
	case "addlog":
		if len(t) < 3 {
			return "bad-op"
		}
		a, ok := c26Addr(unhx(t[2]))
		if !ok {
			return "bad-op"
		}
		var log [][]byte
		for _, s := range t[3:] {
			if s == "nil" {
				log = append(log, nil)
			} else {
				log = append(log, unhx(s))
			}
		}
		lb.AddLog(&a, log)
		if len(log) > 0 {
			c26Put(r.items[k], c26Item{isAddr: true, addr: a})
			for i, v := range log {
				if v != nil {
					c26Put(r.items[k], c26Item{pos: i, val: v})
				}
			}
			o.Count("addlog")
		} else {
			o.Count("addlog-empty")
		}
		r.checkSlot(k, o)
		return hx(lb.Bytes())
	case "addaddr":
		if len(t) != 3 {
			return "bad-op"
		}
		a, ok := c26Addr(unhx(t[2]))
		if !ok {
			return "bad-op"
		}
		lb.AddAddressOfLog(&a)
		c26Put(r.items[k], c26Item{isAddr: true, addr: a})
		r.checkSlot(k, o)
		return hx(lb.Bytes())
	case "addidx":
		if len(t) != 4 {
			return "bad-op"
		}
		i, err := strconv.Atoi(t[2])
		if err != nil || i < 0 {
			return "bad-op"
		}
		v := unhx(t[3])
		lb.AddIndexedOfLog(i, v)
		// the position is stored as byte(i): the item that is present is (i mod 256, v)
		c26Put(r.items[k], c26Item{pos: i, val: v})
		r.checkSlot(k, o)
		return hx(lb.Bytes())
	case "merge":
		if len(t) != 3 {
			return "bad-op"
		}
		j := c26Slot(t[2])
		if j < 0 {
			return "bad-op"
		}
		lb.Merge(r.arg(r.slots[j]))
		for key, it := range r.items[j] {
			r.items[k][key] = it
		}
		o.Count("merge")
		r.checkSlot(k, o)
		// the merged bloom contains both operands
		o.Check(lb.Contain(r.slots[j]), "merge-contains-operand", "slot %d after Merge(slot %d) does not contain it", k, j)
		return hx(lb.Bytes())
	case "contain":
		if len(t) != 3 {
			return "bad-op"
		}
		j := c26Slot(t[2])
		if j < 0 {
			return "bad-op"
		}
		res := lb.Contain(r.arg(r.slots[j]))
		// independent evaluation of the subset relation on the byte forms
		want := c26Subset(r.slots[j].Bytes(), lb.Bytes())
		o.Check(res == want, "contain-is-subset", "Contain=%v but bitwise subset=%v (a=%x b=%x)", res, want, lb.Bytes(), r.slots[j].Bytes())
		o.Count("contain-" + strconv.FormatBool(res))
		return strconv.FormatBool(res)
	case "qaddr":
		if len(t) != 3 {
			return "bad-op"
		}
		a, ok := c26Addr(unhx(t[2]))
		if !ok {
			return "bad-op"
		}
		it := c26Item{isAddr: true, addr: a}
		res := lb.Contain(r.arg(it.bloom()))
		if _, present := r.items[k][it.key()]; present {
			o.Check(res, "bloom-false-negative", "slot %d does not contain %v", k, it)
			o.Count("query-present")
		} else if res {
			o.Count("query-false-positive")
		} else {
			o.Count("query-absent")
		}
		return strconv.FormatBool(res)
	case "qidx":
		if len(t) != 4 {
			return "bad-op"
		}
		i, err := strconv.Atoi(t[2])
		if err != nil || i < 0 {
			return "bad-op"
		}
		it := c26Item{pos: i, val: unhx(t[3])}
		res := lb.Contain(r.arg(it.bloom()))
		if _, present := r.items[k][it.key()]; present {
			o.Check(res, "bloom-false-negative", "slot %d does not contain %v", k, it)
			o.Count("query-present")
		} else if res {
			o.Count("query-false-positive")
		} else {
			o.Count("query-absent")
		}
		return strconv.FormatBool(res)
	case "comp":
		z := lb.CompressedBytes()
		r.hold(z, lb, r.items[k], fmt.Sprintf("comp %d", k))
		back := txresult.NewLogsBloomFromCompressed(z)
		o.Check(back.Equal(lb), "bloom-compress-roundtrip", "slot %d: FromCompressed(CompressedBytes()) = %x, want %x", k, back.Bytes(), lb.Bytes())
		o.Count("comp")
		return hx(z)
	case "copycomp":
		if len(t) != 3 {
			return "bad-op"
		}
		j := c26Slot(t[2])
		if j < 0 {
			return "bad-op"
		}
		zj := r.slots[j].CompressedBytes()
		r.hold(zj, r.slots[j], r.items[j], fmt.Sprintf("copycomp %d %d", k, j))
		nb := txresult.NewLogsBloomFromCompressed(zj)
		r.slots[k] = nb
		r.items[k] = map[string]c26Item{}
		for key, it := range r.items[j] {
			r.items[k][key] = it
		}
		o.Check(nb.Equal(r.slots[j]) && bytes.Equal(nb.Bytes(), r.slots[j].Bytes()), "bloom-compress-roundtrip", "copy of slot %d through compressed form differs", j)
		r.checkSlot(k, o)
		return hx(nb.Bytes())
	case "fromcomp":
		if len(t) != 3 {
			return "bad-op"
		}
		nb := txresult.NewLogsBloomFromCompressed(unhx(t[2]))
		r.slots[k] = nb
		r.items[k] = map[string]c26Item{}
		return hx(nb.Bytes())
	case "setbytes":
		if len(t) != 3 {
			return "bad-op"
		}
		nb := txresult.NewLogsBloom(unhx(t[2]))
		r.slots[k] = nb
		r.items[k] = map[string]c26Item{}
		return hx(nb.Bytes())
	case "logbytes":
		return hx(lb.LogBytes())
	}
	return "bad-op"
}

// c26Subset: every bit set in big-endian number a is set in b.
func c26Subset(a, b []byte) bool {
	for len(a) > 0 && a[0] == 0 {
		a = a[1:]
	}
	if len(a) > len(b) {
		return false
	}
	off := len(b) - len(a)
	for i := range a {
		if a[i]&^b[off+i] != 0 {
			return false
		}
	}
	return true
}
