//go:build c07 || all

package main

// C07: imported blocks extend their parent with consistent height, link and time.
//
// Real code: a test.Node (real block manager, real service manager, MapDB) whose
// genesis names NVAL validators whose wallets the harness owns. Candidate blocks
// are made from a block proposed by the same block manager (block.FormatFromBlock),
// with Height / PrevID / Timestamp / Votes overwritten, re-encoded, decoded through
// BlockManager.NewBlockDataFromReader and given to BlockManager.ImportBlock.
//
// Ops (a case = the ops between `reset`s):
//   new NVAL
//   cand P DH PREV VER VT CLS VOTES TS NV
//        P     intended parent: index into the list of accepted blocks (mod its length; -1 = newest, -2 = parent of the newest)
//        DH    height = P.height + 1 + DH
//        PREV  par | n<k> (id of accepted block k mod len) | rand (32 random-looking bytes)
//        VER   value returned by candidate.Version()
//        VT    block the votes sign: par | n<k>
//        CLS   ok (distinct validators) | dup (votes 0 and 1 by the same validator) | str (vote 0 by a non validator)
//        VOTES - | comma separated vote timestamps: offset relative to P.timestamp, or =ABS
//        TS    m<off> (median+off) | p<off> (P.timestamp+off) | a<abs>
//        NV    - | k: the candidate carries a transaction that sets the state's next block version to k
//              (the version required of a block is the one recorded in its PARENT's result, i.e. it
//              changes for the grandchildren of the block that carries the transaction)
//   sib DTS DH VER   the candidate of the last cand op again (same parent id, same commit vote bytes, same
//            body) with timestamp+DTS, height+DH and Version() = VER: siblings that differ in one field only
//   fin K    Finalize accepted block K (mod len; -1 = newest)
//   finup    Finalize the ancestor-or-self of the newest accepted block whose parent is the last finalized block
//
// Output of cand: "<verdict> h=<height> ts=<timestamp> med=<votes.Timestamp()> P=<P.height>/<P.timestamp>"
// with every number read back from the real decoded objects.

import (
	"bytes"
	"crypto/sha256"
	"encoding/binary"
	"fmt"
	"io"
	"math/big"
	"os"
	"sort"
	"strconv"
	"strings"
	"time"

	"github.com/icon-project/goloop/block"
	"github.com/icon-project/goloop/chain/base"
	"github.com/icon-project/goloop/common/codec"
	"github.com/icon-project/goloop/common/log"
	"github.com/icon-project/goloop/common/wallet"
	"github.com/icon-project/goloop/consensus"
	"github.com/icon-project/goloop/module"
	"github.com/icon-project/goloop/test"
)

func init() {
	Register(&Prop{ID: "C07", Gen: c07Gen, New: c07New})
}

// ---------------------------------------------------------------- testing.T shim

type c07T struct{ errs []string }

func (t *c07T) Errorf(format string, args ...interface{}) {
	t.errs = append(t.errs, fmt.Sprintf(format, args...))
}
func (t *c07T) Logf(format string, args ...any) {}

// ---------------------------------------------------------------- runner

// c07SM is the fixture's service manager, except that GetNextBlockVersion can also answer for
// results that are not finalized yet (the real one reads the state from the database, where the
// state of an imported but unfinalized block is not flushed, and silently falls back to the
// default version). The table holds, per block result, the value the real service manager
// returns for that result once it is finalized (checked by the oracle at every Finalize).
type c07SM struct {
	module.ServiceManager
	ver map[string]int
}

func (s *c07SM) GetNextBlockVersion(result []byte) int {
	if v, ok := s.ver[string(result)]; ok {
		return v
	}
	return s.ServiceManager.GetNextBlockVersion(result)
}

type c07Node struct {
	sv     int // next-block-version variable in the state of blk.Result() (0 = unset)
	txnv   int // version set by a transaction this block carries (0 = none)
	blk    module.Block
	cand   module.BlockCandidate
	parent int
	alive  bool
	hf     *block.V2HeaderFormat // template of a valid child (lazily proposed)
	bf     *block.V2BodyFormat
}

type c07Runner struct {
	t       *c07T
	nd      *test.Node
	sm      *c07SM
	wallets []module.Wallet
	strange module.Wallet
	nodes   []*c07Node
	byID    map[string]int
	fin     int
	serial  int
	last    *c07Built
}

var c07Current *c07Runner

func c07New() Runner {
	if os.Getenv("VERIF_DEBUG") != "2" {
		log.GlobalLogger().SetOutput(io.Discard)
		log.GlobalLogger().SetLevel(log.PanicLevel)
	}
	if c07Current != nil {
		c07Current.close()
	}
	c07Current = &c07Runner{}
	return c07Current
}

func (r *c07Runner) close() {
	if r.nd != nil {
		func() {
			defer func() { recover() }()
			r.nd.Close()
		}()
		r.nd = nil
	}
}

func c07Quiet(f func()) {
	if os.Getenv("VERIF_DEBUG") == "2" {
		f()
		return
	}
	old := os.Stderr
	if dn, err := os.OpenFile(os.DevNull, os.O_WRONLY, 0); err == nil {
		os.Stderr = dn
		defer func() { os.Stderr = old }()
	}
	f()
}

func (r *c07Runner) start(nval int) string {
	r.close()
	r.t = &c07T{}
	r.wallets = make([]module.Wallet, nval)
	var vs []string
	for i := range r.wallets {
		r.wallets[i] = wallet.New()
		vs = append(vs, fmt.Sprintf(`"%s"`, r.wallets[i].Address()))
	}
	r.strange = wallet.New()
	gs := fmt.Sprintf(`{
		"accounts": [
			{"name": "treasury", "address": "hx1000000000000000000000000000000000000000", "balance": "0x0"},
			{"name": "god", "address": "hx0000000000000000000000000000000000000000", "balance": "0x0"}
		],
		"message": "",
		"nid": "0x1",
		"chain": {"validatorList": [ %s ]}
	}`, strings.Join(vs, ", "))
	c07Quiet(func() {
		r.nd = test.NewNode(r.t, test.UseGenesis(gs), test.UseSMFactory(func(ctx *test.NodeContext) module.ServiceManager {
			r.sm = &c07SM{test.NewServiceManager(ctx.C, ctx.Platform, ctx.CM, ctx.EM), map[string]int{}}
			return r.sm
		}))
	})
	if len(r.t.errs) > 0 {
		return "harness-error:newnode:" + c07Short(r.t.errs[0])
	}
	g := r.nd.GetLastBlock()
	r.nodes = []*c07Node{{blk: g, parent: -1, alive: true}}
	r.byID = map[string]int{string(g.ID()): 0}
	r.fin = 0
	r.serial = 0
	r.last = nil
	return fmt.Sprintf("ok %d", nval)
}

var c07Dbg = os.Stderr

func c07Debug(f string, a ...interface{}) {
	if os.Getenv("VERIF_DEBUG") != "" {
		fmt.Fprintf(c07Dbg, "c07: "+f+"\n", a...)
	}
}

func c07Short(s string) string {
	s = strings.Join(strings.Fields(s), "_")
	if len(s) > 80 {
		s = s[:80]
	}
	return s
}

type c07Res struct {
	bc  module.BlockCandidate
	err error
}

func (r *c07Runner) votesFor(target module.Block, tss []int64, cls string, round int32) module.CommitVoteSet {
	if len(tss) == 0 {
		cvl := consensus.NewEmptyCommitVoteList().(*consensus.CommitVoteList)
		cvl.Round = round
		return cvl
	}
	msgs := make([]*consensus.VoteMessage, len(tss))
	n := len(r.wallets)
	for i, ts := range tss {
		w := r.wallets[(int(round)+i)%n]
		if cls == "dup" && i == 1 {
			w = r.wallets[int(round)%n]
		}
		if cls == "str" && i == 0 {
			w = r.strange
		}
		msgs[i] = consensus.NewVoteMessage(w, consensus.VoteTypePrecommit, target.Height(), round, target.ID(), nil, ts, nil, nil, 0)
	}
	return consensus.NewCommitVoteList(nil, msgs...)
}

// template returns the formats of a valid child of node q (proposed by the real block manager).
func (r *c07Runner) template(qi int) (*block.V2HeaderFormat, *block.V2BodyFormat) {
	q := r.nodes[qi]
	if q.hf != nil {
		return q.hf, q.bf
	}
	var tss []int64
	if q.blk.Height() > 0 {
		for range r.wallets {
			tss = append(tss, q.blk.Timestamp()+1)
		}
	}
	votes := r.votesFor(q.blk, tss, "ok", 0)
	ch := make(chan c07Res, 1)
	_, err := r.nd.BM.Propose(q.blk.ID(), votes, func(bc module.BlockCandidate, err error) {
		ch <- c07Res{bc, err}
	})
	if err != nil {
		c07Debug("template propose on %d: %v", qi, err)
		return nil, nil
	}
	select {
	case res := <-ch:
		if res.err != nil {
				return nil, nil
		}
		hf, bf, err := c07Formats(res.bc)
		if err != nil {
			c07Debug("template formats on %d: %v", qi, err)
				return nil, nil
		}
		q.hf, q.bf = hf, bf
	case <-time.After(20 * time.Second):
		c07Debug("template timeout on %d", qi)
	}
	return q.hf, q.bf
}

// c07Formats re-reads the header and body formats from the block's own serialization.
func c07Formats(blk module.BlockData) (*block.V2HeaderFormat, *block.V2BodyFormat, error) {
	var hb, bb bytes.Buffer
	if err := blk.MarshalHeader(&hb); err != nil {
		return nil, nil, err
	}
	if err := blk.MarshalBody(&bb); err != nil {
		return nil, nil, err
	}
	hf, bf := new(block.V2HeaderFormat), new(block.V2BodyFormat)
	if _, err := codec.BC.UnmarshalFromBytes(hb.Bytes(), hf); err != nil {
		return nil, nil, err
	}
	if _, err := codec.BC.UnmarshalFromBytes(bb.Bytes(), bf); err != nil {
		return nil, nil, err
	}
	return hf, bf, nil
}

type c07VerBlock struct {
	base.BlockData
	ver int
}

func (b c07VerBlock) Version() int { return b.ver }

func c07Classify(err error) string {
	s := err.Error()
	switch {
	case strings.Contains(s, "InvalidPreviousID"):
		return "reject:noparent"
	case strings.Contains(s, "bad block version"):
		return "reject:version"
	case strings.Contains(s, "bad height"):
		return "reject:height"
	case strings.Contains(s, "bad prev ID"):
		return "reject:previd"
	case strings.Contains(s, "bad timestamp"):
		return "reject:timestamp"
	case strings.Contains(s, "non-increasing timestamp"):
		return "reject:nonincreasing"
	case strings.Contains(s, "bad voter"), strings.Contains(s, "bad signature"), strings.Contains(s, "duplicated validator"),
		strings.Contains(s, "<= 2/3 of validators"), strings.Contains(s, "voters for height 0"),
		strings.Contains(s, "fail to get validators"), strings.Contains(s, "fail to verify block"):
		return "reject:cert"
	}
	return "reject:other:" + c07Short(s)
}

func (r *c07Runner) resolve(tok string, pi int) (int, bool) {
	if tok == "par" {
		return pi, true
	}
	if strings.HasPrefix(tok, "n") {
		k, err := strconv.Atoi(tok[1:])
		if err != nil || k < 0 {
			return 0, false
		}
		return k % len(r.nodes), true
	}
	return 0, false
}

// c07Median is the oracle's own median: k-th smallest by counting, arbitrary precision.
func c07Median(tss []int64) *big.Int {
	n := len(tss)
	if n == 0 {
		return big.NewInt(0)
	}
	kth := func(k int) int64 { // k-th smallest, 0-based
		for _, c := range tss {
			less, eq := 0, 0
			for _, d := range tss {
				if d < c {
					less++
				} else if d == c {
					eq++
				}
			}
			if less <= k && k < less+eq {
				return c
			}
		}
		panic("no kth")
	}
	if n%2 == 1 {
		return big.NewInt(kth(n / 2))
	}
	s := new(big.Int).Add(big.NewInt(kth(n/2-1)), big.NewInt(kth(n/2)))
	return s.Quo(s, big.NewInt(2)) // truncated division
}

func (r *c07Runner) Step(t []string, o *Oracle) string {
	if len(t) == 0 {
		return "bad-op"
	}
	switch t[0] {
	case "new":
		if len(t) != 2 {
			return "bad-op"
		}
		n, err := strconv.Atoi(t[1])
		if err != nil || n < 1 || n > 16 {
			return "bad-op"
		}
		return r.start(n)
	case "fin":
		if len(t) != 2 || r.nd == nil {
			return "bad-op"
		}
		k, err := strconv.Atoi(t[1])
		if err != nil || k < -1 {
			return "bad-op"
		}
		if k == -1 {
			k = len(r.nodes) - 1
		}
		return r.finalize(k%len(r.nodes), o)
	case "finup":
		// finalize the ancestor (or self) of the newest accepted block that is a child of the last finalized one
		if len(t) != 1 || r.nd == nil {
			return "bad-op"
		}
		j := len(r.nodes) - 1
		for j > 0 && r.nodes[j].parent != r.fin {
			j = r.nodes[j].parent
		}
		return r.finalize(j, o)
	case "sib":
		if len(t) != 4 || r.nd == nil {
			return "bad-op"
		}
		return r.sib(t[1:], o)
	case "cand":
		if len(t) != 10 || r.nd == nil {
			return "bad-op"
		}
		return r.cand(t[1:], o)
	}
	return "bad-op"
}

func (r *c07Runner) finalize(j int, o *Oracle) string {
	nd := r.nodes[j]
	if nd.cand == nil {
		o.Count("fin-refused")
		return "nofin"
	}
	var err error
	c07Quiet(func() { err = r.nd.BM.Finalize(nd.cand) })
	if err != nil {
		o.Count("fin-refused")
		return "nofin"
	}
	o.Count("fin-ok")
	// the version table of the harness says what the real service manager says once the state is flushed
	realV := r.sm.ServiceManager.GetNextBlockVersion(nd.blk.Result())
	o.Check(realV == r.sm.ver[string(nd.blk.Result())], "harness-version-table-inconsistent",
		"real GetNextBlockVersion of finalized block %d is %d, table says %d", j, realV, r.sm.ver[string(nd.blk.Result())])
	// the finalized chain must stay linked (oracle on the real objects)
	o.Check(nd.parent == r.fin, "finalized-non-child", "finalized node %d whose parent %d is not the last finalized %d", j, nd.parent, r.fin)
	r.fin = j
	for i := range r.nodes {
		if i < j {
			r.nodes[i].alive = false
		} else if i > j {
			r.nodes[i].alive = r.nodes[i].alive && r.nodes[r.nodes[i].parent].alive
		}
	}
	return fmt.Sprintf("fin %d", nd.blk.Height())
}

func c07ParseI64(s string) (int64, bool) {
	v, err := strconv.ParseInt(s, 10, 64)
	return v, err == nil
}

func (r *c07Runner) cand(a []string, o *Oracle) string {
	n := len(r.nodes)
	pv, ok := c07ParseI64(a[0])
	if !ok || pv < -2 {
		return "bad-op"
	}
	pi := n - 1
	if pv >= 0 {
		pi = int(pv % int64(n))
	} else if pv == -2 && r.nodes[n-1].parent >= 0 {
		pi = r.nodes[n-1].parent // parent of the newest accepted block
	}
	P := r.nodes[pi]
	// NV: the candidate carries a transaction that sets the chain's next block version
	var nvTx []byte
	var nvK int32
	hasNV := false
	if a[8] != "-" {
		k, ok := c07ParseI64(a[8])
		if !ok || k < -2147483648 || k > 2147483647 {
			return "bad-op"
		}
		if k == 0 {
			return "bad-op"
		}
		nvK = int32(k)
		hasNV = true
	}
	dh, ok := c07ParseI64(a[1])
	if !ok {
		return "bad-op"
	}
	height := P.blk.Height() + 1 + dh
	// PREV
	var prevID []byte
	prevIdx := -1
	if a[2] == "rand" {
		h := sha256.Sum256(binary.BigEndian.AppendUint64([]byte("c07-rand"), uint64(r.serial)))
		prevID = h[:]
	} else if k, ok := r.resolve(a[2], pi); ok {
		prevIdx = k
		prevID = r.nodes[k].blk.ID()
	} else {
		return "bad-op"
	}
	ver, ok := c07ParseI64(a[3])
	if !ok {
		return "bad-op"
	}
	vti, ok := r.resolve(a[4], pi)
	if !ok {
		return "bad-op"
	}
	cls := a[5]
	var tss []int64
	if a[6] != "-" {
		for _, s := range strings.Split(a[6], ",") {
			if strings.HasPrefix(s, "=") {
				v, ok := c07ParseI64(s[1:])
				if !ok {
					return "bad-op"
				}
				tss = append(tss, v)
			} else {
				v, ok := c07ParseI64(s)
				if !ok {
					return "bad-op"
				}
				tss = append(tss, P.blk.Timestamp()+v)
			}
		}
	}
	switch cls {
	case "ok":
	case "dup":
		if len(tss) < 2 {
			return "bad-op"
		}
	case "str":
		if len(tss) < 1 {
			return "bad-op"
		}
	default:
		return "bad-op"
	}
	if len(a[7]) < 2 {
		return "bad-op"
	}
	tsArg, ok := c07ParseI64(a[7][1:])
	if !ok {
		return "bad-op"
	}
	r.serial++
	round := int32(r.serial)
	votes := r.votesFor(r.nodes[vti].blk, tss, cls, round)
	if votes == nil {
		return "harness-error:votes"
	}
	med := votes.Timestamp() // real median
	var ts int64
	switch a[7][0] {
	case 'm':
		ts = med + tsArg
	case 'p':
		ts = P.blk.Timestamp() + tsArg
	case 'a':
		ts = tsArg
	default:
		return "bad-op"
	}
	// template: a valid child of the block PREV names, else of the last finalized block
	var hf *block.V2HeaderFormat
	var bf *block.V2BodyFormat
	tmplFrom := prevIdx
	c07Quiet(func() {
		if prevIdx >= 0 && r.nodes[prevIdx].alive {
			hf, bf = r.template(prevIdx)
		}
		if hf == nil {
			hf, bf = r.template(r.fin)
			tmplFrom = r.fin
		}
	})
	if hf == nil {
		return "harness-error:no-template"
	}
	h2, b2 := *hf, *bf
	h2.Height = height
	h2.Timestamp = ts
	h2.PrevID = prevID
	h2.VotesHash = votes.Hash()
	b2.Votes = votes.Bytes()
	if hasNV && (ts >= 1<<60 || ts <= -(1<<60)) {
		// transaction expiry arithmetic near the int64 limits is not this property's business
		return "bad-op"
	}
	if hasNV {
		// timestamp of the transaction = timestamp of the block (inside the expiry window)
		// unique per cand op of the case (siblings share their candidate's transaction): a later
		// block of the same chain must never repeat a transaction (DuplicateTx is not C07's business)
		nonce := "c07-" + strconv.Itoa(r.serial)
		nvTx = test.NewTx().SetNextBlockVersion(&nvK).SetTimestamp(ts).SetVarTest(&nonce).Bytes()
		tx, terr := r.nd.SM.TransactionFromBytes(nvTx, module.BlockVersion2)
		if terr != nil {
			return "harness-error:tx:" + c07Short(terr.Error())
		}
		b2.NormalTransactions = [][]byte{nvTx}
		h2.NormalTransactionsHash = r.nd.SM.TransactionListFromSlice([]module.Transaction{tx}, module.BlockVersion2).Hash()
	}
	bt := &c07Built{h2: h2, b2: b2, ver: ver, pi: pi, tss: tss, cls: cls, vti: vti, nvK: nvK, nvTx: nvTx, med: med,
		prevIdx: prevIdx, tmplFrom: tmplFrom}
	r.last = bt
	return r.judge(bt, o)
}

// c07Built is a candidate as built by a cand op; sib ops re-import it with another height,
// timestamp or version but the SAME parent id, commit vote bytes and body.
type c07Built struct {
	h2   block.V2HeaderFormat
	b2   block.V2BodyFormat
	ver  int64
	pi   int
	tss  []int64
	cls  string
	vti  int
	nvK  int32
	nvTx []byte
	med  int64
	// the fields not under test (result, next validators, ...) come from a block proposed on
	// node tmplFrom; when that is not the block PrevID names (it could not be proposed on at
	// the time), they are taken again as soon as that becomes possible
	prevIdx  int
	tmplFrom int
}

// sib DTS DH VER: the candidate of the last cand op again, with timestamp+DTS, height+DH, version VER
func (r *c07Runner) sib(a []string, o *Oracle) string {
	if r.last == nil {
		return "bad-op"
	}
	dts, ok1 := c07ParseI64(a[0])
	dh, ok2 := c07ParseI64(a[1])
	ver, ok3 := c07ParseI64(a[2])
	if !ok1 || !ok2 || !ok3 {
		return "bad-op"
	}
	bt := *r.last
	bt.h2.Timestamp += dts
	bt.h2.Height += dh
	bt.ver = ver
	o.Count("sib")
	return r.judge(&bt, o)
}

func (r *c07Runner) judge(bt *c07Built, o *Oracle) string {
	if bt.prevIdx >= 0 && bt.tmplFrom != bt.prevIdx && r.nodes[bt.prevIdx].alive {
		var hf *block.V2HeaderFormat
		var bf *block.V2BodyFormat
		c07Quiet(func() { hf, bf = r.template(bt.prevIdx) })
		if hf != nil {
			nh, nb := *hf, *bf
			nh.Height, nh.Timestamp, nh.PrevID, nh.VotesHash = bt.h2.Height, bt.h2.Timestamp, bt.h2.PrevID, bt.h2.VotesHash
			nb.Votes = bt.b2.Votes
			if bt.nvTx != nil {
				nh.NormalTransactionsHash = bt.h2.NormalTransactionsHash
				nb.NormalTransactions = bt.b2.NormalTransactions
			}
			bt.h2, bt.b2, bt.tmplFrom = nh, nb, bt.prevIdx
		}
	}
	h2, b2, ver, pi, tss, cls, vti, nvK, nvTx, med := bt.h2, bt.b2, bt.ver, bt.pi, bt.tss, bt.cls, bt.vti, bt.nvK, bt.nvTx, bt.med
	P := r.nodes[pi]
	bd0, err := r.nd.BM.NewBlockDataFromReader(block.NewBlockReaderFromFormat(&h2, &b2))
	if err != nil {
		return "harness-error:decode:" + c07Short(err.Error())
	}
	var bd module.BlockData = bd0
	if ver != int64(bd0.Version()) {
		bd = c07VerBlock{bd0.(base.BlockData), int(ver)}
	}
	// ---- the real import
	ch := make(chan c07Res, 1)
	var ierr error
	c07Quiet(func() {
		_, ierr = r.nd.BM.ImportBlock(bd, 0, func(bc module.BlockCandidate, err error) {
			ch <- c07Res{bc, err}
		})
	})
	verdict := ""
	var accepted module.BlockCandidate
	if ierr != nil {
		verdict = c07Classify(ierr)
	} else {
		select {
		case res := <-ch:
			if res.err != nil {
				verdict = "reject:async:" + c07Short(res.err.Error())
			} else {
				verdict = "accept"
				accepted = res.bc
			}
		case <-time.After(30 * time.Second):
			verdict = "harness-error:timeout"
		}
	}
	o.Count(verdict)
	out := fmt.Sprintf("%s h=%d ts=%d med=%d P=%d/%d/v%d", verdict, bd.Height(), bd.Timestamp(), bd.Votes().Timestamp(), P.blk.Height(), P.blk.Timestamp(), r.nd.SM.GetNextBlockVersion(P.blk.Result()))

	// ---- property oracle, on the real objects, independent of the Lean model
	// the code adds the two middle timestamps in int64: outside of that sum overflowing, the
	// result must be the mathematical median. (odd counts never add.)
	inRange := true
	if len(tss) > 0 && len(tss)%2 == 0 {
		sorted := append([]int64(nil), tss...)
		sort.Slice(sorted, func(i, j int) bool { return sorted[i] < sorted[j] })
		sum := new(big.Int).Add(big.NewInt(sorted[len(tss)/2-1]), big.NewInt(sorted[len(tss)/2]))
		inRange = sum.IsInt64()
	}
	wantMed := c07Median(tss)
	if inRange {
		o.Check(wantMed.IsInt64() && wantMed.Int64() == bd.Votes().Timestamp(), "median-mismatch",
			"Votes().Timestamp()=%d but the median of %v is %v", bd.Votes().Timestamp(), tss, wantMed)
		if len(tss) > 0 {
			mn, mx := tss[0], tss[0]
			for _, v := range tss {
				if v < mn {
					mn = v
				}
				if v > mx {
					mx = v
				}
			}
			o.Check(mn <= med && med <= mx, "median-out-of-range", "median %d outside [%d,%d]", med, mn, mx)
		}
		if len(tss)%2 == 0 {
			o.Count("votes-even")
		} else {
			o.Count("votes-odd")
		}
	} else {
		o.Count("votes-overflow-range")
	}
	parIdx, known := r.byID[string(bd.PrevID())]
	var par *c07Node
	if known {
		par = r.nodes[parIdx]
	}
	// the block the other conditions are judged against: the one PrevID names; when PrevID names
	// nothing we know, the parent the op intended (then the link is a deviation in any case)
	ref, refIdx := par, parIdx
	if par == nil {
		ref, refIdx = P, pi
	}
	reqVer := r.nd.SM.GetNextBlockVersion(ref.blk.Result())
	cPrev := par != nil && par.alive && bytes.Equal(bd.PrevID(), par.blk.ID())
	cHeight := bd.Height() == ref.blk.Height()+1
	cVer := bd.Version() == reqVer
	cMed := bd.Height() <= 1 || (inRange && wantMed.IsInt64() && wantMed.Int64() == bd.Timestamp())
	cInc := bd.Height() <= 1 || ref.blk.Timestamp() < bd.Timestamp()
	if verdict == "accept" {
		o.Check(par != nil, "accepted-unknown-parent", "accepted a block whose PrevID %x is not an accepted block", bd.PrevID())
		o.Check(cPrev, "accepted-pruned-parent", "accepted a block on a parent that is not in the tree of the last finalized block")
		o.Check(cHeight, "accepted-bad-height", "accepted height %d on a parent of another height", bd.Height())
		o.Check(cVer, "c07-accepted-version-not-required-by-parent-state", "accepted version %d on a parent (height %d) whose state requires %d", bd.Version(), ref.blk.Height(), reqVer)
		if inRange {
			o.Check(cMed, "accepted-ts-not-median", "accepted height %d timestamp %d, median of votes %v is %v", bd.Height(), bd.Timestamp(), tss, wantMed)
		}
		o.Check(cInc, "accepted-ts-not-increasing", "accepted height %d timestamp %d, parent's is not smaller", bd.Height(), bd.Timestamp())
	}
	// deviation statistics + "a valid block is accepted" (so that all-reject is not vacuous truth)
	certFine := false
	{
		feasible := ref.blk.Height() == 0 || ref.blk.Height()-1 <= r.nodes[r.fin].blk.Height()
		if ref.blk.Height() == 0 {
			certFine = len(tss) == 0
		} else {
			certFine = feasible && cls == "ok" && vti == refIdx && len(tss) <= len(r.wallets) && len(tss) > len(r.wallets)*2/3
		}
	}
	conj := []bool{cPrev, cHeight, cVer, certFine, cMed && cInc}
	names := []string{"prev", "height", "version", "cert", "time"}
	bad := 0
	which := ""
	if !inRange && bd.Height() > 1 {
		// int64 overflow inside Timestamp(): outside the property's domain, only model vs code is compared
		o.Count("class-overflow-skipped")
		conj = nil
		bad = -1
	}
	for i, c := range conj {
		if !c {
			bad++
			which = names[i]
		}
	}
	switch bad {
	case 0:
		o.Count("class-valid")
		o.Check(verdict == "accept", "valid-block-rejected", "a block satisfying every condition was refused: %s", verdict)
	case -1:
	case 1:
		o.Count("class-single-deviation-" + which)
		o.Check(verdict != "accept", "single-deviation-accepted-"+which, "a block deviating only in %s was accepted", which)
	default:
		o.Count("class-multi-deviation")
		o.Check(verdict != "accept", "multi-deviation-accepted", "a block with %d deviations was accepted", bad)
	}
	if reqVer != module.BlockVersion2 {
		if par != nil && parIdx == r.fin {
			o.Count("parent-finalized-requires-unregistered-version")
		} else if par != nil && par.alive {
			o.Count("parent-unfinalized-requires-other-version")
		}
		if verdict == "accept" {
			o.Count("accepted-with-version!=2")
		}
	}
	if nvTx != nil && verdict == "accept" {
		o.Count("accepted-with-nextBlockVersion-tx")
	}
	if bd.Height() <= 1 {
		o.Count("cand-height<=1")
	} else {
		o.Count("cand-height>1")
	}
	if accepted != nil {
		id := string(accepted.ID())
		if _, dup := r.byID[id]; dup {
			// the very same block again (sib 0 0): it is the node we already have
			o.Count("accepted-again")
			return out
		}
		r.byID[id] = len(r.nodes)
		nn := &c07Node{blk: accepted, cand: accepted, parent: parIdx, alive: true, txnv: int(nvK)}
		nn.sv = par.sv
		if par.txnv != 0 {
			nn.sv = par.txnv
		}
		want := 2
		if nn.sv != 0 {
			want = nn.sv
		}
		r.sm.ver[string(accepted.Result())] = want
		r.nodes = append(r.nodes, nn)
		if accepted.Height() >= 4 {
			o.Count("accepted-at-height>=4")
		}
	}
	if len(r.t.errs) > 0 {
		e := r.t.errs[0]
		r.t.errs = nil
		return "harness-error:assert:" + c07Short(e)
	}
	return out
}

// ---------------------------------------------------------------- generator

func c07Votes(g *Gen, nval int, valid bool) (string, int) {
	// number of votes
	minOK := nval*2/3 + 1
	cnt := minOK + g.Intn(nval-minOK+1)
	if !valid {
		switch g.Intn(4) {
		case 0:
			cnt = g.Intn(minOK) // too few (possibly none)
		case 1:
			cnt = nval + 1 + g.Intn(2)
		}
	}
	if cnt == 0 {
		return "-", 0
	}
	base := 1 + g.Intn(5)
	var parts []string
	mode := g.Intn(8)
	for i := 0; i < cnt; i++ {
		var off int
		switch mode {
		case 0: // all equal
			off = base
		case 1: // two clusters
			off = base + 7*(i%2)
		case 2: // contains non-positive offsets
			off = g.Intn(7) - 3
		default:
			off = base + g.Intn(6) - g.Intn(3)
		}
		parts = append(parts, strconv.Itoa(off))
	}
	if mode == 7 && cnt > 0 { // one wild absolute value
		i := g.Intn(cnt)
		parts[i] = "=" + []string{"0", "-1", "-7", "9223372036854775807", "-9223372036854775808", "4611686018427387903", "4611686018427387904", "-4611686018427387904", "1000000000000"}[g.Intn(9)]
	}
	return strings.Join(parts, ","), cnt
}

func c07Gen(g *Gen) {
	// one case = one chain; g.N counts cand ops in total
	left := g.N
	first := true
	for left > 0 {
		if !first {
			g.Emit("reset")
		}
		first = false
		nval := g.Pick(1, 2, 3, 4, 4, 5, 6, 7)
		g.Emit("new %d", nval)
		ops := 30 + g.Intn(40)
		if ops > left {
			ops = left
		}
		left -= ops
		acc := 1 // the generator's guess of the number of accepted blocks (genesis included)
		// guess of the version state at the newest accepted block: svTip = version variable in its
		// result (0 = unset, default 2), txTip = version set by a transaction it carries (0 = none)
		svTip, txTip := 0, 0
		verOf := func(sv int) int {
			if sv == 0 {
				return 2
			}
			return sv
		}
		valid := func(nv int) {
			vs := "-"
			if acc > 1 {
				vs, _ = c07Votes(g, nval, true)
				vs = c07Positive(vs) // median above the parent's timestamp
			}
			nvs := "-"
			if nv != 0 {
				nvs = strconv.Itoa(nv)
			}
			g.Emit("cand -1 0 par %d par ok %s m0 %s", verOf(svTip), vs, nvs)
			acc++
			if txTip != 0 {
				svTip = txTip
			}
			txTip = nv
		}
		// siblings of the candidate just emitted: same parent id, same vote bytes, one or two
		// fields moved (and the unmoved candidate once more), in either order relative to it
		sibs := func(ver int) {
			for n := g.Pick(1, 2, 2, 3, 4); n > 0; n-- {
				dts, dh, v := 0, 0, ver
				switch g.Intn(8) {
				case 0, 1, 2:
					dts = g.Pick(1, -1, 1, -1, 2, -5, -100, 1000)
				case 3:
					dh = g.Pick(1, -1, 2)
				case 4:
					v = g.Pick(1, 3, 2, 4)
				case 5:
					dts, dh = g.Pick(1, -1), g.Pick(1, -1)
				default: // the same candidate again
				}
				g.Emit("sib %d %d %d", dts, dh, v)
			}
		}
		probe := func(p int) {
			// old / new / unrelated version on parent p, everything else valid
			vs := "-"
			if acc > 1 {
				vs, _ = c07Votes(g, nval, true)
				vs = c07Positive(vs)
			}
			g.Emit("cand %d 0 par %d par ok %s m0 -", p, g.Pick(2, 3, 2, 3, 1, 4), vs)
		}
		for i := 0; i < ops; i++ {
			c := g.Intn(100)
			switch {
			case c < 4 && acc > 1:
				// directed: the required version changes at an imported, not yet finalized parent
				k := g.Pick(3, 3, 2, 1)
				valid(k) // A carries the transaction
				g.Emit("finup")
				valid(0) // B: its result records the new version; B stays unfinalized
				for j := 0; j < 3; j++ {
					probe(-1) // on B (unfinalized, requires k)
					probe(-2) // on A (finalized, requires the old version)
				}
				g.Emit("finup") // now B is the last finalized block and requires k (no handler if k != 2)
				for j := 0; j < 3; j++ {
					probe(-1)
				}
				i += 12
			case c < 25:
				// fully valid extension of the newest accepted block
				nv := 0
				if g.Intn(8) == 0 {
					nv = g.Pick(3, 2, 3, 1)
				}
				valid(nv)
				if g.Intn(10) < 4 {
					sibs(verOf(svTip)) // svTip was advanced by valid(): approximate, any value is a legal op
				}
				if g.Intn(10) < 7 {
					g.Emit("finup")
				}
				if g.Intn(10) < 2 {
					sibs(2) // siblings of an already finalized block
				}
			case c < 32:
				if g.Intn(3) > 0 {
					g.Emit("finup")
				} else if g.Intn(2) == 0 {
					g.Emit("fin -1")
				} else {
					g.Emit("fin %d", g.Intn(acc+2))
				}
			default:
				c07Mutant(g, nval, acc, verOf(svTip))
				if g.Intn(10) < 3 {
					sibs(verOf(svTip)) // deviated first, corrected sibling afterwards, deviated again
				}
			}
		}
	}
}

func c07Positive(vs string) string {
	if vs == "-" {
		return vs
	}
	parts := strings.Split(vs, ",")
	for i, p := range parts {
		if strings.HasPrefix(p, "=") {
			parts[i] = "3"
			continue
		}
		v, _ := strconv.Atoi(p)
		if v <= 0 {
			parts[i] = strconv.Itoa(1 - v)
		}
	}
	return strings.Join(parts, ",")
}

func c07Mutant(g *Gen, nval, acc int, reqVer int) {
	// start from a valid candidate on some parent and deviate in 0..3 fields
	p := -1
	if g.Intn(4) == 0 {
		p = g.Intn(acc + 1)
	}
	dh, prev, ver, vt, cls, ts := 0, "par", reqVer, "par", "ok", "m0"
	if p == -1 && g.Intn(10) == 0 {
		p = -2
	}
	vs, cnt := c07Votes(g, nval, true)
	if g.Intn(6) > 0 {
		vs = c07Positive(vs)
	}
	if acc == 1 || g.Intn(12) == 0 {
		vs, cnt = "-", 0 // children of genesis carry no votes
	}
	nmut := g.Pick(1, 1, 1, 1, 1, 1, 2, 2, 3, 0)
	for k := 0; k < nmut; k++ {
		switch g.Intn(8) {
		case 0:
			dh = g.Pick(-1, 1, -2, 2, 5, -1, 1)
		case 1:
			prev = []string{"rand", fmt.Sprintf("n%d", g.Intn(acc+1)), fmt.Sprintf("n%d", g.Intn(acc+1))}[g.Intn(3)]
		case 2:
			ver = g.Pick(1, 3, 2, 3, 0, -1, 2147483647)
		case 3, 4:
			// timestamp: around the median, around the parent, absolute
			switch g.Intn(4) {
			case 0, 1:
				ts = fmt.Sprintf("m%d", g.Pick(-1, 1, -1, 1, 2, -100))
			case 2:
				ts = fmt.Sprintf("p%d", g.Pick(0, 1, -1, 2))
			default:
				ts = "a" + []string{"0", "-1", "1", "9223372036854775807", "-9223372036854775808"}[g.Intn(5)]
			}
		case 5:
			// votes whose median is at or just below the parent's timestamp (equal timestamps)
			var parts []string
			off := g.Pick(0, 0, -1, -5)
			for i := 0; i < cnt; i++ {
				if i%2 == 1 && g.Intn(3) == 0 {
					parts = append(parts, strconv.Itoa(off+g.Pick(0, 1, -1)))
				} else {
					parts = append(parts, strconv.Itoa(off))
				}
			}
			if cnt > 0 {
				vs = strings.Join(parts, ",")
			}
		case 6:
			vs, cnt = c07Votes(g, nval, false)
		default:
			switch g.Intn(3) {
			case 0:
				vt = fmt.Sprintf("n%d", g.Intn(acc+1))
			case 1:
				cls = "dup"
			default:
				cls = "str"
			}
		}
	}
	if cls == "dup" && cnt < 2 || cls == "str" && cnt < 1 {
		cls = "ok"
	}
	nv := "-"
	if g.Intn(25) == 0 {
		nv = strconv.Itoa(g.Pick(3, 2, 1))
	}
	g.Emit("cand %d %d %s %d %s %s %s %s %s", p, dh, prev, ver, vt, cls, vs, ts, nv)
}
