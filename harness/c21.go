//go:build c21 || all

package main

import (
	"bytes"
	"fmt"
	"math/big"
	"sort"
	"strconv"
	"strings"

	"github.com/icon-project/goloop/common"
	"github.com/icon-project/goloop/common/containerdb"
)

// C21: containerdb keys and containers over a map store.
//
// part   : b:0|1  i:N i16:N i32:N i64:N  g:N (big.Int) x:N (HexInt)  s:HEX (string) B:HEX ([]byte)
//          y:HH (byte)  a:0|1:HEX20 (address)  v:HEX (containerdb.Value)
// parts  : part;part;...   ("_" = none)
// kb     : T/parts/parts...  T = H|P|R|W (ToKey type) or N:PREFIXHEX (NewHashKey); later groups = Append
// ops    : tobytes P | append PREFIX PARTS | rawappend PREFIX PARTS | split HEX | build KB
//          vget KB | vset KB P | vdel KB | asize KB | aget KB I | aset KB I P | aput KB P | apop KB
//          dget KB D PARTS | dset KB D PARTS P | ddel KB D PARTS | dsub KB D PARTS PARTS | dump

func init() {
	Register(&Prop{ID: "C21", Gen: c21Gen, New: func() Runner { return newC21Runner() }})
}

// ---- map store

type c21Store struct{ m map[string][]byte }

func (s *c21Store) GetValue(key []byte) ([]byte, error) {
	if v, ok := s.m[string(key)]; ok {
		return v, nil
	}
	return nil, nil
}

func (s *c21Store) SetValue(key []byte, value []byte) ([]byte, error) {
	old := s.m[string(key)]
	s.m[string(key)] = append([]byte{}, value...)
	return old, nil
}

func (s *c21Store) DeleteValue(key []byte) ([]byte, error) {
	old := s.m[string(key)]
	delete(s.m, string(key))
	return old, nil
}

// ---- parsing

func c21Part(s string) (interface{}, bool) {
	f := strings.Split(s, ":")
	switch {
	case len(f) == 2 && f[0] == "b" && (f[1] == "0" || f[1] == "1"):
		return f[1] == "1", true
	case len(f) == 2 && (f[0] == "i" || f[0] == "i64"):
		v, err := strconv.ParseInt(f[1], 10, 64)
		if err != nil {
			return nil, false
		}
		if f[0] == "i" {
			return int(v), true
		}
		return v, true
	case len(f) == 2 && f[0] == "i32":
		v, err := strconv.ParseInt(f[1], 10, 32)
		if err != nil {
			return nil, false
		}
		return int32(v), true
	case len(f) == 2 && f[0] == "i16":
		v, err := strconv.ParseInt(f[1], 10, 16)
		if err != nil {
			return nil, false
		}
		return int16(v), true
	case len(f) == 2 && (f[0] == "g" || f[0] == "x"):
		v, ok := new(big.Int).SetString(f[1], 10)
		if !ok {
			return nil, false
		}
		if f[0] == "x" {
			h := new(common.HexInt)
			h.Set(v)
			return h, true
		}
		return v, true
	case len(f) == 2 && f[0] == "s":
		return string(unhx(f[1])), true
	case len(f) == 2 && f[0] == "B":
		return unhx(f[1]), true
	case len(f) == 2 && f[0] == "y":
		b := unhx(f[1])
		if len(b) != 1 {
			return nil, false
		}
		return b[0], true
	case len(f) == 3 && f[0] == "a" && (f[1] == "0" || f[1] == "1"):
		id := unhx(f[2])
		if len(id) != 20 {
			return nil, false
		}
		return common.NewAddressWithTypeAndID(f[1] == "1", id), true
	case len(f) == 2 && f[0] == "v":
		return containerdb.NewValue(containerdb.NewValueSnapshotFromBytes(unhx(f[1]))), true
	}
	return nil, false
}

func c21Parts(s string) ([]interface{}, bool) {
	if s == "_" {
		return []interface{}{}, true
	}
	var out []interface{}
	for _, p := range strings.Split(s, ";") {
		v, ok := c21Part(p)
		if !ok {
			return nil, false
		}
		out = append(out, v)
	}
	return out, true
}

// c21KB: the real key builder plus its semantic identity (class, flattened part bytes)
type c21KB struct {
	kb    containerdb.KeyBuilder
	class string
	parts [][]byte
}

func (k c21KB) Append(keys ...interface{}) c21KB {
	n := c21KB{kb: k.kb.Append(keys...), class: k.class, parts: append([][]byte{}, k.parts...)}
	for _, x := range keys {
		n.parts = append(n.parts, containerdb.ToBytes(x))
	}
	return n
}

func (k c21KB) id() string {
	var sb strings.Builder
	sb.WriteString(k.class)
	for _, p := range k.parts {
		fmt.Fprintf(&sb, "|%x", p)
	}
	return sb.String()
}

// returns ok=false for a malformed spec; may panic like ToKey does
func (r *c21Runner) parseKB(s string) (c21KB, bool) {
	f := strings.Split(s, "/")
	if strings.HasPrefix(f[0], "@") {
		// a builder kept alive in a slot, followed by Append groups
		n, err := strconv.Atoi(f[0][1:])
		if err != nil || n < 0 {
			return c21KB{}, false
		}
		var groups [][]interface{}
		for _, g := range f[1:] {
			ps, ok := c21Parts(g)
			if !ok {
				return c21KB{}, false
			}
			groups = append(groups, ps)
		}
		k, ok := r.kbs[n]
		if !ok {
			return c21KB{}, false
		}
		for _, g := range groups {
			k = k.Append(g...)
		}
		return k, true
	}
	if len(f) < 2 {
		return c21KB{}, false
	}
	var groups [][]interface{}
	for _, g := range f[1:] {
		ps, ok := c21Parts(g)
		if !ok {
			return c21KB{}, false
		}
		groups = append(groups, ps)
	}
	var k c21KB
	toB := func(xs []interface{}) [][]byte {
		var r [][]byte
		for _, x := range xs {
			r = append(r, containerdb.ToBytes(x))
		}
		return r
	}
	g0 := groups[0]
	switch {
	case f[0] == "H":
		k = c21KB{kb: containerdb.ToKey(containerdb.HashBuilder, g0...), class: "H", parts: toB(g0)}
	case f[0] == "P":
		kb := containerdb.ToKey(containerdb.PrefixedHashBuilder, g0...)
		k = c21KB{kb: kb, class: fmt.Sprintf("P:%x", containerdb.ToBytes(g0[0])), parts: toB(g0[1:])}
	case f[0] == "R":
		k = c21KB{kb: containerdb.ToKey(containerdb.RLPBuilder, g0...), class: "R", parts: toB(g0)}
	case f[0] == "W":
		k = c21KB{kb: containerdb.ToKey(containerdb.RawBuilder, g0...), class: "W", parts: toB(g0)}
	case strings.HasPrefix(f[0], "N:"):
		pre := unhx(f[0][2:])
		cl := "H"
		if len(pre) > 0 {
			cl = fmt.Sprintf("N:%x", pre)
		}
		k = c21KB{kb: containerdb.NewHashKey(pre, g0...), class: cl, parts: toB(g0)}
	default:
		return c21KB{}, false
	}
	for _, g := range groups[1:] {
		k = k.Append(g...)
	}
	return k, true
}

// ---- runner

type c21Runner struct {
	st    *c21Store
	dirty bool
	// oracle state
	keyOwner  map[string]string // store key -> slot id (semantic)
	slotOwner map[string]string // slot id -> "plain" | "arr:<id>"
	refSlot   map[string][]byte // plain slots (vars, dict entries)
	refArr    map[string][][]byte
	// builders / sub-dictionaries kept alive across operations
	kbs    map[int]c21KB
	kbKey  map[int][]byte
	dicts  map[int]*c21Dict
	// kept ArrayDB / VarDB objects (one slot holds both views of the same builder)
	handles map[int]*c21Handle
	snap    *c21Snap
}

type c21Handle struct {
	k c21KB
	a *containerdb.ArrayDB
	v *containerdb.VarDB
}

// c21Snap: the store and the oracle's reference at the time of `snap`
type c21Snap struct {
	store     map[string][]byte
	refSlot   map[string][]byte
	refArr    map[string][][]byte
	slotOwner map[string]string
	dirty     bool
}

func c21CopyBytesMap(m map[string][]byte) map[string][]byte {
	n := make(map[string][]byte, len(m))
	for k, v := range m {
		n[k] = v
	}
	return n
}

type c21Dict struct {
	d     *containerdb.DictDB // nil = GetDB returned nil
	sem   c21KB               // semantic identity only (class + parts); its kb is never used
	depth int
}

// semAppend extends the semantic identity without touching the real builder.
func (k c21KB) semAppend(keys ...interface{}) c21KB {
	n := c21KB{class: k.class, parts: append([][]byte{}, k.parts...)}
	for _, x := range keys {
		n.parts = append(n.parts, containerdb.ToBytes(x))
	}
	return n
}

// checkKept: a builder that is kept must keep building the key it built when it was made,
// whatever was derived from its parent in the meantime.
func (r *c21Runner) checkKept(o *Oracle) {
	for n, k := range r.kbs {
		now := k.kb.Build()
		o.Check(bytes.Equal(now, r.kbKey[n]), "kept-builder-key-changed", "builder slot %d (%s) built %x when derived, builds %x now", n, k.id(), r.kbKey[n], now)
	}
}

var c21GlobalKeys = map[string]string{} // built key -> slot id, across cases (bounded)

func newC21Runner() *c21Runner {
	return &c21Runner{st: &c21Store{m: map[string][]byte{}}, keyOwner: map[string]string{},
		slotOwner: map[string]string{}, refSlot: map[string][]byte{}, refArr: map[string][][]byte{},
		kbs: map[int]c21KB{}, kbKey: map[int][]byte{}, dicts: map[int]*c21Dict{}, handles: map[int]*c21Handle{}}
}

func c21Show(v []byte) string {
	if v == nil {
		return "nil"
	}
	return hx(v)
}

func c21ShowValue(v containerdb.Value) string {
	if v == nil {
		return "nil"
	}
	return c21Show(v.Bytes())
}

// noteKey: distinct container paths must give distinct storage keys.
func (r *c21Runner) noteKey(k c21KB, o *Oracle) []byte {
	key := k.kb.Build()
	id := k.id()
	check := func(m map[string]string, inCase bool) {
		if prev, ok := m[string(key)]; ok && prev != id {
			pc, ic := strings.SplitN(prev, "|", 2)[0], strings.SplitN(id, "|", 2)[0]
			switch {
			case k.class == "W" || pc == "W":
				o.Count("raw-builder-collision(known-exception)")
				if inCase {
					r.dirty = true // two slot identities share storage: reference maps no longer apply
				}
			case pc != ic:
				o.Count("cross-prefix-collision(known-exception)")
				if inCase {
					r.dirty = true
				}
			default:
				o.Check(false, "distinct-paths-same-key", "paths %s and %s both map to storage key %x", prev, id, key)
			}
		} else if !ok {
			m[string(key)] = id
		}
	}
	check(r.keyOwner, true)
	if len(c21GlobalKeys) < 3000000 {
		check(c21GlobalKeys, false)
	}
	return key
}

func (r *c21Runner) own(k c21KB, owner string, o *Oracle) {
	id := k.id()
	if k.class == "W" {
		// raw builder: slot identity is the concatenation, not the part list
		id = fmt.Sprintf("W|%x", k.kb.Build())
	}
	if prev, ok := r.slotOwner[id]; ok && prev != owner {
		if !r.dirty {
			o.Count("case-aliases-slots-by-design")
		}
		r.dirty = true
	} else {
		r.slotOwner[id] = owner
	}
}

func (r *c21Runner) slotID(k c21KB) string {
	if k.class == "W" {
		return fmt.Sprintf("W|%x", k.kb.Build())
	}
	return k.id()
}

func (r *c21Runner) Step(t []string, o *Oracle) string {
	if len(t) == 0 {
		return "bad-op"
	}
	switch t[0] {
	case "tobytes":
		if len(t) != 2 {
			return "bad-op"
		}
		p, ok := c21Part(t[1])
		if !ok {
			return "bad-op"
		}
		o.Count("tobytes-" + strings.SplitN(t[1], ":", 2)[0])
		return hx(containerdb.ToBytes(p))
	case "append", "rawappend":
		if len(t) != 3 {
			return "bad-op"
		}
		pre := unhx(t[1])
		ps, ok := c21Parts(t[2])
		if !ok {
			return "bad-op"
		}
		if t[0] == "rawappend" {
			return hx(containerdb.AppendRawKeys(pre, ps...))
		}
		res := containerdb.AppendKeys(pre, ps...)
		o.Check(bytes.HasPrefix(res, pre), "appendkeys-lost-prefix", "AppendKeys(%x,...)=%x", pre, res)
		got, err := containerdb.SplitKeys(res[len(pre):])
		same := err == nil && len(got) == len(ps)
		if same {
			for i := range ps {
				if !bytes.Equal(got[i], containerdb.ToBytes(ps[i])) {
					same = false
				}
			}
		}
		o.Check(same, "splitkeys-not-inverse", "SplitKeys(AppendKeys(%s)) = %x (%v)", t[2], got, err)
		for _, p := range ps {
			o.Count(c21LenClass(len(containerdb.ToBytes(p))))
		}
		return hx(res)
	case "split":
		if len(t) != 2 {
			return "bad-op"
		}
		got, err := containerdb.SplitKeys(unhx(t[1]))
		if err != nil {
			o.Count("split-error")
			return "err"
		}
		o.Count("split-ok")
		if len(got) == 0 {
			return "ok _"
		}
		ss := make([]string, len(got))
		for i, g := range got {
			ss[i] = hx(g)
		}
		return "ok " + strings.Join(ss, ";")
	}
	switch t[0] {
	case "snap":
		if len(t) != 1 {
			return "bad-op"
		}
		sn := &c21Snap{store: c21CopyBytesMap(r.st.m), refSlot: c21CopyBytesMap(r.refSlot), refArr: map[string][][]byte{}, slotOwner: map[string]string{}, dirty: r.dirty}
		for k, v := range r.refArr {
			sn.refArr[k] = append([][]byte{}, v...)
		}
		for k, v := range r.slotOwner {
			sn.slotOwner[k] = v
		}
		r.snap = sn
		return "ok"
	case "rollback":
		// the store goes back to the snapshot (a reverted transaction); handles stay alive
		if len(t) != 1 || r.snap == nil {
			return "bad-op"
		}
		r.st.m = c21CopyBytesMap(r.snap.store)
		r.refSlot = c21CopyBytesMap(r.snap.refSlot)
		r.refArr = map[string][][]byte{}
		for k, v := range r.snap.refArr {
			r.refArr[k] = append([][]byte{}, v...)
		}
		// ownership only grows: slots touched since the snapshot keep their owner
		r.dirty = r.dirty || r.snap.dirty
		o.Count("store-rolled-back")
		return "ok"
	case "hnew":
		if len(t) != 3 {
			return "bad-op"
		}
		n, err := strconv.Atoi(t[1])
		if err != nil || n < 0 {
			return "bad-op"
		}
		k, ok := r.parseKB(t[2])
		if !ok {
			return "bad-op"
		}
		r.handles[n] = &c21Handle{k: k, a: containerdb.NewArrayDB(r.st, k.kb), v: containerdb.NewVarDB(r.st, k.kb)}
		o.Count("kept-container-handle")
		return "ok"
	case "hasize", "haget", "haset", "haput", "hapop", "hvget", "hvset", "hvdel":
		if len(t) < 2 {
			return "bad-op"
		}
		n, err := strconv.Atoi(t[1])
		if err != nil || n < 0 {
			return "bad-op"
		}
		want := map[string]int{"hasize": 2, "haget": 3, "haset": 4, "haput": 3, "hapop": 2, "hvget": 2, "hvset": 3, "hvdel": 2}[t[0]]
		if len(t) != want {
			return "bad-op"
		}
		var part interface{}
		var idx int
		var ok bool
		switch t[0] {
		case "haput", "hvset":
			if part, ok = c21Part(t[2]); !ok {
				return "bad-op"
			}
		case "haget", "haset":
			v, err := strconv.ParseInt(t[2], 10, 64)
			if err != nil {
				return "bad-op"
			}
			idx = int(v)
			if t[0] == "haset" {
				if part, ok = c21Part(t[3]); !ok {
					return "bad-op"
				}
			}
		}
		h, ok := r.handles[n]
		if !ok {
			return "bad-op"
		}
		defer r.checkKept(o)
		if t[0][1] == 'a' {
			return r.arrayOp(t[0][1:], h.k, idx, part, o, h.a)
		}
		return r.varOp(t[0][1:], h.k, part, o, h.v)
	case "kbnew":
		if len(t) != 3 {
			return "bad-op"
		}
		n, err := strconv.Atoi(t[1])
		if err != nil || n < 0 {
			return "bad-op"
		}
		k, ok := r.parseKB(t[2])
		if !ok {
			return "bad-op"
		}
		key := r.noteKey(k, o)
		r.kbs[n] = k
		r.kbKey[n] = append([]byte{}, key...)
		o.Count("kept-builder-" + strings.SplitN(k.class, ":", 2)[0])
		r.checkKept(o)
		return hx(key)
	case "dnew":
		if len(t) != 4 {
			return "bad-op"
		}
		n, err := strconv.Atoi(t[1])
		d, err2 := strconv.ParseInt(t[3], 10, 64)
		if err != nil || err2 != nil || n < 0 {
			return "bad-op"
		}
		k, ok := r.parseKB(t[2])
		if !ok {
			return "bad-op"
		}
		r.dicts[n] = &c21Dict{d: containerdb.NewDictDB(r.st, int(d), k.kb), sem: k.semAppend(), depth: int(d)}
		return "ok"
	case "dgetdb":
		if len(t) != 4 {
			return "bad-op"
		}
		n2, err := strconv.Atoi(t[1])
		n, err2 := strconv.Atoi(t[2])
		if err != nil || err2 != nil || n2 < 0 || n < 0 {
			return "bad-op"
		}
		ks, ok := c21Parts(t[3])
		if !ok {
			return "bad-op"
		}
		p, ok := r.dicts[n]
		if !ok {
			return "bad-op"
		}
		if p.d == nil {
			return "nodb"
		}
		sub := p.d.GetDB(ks...)
		o.Check((sub == nil) == (len(ks) >= p.depth), "dict-getdb-depth-check", "GetDB with %d keys on depth %d nil=%v", len(ks), p.depth, sub == nil)
		r.dicts[n2] = &c21Dict{d: sub, sem: p.sem.semAppend(ks...), depth: p.depth - len(ks)}
		o.Count("kept-subdict")
		if sub == nil {
			return "nodb"
		}
		return "ok"
	case "sdget", "sdset", "sddel":
		want := map[string]int{"sdget": 3, "sdset": 4, "sddel": 3}[t[0]]
		if len(t) != want {
			return "bad-op"
		}
		n, err := strconv.Atoi(t[1])
		if err != nil || n < 0 {
			return "bad-op"
		}
		ks, ok := c21Parts(t[2])
		if !ok {
			return "bad-op"
		}
		var part interface{}
		if t[0] == "sdset" {
			if part, ok = c21Part(t[3]); !ok {
				return "bad-op"
			}
		}
		p, ok := r.dicts[n]
		if !ok {
			return "bad-op"
		}
		if p.d == nil {
			return "nodb"
		}
		e := p.sem.semAppend(ks...)
		sid := e.id()
		if e.class == "W" {
			r.dirty = true // raw builders: slot identity is not the part list
		}
		good := len(ks) == p.depth
		if good {
			if prev, ok := r.slotOwner[sid]; ok && prev != "plain" {
				r.dirty = true
			} else {
				r.slotOwner[sid] = "plain"
			}
		}
		defer r.checkKept(o)
		switch t[0] {
		case "sdget":
			got := p.d.Get(ks...)
			if good && !r.dirty {
				ref := r.refSlot[sid]
				o.Check((got == nil) == (ref == nil) && (got == nil || bytes.Equal(got.Bytes(), ref)), "kept-dict-get-unexpected", "entry %s through a kept (sub)dictionary = %s, expected %s", sid, c21ShowValue(got), c21Show(ref))
			}
			if !good {
				o.Check(got == nil, "dict-get-wrong-depth-not-nil", "Get with %d keys on depth %d returned a value", len(ks), p.depth)
			}
			return c21ShowValue(got)
		case "sdset":
			err := p.d.Set(append(append([]interface{}{}, ks...), part)...)
			o.Check((err == nil) == good, "dict-set-depth-check", "Set with %d keys on depth %d: %v", len(ks), p.depth, err)
			if err != nil {
				return "err"
			}
			r.refSlot[sid] = append([]byte{}, containerdb.ToBytes(part)...)
			return "ok"
		default:
			err := p.d.Delete(ks...)
			o.Check((err == nil) == good, "dict-delete-depth-check", "Delete with %d keys on depth %d: %v", len(ks), p.depth, err)
			if err != nil {
				return "err"
			}
			delete(r.refSlot, sid)
			return "ok"
		}
	}
	// everything below takes a key builder as first argument
	if t[0] == "dump" {
		if len(t) != 1 {
			return "bad-op"
		}
		var es []string
		for k, v := range r.st.m {
			es = append(es, hx([]byte(k))+"="+hx(v))
		}
		if len(es) == 0 {
			return "empty"
		}
		sort.Strings(es)
		return strings.Join(es, ",")
	}
	if len(t) < 2 {
		return "bad-op"
	}
	argc := map[string]int{"build": 2, "vget": 2, "vset": 3, "vdel": 2, "asize": 2, "aget": 3, "aset": 4, "aput": 3, "apop": 2,
		"dget": 4, "dset": 5, "ddel": 4, "dsub": 5}
	if n, ok := argc[t[0]]; !ok || n != len(t) {
		return "bad-op"
	}
	// parse the remaining arguments before touching the builder (ToKey may panic)
	var part interface{}
	var idx int
	var depth int
	var ks, ks2 []interface{}
	var ok bool
	switch t[0] {
	case "vset", "aput":
		if part, ok = c21Part(t[2]); !ok {
			return "bad-op"
		}
	case "aget", "aset":
		v, err := strconv.ParseInt(t[2], 10, 64)
		if err != nil {
			return "bad-op"
		}
		idx = int(v)
		if t[0] == "aset" {
			if part, ok = c21Part(t[3]); !ok {
				return "bad-op"
			}
		}
	case "dget", "dset", "ddel", "dsub":
		d, err := strconv.ParseInt(t[2], 10, 64)
		if err != nil {
			return "bad-op"
		}
		depth = int(d)
		if ks, ok = c21Parts(t[3]); !ok {
			return "bad-op"
		}
		if t[0] == "dset" {
			if part, ok = c21Part(t[4]); !ok {
				return "bad-op"
			}
		}
		if t[0] == "dsub" {
			if ks2, ok = c21Parts(t[4]); !ok {
				return "bad-op"
			}
		}
	}
	k, ok := r.parseKB(t[1])
	if !ok {
		return "bad-op"
	}
	o.Count("builder-" + strings.SplitN(k.class, ":", 2)[0])
	defer r.checkKept(o)
	switch t[0] {
	case "build":
		return hx(r.noteKey(k, o))
	case "vget", "vset", "vdel":
		return r.varOp(t[0], k, part, o, nil)
	case "asize", "aget", "aset", "aput", "apop":
		return r.arrayOp(t[0], k, idx, part, o, nil)
	case "dget", "dset", "ddel", "dsub":
		d := containerdb.NewDictDB(r.st, depth, k.kb)
		switch t[0] {
		case "dget":
			got := d.Get(ks...)
			if len(ks) == depth {
				e := k.Append(ks...)
				r.noteKey(e, o)
				r.own(e, "plain", o)
				if !r.dirty {
					ref := r.refSlot[r.slotID(e)]
					o.Check((got == nil) == (ref == nil) && (got == nil || bytes.Equal(got.Bytes(), ref)), "dict-get-unexpected", "dict entry %s = %s, expected %s", e.id(), c21ShowValue(got), c21Show(ref))
				}
			} else {
				o.Check(got == nil, "dict-get-wrong-depth-not-nil", "Get with %d keys on depth %d returned a value", len(ks), depth)
				o.Count("dict-wrong-depth")
			}
			return c21ShowValue(got)
		case "dset":
			err := d.Set(append(append([]interface{}{}, ks...), part)...)
			o.Check((err == nil) == (len(ks) == depth), "dict-set-depth-check", "Set with %d keys on depth %d: %v", len(ks), depth, err)
			if err != nil {
				o.Count("dict-wrong-depth")
				return "err"
			}
			e := k.Append(ks...)
			r.noteKey(e, o)
			r.own(e, "plain", o)
			r.refSlot[r.slotID(e)] = append([]byte{}, containerdb.ToBytes(part)...)
			return "ok"
		case "ddel":
			err := d.Delete(ks...)
			o.Check((err == nil) == (len(ks) == depth), "dict-delete-depth-check", "Delete with %d keys on depth %d: %v", len(ks), depth, err)
			if err != nil {
				o.Count("dict-wrong-depth")
				return "err"
			}
			e := k.Append(ks...)
			r.noteKey(e, o)
			r.own(e, "plain", o)
			delete(r.refSlot, r.slotID(e))
			return "ok"
		default:
			sub := d.GetDB(ks...)
			o.Check((sub == nil) == (len(ks) >= depth), "dict-getdb-depth-check", "GetDB with %d keys on depth %d nil=%v", len(ks), depth, sub == nil)
			if sub == nil {
				return "nodb"
			}
			got := sub.Get(ks2...)
			// the same entry through the parent
			if len(ks)+len(ks2) == depth {
				direct := d.Get(append(append([]interface{}{}, ks...), ks2...)...)
				o.Check(c21ShowValue(direct) == c21ShowValue(got), "dict-subdb-differs-from-parent", "GetDB(%s).Get(%s)=%s but Get(all)=%s", t[3], t[4], c21ShowValue(got), c21ShowValue(direct))
				o.Count("dict-subdb-read")
			}
			return c21ShowValue(got)
		}
	}
	return "bad-op"
}

func (r *c21Runner) varOp(op string, k c21KB, part interface{}, o *Oracle, kept *containerdb.VarDB) string {
	r.noteKey(k, o)
	r.own(k, "plain", o)
	sid := r.slotID(k)
	v := kept
	if v == nil {
		v = containerdb.NewVarDB(r.st, k.kb)
	}
	switch op {
	case "vget":
		got := v.Bytes()
		if !r.dirty {
			o.Check(bytes.Equal(got, r.refSlot[sid]) && (got == nil) == (r.refSlot[sid] == nil), "var-get-unexpected", "var %s = %s, expected %s", sid, c21Show(got), c21Show(r.refSlot[sid]))
		}
		return c21Show(got)
	case "vset":
		if err := v.Set(part); err != nil {
			return "err"
		}
		r.refSlot[sid] = append([]byte{}, containerdb.ToBytes(part)...)
		return "ok"
	default:
		old, err := v.Delete()
		if err != nil {
			return "err"
		}
		if !r.dirty {
			o.Check(bytes.Equal(old.Bytes(), r.refSlot[sid]), "var-delete-old-value", "var %s delete returned %s, expected %s", sid, c21ShowValue(old), c21Show(r.refSlot[sid]))
		}
		delete(r.refSlot, sid)
		return c21ShowValue(old)
	}
}

func (r *c21Runner) arrayOp(op string, k c21KB, idx int, part interface{}, o *Oracle, kept *containerdb.ArrayDB) string {
	aid := "arr:" + r.slotID(k)
	r.noteKey(k, o)
	r.own(k, aid, o)
	a := kept
	if a == nil {
		a = containerdb.NewArrayDB(r.st, k.kb)
	}
	ref := r.refArr[aid]
	elem := func(i int) c21KB {
		e := k.Append(i)
		r.noteKey(e, o)
		r.own(e, aid, o)
		return e
	}
	switch op {
	case "asize":
		n := a.Size()
		if !r.dirty {
			o.Check(n == len(ref), "array-size-unexpected", "array %s size %d, expected %d", aid, n, len(ref))
		}
		return strconv.Itoa(n)
	case "aget":
		elem(idx)
		got := a.Get(idx)
		if !r.dirty {
			var exp []byte
			if idx >= 0 && idx < len(ref) {
				exp = ref[idx]
			}
			o.Check((got == nil) == (exp == nil) && (got == nil || bytes.Equal(got.Bytes(), exp)), "array-get-unexpected", "array %s [%d] = %s, expected %s", aid, idx, c21ShowValue(got), c21Show(exp))
		}
		return c21ShowValue(got)
	case "aset":
		n := a.Size()
		if idx >= 0 && idx < n {
			elem(idx)
		}
		err := a.Set(idx, part)
		if !r.dirty {
			o.Check((err == nil) == (idx >= 0 && idx < len(ref)), "array-set-bounds", "array %s (len %d) Set(%d): %v", aid, len(ref), idx, err)
		}
		if err != nil {
			o.Count("array-set-out-of-range")
			return "err"
		}
		if !r.dirty && idx < len(ref) {
			ref[idx] = append([]byte{}, containerdb.ToBytes(part)...)
		}
		return "ok"
	case "aput":
		elem(a.Size())
		if err := a.Put(part); err != nil {
			return "err"
		}
		r.refArr[aid] = append(ref, append([]byte{}, containerdb.ToBytes(part)...))
		if !r.dirty {
			o.Check(a.Size() == len(ref)+1, "array-put-size", "array %s size after Put %d, expected %d", aid, a.Size(), len(ref)+1)
		}
		o.Count(c21SizeClass(len(ref) + 1))
		return "ok"
	default:
		if n := a.Size(); n > 0 {
			elem(n - 1)
		}
		got := a.Pop()
		if !r.dirty {
			if len(ref) == 0 {
				o.Check(got == nil, "array-pop-empty-not-nil", "Pop on empty array %s returned %s", aid, c21ShowValue(got))
				o.Count("array-pop-empty")
			} else {
				o.Check(got != nil && bytes.Equal(got.Bytes(), ref[len(ref)-1]), "array-pop-unexpected", "array %s Pop = %s, expected %x", aid, c21ShowValue(got), ref[len(ref)-1])
				r.refArr[aid] = ref[:len(ref)-1]
				if len(ref) == 1 {
					sz, _ := r.st.GetValue(k.kb.Build())
					o.Check(sz == nil, "array-empty-leaves-size-slot", "size slot of emptied array %s still holds %x", aid, sz)
				}
			}
		}
		if got == nil {
			return "none"
		}
		return c21Show(got.Bytes())
	}
}

func c21LenClass(n int) string {
	switch {
	case n == 0:
		return "partlen-0"
	case n == 1:
		return "partlen-1"
	case n <= 55:
		return "partlen-2..55"
	case n <= 255:
		return "partlen-56..255"
	case n <= 65535:
		return "partlen-256..65535"
	}
	return "partlen->65535"
}

func c21SizeClass(n int) string {
	switch {
	case n <= 1:
		return "arrlen-1"
	case n <= 127:
		return "arrlen-2..127"
	case n <= 255:
		return "arrlen-128..255"
	}
	return "arrlen->255"
}

// ---------------------------------------------------------------- generator

func c21GenInt(g *Gen) int64 {
	switch g.Intn(5) {
	case 0:
		return int64(g.Intn(5) - 2)
	case 1:
		k := uint(g.Intn(63))
		v := int64(1)<<k + int64(g.Intn(5)-2)
		if g.Intn(2) == 0 {
			v = -v
		}
		return v
	case 2:
		return int64(g.Pick(127, 128, 129, 255, 256, -128, -129, -256, -257, 32767, 32768, -32768, -32769))
	case 3:
		if g.Intn(2) == 0 {
			return int64(-1) << 63
		}
		return int64(^uint64(0) >> 1)
	default:
		return int64(g.R.Uint64()) >> uint(g.Intn(64))
	}
}

func c21GenBytes(g *Gen) []byte {
	switch g.Intn(12) {
	case 0:
		return []byte{}
	case 1:
		return []byte{byte(g.Pick(0, 1, 0x7f, 0x80, 0x81, 0xff))}
	case 2:
		return g.Bytes(g.Pick(54, 55, 56, 57))
	case 3:
		return g.Bytes(g.Pick(255, 256, 257))
	case 4:
		if g.Intn(6) == 0 {
			return g.Bytes(g.Pick(65535, 65536, 65537))
		}
		return g.Bytes(1 + g.Intn(3))
	case 5:
		return []byte([]string{"a", "b", "ab", "name", "balances"}[g.Intn(5)])
	default:
		return g.Bytes(1 + g.Intn(6))
	}
}

func c21GenPart(g *Gen, small bool) string {
	switch g.Intn(12) {
	case 0:
		return fmt.Sprintf("b:%d", g.Intn(2))
	case 1:
		v := c21GenInt(g)
		if small {
			v = int64(g.Intn(4))
		}
		return fmt.Sprintf("%s:%d", []string{"i", "i64"}[g.Intn(2)], v)
	case 2:
		return fmt.Sprintf("i32:%d", int32(c21GenInt(g)))
	case 3:
		return fmt.Sprintf("i16:%d", int16(c21GenInt(g)))
	case 4:
		v := big.NewInt(c21GenInt(g))
		if !small && g.Intn(2) == 0 {
			v.Lsh(v, uint(g.Intn(200)))
			v.Add(v, big.NewInt(int64(g.Intn(3)-1)))
		}
		return fmt.Sprintf("%s:%s", []string{"g", "x"}[g.Intn(2)], v.String())
	case 5:
		return fmt.Sprintf("y:%02x", g.Pick(0, 1, 2, 0x7f, 0x80, 0xff, g.Intn(256)))
	case 6:
		id := g.Bytes(20)
		if g.Intn(3) == 0 {
			id = bytes.Repeat([]byte{byte(g.Intn(2))}, 20)
		}
		return fmt.Sprintf("a:%d:%x", g.Intn(2), id)
	case 7:
		return "v:" + hx(c21GenBytes(g))
	case 8:
		return "B:" + hx(c21GenBytes(g))
	default:
		b := c21GenBytes(g)
		if small {
			b = []byte([]string{"a", "b", "ab", "", "\x01"}[g.Intn(5)])
		}
		return "s:" + hx(b)
	}
}

func c21GenParts(g *Gen, max int, small bool) string {
	n := g.Intn(max + 1)
	if n == 0 {
		return "_"
	}
	ps := make([]string, n)
	for i := range ps {
		ps[i] = c21GenPart(g, small)
	}
	return strings.Join(ps, ";")
}

func c21GenKB(g *Gen) string {
	// scoredb style prefixes and the other builder classes
	var head string
	switch g.Intn(10) {
	case 0, 1, 2, 3, 4:
		head = "H"
	case 5:
		head = "R"
	case 6:
		head = "P"
	case 7:
		head = "W"
	case 8:
		head = "N:" + hx(g.Bytes(g.Intn(3)))
	default:
		head = "N:" + hx([]byte{byte(g.Pick(0x61, 0x00, 0x80, 0x81))})
	}
	var g0 string
	switch g.Intn(4) {
	case 0:
		g0 = fmt.Sprintf("y:%02x;%s", g.Intn(3), c21GenPart(g, true))
	case 1:
		g0 = fmt.Sprintf("y:%02x", g.Intn(3))
	case 2:
		g0 = c21GenParts(g, 3, true)
	default:
		g0 = fmt.Sprintf("y:%02x;s:%s", g.Intn(3), hx([]byte([]string{"a", "b", "ab"}[g.Intn(3)])))
	}
	if head == "P" && g0 == "_" && g.Intn(4) != 0 {
		g0 = "s:70"
	}
	s := head + "/" + g0
	for i := g.Intn(3); i > 0; i-- {
		s += "/" + c21GenParts(g, 2, true)
	}
	return s
}

func c21MutateKey(g *Gen, b []byte) []byte {
	b = append([]byte{}, b...)
	switch g.Intn(6) {
	case 0:
		if len(b) > 0 {
			b = b[:g.Intn(len(b))]
		}
	case 1:
		if len(b) > 0 {
			b[g.Intn(len(b))] = byte(g.Pick(0x00, 0x7f, 0x80, 0x81, 0xb7, 0xb8, 0xb9, 0xbf, 0xc0, 0xff))
		}
	case 2:
		// non minimal long form: b8 <len<56>
		n := g.Intn(60)
		b = append([]byte{0xb8, byte(n)}, g.Bytes(n)...)
	case 3:
		// leading zero size byte
		n := 56 + g.Intn(10)
		b = append([]byte{0xb9, 0x00, byte(n)}, g.Bytes(n)...)
	case 4:
		// huge declared size
		ts := 1 + g.Intn(8)
		b = append([]byte{byte(0xb7 + ts)}, g.Bytes(ts)...)
		if g.Intn(2) == 0 && ts == 8 {
			b[1] |= 0x80
		}
		b = append(b, g.Bytes(g.Intn(4))...)
	default:
		b = append(b, g.Bytes(1+g.Intn(3))...)
	}
	return b
}

func c21Gen(g *Gen) {
	for c := 0; c < g.N; c++ {
		x := g.Intn(100)
		burst := 1
		if x < 56 {
			burst = 8 // stateless ops are cheap: emit several per case slot
		}
		for b := 0; b < burst; b++ {
			c21GenOne(g, x)
			if x < 56 {
				x = g.Intn(56)
			}
		}
	}
	g.Emit("reset")
	g.Emit("aget H/_ x")
	g.Emit("build Q/_")
	g.Emit("tobytes z:1")
	g.Emit("dset H/_ 1 _")
	g.Emit("build @7")
	g.Emit("kbnew x H/_")
	g.Emit("sdget 3 _")
	g.Emit("dgetdb 1 2 _")
	g.Emit("rollback")
	g.Emit("hasize 9")
	g.Emit("hnew 1 P/_")
	g.Emit("haget 1 x")
	g.Emit("snap 1")
}

func c21GenOne(g *Gen, x int) {
	{
		switch {
		case x < 12:
			g.Emit("tobytes %s", c21GenPart(g, false))
		case x < 30:
			pre := g.Bytes(g.Intn(4))
			g.Emit("append %s %s", hx(pre), c21GenParts(g, 4, false))
		case x < 34:
			g.Emit("rawappend %s %s", hx(g.Bytes(g.Intn(4))), c21GenParts(g, 4, false))
		case x < 46:
			// split of valid, mutated and random keys
			var parts []interface{}
			for i := g.Intn(4); i > 0; i-- {
				parts = append(parts, c21GenBytes(g))
			}
			b := containerdb.AppendKeys(nil, parts...)
			if g.Intn(3) != 0 {
				b = c21MutateKey(g, b)
			}
			if len(b) > 300 {
				b = b[:g.Intn(300)]
			}
			g.Emit("split %s", hx(b))
		case x < 56:
			g.Emit("build %s", c21GenKB(g))
		default:
			c21GenCase(g)
		}
	}
}

// c21GenHandles: long-lived container objects: two ArrayDB handles on one key path used
// alternately (and against fresh handles), and handles that outlive a rollback of the store.
func c21GenHandles(g *Gen) {
	cls := []string{"H/y:00/s:68616e64", "R/y:00/s:68616e64", "P/s:70;y:00/s:68616e64", "N:0102/y:00/s:68616e64", "W/s:68616e64"}[g.Intn(5)]
	val := func() string { return "s:" + hx(g.Bytes(1+g.Intn(3))) }
	g.Emit("hnew 20 %s", cls)
	for i := g.Intn(3); i > 0; i-- {
		g.Emit("haput 20 %s", val())
	}
	g.Emit("hnew 21 %s", cls)
	snapped := false
	for i := 6 + g.Intn(24); i > 0; i-- {
		h := 20 + g.Intn(2)
		switch g.Intn(14) {
		case 0, 1, 2:
			g.Emit("haput %d %s", h, val())
		case 3:
			g.Emit("hapop %d", h)
		case 4, 5:
			g.Emit("hasize %d", h)
		case 6:
			g.Emit("haget %d %d", h, g.Intn(5))
		case 7:
			g.Emit("haset %d %d %s", h, g.Intn(4), val())
		case 8:
			// the same array through a fresh handle
			switch g.Intn(3) {
			case 0:
				g.Emit("aput %s %s", cls, val())
			case 1:
				g.Emit("apop %s", cls)
			default:
				g.Emit("asize %s", cls)
			}
		case 9:
			g.Emit("snap")
			snapped = true
		case 10, 11:
			if snapped {
				g.Emit("rollback")
				g.Emit("hasize %d", h)
				g.Emit("haput %d %s", h, val())
				g.Emit("hasize %d", 41-h)
			}
		case 12:
			g.Emit("hnew %d %s", h, cls) // re-open
		default:
			vk := strings.Replace(cls, "y:00", "y:02", 1)
			g.Emit("hnew 22 %s", vk)
			g.Emit("hvset 22 %s", val())
			g.Emit("snap")
			snapped = true
			g.Emit("hvset 22 %s", val())
			g.Emit("hvget 22")
			g.Emit("rollback")
			g.Emit("hvget 22")
			g.Emit("hvdel 22")
		}
	}
	g.Emit("hasize 20")
	g.Emit("hasize 21")
	g.Emit("asize %s", cls)
}

// c21GenFamily: one parent builder kept alive, several children derived from it and kept
// alive simultaneously (builders, containers on them, GetDB sub-dictionaries); every child
// is used again after its siblings were derived.
func c21GenFamily(g *Gen) {
	parents := []string{"H/y:00", "H/y:01;s:6e", "H/_", "R/y:02", "R/s:6e616d65", "P/s:70", "P/s:70;y:01", "W/s:70", "N:0102/y:00", "N:/s:61",
		"H/y:02;s:" + hx(g.Bytes(g.Intn(40))), "R/s:" + hx(g.Bytes(g.Intn(70)))}
	g.Emit("kbnew 0 %s", parents[g.Intn(len(parents))])
	if g.Intn(3) == 0 {
		// a longer chain: the kept parent is itself a derived builder
		g.Emit("kbnew 0 @0/%s", c21GenPart(g, true))
	}
	// sibling parts: mostly equal encoded length, all distinct
	var sib []string
	switch g.Intn(4) {
	case 0:
		sib = []string{"s:6161", "s:6262", "s:6363", "s:6464", "s:6565", "s:6666", "s:6767"}
	case 1:
		sib = []string{"i:1", "i:2", "i:3", "i:4", "i:5", "i:6", "i:7"}
	case 2:
		sib = []string{"s:61", "s:626262", "i:300", "s:63", "y:80", "s:6465", "i:70000"}
	default:
		for i := 0; i < 7; i++ {
			sib = append(sib, fmt.Sprintf("s:%02x%s", i, hx(g.Bytes(1+g.Intn(3)))))
		}
	}
	g.R.Shuffle(len(sib), func(i, j int) { sib[i], sib[j] = sib[j], sib[i] })
	val := func() string { return "s:" + hx(g.Bytes(1+g.Intn(3))) }
	// kept builders 1..4: two variables, two arrays
	g.Emit("kbnew 1 @0/%s", sib[0])
	g.Emit("vset @1 %s", val())
	g.Emit("kbnew 2 @0/%s", sib[1])
	g.Emit("build @1")
	g.Emit("vset @2 %s", val())
	g.Emit("vget @1")
	g.Emit("kbnew 3 @0/%s", sib[2])
	g.Emit("aput @3 %s", val())
	g.Emit("kbnew 4 @0/%s", sib[3])
	g.Emit("aput @4 %s", val())
	g.Emit("aput @3 %s", val())
	g.Emit("vget @1")
	g.Emit("vget @2")
	g.Emit("asize @3")
	g.Emit("aget @3 1")
	g.Emit("aget @4 0")
	// a dictionary on the parent and two kept sub-dictionaries
	depth := 2 + g.Intn(2)
	g.Emit("dnew 5 @0 %d", depth)
	g.Emit("dgetdb 6 5 %s", sib[4])
	rest := func() string {
		ps := make([]string, depth-1)
		for i := range ps {
			ps[i] = []string{"s:6b", "i:1", "b:1"}[i%3]
		}
		return strings.Join(ps, ";")
	}
	g.Emit("sdset 6 %s %s", rest(), val())
	g.Emit("dgetdb 7 5 %s", sib[5])
	g.Emit("sdset 7 %s %s", rest(), val())
	g.Emit("sdget 6 %s", rest())
	g.Emit("sdget 7 %s", rest())
	g.Emit("sdget 5 %s;%s", sib[4], rest())
	if depth == 3 {
		g.Emit("dgetdb 8 6 s:6b")
		g.Emit("dgetdb 9 6 s:6c")
		g.Emit("sdset 8 b:1 %s", val())
		g.Emit("sdget 9 b:1")
		g.Emit("sdget 8 b:1")
	}
	// random further use of everything that is kept
	for i := 4 + g.Intn(12); i > 0; i-- {
		switch g.Intn(9) {
		case 0:
			g.Emit("build @%d", 1+g.Intn(4))
		case 1:
			g.Emit("vget @%d", 1+g.Intn(2))
		case 2:
			g.Emit("vset @%d %s", 1+g.Intn(2), val())
		case 3:
			g.Emit("aput @%d %s", 3+g.Intn(2), val())
		case 4:
			g.Emit("apop @%d", 3+g.Intn(2))
		case 5:
			g.Emit("kbnew %d @0/%s", 10+g.Intn(3), sib[6]) // yet another sibling
		case 6:
			g.Emit("sdget %d %s", 6+g.Intn(2), rest())
		case 7:
			g.Emit("sdset %d %s %s", 6+g.Intn(2), rest(), val())
		default:
			g.Emit("dget @0 %d %s;%s", depth, sib[4+g.Intn(2)], rest())
		}
	}
}

// one stateful case: a few containers, random operations, final dump
func c21GenCase(g *Gen) {
	g.Emit("reset")
	clean := g.Intn(4) != 0
	type cont struct {
		kind  string
		kb    string
		depth int
	}
	var cs []cont
	n := 1 + g.Intn(4)
	names := []string{"a", "b", "ab", "c", "balances"}
	g.R.Shuffle(len(names), func(i, j int) { names[i], names[j] = names[j], names[i] })
	for i := 0; i < n; i++ {
		kind := []string{"arr", "dict", "var"}[g.Intn(3)]
		var kb string
		if clean {
			// scoredb layout: ToKey(HashBuilder, tag[, name]).Append(keys...), distinct names
			tag := map[string]int{"arr": 0, "dict": 1, "var": 2}[kind]
			cls := []string{"H", "H", "H", "R", "P/s:70", "N:0102"}[g.Intn(6)]
			sep := "/"
			if strings.Contains(cls, "/") {
				sep = ";"
			}
			if kind == "dict" && g.Intn(2) == 0 {
				kb = fmt.Sprintf("%s%sy:%02x;s:%s", cls, sep, tag, hx([]byte(names[i])))
			} else {
				kb = fmt.Sprintf("%s%sy:%02x/s:%s", cls, sep, tag, hx([]byte(names[i])))
			}
		} else {
			kb = c21GenKB(g)
		}
		cs = append(cs, cont{kind, kb, 1 + g.Intn(3)})
	}
	steps := 5 + g.Intn(40)
	if g.Intn(12) == 0 {
		steps += 140 + g.Intn(160) // long arrays: size crosses 127/128/255/256
	}
	if g.Intn(2) == 0 {
		c21GenFamily(g)
	}
	if g.Intn(2) == 0 {
		c21GenHandles(g)
	}
	for i := 0; i < steps; i++ {
		c := cs[g.Intn(len(cs))]
		switch c.kind {
		case "var":
			switch g.Intn(5) {
			case 0:
				g.Emit("vdel %s", c.kb)
			case 1, 2:
				g.Emit("vset %s %s", c.kb, c21GenPart(g, false))
			default:
				g.Emit("vget %s", c.kb)
			}
		case "arr":
			long := steps > 100
			switch x := g.Intn(20); {
			case x < 8 || (long && x < 14):
				g.Emit("aput %s %s", c.kb, c21GenPart(g, false))
			case x < 11:
				if long && g.Intn(3) != 0 {
					g.Emit("asize %s", c.kb)
				} else {
					g.Emit("apop %s", c.kb)
				}
			case x < 14:
				g.Emit("aget %s %d", c.kb, g.Pick(0, 1, 2, 3, -1, 127, 128, 255, 256, g.Intn(300)))
			case x < 17:
				g.Emit("aset %s %d %s", c.kb, g.Pick(0, 1, 2, -1, g.Intn(6), g.Intn(300)), c21GenPart(g, false))
			default:
				g.Emit("asize %s", c.kb)
			}
		default:
			d := c.depth
			if g.Intn(5) == 0 {
				// the same builder seen as a dictionary of another depth: entries written with
				// fewer / more keys sit on the paths a wrong-depth access would touch
				d = 1 + g.Intn(3)
			}
			keys := func(n int) string {
				if n <= 0 {
					return "_"
				}
				ps := make([]string, n)
				for i := range ps {
					ps[i] = c21GenPart(g, true)
				}
				return strings.Join(ps, ";")
			}
			nk := d
			if g.Intn(6) == 0 {
				nk = g.Intn(d + 2)
			}
			switch g.Intn(8) {
			case 0, 1, 2:
				g.Emit("dset %s %d %s %s", c.kb, d, keys(nk), c21GenPart(g, false))
			case 3:
				g.Emit("ddel %s %d %s", c.kb, d, keys(nk))
			case 4:
				k1 := g.Intn(d + 1)
				g.Emit("dsub %s %d %s %s", c.kb, d, keys(k1), keys(d-k1))
			default:
				g.Emit("dget %s %d %s", c.kb, d, keys(nk))
			}
		}
	}
	g.Emit("dump")
}
