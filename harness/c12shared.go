//go:build c12 || c13 || all

package main

// Generator helpers shared by the C12 and C13 harnesses: random JSON values
// rendered with whitespace / ordering / escape variants, random version-3
// transactions, signing classes, mutations.

import (
	"encoding/base64"
	"encoding/hex"
	"encoding/json"
	"fmt"
	"math/rand"
	"sort"
	"strconv"
	"strings"

	"github.com/icon-project/goloop/common"
	"github.com/icon-project/goloop/common/crypto"
	"github.com/icon-project/goloop/service/transaction"
)

// ---------------------------------------------------------------------------
// JSON generation: an ordered value tree rendered with whitespace / escape /
// ordering variants.
// ---------------------------------------------------------------------------

type c12Num string // raw number token
type c12KV struct {
	K string
	V interface{}
}
type c12Obj []c12KV

func c12RandString(g *Gen) string {
	n := g.Pick(0, 0, 1, 2, 3, 5, 8, 1+g.Intn(12))
	var sb strings.Builder
	for i := 0; i < n; i++ {
		switch g.Intn(12) {
		case 0, 1:
			sb.WriteByte("\\{}[]."[g.Intn(6)])
		case 2:
			sb.WriteString([]string{"\"", "/", "\n", "\t", "\\0", "0", "\x7f", "\b"}[g.Intn(8)])
		case 3:
			sb.WriteString([]string{"é", "한", "😀", " ", "ÿ", " "}[g.Intn(6)])
		case 4:
			sb.WriteByte(byte('0' + g.Intn(10)))
		default:
			sb.WriteByte(byte('a' + g.Intn(26)))
		}
	}
	return sb.String()
}

// c12BigNum: bare literals around and beyond 2^53 (float64 rounding visible), int64
// boundaries, beyond int64, and big non-integers.
func c12BigNum(g *Gen) c12Num {
	neg := ""
	if g.Intn(3) == 0 {
		neg = "-"
	}
	switch g.Intn(10) {
	case 0:
		return c12Num(neg + strconv.FormatUint(uint64(1)<<53+uint64(g.Intn(5))-2, 10))
	case 1:
		return c12Num(neg + []string{"10000000000000001", "10000000000000000", "99999999999999999", "1234567890123456789", "123456789012345678", "9007199254740993", "9007199254740995", "18014398509481985", "18014398509481987"}[g.Intn(9)])
	case 2:
		return c12Num(neg + []string{"9223372036854775807", "9223372036854775806", "9223372036854775295", "9223372036854775296", "9223372036854774784", "9223372036854775808", "9223372036854775809", "9223372036854777856"}[g.Intn(8)])
	case 3:
		return c12Num(neg + []string{"18446744073709551615", "18446744073709551616", "100000000000000000000", "12345678901234567890123", "1e19", "1e30"}[g.Intn(6)])
	case 4, 5:
		v := g.R.Uint64() >> uint(g.Intn(11))
		if v < 1<<53 {
			v |= 1 << 53
		}
		if v >= 1<<63 && g.Intn(3) > 0 {
			v >>= 1
		}
		return c12Num(neg + strconv.FormatUint(v, 10))
	case 6:
		return c12Num(neg + fmt.Sprintf("%d.%d", g.R.Uint64()>>uint(1+g.Intn(12)), g.Intn(1000)))
	case 7:
		return c12Num(neg + fmt.Sprintf("%de%d", g.R.Uint64()>>uint(20+g.Intn(30)), g.Intn(8)))
	case 8:
		return c12Num(neg + []string{"1.5", "1e3", "0.9999999999999999", "0.99999999999999999", "4503599627370495.5", "4503599627370496.5", "9007199254740991.5", "2.9999999999999997", "2.9999999999999999", "1e-5", "123456789e-3"}[g.Intn(11)])
	default:
		return c12Num(neg + fmt.Sprintf("%d%03de-3", g.R.Uint64()>>uint(4+g.Intn(20)), g.Intn(1000)))
	}
}

func c12RandNum(g *Gen) c12Num {
	if g.Intn(4) == 0 {
		return c12BigNum(g)
	}
	switch g.Intn(8) {
	case 0:
		return c12Num(strconv.FormatInt(int64(g.Intn(2000)-1000), 10))
	case 1:
		v := int64(g.R.Uint64() >> uint(11+g.Intn(53)))
		if g.Intn(2) == 0 {
			v = -v
		}
		return c12Num(strconv.FormatInt(v, 10))
	case 2:
		return c12Num([]string{"0", "-0", "1", "-1", "9007199254740991", "-9007199254740991", "4294967296"}[g.Intn(7)])
	case 3:
		return c12Num(fmt.Sprintf("%d.%d", g.Intn(100000)-50000, g.Intn(1000)))
	case 4:
		return c12Num(fmt.Sprintf("%d%s%s%d", g.Intn(1000000), []string{"e", "E"}[g.Intn(2)], []string{"", "+", "-"}[g.Intn(3)], g.Intn(4)))
	case 5:
		return c12Num(fmt.Sprintf("-%d.%03de%d", g.Intn(1000), g.Intn(1000), g.Intn(4)))
	case 6:
		return c12Num(fmt.Sprintf("%d.0", g.Intn(1000)))
	default:
		return c12Num(fmt.Sprintf("0.%d", g.Intn(1000)))
	}
}

// c12RandValue: nested data payloads. bools only when allowBool (they make the
// transaction unserialisable).
func c12RandValue(g *Gen, depth int, allowBool bool) interface{} {
	k := g.Intn(10)
	if depth <= 0 && k >= 6 {
		k = g.Intn(6)
	}
	switch k {
	case 0, 1, 2:
		return c12RandString(g)
	case 3:
		return c12RandNum(g)
	case 4:
		return nil
	case 5:
		if allowBool && g.Intn(4) == 0 {
			return g.Intn(2) == 0
		}
		return ""
	case 6, 7:
		n := g.Pick(0, 1, 2, 3, 4)
		l := make([]interface{}, 0, n)
		for i := 0; i < n; i++ {
			if g.Intn(4) == 0 {
				l = append(l, "")
			} else {
				l = append(l, c12RandValue(g, depth-1, allowBool))
			}
		}
		return l
	default:
		n := g.Pick(0, 1, 2, 3, 4)
		o := c12Obj{}
		seen := map[string]bool{}
		for i := 0; i < n; i++ {
			k := c12RandString(g)
			if g.Intn(2) == 0 {
				k = []string{"a", "b", "method", "params", "", "a.b", "_to", "signature", "txHash", "signature", "txHash",
					"from", "to", "version", "nid", "stepLimit", "timestamp", "value", "nonce", "dataType", "data"}[g.Intn(20)]
			}
			if seen[k] {
				continue
			}
			seen[k] = true
			o = append(o, c12KV{k, c12RandValue(g, depth-1, allowBool)})
		}
		return o
	}
}

func c12Ws(g *Gen, style int, sb *strings.Builder) {
	if style == 0 {
		return
	}
	n := g.Pick(0, 0, 1, 2)
	for i := 0; i < n; i++ {
		sb.WriteByte(" \t\n\r"[g.Intn(4)])
	}
}

func c12RenderString(g *Gen, style int, s string, sb *strings.Builder) {
	sb.WriteByte('"')
	for _, r := range s {
		esc := style == 2 && g.Intn(6) == 0
		switch {
		case r == '"':
			sb.WriteString("\\\"")
		case r == '\\':
			sb.WriteString("\\\\")
		case r == '\n':
			sb.WriteString("\\n")
		case r == '\t':
			sb.WriteString("\\t")
		case r == '\b':
			sb.WriteString("\\b")
		case r < 0x20:
			fmt.Fprintf(sb, "\\u%04x", r)
		case r == '/' && esc:
			sb.WriteString("\\/")
		case esc && r < 0x10000:
			if g.Intn(2) == 0 {
				fmt.Fprintf(sb, "\\u%04x", r)
			} else {
				fmt.Fprintf(sb, "\\u%04X", r)
			}
		case esc:
			r2 := r - 0x10000
			fmt.Fprintf(sb, "\\u%04x\\u%04x", 0xd800+(r2>>10), 0xdc00+(r2&0x3ff))
		default:
			sb.WriteRune(r)
		}
	}
	sb.WriteByte('"')
}

// style 0: compact canonical order; 1: whitespace + shuffled keys; 2: also escape variants
func c12Render(g *Gen, style int, v interface{}, sb *strings.Builder) {
	switch x := v.(type) {
	case nil:
		sb.WriteString("null")
	case bool:
		if x {
			sb.WriteString("true")
		} else {
			sb.WriteString("false")
		}
	case string:
		c12RenderString(g, style, x, sb)
	case c12Num:
		sb.WriteString(string(x))
	case []interface{}:
		sb.WriteByte('[')
		for i, e := range x {
			if i > 0 {
				sb.WriteByte(',')
			}
			c12Ws(g, style, sb)
			c12Render(g, style, e, sb)
			c12Ws(g, style, sb)
		}
		if len(x) == 0 {
			c12Ws(g, style, sb)
		}
		sb.WriteByte(']')
	case c12Obj:
		idx := make([]int, len(x))
		for i := range idx {
			idx[i] = i
		}
		if style > 0 {
			g.R.Shuffle(len(idx), func(i, j int) { idx[i], idx[j] = idx[j], idx[i] })
		}
		sb.WriteByte('{')
		for n, i := range idx {
			if n > 0 {
				sb.WriteByte(',')
			}
			c12Ws(g, style, sb)
			c12RenderString(g, style, x[i].K, sb)
			c12Ws(g, style, sb)
			sb.WriteByte(':')
			c12Ws(g, style, sb)
			c12Render(g, style, x[i].V, sb)
			c12Ws(g, style, sb)
		}
		if len(x) == 0 {
			c12Ws(g, style, sb)
		}
		sb.WriteByte('}')
	default:
		panic(fmt.Sprintf("c12Render: %T", v))
	}
}

func c12Text(g *Gen, style int, v interface{}) string {
	var sb strings.Builder
	c12Ws(g, style, &sb)
	c12Render(g, style, v, &sb)
	c12Ws(g, style, &sb)
	return sb.String()
}

// ---------------------------------------------------------------------------
// transactions
// ---------------------------------------------------------------------------

// c12HexVariants: canonical / leading zero / upper-case / decimal / negative forms.
func c12HexInt(g *Gen, canonicalOnly bool, allowNeg bool) string {
	var v uint64
	switch g.Intn(5) {
	case 0:
		v = uint64(g.Intn(3))
	case 1:
		v = uint64(g.Intn(70000))
	case 2:
		v = g.R.Uint64() >> uint(1+g.Intn(63))
	case 3:
		v = uint64(1)<<uint(g.Intn(63)) - uint64(g.Intn(2))
	default:
		v = uint64(g.Intn(1 << 30))
	}
	v &= (1 << 63) - 1
	s := "0x" + strconv.FormatUint(v, 16)
	if canonicalOnly {
		return s
	}
	switch g.Intn(12) {
	case 0:
		return "0x0" + strconv.FormatUint(v, 16)
	case 1:
		return "0x" + strings.ToUpper(strconv.FormatUint(v, 16))
	case 2:
		if v == 0 {
			return "0"
		}
		return strconv.FormatUint(v, 10)
	case 3:
		if allowNeg {
			return "-" + s
		}
	case 4:
		if allowNeg {
			return "-0x0"
		}
	}
	return s
}

func c12Addr(g *Gen, contract bool) string {
	p := "hx"
	if contract {
		p = "cx"
	}
	return p + hex.EncodeToString(g.Bytes(20))
}

type c12Tx struct {
	obj  c12Obj
	key  *crypto.PrivateKey
	kind string // how the signature field was made
}

func c12Set(o c12Obj, k string, v interface{}) c12Obj {
	for i := range o {
		if o[i].K == k {
			o[i].V = v
			return o
		}
	}
	return append(o, c12KV{k, v})
}

func c12Del(o c12Obj, k string) c12Obj {
	r := c12Obj{}
	for _, kv := range o {
		if kv.K != k {
			r = append(r, kv)
		}
	}
	return r
}

func c12Get(o c12Obj, k string) (interface{}, bool) {
	for _, kv := range o {
		if kv.K == k {
			return kv.V, true
		}
	}
	return nil, false
}

func c12CallData(g *Gen) interface{} {
	params := c12Obj{}
	for i := 0; i < g.Intn(3); i++ {
		params = append(params, c12KV{fmt.Sprintf("p%d", i), c12RandValue(g, 1, false)})
	}
	if g.Intn(3) == 0 {
		// bare integer literals beyond 2^53 etc. in the hashed params
		params = append(params, c12KV{"amount", c12BigNum(g)})
		if g.Intn(2) == 0 {
			params = append(params, c12KV{"list", []interface{}{c12BigNum(g), "x", c12BigNum(g)}})
		}
	}
	o := c12Obj{{"method", "m" + c12RandString(g)}}
	if len(params) > 0 || g.Intn(3) > 0 {
		o = append(o, c12KV{"params", params})
	}
	return o
}

// c12NewTx builds a random version-3 transaction (unsigned) and its key.
// quirks=false: only canonical field texts (struct hash == map hash expected).
func c12NewTx(g *Gen, quirks bool) *c12Tx {
	key, _ := crypto.ParsePrivateKey(g.Bytes(32))
	from := common.NewAccountAddressFromPublicKey(key.PublicKey()).String()
	q := func() bool { return quirks && g.Intn(8) == 0 }
	o := c12Obj{{"version", "0x3"}, {"from", from}}
	if q() {
		switch g.Intn(3) {
		case 0:
			o = c12Set(o, "from", "hx"+strings.ToUpper(from[2:]))
		case 1:
			o = c12Set(o, "from", "hx"+hex.EncodeToString(g.Bytes(g.Pick(1, 19, 21, 25))))
		default:
			o = c12Set(o, "from", "0x"+from[2:])
		}
	}
	if !q() {
		to := c12Addr(g, g.Intn(3) == 0)
		if q() {
			to = to[:2] + to[3:] // odd number of digits: zero padded
		}
		o = append(o, c12KV{"to", to})
	}
	if g.Intn(4) > 0 {
		if q() {
			o = append(o, c12KV{"value", nil})
		} else if q() {
			o = append(o, c12KV{"value", c12Num(strconv.Itoa(g.Intn(100000)))})
		} else {
			o = append(o, c12KV{"value", c12HexInt(g, !quirks, true)})
		}
	}
	if !q() {
		o = append(o, c12KV{"stepLimit", c12HexInt(g, !quirks, true)})
	}
	if !q() {
		o = append(o, c12KV{"timestamp", c12HexInt(g, !quirks, false)})
	}
	if g.Intn(2) == 0 {
		if q() {
			o = append(o, c12KV{"nid", nil})
		} else {
			o = append(o, c12KV{"nid", c12HexInt(g, !quirks, false)})
		}
	}
	if g.Intn(2) == 0 {
		o = append(o, c12KV{"nonce", c12HexInt(g, !quirks, true)})
	}
	switch g.Intn(6) {
	case 0: // nothing
	case 1:
		o = append(o, c12KV{"dataType", "message"}, c12KV{"data", "0x" + hex.EncodeToString(g.Bytes(g.Intn(20)))})
	case 2:
		o = append(o, c12KV{"dataType", "call"}, c12KV{"data", c12CallData(g)})
	case 3:
		o = append(o, c12KV{"dataType", "x" + c12RandString(g)}, c12KV{"data", c12RandValue(g, 3, quirks && g.Intn(6) == 0)})
	case 4:
		o = append(o, c12KV{"data", c12RandValue(g, 3, false)})
	default:
		if quirks {
			o = append(o, c12KV{"dataType", []interface{}{nil, "message", ""}[g.Intn(3)]})
			if g.Intn(2) == 0 {
				o = append(o, c12KV{"data", nil})
			}
		}
	}
	if q() {
		o = append(o, c12KV{"x" + c12RandString(g), c12RandValue(g, 1, false)})
	}
	if g.Intn(6) == 0 {
		o = append(o, c12KV{"txHash", "0x" + hex.EncodeToString(g.Bytes(32))})
	}
	return &c12Tx{obj: o, key: key}
}

// c12Sign fills the signature member. mode: 0 valid, 1 absent, 2 empty string,
// 3 random 65 bytes, 4 valid but other key, 5 64 bytes (no V), 6 wrong length, 7 bad base64
func (t *c12Tx) sign(g *Gen, mode int) {
	t.kind = []string{"valid", "absent", "empty", "random", "otherkey", "noV", "badlen", "badb64"}[mode]
	t.obj = c12Del(t.obj, "signature")
	var sig []byte
	switch mode {
	case 0, 4, 5:
		var sb strings.Builder
		c12Render(g, 0, t.obj, &sb)
		tx, err := transaction.NewTransactionFromJSON([]byte(sb.String()))
		id := g.Bytes(32)
		if err == nil {
			id = tx.ID()
		} else {
			t.kind = "unsignable"
		}
		key := t.key
		if mode == 4 {
			key, _ = crypto.ParsePrivateKey(g.Bytes(32))
		}
		s, err := crypto.NewSignature(id, key)
		if err != nil {
			panic(err)
		}
		sig, _ = s.SerializeRSV()
		if mode == 5 {
			sig = sig[:64]
		}
	case 1:
		return
	case 2:
		sig = []byte{}
	case 3:
		sig = g.Bytes(65)
		sig[64] = byte(g.Pick(0, 1, 2, 3, 4, 27, 28, 255, g.Intn(256)))
	case 6:
		sig = g.Bytes(g.Pick(1, 32, 63, 66, 130))
	case 7:
		t.obj = append(t.obj, c12KV{"signature", []string{"!!!!", "AAA", "AA=A", "A"}[g.Intn(4)]})
		return
	}
	t.obj = append(t.obj, c12KV{"signature", base64.StdEncoding.EncodeToString(sig)})
}

func c12SigMode(g *Gen) int {
	return g.Pick(0, 0, 0, 0, 0, 0, 1, 2, 3, 4, 5, 6, 7)
}

// expected Verify() outcome: 'v' = must verify, 'n' = must not, 'u' = not asserted
func (t *c12Tx) expect() string {
	switch t.kind {
	case "valid":
		// value / stepLimit negative => rejected before the signature is looked at
		for _, k := range []string{"value", "stepLimit"} {
			if v, ok := c12Get(t.obj, k); ok {
				if s, ok := v.(string); ok && strings.HasPrefix(s, "-") && s != "-0x0" {
					return "n"
				}
			}
		}
		from, _ := c12Get(t.obj, "from")
		want := common.NewAccountAddressFromPublicKey(t.key.PublicKey()).String()
		if from != want {
			return "u"
		}
		return "v"
	case "unsignable":
		return "u"
	default:
		return "n"
	}
}

// mutate returns a modified copy and whether the id must stay the same.
func c12Mutate(g *Gen, t *c12Tx) (c12Obj, bool, string) {
	o := append(c12Obj{}, t.obj...)
	bump := func(k string) bool {
		v, ok := c12Get(o, k)
		s, isStr := v.(string)
		if !ok || !isStr || !strings.HasPrefix(s, "0x") {
			return false
		}
		o = c12Set(o, k, s+"1")
		return true
	}
	for tries := 0; tries < 20; tries++ {
		switch g.Intn(16) {
		case 0:
			if bump("value") {
				return o, false, "value"
			}
		case 1:
			if bump("stepLimit") {
				return o, false, "stepLimit"
			}
		case 2:
			if bump("timestamp") {
				return o, false, "timestamp"
			}
		case 3:
			if bump("nonce") {
				return o, false, "nonce"
			}
		case 4:
			if bump("nid") {
				return o, false, "nid"
			}
		case 5:
			if v, ok := c12Get(o, "to"); ok {
				s := v.(string)
				if len(s) == 42 {
					c := s[41]
					if c == 'f' {
						c = '0'
					} else if c == '9' {
						c = 'a'
					} else {
						c++
					}
					return c12Set(o, "to", s[:41]+string(c)), false, "to"
				}
			}
		case 6:
			if v, ok := c12Get(o, "dataType"); ok {
				if s, ok := v.(string); ok {
					return c12Set(o, "dataType", s+"x"), false, "dataType"
				}
			}
		case 7:
			if v, ok := c12Get(o, "data"); ok {
				if nv, ok := c12MutateValue(g, v); ok {
					return c12Set(o, "data", nv), false, "data-content"
				}
			}
		case 8:
			for _, k := range []string{"value", "nonce", "nid", "data", "dataType"} {
				if _, ok := c12Get(o, k); ok && g.Intn(2) == 0 {
					return c12Del(o, k), false, "drop-" + k
				}
			}
		case 9:
			k := "z" + c12RandString(g)
			if _, ok := c12Get(o, k); !ok {
				return append(o, c12KV{k, "v"}), false, "extra-field"
			}
		case 10:
			// equivalence: signature replaced
			return c12Set(o, "signature", base64.StdEncoding.EncodeToString(g.Bytes(65))), true, "signature"
		case 11:
			return c12Set(o, "txHash", "0x"+hex.EncodeToString(g.Bytes(32))), true, "txHash"
		case 12:
			return o, true, "rerender"
		case 13, 14, 15:
			if v, ok := c12Get(o, "data"); ok {
				if nv, what, ok := c12EquivValue(g, v); ok {
					return c12Set(o, "data", nv), true, what
				}
			}
		}
	}
	return o, true, "rerender"
}

// c12MutateValue changes the content of a nested value in a way that is not
// one of the serialisation equivalences.
func c12MutateValue(g *Gen, v interface{}) (interface{}, bool) {
	switch x := v.(type) {
	case string:
		return x + "q", true
	case nil:
		return "\\0", true // the two-character string backslash-zero is not null
	case c12Num:
		return nil, true
	case []interface{}:
		if len(x) > 0 && g.Intn(2) == 0 {
			i := g.Intn(len(x))
			if nv, ok := c12MutateValue(g, x[i]); ok {
				l := append([]interface{}{}, x...)
				l[i] = nv
				return l, true
			}
		}
		return append(append([]interface{}{}, x...), "t"), true
	case c12Obj:
		if len(x) > 0 && g.Intn(2) == 0 {
			i := g.Intn(len(x))
			if nv, ok := c12MutateValue(g, x[i].V); ok {
				l := append(c12Obj{}, x...)
				l[i].V = nv
				return l, true
			}
		}
		if _, ok := c12Get(x, "zz"); ok {
			return nil, false
		}
		return append(append(c12Obj{}, x...), c12KV{"zz", ""}), true
	}
	return nil, false
}


var c12TopNames = []string{"signature", "txHash", "signature", "txHash", "from", "to", "version", "nid", "stepLimit", "timestamp", "value", "nonce", "dataType", "data"}

// c12NestedField builds a data payload that contains, at depth 1..3 (through dicts and
// lists), a key named like a top-level transaction field, and the same payload with exactly
// that nested value changed.
func c12NestedField(g *Gen) (a, b interface{}, key string) {
	key = c12TopNames[g.Intn(len(c12TopNames))]
	v1 := []interface{}{"0x" + hex.EncodeToString(g.Bytes(4)), c12RandString(g) + "s", c12Num(strconv.Itoa(g.Intn(1000)))}[g.Intn(3)]
	var v2 interface{}
	switch x := v1.(type) {
	case string:
		v2 = x + "1"
	case c12Num:
		v2 = c12Num(string(x) + "1")
	}
	mk := func(v interface{}) interface{} {
		o := c12Obj{}
		if g.Intn(2) == 0 {
			o = append(o, c12KV{"k", "v"})
		}
		o = append(o, c12KV{key, v})
		return o
	}
	a, b = mk(v1), mk(v2)
	depth := g.Intn(3)
	seedA := g.R.Int63()
	wrap := func(x interface{}, seed int64) interface{} {
		// deterministic wrapping, identical for a and b
		r := rand.New(rand.NewSource(seed))
		for i := 0; i < depth; i++ {
			switch r.Intn(3) {
			case 0:
				x = []interface{}{"p", x}
			case 1:
				x = c12Obj{{"params", x}, {"z", c12Num("1")}}
			default:
				x = c12Obj{{c12TopNames[r.Intn(len(c12TopNames))], []interface{}{x}}}
			}
		}
		return x
	}
	return wrap(a, seedA), wrap(b, seedA), key
}

// c12EquivValue applies one of the equivalences of the serialisation format.
func c12EquivValue(g *Gen, v interface{}) (interface{}, string, bool) {
	switch x := v.(type) {
	case c12Num:
		var f float64
		if err := json.Unmarshal([]byte(x), &f); err == nil {
			return strconv.FormatInt(int64(f), 10), "number-to-string", true
		}
	case string:
		if n, err := strconv.ParseInt(x, 10, 64); err == nil && strconv.FormatInt(n, 10) == x && n > -(1<<53) && n < (1<<53) {
			if g.Intn(2) == 0 {
				return c12Num(x), "string-to-number", true
			}
			return c12Num(x + ".25"), "string-to-fraction", true
		}
	case []interface{}:
		if g.Intn(2) == 0 {
			return append([]interface{}{""}, x...), "leading-empty-string", true
		}
		for i := range x {
			if nv, what, ok := c12EquivValue(g, x[i]); ok {
				l := append([]interface{}{}, x...)
				l[i] = nv
				return l, what, true
			}
		}
		return append([]interface{}{""}, x...), "leading-empty-string", true
	case c12Obj:
		for i := range x {
			if nv, what, ok := c12EquivValue(g, x[i].V); ok {
				l := append(c12Obj{}, x...)
				l[i].V = nv
				return l, what, true
			}
		}
	}
	return nil, "", false
}


// c12SpecSer: the ICON serialisation written down independently of
// service/transaction/serialize.go (used by the oracle only).
func c12SpecSer(v interface{}) (string, bool) {
	esc := func(s string) string {
		r := strings.NewReplacer("\\", "\\\\", "{", "\\{", "}", "\\}", "[", "\\[", "]", "\\]", ".", "\\.")
		return r.Replace(s)
	}
	switch x := v.(type) {
	case nil:
		return "\\0", true
	case string:
		return esc(x), true
	case float64:
		return strconv.FormatInt(int64(x), 10), true
	case []interface{}:
		out := ""
		for _, e := range x {
			f, ok := c12SpecSer(e)
			if !ok {
				return "", false
			}
			if out != "" {
				out += "."
			}
			out += f
		}
		return "[" + out + "]", true
	case map[string]interface{}:
		f, ok := c12SpecDict(x, nil)
		return "{" + f + "}", ok
	}
	return "", false
}

func c12SpecDict(m map[string]interface{}, skip map[string]bool) (string, bool) {
	keys := []string{}
	for k := range m {
		if !skip[k] {
			keys = append(keys, k)
		}
	}
	sort.Strings(keys)
	parts := []string{}
	for _, k := range keys {
		f, ok := c12SpecSer(m[k])
		if !ok {
			return "", false
		}
		ek, _ := c12SpecSer(k)
		parts = append(parts, ek+"."+f)
	}
	return strings.Join(parts, "."), true
}

func c12SpecID(js []byte) ([]byte, bool) {
	var m map[string]interface{}
	if err := json.Unmarshal(js, &m); err != nil {
		return nil, false
	}
	body, ok := c12SpecDict(m, map[string]bool{"signature": true, "txHash": true})
	if !ok {
		return nil, false
	}
	return crypto.SHA3Sum256([]byte("icx_sendTransaction." + body)), true
}

