//go:build c08 || all

package main

// C08: block encoding round-trips and binds body to header.
//
// Real code: block.NewBlockDataFactory(chain, nil).NewBlockDataFromReader on a real
// test.Node chain (real service manager: transaction codec, tx list hashes; real vote
// list codec; real BTP digest / result codecs).
//
// Ops (a case = ops between `reset`s). The env lines describe, for the byte strings used in
// the following `dec` ops, what the components the decoder calls answer; the generator
// computes them with the real component functions. []byte tokens: nil | - (empty) | hex.
//   tx HEX CANON                sm.TransactionFromBytes accepts HEX, tx.Bytes() = CANON
//   txl CANON,CANON,..  HASH    TransactionListFromSlice(...).Hash() (keyed by the canonical bytes)
//   votes IN HASH CANON         CommitVoteSetDecoder(IN) != nil, its Hash() and Bytes()
//   digest IN HASH FILTER CANON btp.NewDigestFromBytes(IN): Hash(), NetworkSectionFilter().Bytes(), Bytes()
//   result IN DH                service.BTPDigestHashFromResult(IN) = DH
//   prop IN CANON               common.NewAddress(IN).Bytes()
//   bloom IN CANON              NewLogsBloomFromCompressed(IN).CompressedBytes()
//   dec HEX [swap]              decode; `swap` = a different block's body under this header (oracle: must fail)
// Output of dec: "err" | "ok id=<ID> hdr=<MarshalHeader> body=<MarshalBody>".

import (
	"bufio"
	"bytes"
	"encoding/hex"
	"fmt"
	"io"
	"os"
	"strconv"
	"strings"
	"time"

	"github.com/icon-project/goloop/block"
	"github.com/icon-project/goloop/btp"
	"github.com/icon-project/goloop/common"
	"github.com/icon-project/goloop/common/codec"
	"github.com/icon-project/goloop/common/crypto"
	"github.com/icon-project/goloop/common/intconv"
	"github.com/icon-project/goloop/common/log"
	"github.com/icon-project/goloop/common/wallet"
	"github.com/icon-project/goloop/consensus"
	"github.com/icon-project/goloop/module"
	"github.com/icon-project/goloop/service"
	"github.com/icon-project/goloop/service/platform/basic"
	"github.com/icon-project/goloop/service/txresult"
	"github.com/icon-project/goloop/test"
	"golang.org/x/crypto/sha3"
)

func init() {
	Register(&Prop{ID: "C08", Gen: c08Gen, New: c08New})
}

type c08T struct{ errs []string }

func (t *c08T) Errorf(format string, args ...interface{}) {
	t.errs = append(t.errs, fmt.Sprintf(format, args...))
}
func (t *c08T) Logf(format string, args ...any) {}

func c08Quiet(f func()) {
	if os.Getenv("VERIF_DEBUG") == "2" {
		f()
		return
	}
	log.GlobalLogger().SetOutput(io.Discard)
	log.GlobalLogger().SetLevel(log.PanicLevel)
	old := os.Stderr
	if dn, err := os.OpenFile(os.DevNull, os.O_WRONLY, 0); err == nil {
		os.Stderr = dn
		defer func() { os.Stderr = old }()
	}
	f()
}

// ------------------------------------------------------------------ node

type c08Node struct {
	t  *c08T
	nd *test.Node
}

var c08TheNode *c08Node

func c08GetNode(seed []byte) *c08Node {
	if c08TheNode != nil {
		return c08TheNode
	}
	n := &c08Node{t: &c08T{}}
	var w module.Wallet
	if seed != nil {
		if sk, err := crypto.ParsePrivateKey(seed); err == nil {
			w, _ = wallet.NewFromPrivateKey(sk)
		}
	}
	if w == nil {
		w = wallet.New()
	}
	gs := fmt.Sprintf(`{
		"accounts": [
			{"name": "treasury", "address": "hx1000000000000000000000000000000000000000", "balance": "0x0"},
			{"name": "god", "address": "hx0000000000000000000000000000000000000000", "balance": "0x0"}
		],
		"message": "",
		"nid": "0x1",
		"chain": {"validatorList": [ "%s" ]}
	}`, w.Address())
	c08Quiet(func() {
		n.nd = test.NewNode(n.t, test.UseGenesis(gs), test.UseWallet(w))
	})
	c08TheNode = n
	return n
}

// ------------------------------------------------------------------ independent item encoder

func c08Len(base byte, l int, long bool) []byte {
	if l <= 55 && !long {
		return []byte{base + byte(l)}
	}
	var sz []byte
	for v := l; v > 0; v >>= 8 {
		sz = append([]byte{byte(v)}, sz...)
	}
	if len(sz) == 0 {
		sz = []byte{0}
	}
	return append([]byte{base + 55 + byte(len(sz))}, sz...)
}

// c08Str encodes a byte string item; nil slice = null.
func c08Str(b []byte) []byte {
	if b == nil {
		return []byte{0xf8, 0}
	}
	if len(b) == 1 && b[0] < 0x80 {
		return []byte{b[0]}
	}
	return append(c08Len(0x80, len(b), false), b...)
}

func c08StrLong(b []byte) []byte { // non canonical: long form for any length
	return append(c08Len(0x80, len(b), true), b...)
}

func c08List(items ...[]byte) []byte {
	var p []byte
	for _, it := range items {
		p = append(p, it...)
	}
	return append(c08Len(0xc0, len(p), false), p...)
}

func c08Bss(bss [][]byte, isNil bool) []byte {
	if isNil {
		return []byte{0xf8, 0}
	}
	items := make([][]byte, len(bss))
	for i, b := range bss {
		items[i] = c08Str(b)
	}
	return c08List(items...)
}

// ------------------------------------------------------------------ real components (used by gen for env lines, and by the oracle)

func c08Tok(b []byte) string {
	if b == nil {
		return "nil"
	}
	if len(b) == 0 {
		return "-"
	}
	return hex.EncodeToString(b)
}

// c08Watch aborts the process when f does not return: an endless (and allocating) loop in a
// decoder cannot be recovered from inside the process.
func c08Watch(what string, in []byte, f func()) {
	t := time.AfterFunc(4*time.Second, func() {
		fmt.Fprintf(c08Stderr, "C08: decoder-hang: %s does not terminate on %x\n", what, in)
		os.Exit(3)
	})
	defer t.Stop()
	f()
}

var c08Stderr = os.Stderr

func c08Safe(f func()) (ok bool) {
	defer func() {
		if recover() != nil {
			ok = false
		}
	}()
	f()
	return true
}

type c08Block struct {
	hf  *block.V2HeaderFormat
	bf  *block.V2BodyFormat
	hb  []byte
	bb  []byte
	blk module.Block
}

func c08Formats(blk module.BlockData) (*c08Block, error) {
	var hb, bb bytes.Buffer
	if err := blk.MarshalHeader(&hb); err != nil {
		return nil, err
	}
	if err := blk.MarshalBody(&bb); err != nil {
		return nil, err
	}
	hf, bf := new(block.V2HeaderFormat), new(block.V2BodyFormat)
	if _, err := codec.BC.UnmarshalFromBytes(hb.Bytes(), hf); err != nil {
		return nil, err
	}
	if _, err := codec.BC.UnmarshalFromBytes(bb.Bytes(), bf); err != nil {
		return nil, err
	}
	return &c08Block{hf: hf, bf: bf, hb: hb.Bytes(), bb: bb.Bytes()}, nil
}

// ------------------------------------------------------------------ generator

type c08GenCtx struct {
	g      *Gen
	n      *c08Node
	blocks []*c08Block
	seen   map[string]bool
}

func (c *c08GenCtx) once(key string) bool {
	if c.seen[key] {
		return false
	}
	c.seen[key] = true
	return true
}

func (c *c08GenCtx) regTx(bs []byte) (canon []byte) {
	if bs == nil {
		return nil
	}
	sm := c.n.nd.SM
	c08Safe(func() {
		tx, err := sm.TransactionFromBytes(bs, module.BlockVersion2)
		if err == nil {
			canon = tx.Bytes()
		}
	})
	if canon != nil && c.once("tx "+c08Tok(bs)) {
		c.g.Emit("tx %s %s", c08Tok(bs), c08Tok(canon))
	}
	return canon
}

func (c *c08GenCtx) regTxList(bss [][]byte) {
	if len(bss) == 0 {
		return
	}
	var parts []string
	for _, b := range bss {
		cn := c.regTx(b)
		if cn == nil {
			return // an invalid element: the list is rejected before any hash is taken
		}
		parts = append(parts, c08Tok(cn))
	}
	key := strings.Join(parts, ",")
	if !c.once("txl " + key) {
		return
	}
	sm := c.n.nd.SM
	c08Safe(func() {
		txs := make([]module.Transaction, len(bss))
		for i, b := range bss {
			tx, err := sm.TransactionFromBytes(b, module.BlockVersion2)
			if err != nil {
				return
			}
			txs[i] = tx
		}
		h := sm.TransactionListFromSlice(txs, module.BlockVersion2).Hash()
		c.g.Emit("txl %s %s", key, c08Tok(h))
	})
}

func (c *c08GenCtx) regVotes(bs []byte) {
	if !c.once("votes " + c08Tok(bs)) {
		return
	}
	c08Safe(func() {
		v := c.n.nd.Chain.CommitVoteSetDecoder()(bs)
		if v == nil {
			return
		}
		c.g.Emit("votes %s %s %s", c08Tok(bs), c08Tok(v.Hash()), c08Tok(v.Bytes()))
	})
}

func (c *c08GenCtx) regDigest(bs []byte) {
	if !c.once("digest " + c08Tok(bs)) {
		return
	}
	c08Watch("btp.NewDigestFromBytes", bs, func() {
		c08Safe(func() {
			d, err := btp.NewDigestFromBytes(bs)
			if err != nil {
				return
			}
			c.g.Emit("digest %s %s %s %s", c08Tok(bs), c08Tok(d.Hash()), c08Tok(d.NetworkSectionFilter().Bytes()), c08Tok(d.Bytes()))
		})
	})
}

func (c *c08GenCtx) regResult(bs []byte) {
	if !c.once("result " + c08Tok(bs)) {
		return
	}
	c08Safe(func() {
		h, err := service.BTPDigestHashFromResult(bs)
		if err != nil {
			return
		}
		c.g.Emit("result %s %s", c08Tok(bs), c08Tok(h))
	})
}

func (c *c08GenCtx) regProp(bs []byte) {
	if bs == nil || !c.once("prop "+c08Tok(bs)) {
		return
	}
	c08Safe(func() {
		a, err := common.NewAddress(bs)
		if err != nil {
			return
		}
		c.g.Emit("prop %s %s", c08Tok(bs), c08Tok(a.Bytes()))
	})
}

func (c *c08GenCtx) regBloom(bs []byte) {
	if !c.once("bloom " + c08Tok(bs)) {
		return
	}
	c08Safe(func() {
		c.g.Emit("bloom %s %s", c08Tok(bs), c08Tok(txresult.NewLogsBloomFromCompressed(bs).CompressedBytes()))
	})
}

// candidate in structured form
type c08Cand struct {
	h       block.V2HeaderFormat
	b       block.V2BodyFormat
	verItem []byte // raw item overriding the version, nil = canonical
	hItem   []byte // raw item overriding the height
	tsItem  []byte
	hExtra  [][]byte // raw items appended to the header list
	hDrop   int      // items dropped from the end of the header list
	bExtra  [][]byte
	bDrop   int
	ptNil   bool
	ntNil   bool
	digest4 bool   // encode a nil BTPDigest as an explicit 4th null item
	nsf12   bool   // encode a nil NSFilter as an explicit 12th null item
	rawItem map[int][]byte // header item index -> raw replacement (type confusion etc.)
}

func c08Int(v int64) []byte { return c08Str(intconv.Int64ToBytes(v)) }

func (c *c08GenCtx) register(cd *c08Cand) {
	c.regProp(cd.h.Proposer)
	c.regBloom(cd.h.LogsBloom)
	c.regResult(cd.h.Result)
	c.regTxList(cd.b.PatchTransactions)
	c.regTxList(cd.b.NormalTransactions)
	c.regVotes(cd.b.Votes)
	c.regDigest(cd.b.BTPDigest)
}

func (cd *c08Cand) encode() []byte {
	h := &cd.h
	items := [][]byte{
		c08Int(int64(h.Version)), c08Int(h.Height), c08Int(h.Timestamp),
		c08Str(h.Proposer), c08Str(h.PrevID), c08Str(h.VotesHash), c08Str(h.NextValidatorsHash),
		c08Str(h.PatchTransactionsHash), c08Str(h.NormalTransactionsHash), c08Str(h.LogsBloom), c08Str(h.Result),
	}
	if cd.verItem != nil {
		items[0] = cd.verItem
	}
	if cd.hItem != nil {
		items[1] = cd.hItem
	}
	if cd.tsItem != nil {
		items[2] = cd.tsItem
	}
	if h.NSFilter != nil || cd.nsf12 {
		items = append(items, c08Str(h.NSFilter))
	}
	for i, raw := range cd.rawItem {
		if i < len(items) {
			items[i] = raw
		}
	}
	if cd.hDrop > 0 && cd.hDrop < len(items) {
		items = items[:len(items)-cd.hDrop]
	}
	items = append(items, cd.hExtra...)
	b := &cd.b
	bitems := [][]byte{
		c08Bss(b.PatchTransactions, cd.ptNil || b.PatchTransactions == nil),
		c08Bss(b.NormalTransactions, cd.ntNil || b.NormalTransactions == nil),
		c08Str(b.Votes),
	}
	if b.BTPDigest != nil || cd.digest4 {
		bitems = append(bitems, c08Str(b.BTPDigest))
	}
	if cd.bDrop > 0 && cd.bDrop < len(bitems) {
		bitems = bitems[:len(bitems)-cd.bDrop]
	}
	bitems = append(bitems, cd.bExtra...)
	return append(c08List(items...), c08List(bitems...)...)
}

func (c *c08GenCtx) buildChain() {
	nd := c.n.nd
	add := func() {
		if cb, err := c08Formats(nd.LastBlock); err == nil {
			cb.blk = nd.LastBlock
			c.blocks = append(c.blocks, cb)
		}
	}
	const dsa = "ecdsa/secp256k1"
	c08Quiet(func() {
		c08Safe(func() {
			nd.ProposeFinalizeBlock(consensus.NewEmptyCommitVoteList())
			add()
			nd.ProposeFinalizeBlockWithTX(nd.NewVoteListForLastBlock(),
				test.NewTx().Call("setRevision", map[string]string{
					"code": fmt.Sprintf("0x%x", basic.MaxRevision),
				}).CallFrom(nd.CommonAddress(), "setBTPPublicKey", map[string]string{
					"name":   dsa,
					"pubKey": fmt.Sprintf("0x%x", nd.Chain.WalletFor(dsa).PublicKey()),
				}).Call("openBTPNetwork", map[string]string{
					"networkTypeName": "eth",
					"name":            "eth-test",
					"owner":           nd.CommonAddress().String(),
				}).String())
			add()
			nd.ProposeFinalizeBlock(nd.NewVoteListForLastBlock())
			add()
			nd.ProposeFinalizeBlockWithTX(nd.NewVoteListForLastBlock(),
				test.NewTx().CallFrom(nd.CommonAddress(), "sendBTPMessage", map[string]string{
					"networkId": "0x1",
					"message":   fmt.Sprintf("0x%x", []byte("test message")),
				}).String())
			add()
			nd.ProposeFinalizeBlock(nd.NewVoteListForLastBlock())
			add()
			nd.ProposeFinalizeBlock(nd.NewVoteListForLastBlock())
			add()
		})
	})
}

func (c *c08GenCtx) randBytes() []byte {
	g := c.g
	switch g.Intn(6) {
	case 0:
		return nil
	case 1:
		return []byte{}
	case 2:
		return g.Bytes(g.Pick(1, 1, 20, 21, 32))
	case 3:
		return []byte{byte(g.Pick(0, 1, 0x7f, 0x80, 0xff))}
	default:
		return g.Bytes(g.Pick(2, 8, 9, 31, 33, 55, 56, 57, 255, 256, 300))
	}
}

func (c *c08GenCtx) pickBlock() *c08Block { return c.blocks[c.g.Intn(len(c.blocks))] }

func c08Clone(b []byte) []byte {
	if b == nil {
		return nil
	}
	return append([]byte{}, b...)
}

func c08CloneBss(bss [][]byte) [][]byte {
	if bss == nil {
		return nil
	}
	r := make([][]byte, len(bss))
	for i, b := range bss {
		r[i] = c08Clone(b)
	}
	return r
}

func (c *c08GenCtx) mutate(cd *c08Cand) {
	g := c.g
	o := c.pickBlock()
	switch g.Intn(24) {
	case 0: // version
		v := int64(g.Pick(0, 1, 3, -1, 2))
		cd.h.Version = int(v)
		switch g.Intn(4) {
		case 0:
			cd.verItem = c08Str(append([]byte{0}, intconv.Int64ToBytes(v)...)) // non minimal
		case 1:
			cd.verItem = c08Str(nil) // null -> 0 under decodeNullable, error in PeekVersion
		case 2:
			cd.verItem = c08StrLong(intconv.Int64ToBytes(2)) // long-form length
			cd.h.Version = 2
		}
	case 1: // height
		v := []int64{0, 1, -1, 127, 128, 255, 256, -128, -129, 1 << 40, -(1 << 40), 1<<63 - 1, -1 << 63}[g.Intn(13)]
		cd.h.Height = v
		switch g.Intn(5) {
		case 0:
			pad := byte(0)
			if v < 0 {
				pad = 0xff
			}
			cd.hItem = c08Str(append(bytes.Repeat([]byte{pad}, 1+g.Intn(3)), intconv.Int64ToBytes(v)...))
		case 1:
			cd.hItem = c08Str(nil)
		case 2:
			cd.hItem = c08Str(g.Bytes(9)) // more than 8 bytes
		case 3:
			cd.hItem = c08Str([]byte{})
		}
	case 2: // timestamp
		v := []int64{0, 1, -1, 1 << 50, 1<<63 - 1, -1 << 63, int64(g.R.Uint64())}[g.Intn(7)]
		cd.h.Timestamp = v
		if g.Intn(4) == 0 {
			cd.tsItem = c08List() // a list where an int is expected
		}
	case 3:
		cd.h.Proposer = []([]byte){nil, {}, o.hf.Proposer, append([]byte{0}, g.Bytes(20)...), append([]byte{1}, g.Bytes(20)...), append([]byte{2}, g.Bytes(20)...), g.Bytes(20), g.Bytes(22), g.Bytes(1)}[g.Intn(9)]
	case 4:
		cd.h.PrevID = []([]byte){nil, {}, o.hf.PrevID, g.Bytes(32), g.Bytes(31), g.Bytes(56)}[g.Intn(6)]
	case 5:
		cd.h.VotesHash = []([]byte){nil, {}, o.hf.VotesHash, g.Bytes(32), c08Flip(g, cd.h.VotesHash)}[g.Intn(5)]
	case 6:
		cd.h.NextValidatorsHash = []([]byte){nil, {}, o.hf.NextValidatorsHash, g.Bytes(32)}[g.Intn(4)]
	case 7:
		cd.h.PatchTransactionsHash = []([]byte){nil, {}, o.hf.NormalTransactionsHash, g.Bytes(32)}[g.Intn(4)]
	case 8:
		cd.h.NormalTransactionsHash = []([]byte){nil, {}, o.hf.NormalTransactionsHash, g.Bytes(32), c08Flip(g, cd.h.NormalTransactionsHash)}[g.Intn(5)]
	case 9:
		cd.h.LogsBloom = []([]byte){nil, {}, o.hf.LogsBloom, c.randBytes()}[g.Intn(4)]
	case 10:
		cd.h.Result = []([]byte){nil, {}, o.hf.Result, c08Flip(g, cd.h.Result), c.randBytes()}[g.Intn(5)]
	case 11:
		cd.h.NSFilter = []([]byte){nil, {}, o.hf.NSFilter, {1}, {2}, {0}, g.Bytes(2)}[g.Intn(7)]
		cd.nsf12 = g.Intn(2) == 0
	case 12: // header item count
		switch g.Intn(3) {
		case 0:
			cd.hDrop = 1 + g.Intn(3)
		case 1:
			cd.hExtra = append(cd.hExtra, c08Str(c.randBytes()))
		default:
			cd.hExtra = append(cd.hExtra, g.Bytes(1+g.Intn(5))) // raw garbage after the last field
		}
	case 13: // type confusion in a header field
		if cd.rawItem == nil {
			cd.rawItem = map[int][]byte{}
		}
		idx := 3 + g.Intn(8)
		k := g.Intn(5)
		cd.rawItem[idx] = [][]byte{c08List(), c08List(c08Str([]byte{1})), {0xf8, 1, 0x80}, {0xb8, 0}, {0xb9, 0, 0}}[k]
		if k >= 3 {
			// a non canonical (long form) empty string: the field decodes to an empty slice
			fields := []*[]byte{&cd.h.Proposer, &cd.h.PrevID, &cd.h.VotesHash, &cd.h.NextValidatorsHash,
				&cd.h.PatchTransactionsHash, &cd.h.NormalTransactionsHash, &cd.h.LogsBloom, &cd.h.Result}
			*fields[idx-3] = []byte{}
		}
	case 14: // normal transactions
		switch g.Intn(7) {
		case 0:
			cd.b.NormalTransactions, cd.ntNil = nil, true
		case 1:
			cd.b.NormalTransactions, cd.ntNil = [][]byte{}, false
		case 2:
			cd.b.NormalTransactions = c08CloneBss(o.bf.NormalTransactions)
		case 3:
			cd.b.NormalTransactions = append(c08CloneBss(cd.b.NormalTransactions), c08CloneBss(o.bf.NormalTransactions)...)
		case 4:
			cd.b.NormalTransactions = append(c08CloneBss(cd.b.NormalTransactions), g.Bytes(1+g.Intn(40)))
		case 5:
			cd.b.NormalTransactions = append(c08CloneBss(cd.b.NormalTransactions), nil) // a null element
		default:
			if l := c08CloneBss(cd.b.NormalTransactions); len(l) > 0 {
				l[0] = c08Flip(g, l[0])
				cd.b.NormalTransactions = l
			}
		}
		if g.Intn(2) == 0 { // keep the header consistent with the new list when it is a valid one
			cd.h.NormalTransactionsHash = c.txListHash(cd.b.NormalTransactions, cd.h.NormalTransactionsHash)
		}
	case 15: // patch transactions
		switch g.Intn(4) {
		case 0:
			cd.b.PatchTransactions, cd.ptNil = nil, true
		case 1:
			cd.b.PatchTransactions, cd.ptNil = [][]byte{}, false
		case 2:
			cd.b.PatchTransactions = c08CloneBss(o.bf.NormalTransactions)
		default:
			cd.b.PatchTransactions = [][]byte{g.Bytes(1 + g.Intn(40))}
		}
		if g.Intn(2) == 0 {
			cd.h.PatchTransactionsHash = c.txListHash(cd.b.PatchTransactions, cd.h.PatchTransactionsHash)
		}
	case 16: // votes
		cd.b.Votes = []([]byte){nil, {}, o.bf.Votes, c08Flip(g, cd.b.Votes), c.randBytes(), c08Trunc(g, cd.b.Votes), c08SigNoV(cd.b.Votes)}[g.Intn(7)]
		if g.Intn(2) == 0 {
			c08Safe(func() {
				if v := c.n.nd.Chain.CommitVoteSetDecoder()(cd.b.Votes); v != nil {
					cd.h.VotesHash = v.Hash()
				}
			})
		}
	case 17: // digest
		cd.b.BTPDigest = []([]byte){nil, {}, o.bf.BTPDigest, c08Flip(g, cd.b.BTPDigest), c.randBytes()}[g.Intn(5)]
		cd.digest4 = g.Intn(2) == 0
	case 18: // body item count
		switch g.Intn(3) {
		case 0:
			cd.bDrop = 1 + g.Intn(2)
		case 1:
			cd.bExtra = append(cd.bExtra, c08Str(c.randBytes()))
		default:
			cd.bExtra = append(cd.bExtra, g.Bytes(1+g.Intn(5)))
		}
	case 19: // whole body of another block (body swap)
		cd.b = *o.bf
	case 20: // whole header of another block
		cd.h = *o.hf
	default:
		// no mutation (valid encodings stay frequent)
	}
}

func (c *c08GenCtx) txListHash(bss [][]byte, dflt []byte) (res []byte) {
	res = dflt
	c08Safe(func() {
		sm := c.n.nd.SM
		txs := make([]module.Transaction, len(bss))
		for i, b := range bss {
			tx, err := sm.TransactionFromBytes(b, module.BlockVersion2)
			if err != nil {
				return
			}
			txs[i] = tx
		}
		res = sm.TransactionListFromSlice(txs, module.BlockVersion2).Hash()
	})
	return
}

func c08Flip(g *Gen, b []byte) []byte {
	if len(b) == 0 {
		return []byte{byte(g.Intn(256))}
	}
	r := c08Clone(b)
	r[g.Intn(len(r))] ^= byte(1 << uint(g.Intn(8)))
	return r
}

// c08SigNoV declares the first 65-byte signature of a vote list as a 64-byte one (the recovery
// id becomes a trailing item of the vote item, which the decoder skips).
func c08SigNoV(b []byte) []byte {
	r := c08Clone(b)
	if i := bytes.Index(r, []byte{0xb8, 0x41}); i >= 0 {
		r[i+1] = 0x40
	}
	return r
}

func c08Trunc(g *Gen, b []byte) []byte {
	if len(b) == 0 {
		return b
	}
	return c08Clone(b[:g.Intn(len(b))])
}

// c08NegNID: a block whose BTP digest names a negative network id (directed case).
func (c *c08GenCtx) negNID(nid int64) *c08Cand {
	type ndF struct {
		NetworkID          int64
		NetworkSectionHash []byte
		MessagesRoot       []byte
	}
	type ntdF struct {
		NetworkTypeID          int64
		UID                    string
		NetworkTypeSectionHash []byte
		NetworkDigests         []ndF
	}
	type dF struct {
		NetworkTypeDigests []ntdF
	}
	h32 := bytes.Repeat([]byte{0x11}, 32)
	dg := codec.BC.MustMarshalToBytes(&dF{[]ntdF{{1, "eth", h32, []ndF{{nid, h32, nil}}}}})
	base := c.blocks[0]
	cd := &c08Cand{h: *base.hf, b: *base.bf}
	cd.b.BTPDigest = dg
	cd.h.Result = c08List(c08Str(nil), c08Str(nil), c08Str(nil), c08Str(nil), c08Int(1), c08Str(crypto.SHA3Sum256(dg)))
	if c.g.Intn(2) == 0 {
		c08Safe(func() {
			if d, err := btp.NewDigestFromBytes(dg); err == nil {
				cd.h.NSFilter = d.NetworkSectionFilter().Bytes()
			}
		})
	}
	return cd
}

// c08ShortNDList: a BTP digest whose network digest list declares 5 bytes of payload but is cut
// off by the enclosing list after one (malformed) element.
func c08ShortNDList() []byte {
	h32 := bytes.Repeat([]byte{0x11}, 32)
	ntd := append([]byte{0x01, 0x83, 'e', 't', 'h', 0xa0}, h32...)
	ntd = append(ntd, 0xc5, 0x01)
	ntd = append([]byte{0xc0 + byte(len(ntd))}, ntd...)
	ntds := append([]byte{0xc0 + byte(len(ntd))}, ntd...)
	return append([]byte{0xc0 + byte(len(ntds))}, ntds...)
}

// registerBytes: whatever header / body the bytes contain (byte-level mutations can shift item
// boundaries): tell the model what the components answer for those field values too
func (c *c08GenCtx) registerBytes(bs []byte) {
	c08Safe(func() {
		var hf block.V2HeaderFormat
		rest, err := codec.BC.UnmarshalFromBytes(bs, &hf)
		if err != nil {
			return
		}
		var bf block.V2BodyFormat
		if _, err = codec.BC.UnmarshalFromBytes(rest, &bf); err != nil {
			return
		}
		c.register(&c08Cand{h: hf, b: bf})
	})
}

func c08Gen(g *Gen) {
	c := &c08GenCtx{g: g, n: c08GetNode(g.Bytes(32)), seen: map[string]bool{}}
	c.buildChain()
	if len(c.blocks) == 0 {
		g.Emit("dec -")
		return
	}
	emit := func(bs []byte, tag string) {
		c.registerBytes(bs)
		if tag != "" {
			g.Emit("dec %s %s", hx(bs), tag)
		} else {
			g.Emit("dec %s", hx(bs))
		}
	}
	// every real block as serialized by the node
	for _, b := range c.blocks {
		cd := &c08Cand{h: *b.hf, b: *b.bf}
		c.register(cd)
		emit(append(c08Clone(b.hb), b.bb...), "")
	}
	seeds := [][]byte{
		[]byte("\xf5\x02000000\x80\x8000000000000000000000000000000000000000000000\xde\xc0\xc00000000000000000000000000000"),
		[]byte("\xd0\x02000000\x80\x800000000\xe9\xc0\xc0000000000000000000000000000000000000000"),
	}
	for i := 0; i < g.N; i++ {
		if i > 0 && i%50 == 0 {
			// new case: the tables are per case
			g.Emit("reset")
			c.seen = map[string]bool{}
		}
		b := c.pickBlock()
		cd := &c08Cand{h: *b.hf, b: *b.bf}
		cd.b.PatchTransactions = c08CloneBss(cd.b.PatchTransactions)
		cd.b.NormalTransactions = c08CloneBss(cd.b.NormalTransactions)
		switch k := g.Intn(100); {
		case k < 52: // structured mutations
			for n := g.Pick(1, 1, 1, 2, 2, 3); n > 0; n-- {
				c.mutate(cd)
			}
			c.register(cd)
			emit(cd.encode(), "")
		case k < 62: // swaps that touch ONLY the BTP digest of the body
			var withD, plain []*c08Block
			for _, x := range c.blocks {
				if x.bf.BTPDigest != nil {
					withD = append(withD, x)
				} else {
					plain = append(plain, x)
				}
			}
			tag := "swap"
			switch v := g.Intn(4); {
			case v <= 1 && len(withD) > 0: // one bit inside a 32-byte section hash / messages root
				b = withD[g.Intn(len(withD))]
				cd = &c08Cand{h: *b.hf, b: *b.bf}
				d := c08Clone(cd.b.BTPDigest)
				var at []int
				for i := 0; i+33 <= len(d); i++ {
					if d[i] == 0xa0 {
						at = append(at, i)
					}
				}
				if len(at) > 0 {
					d[at[g.Intn(len(at))]+1+g.Intn(32)] ^= byte(1 << uint(g.Intn(8)))
				}
				cd.b.BTPDigest = d
			case v == 2 && len(plain) > 0: // a non-nil digest without networks under a header without BTP data
				b = plain[g.Intn(len(plain))]
				cd = &c08Cand{h: *b.hf, b: *b.bf}
				cd.b.BTPDigest = []byte{0xc1, 0xc0}
			case len(withD) > 1: // digest of another BTP block (same network ids, same NS filter)
				b = withD[g.Intn(len(withD))]
				o := withD[g.Intn(len(withD))]
				cd = &c08Cand{h: *b.hf, b: *b.bf}
				cd.b.BTPDigest = c08Clone(o.bf.BTPDigest)
				if bytes.Equal(o.bf.BTPDigest, b.bf.BTPDigest) {
					tag = ""
				}
			default:
				tag = ""
			}
			c.register(cd)
			emit(cd.encode(), tag)
		case k < 65: // body of another block under this header
			o := c.pickBlock()
			c.register(cd)
			c.register(&c08Cand{h: *o.hf, b: *o.bf})
			tag := ""
			if !bytes.Equal(o.bb, b.bb) {
				tag = "swap"
			}
			emit(append(c08Clone(b.hb), o.bb...), tag)
		case k < 80: // structural byte-level mutations of a (possibly mutated) encoding
			if g.Intn(2) == 0 {
				c.mutate(cd)
			}
			c.register(cd)
			enc := cd.encode()
			switch g.Intn(8) {
			case 0, 1:
				enc = enc[:g.Intn(len(enc))] // truncation
			case 2:
				enc = append(enc, g.Bytes(1+g.Intn(8))...) // trailing bytes after the body
			case 3: // outer length byte of the header +-1
				if len(enc) > 2 {
					enc[1+g.Intn(2)] += byte(g.Pick(1, 255))
				}
			case 4: // outer length of the body +-1
				hl := len(c08List()) // placeholder to keep types simple
				_ = hl
				hdrLen := len(cd.encode()) - len(encodeBodyOnly(cd))
				if hdrLen+2 < len(enc) {
					enc[hdrLen+g.Intn(2)] += byte(g.Pick(1, 255))
				}
			case 5: // header only / body only / body first
				hdrLen := len(enc) - len(encodeBodyOnly(cd))
				switch g.Intn(3) {
				case 0:
					enc = enc[:hdrLen]
				case 1:
					enc = enc[hdrLen:]
				default:
					enc = append(c08Clone(enc[hdrLen:]), enc[:hdrLen]...)
				}
			case 6: // leading garbage
				enc = append(g.Bytes(1+g.Intn(3)), enc...)
			default: // one flipped bit in the first two bytes (list header)
				enc[g.Intn(2)] ^= byte(1 << uint(g.Intn(8)))
			}
			emit(enc, "")
		case k < 84: // negative / huge network ids in the digest; a network digest list that ends early
			nid := []int64{-1, -8, -1 << 63, 1<<63 - 1, 1 << 40, 255, 256, 0}[g.Intn(8)]
			cd := c.negNID(nid)
			if g.Intn(4) == 0 {
				cd.b.BTPDigest = c08ShortNDList()
				cd.h.Result = c08List(c08Str(nil), c08Str(nil), c08Str(nil), c08Str(nil), c08Int(1), c08Str(crypto.SHA3Sum256(cd.b.BTPDigest)))
			}
			c.register(cd)
			emit(cd.encode(), "")
		case k < 88: // several blocks back to back in one reader, possibly after consumed bytes
			var all []byte
			var lens []string
			skip := 0
			if g.Intn(2) == 0 {
				skip = 1 + g.Intn(40)
				all = g.Bytes(skip)
			}
			cnt := 1 + g.Intn(4)
			for j := 0; j < cnt; j++ {
				pb := c.pickBlock()
				pc := &c08Cand{h: *pb.hf, b: *pb.bf}
				pc.b.PatchTransactions = c08CloneBss(pc.b.PatchTransactions)
				pc.b.NormalTransactions = c08CloneBss(pc.b.NormalTransactions)
				if g.Intn(5) == 0 {
					c.mutate(pc)
				}
				c.register(pc)
				enc := pc.encode()
				c.registerBytes(enc)
				all = append(all, enc...)
				lens = append(lens, strconv.Itoa(len(enc)))
			}
			if g.Intn(6) == 0 {
				all = append(all, g.Bytes(1+g.Intn(5))...) // trailing bytes after the last block
			}
			mode := []string{"seek", "seek", "bufio", "plain"}[g.Intn(4)]
			n := cnt + g.Intn(2)
			if mode == "plain" {
				n = 1
			}
			g.Emit("decs %s %d %d %s %s", mode, skip, n, hx(all), strings.Join(lens, ","))
		case k < 92: // random bytes
			n := g.Pick(0, 1, 2, 3, 10, 40, 100)
			bs := g.Bytes(n)
			if n > 0 && g.Intn(2) == 0 {
				bs[0] = byte(g.Pick(0xc0, 0xf7, 0xf8, 0xf9, 0xff, 0xd0))
			}
			emit(bs, "")
		default: // fuzz corpus seeds of the repo, possibly mutated
			s := c08Clone(seeds[g.Intn(2)])
			if g.Intn(2) == 0 {
				s[g.Intn(len(s))] ^= byte(1 << uint(g.Intn(8)))
			}
			emit(s, "")
		}
	}
}

func encodeBodyOnly(cd *c08Cand) []byte {
	full := cd.encode()
	// the body is the second top-level item: skip the first one using its declared size
	n, hl := c08ItemLen(full)
	if n < 0 || hl+n > len(full) {
		return nil
	}
	return full[hl+n:]
}

// c08ItemLen returns payload length and header length of the list item at the start of b.
func c08ItemLen(b []byte) (int, int) {
	if len(b) == 0 || b[0] < 0xc0 {
		return -1, 0
	}
	if b[0] <= 0xf7 {
		return int(b[0] - 0xc0), 1
	}
	k := int(b[0] - 0xf7)
	if len(b) < 1+k {
		return -1, 0
	}
	n := 0
	for _, x := range b[1 : 1+k] {
		n = n<<8 | int(x)
	}
	return n, 1 + k
}

// ------------------------------------------------------------------ runner

type c08Runner struct{}

func c08New() Runner { return c08Runner{} }

func (c08Runner) Step(t []string, o *Oracle) string {
	if len(t) == 0 {
		return "bad-op"
	}
	switch t[0] {
	case "tx", "txl", "votes", "digest", "result", "prop", "bloom":
		return "ok"
	case "decs":
		if len(t) != 6 {
			return "bad-op"
		}
		return c08Decs(t[1], t[2], t[3], unhx(t[4]), t[5], o)
	case "dec":
		if len(t) < 2 || len(t) > 3 {
			return "bad-op"
		}
		return c08Dec(unhx(t[1]), len(t) == 3 && t[2] == "swap", o)
	}
	return "bad-op"
}

// c08Plain hides Seek/Peek: a reader that can only be read
type c08Plain struct{ r io.Reader }

func (p c08Plain) Read(b []byte) (int, error) { return p.r.Read(b) }

// c08Decs: the input holds several marshalled blocks back to back (LENS = their lengths), possibly
// after K bytes that the caller has consumed already. Decode up to N blocks from ONE reader.
// Oracle: the i-th block decoded from the stream is the block written at that position (same id as
// decoding that piece alone from a fresh reader) and the reader then stands at the end of that piece.
func c08Decs(mode, kS, nS string, in []byte, lensS string, o *Oracle) (out string) {
	var k, n int
	if _, err := fmt.Sscanf(kS, "%d", &k); err != nil || k < 0 || k > len(in) {
		return "bad-op"
	}
	if _, err := fmt.Sscanf(nS, "%d", &n); err != nil || n < 1 || n > 16 {
		return "bad-op"
	}
	if mode == "plain" && n != 1 {
		return "bad-op"
	}
	var lens []int
	for _, x := range strings.Split(lensS, ",") {
		var l int
		if _, err := fmt.Sscanf(x, "%d", &l); err != nil {
			return "bad-op"
		}
		lens = append(lens, l)
	}
	nd := c08GetNode(nil)
	bdf, err := block.NewBlockDataFactory(nd.nd.Chain, nil)
	if err != nil {
		return "harness-error"
	}
	defer func() {
		if e := recover(); e != nil {
			o.Check(false, "decoder-panic", "NewBlockDataFromReader panicked: %v", e)
			out = "panic"
		}
	}()
	base := bytes.NewReader(in)
	var rd io.Reader
	var pos func() int
	switch mode {
	case "seek":
		rd = base
		pos = func() int { return len(in) - base.Len() }
	case "bufio":
		br := bufio.NewReaderSize(c08Plain{base}, 64)
		rd = br
		pos = func() int { return len(in) - base.Len() - br.Buffered() }
	case "plain":
		rd = c08Plain{base}
	default:
		return "bad-op"
	}
	// the caller consumes the first K bytes itself
	if _, err := io.CopyN(io.Discard, rd, int64(k)); err != nil {
		return "harness-error:skip"
	}
	o.Count("decs-" + mode)
	var res []string
	off := k
	for i := 0; i < n; i++ {
		var bd module.BlockData
		var derr error
		c08Watch("NewBlockDataFromReader", in, func() {
			c08Quiet(func() { bd, derr = bdf.NewBlockDataFromReader(rd) })
		})
		// reference: the piece written at this position, decoded alone from a fresh reader
		var ref module.BlockData
		var rerr error = io.EOF
		if i < len(lens) && off+lens[i] <= len(in) {
			c08Quiet(func() { ref, rerr = bdf.NewBlockDataFromReader(bytes.NewReader(in[off : off+lens[i]])) })
		}
		if i < len(lens) {
			o.Check((derr == nil) == (rerr == nil), "stream-decode-differs-from-piece",
				"block #%d of the stream (offset %d): stream decode err=%v, the piece alone err=%v", i, off, derr, rerr)
		}
		if derr != nil {
			res = append(res, "err")
			break
		}
		if ref != nil {
			o.Check(bytes.Equal(bd.ID(), ref.ID()) && bd.Height() == ref.Height(), "stream-decode-wrong-block",
				"block #%d decoded from the stream at offset %d has id %x height %d, the block written there has id %x height %d",
				i, off, bd.ID(), bd.Height(), ref.ID(), ref.Height())
			if i > 0 || k > 0 {
				o.Count("decs-ok-at-offset>0")
			}
		}
		if i < len(lens) {
			off += lens[i]
		}
		if pos != nil {
			o.Check(pos() == off || i >= len(lens), "stream-decode-wrong-position",
				"after block #%d the reader stands at %d, the block ends at %d", i, pos(), off)
			res = append(res, fmt.Sprintf("ok id=%s pos=%d", hex.EncodeToString(bd.ID()), pos()))
		} else {
			res = append(res, fmt.Sprintf("ok id=%s", hex.EncodeToString(bd.ID())))
		}
	}
	return strings.Join(res, ";")
}

func c08Dec(in []byte, swap bool, o *Oracle) (out string) {
	n := c08GetNode(nil)
	bdf, err := block.NewBlockDataFactory(n.nd.Chain, nil)
	if err != nil {
		return "harness-error"
	}
	defer func() {
		if e := recover(); e != nil {
			// "decoding arbitrary bytes never crashes the node"
			o.Check(false, "decoder-panic", "NewBlockDataFromReader panicked: %v", e)
			o.Count("panic")
			out = "panic"
		}
	}()
	var bd module.BlockData
	c08Watch("NewBlockDataFromReader", in, func() {
		c08Quiet(func() {
			bd, err = bdf.NewBlockDataFromReader(bytes.NewReader(in))
		})
	})
	if err != nil {
		o.Count("err")
		if swap {
			o.Count("swap-rejected")
		}
		return "err"
	}
	o.Count("ok")
	o.Check(!swap, "body-swap-accepted", "another block's body was accepted under this header")
	var hb, bb bytes.Buffer
	o.Check(bd.MarshalHeader(&hb) == nil && bd.MarshalBody(&bb) == nil, "marshal-failed", "decoded block does not marshal")
	// the id is the hash of the serialized header
	o.Check(bytes.Equal(bd.ID(), crypto.SHA3Sum256(hb.Bytes())), "id-not-header-hash", "ID %x is not SHA3(header)", bd.ID())
	// a block serialized by the node decodes back to the same id and contents
	var bd2 module.BlockData
	var err2 error
	c08Quiet(func() {
		bd2, err2 = bdf.NewBlockDataFromReader(bytes.NewReader(append(c08Clone(hb.Bytes()), bb.Bytes()...)))
	})
	if o.Check(err2 == nil, "reserialized-block-rejected", "Marshal() output of a decoded block does not decode: %v", err2); err2 == nil {
		var hb2, bb2 bytes.Buffer
		_ = bd2.MarshalHeader(&hb2)
		_ = bd2.MarshalBody(&bb2)
		o.Check(bytes.Equal(bd2.ID(), bd.ID()), "roundtrip-id-changed", "id changed in a round trip")
		o.Check(bytes.Equal(hb2.Bytes(), hb.Bytes()) && bytes.Equal(bb2.Bytes(), bb.Bytes()), "roundtrip-contents-changed", "contents changed in a round trip")
	}
	// binding of the body to the header that was on the wire
	var hf block.V2HeaderFormat
	rest, uerr := codec.BC.UnmarshalFromBytes(in, &hf)
	_ = rest
	if uerr == nil {
		o.Check(bytes.Equal(hf.VotesHash, bd.Votes().Hash()), "votes-not-bound", "votes hash %x differs from the header's %x", bd.Votes().Hash(), hf.VotesHash)
		vh := sha3.Sum256(bd.Votes().Bytes())
		o.Check(bytes.Equal(hf.VotesHash, vh[:]), "votes-bytes-not-bound", "sha3 of the decoded votes bytes differs from the header's votes hash")
		o.Check(bytes.Equal(hf.NormalTransactionsHash, bd.NormalTransactions().Hash()), "normal-txs-not-bound", "normal tx list hash differs from the header's")
		o.Check(bytes.Equal(hf.PatchTransactionsHash, bd.PatchTransactions().Hash()), "patch-txs-not-bound", "patch tx list hash differs from the header's")
		dg, derr := bd.BTPDigest()
		dh, rerr := service.BTPDigestHashFromResult(hf.Result)
		if o.Check(derr == nil && rerr == nil, "digest-unavailable", "digest of a decoded block: %v %v", derr, rerr); derr == nil && rerr == nil {
			o.Check(bytes.Equal(dh, dg.Hash()), "digest-not-bound", "BTP digest hash %x differs from the result's %x", dg.Hash(), dh)
			// do not trust the digest object's own Hash(): hash the decoded digest bytes here
			var own []byte
			if dbs := dg.Bytes(); dbs != nil {
				h := sha3.Sum256(dbs)
				own = h[:]
			}
			o.Check(bytes.Equal(dh, own), "btp-digest-not-bound",
				"sha3 of the decoded block's BTP digest bytes is %x, the header's result commits to %x", own, dh)
			if dg.Bytes() != nil {
				o.Count("ok-digest-rehashed")
			}
			o.Check(bytes.Equal(hf.NSFilter, dg.NetworkSectionFilter().Bytes()), "nsfilter-not-bound", "NS filter differs from the digest's")
		}
		o.Check(hf.Height == bd.Height() && hf.Timestamp == bd.Timestamp() && bytes.Equal(hf.PrevID, bd.PrevID()) &&
			bytes.Equal(hf.Result, bd.Result()) && bytes.Equal(hf.NextValidatorsHash, bd.NextValidatorsHash()),
			"header-fields-changed", "decoded block differs from the header on the wire")
	} else {
		o.Check(false, "header-undecodable-but-accepted", "codec rejects the header of an accepted block: %v", uerr)
	}
	if len(hf.NSFilter) > 0 {
		o.Count("ok-with-nsfilter")
	}
	if bb.Len() > 0 {
		var bf block.V2BodyFormat
		if _, e := codec.BC.UnmarshalFromBytes(bb.Bytes(), &bf); e == nil {
			if bf.BTPDigest != nil {
				o.Count("ok-with-digest")
			}
			if len(bf.NormalTransactions) > 0 {
				o.Count("ok-with-txs")
			}
		}
	}
	return fmt.Sprintf("ok id=%s hdr=%s body=%s", hex.EncodeToString(bd.ID()), hex.EncodeToString(hb.Bytes()), hex.EncodeToString(bb.Bytes()))
}
