//go:build c22 || all

package main

import (
	"bytes"
	"fmt"
	"math/big"
	"strconv"

	"github.com/icon-project/goloop/common"
	"github.com/icon-project/goloop/common/codec"
	"github.com/icon-project/goloop/common/db"
	"github.com/icon-project/goloop/module"
	"github.com/icon-project/goloop/service/transaction"
	"github.com/icon-project/goloop/service/txresult"
)

// C22: transaction / receipt lists keep order and index.
//
// ops:
//   key N          transaction.intToKey(N) (hook) == codec.BC.MarshalToBytes(uint(N))
//   unkey HEX      codec.BC.UnmarshalFromBytes(HEX, &uint)
//   list tx|rc N V build a list of N items (content variant V), iterate, Get(i) for all i,
//                  Get out of range, Flush, reload from hash, iterate and Get again

func init() {
	Register(&Prop{ID: "C22", Gen: c22Gen, New: func() Runner { return c22Runner{} }})
}

type c22Runner struct{}

const c22Sig = "bjarKeF3izGy469dpSciP3TT9caBQVYgHdaNgjY+8wJTOVSFm4o/ODXycFOdXUJcIwqvcE9If8x6Zmgt//XmkQE="

func c22Tx(ord, variant int) module.Transaction {
	// every transaction differs (timestamp/nonce carry the ordinal); the variant
	// changes all contents so that trie values/hashes differ between cases.
	js := fmt.Sprintf(`{"version":"0x3","from":"hx54f7853dc6481b670caf69c5a27c7c8fe5be8269","to":"hx49a23bd156932485471f582897bf1bec5f8757%02x","value":"0x%x","stepLimit":"0x%x","timestamp":"0x%x","nid":"0x1","nonce":"0x%x","signature":"%s"}`,
		variant&0xff, 1+variant*7919, 1000+variant, 0x5000000000+ord, ord*(1+variant%3)+1, c22Sig)
	tx, err := transaction.NewTransactionFromJSON([]byte(js))
	if err != nil {
		panic(err)
	}
	return tx
}

var c22Addr = common.MustNewAddressFromString("cx0003737589788888888888888888888888888888")

func c22Receipt(mdb db.Database, ord, variant int) txresult.Receipt {
	rev := module.Revision(0)
	if variant%2 == 1 {
		rev = module.UseMPTOnEvents
	}
	r := txresult.NewReceipt(mdb, rev, c22Addr)
	st := module.StatusSuccess
	if (ord+variant)%5 == 0 {
		st = module.StatusOutOfBalance
	}
	r.SetResult(st, big.NewInt(int64(ord)), big.NewInt(int64(10+variant)), nil)
	return r
}

// digest of a sequence that should be 0,1,2,...
func c22Digest(seq []int, n int) string {
	for i, v := range seq {
		if v != i {
			return fmt.Sprintf("dev@%d=%d", i, v)
		}
	}
	if len(seq) != n {
		return fmt.Sprintf("len=%d", len(seq))
	}
	return "identity"
}

func c22NibLess(a, b []byte) bool {
	// strict lexicographic order on nibbles, proper prefix first
	na, nb := make([]byte, 0, 2*len(a)), make([]byte, 0, 2*len(b))
	for _, x := range a {
		na = append(na, x>>4, x&15)
	}
	for _, x := range b {
		nb = append(nb, x>>4, x&15)
	}
	return bytes.Compare(na, nb) < 0
}

func (c22Runner) Step(t []string, o *Oracle) string {
	if len(t) == 0 {
		return "bad-op"
	}
	switch t[0] {
	case "key":
		if len(t) != 2 {
			return "bad-op"
		}
		n, err := strconv.ParseUint(t[1], 10, 64)
		if err != nil || n >= 1<<63 {
			return "bad-op"
		}
		k := transaction.VerifIntToKey(int(n))
		k2, err := codec.BC.MarshalToBytes(uint(n))
		o.Check(err == nil && bytes.Equal(k, k2), "key-tx-rc-differ", "intToKey(%d)=%x but receipt list key=%x (%v)", n, k, k2, err)
		var idx uint
		_, err = codec.BC.UnmarshalFromBytes(k, &idx)
		o.Check(err == nil && uint64(idx) == n, "key-does-not-decode-to-index", "key %x of %d decodes to %d (%v)", k, n, idx, err)
		if n > 0 {
			p := transaction.VerifIntToKey(int(n - 1))
			o.Check(c22NibLess(p, k), "key-order-not-index-order", "key(%d)=%x is not below key(%d)=%x in trie order", n-1, p, n, k)
			o.Check(!bytes.HasPrefix(k, p) && !bytes.HasPrefix(p, k), "key-prefix-of-neighbour", "key(%d)=%x / key(%d)=%x", n-1, p, n, k)
		}
		o.Count(fmt.Sprintf("keylen-%d", len(k)))
		return hx(k)
	case "unkey":
		if len(t) != 2 {
			return "bad-op"
		}
		k := unhx(t[1])
		if len(k) == 0 {
			return "err"
		}
		if k[0] >= 0xb8 {
			return "bad-op"
		}
		var idx uint
		if _, err := codec.BC.UnmarshalFromBytes(k, &idx); err != nil {
			return "err"
		}
		return fmt.Sprintf("ok %d", idx)
	case "list":
		if len(t) != 4 {
			return "bad-op"
		}
		n, err := strconv.Atoi(t[2])
		if err != nil || n < 0 || n > 200000 {
			return "bad-op"
		}
		variant, err := strconv.Atoi(t[3])
		if err != nil {
			return "bad-op"
		}
		switch t[1] {
		case "tx":
			return c22TxList(n, variant, o)
		case "rc":
			return c22RcList(n, variant, o)
		}
	}
	return "bad-op"
}

func c22Bucket(n int) string {
	switch {
	case n <= 128:
		return "n<=128"
	case n <= 256:
		return "n<=256"
	case n <= 32768:
		return "n<=32768"
	case n <= 65536:
		return "n<=65536"
	}
	return "n>65536"
}

func c22TxList(n, variant int, o *Oracle) string {
	mdb := db.NewMapDB()
	slice := make([]module.Transaction, n)
	ord := make(map[string]int, n)
	for i := range slice {
		slice[i] = c22Tx(i, variant)
		ord[string(slice[i].ID())] = i
	}
	o.Check(len(ord) == n, "harness-duplicate-items", "duplicate transactions generated")
	o.Count("list-tx-" + c22Bucket(n))
	run := func(l module.TransactionList, tag string) (string, string, string) {
		var seq, idxs []int
		for it := l.Iterator(); it.Has(); it.Next() {
			tx, idx, err := it.Get()
			if err != nil {
				seq = append(seq, -2)
				idxs = append(idxs, -2)
				continue
			}
			p, ok := ord[string(tx.ID())]
			if !ok {
				p = -1
			}
			if p >= 0 && !bytes.Equal(tx.Bytes(), slice[p].Bytes()) {
				p = -3
			}
			seq = append(seq, p)
			idxs = append(idxs, idx)
		}
		var gets []int
		for i := 0; i < n; i++ {
			tx, err := l.Get(i)
			if err != nil || tx == nil {
				gets = append(gets, -2)
				continue
			}
			p, ok := ord[string(tx.ID())]
			if !ok {
				p = -1
			}
			gets = append(gets, p)
		}
		a, b, c := c22Digest(seq, n), c22Digest(idxs, n), c22Digest(gets, n)
		o.Check(a == "identity", "tx-iteration-order-"+tag, "n=%d: iteration order %s", n, a)
		o.Check(b == "identity", "tx-iteration-index-"+tag, "n=%d: iterator index %s", n, b)
		o.Check(c == "identity", "tx-get-by-index-"+tag, "n=%d: Get(i) %s", n, c)
		return a, b, c
	}
	orig := append([]module.Transaction{}, slice...)
	l := transaction.NewTransactionListFromSlice(mdb, slice)
	// the caller goes on using its slice: the list must not depend on it
	switch variant % 5 {
	case 1:
		for i, j := 0, n-1; i < j; i, j = i+1, j-1 {
			slice[i], slice[j] = slice[j], slice[i]
		}
		o.Count("source-slice-reversed")
	case 2:
		for i := range slice {
			slice[i] = c22Tx(n+i, variant+1)
		}
		o.Count("source-slice-overwritten")
	case 3:
		for i := range slice {
			slice[i] = nil
		}
		o.Count("source-slice-nilled")
	case 4:
		slice = slice[:n/2]
		for i := 0; i < n-n/2; i++ {
			slice = append(slice, c22Tx(2*n+i, variant))
		}
		o.Count("source-slice-truncated-appended")
	}
	slice = orig
	a1, b1, c1 := run(l, "built")
	oob := "none"
	for _, i := range []int{n, n + 1, 2*n + 7} {
		if tx, err := l.Get(i); err == nil && tx != nil {
			oob = fmt.Sprintf("found@%d", i)
		}
	}
	o.Check(oob == "none", "tx-get-out-of-range-found", "n=%d: %s", n, oob)
	if err := l.Flush(); err != nil {
		return "err"
	}
	l2 := transaction.NewTransactionListFromHash(mdb, l.Hash())
	a2, b2, c2 := run(l2, "reloaded")
	return fmt.Sprintf("n=%d iter=%s idx=%s get=%s oob=%s reload: iter=%s idx=%s get=%s", n, a1, b1, c1, oob, a2, b2, c2)
}

func c22RcList(n, variant int, o *Oracle) string {
	mdb := db.NewMapDB()
	slice := make([]txresult.Receipt, n)
	ord := make(map[string]int, n)
	for i := range slice {
		slice[i] = c22Receipt(mdb, i, variant)
		ord[string(slice[i].Bytes())] = i
	}
	o.Check(len(ord) == n, "harness-duplicate-items", "duplicate receipts generated")
	o.Count("list-rc-" + c22Bucket(n))
	run := func(l module.ReceiptList, tag string) (string, string) {
		var seq []int
		for it := l.Iterator(); it.Has(); it.Next() {
			r, err := it.Get()
			if err != nil {
				seq = append(seq, -2)
				continue
			}
			p, ok := ord[string(r.Bytes())]
			if !ok {
				p = -1
			}
			seq = append(seq, p)
		}
		var gets []int
		for i := 0; i < n; i++ {
			r, err := l.Get(i)
			if err != nil || r == nil {
				gets = append(gets, -2)
				continue
			}
			p, ok := ord[string(r.Bytes())]
			if !ok {
				p = -1
			}
			gets = append(gets, p)
		}
		a, c := c22Digest(seq, n), c22Digest(gets, n)
		o.Check(a == "identity", "rc-iteration-order-"+tag, "n=%d: iteration order %s", n, a)
		o.Check(c == "identity", "rc-get-by-index-"+tag, "n=%d: Get(i) %s", n, c)
		return a, c
	}
	orig := append([]txresult.Receipt{}, slice...)
	l := txresult.NewReceiptListFromSlice(mdb, slice)
	switch variant % 5 {
	case 1:
		for i, j := 0, n-1; i < j; i, j = i+1, j-1 {
			slice[i], slice[j] = slice[j], slice[i]
		}
		o.Count("source-slice-reversed")
	case 2:
		for i := range slice {
			slice[i] = c22Receipt(mdb, n+i, variant+1)
		}
		o.Count("source-slice-overwritten")
	case 3:
		for i := range slice {
			slice[i] = nil
		}
		o.Count("source-slice-nilled")
	case 4:
		slice = slice[:n/2]
		for i := 0; i < n-n/2; i++ {
			slice = append(slice, c22Receipt(mdb, 2*n+i, variant))
		}
		o.Count("source-slice-truncated-appended")
	}
	slice = orig
	a1, c1 := run(l, "built")
	oob := "none"
	for _, i := range []int{n, n + 1, 2*n + 7} {
		if r, err := l.Get(i); err == nil && r != nil {
			oob = fmt.Sprintf("found@%d", i)
		}
	}
	o.Check(oob == "none", "rc-get-out-of-range-found", "n=%d: %s", n, oob)
	if err := l.Flush(); err != nil {
		return "err"
	}
	l2 := txresult.NewReceiptListFromHash(mdb, l.Hash())
	a2, c2 := run(l2, "reloaded")
	// the receipt iterator reports no index: idx is printed as identity by convention
	return fmt.Sprintf("n=%d iter=%s idx=%s get=%s oob=%s reload: iter=%s idx=%s get=%s", n, a1, "identity", c1, oob, a2, "identity", c2)
}

// ---------------------------------------------------------------- generator

var c22Bounds = []int{0, 1, 2, 3, 15, 16, 17, 55, 56, 127, 128, 129, 255, 256, 257, 4095, 4096, 4097}
var c22BigBounds = []int{32767, 32768, 32769, 65535, 65536, 65537, 70000}

func c22Gen(g *Gen) {
	// g.N counts key ops; list ops are budgeted separately (they are heavy)
	for i := 0; i < g.N; i++ {
		switch g.Intn(10) {
		case 0, 1, 2:
			// around a byte-length boundary of the index: 2^(8k-1) and 2^(8k)
			k := 1 + g.Intn(8)
			sh := uint(8*k - 1 + g.Intn(2))
			if sh > 62 {
				sh = 62
			}
			v := int64(1)<<sh + int64(g.Intn(7)-3)
			if g.Intn(8) == 0 {
				v = int64(9223372036854775807) - int64(g.Intn(3))
			}
			if v < 0 {
				v = 0
			}
			g.Emit("key %d", v)
		case 3, 4:
			g.Emit("key %d", g.Intn(70001))
		case 5:
			g.Emit("key %d", g.R.Int63()>>uint(g.Intn(63)))
		case 6:
			b := c22Bounds[g.Intn(len(c22Bounds))] + g.Intn(3) - 1
			if b < 0 {
				b = 0
			}
			g.Emit("key %d", b)
		case 7:
			// decode of real keys
			g.Emit("unkey %s", hx(transaction.VerifIntToKey(int(g.R.Int63()>>uint(g.Intn(63))))))
		default:
			// decode of arbitrary short strings (non-minimal, truncated, overlong)
			var k []byte
			switch g.Intn(4) {
			case 0:
				k = []byte{byte(g.Intn(0x80))}
			case 1:
				n := g.Intn(11)
				k = append([]byte{byte(0x80 + n)}, g.Bytes(n)...)
				if n > 0 && g.Intn(2) == 0 {
					k[1] = byte(g.Pick(0, 0x7f, 0x80, 0xff))
				}
			case 2:
				n := g.Intn(11)
				k = append([]byte{byte(0x80 + n)}, g.Bytes(g.Intn(n+1))...) // possibly truncated
			default:
				n := g.Intn(6)
				k = append([]byte{byte(0x80 + n)}, g.Bytes(n+g.Intn(3))...) // trailing bytes
			}
			g.Emit("unkey %s", hx(k))
		}
	}
	kinds := []string{"tx", "rc"}
	// every n up to a small bound, both kinds
	small := 40
	if g.Tier == "thorough" {
		small = 300
	}
	for n := 0; n <= small; n++ {
		g.Emit("list %s %d %d", kinds[n%2], n, g.Intn(50))
		if g.Tier == "thorough" || n < 20 {
			g.Emit("list %s %d %d", kinds[(n+1)%2], n, g.Intn(50))
		}
	}
	for _, b := range c22Bounds {
		for d := -1; d <= 1; d++ {
			if b+d < 0 {
				continue
			}
			if b >= 4095 && g.Tier != "thorough" && d != 0 {
				continue
			}
			g.Emit("list %s %d %d", kinds[g.Intn(2)], b+d, g.Intn(50))
			if g.Tier == "thorough" {
				g.Emit("list %s %d %d", kinds[g.Intn(2)], b+d, g.Intn(50))
			}
		}
	}
	rnd := 12
	if g.Tier == "thorough" {
		rnd = 60
	}
	for i := 0; i < rnd; i++ {
		g.Emit("list %s %d %d", kinds[g.Intn(2)], 258+g.Intn(3000), g.Intn(50))
	}
	if g.Tier == "thorough" {
		for _, b := range c22BigBounds {
			g.Emit("list %s %d %d", kinds[g.Intn(2)], b, g.Intn(50))
		}
		g.Emit("list tx %d %d", 32768+g.Intn(3), g.Intn(50))
		g.Emit("list rc %d %d", 32768+g.Intn(3), g.Intn(50))
		g.Emit("list %s %d %d", kinds[g.Intn(2)], 32770+g.Intn(37000), g.Intn(50))
	} else {
		// one list crossing the 32768 boundary per quick run
		g.Emit("list %s %d %d", kinds[g.Intn(2)], 32768+g.Intn(3), g.Intn(50))
	}
	g.Emit("list xx 3 1")
	g.Emit("key -1")
	g.Emit("unkey c0")
}
