//go:build c29 || all

package main

import (
	"fmt"
	"strconv"
	"strings"

	"github.com/icon-project/goloop/btp/ntm"
	"github.com/icon-project/goloop/common/codec"
	"github.com/icon-project/goloop/common/crypto"
	"github.com/icon-project/goloop/module"
)

// C29: secp256k1ProofContext.Verify / VerifyPart with real keys.
//
// ops (symbolic; keys, messages and signatures are derived deterministically
// from the small ids, so that a replay is self-contained):
//
//	verify <path> <dh> <vals> <sigs>
//	part   <path> <dh> <vals> <idx> <sig>
//
// path = module (e|i) + context construction (k: NewProofContext(keys),
// b: NewProofContextFromBytes) + proof construction (b: NewProofFromBytes,
// a: in-memory object); vals = "_" or list of key ids / "n" (validator
// without key); sigs = "_" or list of "-", "s<k>m<j>" (key k signs message
// j), "f<k>m<j>" (same, recovery bit flipped), "xv" (bad recovery code),
// "xr" (r=0), "xs" (s=0); dh = id of the decision hash being verified.

func init() {
	ntm.InitIconModule()
	Register(&Prop{ID: "C29", Gen: c29Gen, New: func() Runner { return c29Runner{} }})
}

var (
	c29Keys = map[int]*crypto.PrivateKey{}
	c29Sigs = map[[2]int][]byte{}
)

func c29Key(k int) *crypto.PrivateKey {
	if p, ok := c29Keys[k]; ok {
		return p
	}
	seed := crypto.SHA3Sum256([]byte(fmt.Sprintf("c29-key-%d", k)))
	p, err := crypto.ParsePrivateKey(seed)
	if err != nil {
		panic(err)
	}
	c29Keys[k] = p
	return p
}

func c29Msg(j int) []byte {
	return crypto.SHA3Sum256([]byte(fmt.Sprintf("c29-msg-%d", j)))
}

// c29RSV returns the 65 byte [R|S|V] signature of key k over message j.
func c29RSV(k, j int) []byte {
	if s, ok := c29Sigs[[2]int{k, j}]; ok {
		return append([]byte{}, s...)
	}
	sig, err := crypto.NewSignature(c29Msg(j), c29Key(k))
	if err != nil {
		panic(err)
	}
	bs, err := sig.SerializeRSV()
	if err != nil {
		panic(err)
	}
	c29Sigs[[2]int{k, j}] = append([]byte{}, bs...)
	return append([]byte{}, bs...)
}

type c29Slot struct {
	kind byte // '-', 's', 'f', 'x'
	k, j int
	sig  *crypto.Signature
}

func c29ParseKM(s string) (int, int, bool) {
	ps := strings.Split(s, "m")
	if len(ps) != 2 {
		return 0, 0, false
	}
	k, e1 := strconv.ParseUint(ps[0], 10, 16)
	j, e2 := strconv.ParseUint(ps[1], 10, 16)
	if e1 != nil || e2 != nil {
		return 0, 0, false
	}
	return int(k), int(j), true
}

func c29ParseSig(s string) (c29Slot, bool) {
	var rsv []byte
	sl := c29Slot{}
	switch {
	case s == "xv":
		rsv = c29RSV(1, 0)
		rsv[64] = 9
		sl.kind = 'x'
	case s == "xr":
		rsv = c29RSV(1, 0)
		for i := 0; i < 32; i++ {
			rsv[i] = 0
		}
		sl.kind = 'x'
	case s == "xs":
		rsv = c29RSV(1, 0)
		for i := 32; i < 64; i++ {
			rsv[i] = 0
		}
		sl.kind = 'x'
	case len(s) > 1 && (s[0] == 's' || s[0] == 'f'):
		k, j, ok := c29ParseKM(s[1:])
		if !ok {
			return sl, false
		}
		rsv = c29RSV(k, j)
		if s[0] == 'f' {
			rsv[64] ^= 1
		}
		sl.kind, sl.k, sl.j = s[0], k, j
	default:
		return sl, false
	}
	sig, err := crypto.ParseSignature(rsv)
	if err != nil {
		panic(err)
	}
	sl.sig = sig
	return sl, true
}

func c29Split(s string) []string {
	if s == "_" {
		return nil
	}
	return strings.Split(s, ",")
}

func c29ParseVals(s string) ([]int, bool) {
	var vals []int
	for _, t := range c29Split(s) {
		if t == "n" {
			vals = append(vals, -1)
			continue
		}
		k, err := strconv.ParseUint(t, 10, 16)
		if err != nil {
			return nil, false
		}
		vals = append(vals, int(k))
	}
	return vals, true
}

func c29PathOK(p string) bool {
	return len(p) == 3 && (p[0] == 'e' || p[0] == 'i') && (p[1] == 'k' || p[1] == 'b') && (p[2] == 'b' || p[2] == 'a')
}

// c29Context builds the proof context through the module API.
func c29Context(path string, vals []int) module.BTPProofContext {
	uid := "eth"
	if path[0] == 'i' {
		uid = "icon"
	}
	mod := ntm.ForUID(uid)
	keys := make([][]byte, len(vals))
	for i, k := range vals {
		if k >= 0 {
			if (i+k)%2 == 0 {
				keys[i] = c29Key(k).PublicKey().SerializeCompressed()
			} else {
				keys[i] = c29Key(k).PublicKey().SerializeUncompressed()
			}
		}
	}
	pc, err := mod.NewProofContext(keys)
	if err != nil {
		panic(err)
	}
	if path[1] == 'b' {
		// through the serialized form, as a node restoring it from state does
		bs := pc.Bytes()
		if len(vals) == 0 {
			// Validators of an empty context encode as an empty list
			var x struct{ Validators [][]byte }
			x.Validators = [][]byte{}
			bs = codec.MustMarshalToBytes(&x)
		}
		pc2, err := mod.NewProofContextFromBytes(bs)
		if err != nil {
			panic(err)
		}
		return pc2
	}
	return pc
}

func c29ErrClass(err error) string {
	if err == nil {
		return "ok"
	}
	s := err.Error()
	switch {
	case strings.Contains(s, "invalid proof part index="):
		return "err-index"
	case strings.Contains(s, "maybe vote index is wrong"):
		return "err-wrong-index"
	case strings.Contains(s, "not a validator"):
		return "err-not-validator"
	case strings.Contains(s, "duplicated proof parts"):
		return "err-duplicated"
	case strings.Contains(s, "not enough proof parts"):
		return "err-not-enough"
	}
	return "err-recover"
}

type c29Runner struct{}

func (c29Runner) Step(t []string, o *Oracle) string {
	if len(t) == 0 {
		return "bad-op"
	}
	switch t[0] {
	case "verify":
		if len(t) != 5 || !c29PathOK(t[1]) {
			return "bad-op"
		}
		dh, err := strconv.ParseUint(t[2], 10, 16)
		vals, ok := c29ParseVals(t[3])
		if err != nil || !ok {
			return "bad-op"
		}
		var slots []c29Slot
		for _, s := range c29Split(t[4]) {
			if s == "-" {
				slots = append(slots, c29Slot{kind: '-'})
				continue
			}
			sl, ok := c29ParseSig(s)
			if !ok {
				return "bad-op"
			}
			slots = append(slots, sl)
		}
		if t[1][2] == 'a' && len(slots) > len(vals) {
			return "bad-op"
		}
		pc := c29Context(t[1], vals)
		sigs := make([]*crypto.Signature, len(slots))
		present := 0
		for i, sl := range slots {
			if sl.kind != '-' {
				sigs[i] = sl.sig
				present++
			}
		}
		var proof module.BTPProof
		if t[1][2] == 'b' {
			var x struct{ Signatures []*crypto.Signature }
			x.Signatures = sigs
			p, err := pc.NewProofFromBytes(codec.MustMarshalToBytes(&x))
			if err != nil {
				panic(err)
			}
			proof = p
		} else if present%2 == 0 {
			proof = ntm.VerifC29Proof(sigs)
		} else {
			// NewProof + Add of parts, the way the consensus assembles it
			proof = pc.NewProof()
			for i, sl := range slots {
				if sl.kind != '-' {
					proof.Add(ntm.VerifC29Part(i, sl.sig))
				}
			}
		}
		verr := pc.Verify(c29Msg(int(dh)), proof)
		cls := c29ErrClass(verr)
		o.Count("verify-" + cls)
		o.Count(fmt.Sprintf("n-mod3=%d", len(vals)%3))

		// property oracle, straight from the symbolic input: accepted only if every
		// occupied slot i holds a signature of validator i's key over this decision
		// and more than two thirds of the validators signed.
		allGood, distinct := true, map[int]bool{}
		why := ""
		for i, sl := range slots {
			if sl.kind == '-' {
				continue
			}
			switch {
			case i >= len(vals):
				allGood, why = false, "slot-beyond-validators"
			case sl.kind != 's':
				allGood, why = false, "forged-signature"
			case sl.j != int(dh):
				allGood, why = false, "signature-over-other-decision"
			case vals[i] < 0:
				allGood, why = false, "keyless-validator-slot"
			case vals[i] != sl.k:
				allGood, why = false, "wrong-index-or-foreign-signer"
			default:
				distinct[i] = true
			}
		}
		quorum := 3*len(distinct) > 2*len(vals)
		if verr == nil {
			o.Check(allGood, "c29-accepted-"+why, "proof accepted although slot check fails (%s)", why)
			o.Check(quorum, "c29-accepted-without-two-thirds", "proof accepted with %d valid distinct signatures of %d validators", len(distinct), len(vals))
		} else {
			o.Check(!(allGood && quorum), "c29-rejected-valid-proof", "valid proof rejected: %v", verr)
		}
		if verr == nil {
			return fmt.Sprintf("ok %d", present)
		}
		return cls
	case "part":
		if len(t) != 6 || !c29PathOK(t[1]) {
			return "bad-op"
		}
		dh, err := strconv.ParseUint(t[2], 10, 16)
		vals, ok := c29ParseVals(t[3])
		idx, err2 := strconv.ParseInt(t[4], 10, 32)
		sl, ok2 := c29ParseSig(t[5])
		if err != nil || err2 != nil || !ok || !ok2 {
			return "bad-op"
		}
		pc := c29Context(t[1], vals)
		var pp module.BTPProofPart
		if t[1][2] == 'b' {
			var x struct {
				Index     int
				Signature *crypto.Signature
			}
			x.Index, x.Signature = int(idx), sl.sig
			p, err := pc.NewProofPartFromBytes(codec.MustMarshalToBytes(&x))
			if err != nil {
				panic(err)
			}
			pp = p
		} else {
			pp = ntm.VerifC29Part(int(idx), sl.sig)
		}
		ri, verr := pc.VerifyPart(c29Msg(int(dh)), pp)
		cls := c29ErrClass(verr)
		o.Count("part-" + cls)
		good := idx >= 0 && int(idx) < len(vals) && sl.kind == 's' && sl.j == int(dh) && vals[idx] == sl.k
		if verr == nil {
			o.Check(good, "c29-part-accepted-wrong-signer", "part idx=%d %s accepted for validators %v", idx, t[5], vals)
			o.Check(ri == int(idx), "c29-part-index", "VerifyPart returned %d for part index %d", ri, idx)
			return fmt.Sprintf("ok %d", ri)
		}
		o.Check(!good, "c29-part-rejected-valid", "valid part rejected: %v", verr)
		o.Check(ri == -1, "c29-part-index", "VerifyPart returned index %d with error", ri)
		return cls
	}
	return "bad-op"
}

// ---- generator ----

func c29GenVals(g *Gen) []int {
	n := g.Pick(0, 1, 2, 3, 4, 5, 6, 7, 9, 10, 12, 13, 1+g.Intn(22))
	vals := make([]int, n)
	base := g.Intn(40)
	for i := range vals {
		vals[i] = base + i
	}
	// occasional validators without key, and (rare) repeated keys
	if n > 0 && g.Intn(5) == 0 {
		vals[g.Intn(n)] = -1
	}
	if n > 1 && g.Intn(12) == 0 {
		vals[g.Intn(n)] = vals[g.Intn(n)]
	}
	return vals
}

func c29ValsStr(vals []int) string {
	if len(vals) == 0 {
		return "_"
	}
	ss := make([]string, len(vals))
	for i, v := range vals {
		if v < 0 {
			ss[i] = "n"
		} else {
			ss[i] = strconv.Itoa(v)
		}
	}
	return strings.Join(ss, ",")
}

func c29Path(g *Gen, allowA bool) string {
	p := string("ei"[g.Intn(2)]) + string("kb"[g.Intn(2)])
	if allowA && g.Intn(2) == 0 {
		return p + "a"
	}
	return p + "b"
}

func c29BadSig(g *Gen, vals []int, i, dh int) string {
	k := 0
	if i < len(vals) && vals[i] >= 0 {
		k = vals[i]
	}
	switch g.Intn(8) {
	case 0:
		return []string{"xv", "xr", "xs"}[g.Intn(3)]
	case 1:
		return fmt.Sprintf("f%dm%d", k, dh) // right key, flipped recovery bit
	case 2:
		return fmt.Sprintf("s%dm%d", k, dh+1+g.Intn(2)) // right key, other decision
	case 3, 4:
		// another validator's signature (wrong index)
		if len(vals) > 1 {
			o := vals[g.Intn(len(vals))]
			if o >= 0 && o != k {
				return fmt.Sprintf("s%dm%d", o, dh)
			}
		}
		return fmt.Sprintf("s%dm%d", 900+g.Intn(5), dh)
	case 5:
		return fmt.Sprintf("s%dm%d", 900+g.Intn(5), dh) // foreign key
	default:
		return fmt.Sprintf("s%dm%d", k+1, dh) // neighbour's key
	}
}

func c29Gen(g *Gen) {
	for c := 0; c < g.N; c++ {
		vals := c29GenVals(g)
		n := len(vals)
		dh := g.Intn(3)
		if g.Intn(6) == 0 {
			// single part
			idx := g.Pick(-1, 0, n-1, n, n+1, g.Intn(n+1))
			var sig string
			if g.Intn(2) == 0 && idx >= 0 && idx < n && vals[idx] >= 0 {
				sig = fmt.Sprintf("s%dm%d", vals[idx], dh)
			} else {
				i := idx
				if i < 0 {
					i = 0
				}
				sig = c29BadSig(g, vals, i, dh)
			}
			g.Emit("part %s %d %s %d %s", c29Path(g, true), dh, c29ValsStr(vals), idx, sig)
			continue
		}
		// number of signatures around the two-thirds threshold
		thr := 2 * n / 3 // accepted needs > thr
		want := g.Pick(thr, thr+1, thr+1, thr-1, thr+2, n, g.Intn(n+1))
		if want < 0 {
			want = 0
		}
		if want > n {
			want = n
		}
		slots := make([]string, n)
		for i := range slots {
			slots[i] = "-"
		}
		perm := g.R.Perm(n)
		for _, i := range perm[:want] {
			if vals[i] >= 0 {
				slots[i] = fmt.Sprintf("s%dm%d", vals[i], dh)
			} else {
				slots[i] = fmt.Sprintf("s%dm%d", 800, dh)
			}
		}
		switch g.Intn(10) {
		case 0, 1, 2:
			// one defective part among otherwise sufficient ones
			if n > 0 {
				i := g.Intn(n)
				slots[i] = c29BadSig(g, vals, i, dh)
			}
		case 3:
			// the same validator's signature copied into several slots
			if n > 1 && want > 0 {
				src := perm[0]
				for r := 0; r < 1+g.Intn(n); r++ {
					slots[g.Intn(n)] = slots[src]
				}
			}
		case 4:
			// proof longer / shorter than the validator list
			if g.Intn(2) == 0 {
				extra := 1 + g.Intn(3)
				for e := 0; e < extra; e++ {
					if g.Intn(2) == 0 {
						slots = append(slots, "-")
					} else if n > 0 && vals[0] >= 0 {
						slots = append(slots, fmt.Sprintf("s%dm%d", vals[0], dh))
					} else {
						slots = append(slots, fmt.Sprintf("s%dm%d", 7, dh))
					}
				}
			} else if n > 0 {
				slots = slots[:g.Intn(n+1)]
			}
		}
		ss := "_"
		if len(slots) > 0 {
			ss = strings.Join(slots, ",")
		}
		g.Emit("verify %s %d %s %s", c29Path(g, len(slots) <= n), dh, c29ValsStr(vals), ss)
	}
}
