//go:build c29 || all

package main

import (
	"encoding/hex"
	"fmt"
	"strconv"
	"strings"

	"github.com/icon-project/goloop/btp"
	"github.com/icon-project/goloop/btp/ntm"
	"github.com/icon-project/goloop/common/codec"
	"github.com/icon-project/goloop/common/crypto"
	"github.com/icon-project/goloop/module"
)

// C29: secp256k1ProofContext.Verify / VerifyPart with real keys.
//
// ops (symbolic; keys, messages and signatures are derived deterministically
// from the small ids, so that a replay is self-contained):
//
//	verify <path> <dh> <vals> <sigs>
//	part   <path> <dh> <vals> <idx> <sig>
//
// path = module (e|i) + context construction (k: NewProofContext(keys),
// b: NewProofContextFromBytes) + proof construction (b: NewProofFromBytes,
// a: in-memory object); vals = "_" or list of key ids / "n" (validator
// without key); sigs = "_" or list of "-", "s<k>m<j>" (key k signs message
// j), "f<k>m<j>" (same, recovery bit flipped), "xv" (bad recovery code),
// "xr" (r=0), "xs" (s=0); dh = id of the decision hash being verified.

func init() {
	ntm.InitIconModule()
	Register(&Prop{ID: "C29", Gen: c29Gen, New: func() Runner { return &c29Runner{} }})
}

var (
	c29Keys = map[int]*crypto.PrivateKey{}
	c29Sigs = map[[2]int][]byte{}
)

func c29Key(k int) *crypto.PrivateKey {
	if p, ok := c29Keys[k]; ok {
		return p
	}
	seed := crypto.SHA3Sum256([]byte(fmt.Sprintf("c29-key-%d", k)))
	p, err := crypto.ParsePrivateKey(seed)
	if err != nil {
		panic(err)
	}
	c29Keys[k] = p
	return p
}

func c29Msg(j int) []byte {
	return crypto.SHA3Sum256([]byte(fmt.Sprintf("c29-msg-%d", j)))
}

// c29RSV returns the 65 byte [R|S|V] signature of key k over message j.
func c29RSV(k, j int) []byte {
	if s, ok := c29Sigs[[2]int{k, j}]; ok {
		return append([]byte{}, s...)
	}
	sig, err := crypto.NewSignature(c29Msg(j), c29Key(k))
	if err != nil {
		panic(err)
	}
	bs, err := sig.SerializeRSV()
	if err != nil {
		panic(err)
	}
	c29Sigs[[2]int{k, j}] = append([]byte{}, bs...)
	return append([]byte{}, bs...)
}

type c29Slot struct {
	kind byte // '-', 's', 'f', 'x'
	k, j int
	sig  *crypto.Signature
}

func c29ParseKM(s string) (int, int, bool) {
	ps := strings.Split(s, "m")
	if len(ps) != 2 {
		return 0, 0, false
	}
	k, e1 := strconv.ParseUint(ps[0], 10, 16)
	j, e2 := strconv.ParseUint(ps[1], 10, 16)
	if e1 != nil || e2 != nil {
		return 0, 0, false
	}
	return int(k), int(j), true
}

func c29ParseSig(s string) (c29Slot, bool) {
	var rsv []byte
	sl := c29Slot{}
	switch {
	case s == "xv":
		rsv = c29RSV(1, 0)
		rsv[64] = 9
		sl.kind = 'x'
	case s == "xr":
		rsv = c29RSV(1, 0)
		for i := 0; i < 32; i++ {
			rsv[i] = 0
		}
		sl.kind = 'x'
	case s == "xs":
		rsv = c29RSV(1, 0)
		for i := 32; i < 64; i++ {
			rsv[i] = 0
		}
		sl.kind = 'x'
	case len(s) > 1 && (s[0] == 's' || s[0] == 'f'):
		k, j, ok := c29ParseKM(s[1:])
		if !ok {
			return sl, false
		}
		rsv = c29RSV(k, j)
		if s[0] == 'f' {
			rsv[64] ^= 1
		}
		sl.kind, sl.k, sl.j = s[0], k, j
	default:
		return sl, false
	}
	sig, err := crypto.ParseSignature(rsv)
	if err != nil {
		panic(err)
	}
	sl.sig = sig
	return sl, true
}

func c29Split(s string) []string {
	if s == "_" {
		return nil
	}
	return strings.Split(s, ",")
}

func c29ParseVals(s string) ([]int, bool) {
	var vals []int
	for _, t := range c29Split(s) {
		if t == "n" {
			vals = append(vals, -1)
			continue
		}
		k, err := strconv.ParseUint(t, 10, 16)
		if err != nil {
			return nil, false
		}
		vals = append(vals, int(k))
	}
	return vals, true
}

func c29PathOK(p string) bool {
	return len(p) == 3 && (p[0] == 'e' || p[0] == 'i') && (p[1] == 'k' || p[1] == 'b') && (p[2] == 'b' || p[2] == 'a')
}

// c29Context builds the proof context through the module API.
func c29Context(path string, vals []int) module.BTPProofContext {
	uid := "eth"
	if path[0] == 'i' {
		uid = "icon"
	}
	mod := ntm.ForUID(uid)
	keys := make([][]byte, len(vals))
	for i, k := range vals {
		if k >= 0 {
			if (i+k)%2 == 0 {
				keys[i] = c29Key(k).PublicKey().SerializeCompressed()
			} else {
				keys[i] = c29Key(k).PublicKey().SerializeUncompressed()
			}
		}
	}
	pc, err := mod.NewProofContext(keys)
	if err != nil {
		panic(err)
	}
	if path[1] == 'b' {
		// through the serialized form, as a node restoring it from state does
		bs := pc.Bytes()
		if len(vals) == 0 {
			// Validators of an empty context encode as an empty list
			var x struct{ Validators [][]byte }
			x.Validators = [][]byte{}
			bs = codec.MustMarshalToBytes(&x)
		}
		pc2, err := mod.NewProofContextFromBytes(bs)
		if err != nil {
			panic(err)
		}
		return pc2
	}
	return pc
}

func c29ErrClass(err error) string {
	if err == nil {
		return "ok"
	}
	s := err.Error()
	switch {
	case strings.Contains(s, "invalid proof part index="):
		return "err-index"
	case strings.Contains(s, "maybe vote index is wrong"):
		return "err-wrong-index"
	case strings.Contains(s, "not a validator"):
		return "err-not-validator"
	case strings.Contains(s, "duplicated proof parts"):
		return "err-duplicated"
	case strings.Contains(s, "not enough proof parts"):
		return "err-not-enough"
	}
	return "err-recover"
}

// c29Runner keeps ONE proof context object alive across the cverify/cpart ops of a case.
type c29Runner struct {
	pc      module.BTPProofContext
	p2      string
	valsTxt string
	useKept bool
}

func (r *c29Runner) context(path string, vals []int) module.BTPProofContext {
	if r.useKept {
		return r.pc
	}
	return c29Context(path, vals)
}

func (r *c29Runner) Step(t []string, o *Oracle) string {
	if len(t) == 0 {
		return "bad-op"
	}
	switch t[0] {
	case "ctx":
		if len(t) != 3 || (t[1] != "ek" && t[1] != "eb" && t[1] != "ik" && t[1] != "ib") {
			return "bad-op"
		}
		vals, ok := c29ParseVals(t[2])
		if !ok {
			return "bad-op"
		}
		r.pc, r.p2, r.valsTxt = c29Context(t[1]+"b", vals), t[1], t[2]
		return "ok"
	case "cverify", "cpart":
		if r.pc == nil || len(t) < 2 || (t[1] != "a" && t[1] != "b") {
			return "bad-op"
		}
		var t2 []string
		if t[0] == "cverify" {
			if len(t) != 4 {
				return "bad-op"
			}
			t2 = []string{"verify", r.p2 + t[1], t[2], r.valsTxt, t[3]}
		} else {
			if len(t) != 5 {
				return "bad-op"
			}
			t2 = []string{"part", r.p2 + t[1], t[2], r.valsTxt, t[3], t[4]}
		}
		r.useKept = true
		defer func() { r.useKept = false }()
		o.Count("stateful-" + t[0])
		return r.Step(t2, o)
	case "mv", "mvu", "dec", "pcfor":
		return c29MapStep(t, o)
	case "verify":
		if len(t) != 5 || !c29PathOK(t[1]) {
			return "bad-op"
		}
		dh, err := strconv.ParseUint(t[2], 10, 16)
		vals, ok := c29ParseVals(t[3])
		if err != nil || !ok {
			return "bad-op"
		}
		var slots []c29Slot
		for _, s := range c29Split(t[4]) {
			if s == "-" {
				slots = append(slots, c29Slot{kind: '-'})
				continue
			}
			sl, ok := c29ParseSig(s)
			if !ok {
				return "bad-op"
			}
			slots = append(slots, sl)
		}
		if t[1][2] == 'a' && len(slots) > len(vals) {
			return "bad-op"
		}
		pc := r.context(t[1], vals)
		sigs := make([]*crypto.Signature, len(slots))
		present := 0
		for i, sl := range slots {
			if sl.kind != '-' {
				sigs[i] = sl.sig
				present++
			}
		}
		var proof module.BTPProof
		if t[1][2] == 'b' {
			var x struct{ Signatures []*crypto.Signature }
			x.Signatures = sigs
			p, err := pc.NewProofFromBytes(codec.MustMarshalToBytes(&x))
			if err != nil {
				panic(err)
			}
			proof = p
		} else if present%2 == 0 {
			proof = ntm.VerifC29Proof(sigs)
		} else {
			// NewProof + Add of parts, the way the consensus assembles it
			proof = pc.NewProof()
			for i, sl := range slots {
				if sl.kind != '-' {
					proof.Add(ntm.VerifC29Part(i, sl.sig))
				}
			}
		}
		verr := pc.Verify(c29Msg(int(dh)), proof)
		cls := c29ErrClass(verr)
		o.Count("verify-" + cls)
		o.Count(fmt.Sprintf("n-mod3=%d", len(vals)%3))

		// property oracle, straight from the symbolic input: accepted only if every
		// occupied slot i holds a signature of validator i's key over this decision
		// and more than two thirds of the validators signed.
		allGood, distinct := true, map[int]bool{}
		why := ""
		for i, sl := range slots {
			if sl.kind == '-' {
				continue
			}
			switch {
			case i >= len(vals):
				allGood, why = false, "slot-beyond-validators"
			case sl.kind != 's':
				allGood, why = false, "forged-signature"
			case sl.j != int(dh):
				allGood, why = false, "signature-over-other-decision"
			case vals[i] < 0:
				allGood, why = false, "keyless-validator-slot"
			case vals[i] != sl.k:
				allGood, why = false, "wrong-index-or-foreign-signer"
			default:
				distinct[i] = true
			}
		}
		quorum := 3*len(distinct) > 2*len(vals)
		if verr == nil {
			o.Check(allGood, "c29-accepted-"+why, "proof accepted although slot check fails (%s)", why)
			o.Check(quorum, "c29-accepted-without-two-thirds", "proof accepted with %d valid distinct signatures of %d validators", len(distinct), len(vals))
		} else {
			o.Check(!(allGood && quorum), "c29-rejected-valid-proof", "valid proof rejected: %v", verr)
		}
		if verr == nil {
			return fmt.Sprintf("ok %d", present)
		}
		return cls
	case "part":
		if len(t) != 6 || !c29PathOK(t[1]) {
			return "bad-op"
		}
		dh, err := strconv.ParseUint(t[2], 10, 16)
		vals, ok := c29ParseVals(t[3])
		idx, err2 := strconv.ParseInt(t[4], 10, 32)
		sl, ok2 := c29ParseSig(t[5])
		if err != nil || err2 != nil || !ok || !ok2 {
			return "bad-op"
		}
		pc := r.context(t[1], vals)
		var pp module.BTPProofPart
		if t[1][2] == 'b' {
			var x struct {
				Index     int
				Signature *crypto.Signature
			}
			x.Index, x.Signature = int(idx), sl.sig
			p, err := pc.NewProofPartFromBytes(codec.MustMarshalToBytes(&x))
			if err != nil {
				panic(err)
			}
			pp = p
		} else {
			pp = ntm.VerifC29Part(int(idx), sl.sig)
		}
		ri, verr := pc.VerifyPart(c29Msg(int(dh)), pp)
		cls := c29ErrClass(verr)
		o.Count("part-" + cls)
		good := idx >= 0 && int(idx) < len(vals) && sl.kind == 's' && sl.j == int(dh) && vals[idx] == sl.k
		if verr == nil {
			o.Check(good, "c29-part-accepted-wrong-signer", "part idx=%d %s accepted for validators %v", idx, t[5], vals)
			o.Check(ri == int(idx), "c29-part-index", "VerifyPart returned %d for part index %d", ri, idx)
			return fmt.Sprintf("ok %d", ri)
		}
		o.Check(!good, "c29-part-rejected-valid", "valid part rejected: %v", verr)
		o.Check(ri == -1, "c29-part-index", "VerifyPart returned index %d with error", ri)
		return cls
	}
	return "bad-op"
}

// ---- generator ----

func c29GenVals(g *Gen) []int {
	n := g.Pick(0, 1, 2, 3, 4, 5, 6, 7, 9, 10, 12, 13, 1+g.Intn(22))
	vals := make([]int, n)
	base := g.Intn(40)
	for i := range vals {
		vals[i] = base + i
	}
	// occasional validators without key, and (rare) repeated keys
	if n > 0 && g.Intn(5) == 0 {
		vals[g.Intn(n)] = -1
	}
	if n > 1 && g.Intn(12) == 0 {
		vals[g.Intn(n)] = vals[g.Intn(n)]
	}
	return vals
}

func c29ValsStr(vals []int) string {
	if len(vals) == 0 {
		return "_"
	}
	ss := make([]string, len(vals))
	for i, v := range vals {
		if v < 0 {
			ss[i] = "n"
		} else {
			ss[i] = strconv.Itoa(v)
		}
	}
	return strings.Join(ss, ",")
}

func c29Path(g *Gen, allowA bool) string {
	p := string("ei"[g.Intn(2)]) + string("kb"[g.Intn(2)])
	if allowA && g.Intn(2) == 0 {
		return p + "a"
	}
	return p + "b"
}

func c29BadSig(g *Gen, vals []int, i, dh int) string {
	k := 0
	if i < len(vals) && vals[i] >= 0 {
		k = vals[i]
	}
	switch g.Intn(8) {
	case 0:
		return []string{"xv", "xr", "xs"}[g.Intn(3)]
	case 1:
		return fmt.Sprintf("f%dm%d", k, dh) // right key, flipped recovery bit
	case 2:
		return fmt.Sprintf("s%dm%d", k, dh+1+g.Intn(2)) // right key, other decision
	case 3, 4:
		// another validator's signature (wrong index)
		if len(vals) > 1 {
			o := vals[g.Intn(len(vals))]
			if o >= 0 && o != k {
				return fmt.Sprintf("s%dm%d", o, dh)
			}
		}
		return fmt.Sprintf("s%dm%d", 900+g.Intn(5), dh)
	case 5:
		return fmt.Sprintf("s%dm%d", 900+g.Intn(5), dh) // foreign key
	default:
		return fmt.Sprintf("s%dm%d", k+1, dh) // neighbour's key
	}
}

// c29GenStateful: one context object, several decisions in a row; class "replay of an
// earlier decision's signatures in later slots": after decision A was verified (whole proof
// or part by part), a proof for decision B carries one genuine signature over B in its
// lowest populated slot and the old signatures over A in the others.
func c29GenStateful(g *Gen) {
	n := g.Pick(4, 4, 5, 6, 7, 10)
	vals := make([]int, n)
	base := 100 + g.Intn(20)
	for i := range vals {
		vals[i] = base + i
	}
	g.Emit("ctx %s %s", []string{"ek", "eb", "ik", "ib"}[g.Intn(4)], c29ValsStr(vals))
	pm := func() string { return string("ab"[g.Intn(2)]) }
	full := func(dh int) []string {
		s := make([]string, n)
		for i := range s {
			s[i] = fmt.Sprintf("s%dm%d", vals[i], dh)
		}
		return s
	}
	a := g.Intn(3)
	rounds := 1 + g.Intn(3)
	for rd := 0; rd < rounds; rd++ {
		b := a + 1 + g.Intn(2)
		// decision A gets verified on this context
		if g.Intn(2) == 0 {
			g.Emit("cverify %s %d %s", pm(), a, strings.Join(full(a), ","))
		} else {
			for _, i := range g.R.Perm(n)[:1+g.Intn(n)] {
				g.Emit("cpart %s %d %d s%dm%d", pm(), a, i, vals[i], a)
			}
		}
		// proof for B: genuine signature(s) over B in the lowest slot(s), replays of A after
		slots := full(a)
		low := g.Intn(2)
		for i := 0; i < low; i++ {
			slots[i] = "-"
		}
		genuine := 1 + g.Intn(2)
		for i := low; i < low+genuine && i < n; i++ {
			slots[i] = fmt.Sprintf("s%dm%d", vals[i], b)
		}
		g.Emit("cverify %s %d %s", pm(), b, strings.Join(slots, ","))
		// replayed single parts, and the honest proof for B
		i := g.Intn(n)
		g.Emit("cpart %s %d %d s%dm%d", pm(), b, i, vals[i], a)
		if g.Intn(2) == 0 {
			g.Emit("cverify %s %d %s", pm(), b, strings.Join(full(b), ","))
			// ... after which A's signatures must still not count for B, nor B's for A
			g.Emit("cverify %s %d %s", pm(), a, strings.Join(full(b), ","))
		}
		a = b
	}
	g.Emit("reset")
}

func c29Gen(g *Gen) {
	for c := 0; c < g.N; c++ {
		if g.Intn(8) == 0 {
			c29GenStateful(g)
			continue
		}
		if g.Intn(3) == 0 {
			c29GenMap(g)
			continue
		}
		vals := c29GenVals(g)
		n := len(vals)
		dh := g.Intn(3)
		if g.Intn(6) == 0 {
			// single part
			idx := g.Pick(-1, 0, n-1, n, n+1, g.Intn(n+1))
			var sig string
			if g.Intn(2) == 0 && idx >= 0 && idx < n && vals[idx] >= 0 {
				sig = fmt.Sprintf("s%dm%d", vals[idx], dh)
			} else {
				i := idx
				if i < 0 {
					i = 0
				}
				sig = c29BadSig(g, vals, i, dh)
			}
			g.Emit("part %s %d %s %d %s", c29Path(g, true), dh, c29ValsStr(vals), idx, sig)
			continue
		}
		// number of signatures around the two-thirds threshold
		thr := 2 * n / 3 // accepted needs > thr
		want := g.Pick(thr, thr+1, thr+1, thr-1, thr+2, n, g.Intn(n+1))
		if want < 0 {
			want = 0
		}
		if want > n {
			want = n
		}
		slots := make([]string, n)
		for i := range slots {
			slots[i] = "-"
		}
		perm := g.R.Perm(n)
		for _, i := range perm[:want] {
			if vals[i] >= 0 {
				slots[i] = fmt.Sprintf("s%dm%d", vals[i], dh)
			} else {
				slots[i] = fmt.Sprintf("s%dm%d", 800, dh)
			}
		}
		switch g.Intn(10) {
		case 0, 1, 2:
			// one defective part among otherwise sufficient ones
			if n > 0 {
				i := g.Intn(n)
				slots[i] = c29BadSig(g, vals, i, dh)
			}
		case 3:
			// the same validator's signature copied into several slots
			if n > 1 && want > 0 {
				src := perm[0]
				for r := 0; r < 1+g.Intn(n); r++ {
					slots[g.Intn(n)] = slots[src]
				}
			}
		case 4:
			// proof longer / shorter than the validator list
			if g.Intn(2) == 0 {
				extra := 1 + g.Intn(3)
				for e := 0; e < extra; e++ {
					if g.Intn(2) == 0 {
						slots = append(slots, "-")
					} else if n > 0 && vals[0] >= 0 {
						slots = append(slots, fmt.Sprintf("s%dm%d", vals[0], dh))
					} else {
						slots = append(slots, fmt.Sprintf("s%dm%d", 7, dh))
					}
				}
			} else if n > 0 {
				slots = slots[:g.Intn(n+1)]
			}
		}
		ss := "_"
		if len(slots) > 0 {
			ss = strings.Join(slots, ",")
		}
		g.Emit("verify %s %d %s %s", c29Path(g, len(slots) <= n), dh, c29ValsStr(vals), ss)
	}
}

// ---- btp/proofcontextmap.go through the real map ----

type c29NTView struct {
	uid  string
	pc   []byte
	open []int64
}

func (v *c29NTView) UID() string                  { return v.uid }
func (v *c29NTView) NextProofContextHash() []byte { return nil }
func (v *c29NTView) NextProofContext() []byte     { return v.pc }
func (v *c29NTView) OpenNetworkIDs() []int64      { return v.open }

type c29StateView struct {
	ids   []int64
	views map[int64]*c29NTView
	nets  map[int64]*c29NetView
}

func (v *c29StateView) GetNetworkTypeIDs() ([]int64, error) { return v.ids, nil }
func (v *c29StateView) GetNetworkView(nid int64) (btp.NetworkView, error) {
	if n, ok := v.nets[nid]; ok {
		return n, nil
	}
	return nil, fmt.Errorf("no network %d", nid)
}
func (v *c29StateView) GetNetworkTypeView(ntid int64) (btp.NetworkTypeView, error) {
	return v.views[ntid], nil
}

type c29NTD struct {
	module.NetworkTypeDigest
	ntid int64
	hash []byte
}

func (d *c29NTD) NetworkTypeID() int64           { return d.ntid }
func (d *c29NTD) NetworkTypeSectionHash() []byte { return d.hash }

type c29Digest struct {
	module.BTPDigest
	ntds []module.NetworkTypeDigest
}

func (d *c29Digest) NetworkTypeDigests() []module.NetworkTypeDigest { return d.ntds }

type c29ProofList [][]byte

func (l c29ProofList) NTSDProofCount() int      { return len(l) }
func (l c29ProofList) NTSDProofAt(i int) []byte { return l[i] }

type c29Entry struct {
	ntid int64
	uid  string
	vals []int
}

func c29ParsePcm(s string) ([]c29Entry, bool) {
	var es []c29Entry
	if s == "_" {
		return es, true
	}
	seen := map[int64]bool{}
	for _, e := range strings.Split(s, ";") {
		ps := strings.Split(e, ":")
		if len(ps) != 3 || (ps[1] != "e" && ps[1] != "i") {
			return nil, false
		}
		ntid, err := strconv.ParseInt(ps[0], 10, 64)
		vals, ok := c29ParseVals(ps[2])
		if err != nil || !ok || seen[ntid] {
			return nil, false
		}
		seen[ntid] = true
		uid := "eth"
		if ps[1] == "i" {
			uid = "icon"
		}
		es = append(es, c29Entry{ntid, uid, vals})
	}
	return es, true
}

func c29HexOpt(s string) ([]byte, bool) {
	if s == "n" {
		return nil, true
	}
	if s == "-" {
		return []byte{}, true
	}
	b, err := hex.DecodeString(s)
	return b, err == nil
}

func c29BuildMap(es []c29Entry) module.BTPProofContextMap {
	view := &c29StateView{views: map[int64]*c29NTView{}}
	for _, e := range es {
		path := "ek"
		if e.uid == "icon" {
			path = "ik"
		}
		pc := c29Context(path+"b", e.vals)
		bs := pc.Bytes()
		if bs == nil {
			bs = []byte{0xc1, 0xc0} // {Validators: []}: a registered context without validators
		}
		view.ids = append(view.ids, e.ntid)
		view.views[e.ntid] = &c29NTView{uid: e.uid, pc: bs}
	}
	pcm, err := btp.NewProofContextMap(view)
	if err != nil {
		panic(err)
	}
	return pcm
}

func c29MapStep(t []string, o *Oracle) string {
	switch t[0] {
	case "dec":
		if len(t) != 6 {
			return "bad-op"
		}
		src, ok1 := c29HexOpt(t[1])
		ntid, e1 := strconv.ParseInt(t[2], 10, 64)
		height, e2 := strconv.ParseInt(t[3], 10, 64)
		round, e3 := strconv.ParseInt(t[4], 10, 32)
		h, ok2 := c29HexOpt(t[5])
		if !ok1 || !ok2 || e1 != nil || e2 != nil || e3 != nil {
			return "bad-op"
		}
		pc := c29Context("ekb", []int{1})
		d := pc.NewDecision(src, ntid, height, int32(round), h)
		o.Count("dec")
		return hx(d.Bytes())
	case "pcfor":
		if len(t) != 3 {
			return "bad-op"
		}
		es, ok := c29ParsePcm(t[1])
		ntid, err := strconv.ParseInt(t[2], 10, 64)
		if !ok || err != nil {
			return "bad-op"
		}
		pc, err := c29BuildMap(es).ProofContextFor(ntid)
		var want *c29Entry
		for i := range es {
			if es[i].ntid == ntid {
				want = &es[i]
			}
		}
		if err != nil {
			o.Check(want == nil, "c29-map-registered-type-not-found", "ProofContextFor(%d) fails although registered", ntid)
			return "err-notfound"
		}
		o.Check(want != nil && pc.UID() == want.uid, "c29-map-wrong-context", "ProofContextFor(%d) returned context of %s", ntid, pc.UID())
		u := 0
		if pc.UID() == "icon" {
			u = 1
		}
		return fmt.Sprintf("ok %d:%d", u, pc.NewProof().ValidatorCount())
	}
	// mv <pcm> <src> <height> <round> <digests> <proofs>
	// mvu ... <inactivated>/<changed>: the same vote is verified, then the map is Updated with a
	// builder-made section (inactivated network types, network types whose proof context
	// changes), then the SAME (pre-update) map verifies the vote again
	upd := ""
	if t[0] == "mvu" {
		if len(t) != 8 {
			return "bad-op"
		}
		upd = t[7]
		t = t[:7]
	}
	if len(t) != 7 {
		return "bad-op"
	}
	var inact, changed []int64
	if upd != "" {
		ps := strings.Split(upd, "/")
		if len(ps) != 2 {
			return "bad-op"
		}
		for k, part := range ps {
			if part == "_" {
				continue
			}
			for _, x := range strings.Split(part, ",") {
				v, err := strconv.ParseInt(x, 10, 64)
				if err != nil {
					return "bad-op"
				}
				if k == 0 {
					inact = append(inact, v)
				} else {
					changed = append(changed, v)
				}
			}
		}
	}
	es, ok := c29ParsePcm(t[1])
	src, ok1 := c29HexOpt(t[2])
	height, e2 := strconv.ParseInt(t[3], 10, 64)
	round, e3 := strconv.ParseInt(t[4], 10, 32)
	if !ok || !ok1 || e2 != nil || e3 != nil {
		return "bad-op"
	}
	byNtid := map[int64]*c29Entry{}
	for i := range es {
		byNtid[es[i].ntid] = &es[i]
	}
	type dg struct {
		ntid int64
		hash []byte
	}
	var ds []dg
	if t[5] != "_" {
		for _, e := range strings.Split(t[5], ";") {
			ps := strings.Split(e, ":")
			if len(ps) != 2 {
				return "bad-op"
			}
			ntid, err := strconv.ParseInt(ps[0], 10, 64)
			h, ok := c29HexOpt(ps[1])
			if err != nil || !ok {
				return "bad-op"
			}
			ds = append(ds, dg{ntid, h})
		}
	}
	pcm := c29BuildMap(es)
	anyPC := c29Context("ekb", []int{1})
	icoPC := c29Context("ikb", []int{1})
	// decision hash of digest entry j (module of its registered context, eth if none)
	dhash := func(j int, plus bool) []byte {
		hgt := height
		if plus {
			hgt++
		}
		pc := anyPC
		if e := byNtid[ds[j].ntid]; e != nil && e.uid == "icon" {
			pc = icoPC
		}
		return pc.NewDecision(src, ds[j].ntid, hgt, int32(round), ds[j].hash).Hash()
	}
	type slotInfo struct {
		kind byte
		k, j int
		plus bool
	}
	var proofs c29ProofList
	var infos [][]slotInfo
	var undec []bool
	if t[6] != "_" {
		for _, ptxt := range strings.Split(t[6], ";") {
			if ptxt == "X" {
				proofs = append(proofs, []byte{0xc1})
				infos = append(infos, nil)
				undec = append(undec, true)
				continue
			}
			var sigs []*crypto.Signature
			var inf []slotInfo
			if ptxt != "E" {
				for _, sl := range strings.Split(ptxt, ",") {
					switch {
					case sl == "-":
						sigs = append(sigs, nil)
						inf = append(inf, slotInfo{kind: '-'})
					case sl == "xv" || sl == "xr" || sl == "xs":
						x, _ := c29ParseSig(sl)
						sigs = append(sigs, x.sig)
						inf = append(inf, slotInfo{kind: 'x'})
					case len(sl) > 1 && sl[0] == 's':
						body := sl[1:]
						plus := strings.HasSuffix(body, "+")
						body = strings.TrimSuffix(body, "+")
						ps := strings.Split(body, "d")
						if len(ps) != 2 {
							return "bad-op"
						}
						k, e1 := strconv.ParseUint(ps[0], 10, 16)
						j, e2 := strconv.ParseUint(ps[1], 10, 16)
						if e1 != nil || e2 != nil || int(j) >= len(ds) {
							return "bad-op"
						}
						sg, err := crypto.NewSignature(dhash(int(j), plus), c29Key(int(k)))
						if err != nil {
							panic(err)
						}
						sigs = append(sigs, sg)
						inf = append(inf, slotInfo{'s', int(k), int(j), plus})
					default:
						return "bad-op"
					}
				}
			}
			var x struct{ Signatures []*crypto.Signature }
			x.Signatures = sigs
			if sigs == nil {
				x.Signatures = []*crypto.Signature{}
			}
			proofs = append(proofs, codec.MustMarshalToBytes(&x))
			infos = append(infos, inf)
			undec = append(undec, false)
		}
	}
	if len(proofs) >= 250 {
		return "bad-op"
	}
	ntds := make([]module.NetworkTypeDigest, len(ds))
	for i, d := range ds {
		ntds[i] = &c29NTD{ntid: d.ntid, hash: d.hash}
	}
	verify := func() error {
		return pcm.Verify(src, height, int32(round), &c29Digest{ntds: ntds}, proofs)
	}

	// ---- property oracle from the symbolic input ----
	var reg []int // indices of digest entries with a registered context
	for j, d := range ds {
		if byNtid[d.ntid] != nil {
			reg = append(reg, j)
		}
	}
	expect, why := true, ""
	if len(reg) != len(proofs) {
		expect, why = false, "proof-count"
	} else {
		for k, j := range reg {
			e := byNtid[ds[j].ntid]
			if undec[k] {
				expect, why = false, "undecodable-proof"
				break
			}
			good := 0
			for i, sl := range infos[k] {
				if sl.kind == '-' {
					continue
				}
				// a signature counts only if it was made over THIS entry's decision (same type id and
				// section hash, same module) by the validator at slot i of THIS type's context
				sameDecision := sl.kind == 's' && !sl.plus && ds[sl.j].ntid == ds[j].ntid &&
					string(ds[sl.j].hash) == string(ds[j].hash) && (ds[sl.j].hash == nil) == (ds[j].hash == nil)
				if !sameDecision || i >= len(e.vals) || e.vals[i] < 0 || e.vals[i] != sl.k {
					expect, why = false, "signature-not-for-this-type-or-validator"
					break
				}
				good++
			}
			if !expect {
				break
			}
			if 3*good <= 2*len(e.vals) {
				expect, why = false, "no-quorum-in-own-context"
				break
			}
		}
	}
	finish := func(verr error) string {
	if verr == nil {
		o.Count("mv-ok")
		o.Check(expect, "c29-map-accepted-"+why, "vote accepted although %s", why)
		return "ok"
	}
	o.Check(!expect, "c29-map-rejected-valid-vote", "valid vote rejected: %v", verr)
	msg := verr.Error()
	full := fmt.Sprintf("%+v", verr) // includes the wrapped cause
	idx := func(tag string) string {
		p := strings.Index(msg, tag)
		q := p + len(tag)
		e := q
		for e < len(msg) && msg[e] >= '0' && msg[e] <= '9' {
			e++
		}
		return msg[q:e]
	}
	switch {
	case strings.Contains(msg, "invalid len"):
		o.Count("mv-err-len")
		return "err-len"
	case strings.Contains(msg, "new proof fail voteIndex="):
		o.Count("mv-err-newproof")
		return "err-newproof " + idx("new proof fail voteIndex=")
	case strings.Contains(msg, "verify fail voteIndex="):
		cls := c29ErrClass(fmt.Errorf("%s", full))
		o.Count("mv-" + cls)
		return "err-verify " + idx("verify fail voteIndex=") + " " + cls
	}
	return "err-unknown"
	}
	out1 := finish(verify())
	if upd == "" {
		return out1
	}
	// Update with a section built by the real SectionBuilder; the receiver (the map of the
	// block being finalised, pcmForLastBlock) must keep answering as before
	view := &c29StateView{views: map[int64]*c29NTView{}, nets: map[int64]*c29NetView{}}
	isIn := func(l []int64, v int64) bool {
		for _, x := range l {
			if x == v {
				return true
			}
		}
		return false
	}
	builder := btp.NewSectionBuilder(view)
	for _, e := range es {
		path := "ek"
		if e.uid == "icon" {
			path = "ik"
		}
		vals := e.vals
		if isIn(changed, e.ntid) {
			vals = append(append([]int{}, e.vals...), 700+int(e.ntid%50)) // one more validator
		}
		bs := c29Context(path+"b", vals).Bytes()
		if bs == nil {
			bs = []byte{0xc1, 0xc0}
		}
		view.ids = append(view.ids, e.ntid)
		view.views[e.ntid] = &c29NTView{uid: e.uid, pc: bs, open: []int64{e.ntid}}
		view.nets[e.ntid] = &c29NetView{ntid: e.ntid, changed: isIn(changed, e.ntid)}
		builder.EnsureSection(e.ntid)
	}
	for _, v := range inact {
		builder.NotifyInactivated(v)
	}
	section, err := builder.Build()
	if err != nil {
		panic(err)
	}
	pcm2, err := pcm.Update(c29UpdateSource{section})
	if err != nil {
		panic(err)
	}
	o.Count("map-update")
	out2 := finish(verify())
	o.Check(out1 == out2, "c29-map-update-changed-receiver", "the same vote on the same map: %q before Update, %q after", out1, out2)
	var regNew []string
	for _, e := range es {
		_, err0 := pcm.ProofContextFor(e.ntid)
		o.Check(err0 == nil, "c29-map-update-changed-receiver", "context of network type %d vanished from the pre-update map", e.ntid)
		pc2, err2 := pcm2.ProofContextFor(e.ntid)
		o.Check((err2 != nil) == isIn(inact, e.ntid), "c29-map-update-wrong-result", "updated map: type %d registered=%v, inactivated=%v", e.ntid, err2 == nil, isIn(inact, e.ntid))
		if err2 == nil {
			regNew = append(regNew, fmt.Sprintf("%d:%d", e.ntid, pc2.NewProof().ValidatorCount()))
		}
	}
	nw := "-"
	if len(regNew) > 0 {
		nw = strings.Join(regNew, ",")
	}
	return out1 + " | " + out2 + " | new " + nw
}

type c29NetView struct {
	ntid    int64
	changed bool
}

func (v *c29NetView) Name() string                   { return fmt.Sprintf("net-%d", v.ntid) }
func (v *c29NetView) Owner() module.Address          { return nil }
func (v *c29NetView) NetworkTypeID() int64           { return v.ntid }
func (v *c29NetView) Open() bool                     { return true }
func (v *c29NetView) NextMessageSN() int64           { return 1 }
func (v *c29NetView) NextProofContextChanged() bool  { return v.changed }
func (v *c29NetView) PrevNetworkSectionHash() []byte { return nil }
func (v *c29NetView) LastNetworkSectionHash() []byte { return nil }

type c29UpdateSource struct{ s module.BTPSection }

func (u c29UpdateSource) BTPSection() (module.BTPSection, error) { return u.s, nil }
func (u c29UpdateSource) NextProofContextMap() (module.BTPProofContextMap, error) {
	return nil, fmt.Errorf("not used")
}

// ---- generator for the map ops ----

func c29GenMap(g *Gen) {
	if g.Intn(5) == 0 {
		src := []string{"n", "-", "3078", "30783132", hx(g.Bytes(1 + g.Intn(60)))}[g.Intn(5)]
		h := []string{"n", "-", hx(g.Bytes(32)), hx(g.Bytes(g.Pick(1, 31, 55, 56, 57, 60)))}[g.Intn(4)]
		iv := func() int64 {
			switch g.Intn(4) {
			case 0:
				return int64(g.Pick(0, 1, 127, 128, 255, 256, 32767, 32768, -1, -128, -129))
			case 1:
				return int64(g.Intn(1000))
			case 2:
				return int64(g.R.Uint64() >> uint(g.Intn(64)))
			}
			return -int64(g.R.Uint64() >> uint(1+g.Intn(63)))
		}
		g.Emit("dec %s %d %d %d %s", src, iv(), iv(), int32(iv()), h)
		return
	}
	// two or three network types with different validator sets
	nt := 1 + g.Intn(3)
	var es []c29Entry
	var etxt []string
	for i := 0; i < nt; i++ {
		n := g.Pick(1, 2, 3, 4, 4, 5, 7)
		vals := make([]int, n)
		base := 10 + 10*i
		if g.Intn(4) == 0 {
			base = 10 // same validators for several types: only the decision separates them
		}
		for j := range vals {
			vals[j] = base + j
		}
		uid := "ei"[g.Intn(2)]
		e := c29Entry{int64(1 + i*g.Pick(1, 1, 3)), map[byte]string{'e': "eth", 'i': "icon"}[uid], vals}
		dup := false
		for _, x := range es {
			dup = dup || x.ntid == e.ntid
		}
		if dup {
			continue
		}
		es = append(es, e)
		etxt = append(etxt, fmt.Sprintf("%d:%c:%s", e.ntid, uid, c29ValsStr(vals)))
	}
	if g.Intn(8) == 0 {
		g.Emit("pcfor %s %d", strings.Join(etxt, ";"), g.Pick(0, 1, 2, 3, 4, 7, 99))
		return
	}
	// digest: the registered types (sometimes one missing), plus sometimes an unregistered type
	type dg struct {
		ntid int64
		h    string
	}
	var ds []dg
	hashes := []string{hx(g.Bytes(32)), hx(g.Bytes(32)), "n"}
	for _, e := range es {
		if g.Intn(8) != 0 {
			ds = append(ds, dg{e.ntid, hashes[g.Pick(0, 0, 0, 1, 2)]})
		}
	}
	if g.Intn(3) == 0 {
		pos := g.Intn(len(ds) + 1)
		ds = append(ds[:pos], append([]dg{{int64(50 + g.Intn(3)), hashes[g.Intn(2)]}}, ds[pos:]...)...)
	}
	byNtid := map[int64]*c29Entry{}
	for i := range es {
		byNtid[es[i].ntid] = &es[i]
	}
	var ptxt []string
	mut := g.Intn(10)
	for j, d := range ds {
		e := byNtid[d.ntid]
		if e == nil {
			if mut == 0 {
				ptxt = append(ptxt, fmt.Sprintf("s10d%d", j)) // a proof for the unregistered type
			}
			continue
		}
		n := len(e.vals)
		want := 2*n/3 + 1
		if mut == 1 && g.Intn(2) == 0 {
			want-- // no quorum
		}
		if g.Intn(3) == 0 {
			want = n
		}
		sj := j
		if mut == 2 && len(ds) > 1 {
			sj = (j + 1) % len(ds) // signed for another type's decision
		}
		slots := make([]string, n)
		for i := range slots {
			slots[i] = "-"
		}
		for _, i := range g.R.Perm(n)[:want] {
			slots[i] = fmt.Sprintf("s%dd%d", e.vals[i], sj)
			if mut == 3 && g.Intn(3) == 0 {
				slots[i] += "+" // other height
			}
		}
		if mut == 4 && n > 0 {
			slots[g.Intn(n)] = []string{"xr", "xs", "xv", fmt.Sprintf("s999d%d", j)}[g.Intn(4)]
		}
		p := strings.Join(slots, ",")
		if mut == 5 && g.Intn(2) == 0 {
			p = "X"
		}
		ptxt = append(ptxt, p)
	}
	if mut == 6 && len(ptxt) > 1 {
		ptxt[0], ptxt[len(ptxt)-1] = ptxt[len(ptxt)-1], ptxt[0] // proofs in the wrong order
	}
	if mut == 7 && len(ptxt) > 0 {
		if g.Intn(2) == 0 {
			ptxt = ptxt[:len(ptxt)-1]
		} else {
			ptxt = append(ptxt, ptxt[0])
		}
	}
	dtxt := make([]string, len(ds))
	for i, d := range ds {
		dtxt[i] = fmt.Sprintf("%d:%s", d.ntid, d.h)
	}
	join := func(xs []string) string {
		if len(xs) == 0 {
			return "_"
		}
		return strings.Join(xs, ";")
	}
	src := []string{"n", "3078", hx(g.Bytes(6))}[g.Intn(3)]
	if g.Intn(3) == 0 {
		// the map is Updated between two verifications of the same vote: inactivation only,
		// proof-context change only, both, none; also types not in the map
		pick := func(p int) string {
			var l []string
			for _, e := range es {
				if g.Intn(p) == 0 {
					l = append(l, strconv.FormatInt(e.ntid, 10))
				}
			}
			if g.Intn(8) == 0 {
				l = append(l, "99")
			}
			if len(l) == 0 {
				return "_"
			}
			return strings.Join(l, ",")
		}
		in := pick(2)
		ch := "_"
		if g.Intn(2) == 0 {
			ch = pick(3)
		}
		if ch == "99" || strings.HasSuffix(ch, ",99") {
			ch = "_"
		}
		g.Emit("mvu %s %s %d %d %s %s %s/%s", join(etxt), src, g.Pick(1, 100, 1<<40), g.Pick(0, 1, 7), join(dtxt), join(ptxt), in, ch)
		return
	}
	g.Emit("mv %s %s %d %d %s %s", join(etxt), src, g.Pick(1, 100, 1<<40), g.Pick(0, 1, 7), join(dtxt), join(ptxt))
}
