//go:build c28 || all

package main

import (
	"bytes"
	"fmt"
	"strconv"
	"strings"

	"github.com/icon-project/goloop/common/crypto"
	"github.com/icon-project/goloop/common/db"
	"github.com/icon-project/goloop/common/errors"
	"github.com/icon-project/goloop/icon/merkle/hexary"
)

func init() {
	Register(&Prop{ID: "C28", Gen: c28Gen, New: func() Runner { return c28New() }})
}

// ---------------------------------------------------------------- generator

type c28GenSt struct {
	g      *Gen
	leaves [][]byte
}

func (s *c28GenSt) add() {
	var h []byte
	if len(s.leaves) > 0 && s.g.Intn(16) == 0 {
		h = s.leaves[s.g.Intn(len(s.leaves))]
	} else {
		h = s.g.Bytes(32)
	}
	s.leaves = append(s.leaves, h)
	s.g.Emit("add %s", hx(h))
}

func (s *c28GenSt) addTo(n int) {
	for len(s.leaves) < n {
		s.add()
	}
}

// rewind to l, look at the header, (prove every remaining key on the real tree bucket right
// after the rewind, rewind a second time without an Add in between,) then add the dropped
// leaves again
func (s *c28GenSt) rewindAndRestore(l int, reopen bool) {
	g := s.g
	old := s.leaves
	g.Emit("setlen %d", l)
	g.Emit("hdr")
	if reopen && l != 0 {
		g.Emit("reopen")
		g.Emit("hdr")
	}
	if l > 0 && g.Intn(2) == 0 {
		// Finalize + Prove directly after the rewind: the partial nodes of the new right
		// spine must be in the tree bucket
		g.Emit("checkall 1")
		if g.Intn(2) == 0 {
			g.Emit("prove %d 0", l-1)
		}
	}
	if l > 1 && g.Intn(2) == 0 {
		// second rewind with no Add in between
		b := g.Intn(l)
		g.Emit("setlen %d", b)
		g.Emit("hdr")
		if b > 0 {
			g.Emit("checkall 1")
		}
		l = b
	}
	for _, h := range old[l:] {
		g.Emit("add %s", hx(h))
	}
	g.Emit("hdr")
}

var c28Bounds = []int{0, 1, 2, 3, 14, 15, 16, 17, 18, 31, 32, 33, 47, 48, 240, 241, 254, 255, 256, 257, 258, 271, 272, 273, 287, 288, 511, 512, 513, 4095, 4096, 4097, 4111, 4112, 4113, 4351, 4352, 4353, 5000}

func c28Proofish(g *Gen) string {
	k := g.Intn(4)
	if k == 0 {
		return "none"
	}
	ps := make([]string, k)
	for i := range ps {
		ps[i] = hx(g.Bytes(g.Pick(0, 32, 32, 64, 512, 31, 544)))
	}
	return strings.Join(ps, ",")
}

// all rewind points of a small accumulator
func c28AllRewinds(g *Gen, n int) {
	s := &c28GenSt{g: g}
	s.addTo(n)
	g.Emit("hdr")
	for l := 0; l <= n+1; l++ {
		s.rewindAndRestore(c28Min(l, n), g.Intn(4) == 0)
		if l > n {
			g.Emit("setlen %d", l)
		}
	}
	g.Emit("checkall 1")
}

// growing accumulator: header at every length, sequential verification with partial proofs
func c28Sweep(g *Gen, upto int, every int) {
	s := &c28GenSt{g: g}
	g.Emit("hdr")
	g.Emit("fin")
	for len(s.leaves) < upto {
		s.add()
		n := len(s.leaves)
		g.Emit("hdr")
		if n%every == 0 || n < 40 || (n%16 <= 1) {
			g.Emit("fin")
			g.Emit("checkall %d", 1+n/40)
		}
		if n%16 == 1 || n%61 == 0 {
			// headers / trees handed out earlier (in particular those finalised exactly at
			// 1, 16, 256, 4096 leaves) must not be affected by the Adds since
			g.Emit("held")
		}
	}
	g.Emit("held")
	g.Emit("vnew")
	g.Emit("sync 0 %d", upto)
	g.Emit("vprove %d 0", g.Intn(upto))
	g.Emit("reopen")
	g.Emit("hdr")
	g.Emit("held")
}

// Finalize exactly at a power of 16, hold the header, keep adding past 16^(k+1)+16^k
func c28HoldAcrossPowers(g *Gen, upto int) {
	s := &c28GenSt{g: g}
	for _, stop := range []int{1, 16, 17, 32, 256, 257, 272, 273, 288, 4096, 4097, 4352, 4353} {
		if stop > upto {
			break
		}
		s.addTo(stop)
		g.Emit("fin")
		if g.Intn(2) == 0 {
			g.Emit("hdr")
		}
		g.Emit("held")
	}
	s.addTo(upto)
	g.Emit("held")
	g.Emit("fin")
	g.Emit("held")
}

func c28Random(g *Gen, maxN int) {
	s := &c28GenSt{g: g}
	n := c28Bounds[g.Intn(len(c28Bounds))]
	if g.Intn(3) == 0 {
		n = g.Intn(600)
	}
	if n > maxN {
		n = g.Intn(maxN + 1)
	}
	s.addTo(n)
	g.Emit("hdr")
	g.Emit("fin")
	g.Emit("len")
	step := 1 + n/60
	g.Emit("checkall %d", step)
	// single proofs, all `from` variants, out-of-range keys
	for i := 0; i < 6; i++ {
		key := g.Pick(0, n-1, n, n+1, g.Intn(n+1), g.Intn(n+1), 16*g.Intn(n/16+1), 256*g.Intn(n/256+1), 65536+g.Intn(3), 1048576)
		if key < 0 {
			key = 0
		}
		// `from` stays within [-1, level]: Prove slices res[from:] and a larger value is a
		// caller error outside the property (it panics; only the malformed case touches it)
		g.Emit("prove %d %d", key, g.Pick(-1, 0, 0, g.Intn(hexary.LevelFromLen(int64(n))+1)))
	}
	// verifier fed in order with partial proofs, starting somewhere
	g.Emit("vnew")
	if n > 0 {
		lo := 0
		if g.Intn(2) == 0 {
			lo = g.Intn(n)
		}
		hi := c28Min(n, lo+1+g.Intn(400))
		if lo > 0 {
			// first key needs the full proof
			g.Emit("sync 0 1")
		}
		g.Emit("sync %d %d", lo, hi)
		if hi < n {
			// skipping ahead with a partial proof may hit nodes the verifier does not have
			g.Emit("sync %d %d", c28Min(n-1, hi+g.Intn(40)), c28Min(n, hi+60))
		}
		g.Emit("vprove %d %d", g.Intn(hi), g.Pick(-1, 0, 1))
	}
	if n > 0 {
		for i := 0; i < 4; i++ {
			g.Emit("vaddx %d %d", g.Pick(0, n-1, g.Intn(n), g.Intn(n)), g.Intn(7))
		}
	}
	// arbitrary material into the verifier
	for i := 0; i < 4; i++ {
		g.Emit("vadd %d %s %s", g.Pick(0, g.Intn(n+2), n, 16, 256), hx(g.Bytes(g.Pick(32, 32, 0, 31))), c28Proofish(g))
	}
	// rewinds
	for i := 0; i < 4 && n > 0; i++ {
		l := g.Pick(0, 1, n, n+1, g.Intn(n+1), g.Intn(n+1), g.Intn(n+1), 16*g.Intn(n/16+1), 256*g.Intn(n/256+1), n-1, n-n%16, n-n%256)
		if l < 0 {
			l = 0
		}
		if l > n {
			g.Emit("setlen %d", l)
			continue
		}
		g.Emit("setlen %d", l)
		s.leaves = s.leaves[:l]
		g.Emit("hdr")
		if l > 0 && g.Intn(2) == 0 {
			// prove on the real tree bucket right after the rewind, then rewind again
			g.Emit("checkall %d", 1+l/30)
			g.Emit("prove %d 0", l-1)
			if l > 1 {
				b := g.Pick(1, l-1, 1+g.Intn(l-1), (l-1)-(l-1)%16)
				if b < 1 {
					b = 1
				}
				g.Emit("setlen %d", b)
				s.leaves = s.leaves[:b]
				l = b
				g.Emit("hdr")
				g.Emit("checkall %d", 1+l/30)
			}
		}
		if g.Intn(3) == 0 {
			g.Emit("reopen")
			g.Emit("hdr")
			if l == 0 {
				// SetLen(0) is not written to the accumulator bucket: the old state is back
				return
			}
		}
		more := g.Intn(40)
		for j := 0; j < more; j++ {
			s.add()
		}
		n = len(s.leaves)
		g.Emit("hdr")
		g.Emit("checkall %d", 1+n/30)
		g.Emit("held")
	}
	g.Emit("held")
}

func c28Malformed(g *Gen) {
	n := g.Intn(20)
	for i := 0; i < n; i++ {
		if g.Intn(5) == 0 {
			g.Emit("add %s", hx(g.Bytes(g.Pick(0, 1, 31, 33, 64))))
		} else {
			g.Emit("add %s", hx(g.Bytes(32)))
		}
	}
	g.Emit("hdr")
	g.Emit("len")
	g.Emit("vnew")
	for i := 0; i < 6; i++ {
		g.Emit("vadd %d %s %s", g.Intn(n+3), hx(g.Bytes(g.Pick(32, 0, 5))), c28Proofish(g))
	}
	g.Emit("setlen x")
	g.Emit("frob")
	g.Emit("vprove 0 7")
}

func c28Gen(g *Gen) {
	quick := g.Tier == "quick"
	for c := 0; c < g.N; c++ {
		g.Emit("reset")
		switch {
		case c == 0:
			if quick {
				c28Sweep(g, 300, 50)
			} else {
				c28Sweep(g, 4400, 97)
			}
		case c == 1:
			if quick {
				c28AllRewinds(g, 40)
			} else {
				c28AllRewinds(g, 300)
			}
		case c == 2 && quick:
			c28Random(g, 4500)
		case c == 3:
			if quick {
				c28HoldAcrossPowers(g, 300)
			} else {
				c28HoldAcrossPowers(g, 4400)
			}
		case c%4 == 1:
			c28AllRewinds(g, g.Pick(1, 2, 15, 16, 17, 33, 20+g.Intn(30)))
		case c%9 == 8:
			c28Malformed(g)
		default:
			if quick {
				c28Random(g, 700)
			} else {
				c28Random(g, 5000)
			}
		}
	}
}

// ------------------------------------------------------------------- runner

type c28Runner struct {
	tbk, abk  db.Bucket
	acc       hexary.Accumulator
	vtree     hexary.MerkleTree
	vleaves   [][]byte
	vnext     int  // keys below vnext have all been added to the verifier
	vcurrent  bool // the accumulator has not changed since vnew
	leaves    [][]byte
	saved     [][]byte // leaves as of the last write to the accumulator bucket, when different
	divergent bool
	malformed bool
	held      []*c28Held // headers returned earlier, kept alive across later operations
}

// a header as returned by Finalize/GetMerkleHeader: the live object, the bytes it had when it
// was returned, what it must be (independent batch root of the leaves at that time), and for
// Finalize results a prover tree built on the live object plus a few leaves to re-prove
type c28Held struct {
	hd      *hexary.MerkleHeader
	copyOf  []byte
	leaves  int64
	want    []byte
	final   bool
	pt      hexary.MerkleTree
	keys    []int64
	samples [][]byte
}

func c28New() *c28Runner {
	d := db.NewMapDB()
	tbk, _ := d.GetBucket("t")
	abk, _ := d.GetBucket("a")
	acc, err := hexary.NewAccumulator(tbk, abk, "")
	if err != nil {
		panic(err)
	}
	return &c28Runner{tbk: tbk, abk: abk, acc: acc}
}

func c28SpecSub(level int, xs [][]byte) []byte {
	if level == 0 {
		return xs[0]
	}
	chunk := 1
	for i := 1; i < level; i++ {
		chunk *= 16
	}
	var buf []byte
	for i := 0; i < len(xs); i += chunk {
		buf = append(buf, c28SpecSub(level-1, xs[i:c28Min(i+chunk, len(xs))])...)
	}
	return crypto.SHA3Sum256(buf)
}

// batch definition of the root: a 16-ary tree of minimal height over the
// leaves; every node is the hash of its (1..16) children, a single leaf is its own root.
func c28SpecRoot(xs [][]byte) []byte {
	if len(xs) == 0 {
		return nil
	}
	level := 0
	for c := 1; c < len(xs); c *= 16 {
		level++
	}
	return c28SpecSub(level, xs)
}

func c28List(ps [][]byte) string {
	if len(ps) == 0 {
		return "none"
	}
	ss := make([]string, len(ps))
	for i, p := range ps {
		ss[i] = hx(p)
	}
	return strings.Join(ss, ",")
}

func c28ParseList(s string) [][]byte {
	if s == "none" {
		return nil
	}
	var ps [][]byte
	for _, e := range strings.Split(s, ",") {
		ps = append(ps, unhx(e))
	}
	return ps
}

func c28FnvProof(h uint64, ps [][]byte) uint64 {
	for _, p := range ps {
		h = (h ^ uint64(byte(len(p)/32))) * 1099511628211
		for _, b := range p {
			h = (h ^ uint64(b)) * 1099511628211
		}
	}
	return h
}

func c28Flip(bs []byte, i int) []byte {
	r := append([]byte(nil), bs...)
	if len(r) > 0 {
		r[i%len(r)] ^= 1
	}
	return r
}

func c28AddRes(err error) string {
	if err == nil {
		return "ok"
	}
	if errors.Is(err, hexary.ErrVerify) {
		return "verr"
	}
	return "err"
}

func (r *c28Runner) header(hd *hexary.MerkleHeader, o *Oracle, final bool) string {
	want := c28SpecRoot(r.leaves)
	if !r.malformed {
		o.Check(bytes.Equal(hd.RootHash, want) && hd.Leaves == int64(len(r.leaves)), "hexary-header-not-batch-root",
			"header {%x,%d} but the batch root of the %d leaves is %x", hd.RootHash, hd.Leaves, len(r.leaves), want)
	}
	// keep the returned object alive (see the `held` op)
	h := &c28Held{hd: hd, copyOf: append([]byte(nil), hd.RootHash...), leaves: hd.Leaves, want: want, final: final}
	if final && !r.malformed && len(r.leaves) > 0 {
		if pt, err := hexary.NewMerkleTree(r.tbk, hd, 0); err == nil {
			h.pt = pt
			n := int64(len(r.leaves))
			for _, k := range []int64{0, n / 2, n - 1} {
				h.keys = append(h.keys, k)
				h.samples = append(h.samples, r.leaves[k])
			}
		}
	}
	r.held = append(r.held, h)
	return fmt.Sprintf("hdr %s %d", hx(hd.RootHash), hd.Leaves)
}

// re-examine every header handed out earlier: headers are values, later operations on the
// accumulator must not change them, and trees built on them must keep proving their prefix
func (r *c28Runner) checkHeld(o *Oracle) string {
	okc := 0
	for _, h := range r.held {
		good := bytes.Equal(h.hd.RootHash, h.copyOf) && h.hd.Leaves == h.leaves
		if !r.malformed {
			o.Check(good, "hexary-held-header-changed",
				"a header returned earlier (%d leaves, final=%v) was {%x} when returned and is {%x} now",
				h.leaves, h.final, h.copyOf, h.hd.RootHash)
			o.Check(bytes.Equal(h.hd.RootHash, h.want), "hexary-held-header-changed",
				"a header returned earlier for %d leaves is {%x}, the batch root of that prefix is {%x}",
				h.leaves, h.hd.RootHash, h.want)
		}
		if good && h.pt != nil && !r.malformed {
			for i, k := range h.keys {
				p, err := h.pt.Prove(k, 0)
				if err != nil {
					o.Check(false, "hexary-held-header-changed", "tree on a held header (%d leaves): Prove(%d): %v", h.leaves, k, err)
					good = false
					continue
				}
				bk, _ := db.NewMapDB().GetBucket("v")
				vt, err := hexary.NewMerkleTree(bk, h.hd, 0)
				if err == nil {
					err = vt.Add(k, h.samples[i], p)
				}
				if err != nil {
					o.Check(false, "hexary-held-header-changed", "tree on a held header (%d leaves) rejects the proof of key %d: %v", h.leaves, k, err)
					good = false
				}
			}
		}
		if good {
			okc++
		}
	}
	o.Count("held")
	return fmt.Sprintf("held %d %d", len(r.held), okc)
}

func (r *c28Runner) proverTree() (hexary.MerkleTree, *hexary.MerkleHeader, error) {
	hd, err := r.acc.Finalize()
	if err != nil {
		return nil, nil, err
	}
	mt, err := hexary.NewMerkleTree(r.tbk, hd, 0)
	return mt, hd, err
}

func (r *c28Runner) Step(t []string, o *Oracle) (out string) {
	if len(t) == 0 {
		return "bad-op"
	}
	defer func() {
		if e := recover(); e != nil {
			o.Count("panic-" + t[0])
			if !r.malformed {
				if (t[0] == "prove" || t[0] == "vprove") && len(t) == 3 {
					// Prove(key, from) with from > level slices out of range: outside the
					// property (modelled as `panic`, reported separately), not an oracle failure
					o.Count("prove-from-beyond-level-panics")
				} else {
					o.Check(false, "hexary-panic-"+t[0], "%s panics: %v", t[0], e)
				}
			}
			out = "panic"
		}
	}()
	switch {
	case t[0] == "add" && len(t) == 2:
		h := unhx(t[1])
		if len(h) != 32 {
			r.malformed = true
			o.Count("add-badlen")
		}
		if err := r.acc.Add(h); err != nil {
			return "err"
		}
		o.Count("add")
		r.vcurrent = false
		r.leaves = append(r.leaves, h)
		r.divergent = false
		return "ok"
	case t[0] == "hdr" && len(t) == 1:
		o.Count("hdr")
		return r.header(r.acc.GetMerkleHeader(), o, false)
	case t[0] == "fin" && len(t) == 1:
		hd, err := r.acc.Finalize()
		if err != nil {
			return "err"
		}
		o.Count("fin")
		return r.header(hd, o, true)
	case t[0] == "held" && len(t) == 1:
		return r.checkHeld(o)
	case t[0] == "len" && len(t) == 1:
		o.Check(r.malformed || r.acc.Len() == int64(len(r.leaves)), "hexary-len", "Len()=%d after %d leaves", r.acc.Len(), len(r.leaves))
		return fmt.Sprintf("len %d", r.acc.Len())
	case t[0] == "setlen" && len(t) == 2:
		l, err := strconv.ParseInt(t[1], 10, 64)
		if err != nil || l < 0 {
			return "bad-op"
		}
		n := r.acc.Len()
		r.vcurrent = false
		err = r.acc.SetLen(l)
		switch {
		case l > n:
			o.Count("setlen-beyond")
			o.Check(err != nil, "hexary-setlen-beyond-len-accepted", "SetLen(%d) accepted at length %d", l, n)
		case l == n:
			o.Count("setlen-same")
		case l == 0:
			o.Count("setlen-zero")
		default:
			o.Count("setlen-rewind")
		}
		if err != nil {
			if l <= n && !r.malformed {
				o.Check(false, "hexary-setlen-fails", "SetLen(%d) at length %d: %v", l, n, err)
			}
			return "err"
		}
		if l < n {
			if l == 0 {
				if !r.divergent {
					r.saved = append([][]byte(nil), r.leaves...)
					r.divergent = true
				}
			} else {
				r.divergent = false
			}
			r.leaves = r.leaves[:l]
		}
		if !r.malformed {
			hd := r.acc.GetMerkleHeader()
			want := c28SpecRoot(r.leaves)
			o.Check(bytes.Equal(hd.RootHash, want) && hd.Leaves == l, "hexary-setlen-header-differs",
				"after SetLen(%d) from %d the header is {%x,%d}, accumulating the prefix gives %x", l, n, hd.RootHash, hd.Leaves, want)
		}
		return "ok"
	case t[0] == "reopen" && len(t) == 1:
		acc, err := hexary.NewAccumulator(r.tbk, r.abk, "")
		if err != nil {
			return "err"
		}
		o.Count("reopen")
		r.vcurrent = false
		r.acc = acc
		if r.divergent {
			r.leaves = r.saved
			r.divergent = false
		}
		return fmt.Sprintf("ok %d", acc.Len())
	case (t[0] == "prove" || t[0] == "vprove") && len(t) == 3:
		key, e1 := strconv.ParseInt(t[1], 10, 64)
		from, e2 := strconv.Atoi(t[2])
		if e1 != nil || e2 != nil || key < 0 {
			return "bad-op"
		}
		var mt hexary.MerkleTree
		if t[0] == "prove" {
			var err error
			mt, _, err = r.proverTree()
			if err != nil {
				return "err"
			}
		} else {
			if r.vtree == nil {
				return "bad-op"
			}
			mt = r.vtree
		}
		p, err := mt.Prove(key, from)
		if err != nil {
			o.Count(t[0] + "-err")
			if t[0] == "prove" && key < r.acc.Len() && !r.malformed {
				o.Check(false, "hexary-prove-fails", "Prove(%d,%d) at length %d: %v", key, from, r.acc.Len(), err)
			}
			return "err"
		}
		o.Count(t[0] + "-ok")
		return "ok " + c28List(p)
	case t[0] == "vnew" && len(t) == 1:
		hd, err := r.acc.Finalize()
		if err != nil {
			return "err"
		}
		bk, _ := db.NewMapDB().GetBucket("v")
		mt, err := hexary.NewMerkleTree(bk, hd, 0)
		if err != nil {
			return "err"
		}
		r.vtree = mt
		r.vleaves = append([][]byte(nil), r.leaves...)
		r.vnext = 0
		r.vcurrent = true
		o.Count("vnew")
		return fmt.Sprintf("ok %d", mt.Cap())
	case t[0] == "vadd" && len(t) == 4:
		key, e1 := strconv.ParseInt(t[1], 10, 64)
		if e1 != nil || key < 0 || r.vtree == nil {
			return "bad-op"
		}
		h := unhx(t[2])
		err := r.vtree.Add(key, h, c28ParseList(t[3]))
		res := c28AddRes(err)
		o.Count("vadd-" + res)
		if res == "ok" && !r.malformed && key < int64(len(r.vleaves)) {
			o.Check(bytes.Equal(h, r.vleaves[key]), "hexary-wrong-hash-accepted", "Add(%d, %x) accepted, the leaf is %x", key, h, r.vleaves[key])
		}
		return res
	case t[0] == "vaddx" && len(t) == 3:
		key, e1 := strconv.ParseInt(t[1], 10, 64)
		mode, e2 := strconv.Atoi(t[2])
		if e1 != nil || e2 != nil || key < 0 || mode < 0 || r.vtree == nil {
			return "bad-op"
		}
		pt, hd, err := r.proverTree()
		if err != nil {
			return "err"
		}
		p, err := pt.Prove(key, 0)
		if err != nil {
			return "err"
		}
		junk := bytes.Repeat([]byte{0xAA}, 32)
		var leaf []byte
		if key < int64(len(r.leaves)) {
			leaf = r.leaves[key]
		}
		k2 := key
		var p2 [][]byte
		switch mode {
		case 0:
			p2 = append([][]byte{junk}, p...)
		case 1:
			first := junk
			if len(p) > 0 {
				first = p[0]
			}
			p2 = append([][]byte{first}, p...)
		case 2:
			p2 = append(append([][]byte{}, p...), junk)
		case 3:
			if len(p) > 0 {
				p2 = p[1:]
			}
		case 4:
			k2 = key + int64(1)<<uint(4*(hexary.LevelFromLen(hd.Leaves)+1))
			p2 = p
		case 5:
			p2 = append([][]byte{junk, junk}, p...)
		default:
			mode = 6
			p2 = p
		}
		o.Count(fmt.Sprintf("vaddx-mode-%d", mode))
		res := "panic"
		func() {
			defer func() {
				if e := recover(); e != nil {
					if !r.malformed {
						o.Check(false, "hexary-overlong-proof-panics", "Add(%d) with %d proof elements for a tree of level %d panics: %v", k2, len(p2), hexary.LevelFromLen(hd.Leaves), e)
					}
				}
			}()
			res = c28AddRes(r.vtree.Add(k2, leaf, p2))
		}()
		o.Count("vaddx-" + res)
		if !r.malformed && (mode == 0 || mode == 1 || mode == 2 || mode == 5) {
			o.Check(res != "ok", "hexary-altered-proof-accepted", "proof for %d altered (mode %d) accepted", key, mode)
		}
		return res
	case t[0] == "sync" && len(t) == 3:
		lo, e1 := strconv.Atoi(t[1])
		hi, e2 := strconv.Atoi(t[2])
		if e1 != nil || e2 != nil || lo < 0 || hi < 0 || r.vtree == nil {
			return "bad-op"
		}
		pt, _, err := r.proverTree()
		if err != nil {
			return "err"
		}
		good, bad := 0, 0
		h := uint64(14695981039346656037)
		for key := lo; key < hi; key++ {
			p, err := pt.Prove(int64(key), -1)
			if err != nil {
				bad++
				continue
			}
			var leaf []byte
			if key < len(r.leaves) {
				leaf = r.leaves[key]
			}
			if r.vtree.Add(int64(key), leaf, p) == nil {
				good++
			} else {
				bad++
			}
			h = c28FnvProof(h, p)
		}
		o.Count("sync")
		if bad > 0 {
			o.Count("sync-with-rejects")
		}
		if lo <= r.vnext && hi <= len(r.leaves) && r.vcurrent && !r.malformed {
			// every earlier key is already in the verifier: the partial proofs must be accepted
			o.Count("sync-in-order")
			o.Check(bad == 0, "hexary-partial-proof-rejected", "feeding keys %d..%d in order with Prove(key,-1): %d rejected", lo, hi-1, bad)
			if bad == 0 && hi > r.vnext {
				r.vnext = hi
			}
		}
		return fmt.Sprintf("sync %d %d %d", good, bad, h)
	case t[0] == "checkall" && len(t) == 2:
		step, e1 := strconv.Atoi(t[1])
		if e1 != nil || step <= 0 {
			return "bad-op"
		}
		hd, err := r.acc.Finalize()
		if err != nil {
			return "err"
		}
		pt, err := hexary.NewMerkleTree(r.tbk, hd, 0)
		if err != nil {
			return "err"
		}
		n := int(r.acc.Len())
		acc, rej1, rej2 := 0, 0, 0
		h := uint64(14695981039346656037)
		for key := 0; key < n; key += step {
			p, err := pt.Prove(int64(key), 0)
			if err != nil {
				if !r.malformed {
					o.Check(false, "hexary-prove-fails", "Prove(%d,0) at length %d after Finalize: %v", key, n, err)
				}
				continue
			}
			var leaf []byte
			if key < len(r.leaves) {
				leaf = r.leaves[key]
			}
			fresh := func() hexary.MerkleTree {
				bk, _ := db.NewMapDB().GetBucket("v")
				mt, _ := hexary.NewMerkleTree(bk, hd, 0)
				return mt
			}
			a1 := c28AddRes(fresh().Add(int64(key), leaf, p))
			a2 := c28AddRes(fresh().Add(int64(key), c28Flip(leaf, key), p))
			p3 := append([][]byte(nil), p...)
			if len(p) > 0 {
				p3[key%len(p)] = c28Flip(p[key%len(p)], key*7)
			}
			a3 := c28AddRes(fresh().Add(int64(key), leaf, p3))
			if a1 == "ok" {
				acc++
			}
			if a2 == "verr" {
				rej1++
			}
			if a3 == "verr" || len(p) == 0 {
				rej2++
			}
			if !r.malformed {
				o.Check(a1 == "ok", "hexary-genuine-proof-rejected", "full proof of key %d of %d rejected (%s)", key, n, a1)
				o.Check(a2 == "verr", "hexary-tampered-hash-accepted", "altered hash for key %d of %d: %s", key, n, a2)
				o.Check(a3 == "verr" || len(p) == 0, "hexary-tampered-proof-accepted", "altered proof for key %d of %d: %s", key, n, a3)
			}
			h = c28FnvProof(h, p)
		}
		o.Count("checkall")
		return fmt.Sprintf("checkall %d %d %d %d %d", n, acc, rej1, rej2, h)
	}
	return "bad-op"
}

func c28Min(a, b int) int {
	if a < b {
		return a
	}
	return b
}
