//go:build c35 || all

package main

import (
	"fmt"
	"math/big"
	"strconv"
	"strings"

	"github.com/icon-project/goloop/common"
	"github.com/icon-project/goloop/common/db"
	"github.com/icon-project/goloop/common/log"
	"github.com/icon-project/goloop/icon/icmodule"
	"github.com/icon-project/goloop/icon/iiss/calculator"
	"github.com/icon-project/goloop/icon/iiss/icreward"
	"github.com/icon-project/goloop/icon/iiss/icstage"
	"github.com/icon-project/goloop/icon/iiss/icstate"
	"github.com/icon-project/goloop/icon/iiss/icutils"
	"github.com/icon-project/goloop/module"
)

func init() {
	Register(&Prop{ID: "C35", Gen: c35Gen, New: func() Runner { return c35NewRunner() }})
}

// ---------------------------------------------------------------- generator

type c35Vote struct {
	to  int
	amt *big.Int
}

func c35VotesStr(vs []c35Vote) string {
	if len(vs) == 0 {
		return "-"
	}
	parts := make([]string, len(vs))
	for i, v := range vs {
		parts[i] = fmt.Sprintf("%d:%s", v.to, v.amt.String())
	}
	return strings.Join(parts, ",")
}

func c35Amount(g *Gen) *big.Int {
	switch g.Intn(5) {
	case 0:
		return big.NewInt(int64(g.Intn(10)))
	case 1:
		return big.NewInt(int64(g.Intn(100000)))
	case 2:
		// ICX-scale amounts (loop)
		v := new(big.Int).Mul(big.NewInt(int64(g.Intn(5000000)+1)), new(big.Int).Exp(big.NewInt(10), big.NewInt(18), nil))
		return v.Add(v, big.NewInt(int64(g.Intn(1000))))
	case 3:
		return new(big.Int).SetBytes(g.Bytes(1 + g.Intn(10)))
	default:
		return big.NewInt(int64(g.Intn(1000) + 1))
	}
}

// one case = one term: base reward state + events + calc
func c35Case(g *Gen) {
	strict := g.Intn(5) != 0
	L := g.Pick(0, 1, 2, 3, 5, 9, 20, 99, 127, 128, 255, 256, 1000, 43119, 43199)
	nP := 1 + g.Intn(7)
	nV := 1 + g.Intn(7)
	N := nP
	if nV > N {
		N = nV
	}
	extra := g.Intn(3) == 0 // an address that is no registered P-Rep but gets votes / is enabled mid-term
	if extra {
		N++
	}
	elected := g.Pick(0, 1, 1, 2, 2, 3, 4, 5, nP, nP+1)
	br := g.Pick(0, 0, 1, 100, 500, 500, 1000, 9999, 10000)
	var iglobal *big.Int
	switch g.Intn(4) {
	case 0:
		iglobal = big.NewInt(int64(g.Intn(2000000)))
	case 1:
		iglobal = new(big.Int).Mul(big.NewInt(3_000_000+int64(g.Intn(1000000))), new(big.Int).Exp(big.NewInt(10), big.NewInt(18), nil))
	default:
		iglobal = new(big.Int).SetBytes(g.Bytes(1 + g.Intn(12)))
	}
	iprep := g.Pick(0, 1, 7700, 8500, 10000, g.Intn(10001))
	iwage := g.Intn(10001 - iprep + 1)
	if iprep+iwage > 10000 {
		iwage = 10000 - iprep
	}
	if g.Intn(4) == 0 {
		iwage = 10000 - iprep
	}
	minBond := c35Amount(g)
	g.Emit("global %d %d %d %s %d %d %s", elected, L, br, iglobal, iprep, iwage, minBond)

	// voter base state: deleg[v][p], bond[v][p]
	deleg := make([]map[int]*big.Int, N)
	bond := make([]map[int]*big.Int, N)
	for v := 0; v < N; v++ {
		deleg[v] = map[int]*big.Int{}
		bond[v] = map[int]*big.Int{}
	}
	hot := false // the extra address registers mid-term (enable event) and collects votes
	target := func() int {
		if extra && (g.Intn(6) == 0 || (hot && g.Intn(3) == 0)) {
			return N - 1
		}
		return g.Intn(nP)
	}
	sameScale := g.Intn(2) == 0
	amt := func() *big.Int {
		if sameScale {
			return big.NewInt(int64(g.Intn(1000) + 1))
		}
		return c35Amount(g)
	}
	for v := 0; v < nV; v++ {
		for k := g.Intn(4); k > 0; k-- {
			deleg[v][target()] = amt()
		}
		for k := g.Intn(3); k > 0; k-- {
			bond[v][target()] = amt()
		}
	}
	sum := func(m []map[int]*big.Int, p int) *big.Int {
		s := new(big.Int)
		for v := range m {
			if a, ok := m[v][p]; ok {
				s.Add(s, a)
			}
		}
		return s
	}
	emitVotes := func(op string, v int, m map[int]*big.Int) {
		var vs []c35Vote
		for p := 0; p < N; p++ {
			if a, ok := m[p]; ok && a.Sign() > 0 {
				vs = append(vs, c35Vote{p, a})
			}
		}
		if len(vs) > 0 {
			g.R.Shuffle(len(vs), func(i, j int) { vs[i], vs[j] = vs[j], vs[i] })
			g.Emit("%s %d %s", op, v, c35VotesStr(vs))
		}
	}
	for v := 0; v < N; v++ {
		emitVotes("deleg", v, deleg[v])
		emitVotes("bond", v, bond[v])
	}
	for p := 0; p < N; p++ {
		if extra && p == N-1 && g.Intn(2) == 0 {
			// unregistered target: no Voted record; half of these register during the term
			// (only if nobody votes for it in the base state, otherwise the base would be inconsistent)
			if sum(deleg, p).Sign() == 0 && sum(bond, p).Sign() == 0 {
				hot = g.Intn(2) == 0
			}
			continue
		}
		if p >= nP && !(extra && p == N-1) {
			continue
		}
		status := g.Pick(0, 0, 0, 0, 0, 1, 2, 3, 4, 5)
		d, b := sum(deleg, p), sum(bond, p)
		if !strict && g.Intn(3) == 0 {
			d = c35Amount(g)
			if g.Intn(4) == 0 {
				d.Neg(d)
			}
		}
		rate := g.Pick(0, 0, 1, 500, 1000, 9999, 10000, g.Intn(10001))
		if !strict && g.Intn(6) == 0 {
			rate = g.Pick(-1, 10001, 20000)
		}
		pk := 1
		if g.Intn(6) == 0 {
			pk = 0
		}
		g.Emit("prep %d %d %s %s %d %d", p, status, d, b, rate, pk)
	}

	// events, offsets non-decreasing (the stage DB iterates by (offset, index))
	nE := g.Intn(8)
	if g.Intn(4) == 0 {
		nE = g.Intn(25)
	}
	off := 0
	if hot {
		g.Emit("ev_enable 0 %d 0", N-1)
		if nE < 4 {
			nE = 4 + g.Intn(6)
		}
	}
	for e := 0; e < nE; e++ {
		if L > 0 && off < L {
			switch g.Intn(4) {
			case 0:
			case 1:
				off++
			case 2:
				off += g.Intn(L/4 + 1)
			default:
				off = off + g.Intn(L-off+1)
			}
			if g.Intn(10) == 0 {
				off = L
			}
			if off > L {
				off = L
			}
		}
		o := off
		if !strict && g.Intn(10) == 0 {
			off = off + 1 + g.Intn(3) // beyond the term: negative period
			o = off
		}
		switch g.Intn(6) {
		case 0:
			g.Emit("ev_enable %d %d %d", o, g.Intn(N), g.Pick(0, 0, 1, 2, 3, 4, 5))
		default:
			v := g.Intn(nV)
			isBond := g.Intn(3) == 0
			m := deleg[v]
			if isBond {
				m = bond[v]
			}
			var vs []c35Vote
			used := map[int]bool{}
			for k := 1 + g.Intn(3); k > 0; k-- {
				p := target()
				if used[p] {
					continue
				}
				used[p] = true
				cur, ok := m[p]
				if !ok {
					cur = new(big.Int)
				}
				var delta *big.Int
				switch g.Intn(4) {
				case 0: // revoke everything
					delta = new(big.Int).Neg(cur)
				case 1: // reduce
					if cur.Sign() > 0 {
						delta = new(big.Int).Rand(g.R, cur)
						delta.Neg(delta)
					} else {
						delta = amt()
					}
				default:
					delta = amt()
				}
				if !strict && g.Intn(8) == 0 {
					delta = new(big.Int).Neg(amt())
				}
				nv := new(big.Int).Add(cur, delta)
				if nv.Sign() >= 0 {
					m[p] = nv
				}
				vs = append(vs, c35Vote{p, delta})
			}
			if !strict && g.Intn(10) == 0 && len(vs) > 0 {
				vs = append(vs, vs[0]) // duplicate target inside one event
			}
			op := "ev_deleg"
			if isBond {
				op = "ev_bond"
			}
			g.Emit("%s %d %d %s", op, o, v, c35VotesStr(vs))
		}
	}
	s := 0
	if strict {
		s = 1
	}
	g.Emit("calc %d %d", N, s)
}

func c35Gen(g *Gen) {
	for i := 0; i < g.N; i++ {
		c35Case(g)
		g.Emit("reset")
	}
	// malformed lines
	g.Emit("calc x")
	g.Emit("prep 1 2")
	g.Emit("ev_deleg 0 1 3:x")
}

// ---------------------------------------------------------------- runner

type c35Event struct {
	kind   int // 0 enable, 1 deleg, 2 bond
	offset int
	who    int
	status int
	votes  []c35Vote
}

type c35Prep struct {
	id, status int
	d, b       *big.Int
	rate       int64
	pk         bool
}

type c35Runner struct {
	stage  *icstage.State
	reward *icreward.State
	back   *icstage.Snapshot
	base   *icreward.Snapshot
	temp   *icreward.State
	stats  *calculator.Stats
	lg     log.Logger

	haveGlobal           bool
	elected, L           int
	br                   int64
	iglobal, minBond     *big.Int
	iprep, iwage         int64
	preps                map[int]*c35Prep
	deleg, bond          map[int][]c35Vote
	events               []c35Event
	nEvents              int
}

func (t *c35Runner) Back() *icstage.Snapshot  { return t.back }
func (t *c35Runner) Base() *icreward.Snapshot { return t.base }
func (t *c35Runner) Temp() *icreward.State    { return t.temp }
func (t *c35Runner) Stats() *calculator.Stats { return t.stats }
func (t *c35Runner) Logger() log.Logger       { return t.lg }
func (t *c35Runner) UpdateIScore(addr module.Address, reward *big.Int, type_ calculator.RewardType) error {
	iScore, err := t.temp.GetIScore(addr)
	if err != nil {
		return err
	}
	if err = t.temp.SetIScore(addr, iScore.Added(reward)); err != nil {
		return err
	}
	t.stats.IncreaseReward(type_, reward)
	return nil
}

var c35Logger log.Logger

func c35NewRunner() *c35Runner {
	if c35Logger == nil {
		c35Logger = log.New()
		c35Logger.SetLevel(log.PanicLevel)
	}
	database := db.NewMapDB()
	r := &c35Runner{
		stage:  icstage.NewState(database),
		reward: icreward.NewState(database, nil),
		stats:  calculator.NewStats(),
		lg:     c35Logger,
		preps:  map[int]*c35Prep{},
		deleg:  map[int][]c35Vote{},
		bond:   map[int][]c35Vote{},
	}
	return r
}

func c35Addr(id int) *common.Address {
	b := make([]byte, 21)
	b[17] = byte(id >> 24)
	b[18] = byte(id >> 16)
	b[19] = byte(id >> 8)
	b[20] = byte(id)
	a, err := common.NewAddress(b)
	if err != nil {
		panic(err)
	}
	return a
}

func c35ParseVotes(s string) ([]c35Vote, bool) {
	if s == "-" {
		return nil, true
	}
	var vs []c35Vote
	for _, part := range strings.Split(s, ",") {
		kv := strings.Split(part, ":")
		if len(kv) != 2 {
			return nil, false
		}
		k, err := strconv.Atoi(kv[0])
		if err != nil || k < 0 {
			return nil, false
		}
		a, ok := new(big.Int).SetString(kv[1], 10)
		if !ok {
			return nil, false
		}
		vs = append(vs, c35Vote{k, a})
	}
	return vs, true
}

func c35Ints(toks []string) ([]int, bool) {
	res := make([]int, len(toks))
	for i, t := range toks {
		v, err := strconv.Atoi(t)
		if err != nil {
			return nil, false
		}
		res[i] = v
	}
	return res, true
}

func c35Big(s string) (*big.Int, bool) { return new(big.Int).SetString(s, 10) }

func (t *c35Runner) voteList(vs []c35Vote) icstage.VoteList {
	vl := make(icstage.VoteList, len(vs))
	for i, v := range vs {
		vl[i] = icstage.NewVote(c35Addr(v.to), v.amt)
	}
	return vl
}

func (t *c35Runner) Step(toks []string, o *Oracle) string {
	if len(toks) == 0 {
		return "bad-op"
	}
	switch toks[0] {
	case "global":
		if len(toks) != 8 {
			return "bad-op"
		}
		iv, ok := c35Ints(toks[1:4])
		ig, ok2 := c35Big(toks[4])
		rt, ok3 := c35Ints(toks[5:7])
		mb, ok4 := c35Big(toks[7])
		if !ok || !ok2 || !ok3 || !ok4 || iv[0] < 0 || iv[1] < 0 {
			return "bad-op"
		}
		t.elected, t.L, t.br = iv[0], iv[1], int64(iv[2])
		t.iglobal, t.iprep, t.iwage, t.minBond = ig, int64(rt[0]), int64(rt[1]), mb
		rFund := icstate.NewRewardFund(icstate.RFVersion2)
		if err := rFund.SetIGlobal(ig); err != nil {
			panic(err)
		}
		alloc := map[icstate.RFundKey]icmodule.Rate{
			icstate.KeyIprep:  icmodule.Rate(t.iprep),
			icstate.KeyIwage:  icmodule.Rate(t.iwage),
			icstate.KeyIcps:   icmodule.Rate(10000 - t.iprep - t.iwage),
			icstate.KeyIrelay: icmodule.Rate(0),
		}
		if err := rFund.SetAllocation(alloc); err != nil {
			panic(err)
		}
		if err := t.stage.AddGlobalV3(0, 0, t.L, t.elected, icmodule.Rate(t.br), rFund, mb); err != nil {
			panic(err)
		}
		dsa := icreward.NewDSA().Updated(1)
		if err := t.reward.SetDSA(dsa); err != nil {
			panic(err)
		}
		t.haveGlobal = true
		return "ok"
	case "prep":
		if len(toks) != 7 {
			return "bad-op"
		}
		a, ok := c35Ints(toks[1:3])
		d, ok2 := c35Big(toks[3])
		b, ok3 := c35Big(toks[4])
		c, ok4 := c35Ints(toks[5:7])
		if !ok || !ok2 || !ok3 || !ok4 || a[0] < 0 || a[1] < 0 {
			return "bad-op"
		}
		v := icreward.NewVotedV2()
		v.SetStatus(icmodule.EnableStatus(a[1]))
		v.SetDelegated(d)
		v.SetBonded(b)
		v.SetCommissionRate(icmodule.Rate(c[0]))
		if err := t.reward.SetVoted(c35Addr(a[0]), v); err != nil {
			panic(err)
		}
		if c[1] != 0 {
			if err := t.reward.SetPublicKey(c35Addr(a[0]), icreward.NewPublicKey().Updated(1)); err != nil {
				panic(err)
			}
		}
		t.preps[a[0]] = &c35Prep{a[0], a[1], d, b, int64(c[0]), c[1] != 0}
		o.Count("prep")
		return "ok"
	case "deleg", "bond":
		if len(toks) != 3 {
			return "bad-op"
		}
		id, err := strconv.Atoi(toks[1])
		vs, ok := c35ParseVotes(toks[2])
		if err != nil || !ok || id < 0 {
			return "bad-op"
		}
		if toks[0] == "deleg" {
			dg := icreward.NewDelegating()
			for _, v := range vs {
				dg.Delegations = append(dg.Delegations, icstate.NewDelegation(c35Addr(v.to), v.amt))
			}
			if err := t.reward.SetDelegating(c35Addr(id), dg); err != nil {
				panic(err)
			}
			t.deleg[id] = vs
		} else {
			bg := icreward.NewBonding()
			for _, v := range vs {
				bg.Bonds = append(bg.Bonds, icstate.NewBond(c35Addr(v.to), v.amt))
			}
			if err := t.reward.SetBonding(c35Addr(id), bg); err != nil {
				panic(err)
			}
			t.bond[id] = vs
		}
		o.Count(toks[0])
		return "ok"
	case "ev_enable":
		if len(toks) != 4 {
			return "bad-op"
		}
		a, ok := c35Ints(toks[1:4])
		if !ok || a[0] < 0 || a[1] < 0 || a[2] < 0 {
			return "bad-op"
		}
		if _, err := t.stage.AddEventEnable(a[0], c35Addr(a[1]), icmodule.EnableStatus(a[2])); err != nil {
			panic(err)
		}
		t.events = append(t.events, c35Event{kind: 0, offset: a[0], who: a[1], status: a[2]})
		o.Count("ev_enable")
		return "ok"
	case "ev_deleg", "ev_bond":
		if len(toks) != 4 {
			return "bad-op"
		}
		a, ok := c35Ints(toks[1:3])
		vs, ok2 := c35ParseVotes(toks[3])
		if !ok || !ok2 || a[0] < 0 || a[1] < 0 {
			return "bad-op"
		}
		var err error
		kind := 1
		if toks[0] == "ev_deleg" {
			_, _, err = t.stage.AddEventDelegation(a[0], c35Addr(a[1]), t.voteList(vs))
		} else {
			kind = 2
			_, _, err = t.stage.AddEventBond(a[0], c35Addr(a[1]), t.voteList(vs))
		}
		if err != nil {
			panic(err)
		}
		t.events = append(t.events, c35Event{kind: kind, offset: a[0], who: a[1], votes: vs})
		o.Count(toks[0])
		return "ok"
	case "calc":
		if len(toks) < 2 || len(toks) > 3 {
			return "bad-op"
		}
		n, err := strconv.Atoi(toks[1])
		if err != nil || n < 0 {
			return "bad-op"
		}
		strict := len(toks) == 3 && toks[2] == "1"
		return t.calc(n, strict, o)
	}
	return "bad-op"
}

func c35Fund(iglobal *big.Int, rate int64, period int64) *big.Int {
	v := new(big.Int).Mul(iglobal, big.NewInt(rate))
	v.Quo(v, big.NewInt(10000))
	v.Mul(v, big.NewInt(period*1000))
	return v.Div(v, big.NewInt(1296000))
}

func (t *c35Runner) calc(n int, strict bool, o *Oracle) string {
	t.back = t.stage.GetSnapshot()
	t.temp = t.reward
	t.base = t.reward.GetSnapshot()
	r, err := calculator.NewIISS4Reward(t)
	if err != nil {
		return "err"
	}
	if !t.haveGlobal {
		return "bad-op"
	}
	if err = r.Calculate(); err != nil {
		o.Count("calc-err")
		return "err"
	}
	o.Count("calc-ok")
	total := new(big.Int)
	parts := make([]string, n)
	scores := make([]*big.Int, n)
	for id := 0; id < n; id++ {
		is, err := t.temp.GetIScore(c35Addr(id))
		if err != nil {
			panic(err)
		}
		v := new(big.Int)
		if is != nil {
			v.Set(is.Value())
		}
		scores[id] = v
		total.Add(total, v)
		parts[id] = fmt.Sprintf("%d=%s", id, v)
	}

	// ---- property oracle (independent of the Lean model) ----
	period := int64(t.L + 1)
	budget := new(big.Int).Add(c35Fund(t.iglobal, t.iprep, period), c35Fund(t.iglobal, t.iwage, period))
	if total.Sign() > 0 {
		o.Count("calc-nonzero-reward")
	}
	o.Check(total.Cmp(t.stats.Total()) == 0, "c35-stats-total-mismatch", "sum of I-Scores %s != Stats.Total %s", total, t.stats.Total())
	if strict {
		o.Count("calc-strict")
		o.Check(total.Cmp(budget) <= 0, "c35-total-exceeds-budget", "credited %s > budget %s", total, budget)
		pi := calculator.VerifC35PRepInfo(r)
		if pi != nil && t.elected > 0 {
			// per P-Rep: commission + voter reward + wage within the funds
			sumPrep, sumVR, sumWage := new(big.Int), new(big.Int), new(big.Int)
			for _, p := range pi.PReps() {
				sumPrep.Add(sumPrep, p.GetReward())
				sumVR.Add(sumVR, p.VoterReward())
				o.Check(p.VoterReward().Sign() >= 0 && p.GetReward().Sign() >= 0, "c35-negative-reward", "prep %s reward %s voterReward %s", p.Owner(), p.GetReward(), p.VoterReward())
			}
			_ = sumWage
			o.Check(new(big.Int).Add(sumPrep, sumVR).Cmp(budget) <= 0, "c35-prep-rewards-exceed-fund", "sum(prep reward)+sum(voterReward) = %s + %s > %s", sumPrep, sumVR, budget)
			// per voter: reward is the sum over rewardable P-Reps of floor(av*VR/AV)
			av := t.accumulated()
			perPrep := map[int]*big.Int{}
			for v := 0; v < n; v++ {
				m, ok := av[v]
				if !ok {
					continue
				}
				exp := new(big.Int)
				upper := new(big.Rat)
				cnt := 0
				for pid, a := range m {
					p := pi.GetPRep(icutils.ToKey(c35Addr(pid)))
					if p == nil || !p.IsRewardable(pi.ElectedPRepCount()) {
						continue
					}
					num := new(big.Int).Mul(a, p.VoterReward())
					share := new(big.Int).Div(num, p.AccumulatedVoted())
					exp.Add(exp, share)
					upper.Add(upper, new(big.Rat).SetFrac(num, p.AccumulatedVoted()))
					cnt++
					if perPrep[pid] == nil {
						perPrep[pid] = new(big.Int)
					}
					perPrep[pid].Add(perPrep[pid], share)
				}
				// voter reward = iscore minus own prep reward
				got := new(big.Int).Set(scores[v])
				if p := pi.GetPRep(icutils.ToKey(c35Addr(v))); p != nil {
					got.Sub(got, p.GetReward())
				}
				lo := new(big.Rat).Sub(upper, new(big.Rat).SetInt64(int64(cnt)))
				g := new(big.Rat).SetInt(got)
				o.Check(got.Cmp(exp) == 0 && g.Cmp(upper) <= 0 && (cnt == 0 || g.Cmp(lo) > 0), "c35-voter-share-not-proportional",
					"voter %d got %s, expected %s (exact sum %s)", v, got, exp, upper.FloatString(3))
				if got.Sign() > 0 {
					o.Count("voter-rewarded")
				}
			}
			for pid, s := range perPrep {
				p := pi.GetPRep(icutils.ToKey(c35Addr(pid)))
				o.Check(s.Cmp(p.VoterReward()) <= 0, "c35-voters-exceed-prep-voter-reward", "prep %d voters got %s > voterReward %s", pid, s, p.VoterReward())
				if p.VoterReward().Sign() > 0 {
					o.Count("prep-with-voter-reward")
				}
			}
		}
	}
	return "ok total=" + total.String() + " " + strings.Join(parts, " ")
}

// accumulated votes per voter and P-Rep, recomputed from the inputs
func (t *c35Runner) accumulated() map[int]map[int]*big.Int {
	av := map[int]map[int]*big.Int{}
	add := func(v, p int, amt *big.Int, period int64) {
		if av[v] == nil {
			av[v] = map[int]*big.Int{}
		}
		if av[v][p] == nil {
			av[v][p] = new(big.Int)
		}
		av[v][p].Add(av[v][p], new(big.Int).Mul(amt, big.NewInt(period)))
	}
	for v, vs := range t.deleg {
		for _, x := range vs {
			add(v, x.to, x.amt, int64(t.L+1))
		}
	}
	for v, vs := range t.bond {
		for _, x := range vs {
			add(v, x.to, x.amt, int64(t.L+1))
		}
	}
	for _, e := range t.events {
		if e.kind == 0 {
			continue
		}
		for _, x := range e.votes {
			add(e.who, x.to, x.amt, int64(t.L-e.offset))
		}
	}
	return av
}
