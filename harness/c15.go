//go:build c15 || c16 || all

package main

// C15 / C16: real service.Transition (validation incl. PreValidate, sequential
// execution, fee gathering to the treasury) over real v3 transactions on a
// genesis built by the basic platform.  Contract bodies are scripted programs
// run by a harness handler inside the real CallContext (frames, snapshots,
// rollback, logs are all real code).

import (
	"encoding/base64"
	"encoding/json"
	"fmt"
	"math/big"
	"os"
	"strconv"
	"strings"

	"github.com/icon-project/goloop/chain/base"
	"github.com/icon-project/goloop/common"
	"github.com/icon-project/goloop/common/codec"
	"github.com/icon-project/goloop/common/crypto"
	"github.com/icon-project/goloop/common/db"
	"github.com/icon-project/goloop/common/errors"
	"github.com/icon-project/goloop/common/log"
	"github.com/icon-project/goloop/common/wallet"
	"github.com/icon-project/goloop/module"
	"github.com/icon-project/goloop/service"
	"github.com/icon-project/goloop/service/contract"
	"github.com/icon-project/goloop/service/eeproxy"
	"github.com/icon-project/goloop/service/platform/basic"
	"github.com/icon-project/goloop/service/scoreapi"
	"github.com/icon-project/goloop/service/scoreresult"
	"github.com/icon-project/goloop/service/state"
	"github.com/icon-project/goloop/service/txresult"
	"github.com/icon-project/goloop/service/transaction"
	"github.com/icon-project/goloop/test"
)

const (
	c15God      = 0 // genesis account, has a key
	c15NEOA     = 5 // accounts 0..4 have keys (0 = god)
	c15Script0  = 4 // scripted and has a key
	c15Script1  = 5 // scripted "contract" accounts (EOA-typed addresses)
	c15Script2  = 6
	c15BadCx    = 7 // contract-typed address without a contract account
	c15Treasury = 8
	c15Contract = 9 // scripted, contract-typed address WITH a deployed, accepted contract
	c15NAcct    = 10
	c15NKey     = 2
	c15GodBal   = "1000000000000000000000"
)

type c15T struct{}

func (c15T) Errorf(f string, a ...interface{}) { panic(fmt.Sprintf("fixture: "+f, a...)) }
func (c15T) Logf(f string, a ...interface{})   {}

type c15Cfg struct {
	price, dflt, input, call, invoke int64
	legacy                          int
}

type c15Env struct {
	cfg     c15Cfg
	dbase   db.Database
	chain   *c15Chain
	plt     base.Platform
	cm      contract.ContractManager
	genesis module.Transition
	logger  log.Logger
}

var (
	c15Wallets []module.Wallet
	c15Addrs   []module.Address
	c15Envs    = map[c15Cfg]*c15Env{}
	c15TxSeq   int64
)

func c15Init() {
	if c15Addrs != nil {
		return
	}
	for i := 0; i < c15NEOA; i++ {
		sk, err := crypto.ParsePrivateKey(crypto.SHA3Sum256([]byte(fmt.Sprintf("verif-c15-key-%d", i))))
		if err != nil {
			panic(err)
		}
		w, err := wallet.NewFromPrivateKey(sk)
		if err != nil {
			panic(err)
		}
		c15Wallets = append(c15Wallets, w)
		c15Addrs = append(c15Addrs, w.Address())
	}
	mk := func(contract bool, n byte) module.Address {
		b := make([]byte, 20)
		b[0] = 0xc1
		b[1] = 0x5c
		b[19] = n
		if contract {
			return common.NewContractAddress(b)
		}
		return common.NewAccountAddress(b)
	}
	c15Addrs = append(c15Addrs, mk(false, 1), mk(false, 2), mk(true, 3), mk(false, 0x7e), mk(true, 9))
}

func c15IsScript(a module.Address) bool {
	// account 4 is scripted too and has a key: value that PreValidate credits to it but a failing
	// program never delivers lets it reach the out-of-balance branches of the fee code
	return a.Equal(c15Addrs[c15Script1]) || a.Equal(c15Addrs[c15Script2]) || a.Equal(c15Addrs[c15Script0]) || a.Equal(c15Addrs[c15Contract])
}

// ---- platform / contract manager wrappers

type c15Platform struct {
	base.Platform
	legacy int
}

func (p *c15Platform) ToRevision(v int) module.Revision {
	r := p.Platform.ToRevision(v)
	if p.legacy&1 != 0 {
		r |= module.LegacyFeeCharge
	}
	if p.legacy&2 != 0 {
		r |= module.LegacyBalanceCheck
	}
	return r
}

func (p *c15Platform) NewContractManager(dbase db.Database, dir string, logger log.Logger) (contract.ContractManager, error) {
	cm, err := p.Platform.NewContractManager(dbase, dir, logger)
	if err != nil {
		return nil, err
	}
	return &c15CM{cm, logger}, nil
}

type c15CM struct {
	contract.ContractManager
	log log.Logger
}

func (cm *c15CM) GetHandler(from, to module.Address, value *big.Int, ctype int, data []byte) (contract.ContractHandler, error) {
	if ctype == contract.CTypeCall && c15IsScript(to) {
		var d struct {
			Method string `json:"method"`
			Params struct {
				P string `json:"p"`
			} `json:"params"`
		}
		if err := json.Unmarshal(data, &d); err != nil {
			return nil, err
		}
		prog, rest, ok := c15ParseProg(d.Params.P)
		if !ok || rest != "" {
			return nil, scoreresult.InvalidParameterError.New("BadProgram")
		}
		if c15UseAsync(d.Params.P) {
			return &c15Async{CommonHandler: contract.NewCommonHandler(from, to, value, false, cm.log), prog: prog, log: cm.log}, nil
		}
		return &c15Script{CommonHandler: contract.NewCommonHandler(from, to, value, false, cm.log), prog: prog, log: cm.log}, nil
	}
	return cm.ContractManager.GetHandler(from, to, value, ctype, data)
}

// ---- scripted programs

type c15Op struct {
	k       byte
	a, b, c int64
	sub     []c15Op
}

func c15Num(s string) (int64, string, bool) {
	i := 0
	for i < len(s) && s[i] >= '0' && s[i] <= '9' {
		i++
	}
	if i == 0 || i > 15 {
		return 0, s, false
	}
	v, _ := strconv.ParseInt(s[:i], 10, 64)
	return v, s[i:], true
}

// c15ParseProg parses ops separated by '.', up to ')' or end.
//
//	z (timeout)  s<k>=<v>  g<nh>=<g>  e<t>  b<n>  t<n>  x<to>:<v>  y<to>:<v>  c<to>:<v>:<lim>(prog)  d<to>:<v>:<lim>(prog)  f<code>
func c15ParseProg(s string) ([]c15Op, string, bool) {
	var ops []c15Op
	if s == "" || s[0] == ')' {
		return ops, s, true
	}
	for {
		if s == "" {
			return nil, s, false
		}
		op := c15Op{k: s[0]}
		s = s[1:]
		var ok bool
		switch op.k {
		case 'z':
			// timeout: no operand
		case 'e', 'b', 't', 'f':
			if op.a, s, ok = c15Num(s); !ok {
				return nil, s, false
			}
		case 's', 'g':
			if op.a, s, ok = c15Num(s); !ok || s == "" || s[0] != '=' {
				return nil, s, false
			}
			if op.b, s, ok = c15Num(s[1:]); !ok {
				return nil, s, false
			}
		case 'x', 'y':
			if op.a, s, ok = c15Num(s); !ok || s == "" || s[0] != ':' {
				return nil, s, false
			}
			if op.b, s, ok = c15Num(s[1:]); !ok {
				return nil, s, false
			}
		case 'c', 'd':
			if op.a, s, ok = c15Num(s); !ok || s == "" || s[0] != ':' {
				return nil, s, false
			}
			if op.b, s, ok = c15Num(s[1:]); !ok || s == "" || s[0] != ':' {
				return nil, s, false
			}
			if op.c, s, ok = c15Num(s[1:]); !ok || s == "" || s[0] != '(' {
				return nil, s, false
			}
			if op.sub, s, ok = c15ParseProg(s[1:]); !ok || s == "" || s[0] != ')' {
				return nil, s, false
			}
			s = s[1:]
		default:
			return nil, s, false
		}
		if (op.k == 'x' || op.k == 'y' || op.k == 'c' || op.k == 'd') && op.a >= c15NAcct {
			return nil, s, false
		}
		if op.k == 's' && op.a >= c15NKey {
			return nil, s, false
		}
		ops = append(ops, op)
		if s == "" || s[0] == ')' {
			return ops, s, true
		}
		if s[0] != '.' {
			return nil, s, false
		}
		s = s[1:]
	}
}

type c15Script struct {
	*contract.CommonHandler
	prog []c15Op
	log  log.Logger
}

func c15Key(k int64) []byte { return []byte{'v', byte('0' + k)} }

func (h *c15Script) ExecuteSync(cc contract.CallContext) (error, *codec.TypedObj, module.Address) {
	if err := h.ApplyStepsForInterCall(cc); err != nil {
		return err, nil, nil
	}
	if h.Value != nil && h.Value.Sign() > 0 {
		// same order as TransferAndCallHandler: move the value first
		th := &contract.TransferHandler{CommonHandler: h.CommonHandler}
		if st, _, _ := th.DoExecuteSync(cc); st != nil {
			return st, nil, nil
		}
	}
	return h.run(cc), nil, nil
}

func (h *c15Script) run(cc contract.CallContext) error {
	self := h.To
	for _, op := range h.prog {
		switch op.k {
		case 's':
			as := cc.GetAccountState(self.ID())
			var v []byte
			if op.b != 0 {
				v = big.NewInt(op.b).Bytes()
			}
			if _, err := as.SetValue(c15Key(op.a), v); err != nil {
				return err
			}
		case 'g':
			// SetObjGraph of the account's current contract, as CallHandler.SetObjGraph does
			as := cc.GetAccountState(self.ID())
			if c := as.Contract(); c != nil {
				var v []byte
				if op.b != 0 {
					v = big.NewInt(op.b).Bytes()
				}
				if err := as.SetObjGraph(c.CodeID(), true, int(op.a), v); err != nil {
					return err
				}
			}
		case 'e':
			cc.OnEvent(self, [][]byte{[]byte("Ev(int)"), big.NewInt(op.a).Bytes()}, nil)
		case 'b':
			cc.OnBTPMessage(op.a, []byte{1})
		case 't':
			if !cc.DeductSteps(big.NewInt(op.a)) {
				return scoreresult.ErrOutOfStep
			}
		case 'x', 'y':
			th := &contract.TransferHandler{CommonHandler: contract.NewCommonHandler(self, c15Addrs[op.a], big.NewInt(op.b), true, h.log)}
			st, used, _, _ := cc.Call(th, cc.StepAvailable())
			cc.DeductSteps(used)
			if st != nil && (op.k == 'x' || c15IsTimeout(st)) {
				return st
			}
		case 'c', 'd':
			lim := cc.StepAvailable()
			if op.c > 0 && big.NewInt(op.c).Cmp(lim) < 0 {
				lim = big.NewInt(op.c)
			}
			sub := &c15Script{CommonHandler: contract.NewCommonHandler(self, c15Addrs[op.a], big.NewInt(op.b), true, h.log), prog: op.sub, log: h.log}
			st, used, _, _ := cc.Call(sub, lim)
			cc.DeductSteps(used)
			if st != nil && (op.k == 'c' || c15IsTimeout(st)) {
				// a Timeout cannot be caught: cleanUpFrames has unwound the callee already
				return st
			}
		case 'f':
			return scoreresult.NewBase(module.StatusReverted+module.Status(op.a%8), "scripted revert")
		case 'z':
			return scoreresult.ErrTimeout
		}
	}
	return nil
}

func c15IsTimeout(st error) bool { return errors.CodeOf(st) == scoreresult.TimeoutError }

// transactions whose program contains a timeout, and every other one by parity of the text
// length, run on asynchronous handlers (the waitResult message loop, cleanUpFrames across
// several frames); the rest on synchronous ones. Both must behave the same.
func c15UseAsync(prog string) bool { return strings.Contains(prog, "z") || len(prog)%2 == 1 }

// c15Async is the same scripted contract as c15Script, written as an AsyncContractHandler:
// inter-calls are requested with cc.OnCall and continue in SendResult, the outcome is
// reported with cc.OnResult (or by returning the status from ExecuteAsync).
type c15Async struct {
	*contract.CommonHandler
	prog    []c15Op
	pc      int
	pending byte
	log     log.Logger
	cc      contract.CallContext
}

func (h *c15Async) ExecuteAsync(cc contract.CallContext) error {
	h.cc = cc
	if err := h.ApplyStepsForInterCall(cc); err != nil {
		return err
	}
	if h.Value != nil && h.Value.Sign() > 0 {
		th := &contract.TransferHandler{CommonHandler: h.CommonHandler}
		if st, _, _ := th.DoExecuteSync(cc); st != nil {
			return st
		}
	}
	done, st := h.resume()
	if !done {
		return nil
	}
	if st != nil {
		return st
	}
	cc.OnResult(nil, 0, new(big.Int), nil, nil)
	return nil
}

func (h *c15Async) SendResult(status error, steps *big.Int, result *codec.TypedObj) error {
	h.cc.DeductSteps(steps)
	k := h.pending
	h.pending = 0
	if status != nil && (k == 'x' || k == 'c' || c15IsTimeout(status)) {
		h.cc.OnResult(status, 0, new(big.Int), nil, nil)
		return nil
	}
	if done, st := h.resume(); done {
		h.cc.OnResult(st, 0, new(big.Int), nil, nil)
	}
	return nil
}

// resume runs ops from pc until the program ends / fails (done) or an inter-call is pending.
func (h *c15Async) resume() (bool, error) {
	cc := h.cc
	self := h.To
	for h.pc < len(h.prog) {
		op := h.prog[h.pc]
		h.pc++
		switch op.k {
		case 's':
			var v []byte
			if op.b != 0 {
				v = big.NewInt(op.b).Bytes()
			}
			if _, err := cc.GetAccountState(self.ID()).SetValue(c15Key(op.a), v); err != nil {
				return true, err
			}
		case 'g':
			as := cc.GetAccountState(self.ID())
			if c := as.Contract(); c != nil {
				var v []byte
				if op.b != 0 {
					v = big.NewInt(op.b).Bytes()
				}
				if err := as.SetObjGraph(c.CodeID(), true, int(op.a), v); err != nil {
					return true, err
				}
			}
		case 'e':
			cc.OnEvent(self, [][]byte{[]byte("Ev(int)"), big.NewInt(op.a).Bytes()}, nil)
		case 'b':
			cc.OnBTPMessage(op.a, []byte{1})
		case 't':
			if !cc.DeductSteps(big.NewInt(op.a)) {
				return true, scoreresult.ErrOutOfStep
			}
		case 'x', 'y':
			th := &contract.TransferHandler{CommonHandler: contract.NewCommonHandler(self, c15Addrs[op.a], big.NewInt(op.b), true, h.log)}
			h.pending = op.k
			cc.OnCall(th, cc.StepAvailable())
			return false, nil
		case 'c', 'd':
			lim := cc.StepAvailable()
			if op.c > 0 && big.NewInt(op.c).Cmp(lim) < 0 {
				lim = big.NewInt(op.c)
			}
			sub := &c15Async{CommonHandler: contract.NewCommonHandler(self, c15Addrs[op.a], big.NewInt(op.b), true, h.log), prog: op.sub, log: h.log}
			h.pending = op.k
			cc.OnCall(sub, lim)
			return false, nil
		case 'f':
			return true, scoreresult.NewBase(module.StatusReverted+module.Status(op.a%8), "scripted revert")
		case 'z':
			return true, scoreresult.ErrTimeout
		}
	}
	return true, nil
}

func (h *c15Async) Dispose()             {}
func (h *c15Async) EEType() state.EEType { return state.JavaEE }

// eeproxy.CallContext (never used: there is no execution engine behind this handler)
func (h *c15Async) GetValue(key []byte) ([]byte, error)                { return nil, nil }
func (h *c15Async) SetValue(key []byte, value []byte) ([]byte, error)  { return nil, nil }
func (h *c15Async) DeleteValue(key []byte) ([]byte, error)             { return nil, nil }
func (h *c15Async) ArrayDBContains(prefix, value []byte, limit int64) (bool, int, int, error) {
	return false, 0, 0, nil
}
func (h *c15Async) GetInfo() *codec.TypedObj                                           { return nil }
func (h *c15Async) GetBalance(addr module.Address) *big.Int                            { return new(big.Int) }
func (h *c15Async) OnEvent(addr module.Address, indexed, data [][]byte) error          { return nil }
func (h *c15Async) OnResult(status error, flag int, steps *big.Int, result *codec.TypedObj) {}
func (h *c15Async) OnCall(from, to module.Address, value, limit *big.Int, dataType string, dataObj *codec.TypedObj) {
}
func (h *c15Async) OnAPI(status error, info *scoreapi.Info)                            {}
func (h *c15Async) OnSetFeeProportion(portion int)                                     {}
func (h *c15Async) SetCode(code []byte) error                                          { return nil }
func (h *c15Async) GetObjGraph(bool) (int, []byte, []byte, error)                      { return 0, nil, nil, nil }
func (h *c15Async) SetObjGraph(flags bool, nextHash int, objGraph []byte) error        { return nil }

// ---- environment

func c15Genesis(cfg c15Cfg) string {
	return fmt.Sprintf(`{
 "accounts": [
  {"name": "god", "address": "%s", "balance": "0x%x"},
  {"name": "treasury", "address": "%s", "balance": "0x0"}
 ],
 "chain": {
  "revision": "0x8",
  "fee": {
   "stepPrice": "0x%x",
   "stepLimit": {"invoke": "0x%x", "query": "0x%x"},
   "stepCosts": {"default": "0x%x", "input": "0x%x", "contractCall": "0x%x"}
  }
 },
 "message": "verif c15",
 "nid": "0x1"
}`, c15Addrs[c15God].String(), c15BigOf(c15GodBal), c15Addrs[c15Treasury].String(),
		cfg.price, cfg.invoke, cfg.invoke, cfg.dflt, cfg.input, cfg.call)
}

func c15BigOf(s string) *big.Int {
	v, ok := new(big.Int).SetString(s, 10)
	if !ok {
		panic("bad int " + s)
	}
	return v
}

// c15Chain lets the runner choose the concurrency level of the next block: > 1 selects
// executeTxsConcurrent, i.e. transactions on worldVirtualState chains with account locks.
type c15Chain struct {
	*test.Chain
	conc int
}

func (c *c15Chain) ConcurrencyLevel() int { return c.conc }

// c15WorldLock is what CallHandler.Prepare does for a non-isolated contract call: the scripted
// programs touch arbitrary accounts, so they run under the world write lock.
func c15WorldLock(ctx contract.Context) (state.WorldContext, error) {
	return ctx.GetFuture([]state.LockRequest{{Lock: state.AccountWriteLock, ID: state.WorldIDStr}}), nil
}

func (h *c15Script) Prepare(ctx contract.Context) (state.WorldContext, error) { return c15WorldLock(ctx) }
func (h *c15Async) Prepare(ctx contract.Context) (state.WorldContext, error)  { return c15WorldLock(ctx) }

type c15CB struct{ ch chan error }

func (cb *c15CB) OnValidate(tr module.Transition, err error) { cb.ch <- err }
func (cb *c15CB) OnExecute(tr module.Transition, err error)  { cb.ch <- err }

// c15Run executes a transition; returns (validationError, executionError)
func c15Run(tr module.Transition) (error, error) {
	cb := &c15CB{make(chan error, 2)}
	if _, err := tr.Execute(cb); err != nil {
		return err, nil
	}
	if err := <-cb.ch; err != nil {
		return err, nil
	}
	return nil, <-cb.ch
}

func c15GetEnv(cfg c15Cfg) *c15Env {
	if e, ok := c15Envs[cfg]; ok {
		return e
	}
	c15Init()
	dir, err := os.MkdirTemp("", "goloop-verif-c15")
	if err != nil {
		panic(err)
	}
	defer os.RemoveAll(dir)
	logger := log.New()
	logger.SetLevel(log.PanicLevel)
	log.GlobalLogger().SetLevel(log.PanicLevel)
	dbase := db.NewMapDB()
	gs := c15Genesis(cfg)
	tchain, err := test.NewChain(c15T{}, c15Wallets[c15God], dbase, logger, nil, gs)
	if err != nil {
		panic(err)
	}
	chain := &c15Chain{Chain: tchain, conc: 1}
	plt := &c15Platform{basic.Platform, cfg.legacy}
	cm, err := plt.NewContractManager(dbase, dir, logger)
	if err != nil {
		panic(err)
	}
	init, err := service.NewInitTransition(dbase, nil, nil, cm, nil, chain, logger, plt, service.NewTimestampChecker())
	if err != nil {
		panic(err)
	}
	gtx, err := transaction.NewGenesisTransaction([]byte(gs))
	if err != nil {
		panic(err)
	}
	gtxl := transaction.NewTransactionListFromSlice(dbase, []module.Transaction{gtx})
	gtr := service.NewTransition(init, nil, gtxl, common.NewBlockInfo(0, 0), common.NewConsensusInfo(nil, nil, nil), true)
	if verr, eerr := c15Run(gtr); verr != nil || eerr != nil {
		panic(fmt.Sprintf("genesis failed: %v %v", verr, eerr))
	}
	if err := service.FinalizeTransition(gtr, module.FinalizeNormalTransaction|module.FinalizePatchTransaction|module.FinalizeResult, false); err != nil {
		panic(err)
	}
	// account 9: a contract account with an accepted current contract (no API info), set up
	// directly on the genesis state; the chain continues from the amended state hash
	wss, err := service.NewWorldSnapshot(dbase, plt, gtr.Result(), nil)
	if err != nil {
		panic(err)
	}
	ws, err := state.WorldStateFromSnapshot(wss)
	if err != nil {
		panic(err)
	}
	as := ws.GetAccountState(c15Addrs[c15Contract].ID())
	as.InitContractAccount(c15Addrs[c15God])
	dtx := crypto.SHA3Sum256([]byte("verif-c16-deploy"))
	if _, err := as.DeployContract([]byte("verif-c16-code"), state.JavaEE, state.CTAppJava, nil, dtx); err != nil {
		panic(err)
	}
	if err := as.AcceptContract(dtx, dtx); err != nil {
		panic(err)
	}
	wss2 := ws.GetSnapshot()
	if err := wss2.Flush(); err != nil {
		panic(err)
	}
	res2, err := service.VerifC16ResultWithState(gtr.Result(), wss2.StateHash())
	if err != nil {
		panic(err)
	}
	base, err := service.NewInitTransition(dbase, res2, nil, cm, nil, chain, logger, plt, service.NewTimestampChecker())
	if err != nil {
		panic(err)
	}
	e := &c15Env{cfg: cfg, dbase: dbase, chain: chain, plt: plt, cm: cm, genesis: base, logger: logger}
	c15Envs[cfg] = e
	return e
}

// ---- transactions

type c15Tx struct {
	kind         string
	from, to     int
	value, limit *big.Int
	extra        string
	inputBytes   int
}

func c15MakeTx(t c15Tx, ts int64) (module.Transaction, error) {
	c15TxSeq++
	m := map[string]interface{}{
		"version":   "0x3",
		"from":      c15Addrs[t.from].String(),
		"to":        c15Addrs[t.to].String(),
		"value":     "0x" + t.value.Text(16),
		"stepLimit": "0x" + t.limit.Text(16),
		"timestamp": fmt.Sprintf("0x%x", ts),
		"nid":       "0x1",
		"nonce":     fmt.Sprintf("0x%x", c15TxSeq),
	}
	switch t.kind {
	case "m":
		m["dataType"] = "message"
		m["data"] = t.extra
	case "c":
		m["dataType"] = "call"
		m["data"] = map[string]interface{}{"method": "run", "params": map[string]interface{}{"p": t.extra}}
	}
	js, _ := json.Marshal(m)
	tx, err := transaction.NewTransactionFromJSON(js)
	if err != nil {
		return nil, err
	}
	sig, err := c15Wallets[t.from].Sign(tx.ID())
	if err != nil {
		return nil, err
	}
	m["signature"] = base64.StdEncoding.EncodeToString(sig)
	js, _ = json.Marshal(m)
	return transaction.NewTransactionFromJSON(js)
}

// c15InputBytes is what MeasureBytesOfData counts at revision >= 3: the length of the compact JSON of data.
func c15InputBytes(kind, extra string) int {
	switch kind {
	case "m":
		js, _ := json.Marshal(extra)
		return len(js)
	case "c":
		js, _ := json.Marshal(map[string]interface{}{"method": "run", "params": map[string]interface{}{"p": extra}})
		return len(js)
	}
	return 0
}

// ---- runner

type c15Runner struct {
	env    *c15Env
	parent module.Transition
	height int64
	txs    []c15Tx
	bal    []*big.Int // balances at parent
	stor   []string   // storage of the script accounts at parent
	graph  string     // object graph of account 9 at parent
	conc   int        // concurrency level for the next blocks
}

func c15NewRunner() Runner { return &c15Runner{} }

type c15State struct {
	bal   []*big.Int
	stor  []string
	graph string // object graph of account 9, read from the database
}

func c15GraphOf(ws interface {
	GetAccountSnapshot(id []byte) state.AccountSnapshot
}) string {
	as := ws.GetAccountSnapshot(c15Addrs[c15Contract].ID())
	if as == nil || as.Contract() == nil {
		return "nocontract"
	}
	nh, _, data, err := as.GetObjGraph(as.Contract().CodeID(), true)
	if err != nil {
		return "-"
	}
	v := "0"
	if len(data) > 0 {
		v = new(big.Int).SetBytes(data).String()
	}
	return fmt.Sprintf("%d/%s", nh, v)
}

func (r *c15Runner) read(tr module.Transition) c15State {
	ws, err := service.NewWorldSnapshot(r.env.dbase, r.env.plt, tr.Result(), nil)
	if err != nil {
		panic(err)
	}
	var s c15State
	for a := 0; a < c15NAcct; a++ {
		as := ws.GetAccountSnapshot(c15Addrs[a].ID())
		if as == nil {
			s.bal = append(s.bal, new(big.Int))
		} else {
			s.bal = append(s.bal, as.GetBalance())
		}
		if a == c15Script0 || a == c15Script1 || a == c15Script2 || a == c15Contract {
			for k := int64(0); k < c15NKey; k++ {
				v := "0"
				if as != nil {
					if bs, _ := as.GetValue(c15Key(k)); len(bs) > 0 {
						v = new(big.Int).SetBytes(bs).String()
					}
				}
				s.stor = append(s.stor, v)
			}
		}
	}
	s.graph = c15GraphOf(ws)
	return s
}

func c15Sum(bs []*big.Int) *big.Int {
	s := new(big.Int)
	for _, b := range bs {
		s.Add(s, b)
	}
	return s
}

func (r *c15Runner) Step(t []string, o *Oracle) string {
	if len(t) == 0 {
		return "bad-op"
	}
	num := func(s string) (int64, bool) {
		v, err := strconv.ParseInt(s, 10, 64)
		return v, err == nil && v >= 0
	}
	switch {
	case t[0] == "cfg" && len(t) == 7:
		var v [6]int64
		for i := range v {
			var ok bool
			if v[i], ok = num(t[i+1]); !ok {
				return "bad-op"
			}
		}
		if r.env != nil || v[5] > 3 {
			return "bad-op"
		}
		r.env = c15GetEnv(c15Cfg{v[0], v[1], v[2], v[3], v[4], int(v[5])})
		r.parent = r.env.genesis
		r.height = 0
		st := r.read(r.parent)
		r.bal, r.stor, r.graph = st.bal, st.stor, st.graph
		o.Count(fmt.Sprintf("cfg-legacy-%d", v[5]))
		if v[0] == 0 {
			o.Count("cfg-price-0")
		}
		return "ok"
	case t[0] == "conc" && len(t) == 2:
		// concurrency level of the following blocks (1 = sequential executor)
		n, ok := num(t[1])
		if r.env == nil || !ok || n < 1 || n > 8 {
			return "bad-op"
		}
		r.conc = int(n)
		return "ok"
	case t[0] == "tx" && (len(t) == 6 || len(t) == 8):
		if r.env == nil {
			return "bad-op"
		}
		from, ok1 := num(t[2])
		to, ok2 := num(t[3])
		value, ok3 := new(big.Int).SetString(t[4], 10)
		limit, ok4 := new(big.Int).SetString(t[5], 10)
		if !ok1 || !ok2 || !ok3 || !ok4 || from >= c15NEOA || to >= c15NAcct || value.Sign() < 0 || limit.Sign() < 0 {
			return "bad-op"
		}
		tx := c15Tx{kind: t[1], from: int(from), to: int(to), value: value, limit: limit}
		switch t[1] {
		case "t":
			if len(t) != 6 {
				return "bad-op"
			}
		case "m", "c":
			if len(t) != 8 {
				return "bad-op"
			}
			n, ok := num(t[6])
			if !ok {
				return "bad-op"
			}
			tx.extra = t[7]
			tx.inputBytes = int(n)
			if t[1] == "c" {
				if p, rest, ok := c15ParseProg(t[7]); !ok || rest != "" || !(to == c15Script0 || to == c15Script1 || to == c15Script2 || to == c15Contract) {
					_ = p
					return "bad-op"
				}
			} else if to >= c15NEOA+2 {
				// message to a contract-typed address goes to the fallback path; keep to EOA-typed
				return "bad-op"
			}
			// the op line carries the input size the model charges for; it must be what the code measures
			if c15InputBytes(t[1], t[7]) != tx.inputBytes {
				return "bad-op"
			}
		default:
			return "bad-op"
		}
		r.txs = append(r.txs, tx)
		return "ok"
	case t[0] == "exec" && len(t) == 1:
		if r.env == nil {
			return "bad-op"
		}
		return r.exec(o)
	}
	return "bad-op"
}

func (r *c15Runner) exec(o *Oracle) string {
	txs := r.txs
	r.txs = nil
	r.height++
	ts := r.height * 1000000
	var list []module.Transaction
	for _, t := range txs {
		tx, err := c15MakeTx(t, ts)
		if err != nil {
			panic(err)
		}
		list = append(list, tx)
	}
	txl := transaction.NewTransactionListFromSlice(r.env.dbase, list)
	tr := service.NewTransition(r.parent, nil, txl, common.NewBlockInfo(r.height, ts), common.NewConsensusInfo(nil, nil, nil), false)
	if r.conc < 1 {
		r.conc = 1
	}
	r.env.chain.conc = r.conc
	if r.env.cfg.legacy&2 != 0 && r.conc > 1 {
		// checkBalance's legacy branch reads PropInitialSnapshot, which executeTxsConcurrent does not
		// pass to the per-transaction contexts (nil interface panic): not a combination to run
		r.env.chain.conc = 1
		o.Count("legacy-balance-check-forced-sequential")
	}
	verr, eerr := c15Run(tr)
	r.env.chain.conc = 1
	if r.conc > 1 {
		o.Count("block-concurrent-executor")
	}
	if verr != nil {
		r.height--
		o.Count("block-rejected")
		if os.Getenv("VERIF_DEBUG") != "" {
			fmt.Fprintf(os.Stderr, "rejected: %v\n", verr)
		}
		return "rejected"
	}
	if eerr != nil {
		panic(fmt.Sprintf("execution error: %+v", eerr))
	}
	if err := service.FinalizeTransition(tr, module.FinalizeNormalTransaction|module.FinalizeResult, false); err != nil {
		panic(err)
	}
	o.Count("block-executed")
	after := r.read(tr)
	before := c15State{r.bal, r.stor, r.graph}
	// the object graph as the transition's in-memory snapshot shows it must be what the database holds
	memGraph := c15GraphOf(service.VerifC16WorldSnapshot(tr))
	o.Check(memGraph == after.graph, "object-graph-in-memory-differs-from-stored",
		"account 9: in-memory snapshot reads graph %s, reloaded from the database %s", memGraph, after.graph)
	if after.graph != before.graph {
		o.Count("object-graph-changed")
	}
	price := big.NewInt(r.env.cfg.price)

	// receipts
	var recs []string
	fees := new(big.Int)
	i := 0
	type rinfo struct {
		status       int
		used, rprice *big.Int
		nlogs, nbtp  int
	}
	var infos []rinfo
	for it := tr.NormalReceipts().Iterator(); it.Has(); it.Next() {
		rct, err := it.Get()
		if err != nil {
			panic(err)
		}
		nlogs := 0
		var tags []string
		for li := rct.EventLogIterator(); li.Has(); li.Next() {
			ev, _ := li.Get()
			nlogs++
			if idx := ev.Indexed(); len(idx) > 0 && string(idx[0]) == txresult.EventLogICXTransfer {
				tags = append(tags, "1000")
			} else if len(idx) > 1 {
				tags = append(tags, new(big.Int).SetBytes(idx[1]).String())
			}
		}
		nbtp := 0
		if l := rct.BTPMessages(); l != nil {
			nbtp = l.Len()
		}
		info := rinfo{int(rct.Status()), rct.StepUsed(), rct.StepPrice(), nlogs, nbtp}
		infos = append(infos, info)
		recs = append(recs, fmt.Sprintf("%d:%s:%s:%s:%d", info.status, info.used, info.rprice, "["+strings.Join(tags, ",")+"]", nbtp))
		fee := new(big.Int).Mul(info.used, info.rprice)
		fees.Add(fees, fee)
		tx := txs[i]
		// ---- property oracle, per receipt
		if info.status == 0 {
			o.Count("tx-success")
		} else {
			o.Count(fmt.Sprintf("tx-fail-status-%d", info.status))
			if info.status == int(module.StatusOutOfBalance) && r.env.cfg.legacy == 2 {
				o.Count("legacy-balance-check-out-of-balance")
			}
			o.Check(nlogs == 0, "failed-receipt-has-event-logs", "tx %d status %d carries %d event logs", i, info.status, nlogs)
			o.Check(nbtp == 0, "failed-receipt-has-btp-messages", "tx %d status %d carries %d BTP messages", i, info.status, nbtp)
		}
		lim := tx.limit
		if lim.Cmp(big.NewInt(r.env.cfg.invoke)) > 0 {
			lim = big.NewInt(r.env.cfg.invoke)
		}
		zeroed := r.env.cfg.legacy&1 != 0 && info.used.Sign() == 0
		if zeroed {
			o.Count("legacy-steps-zeroed")
		} else {
			o.Check(info.used.Cmp(big.NewInt(r.env.cfg.dflt)) >= 0, "step-used-below-minimum", "tx %d used %s < default %d", i, info.used, r.env.cfg.dflt)
			// the minimum charge wins over a smaller invoke limit (mis-configuration); the
			// transaction's own limit is >= default by PreValidate
			if lim.Cmp(big.NewInt(r.env.cfg.dflt)) < 0 {
				lim = big.NewInt(r.env.cfg.dflt)
				o.Count("invoke-limit-below-default")
			}
			o.Check(info.used.Cmp(lim) <= 0, "step-used-above-limit", "tx %d used %s > limit %s", i, info.used, lim)
			o.Check(info.used.Cmp(tx.limit) <= 0, "step-used-above-tx-limit", "tx %d used %s > stepLimit %s", i, info.used, tx.limit)
		}
		o.Check(info.rprice.Sign() == 0 || info.rprice.Cmp(price) == 0, "receipt-step-price-unknown", "tx %d price %s, configured %s", i, info.rprice, price)
		if info.rprice.Sign() == 0 && price.Sign() != 0 {
			o.Count("price-zeroed-out-of-balance")
		}
		i++
	}
	if i != len(txs) {
		panic("receipt count")
	}
	// ---- property oracle, per block
	sb, sa := c15Sum(before.bal), c15Sum(after.bal)
	o.Check(sb.Cmp(sa) == 0, "block-does-not-conserve-icx", "sum of balances %s before, %s after", sb, sa)
	for a, b := range after.bal {
		o.Check(b.Sign() >= 0, "negative-balance", "account %d has balance %s", a, b)
	}
	dt := new(big.Int).Sub(after.bal[c15Treasury], before.bal[c15Treasury])
	treasuryTouched := false
	for _, tx := range txs {
		if tx.to == c15Treasury || strings.Contains(tx.extra, fmt.Sprintf("%d:", c15Treasury)) {
			treasuryTouched = true
		}
	}
	if !treasuryTouched {
		o.Check(dt.Cmp(fees) == 0, "treasury-not-credited-with-fees", "treasury +%s, receipts report fees %s", dt, fees)
	}
	// blocks in which every transaction either failed or is a successful plain transfer are fully
	// determined by the receipts: failed -> only the fee moves, success -> fee and value move
	{
		exact := true
		exp := make([]*big.Int, len(before.bal))
		for a := range exp {
			exp[a] = new(big.Int).Set(before.bal[a])
		}
		for j, tx := range txs {
			fee := new(big.Int).Mul(infos[j].used, infos[j].rprice)
			exp[tx.from].Sub(exp[tx.from], fee)
			exp[c15Treasury].Add(exp[c15Treasury], fee)
			if infos[j].status == 0 {
				if tx.kind == "c" {
					exact = false
					break
				}
				exp[tx.from].Sub(exp[tx.from], tx.value)
				exp[tx.to].Add(exp[tx.to], tx.value)
			}
		}
		if exact && len(txs) > 0 {
			o.Count("block-exactly-accounted")
			for a := range exp {
				o.Check(exp[a].Cmp(after.bal[a]) == 0, "balances-not-explained-by-receipts",
					"account %d: %s after the block, receipts (failed: fee only; transfer: fee+value) explain %s", a, after.bal[a], exp[a])
			}
			o.Check(strings.Join(after.stor, ",") == strings.Join(before.stor, ","), "storage-changed-without-successful-call",
				"storage %v -> %v although no call succeeded", before.stor, after.stor)
			o.Check(memGraph == before.graph && after.graph == before.graph, "object-graph-changed-without-successful-call",
				"object graph %s -> %s (in memory %s) although no call succeeded", before.graph, after.graph, memGraph)
		}
	}
	if len(txs) == 1 {
		// exact per-transaction accounting
		tx, info := txs[0], infos[0]
		fee := new(big.Int).Mul(info.used, info.rprice)
		d := func(a int) *big.Int { return new(big.Int).Sub(after.bal[a], before.bal[a]) }
		if info.status != 0 {
			o.Count("single-failed-tx")
			for a := 0; a < c15NAcct; a++ {
				want := new(big.Int)
				if a == tx.from {
					want.Sub(want, fee)
				}
				if a == c15Treasury {
					want.Add(want, fee)
				}
				o.Check(d(a).Cmp(want) == 0, "failed-tx-changes-more-than-fee", "failed tx (status %d): account %d changed by %s, expected %s", info.status, a, d(a), want)
			}
			o.Check(strings.Join(after.stor, ",") == strings.Join(before.stor, ","), "failed-tx-changes-storage", "failed tx (status %d): storage %v -> %v", info.status, before.stor, after.stor)
			o.Check(memGraph == before.graph && after.graph == before.graph, "failed-tx-changes-object-graph",
				"failed tx (status %d): object graph %s -> %s (in-memory snapshot %s)", info.status, before.graph, after.graph, memGraph)
		} else if tx.kind != "c" && tx.from != tx.to && tx.from != c15Treasury && tx.to != c15Treasury {
			o.Count("single-successful-transfer")
			want := new(big.Int).Neg(new(big.Int).Add(fee, tx.value))
			o.Check(d(tx.from).Cmp(want) == 0, "sender-not-charged-fee-plus-value", "sender changed by %s, expected %s", d(tx.from), want)
			o.Check(d(tx.to).Cmp(tx.value) == 0, "recipient-not-credited-value", "recipient changed by %s, expected %s", d(tx.to), tx.value)
		}
	}
	r.parent = tr
	r.bal, r.stor, r.graph = after.bal, after.stor, after.graph
	r.probeVirtual(tr, o)
	bs := make([]string, len(after.bal))
	for a, b := range after.bal {
		if a == c15God {
			// print god relative to its genesis balance to keep lines short
			bs[a] = new(big.Int).Sub(b, c15BigOf(c15GodBal)).String()
		} else {
			bs[a] = b.String()
		}
	}
	return strings.Join(recs, ";") + "|" + strings.Join(bs, ",") + "|" + strings.Join(after.stor, ",") + "|" + memGraph
}

// probeVirtual states the property on worldVirtualState chains, the way executeTxsConcurrent
// drives them (futures with account write locks, rollback snapshot taken before the
// predecessor commits, Execute, Commit, Realize), on the state the block just produced. It
// needs the legacy balance check (the only way a successful transfer can end up unable to
// pay its fee, i.e. the "rollback all changes" site of Execute); the real concurrent
// executor cannot be used for that because it does not hand PropInitialSnapshot to the
// per-transaction contexts. Two transfers payer -> recipient: the first leaves the payer
// with about one fee, the second succeeds and then cannot pay.
func (r *c15Runner) probeVirtual(tr module.Transition, o *Oracle) {
	cfg := r.env.cfg
	if cfg.legacy != 2 || cfg.price == 0 || cfg.dflt == 0 || cfg.invoke < cfg.dflt {
		return
	}
	fee := big.NewInt(cfg.dflt * cfg.price)
	need := new(big.Int).Add(new(big.Int).Mul(fee, big.NewInt(3)), big.NewInt(10))
	a := -1
	for i := 1; i < c15NEOA; i++ {
		if r.bal[i].Cmp(need) >= 0 && (a < 0 || r.bal[i].Cmp(r.bal[a]) > 0) {
			a = i
		}
	}
	if a < 0 {
		return
	}
	b := a%(c15NEOA-1) + 1
	wss, err := service.NewWorldSnapshot(r.env.dbase, r.env.plt, tr.Result(), nil)
	if err != nil {
		panic(err)
	}
	ws, err := state.WorldStateFromSnapshot(wss)
	if err != nil {
		panic(err)
	}
	wc0 := state.NewWorldContext(ws, common.NewBlockInfo(r.height+1, (r.height+1)*1000000), common.NewConsensusInfo(nil, nil, nil), r.env.plt)
	initial := ws.GetSnapshot()
	lq := []state.LockRequest{
		{ID: string(c15Addrs[a].ID()), Lock: state.AccountWriteLock},
		{ID: string(c15Addrs[b].ID()), Lock: state.AccountWriteLock},
	}
	// variant by height: the payer keeps exactly one fee (charged after the rollback) or one less (price -> 0)
	rest := new(big.Int).Set(fee)
	if r.height%2 == 0 {
		rest.Sub(rest, big.NewInt(1))
	}
	v1 := new(big.Int).Sub(new(big.Int).Sub(r.bal[a], fee), rest)
	values := []*big.Int{v1, big.NewInt(1), big.NewInt(0)}
	wcs := []state.WorldContext{}
	prev := wc0
	for range values {
		prev = prev.GetFuture(lq)
		wcs = append(wcs, prev)
	}
	// rollback snapshots first: nothing is realized yet for the later transactions
	var snaps []state.WorldSnapshot
	for _, wc := range wcs {
		snaps = append(snaps, wc.WorldVirtualState().GetSnapshot())
	}
	exp := []*big.Int{new(big.Int).Set(r.bal[a]), new(big.Int).Set(r.bal[b])}
	for i, v := range values {
		ctx := contract.NewContext(wcs[i], r.env.cm, nil, r.env.chain, r.env.logger, nil, eeproxy.ForTransaction)
		ctx.SetProperty(contract.PropInitialSnapshot, initial)
		ctx.SetTransactionInfo(&state.TransactionInfo{Group: module.TransactionGroupNormal, Index: int32(i),
			Hash: crypto.SHA3Sum256([]byte(fmt.Sprintf("probe-%d-%d", r.height, i))), From: c15Addrs[a]})
		ctx.UpdateSystemInfo()
		txh, err := transaction.NewHandler(r.env.cm, module.TransactionGroupNormal, c15Addrs[a], c15Addrs[b], v, big.NewInt(cfg.dflt), nil, nil)
		if err != nil {
			panic(err)
		}
		rct, err := txh.Execute(ctx, snaps[i], false)
		txh.Dispose()
		if err != nil {
			panic(err)
		}
		wcs[i].WorldVirtualState().Commit()
		f := new(big.Int).Mul(rct.StepUsed(), rct.StepPrice())
		exp[0].Sub(exp[0], f)
		if rct.Status() == module.StatusSuccess {
			exp[0].Sub(exp[0], v)
			exp[1].Add(exp[1], v)
		} else {
			o.Count("virtual-state-failed-tx")
		}
	}
	wcs[len(wcs)-1].WorldVirtualState().Realize()
	ga := ws.GetAccountState(c15Addrs[a].ID()).GetBalance()
	gb := ws.GetAccountState(c15Addrs[b].ID()).GetBalance()
	o.Count("virtual-state-probe")
	o.Check(ga.Cmp(exp[0]) == 0 && gb.Cmp(exp[1]) == 0, "virtual-state-failed-tx-changes-more-than-fee",
		"account-lock chain %d->%d values %v: payer %s recipient %s, receipts (failed: fee only) explain %s / %s", a, b, values, ga, gb, exp[0], exp[1])
}

// ---- generator (shared by C15 and C16; bias selects the mix)

func c15GenProg(g *Gen, depth int, self int) string {
	n := 1 + g.Intn(4)
	var ops []string
	other := func() int {
		return []int{1, 2, 3, 4, c15Script1, c15Script2, c15BadCx, c15Treasury, 0, c15Contract}[g.Intn(10)]
	}
	for i := 0; i < n; i++ {
		switch c := g.Intn(100); {
		case c < 6 || (c < 14 && self == c15Contract):
			ops = append(ops, fmt.Sprintf("g%d=%d", g.Pick(0, 1, 2, 3), g.Pick(0, 1, 2, 77)))
		case c < 18:
			ops = append(ops, fmt.Sprintf("s%d=%d", g.Intn(c15NKey), g.Intn(4)))
		case c < 32:
			ops = append(ops, fmt.Sprintf("e%d", g.Intn(9)))
		case c < 36:
			ops = append(ops, fmt.Sprintf("b%d", 1+g.Intn(2)))
		case c < 50:
			ops = append(ops, fmt.Sprintf("t%d", g.Pick(0, 1, 5, 50, 500, 100000)))
		case c < 66:
			ops = append(ops, fmt.Sprintf("%c%d:%d", "xy"[g.Intn(2)], other(), g.Pick(0, 1, 2, 10, 1000)))
		case c < 84:
			if depth < 3 {
				to := []int{c15Script0, c15Script1, c15Script2, c15Contract, c15Contract}[g.Intn(5)]
				ops = append(ops, fmt.Sprintf("%c%d:%d:%d(%s)", "cd"[g.Intn(2)], to, g.Pick(0, 0, 1, 10), g.Pick(0, 0, 0, 20, 200), c15GenProg(g, depth+1, to)))
			} else {
				ops = append(ops, "e7")
			}
		case c < 96:
			ops = append(ops, fmt.Sprintf("f%d", g.Intn(3)))
		default:
			ops = append(ops, "z")
		}
	}
	return strings.Join(ops, ".")
}

func c15GenCase(g *Gen, failBias bool) {
	price := int64(g.Pick(0, 1, 1, 3, 10, 1000))
	dflt := int64(g.Pick(0, 10, 100, 100))
	input := int64(g.Pick(0, 1, 2))
	call := int64(g.Pick(0, 5, 25))
	invoke := int64(g.Pick(50, 150, 1000, 100000, 1000000))
	legacy := 0
	if g.Intn(5) == 0 {
		legacy = 1 + g.Intn(3)
	}
	g.Emit("cfg %d %d %d %d %d %d", price, dflt, input, call, invoke, legacy)
	if g.Intn(2) == 0 {
		// concurrent executor: transactions run on worldVirtualState chains under account locks
		// (plain transfers) or the world lock (scripted calls); same outcome required
		g.Emit("conc %d", g.Pick(2, 4, 8))
	}
	// funding block(s): god sends to the EOAs; amounts around typical fee sizes so that
	// out-of-balance cases happen
	scale := price*dflt + 1
	known := make([]int64, c15NAcct) // rough balance tracker for biasing only
	refund := make([]int64, c15NAcct)
	nf := 0
	for a := 1; a < c15NEOA; a++ {
		if g.Intn(6) == 0 {
			continue
		}
		amt := scale * int64(g.Pick(0, 1, 2, 3, 10, 50, 1000))
		if g.Intn(3) == 0 {
			amt += int64(g.Intn(7)) - 3
		}
		if amt < 0 {
			amt = 0
		}
		g.Emit("tx t 0 %d %d %d", a, amt, dflt+int64(g.Intn(3)))
		known[a] = amt
		nf++
	}
	if nf > 0 {
		g.Emit("exec")
	}
	if price > 0 && dflt > 0 && (legacy == 2 || g.Intn(12) == 0) {
		// directed (bites with the legacy balance check, which looks at the block's initial
		// snapshot): account 4 spends nearly everything, gets credited by PreValidate with a
		// value a failing program never delivers, then runs a transaction that succeeds but
		// cannot pay its fee -> "rollback all changes" branch of Execute (status nil -> OutOfBalance)
		a := 1 + g.Intn(3)
		prog3 := []string{"", "e1.s0=1", "e2.x1:0.e3"}[g.Intn(3)]
		nb3 := 0
		if prog3 != "" {
			nb3 = c15InputBytes("c", prog3)
		}
		lim3 := dflt + input*int64(nb3) + int64(g.Pick(0, 0, 20))
		fee3 := (dflt + input*int64(nb3)) * price
		var rest, w int64 // what account 4 keeps after its first transaction; value of its last one
		switch g.Intn(3) {
		case 0: // cannot pay even after the rollback: price -> 0
			rest = int64(g.Intn(int(fee3)))
		case 1: // can pay after the rollback: charged, status OutOfBalance
			w = 1 + int64(g.Intn(3))
			rest = fee3 + w - 1 - int64(g.Intn(int(w)))
		default: // boundary: exactly enough
			rest = fee3
		}
		nbf := c15InputBytes("c", "f1")
		limf := dflt + input*int64(nbf)
		credit := lim3*price + w + int64(g.Intn(3))
		fund4 := known[4]
		v1 := int64(1 + g.Intn(50))
		need4 := v1 + dflt*price + rest
		if fund4 < need4 {
			g.Emit("tx t 0 4 %d %d", need4-fund4, dflt)
		} else {
			v1 = fund4 - dflt*price - rest
		}
		g.Emit("tx t 0 %d %d %d", a, credit+limf*price, dflt)
		g.Emit("exec")
		rcpt := 1 + g.Intn(3)
		g.Emit("tx t 4 %d %d %d", rcpt, v1, dflt)
		g.Emit("tx c %d 4 %d %d %d f1", a, credit, limf, nbf)
		if prog3 == "" {
			// mostly the same recipient again: under account locks both accounts of this transaction
			// then have an earlier locker in the block and nothing is realized when it starts
			if g.Intn(4) == 0 {
				rcpt = 1 + g.Intn(3)
			}
			g.Emit("tx t 4 %d %d %d", rcpt, w, lim3)
		} else {
			g.Emit("tx c 4 %d %d %d %d %s", c15Script1, w, lim3, nb3, prog3)
		}
		g.Emit("exec")
		known[4] = 0
	}
	if (failBias && g.Intn(3) == 0) || g.Intn(8) == 0 {
		// directed: a Timeout at call depth 1..3 after the outer frames have written storage, the
		// object graph, and moved value (cleanUpFrames has to unwind all of them to the
		// transaction's frame); "d" shows that a Timeout cannot be caught
		inner := []string{"z", "s1=3.z", "e2.c5:0:0(s0=1.z)", "d6:0:0(x1:1.z).e5"}[g.Intn(4)]
		to := []int{c15Script1, c15Script2, c15Contract}[g.Intn(3)]
		prog := fmt.Sprintf("s0=2.g4=44.e1.x%d:%d.%c%d:1:0(%s).e9", 1+g.Intn(3), 1+g.Intn(3), "cd"[g.Intn(2)],
			[]int{c15Script1, c15Script2, c15Contract}[g.Intn(3)], inner)
		nb := c15InputBytes("c", prog)
		lim := dflt + input*int64(nb) + 6*call + int64(g.Pick(40, 4000))
		g.Emit("tx t 0 1 %d %d", lim*price+50, dflt)
		g.Emit("exec")
		g.Emit("tx c 1 %d 10 %d %d %s", to, lim, nb, prog)
		g.Emit("exec")
		known[1] = 0
	}
	if (failBias && g.Intn(3) == 0) || g.Intn(8) == 0 {
		// directed: the deployed contract (account 9) gets an object graph, then a transaction
		// overwrites it and fails (directly, or in a nested call whose failure is propagated or
		// caught), then a successful transaction dirties the contract again
		emit := func(prog string) {
			nb := c15InputBytes("c", prog)
			g.Emit("tx c 0 9 0 %d %d %s", dflt+input*int64(nb)+4*call+int64(g.Pick(40, 400)), nb, prog)
			g.Emit("exec")
		}
		emit(fmt.Sprintf("g%d=%d", 1+g.Intn(3), 1+g.Intn(50)))
		if g.Intn(3) == 0 {
			emit("s1=1")
		}
		emit([]string{"g7=70.f1", "e1.g0=0.t100000", "s0=2.c9:0:0(g8=80.e2).f2", "d9:0:0(g9=90.f0).e3", "g7=71.x7:1", "c5:0:0(c9:0:0(g6=60).f1)"}[g.Intn(6)])
		if g.Intn(2) == 0 {
			emit([]string{"s0=3", "e4", "g0=0", "x1:0"}[g.Intn(4)])
		}
	}
	nblocks := 2 + g.Intn(5)
	for b := 0; b < nblocks; b++ {
		if g.Intn(6) == 0 {
			g.Emit("conc %d", g.Pick(1, 1, 3, 4))
		}
		if g.Intn(5) == 0 {
			// directed: PreValidate credits account 4 with a value that the failing program never
			// delivers; account 4 then spends it in the same block (checkBalance fails, or with the
			// legacy balance check the fee cannot be paid: the price-to-zero / rollback branches)
			a := 1 + g.Intn(3)
			v := known[a] / 2
			prog := []string{"f1", "s0=1.e1.f2", "t100000", "x7:1"}[g.Intn(4)]
			nb := c15InputBytes("c", prog)
			lim := dflt + input*int64(nb) + int64(g.Pick(0, 5, 50))
			g.Emit("tx c %d 4 %d %d %d %s", a, v, lim, nb, prog)
			known[a] -= lim*price + v
			spend := known[4] + v - (dflt+int64(g.Intn(3)))*price - int64(g.Intn(3))
			if spend < 0 {
				spend = 0
			}
			g.Emit("tx t 4 %d %d %d", 1+g.Intn(3), spend, dflt+int64(g.Intn(3)))
			if g.Intn(2) == 0 {
				g.Emit("tx t 4 %d 0 %d", 1+g.Intn(3), dflt)
			}
			g.Emit("exec")
			known[4] = 0
			if known[a] < 0 {
				known[a] = 0
			}
		}
		ntx := 1
		if g.Intn(3) == 0 {
			ntx = 2 + g.Intn(4)
		}
		for i := 0; i < ntx; i++ {
			from := 1 + g.Intn(c15NEOA-1)
			if g.Intn(12) == 0 {
				from = 0
			}
			kind := g.Intn(100)
			if failBias {
				kind = 40 + g.Intn(60)
			}
			// value and limit biased to the sender's balance boundary
			bal := known[from]
			if from == 0 {
				bal = 1 << 40
			}
			var value int64
			switch g.Intn(6) {
			case 0:
				value = 0
			case 1:
				value = bal
			case 2:
				value = bal / 2
			default:
				value = int64(g.Intn(20))
			}
			inputBytes := 0
			var extra, k string
			to := 1 + g.Intn(c15NEOA-1)
			switch {
			case kind < 30:
				k = "t"
				if g.Intn(10) == 0 {
					to = []int{c15BadCx, c15Treasury, c15Script1, from, c15Contract}[g.Intn(5)]
				}
			case kind < 42:
				k = "m"
				extra = "0x" + strings.Repeat("ab", g.Pick(0, 1, 3, 20))
				if g.Intn(8) == 0 {
					to = c15Script1
				}
			case kind < 52:
				k = "t"
				to = c15BadCx
			default:
				k = "c"
				to = []int{c15Script0, c15Script1, c15Script2, c15Contract, c15Contract}[g.Intn(5)]
				extra = c15GenProg(g, 0, to)
				if strings.Contains(extra, "b") {
					// a BTP message of an unknown network would abort the whole block when the
					// transaction succeeds; make such programs fail at the very end
					extra += ".f1"
				}
			}
			inputBytes = c15InputBytes(k, extra)
			min := dflt + input*int64(inputBytes)
			var limit int64
			switch g.Intn(8) {
			case 0:
				limit = min
			case 1:
				limit = min + call
			case 2:
				limit = min - 1
				if g.Intn(2) == 0 || limit < 0 {
					limit = min + 1
				}
			case 3:
				limit = invoke + int64(g.Intn(3)) - 1
			case 4:
				// fee boundary: limit*price + value around balance
				if price > 0 {
					limit = (bal - value) / price
					limit += int64(g.Intn(3)) - 1
				} else {
					limit = min + 10
				}
			default:
				limit = min + int64(g.Pick(5, 30, 100, 1000, 100000))
			}
			if limit < 0 {
				limit = 0
			}
			if g.Intn(5) != 0 && limit*price+value > bal {
				// mostly affordable, so that blocks pass PreValidate
				if price > 0 && limit > min && (bal-value)/price >= min {
					limit = (bal - value) / price
				} else if bal >= min*price {
					limit = min
					value = (bal - min*price) / int64(1+g.Intn(3))
				}
			}
			if k == "t" {
				g.Emit("tx t %d %d %d %d", from, to, value, limit)
			} else {
				g.Emit("tx %s %d %d %d %d %d %s", k, from, to, value, limit, inputBytes, extra)
			}
			// PreValidate's cumulative arithmetic, then a refund guess
			known[from] -= limit*price + value
			known[to] += value
			if limit > min {
				refund[from] += (limit - min - 2*call) * price
			}
		}
		g.Emit("exec")
		for a := range known {
			if refund[a] > 0 {
				known[a] += refund[a]
			}
			refund[a] = 0
			if known[a] < 0 {
				known[a] = 0
			}
		}
	}
}

func c15Malformed(g *Gen) {
	g.Emit("reset")
	for _, l := range []string{"exec", "tx t 1 2 3 4", "cfg 1 2 3", "cfg 1 10 1 5 1000 0", "tx t 9 1 0 10", "tx c 1 5 0 100 3 zz",
		"tx c 1 5 0 100 1 e1", "tx q 1 2 0 10", "conc 0", "conc 9", "conc x", "conc 2", "tx c 1 5 0 100 36 z1", "tx c 1 5 0 100 35 z", "tx t 1 2 -5 10", "cfg 1 10 1 5 1000 0", "frob", "exec"} {
		g.Emit("%s", l)
	}
}

func c15Gen(g *Gen) {
	for i := 0; i < g.N; i++ {
		if i > 0 {
			g.Emit("reset")
		}
		c15GenCase(g, false)
	}
	c15Malformed(g)
}

func init() {
	Register(&Prop{ID: "C15", Gen: c15Gen, New: c15NewRunner})
}
