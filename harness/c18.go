//go:build c18 || all

package main

// C18: trie proofs are sound and complete. Runner and oracle are shared with
// C17 (c17.go); this file holds the proof-centred generator: random maps,
// proofs of stored / absent keys, single-element proof mutations, proofs for
// other keys and other roots, and crafted (root = hash of arbitrary bytes) proofs.

func init() {
	Register(&Prop{ID: "C18", Gen: c18Gen, New: func() Runner { return c17NewRunner() }})
}

func c18RlpLen(tag byte, n int) []byte {
	if n <= 55 {
		return []byte{tag + byte(n)}
	}
	var l []byte
	for m := n; m > 0; m >>= 8 {
		l = append([]byte{byte(m)}, l...)
	}
	return append([]byte{tag + 55 + byte(len(l))}, l...)
}

func c18RlpBytes(b []byte) []byte {
	if len(b) == 1 && b[0] < 0x80 {
		return []byte{b[0]}
	}
	return append(c18RlpLen(0x80, len(b)), b...)
}

func c18RlpList(items ...[]byte) []byte {
	var p []byte
	for _, it := range items {
		p = append(p, it...)
	}
	return append(c18RlpLen(0xC0, len(p)), p...)
}

func c18EncKeys(tag byte, nibs []byte) []byte {
	var out []byte
	if len(nibs)%2 == 1 {
		out = []byte{tag | 0x10 | nibs[0]}
		nibs = nibs[1:]
	} else {
		out = []byte{tag}
	}
	for i := 0; i+1 < len(nibs); i += 2 {
		out = append(out, nibs[i]<<4|nibs[i+1])
	}
	return out
}

func c18Nibs(k []byte) []byte {
	var n []byte
	for _, b := range k {
		n = append(n, b>>4, b&0xf)
	}
	return n
}

func c18Link(node []byte) []byte {
	if len(node) > 32 {
		return c18RlpBytes(c17Sha3(node))
	}
	return node
}

func c18Branch(children map[int][]byte, value []byte) []byte {
	items := make([][]byte, 17)
	for i := 0; i < 16; i++ {
		if c, ok := children[i]; ok {
			items[i] = c
		} else {
			items[i] = []byte{0x80}
		}
	}
	items[16] = c18RlpBytes(value)
	return c18RlpList(items...)
}

// crafted: root is the hash of bytes chosen by the generator (what a Byzantine
// proposer can do with a part-set root); the decoder must refuse, never crash.
func c18Crafted(g *Gen) {
	key := c17FreshKey(g)
	if len(key) > 6 {
		key = key[:g.Intn(6)]
	}
	nibs := c18Nibs(key)
	val := c17Val(g)
	var items [][]byte
	switch g.Intn(16) {
	case 0: // well-formed single leaf
		items = [][]byte{c18RlpList(c18RlpBytes(c18EncKeys(0x20, nibs)), c18RlpBytes(val))}
	case 1: // empty key header
		items = [][]byte{c18RlpList([]byte{0x80}, c18RlpBytes(val))}
	case 2: // extension whose next is nil
		items = [][]byte{c18RlpList(c18RlpBytes(c18EncKeys(0x00, nibs)), []byte{0x80})}
	case 3: // extension with empty keys to an embedded leaf
		leaf := c18RlpList(c18RlpBytes(c18EncKeys(0x20, nibs)), c18RlpBytes([]byte{1}))
		items = [][]byte{c18RlpList(c18RlpBytes([]byte{0x00}), c18Link(leaf))}
	case 4: // value-less branch, key ends there (F8)
		if len(nibs) > 0 {
			nibs = nibs[:0]
			key = key[:0]
		}
		l1 := c18RlpList(c18RlpBytes(c18EncKeys(0x20, []byte{1})), c18RlpBytes([]byte{1}))
		items = [][]byte{c18Branch(map[int][]byte{1: l1, 2: l1}, nil)}
	case 5: // list with a wrong number of items
		n := g.Pick(0, 1, 3, 16, 18)
		its := make([][]byte, n)
		for i := range its {
			its[i] = []byte{0x80}
		}
		items = [][]byte{c18RlpList(its...)}
	case 6: // not a list at all
		items = [][]byte{c18RlpBytes(val)}
	case 7: // arbitrary bytes
		items = [][]byte{g.Bytes(g.Intn(40))}
	case 8: // leaf whose value is a list
		items = [][]byte{c18RlpList(c18RlpBytes(c18EncKeys(0x20, nibs)), c18RlpList(c18RlpBytes(val)))}
	case 9: // two levels: extension/branch -> hashed leaf, honest
		if len(nibs) >= 2 {
			leaf := c18RlpList(c18RlpBytes(c18EncKeys(0x20, nibs[1:])), c18RlpBytes(g.Bytes(40)))
			root := c18Branch(map[int][]byte{int(nibs[0]): c18Link(leaf)}, nil)
			items = [][]byte{root, leaf}
			if g.Intn(3) == 0 {
				items = append(items, []byte{0xc0})
			}
		} else {
			items = [][]byte{c18Branch(nil, val)}
		}
	case 10: // trailing bytes after the list payload
		it := c18RlpList(c18RlpBytes(c18EncKeys(0x20, nibs)), c18RlpBytes(val))
		items = [][]byte{append(it, g.Bytes(1+g.Intn(3))...)}
	case 11: // non canonical single byte string as value / key
		items = [][]byte{c18RlpList(c18RlpBytes(c18EncKeys(0x20, nibs)), []byte{0x81, byte(g.Intn(128))})}
	case 12: // long-form length with leading zero / too small
		body := append(c18RlpBytes(c18EncKeys(0x20, nibs)), c18RlpBytes(val)...)
		hdr := []byte{0xf8, byte(len(body))}
		if g.Intn(2) == 0 {
			hdr = []byte{0xf9, 0x00, byte(len(body))}
		}
		items = [][]byte{append(hdr, body...)}
	case 13: // branch with a child that is a hash of odd length
		items = [][]byte{c18Branch(map[int][]byte{int(g.Intn(16)): c18RlpBytes(g.Bytes(1 + g.Intn(40)))}, val)}
	case 14: // branch child embedded but malformed deep inside (off the path)
		bad := c18RlpList([]byte{0x80}, []byte{0x80})
		items = [][]byte{c18Branch(map[int][]byte{int(g.Intn(16)): bad}, val)}
	default: // truncated item
		it := c18RlpList(c18RlpBytes(c18EncKeys(0x20, nibs)), c18RlpBytes(val))
		items = [][]byte{it[:g.Intn(len(it))]}
	}
	root := c17Sha3(items[0])
	if g.Intn(10) == 0 {
		root = []byte{}
	}
	s := ""
	for i, it := range items {
		if i > 0 {
			s += ","
		}
		s += hx(it)
	}
	if len(items) == 0 {
		s = "nil"
	}
	g.Emit("provex %s %s %s", hx(root), hx(key), s)
	if g.Intn(4) == 0 {
		g.Emit("provex %s %s nil", hx(root), hx(key))
	}
}

func c18Case(g *Gen, nops int) {
	keys := c17Keys(g, g.Pick(1, 2, 3, 5, 8, 12, 20, 40, 80))
	// build a random map
	for _, k := range keys {
		if g.Intn(5) != 0 {
			g.Emit("set %s %s", hx(k), hx(c17Val(g)))
		}
	}
	snaps := 0
	g.Emit("snap")
	snaps++
	for i := 0; i < nops; i++ {
		x := g.Intn(100)
		k := c17PickKey(g, keys)
		if x >= 19 && g.Intn(6) == 0 {
			// absent key that strictly extends (or is a strict prefix of) a pool key: a verifier
			// that matched leaf keys by prefix would hand out the stored key's value
			k = append([]byte{}, keys[g.Intn(len(keys))]...)
			if g.Intn(4) != 0 || len(k) == 0 {
				k = append(k, g.Bytes(g.Pick(1, 1, 1, 2, 3))...)
				if g.Intn(2) == 0 {
					k[len(k)-1] = 0
				}
			} else {
				k = k[:len(k)-1]
			}
		}
		switch {
		case x < 8:
			g.Emit("set %s %s", hx(k), hx(c17Val(g)))
		case x < 13:
			g.Emit("del %s", hx(k))
		case x < 16:
			g.Emit("snap")
			snaps++
		case x < 19:
			g.Emit([]string{"flush", "reload", "clear"}[g.Intn(3)])
		case x < 27:
			g.Emit("proof %s", hx(k))
		case x < 42:
			g.Emit("prove %s", hx(k))
		case x < 80:
			kind := g.Intn(7)
			ext := g.Bytes(g.Pick(0, 1, 3, 33, 40))
			if g.Intn(3) == 0 {
				ext = []byte{0xc0}
			}
			g.Emit("pmut %s %d %d %d %d %s", hx(k), kind, g.Intn(8), g.Intn(600), g.Intn(255), hx(ext))
		case x < 90:
			g.Emit("pother %s %s", hx(k), hx(c17PickKey(g, keys)))
		case x < 97:
			g.Emit("psnap %d %s", g.Intn(snaps), hx(k))
		default:
			g.Emit("root")
		}
	}
}

// reused verifier: one trie object created from the root hash only, asked to Prove many keys with
// Flush / ClearCache / reload-from-hash in between; then altered proofs for other keys with every
// element position mutated (position 0 = the root node, shared inner branches, the leaf)
func c18CaseVerifier(g *Gen) {
	keys := c17Keys(g, g.Pick(3, 5, 8, 12, 20, 40))
	for _, k := range keys {
		if g.Intn(6) != 0 {
			g.Emit("set %s %s", hx(k), hx(c17Val(g)))
		}
	}
	g.Emit("snap")
	// another root for foreign proofs
	for i := g.Intn(3) + 1; i > 0; i-- {
		g.Emit("set %s %s", hx(c17PickKey(g, keys)), hx(c17Val(g)))
	}
	g.Emit("vnew")
	mid := []string{"vflush", "vflush", "vflush", "vclear", "vreload"}
	for round := g.Intn(3) + 1; round > 0; round-- {
		// prime the verifier with genuine proofs
		for i := g.Intn(4) + 1; i > 0; i-- {
			g.Emit("vprove %s", hx(keys[g.Intn(len(keys))]))
		}
		for i := g.Intn(3) + 1; i > 0; i-- {
			g.Emit(mid[g.Intn(len(mid))])
		}
		// altered proofs for (other) keys, every position
		for i := g.Intn(6) + 3; i > 0; i-- {
			k := keys[g.Intn(len(keys))]
			pos := g.Pick(0, 0, 0, 1, 1, 2, 3, g.Intn(8))
			switch g.Intn(8) {
			case 0, 1, 2:
				g.Emit("vpmut %s 0 %d %d %d -", hx(k), pos, g.Intn(600), g.Intn(255))
			case 3:
				x := g.Bytes(g.Pick(1, 20, 33, 60))
				if g.Intn(2) == 0 {
					x = []byte{0xc0}
				}
				g.Emit("vpmut %s 7 %d 0 0 %s", hx(k), pos, hx(x))
			case 4:
				g.Emit("vother 0 %s", hx(k))
			case 5:
				g.Emit("vpmut %s %d %d %d %d %s", hx(k), g.Pick(1, 3, 4, 5, 6), pos, g.Intn(600), g.Intn(255), hx(g.Bytes(g.Pick(1, 33))))
			case 6:
				g.Emit("vpmut %s 2 0 0 0 %s", hx(k), hx(g.Bytes(g.Pick(1, 33))))
			default:
				g.Emit("vprove %s", hx(c17PickKey(g, keys)))
			}
		}
	}
}

// deep tries: proofs of 63..97 elements (a branch at every nibble of a 31..48 byte key);
// completeness and mutation at every depth, also on a reused verifier
func c18CaseDeep(g *Gen) {
	base, sibs := c17DeepKeys(g)
	for _, i := range g.R.Perm(len(sibs)) {
		g.Emit("set %s %s", hx(sibs[i]), hx(c17DeepVal(g)))
	}
	g.Emit("set %s %s", hx(base), hx(c17DeepVal(g)))
	deepest := sibs[len(sibs)-1]
	g.Emit("snap")
	g.Emit("proof %s", hx(base))
	g.Emit("prove %s", hx(base))
	g.Emit("prove %s", hx(deepest))
	g.Emit("prove %s", hx(sibs[g.Intn(len(sibs))]))
	g.Emit("prove %s", hx(append(append([]byte{}, base...), byte(g.Intn(256)))))
	g.Emit("pmut %s 0 %d %d %d -", hx(base), g.Intn(200), g.Intn(600), g.Intn(255))
	g.Emit("pmut %s 1 %d 0 0 -", hx(base), g.Intn(200))
	g.Emit("pmut %s 2 0 0 0 c0", hx(deepest))
	g.Emit("vnew")
	g.Emit("vprove %s", hx(base))
	g.Emit("vflush")
	g.Emit("vprove %s", hx(deepest))
	g.Emit("vpmut %s 0 %d %d %d -", hx(base), g.Pick(0, 1, 63, 64, 65, g.Intn(100)), g.Intn(600), g.Intn(255))
	if g.Intn(2) == 0 {
		g.Emit("reload")
		g.Emit("prove %s", hx(base))
	}
}

func c18Gen(g *Gen) {
	for i := 0; i < g.N; i++ {
		g.Emit("reset")
		if g.Intn(6) == 0 {
			for j := g.Intn(8) + 1; j > 0; j-- {
				c18Crafted(g)
			}
			continue
		}
		if i%50 == 7 || g.Intn(40) == 0 {
			// deep tries are rare in random maps: scheduled so that every run has some
			c18CaseDeep(g)
			continue
		}
		if g.Intn(3) == 0 {
			c18CaseVerifier(g)
			continue
		}
		c18Case(g, g.Pick(10, 20, 40, 80))
	}
}
