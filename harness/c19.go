//go:build c19 || all

package main

import (
	"bytes"
	"fmt"
	"regexp"
	"runtime"
	"strconv"
	"strings"
	"sync"
	"time"

	"github.com/icon-project/goloop/common/db"
)

// C19: layered database (common/db/layer_db.go) over db.NewMapDB().
//
// ops (bytes in wire hex, "-" = empty):
//   bset B K V | bdel B K      write directly to the underlying map DB
//   open S B                   slot S := ldb.GetBucket(B)
//   set S K V | del S K        through the handle in slot S
//   get S K | has S K
//   flush 1|0                  ldb.Flush(write)
//   cmp B K                    underlying Get/Has and layered Get/Has (fresh GetBucket)

func init() {
	Register(&Prop{ID: "C19", Gen: c19Gen, New: func() Runner { return newC19Runner() }})
}

// c19ParkDB wraps the backend handed to NewLayerDB.  While `park` is on, every
// GetBucket call is parked inside the backend call until the harness releases it
// (a slow backend open).  Nothing here depends on timing: the harness advances only
// when every goroutine it started is parked, finished, or blocked on a mutex inside
// the layer DB (read off the runtime's goroutine dump).
type c19ParkDB struct {
	db.Database
	mu     sync.Mutex
	park   bool
	parked map[int64]chan struct{} // goroutine id -> release channel
}

var c19GoidRe = regexp.MustCompile(`^goroutine (\d+) \[`)

func c19Goid() int64 {
	buf := make([]byte, 64)
	buf = buf[:runtime.Stack(buf, false)]
	m := c19GoidRe.FindSubmatch(buf)
	id, _ := strconv.ParseInt(string(m[1]), 10, 64)
	return id
}

func (p *c19ParkDB) GetBucket(id db.BucketID) (db.Bucket, error) {
	p.mu.Lock()
	var ch chan struct{}
	if p.park {
		ch = make(chan struct{})
		p.parked[c19Goid()] = ch
	}
	p.mu.Unlock()
	if ch != nil {
		<-ch
	}
	return p.Database.GetBucket(id)
}

func (p *c19ParkDB) isParked(g int64) bool {
	p.mu.Lock()
	defer p.mu.Unlock()
	_, ok := p.parked[g]
	return ok
}

func (p *c19ParkDB) release(g int64) {
	p.mu.Lock()
	ch := p.parked[g]
	delete(p.parked, g)
	p.mu.Unlock()
	close(ch)
}

// one concurrent call made by the harness
type c19Task struct {
	goid atomicInt64
	done atomicBool
	bk   db.Bucket
	err  error
}

type atomicInt64 struct {
	mu sync.Mutex
	v  int64
}

func (a *atomicInt64) set(v int64) { a.mu.Lock(); a.v = v; a.mu.Unlock() }
func (a *atomicInt64) get() int64  { a.mu.Lock(); defer a.mu.Unlock(); return a.v }

type atomicBool struct {
	mu sync.Mutex
	v  bool
}

func (a *atomicBool) set(v bool) { a.mu.Lock(); a.v = v; a.mu.Unlock() }
func (a *atomicBool) get() bool  { a.mu.Lock(); defer a.mu.Unlock(); return a.v }

var c19DumpRe = regexp.MustCompile(`(?m)^goroutine (\d+) \[([^\]]+)\]:`)

// c19BlockedInLayer: goroutine ids that are waiting for a mutex inside common/db layer code.
var c19StackBuf = make([]byte, 1<<18)

func c19BlockedInLayer() map[int64]bool {
	buf := c19StackBuf[:runtime.Stack(c19StackBuf, true)]
	res := map[int64]bool{}
	for _, sec := range strings.Split(string(buf), "\n\n") {
		m := c19DumpRe.FindStringSubmatch(sec)
		if m == nil {
			continue
		}
		st := m[2]
		if (strings.HasPrefix(st, "sync.Mutex.Lock") || strings.HasPrefix(st, "semacquire") || strings.HasPrefix(st, "sync.RWMutex")) &&
			strings.Contains(sec, "common/db.(*layerDB)") {
			id, _ := strconv.ParseInt(m[1], 10, 64)
			res[id] = true
		}
	}
	return res
}

// quiesce waits until every task is parked in the backend, finished, or blocked on the
// layer's lock. Returns false if that state is not reached (never expected).
func (r *c19Runner) quiesce(tasks []*c19Task) bool {
	deadline := time.Now().Add(20 * time.Second)
	stable := 0 // consecutive polls in which the only unfinished, unparked tasks were blocked
	for spin := 0; ; spin++ {
		pending, nBlocked, nParked := false, 0, 0
		var blocked map[int64]bool
		for _, t := range tasks {
			if t.done.get() {
				continue
			}
			g := t.goid.get()
			if g != 0 && r.pdb.isParked(g) {
				nParked++
				continue
			}
			if g != 0 {
				if blocked == nil {
					blocked = c19BlockedInLayer()
				}
				if blocked[g] {
					nBlocked++
					continue
				}
			}
			pending = true
			break
		}
		switch {
		case pending:
			stable = 0
		case nBlocked == 0:
			return true
		case nParked == 0:
			// waiting for a lock nobody parked holds: it is about to be granted
			stable = 0
		default:
			// blocked behind a parked backend call: must be seen unchanged a few times in a row
			stable++
			if stable >= 4 {
				return true
			}
		}
		if time.Now().After(deadline) {
			return false
		}
		if spin < 50 && stable == 0 {
			runtime.Gosched()
		} else {
			time.Sleep(30 * time.Microsecond) // back-off only; no ordering depends on it
		}
	}
}

// runParked starts the calls one after the other (each new one only after the others are
// quiescent), then releases parked backend calls following `order` until all have finished.
func (r *c19Runner) runParked(calls []func(t *c19Task), order []int, o *Oracle) ([]*c19Task, bool) {
	r.pdb.mu.Lock()
	r.pdb.park = true
	r.pdb.mu.Unlock()
	defer func() {
		r.pdb.mu.Lock()
		r.pdb.park = false
		r.pdb.mu.Unlock()
	}()
	var tasks []*c19Task
	maxParked := 0
	for _, c := range calls {
		t := &c19Task{}
		tasks = append(tasks, t)
		c := c
		go func() {
			t.goid.set(c19Goid())
			c(t)
			t.done.set(true)
		}()
		if !r.quiesce(tasks) {
			return tasks, false
		}
	}
	for {
		nParked, allDone := 0, true
		for _, t := range tasks {
			if !t.done.get() {
				allDone = false
				if r.pdb.isParked(t.goid.get()) {
					nParked++
				}
			}
		}
		if nParked > maxParked {
			maxParked = nParked
		}
		if allDone {
			break
		}
		released := false
		for _, i := range order {
			if i < len(tasks) && !tasks[i].done.get() && r.pdb.isParked(tasks[i].goid.get()) {
				r.pdb.release(tasks[i].goid.get())
				released = true
				break
			}
		}
		if !released {
			return tasks, false
		}
		if !r.quiesce(tasks) {
			return tasks, false
		}
	}
	if maxParked > 1 {
		o.Count("concurrent-backend-opens-overlapped")
	}
	return tasks, true
}

type c19Runner struct {
	pdb   *c19ParkDB
	mdb   db.Database
	ldb   db.LayerDB
	slots map[int]db.Bucket
	sbk   map[int]string
	// reference for the property oracle: plain maps
	refBase  map[string][]byte
	refView  map[string][]byte // only meaningful entries; absent = not in view
	universe map[string][2]string
	flushed  bool
	slotGen  map[int]bool // slot was opened before the last commit (stale layer handle)
}

func newC19Runner() *c19Runner {
	m := db.NewMapDB()
	p := &c19ParkDB{Database: m, parked: map[int64]chan struct{}{}}
	return &c19Runner{
		pdb: p,
		mdb: m, ldb: db.NewLayerDB(p),
		slots: map[int]db.Bucket{}, sbk: map[int]string{},
		refBase: map[string][]byte{}, refView: map[string][]byte{},
		universe: map[string][2]string{}, slotGen: map[int]bool{},
	}
}

func c19Key(b, k []byte) string { return string(b) + "\x00|" + fmt.Sprintf("%d", len(b)) + "|" + string(k) }

func c19Show(v []byte) string {
	if v == nil {
		return "nil"
	}
	return hx(v)
}

func (r *c19Runner) touch(b, k []byte) string {
	key := c19Key(b, k)
	r.universe[key] = [2]string{string(b), string(k)}
	return key
}

func (r *c19Runner) baseGet(b, k []byte) ([]byte, bool) {
	bk, err := r.mdb.GetBucket(db.BucketID(b))
	if err != nil {
		panic(err)
	}
	v, err := bk.Get(k)
	if err != nil {
		panic(err)
	}
	h, err := bk.Has(k)
	if err != nil {
		panic(err)
	}
	return v, h
}

func c19Same(a []byte, aok bool, b []byte, bok bool) bool {
	if aok != bok {
		return false
	}
	return !aok || bytes.Equal(a, b)
}

// checkBaseAgainst compares the whole underlying DB (over the universe of keys
// ever touched in this case) with a reference map.
func (r *c19Runner) checkBaseAgainst(o *Oracle, ref map[string][]byte, key, what string) {
	for uk, p := range r.universe {
		v, has := r.baseGet([]byte(p[0]), []byte(p[1]))
		rv, rok := ref[uk]
		o.Check(c19Same(v, has, rv, rok), key, "%s: bucket %x key %x: underlying has=%v value=%x, expected has=%v value=%x", what, p[0], p[1], has, v, rok, rv)
	}
}

func c19Copy(m map[string][]byte) map[string][]byte {
	n := make(map[string][]byte, len(m))
	for k, v := range m {
		n[k] = v
	}
	return n
}

func (r *c19Runner) Step(t []string, o *Oracle) string {
	if len(t) == 0 {
		return "bad-op"
	}
	switch t[0] {
	case "bset":
		if len(t) != 4 {
			return "bad-op"
		}
		b, k, v := unhx(t[1]), unhx(t[2]), unhx(t[3])
		bk, _ := r.mdb.GetBucket(db.BucketID(b))
		if err := bk.Set(k, v); err != nil {
			return "err"
		}
		uk := r.touch(b, k)
		r.refBase[uk] = append([]byte{}, v...)
		if r.flushed {
			r.refView[uk] = r.refBase[uk]
		}
		o.Count("base-direct-write")
		return "ok"
	case "bdel":
		if len(t) != 3 {
			return "bad-op"
		}
		b, k := unhx(t[1]), unhx(t[2])
		bk, _ := r.mdb.GetBucket(db.BucketID(b))
		if err := bk.Delete(k); err != nil {
			return "err"
		}
		uk := r.touch(b, k)
		delete(r.refBase, uk)
		if r.flushed {
			delete(r.refView, uk)
		}
		o.Count("base-direct-write")
		return "ok"
	case "open":
		if len(t) != 3 {
			return "bad-op"
		}
		n, err := strconv.Atoi(t[1])
		if err != nil {
			return "bad-op"
		}
		b := unhx(t[2])
		bk, err := r.ldb.GetBucket(db.BucketID(b))
		if err != nil {
			return "err"
		}
		r.slots[n] = bk
		r.sbk[n] = string(b)
		r.slotGen[n] = !r.flushed
		o.Count("open")
		return "ok"
	case "copen":
		// copen B ORDER S1 S2 [S3]: GetBucket(B) from 2-3 goroutines whose backend opens are
		// parked and released in ORDER; linearised as open S1; open S2; open S3
		if len(t) < 5 || len(t) > 6 {
			return "bad-op"
		}
		b := unhx(t[1])
		var order, slots []int
		for _, c := range t[2] {
			if c < '0' || c > '2' {
				return "bad-op"
			}
			order = append(order, int(c-'0'))
		}
		for _, x := range t[3:] {
			n, err := strconv.Atoi(x)
			if err != nil || n < 0 {
				return "bad-op"
			}
			slots = append(slots, n)
		}
		if len(order) != len(slots) {
			return "bad-op"
		}
		var calls []func(*c19Task)
		for range slots {
			calls = append(calls, func(t *c19Task) { t.bk, t.err = r.ldb.GetBucket(db.BucketID(b)) })
		}
		tasks, ok := r.runParked(calls, order, o)
		o.Check(ok, "harness-concurrency-stuck", "concurrent GetBucket did not reach a quiescent state")
		if !ok {
			return "stuck"
		}
		for i, n := range slots {
			if tasks[i].err != nil {
				return "err"
			}
			r.slots[n] = tasks[i].bk
			r.sbk[n] = string(b)
			r.slotGen[n] = !r.flushed
		}
		// all handles of one bucket id of an uncommitted layer are one overlay
		if !r.flushed {
			for i := 1; i < len(tasks); i++ {
				o.Check(tasks[i].bk == tasks[0].bk, "concurrent-open-distinct-overlays", "GetBucket(%x) from %d goroutines returned different bucket objects for one uncommitted layer", b, len(tasks))
			}
		}
		o.Count("concurrent-open")
		return "ok"
	case "copenflush":
		// copenflush B S W: GetBucket(B) parked inside the backend; Flush(W) meanwhile; release.
		// Linearised as open S B; flush W.
		if len(t) != 4 || (t[3] != "0" && t[3] != "1") {
			return "bad-op"
		}
		b := unhx(t[1])
		n, err := strconv.Atoi(t[2])
		if err != nil || n < 0 {
			return "bad-op"
		}
		write := t[3] == "1"
		wasFlushed := r.flushed
		stuck := false
		var opened *c19Task
		res := r.doFlush(write, func() error {
			var ferr error
			calls := []func(*c19Task){
				func(t *c19Task) { t.bk, t.err = r.ldb.GetBucket(db.BucketID(b)) },
				func(*c19Task) { ferr = r.ldb.Flush(write) },
			}
			tasks, ok := r.runParked(calls, []int{0, 1}, o)
			o.Check(ok, "harness-concurrency-stuck", "GetBucket overlapping Flush did not reach a quiescent state")
			stuck = !ok
			opened = tasks[0]
			return ferr
		}, o)
		if stuck {
			return "stuck"
		}
		if opened.err != nil {
			return "err"
		}
		r.slots[n] = opened.bk
		r.sbk[n] = string(b)
		r.slotGen[n] = !wasFlushed
		o.Count("open-overlapping-flush")
		return res
	case "set", "del", "get", "has":
		if len(t) < 3 {
			return "bad-op"
		}
		n, err := strconv.Atoi(t[1])
		if err != nil {
			return "bad-op"
		}
		bk, ok := r.slots[n]
		if !ok {
			return "bad-op"
		}
		b := []byte(r.sbk[n])
		k := unhx(t[2])
		uk := r.touch(b, k)
		if r.flushed && r.slotGen[n] {
			o.Count("op-through-precommit-handle")
		}
		switch t[0] {
		case "set":
			if len(t) != 4 {
				return "bad-op"
			}
			v := unhx(t[3])
			buf := append([]byte{}, v...)
			if err := bk.Set(k, buf); err != nil {
				return "err"
			}
			// the layer must not alias the caller's buffer
			for i := range buf {
				buf[i] ^= 0xa5
			}
			for i := range k {
				k[i] ^= 0x5a
			}
			r.refView[uk] = v
			if r.flushed {
				r.refBase[uk] = v
				o.Count("write-after-commit")
			} else {
				o.Count("write-pending")
				r.checkBaseAgainst(o, r.refBase, "uncommitted-write-reached-base", "after a pending set")
			}
			return "ok"
		case "del":
			if len(t) != 3 {
				return "bad-op"
			}
			if err := bk.Delete(k); err != nil {
				return "err"
			}
			if r.flushed {
				delete(r.refBase, uk)
				delete(r.refView, uk)
				o.Count("write-after-commit")
			} else {
				r.refView[uk] = nil // tombstone
				o.Count("delete-pending")
				r.checkBaseAgainst(o, r.refBase, "uncommitted-write-reached-base", "after a pending delete")
			}
			return "ok"
		case "get":
			if len(t) != 3 {
				return "bad-op"
			}
			v, err := bk.Get(k)
			if err != nil {
				return "err"
			}
			ev, eok := r.expectView(uk, o)
			o.Check(c19Same(v, v != nil, ev, eok), "view-get-not-overlay", "Get bucket %x key %x = %s, expected present=%v %x", b, k, c19Show(v), eok, ev)
			return c19Show(v)
		default:
			if len(t) != 3 {
				return "bad-op"
			}
			h, err := bk.Has(k)
			if err != nil {
				return "err"
			}
			_, eok := r.expectView(uk, o)
			o.Check(h == eok, "view-has-not-overlay", "Has bucket %x key %x = %v, expected %v", b, k, h, eok)
			return strconv.FormatBool(h)
		}
	case "flush":
		if len(t) != 2 || (t[1] != "0" && t[1] != "1") {
			return "bad-op"
		}
		write := t[1] == "1"
		return r.doFlush(write, func() error { return r.ldb.Flush(write) }, o)
	case "cmp":
		if len(t) != 3 {
			return "bad-op"
		}
		b, k := unhx(t[1]), unhx(t[2])
		uk := r.touch(b, k)
		bv, bh := r.baseGet(b, k)
		lbk, err := r.ldb.GetBucket(db.BucketID(b))
		if err != nil {
			return "err"
		}
		vv, err := lbk.Get(k)
		if err != nil {
			return "err"
		}
		vh, err := lbk.Has(k)
		if err != nil {
			return "err"
		}
		rb, rbok := r.refBase[uk]
		o.Check(c19Same(bv, bh, rb, rbok), "base-unexpected", "underlying bucket %x key %x: has=%v %x, expected has=%v %x", b, k, bh, bv, rbok, rb)
		ev, eok := r.expectView(uk, o)
		o.Check(c19Same(vv, vh, ev, eok), "view-not-overlay", "layer bucket %x key %x: has=%v %s, expected has=%v %x", b, k, vh, c19Show(vv), eok, ev)
		if r.flushed {
			o.Check(c19Same(bv, bh, vv, vh), "committed-view-differs-from-base", "bucket %x key %x: base has=%v %x, view has=%v %x", b, k, bh, bv, vh, vv)
		}
		return fmt.Sprintf("b=%s,%v v=%s,%v", c19Show(bv), bh, c19Show(vv), vh)
	}
	return "bad-op"
}

// doFlush: bookkeeping and property checks around one Flush, however it is executed.
func (r *c19Runner) doFlush(write bool, flush func() error, o *Oracle) string {
	baseBefore := c19Copy(r.refBase)
	viewBefore := map[string][]byte{}
	for uk := range r.universe {
		if v, ok := r.expectView(uk, nil); ok {
			viewBefore[uk] = v
		}
	}
	err := flush()
	if r.flushed {
		// already committed: Flush(true) is a no-op, Flush(false) is refused
		o.Check((err == nil) == write, "flush-after-commit-result", "Flush(%v) after commit returned %v", write, err)
		r.checkBaseAgainst(o, baseBefore, "flush-after-commit-changed-base", "Flush after commit")
		if write {
			o.Count("flush-again-ok")
		} else {
			o.Count("flush-again-refused")
		}
	} else if write {
		o.Check(err == nil, "commit-failed", "Flush(true) returned %v", err)
		r.checkBaseAgainst(o, viewBefore, "commit-base-differs-from-view", "after Flush(true)")
		r.refBase = viewBefore
		r.refView = c19Copy(viewBefore)
		r.flushed = true
		o.Count("flush-commit")
	} else {
		o.Check(err == nil, "discard-failed", "Flush(false) returned %v", err)
		r.checkBaseAgainst(o, baseBefore, "discard-changed-base", "after Flush(false)")
		r.refView = map[string][]byte{}
		o.Count("flush-discard")
	}
	if err != nil {
		return "err"
	}
	return "ok"
}

// expectView: the overlay of the pending writes over the underlying content.
func (r *c19Runner) expectView(uk string, o *Oracle) ([]byte, bool) {
	if r.flushed {
		v, ok := r.refBase[uk]
		return v, ok
	}
	if v, ok := r.refView[uk]; ok {
		if v == nil {
			if o != nil {
				o.Count("read-tombstone")
			}
			return nil, false
		}
		if o != nil {
			o.Count("read-pending-value")
		}
		return v, true
	}
	if o != nil {
		o.Count("read-fallthrough")
	}
	v, ok := r.refBase[uk]
	return v, ok
}

// ---------------------------------------------------------------- generator

func c19Gen(g *Gen) {
	bucketPool := [][]byte{{}, []byte("S"), []byte("T"), []byte("H"), {0x4c, 0x01}, {0x00}}
	for c := 0; c < g.N; c++ {
		g.Emit("reset")
		nb := 1 + g.Intn(4)
		bks := make([][]byte, nb)
		for i := range bks {
			bks[i] = bucketPool[g.Intn(len(bucketPool))]
		}
		nk := 1 + g.Intn(5)
		keys := make([][]byte, nk)
		for i := range keys {
			switch g.Intn(5) {
			case 0:
				keys[i] = []byte{}
			case 1:
				keys[i] = []byte{byte(g.Intn(3))}
			default:
				keys[i] = g.Bytes(1 + g.Intn(3))
			}
		}
		val := func() []byte {
			switch g.Intn(6) {
			case 0:
				return []byte{}
			case 1:
				return []byte{0}
			default:
				return g.Bytes(1 + g.Intn(4))
			}
		}
		rb := func() []byte { return bks[g.Intn(nb)] }
		rk := func() []byte { return keys[g.Intn(nk)] }
		cmpAll := func() {
			for _, b := range bks {
				dup := false
				_ = dup
				for _, k := range keys {
					g.Emit("cmp %s %s", hx(b), hx(k))
				}
			}
		}
		// pre-populate the underlying DB
		for i := g.Intn(6); i > 0; i-- {
			g.Emit("bset %s %s %s", hx(rb()), hx(rk()), hx(val()))
		}
		open := map[int]bool{}
		openSlot := func() {
			s := g.Intn(5)
			g.Emit("open %d %s", s, hx(rb()))
			open[s] = true
		}
		anySlot := func() int {
			for {
				s := g.Intn(5)
				if open[s] {
					return s
				}
			}
		}
		openSlot()
		steps := 4 + g.Intn(40)
		if g.Tier == "thorough" && g.Intn(10) == 0 {
			steps += g.Intn(150)
		}
		for i := 0; i < steps; i++ {
			switch x := g.Intn(100); {
			case x < 10:
				openSlot()
			case x < 40:
				g.Emit("set %d %s %s", anySlot(), hx(rk()), hx(val()))
			case x < 58:
				g.Emit("del %d %s", anySlot(), hx(rk()))
			case x < 70:
				g.Emit("get %d %s", anySlot(), hx(rk()))
			case x < 78:
				g.Emit("has %d %s", anySlot(), hx(rk()))
			case x < 84:
				g.Emit("cmp %s %s", hx(rb()), hx(rk()))
			case x < 87:
				if g.Intn(2) == 0 {
					g.Emit("bset %s %s %s", hx(rb()), hx(rk()), hx(val()))
				} else {
					g.Emit("bdel %s %s", hx(rb()), hx(rk()))
				}
			case x < 91:
				g.Emit("flush %d", g.Intn(2))
				cmpAll()
			case x < 94:
				if g.Intn(3) != 0 {
					// the same bucket opened from 2-3 goroutines at once (often a bucket not opened yet)
					b := rb()
					if g.Intn(2) == 0 {
						b = bucketPool[g.Intn(len(bucketPool))]
						bks = append(bks, b)
						nb++
					}
					n := 2 + g.Intn(2)
					perm := g.R.Perm(n)
					ord := ""
					sl := g.R.Perm(5)[:n]
					args := ""
					for i := 0; i < n; i++ {
						ord += strconv.Itoa(perm[i])
						args += " " + strconv.Itoa(sl[i])
						open[sl[i]] = true
					}
					g.Emit("copen %s %s%s", hx(b), ord, args)
					k := rk()
					g.Emit("set %d %s %s", sl[0], hx(k), hx(val()))
					g.Emit("get %d %s", sl[1], hx(k))
					g.Emit("del %d %s", sl[n-1], hx(k))
					g.Emit("has %d %s", sl[0], hx(k))
					g.Emit("set %d %s %s", sl[1], hx(rk()), hx(val()))
					if g.Intn(2) == 0 {
						g.Emit("flush 1")
						g.Emit("set %d %s %s", sl[0], hx(rk()), hx(val()))
						g.Emit("set %d %s %s", sl[n-1], hx(rk()), hx(val()))
						cmpAll()
					}
				} else {
					// a bucket being opened while the layer is flushed
					b := rb()
					if g.Intn(3) != 0 {
						b = bucketPool[g.Intn(len(bucketPool))]
						bks = append(bks, b)
						nb++
					}
					sl := g.Intn(5)
					open[sl] = true
					g.Emit("copenflush %s %d %d", hx(b), sl, g.Pick(1, 1, 1, 0))
					g.Emit("set %d %s %s", sl, hx(rk()), hx(val()))
					g.Emit("del %d %s", sl, hx(rk()))
					cmpAll()
				}
			default:
				// delete-then-set / set-then-delete on one key, through two handles if possible
				k := rk()
				s := anySlot()
				if g.Intn(2) == 0 {
					g.Emit("del %d %s", s, hx(k))
					g.Emit("set %d %s %s", s, hx(k), hx(val()))
				} else {
					g.Emit("set %d %s %s", s, hx(k), hx(val()))
					g.Emit("del %d %s", s, hx(k))
				}
				g.Emit("get %d %s", s, hx(k))
			}
		}
		g.Emit("flush %d", g.Intn(2))
		cmpAll()
		// a few operations after the final flush (pass-through or fresh layer)
		for i := g.Intn(6); i > 0; i-- {
			switch g.Intn(4) {
			case 0:
				openSlot()
			case 1:
				g.Emit("set %d %s %s", anySlot(), hx(rk()), hx(val()))
			case 2:
				g.Emit("del %d %s", anySlot(), hx(rk()))
			default:
				g.Emit("flush %d", g.Intn(2))
			}
		}
		cmpAll()
	}
	// malformed stream
	g.Emit("reset")
	g.Emit("set 3 01 02")
	g.Emit("flush 2")
	g.Emit("nonsense")
	g.Emit("get 0 01")
	g.Emit("copen 53 01 1")
	g.Emit("copen 53 0 1 2")
	g.Emit("copen 53 03 1 2")
	g.Emit("copenflush 53 1 2")
	g.Emit("copen 53 10 3 4")
	g.Emit("copenflush 54 2 1")
	g.Emit("set 2 01 02")
	g.Emit("cmp 54 01")
}
