//go:build c19 || all

package main

import (
	"bytes"
	"fmt"
	"strconv"

	"github.com/icon-project/goloop/common/db"
)

// C19: layered database (common/db/layer_db.go) over db.NewMapDB().
//
// ops (bytes in wire hex, "-" = empty):
//   bset B K V | bdel B K      write directly to the underlying map DB
//   open S B                   slot S := ldb.GetBucket(B)
//   set S K V | del S K        through the handle in slot S
//   get S K | has S K
//   flush 1|0                  ldb.Flush(write)
//   cmp B K                    underlying Get/Has and layered Get/Has (fresh GetBucket)

func init() {
	Register(&Prop{ID: "C19", Gen: c19Gen, New: func() Runner { return newC19Runner() }})
}

type c19Runner struct {
	mdb   db.Database
	ldb   db.LayerDB
	slots map[int]db.Bucket
	sbk   map[int]string
	// reference for the property oracle: plain maps
	refBase  map[string][]byte
	refView  map[string][]byte // only meaningful entries; absent = not in view
	universe map[string][2]string
	flushed  bool
	slotGen  map[int]bool // slot was opened before the last commit (stale layer handle)
}

func newC19Runner() *c19Runner {
	m := db.NewMapDB()
	return &c19Runner{
		mdb: m, ldb: db.NewLayerDB(m),
		slots: map[int]db.Bucket{}, sbk: map[int]string{},
		refBase: map[string][]byte{}, refView: map[string][]byte{},
		universe: map[string][2]string{}, slotGen: map[int]bool{},
	}
}

func c19Key(b, k []byte) string { return string(b) + "\x00|" + fmt.Sprintf("%d", len(b)) + "|" + string(k) }

func c19Show(v []byte) string {
	if v == nil {
		return "nil"
	}
	return hx(v)
}

func (r *c19Runner) touch(b, k []byte) string {
	key := c19Key(b, k)
	r.universe[key] = [2]string{string(b), string(k)}
	return key
}

func (r *c19Runner) baseGet(b, k []byte) ([]byte, bool) {
	bk, err := r.mdb.GetBucket(db.BucketID(b))
	if err != nil {
		panic(err)
	}
	v, err := bk.Get(k)
	if err != nil {
		panic(err)
	}
	h, err := bk.Has(k)
	if err != nil {
		panic(err)
	}
	return v, h
}

func c19Same(a []byte, aok bool, b []byte, bok bool) bool {
	if aok != bok {
		return false
	}
	return !aok || bytes.Equal(a, b)
}

// checkBaseAgainst compares the whole underlying DB (over the universe of keys
// ever touched in this case) with a reference map.
func (r *c19Runner) checkBaseAgainst(o *Oracle, ref map[string][]byte, key, what string) {
	for uk, p := range r.universe {
		v, has := r.baseGet([]byte(p[0]), []byte(p[1]))
		rv, rok := ref[uk]
		o.Check(c19Same(v, has, rv, rok), key, "%s: bucket %x key %x: underlying has=%v value=%x, expected has=%v value=%x", what, p[0], p[1], has, v, rok, rv)
	}
}

func c19Copy(m map[string][]byte) map[string][]byte {
	n := make(map[string][]byte, len(m))
	for k, v := range m {
		n[k] = v
	}
	return n
}

func (r *c19Runner) Step(t []string, o *Oracle) string {
	if len(t) == 0 {
		return "bad-op"
	}
	switch t[0] {
	case "bset":
		if len(t) != 4 {
			return "bad-op"
		}
		b, k, v := unhx(t[1]), unhx(t[2]), unhx(t[3])
		bk, _ := r.mdb.GetBucket(db.BucketID(b))
		if err := bk.Set(k, v); err != nil {
			return "err"
		}
		uk := r.touch(b, k)
		r.refBase[uk] = append([]byte{}, v...)
		if r.flushed {
			r.refView[uk] = r.refBase[uk]
		}
		o.Count("base-direct-write")
		return "ok"
	case "bdel":
		if len(t) != 3 {
			return "bad-op"
		}
		b, k := unhx(t[1]), unhx(t[2])
		bk, _ := r.mdb.GetBucket(db.BucketID(b))
		if err := bk.Delete(k); err != nil {
			return "err"
		}
		uk := r.touch(b, k)
		delete(r.refBase, uk)
		if r.flushed {
			delete(r.refView, uk)
		}
		o.Count("base-direct-write")
		return "ok"
	case "open":
		if len(t) != 3 {
			return "bad-op"
		}
		n, err := strconv.Atoi(t[1])
		if err != nil {
			return "bad-op"
		}
		b := unhx(t[2])
		bk, err := r.ldb.GetBucket(db.BucketID(b))
		if err != nil {
			return "err"
		}
		r.slots[n] = bk
		r.sbk[n] = string(b)
		r.slotGen[n] = !r.flushed
		o.Count("open")
		return "ok"
	case "set", "del", "get", "has":
		if len(t) < 3 {
			return "bad-op"
		}
		n, err := strconv.Atoi(t[1])
		if err != nil {
			return "bad-op"
		}
		bk, ok := r.slots[n]
		if !ok {
			return "bad-op"
		}
		b := []byte(r.sbk[n])
		k := unhx(t[2])
		uk := r.touch(b, k)
		if r.flushed && r.slotGen[n] {
			o.Count("op-through-precommit-handle")
		}
		switch t[0] {
		case "set":
			if len(t) != 4 {
				return "bad-op"
			}
			v := unhx(t[3])
			buf := append([]byte{}, v...)
			if err := bk.Set(k, buf); err != nil {
				return "err"
			}
			// the layer must not alias the caller's buffer
			for i := range buf {
				buf[i] ^= 0xa5
			}
			for i := range k {
				k[i] ^= 0x5a
			}
			r.refView[uk] = v
			if r.flushed {
				r.refBase[uk] = v
				o.Count("write-after-commit")
			} else {
				o.Count("write-pending")
				r.checkBaseAgainst(o, r.refBase, "uncommitted-write-reached-base", "after a pending set")
			}
			return "ok"
		case "del":
			if len(t) != 3 {
				return "bad-op"
			}
			if err := bk.Delete(k); err != nil {
				return "err"
			}
			if r.flushed {
				delete(r.refBase, uk)
				delete(r.refView, uk)
				o.Count("write-after-commit")
			} else {
				r.refView[uk] = nil // tombstone
				o.Count("delete-pending")
				r.checkBaseAgainst(o, r.refBase, "uncommitted-write-reached-base", "after a pending delete")
			}
			return "ok"
		case "get":
			if len(t) != 3 {
				return "bad-op"
			}
			v, err := bk.Get(k)
			if err != nil {
				return "err"
			}
			ev, eok := r.expectView(uk, o)
			o.Check(c19Same(v, v != nil, ev, eok), "view-get-not-overlay", "Get bucket %x key %x = %s, expected present=%v %x", b, k, c19Show(v), eok, ev)
			return c19Show(v)
		default:
			if len(t) != 3 {
				return "bad-op"
			}
			h, err := bk.Has(k)
			if err != nil {
				return "err"
			}
			_, eok := r.expectView(uk, o)
			o.Check(h == eok, "view-has-not-overlay", "Has bucket %x key %x = %v, expected %v", b, k, h, eok)
			return strconv.FormatBool(h)
		}
	case "flush":
		if len(t) != 2 || (t[1] != "0" && t[1] != "1") {
			return "bad-op"
		}
		write := t[1] == "1"
		baseBefore := c19Copy(r.refBase)
		viewBefore := map[string][]byte{}
		for uk := range r.universe {
			if v, ok := r.expectView(uk, nil); ok {
				viewBefore[uk] = v
			}
		}
		err := r.ldb.Flush(write)
		if r.flushed {
			// already committed: Flush(true) is a no-op, Flush(false) is refused
			o.Check((err == nil) == write, "flush-after-commit-result", "Flush(%v) after commit returned %v", write, err)
			r.checkBaseAgainst(o, baseBefore, "flush-after-commit-changed-base", "Flush after commit")
			if write {
				o.Count("flush-again-ok")
			} else {
				o.Count("flush-again-refused")
			}
		} else if write {
			o.Check(err == nil, "commit-failed", "Flush(true) returned %v", err)
			r.checkBaseAgainst(o, viewBefore, "commit-base-differs-from-view", "after Flush(true)")
			r.refBase = viewBefore
			r.refView = c19Copy(viewBefore)
			r.flushed = true
			o.Count("flush-commit")
		} else {
			o.Check(err == nil, "discard-failed", "Flush(false) returned %v", err)
			r.checkBaseAgainst(o, baseBefore, "discard-changed-base", "after Flush(false)")
			r.refView = map[string][]byte{}
			o.Count("flush-discard")
		}
		if err != nil {
			return "err"
		}
		return "ok"
	case "cmp":
		if len(t) != 3 {
			return "bad-op"
		}
		b, k := unhx(t[1]), unhx(t[2])
		uk := r.touch(b, k)
		bv, bh := r.baseGet(b, k)
		lbk, err := r.ldb.GetBucket(db.BucketID(b))
		if err != nil {
			return "err"
		}
		vv, err := lbk.Get(k)
		if err != nil {
			return "err"
		}
		vh, err := lbk.Has(k)
		if err != nil {
			return "err"
		}
		rb, rbok := r.refBase[uk]
		o.Check(c19Same(bv, bh, rb, rbok), "base-unexpected", "underlying bucket %x key %x: has=%v %x, expected has=%v %x", b, k, bh, bv, rbok, rb)
		ev, eok := r.expectView(uk, o)
		o.Check(c19Same(vv, vh, ev, eok), "view-not-overlay", "layer bucket %x key %x: has=%v %s, expected has=%v %x", b, k, vh, c19Show(vv), eok, ev)
		if r.flushed {
			o.Check(c19Same(bv, bh, vv, vh), "committed-view-differs-from-base", "bucket %x key %x: base has=%v %x, view has=%v %x", b, k, bh, bv, vh, vv)
		}
		return fmt.Sprintf("b=%s,%v v=%s,%v", c19Show(bv), bh, c19Show(vv), vh)
	}
	return "bad-op"
}

// expectView: the overlay of the pending writes over the underlying content.
func (r *c19Runner) expectView(uk string, o *Oracle) ([]byte, bool) {
	if r.flushed {
		v, ok := r.refBase[uk]
		return v, ok
	}
	if v, ok := r.refView[uk]; ok {
		if v == nil {
			if o != nil {
				o.Count("read-tombstone")
			}
			return nil, false
		}
		if o != nil {
			o.Count("read-pending-value")
		}
		return v, true
	}
	if o != nil {
		o.Count("read-fallthrough")
	}
	v, ok := r.refBase[uk]
	return v, ok
}

// ---------------------------------------------------------------- generator

func c19Gen(g *Gen) {
	bucketPool := [][]byte{{}, []byte("S"), []byte("T"), []byte("H"), {0x4c, 0x01}, {0x00}}
	for c := 0; c < g.N; c++ {
		g.Emit("reset")
		nb := 1 + g.Intn(4)
		bks := make([][]byte, nb)
		for i := range bks {
			bks[i] = bucketPool[g.Intn(len(bucketPool))]
		}
		nk := 1 + g.Intn(5)
		keys := make([][]byte, nk)
		for i := range keys {
			switch g.Intn(5) {
			case 0:
				keys[i] = []byte{}
			case 1:
				keys[i] = []byte{byte(g.Intn(3))}
			default:
				keys[i] = g.Bytes(1 + g.Intn(3))
			}
		}
		val := func() []byte {
			switch g.Intn(6) {
			case 0:
				return []byte{}
			case 1:
				return []byte{0}
			default:
				return g.Bytes(1 + g.Intn(4))
			}
		}
		rb := func() []byte { return bks[g.Intn(nb)] }
		rk := func() []byte { return keys[g.Intn(nk)] }
		cmpAll := func() {
			for _, b := range bks {
				dup := false
				_ = dup
				for _, k := range keys {
					g.Emit("cmp %s %s", hx(b), hx(k))
				}
			}
		}
		// pre-populate the underlying DB
		for i := g.Intn(6); i > 0; i-- {
			g.Emit("bset %s %s %s", hx(rb()), hx(rk()), hx(val()))
		}
		open := map[int]bool{}
		openSlot := func() {
			s := g.Intn(5)
			g.Emit("open %d %s", s, hx(rb()))
			open[s] = true
		}
		anySlot := func() int {
			for {
				s := g.Intn(5)
				if open[s] {
					return s
				}
			}
		}
		openSlot()
		steps := 4 + g.Intn(40)
		if g.Tier == "thorough" && g.Intn(10) == 0 {
			steps += g.Intn(150)
		}
		for i := 0; i < steps; i++ {
			switch x := g.Intn(100); {
			case x < 10:
				openSlot()
			case x < 40:
				g.Emit("set %d %s %s", anySlot(), hx(rk()), hx(val()))
			case x < 58:
				g.Emit("del %d %s", anySlot(), hx(rk()))
			case x < 70:
				g.Emit("get %d %s", anySlot(), hx(rk()))
			case x < 78:
				g.Emit("has %d %s", anySlot(), hx(rk()))
			case x < 84:
				g.Emit("cmp %s %s", hx(rb()), hx(rk()))
			case x < 87:
				if g.Intn(2) == 0 {
					g.Emit("bset %s %s %s", hx(rb()), hx(rk()), hx(val()))
				} else {
					g.Emit("bdel %s %s", hx(rb()), hx(rk()))
				}
			case x < 94:
				g.Emit("flush %d", g.Intn(2))
				cmpAll()
			default:
				// delete-then-set / set-then-delete on one key, through two handles if possible
				k := rk()
				s := anySlot()
				if g.Intn(2) == 0 {
					g.Emit("del %d %s", s, hx(k))
					g.Emit("set %d %s %s", s, hx(k), hx(val()))
				} else {
					g.Emit("set %d %s %s", s, hx(k), hx(val()))
					g.Emit("del %d %s", s, hx(k))
				}
				g.Emit("get %d %s", s, hx(k))
			}
		}
		g.Emit("flush %d", g.Intn(2))
		cmpAll()
		// a few operations after the final flush (pass-through or fresh layer)
		for i := g.Intn(6); i > 0; i-- {
			switch g.Intn(4) {
			case 0:
				openSlot()
			case 1:
				g.Emit("set %d %s %s", anySlot(), hx(rk()), hx(val()))
			case 2:
				g.Emit("del %d %s", anySlot(), hx(rk()))
			default:
				g.Emit("flush %d", g.Intn(2))
			}
		}
		cmpAll()
	}
	// malformed stream
	g.Emit("reset")
	g.Emit("set 3 01 02")
	g.Emit("flush 2")
	g.Emit("nonsense")
	g.Emit("get 0 01")
}
