//go:build c27 || all

package main

import (
	"bytes"
	"encoding/json"
	"fmt"
	"strconv"
	"strings"

	"github.com/icon-project/goloop/common/crypto"
	"github.com/icon-project/goloop/common/db"
	"github.com/icon-project/goloop/common/trie/mta"
)

func init() {
	Register(&Prop{ID: "C27", Gen: c27Gen, New: func() Runner { return c27New() }})
}

// ---------------------------------------------------------------- generator

var c27Bounds = []int{0, 1, 2, 3, 4, 5, 6, 7, 8, 9, 10, 11, 12, 13, 15, 16, 17, 31, 32, 33, 63, 64, 65, 100, 127, 128, 129, 255, 256, 257, 300, 511, 512, 513, 600}

type c27GenSt struct {
	g     *Gen
	items [][]byte
	n     int
}

func (s *c27GenSt) add() {
	g := s.g
	if len(s.items) > 0 && g.Intn(8) == 0 {
		// duplicate of an earlier item
		s.g.Emit("%s", string(s.items[g.Intn(len(s.items))]))
	} else {
		var line string
		if g.Intn(3) == 0 {
			line = "addh " + hx(g.Bytes(32))
		} else {
			line = "add " + hx(g.Bytes(g.Pick(0, 1, 5, 20, 32, 64, g.Intn(40))))
		}
		s.items = append(s.items, []byte(line))
		g.Emit("%s", line)
	}
	s.n++
}

func (s *c27GenSt) probe() {
	g := s.g
	switch g.Intn(6) {
	case 0:
		g.Emit("wit %d", g.Pick(0, s.n-1+g.Intn(3), g.Intn(s.n+1), s.n/2))
	case 1, 2, 3:
		if s.n > 0 {
			g.Emit("tamper %d %d %d", g.Pick(0, s.n-1, g.Intn(s.n), g.Intn(s.n)), g.Intn(8), g.Intn(1000))
		}
	case 4:
		// arbitrary witness list, arbitrary element sizes
		k := g.Intn(4)
		ws := []string{}
		for i := 0; i < k; i++ {
			ws = append(ws, "LR"[g.Intn(2):][:1]+hx(g.Bytes(g.Pick(32, 32, 0, 1, 31, 33, 64, 70))))
		}
		w := "-"
		if k > 0 {
			w = strings.Join(ws, ",")
		}
		g.Emit("ver %s %s", hx(g.Bytes(g.Pick(32, 32, 0, 5, 40, 64, 80))), w)
	default:
		g.Emit("shape")
	}
}

// Recover into a fresh object or on the object in use
func c27Recover(g *Gen) {
	if g.Intn(2) == 0 {
		g.Emit("recoverself")
	} else {
		g.Emit("recover")
	}
}

// roll back: append N, Flush, append k more without Flush, Recover on the same object,
// append again, look at every witness; repeated
func c27Rollback(g *Gen) {
	s := &c27GenSt{g: g}
	n := g.Pick(0, 1, 2, 3, 4, 5, 6, 7, 8, 9, 12, 15, 16, 17, g.Intn(40))
	for s.n < n {
		s.add()
	}
	rounds := 1 + g.Intn(4)
	for r := 0; r < rounds; r++ {
		g.Emit("flush")
		committed := s.n
		k := g.Pick(1, 1, 2, 3, 1+g.Intn(8))
		for i := 0; i < k; i++ {
			if g.Intn(2) == 0 {
				s.add()
			} else {
				g.Emit("addq %s", hx(g.Bytes(g.Intn(20))))
				s.n++
			}
		}
		if g.Intn(4) == 0 {
			g.Emit("witall")
		}
		g.Emit("recoverself")
		s.n = committed
		if g.Intn(3) == 0 {
			g.Emit("recoverself")
		}
		g.Emit("shape")
		g.Emit("verall")
		more := 1 + g.Intn(4)
		for i := 0; i < more; i++ {
			s.add()
			g.Emit("wit %d", s.n-1)
		}
		g.Emit("shape")
		g.Emit("roots")
		g.Emit("verall")
	}
	g.Emit("flush")
	g.Emit("recover")
	g.Emit("verall")
}

func c27Negative(x int) int {
	if x < 0 {
		return 0
	}
	return x
}

func c27Sweep(g *Gen, upto int, persist bool, verEvery int) {
	s := &c27GenSt{g: g}
	g.Emit("shape")
	g.Emit("witall")
	if persist {
		g.Emit("flush")
		g.Emit("recover")
	}
	for s.n < upto {
		s.add()
		g.Emit("shape")
		if persist {
			g.Emit("flush")
			if g.Intn(2) == 0 {
				c27Recover(g)
			}
		}
		g.Emit("witall")
		if verEvery > 0 && (s.n%verEvery == 0 || s.n < 40) {
			g.Emit("verall")
		}
	}
}

func c27Random(g *Gen) {
	s := &c27GenSt{g: g}
	target := c27Bounds[g.Intn(len(c27Bounds))]
	if g.Intn(3) == 0 {
		target = g.Intn(80)
	}
	if g.Tier == "quick" && target > 300 && g.Intn(3) != 0 {
		target = g.Intn(300)
	}
	for s.n < target {
		s.add()
		if g.Intn(12) == 0 {
			s.probe()
		}
		if g.Intn(60) == 0 {
			g.Emit("flush")
			if g.Intn(2) == 0 {
				g.Emit("recover")
			}
		}
	}
	g.Emit("shape")
	g.Emit("roots")
	g.Emit("witall")
	g.Emit("verall")
	for i := 0; i < 6; i++ {
		s.probe()
	}
	g.Emit("flush")
	g.Emit("witall")
	c27Recover(g)
	g.Emit("roots")
	g.Emit("witall")
	g.Emit("verall")
	for i := 0; i < 4; i++ {
		s.probe()
	}
	more := g.Intn(20)
	for i := 0; i < more; i++ {
		s.add()
		if g.Intn(4) == 0 {
			s.probe()
		}
	}
	g.Emit("witall")
	g.Emit("verall")
	if g.Intn(4) == 0 {
		// recover without flushing the tail: items after the last flush are gone
		c27Recover(g)
		g.Emit("witall")
		g.Emit("verall")
		s.n = c27Negative(s.n - more)
		for i := 0; i < 5; i++ {
			s.add()
		}
		g.Emit("verall")
	}
	g.Emit("flush")
	g.Emit("recover")
	g.Emit("verall")
}

// appends with nothing in between that could hash a node, then Flush IMMEDIATELY, then look
func c27QuietFlush(g *Gen) {
	rounds := 1 + g.Intn(4)
	n := 0
	for r := 0; r < rounds; r++ {
		k := g.Pick(1, 1, 2, 3, 4, 5, 7, 8, 1+g.Intn(20))
		for i := 0; i < k; i++ {
			last := i == k-1
			// the last item before the flush is mostly AddData (a leaf nobody hashed yet)
			if (last && g.Intn(4) != 0) || (!last && g.Intn(2) == 0) {
				g.Emit("addq %s", hx(g.Bytes(g.Pick(0, 1, 5, 32, 64, g.Intn(40)))))
			} else {
				g.Emit("addhq %s", hx(g.Bytes(32)))
			}
			n++
		}
		g.Emit("flush")
		switch g.Intn(3) {
		case 0:
			g.Emit("verall")
			g.Emit("recover")
			g.Emit("verall")
		case 1:
			g.Emit("recover")
			g.Emit("wit %d", n-1)
			g.Emit("verall")
		default:
			g.Emit("tamper %d 0 0", n-1)
			g.Emit("witall")
		}
	}
	g.Emit("shape")
	g.Emit("roots")
	g.Emit("flush")
	g.Emit("recover")
	g.Emit("verall")
}

// hashes of the wrong size: only compared with the model, no property claimed
func c27Malformed(g *Gen) {
	n := 1 + g.Intn(20)
	for i := 0; i < n; i++ {
		switch g.Intn(3) {
		case 0:
			g.Emit("addh %s", hx(g.Bytes(g.Pick(0, 1, 31, 33, 40, 64, 70))))
		case 1:
			g.Emit("addh %s", hx(g.Bytes(32)))
		default:
			g.Emit("add %s", hx(g.Bytes(g.Intn(10))))
		}
		if g.Intn(3) == 0 {
			g.Emit("tamper %d %d %d", g.Intn(i+1), g.Intn(8), g.Intn(1000))
		}
	}
	g.Emit("roots")
	g.Emit("shape")
	g.Emit("witall")
	g.Emit("verall")
	g.Emit("flush")
	g.Emit("recover")
	g.Emit("roots")
	g.Emit("shape")
	g.Emit("witall")
	g.Emit("addh %s", hx(g.Bytes(32)))
	g.Emit("witall")
	g.Emit("bogus 1")
	g.Emit("wit x")
}

func c27Gen(g *Gen) {
	quick := g.Tier == "quick"
	for c := 0; c < g.N; c++ {
		g.Emit("reset")
		switch {
		case c == 0:
			if quick {
				c27Sweep(g, 200, false, 16)
			} else {
				c27Sweep(g, 600, false, 1)
			}
		case c == 1:
			if quick {
				c27Sweep(g, 130, true, 16)
			} else {
				c27Sweep(g, 600, true, 7)
			}
		case c%10 == 9:
			c27Malformed(g)
		case c%3 == 2:
			c27QuietFlush(g)
		case c%3 == 1:
			c27Rollback(g)
		default:
			c27Random(g)
		}
	}
}

// ------------------------------------------------------------------- runner

type c27Runner struct {
	bk        db.Bucket
	a         *mta.Accumulator
	leaves    [][]byte
	malformed bool
}

func c27New() *c27Runner {
	bk, _ := db.NewMapDB().GetBucket("")
	return &c27Runner{bk: bk, a: &mta.Accumulator{KeyForState: []byte("a"), Bucket: bk}}
}

func c27Wits(ws []mta.Witness) string {
	if len(ws) == 0 {
		return "-"
	}
	ss := make([]string, len(ws))
	for i, w := range ws {
		d := "R"
		if w.Direction == mta.Left {
			d = "L"
		}
		ss[i] = d + hx(w.HashValue)
	}
	return strings.Join(ss, ",")
}

func c27ParseWits(s string) ([]mta.Witness, bool) {
	if s == "-" {
		return nil, true
	}
	var ws []mta.Witness
	for _, e := range strings.Split(s, ",") {
		if len(e) < 2 {
			return nil, false
		}
		var w mta.Witness
		switch e[0] {
		case 'L':
			w.Direction = mta.Left
		case 'R':
			w.Direction = mta.Right
		default:
			return nil, false
		}
		w.HashValue = unhx(e[1:])
		ws = append(ws, w)
	}
	return ws, true
}

func c27Fnv(h uint64, bs ...byte) uint64 {
	for _, b := range bs {
		h = (h ^ uint64(b)) * 1099511628211
	}
	return h
}

func c27Verdict(err error) string {
	if err == nil {
		return "ok"
	}
	if strings.Contains(err.Error(), "GivenWitnessIsNewer") {
		return "newer"
	}
	return "invalid"
}

func c27Roots(hs [][]byte) string {
	if len(hs) == 0 {
		return "none"
	}
	ss := make([]string, len(hs))
	for i, h := range hs {
		ss[i] = hx(h)
	}
	return strings.Join(ss, ",")
}

func c27CloneWits(ws []mta.Witness) []mta.Witness {
	r := make([]mta.Witness, len(ws))
	for i, w := range ws {
		r[i] = mta.Witness{Direction: w.Direction, HashValue: append([]byte(nil), w.HashValue...)}
	}
	return r
}

// independent fold (oracle side): value the witness list evaluates to, for 32 byte elements
func c27Fold(ws []mta.Witness, h []byte) []byte {
	for _, w := range ws {
		if w.Direction == mta.Left {
			h = crypto.SHA3Sum256(append(append([]byte{}, w.HashValue...), h...))
		} else {
			h = crypto.SHA3Sum256(append(append([]byte{}, h...), w.HashValue...))
		}
	}
	return h
}

func (r *c27Runner) oracleOn() bool { return !r.malformed }

func (r *c27Runner) added(w []mta.Witness, leaf []byte, o *Oracle) string {
	r.leaves = append(r.leaves, leaf)
	if r.oracleOn() {
		err := r.a.Verify(w, leaf)
		o.Check(err == nil, "mta-add-witness-rejected", "witness returned by Add #%d does not verify: %v", len(r.leaves)-1, err)
		for _, x := range w {
			o.Check(x.Direction == mta.Left, "mta-add-witness-direction", "Add witness has a RIGHT element")
		}
	}
	return fmt.Sprintf("w %d %s", r.a.Len(), c27Wits(w))
}

func (r *c27Runner) Step(t []string, o *Oracle) (out string) {
	if len(t) == 0 {
		return "bad-op"
	}
	defer func() {
		if e := recover(); e != nil {
			o.Count("panic-" + t[0])
			switch t[0] {
			case "flush":
				o.Check(false, "mta-flush-nil-root", "Flush panics at length %d: %v", r.a.Len(), e)
			case "wit", "witall", "verall", "tamper":
				o.Check(false, "mta-witnessfor-nil-root", "WitnessFor panics at length %d: %v", r.a.Len(), e)
			default:
				o.Check(false, "mta-panic-"+t[0], "panic at length %d: %v", r.a.Len(), e)
			}
			out = "panic"
		}
	}()
	switch {
	case (t[0] == "addq" || t[0] == "addhq") && len(t) == 2:
		// append without the runner touching the accumulator afterwards: no Verify, no root
		// hash, so nodes keep whatever (un)hashed state the code itself left them in
		x := unhx(t[1])
		var w []mta.Witness
		if t[0] == "addq" {
			o.Count("add-data-quiet")
			w = r.a.AddData(x)
			r.leaves = append(r.leaves, crypto.SHA3Sum256(x))
		} else {
			if len(x) != 32 {
				r.malformed = true
			}
			o.Count("add-hash-quiet")
			w = r.a.AddHash(x)
			r.leaves = append(r.leaves, x)
		}
		return fmt.Sprintf("w %d %s", r.a.Len(), c27Wits(w))
	case t[0] == "add" && len(t) == 2:
		d := unhx(t[1])
		o.Count("add-data")
		w := r.a.AddData(d)
		return r.added(w, crypto.SHA3Sum256(d), o)
	case t[0] == "addh" && len(t) == 2:
		h := unhx(t[1])
		if len(h) != 32 {
			r.malformed = true
			o.Count("add-hash-badlen")
		} else {
			o.Count("add-hash")
		}
		w := r.a.AddHash(h)
		return r.added(w, h, o)
	case t[0] == "wit" && len(t) == 2:
		idx, err := strconv.ParseInt(t[1], 10, 64)
		if err != nil || idx < 0 {
			return "bad-op"
		}
		w, err := r.a.WitnessFor(idx)
		if idx >= r.a.Len() {
			o.Count("wit-out-of-range")
			o.Check(err != nil, "mta-witness-out-of-range", "WitnessFor(%d) succeeds at length %d", idx, r.a.Len())
		} else if r.oracleOn() {
			o.Count("wit-in-range")
			o.Check(err == nil, "mta-witnessfor-fails", "WitnessFor(%d) at length %d: %v", idx, r.a.Len(), err)
			if err == nil {
				e2 := r.a.Verify(w, r.leaves[idx])
				o.Check(e2 == nil, "mta-witness-rejected", "WitnessFor(%d) at length %d does not verify: %v", idx, r.a.Len(), e2)
			}
		}
		if err != nil {
			if strings.Contains(err.Error(), "NotFound") {
				return "notfound"
			}
			return "err"
		}
		return "ok " + c27Wits(w)
	case t[0] == "ver" && len(t) == 3:
		ws, ok := c27ParseWits(t[2])
		if !ok {
			return "bad-op"
		}
		o.Count("ver-arbitrary")
		return c27Verdict(r.a.Verify(ws, unhx(t[1])))
	case t[0] == "tamper" && len(t) == 4:
		idx, e1 := strconv.Atoi(t[1])
		kind, e2 := strconv.Atoi(t[2])
		pos, e3 := strconv.Atoi(t[3])
		if e1 != nil || e2 != nil || e3 != nil || idx < 0 || idx >= len(r.leaves) || kind < 0 || pos < 0 {
			return "bad-op"
		}
		w0, err := r.a.WitnessFor(int64(idx))
		if err != nil {
			return "err"
		}
		w := c27CloneWits(w0)
		h := append([]byte(nil), r.leaves[idx]...)
		flag := false // an acceptance would need a hash collision
		if len(w) == 0 && kind != 4 {
			kind = 0
		}
		p := 0
		if len(w) > 0 {
			p = pos % len(w)
		}
		switch kind {
		case 1:
			if len(w[p].HashValue) > 0 {
				w[p].HashValue[pos%len(w[p].HashValue)] ^= 1
				flag = true
			}
		case 2:
			running := c27Fold(w[:p], h)
			flag = !bytes.Equal(running, w[p].HashValue)
			w[p].Direction = 1 - w[p].Direction
		case 3:
			w = append(w[:p], w[p+1:]...)
		case 4:
			if len(h) > 0 {
				h[pos%len(h)] ^= 1
				flag = true
			}
		case 5:
			w = append(w[:p+1], w[p:]...)
		case 6:
			w[p].HashValue = w[p].HashValue[:pos%33%(len(w[p].HashValue)+1)]
		case 7:
			w = append(w, w[0])
		default:
			kind = 0
		}
		o.Count(fmt.Sprintf("tamper-kind-%d", kind))
		res := c27Verdict(r.a.Verify(w, h))
		o.Count("tamper-" + res)
		if r.oracleOn() {
			if kind == 0 {
				o.Check(res == "ok", "mta-witness-rejected", "genuine witness for %d rejected at length %d", idx, r.a.Len())
			}
			if flag {
				o.Check(res != "ok", "mta-tampered-witness-accepted", "tampered (kind %d) witness for %d accepted at length %d", kind, idx, r.a.Len())
			}
		}
		return res
	case t[0] == "witall" && len(t) == 1:
		n := r.a.Len()
		h := uint64(14695981039346656037)
		bad := 0
		for idx := int64(0); idx < n; idx++ {
			w, err := r.a.WitnessFor(idx)
			if err != nil {
				h = c27Fnv(h, 2)
				bad++
				continue
			}
			h = c27Fnv(h, 1)
			for _, x := range w {
				d := byte(1)
				if x.Direction == mta.Left {
					d = 0
				}
				h = c27Fnv(h, d, byte(len(x.HashValue)))
				h = c27Fnv(h, x.HashValue...)
			}
		}
		o.Count("witall")
		if r.oracleOn() {
			o.Check(bad == 0, "mta-witnessfor-fails", "WitnessFor fails for %d of %d indices", bad, n)
		}
		return fmt.Sprintf("all %d %d %d", n, bad, h)
	case t[0] == "verall" && len(t) == 1:
		n := r.a.Len()
		good, bad := 0, 0
		for idx := int64(0); idx < n; idx++ {
			w, err := r.a.WitnessFor(idx)
			if err != nil {
				bad++
				continue
			}
			var leaf []byte
			if int(idx) < len(r.leaves) {
				leaf = r.leaves[idx]
			}
			w2 := mta.HashesToWitness(mta.WitnessesToHashes(w), idx)
			if r.a.Verify(w2, leaf) == nil {
				good++
			} else {
				bad++
			}
		}
		o.Count("verall")
		if r.oracleOn() {
			o.Check(bad == 0, "mta-witness-rejected", "%d of %d witnesses fail (WitnessFor/HashesToWitness/Verify)", bad, n)
		}
		return fmt.Sprintf("verall %d %d %d", n, good, bad)
	case t[0] == "flush" && len(t) == 1:
		o.Count("flush")
		if err := r.a.Flush(); err != nil {
			return "err"
		}
		bs, _ := r.bk.Get([]byte("a"))
		var s struct {
			Roots  [][]byte `json:"roots"`
			Length string   `json:"length"`
		}
		if err := json.Unmarshal(bs, &s); err != nil {
			return "err-json"
		}
		ln, _ := strconv.ParseInt(s.Length, 0, 64)
		if r.oracleOn() {
			// recover into a second accumulator: same length, same witnesses
			b := &mta.Accumulator{KeyForState: []byte("a"), Bucket: r.bk}
			err := b.Recover()
			o.Check(err == nil && b.Len() == r.a.Len(), "mta-recover-length", "Recover: err=%v len=%d want %d", err, b.Len(), r.a.Len())
			diff := 0
			for idx := int64(0); idx < r.a.Len(); idx++ {
				w1, e1 := r.a.WitnessFor(idx)
				w2, e2 := b.WitnessFor(idx)
				if e1 != nil || e2 != nil || c27Wits(w1) != c27Wits(w2) {
					diff++
				} else if b.Verify(w2, r.leaves[idx]) != nil {
					diff++
				}
			}
			o.Check(diff == 0, "mta-recover-witness-differs", "after Flush+Recover %d of %d witnesses differ or fail", diff, r.a.Len())
		}
		return fmt.Sprintf("flushed %d %s", ln, c27Roots(s.Roots))
	case t[0] == "recoverself" && len(t) == 1:
		// Recover() on the SAME, already used object (roll back to the persisted state)
		o.Count("recover-same-object")
		if err := r.a.Recover(); err != nil {
			return "err"
		}
		if int64(len(r.leaves)) > r.a.Len() {
			r.leaves = r.leaves[:r.a.Len()]
		}
		// property: a recovered accumulator is determined by the bucket alone, whatever the
		// object held before: same length, same slots, same root hashes as a fresh object
		f := &mta.Accumulator{KeyForState: []byte("a"), Bucket: r.bk}
		ferr := f.Recover()
		hs, occ := mta.VerifRoots(r.a)
		fh, focc := mta.VerifRoots(f)
		same := ferr == nil && f.Len() == r.a.Len() && len(hs) == len(fh)
		for i := 0; same && i < len(hs); i++ {
			same = occ[i] == focc[i] && bytes.Equal(hs[i], fh[i])
		}
		o.Check(same, "mta-recover-reused-object-differs",
			"Recover on a used object: len=%d roots=%s, a fresh object recovers len=%d roots=%s", r.a.Len(), c27Roots(hs), f.Len(), c27Roots(fh))
		return fmt.Sprintf("recovered %d %d", r.a.Len(), len(hs))
	case t[0] == "recover" && len(t) == 1:
		o.Count("recover")
		b := &mta.Accumulator{KeyForState: []byte("a"), Bucket: r.bk}
		if err := b.Recover(); err != nil {
			return "err"
		}
		r.a = b
		if int64(len(r.leaves)) > b.Len() {
			r.leaves = r.leaves[:b.Len()]
		}
		hs, _ := mta.VerifRoots(b)
		return fmt.Sprintf("recovered %d %d", b.Len(), len(hs))
	case t[0] == "roots" && len(t) == 1:
		hs, _ := mta.VerifRoots(r.a)
		return fmt.Sprintf("roots %d %s", r.a.Len(), c27Roots(hs))
	case t[0] == "shape" && len(t) == 1:
		_, occ := mta.VerifRoots(r.a)
		var sb strings.Builder
		n := r.a.Len()
		okShape := true
		for h, b := range occ {
			if b {
				sb.WriteByte('1')
			} else {
				sb.WriteByte('0')
			}
			if b != (n>>uint(h)&1 == 1) {
				okShape = false
			}
		}
		if n>>uint(len(occ)) != 0 {
			okShape = false
		}
		o.Count("shape")
		o.Check(okShape || !r.oracleOn(), "mta-roots-shape", "root slots %s are not the binary digits of length %d", sb.String(), n)
		return fmt.Sprintf("shape %d %s", n, sb.String())
	}
	return "bad-op"
}
