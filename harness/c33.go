//go:build c33 || all

package main

import (
	"encoding/binary"
	"fmt"
	"sort"
	"strconv"
	"strings"

	"github.com/icon-project/goloop/network"
)

// C33: PacketPool (bucketed recent-hash set) and PeerToPeer.onPacket decision.
//
// ops (a case = ops between two `reset`):
//
//	new <nb> <bl>      NewPacketPool
//	node <nb> <bl>     PeerToPeer with a pool of that geometry, self id 0
//	put <hash> / has <hash> / clear / state
//	pkt <peer> <hasProto> <connType> <role> <src> <dest> <ttl> <hasCb> <hash>

func init() {
	Register(&Prop{ID: "C33", Gen: c33Gen, New: func() Runner { return &c33Runner{} }})
}

type c33Runner struct {
	keepRole bool
	valVer   uint64
	valSet   map[uint64]bool
	valKnown bool
	rnode    *network.VerifC33RelayNode
	peerIDs  []uint64
	peerCT   []uint64
	peerHP   []bool
	peerSeen []map[uint64]bool // hashes each peer has sent us (oracle bookkeeping)
	pool *network.PacketPool
	node *network.VerifC33Node
	nb   int
	bl   int
	// oracle bookkeeping, independent of the model: for every hash the index
	// (count of accepted puts / flood deliveries so far) of its last acceptance
	accepted int
	lastAcc  map[uint64]int
}

func c33ID(n uint64) []byte {
	b := make([]byte, 20)
	binary.BigEndian.PutUint16(b[18:], uint16(n))
	b[0] = 0xc3
	return b
}

func (r *c33Runner) curPool() *network.PacketPool {
	if r.rnode != nil {
		return r.rnode.Pool()
	}
	if r.node != nil {
		return r.node.Pool()
	}
	return r.pool
}

// c33Accept records an acceptance of hash h and checks the retention bound.
func (r *c33Runner) accept(h uint64, o *Oracle, what string) {
	if last, ok := r.lastAcc[h]; ok {
		between := r.accepted - last - 1
		bound := (r.nb - 1) * r.bl
		if r.bl == 0 {
			bound = 0
		}
		o.Check(between >= bound, "c33-"+what+"-twice-within-window",
			"hash %d accepted again after only %d other accepted (bound (%d-1)*%d=%d)", h, between, r.nb, r.bl, bound)
		o.Count(what + "-reaccepted-after-window")
	}
	r.lastAcc[h] = r.accepted
	r.accepted++
}

func (r *c33Runner) Step(t []string, o *Oracle) string {
	if len(t) == 0 {
		return "bad-op"
	}
	u := func(s string, bits int) (uint64, bool) {
		v, err := strconv.ParseUint(s, 10, bits)
		return v, err == nil
	}
	switch t[0] {
	case "new", "node":
		if len(t) != 3 {
			return "bad-op"
		}
		nb, ok1 := u(t[1], 8)
		bl, ok2 := u(t[2], 16)
		if !ok1 || !ok2 {
			return "bad-op"
		}
		r.pool, r.node, r.rnode = nil, nil, nil
		r.nb, r.bl = int(nb), int(bl)
		r.accepted, r.lastAcc = 0, map[uint64]int{}
		if t[0] == "new" {
			r.pool = network.NewPacketPool(uint8(nb), uint16(bl))
		} else {
			if nb == 0 {
				panic("NewPacketPool(0, _)")
			}
			r.node = network.VerifC33NewNode(c33ID(0), uint8(nb), uint16(bl))
		}
		return "ok"
	case "rnode":
		if len(t) != 4 {
			return "bad-op"
		}
		nb, ok1 := u(t[1], 8)
		bl, ok2 := u(t[2], 16)
		role, ok3 := u(t[3], 8)
		if !ok1 || !ok2 || !ok3 || nb == 0 {
			return "bad-op"
		}
		r.pool, r.node = nil, nil
		r.nb, r.bl = int(nb), int(bl)
		r.accepted, r.lastAcc = 0, map[uint64]int{}
		r.rnode = network.VerifC33NewRelayNode(c33ID(0), uint8(nb), uint16(bl), int(role))
		r.peerIDs, r.peerCT, r.peerHP, r.peerSeen = nil, nil, nil, nil
		r.valVer, r.valSet, r.valKnown = 0, nil, false
		return "ok"
	case "peer":
		if len(t) != 4 || r.rnode == nil {
			return "bad-op"
		}
		id, ok1 := u(t[1], 16)
		ct, ok2 := u(t[2], 8)
		hp, ok3 := u(t[3], 1)
		if !ok1 || !ok2 || !ok3 || id == 0 || ct >= 7 {
			return "bad-op"
		}
		for _, x := range r.peerIDs {
			if x == id {
				return "bad-op"
			}
		}
		idx := r.rnode.AddPeer(c33ID(id), int(ct), hp == 1)
		r.peerIDs = append(r.peerIDs, id)
		r.peerCT = append(r.peerCT, ct)
		r.peerHP = append(r.peerHP, hp == 1)
		r.peerSeen = append(r.peerSeen, map[uint64]bool{})
		return fmt.Sprintf("ok %d", idx)
	case "setval":
		if len(t) != 3 || r.rnode == nil {
			return "bad-op"
		}
		ver, ok := u(t[1], 32)
		if !ok {
			return "bad-op"
		}
		var ids [][]byte
		var set []uint64
		if t[2] != "_" {
			for _, x := range strings.Split(t[2], ",") {
				v, ok := u(x, 16)
				if !ok {
					return "bad-op"
				}
				ids = append(ids, c33ID(v))
				set = append(set, v)
			}
		}
		r.rnode.SetValidators(int64(ver), ids)
		if ver > r.valVer {
			// known finding (dedicated keys below): an EMPTY list is stored but revokes no role
			// (PeerIDSet.Clear fires no onUpdate, Merge only when an id was added)
			r.valVer, r.valSet, r.valKnown = ver, map[uint64]bool{}, true
			for _, v := range set {
				r.valSet[v] = true
			}
		}
		o.Count("setval")
		// property: exactly the connected peers of the current validator set carry the root role
		for i, id := range r.peerIDs {
			has := r.rnode.PeerRole(i)&2 == 2
			if r.valKnown && len(r.valSet) == 0 {
				o.Check(!has, "c33-empty-validator-set-keeps-root-role",
					"validator set (version %d) is empty, connected peer %d still has the root role", r.valVer, id)
				continue
			}
			o.Check(!r.valKnown || has == r.valSet[id], "c33-root-role-out-of-sync-with-validator-set",
				"peer %d: root role %v, in current validator set %v", id, has, r.valSet[id])
		}
		return "ok"
	case "rpkt2":
		if len(t) != 7 || r.rnode == nil {
			return "bad-op"
		}
		idx, ok := u(t[1], 16)
		if !ok || int(idx) >= len(r.peerIDs) {
			return "bad-op"
		}
		r.keepRole = true
		defer func() { r.keepRole = false }()
		role := r.rnode.PeerRole(int(idx))
		return r.Step([]string{"rpkt", t[1], strconv.Itoa(role), t[2], t[3], t[4], t[5], t[6]}, o)
	case "rpkt":
		if len(t) != 8 || r.rnode == nil {
			return "bad-op"
		}
		idx, o1 := u(t[1], 16)
		role, o2 := u(t[2], 8)
		src, o3 := u(t[3], 16)
		dest, o4 := u(t[4], 8)
		ttl, o5 := u(t[5], 8)
		hash, o6 := u(t[6], 64)
		rel, o7 := u(t[7], 1)
		if !(o1 && o2 && o3 && o4 && o5 && o6 && o7) || int(idx) >= len(r.peerIDs) || hash == 0 {
			return "bad-op"
		}
		r.peerSeen[idx][hash] = true
		goRole := int(role)
		if r.keepRole {
			goRole = -1 // the role the node itself maintains (SetRole history)
		}
		res, relayed := r.rnode.OnPacketFrom(int(idx), goRole, c33ID(src), byte(dest), byte(ttl), hash, rel == 1)
		if r.keepRole && r.valKnown && len(r.valSet) == 0 && res == "deliver" && dest == 0 && ttl == 0 && r.peerIDs[idx] == src {
			o.Check(false, "c33-broadcast-accepted-after-validator-set-emptied",
				"originator broadcast of peer %d delivered although the validator set (version %d) is empty", src, r.valVer)
		} else if r.keepRole && r.valKnown && res == "deliver" && dest == 0 && ttl == 0 && r.peerIDs[idx] == src {
			o.Check(r.valSet[src], "c33-broadcast-origin-not-in-validator-set",
				"originator broadcast of peer %d delivered, current validator set (version %d) does not contain it", src, r.valVer)
			o.Count("origin-broadcast-by-current-validator")
		}
		o.Count("rpkt-" + res)
		peer := r.peerIDs[idx]
		oneHop := ttl != 0 || dest == 0xFF
		if res == "deliver" {
			o.Check(!oneHop || peer == src, "c33-onehop-from-non-source", "one-hop packet src=%d delivered from peer %d", src, peer)
			o.Check(!(dest == 0 && ttl == 0 && peer == src) || role&2 == 2, "c33-broadcast-origin-without-root-role", "originator broadcast from peer %d role %d delivered", peer, role)
			o.Check(src != 0, "c33-self-src-delivered", "packet with own id as source delivered")
			if !oneHop {
				r.accept(hash, o, "flood")
			}
		}
		o.Check(res != "deliver-again-by-relay", "c33-relay-duplicates-delivery", "relaying handed the packet to the application again")
		o.Check(res != "deliver-wrong" && res != "drop-unknown", "c33-unclassified-outcome", "outcome %s", res)
		// relays: only after a flooded delivery the reactor wanted relayed; never to the source,
		// the sender, or a peer that already sent us this hash; only to peers with the protocol
		o.Check(len(relayed) == 0 || (res == "deliver" && rel == 1 && !oneHop), "c33-relay-without-flood-delivery", "relayed to %v after %s", relayed, res)
		ids := make([]int, 0, len(relayed))
		for _, i := range relayed {
			o.Check(r.peerIDs[i] != src, "c33-relay-to-source", "relayed to the packet's source %d", src)
			o.Check(i != int(idx), "c33-relay-back-to-sender", "relayed back to sender %d", peer)
			o.Check(!r.peerSeen[i][hash], "c33-relay-to-peer-that-has-it", "relayed hash %d to peer %d that sent it before", hash, r.peerIDs[i])
			o.Check(r.peerHP[i], "c33-relay-to-peer-without-protocol", "relayed to peer %d without the protocol", r.peerIDs[i])
			ids = append(ids, int(r.peerIDs[i]))
		}
		if len(relayed) > 0 {
			o.Count("relayed")
			o.Count(fmt.Sprintf("relay-fanout=%d", len(relayed)))
		}
		sort.Ints(ids)
		rs := "-"
		if len(ids) > 0 {
			ss := make([]string, len(ids))
			for i, v := range ids {
				ss[i] = strconv.Itoa(v)
			}
			rs = strings.Join(ss, ",")
		}
		return res + " " + rs
	case "cput":
		p := r.curPool()
		if len(t) != 3 || p == nil {
			return "bad-op"
		}
		h, ok1 := u(t[1], 64)
		g, ok2 := u(t[2], 8)
		if !ok1 || !ok2 || g == 0 || g > 64 {
			return "bad-op"
		}
		had := network.VerifC33PoolContains(p, h)
		n := network.VerifC33ConcurrentPut(p, h, int(g))
		o.Count("cput")
		want := 1
		if had {
			want = 0
		}
		o.Check(n <= want, "c33-concurrent-put-accepts-twice", "%d concurrent Put of hash %d: %d callers told new (expected %d)", g, h, n, want)
		o.Check(n >= want, "c33-concurrent-put-accepts-none", "%d concurrent Put of new hash %d: nobody told new", g, h)
		for i := 0; i < n; i++ {
			r.accept(h, o, "put")
		}
		return fmt.Sprintf("accepted %d", n)
	case "conc":
		if len(t) != 4 || (r.node == nil && r.rnode == nil) {
			return "bad-op"
		}
		g, o1 := u(t[1], 8)
		src, o2 := u(t[2], 16)
		h, o3 := u(t[3], 64)
		if !o1 || !o2 || !o3 || g == 0 || g > 64 || src == 0 || h == 0 {
			return "bad-op"
		}
		nd := r.node
		if r.rnode != nil {
			nd = r.rnode.VerifC33Node
		}
		had := network.VerifC33PoolContains(nd.Pool(), h)
		n := nd.OnPacketConcurrent(int(g), c33ID(src), h)
		o.Count("conc")
		want := 1
		if had {
			want = 0
		}
		o.Check(n <= want, "c33-concurrent-put-accepts-twice", "same flooded packet (hash %d) from %d peers at once: application callback fired %d times (expected %d)", h, g, n, want)
		o.Check(n >= want, "c33-concurrent-delivery-lost", "same flooded packet (hash %d) from %d peers at once: never delivered", h, g)
		for i := 0; i < n; i++ {
			r.accept(h, o, "flood")
		}
		return fmt.Sprintf("delivered %d", n)
	case "cpkt":
		if len(t) != 4 || (r.node == nil && r.rnode == nil) {
			return "bad-op"
		}
		hp, o1 := u(t[1], 1)
		ver, o2 := u(t[2], 8)
		sub, o3 := u(t[3], 16)
		if !o1 || !o2 || !o3 {
			return "bad-op"
		}
		n := r.node
		if r.rnode != nil {
			n = r.rnode.VerifC33Node
		}
		res := n.OnControl(hp == 1, byte(ver), uint16(sub))
		o.Count("cpkt-" + res)
		o.Check(res != "deliver" && res != "pool-touched", "c33-control-packet-reached-application", "control packet: %s", res)
		o.Check(res != "control-unknown", "c33-unclassified-outcome", "outcome %s", res)
		return res
	case "put", "has":
		p := r.curPool()
		if len(t) != 2 || p == nil {
			return "bad-op"
		}
		h, ok := u(t[1], 64)
		if !ok {
			return "bad-op"
		}
		if t[0] == "has" {
			if network.VerifC33PoolContains(p, h) {
				return "1"
			}
			return "0"
		}
		had := network.VerifC33PoolContains(p, h)
		res := network.VerifC33PoolPut(p, h)
		o.Check(res == !had, "c33-put-vs-contains", "Put(%d)=%v but Contains before = %v", h, res, had)
		o.Check(network.VerifC33PoolContains(p, h) || (r.nb == 1 && res), "c33-put-then-absent", "hash %d absent right after Put", h)
		if res {
			o.Count("put-accepted")
			r.accept(h, o, "put")
			return "1"
		}
		o.Count("put-duplicate")
		return "0"
	case "clear":
		p := r.curPool()
		if len(t) != 1 || p == nil {
			return "bad-op"
		}
		p.Clear()
		r.lastAcc = map[uint64]int{}
		o.Count("clear")
		return "ok"
	case "state":
		p := r.curPool()
		if len(t) != 1 || p == nil {
			return "bad-op"
		}
		return network.VerifC33PoolState(p)
	case "pkt":
		if len(t) != 10 || r.node == nil {
			return "bad-op"
		}
		peer, o1 := u(t[1], 16)
		hp, o2 := u(t[2], 1)
		ct, o3 := u(t[3], 8)
		role, o4 := u(t[4], 8)
		src, o5 := u(t[5], 16)
		dest, o6 := u(t[6], 8)
		ttl, o7 := u(t[7], 8)
		cb, o8 := u(t[8], 1)
		hash, o9 := u(t[9], 64)
		if !(o1 && o2 && o3 && o4 && o5 && o6 && o7 && o8 && o9) || ct >= 7 {
			return "bad-op"
		}
		res := r.node.OnPacket(c33ID(peer), hp == 1, int(ct), int(role), c33ID(src), byte(dest), byte(ttl), cb == 1, hash)
		o.Count("pkt-" + res)
		delivered := res == "deliver"
		oneHop := ttl != 0 || dest == 0xFF
		if delivered {
			// property oracle on the real code
			o.Check(!oneHop || peer == src, "c33-onehop-from-non-source", "one-hop packet src=%d delivered from peer %d", src, peer)
			o.Check(!(dest == 0 && ttl == 0 && peer == src) || role&2 == 2, "c33-broadcast-origin-without-root-role", "originator broadcast from peer %d role %d delivered", peer, role)
			o.Check(src != 0, "c33-self-src-delivered", "packet with own id as source delivered")
			o.Check(ct != 0, "c33-undetermined-conn-delivered", "packet from peer with undetermined connection type delivered")
			if !oneHop {
				r.accept(hash, o, "flood")
			}
		}
		o.Check(res != "deliver-wrong" && res != "deliver+close" && res != "drop-unknown", "c33-unclassified-outcome", "outcome %s", res)
		return res
	}
	return "bad-op"
}

// ---- generator ----

func c33Hash(g *Gen, universe int) uint64 {
	if g.Intn(50) == 0 {
		return g.R.Uint64()
	}
	return uint64(g.Intn(universe))
}

func c33GenPool(g *Gen) {
	nb := g.Pick(1, 2, 2, 3, 3, 4, 5, 20)
	bl := g.Pick(1, 1, 2, 3, 4, 5)
	if g.Intn(40) == 0 {
		bl = 0
	}
	steps := 30 + g.Intn(200)
	if g.Intn(25) == 0 {
		nb, bl = 20, 500 // production geometry
		steps = 10600
		if g.Tier == "thorough" {
			steps = 10600 + g.Intn(12000)
		}
	}
	if g.Intn(60) == 0 {
		g.Emit("new 0 %d", bl)
		g.Emit("put 1")
		return
	}
	g.Emit("new %d %d", nb, bl)
	cap := nb*bl + 1
	// universe sizes around the retention window so that re-puts fall just
	// inside / just outside it
	universe := g.Pick(cap/2+1, (nb-1)*bl+1, (nb-1)*bl+2, cap, cap+1, 2*cap+3)
	mode := g.Intn(4)
	seq := uint64(1 << 20)
	var pinned uint64 = 7
	for i := 0; i < steps; i++ {
		switch x := g.Intn(100); {
		case x < 2 && nb != 20:
			g.Emit("clear")
		case x < 6:
			g.Emit("has %d", c33Hash(g, universe))
		case x < 9 && steps < 1000:
			g.Emit("state")
		default:
			switch mode {
			case 0: // random over a small universe
				g.Emit("put %d", c33Hash(g, universe))
			case 1: // cyclic sequence: every hash returns after exactly `universe` puts
				g.Emit("put %d", uint64(i%universe))
			case 2: // fresh hashes with a pinned one re-offered all the time
				if g.Intn(3) == 0 {
					g.Emit("put %d", pinned)
				} else {
					seq++
					g.Emit("put %d", seq)
				}
			default: // bursts of duplicates of recent hashes
				if g.Intn(2) == 0 && seq > 1<<20 {
					back := uint64(g.Intn(universe + 2))
					if back >= seq-(1<<20) {
						back = 0
					}
					g.Emit("put %d", seq-back)
				} else {
					seq++
					g.Emit("put %d", seq)
				}
			}
		}
	}
	g.Emit("state")
}

func c33GenNode(g *Gen) {
	nb := g.Pick(2, 3, 4, 20)
	bl := g.Pick(1, 2, 3, 5)
	g.Emit("node %d %d", nb, bl)
	steps := 20 + g.Intn(150)
	npeers := 2 + g.Intn(4)
	universe := g.Pick((nb-1)*bl, (nb-1)*bl+2, nb*bl+2)
	var recent []string
	for i := 0; i < steps; i++ {
		peer := 1 + g.Intn(npeers)
		src := peer
		switch g.Intn(6) {
		case 0:
			src = 0 // claims this node as source
		case 1, 2:
			src = 1 + g.Intn(npeers+2)
		}
		hasProto, hasCb := 1, 1
		if g.Intn(25) == 0 {
			hasProto = 0
		}
		if g.Intn(25) == 0 {
			hasCb = 0
		}
		connType := 1 + g.Intn(6)
		if g.Intn(12) == 0 {
			connType = 0
		}
		role := g.Pick(0, 1, 2, 3, 2, 0, g.Intn(256))
		dest := g.Pick(0, 0, 0, 1, 2, 0xFF, g.Intn(256))
		ttl := g.Pick(0, 0, 0, 1, 2, g.Intn(256))
		hash := c33Hash(g, universe+1)
		line := fmt.Sprintf("%d %d %d %d %d %d %d", hasProto, connType, role, src, dest, ttl, hasCb)
		if len(recent) > 0 && g.Intn(3) == 0 {
			// the same packet relayed by another peer
			g.Emit("pkt %d %s", peer, recent[g.Intn(len(recent))])
			continue
		}
		full := fmt.Sprintf("%s %d", line, hash)
		recent = append(recent, full)
		if len(recent) > 8 {
			recent = recent[1:]
		}
		g.Emit("pkt %d %s", peer, full)
		if g.Intn(30) == 0 {
			g.Emit("state")
		}
	}
	g.Emit("state")
}

// relay cases: persistent peers of several connection types, the same packet
// arriving through several of them, before and after the pool forgets it
func c33GenRelay(g *Gen) {
	nb := g.Pick(2, 3, 3, 4)
	bl := g.Pick(1, 2, 2, 3)
	selfRole := g.Pick(0, 0, 1, 2, 2, 3)
	g.Emit("rnode %d %d %d", nb, bl, selfRole)
	np := 2 + g.Intn(6)
	friends := 0
	for i := 0; i < np; i++ {
		ct := g.Pick(1, 2, 2, 2, 3, 4, 5, 5, 6, 6, 0)
		if ct == 5 {
			if friends == 3 {
				ct = 2 // at most three friends (selective flooding then takes all of them)
			} else {
				friends++
			}
		}
		hp := 1
		if g.Intn(10) == 0 {
			hp = 0
		}
		g.Emit("peer %d %d %d", i+1, ct, hp)
	}
	window := (nb - 1) * bl
	steps := 15 + g.Intn(60)
	fresh := uint64(1000)
	var recent []string
	for i := 0; i < steps; i++ {
		if g.Intn(12) == 0 {
			g.Emit("cpkt %d %d %d", g.Pick(1, 1, 1, 0), g.Pick(0, 0, 0, 1), g.Pick(0x0700, 0x0800, 0x0900, 0x0A00, 0x0B00, 0x0C00, 0x0100, 0x0D00, g.Intn(65536)))
			continue
		}
		idx := g.Intn(np)
		if len(recent) > 0 && g.Intn(5) < 2 {
			// the same packet again through another (or the same) peer
			g.Emit("rpkt %d %s", idx, recent[g.Intn(len(recent))])
			continue
		}
		src := g.Pick(idx+1, idx+1, 50, 51, 1+g.Intn(np), 0)
		dest := g.Pick(0, 0, 0, 0, 1, 2, 2, 0xFF, 7)
		ttl := g.Pick(0, 0, 0, 0, 0, 1, 2)
		role := g.Pick(0, 1, 2, 2, 3)
		fresh++
		hash := fresh
		if g.Intn(4) == 0 {
			hash = 1000 + uint64(g.Intn(window+3)) + 1
		}
		rel := g.Pick(1, 1, 1, 0)
		body := fmt.Sprintf("%d %d %d %d %d %d", role, src, dest, ttl, hash, rel)
		recent = append(recent, body)
		if len(recent) > window+3 {
			recent = recent[1:]
		}
		g.Emit("rpkt %d %s", idx, body)
	}
	g.Emit("state")
}

// role-change histories: validator sets installed, shrunk, grown, replaced while peers stay
// connected; each connected peer then originates a broadcast
func c33GenRoles(g *Gen) {
	g.Emit("rnode %d %d %d", g.Pick(3, 4), g.Pick(2, 3), g.Pick(0, 0, 2))
	np := 3 + g.Intn(4)
	for i := 0; i < np; i++ {
		g.Emit("peer %d %d 1", i+1, g.Pick(1, 2, 2, 5, 6))
	}
	cur := map[int]bool{}
	emit := func(ver int) {
		var l []string
		for id := 1; id <= np+2; id++ {
			if cur[id] {
				l = append(l, strconv.Itoa(id))
			}
		}
		if len(l) == 0 {
			g.Emit("setval %d _", ver)
		} else {
			g.Emit("setval %d %s", ver, strings.Join(l, ","))
		}
	}
	hash := uint64(9000)
	probe := func() {
		for i := 0; i < np; i++ {
			if g.Intn(3) != 0 {
				hash++
				g.Emit("rpkt2 %d %d 0 0 %d %d", i, i+1, hash, g.Intn(2))
			}
		}
	}
	ver := 0
	for step := 0; step < 3+g.Intn(5); step++ {
		switch g.Intn(5) {
		case 0: // add only
			cur[1+g.Intn(np+2)] = true
		case 1, 2: // remove only
			for id := range cur {
				if g.Intn(2) == 0 {
					delete(cur, id)
				}
			}
		case 3: // replace
			cur = map[int]bool{}
			for id := 1; id <= np+2; id++ {
				if g.Intn(2) == 0 {
					cur[id] = true
				}
			}
		default: // grow and shrink
			cur[1+g.Intn(np)] = true
			delete(cur, 1+g.Intn(np))
		}
		ver++
		if g.Intn(8) == 0 {
			emit(ver - 1) // stale version: ignored
			ver--
		} else {
			emit(ver)
		}
		probe()
	}
	g.Emit("state")
}

// concurrent stress: rounds of the same packet offered by 8 goroutines at once,
// to the pool directly and through onPacket (schedule sampling)
func c33GenConc(g *Gen) {
	nb := g.Pick(3, 4, 20)
	bl := g.Pick(2, 5, 500)
	rounds := 100
	if g.Tier == "thorough" {
		rounds = 300
	}
	if g.Intn(2) == 0 {
		g.Emit("new %d %d", nb, bl)
		for i := 0; i < rounds; i++ {
			h := uint64(5000 + i)
			if g.Intn(6) == 0 && i > 0 {
				h = uint64(5000 + i - 1) // already present: nobody may be told "new"
			}
			g.Emit("cput %d %d", h, g.Pick(8, 8, 8, 2, 16))
		}
	} else {
		g.Emit("node %d %d", nb, bl)
		for i := 0; i < rounds; i++ {
			h := uint64(7000 + i)
			if g.Intn(6) == 0 && i > 0 {
				h = uint64(7000 + i - 1)
			}
			g.Emit("conc %d %d %d", g.Pick(8, 8, 8, 2, 16), 60+g.Intn(3), h)
		}
	}
	g.Emit("state")
}

func c33Gen(g *Gen) {
	for c := 0; c < g.N; c++ {
		if g.Intn(8) == 0 {
			c33GenConc(g)
			g.Emit("reset")
			continue
		}
		if g.Intn(7) == 0 {
			c33GenRoles(g)
			g.Emit("reset")
			continue
		}
		switch g.Intn(5) {
		case 0, 1:
			c33GenPool(g)
		case 2:
			c33GenNode(g)
		default:
			c33GenRelay(g)
		}
		g.Emit("reset")
	}
}
