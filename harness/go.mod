module verifharness

go 1.20

require github.com/icon-project/goloop v0.0.0

require (
	github.com/bshuster-repo/logrus-logstash-hook v0.4.1 // indirect
	github.com/decred/dcrd/dcrec/secp256k1/v4 v4.2.0 // indirect
	github.com/evalphobia/logrus_fluent v0.5.4 // indirect
	github.com/fluent/fluent-logger-golang v1.4.0 // indirect
	github.com/golang/snappy v0.0.0-20180518054509-2e65f85255db // indirect
	github.com/philhofer/fwd v1.0.0 // indirect
	github.com/pkg/errors v0.9.1 // indirect
	github.com/sirupsen/logrus v1.9.3 // indirect
	github.com/syndtr/goleveldb v1.0.0 // indirect
	github.com/tinylib/msgp v1.1.0 // indirect
	github.com/vmihailenco/msgpack/v4 v4.3.13 // indirect
	github.com/vmihailenco/tagparser v0.1.1 // indirect
	golang.org/x/crypto v0.32.0 // indirect
	golang.org/x/sys v0.29.0 // indirect
	gopkg.in/natefinch/lumberjack.v2 v2.2.1 // indirect
)

replace github.com/icon-project/goloop => /repo
