//go:build c30 || all

package main

import (
	"bytes"
	"encoding/binary"
	"fmt"
	"hash/fnv"
	"io"
	"strconv"
	"strings"

	"github.com/icon-project/goloop/network"
)

// C30: P2P packet framing (network/packet.go) through the real
// PacketWriter/PacketReader over a chunking reader.
//
// ops (one case per line):
//   wr  <pkt>+                     write the packets through one PacketWriter -> hex stream
//   rd  <sizes> <hexstream>        read packets from arbitrary bytes until the first error
//   rt  <sizes> <pkt>+             write, then read back over the chunking <sizes>
//   cor <sizes> <pos> <byte> <pkt>+  write, replace stream[pos] by <byte> (must differ), read
// <pkt> = pi:spi:src:dest:ttl:hint:payload:ext ; <sizes> = comma list of chunk sizes, cycled.

func init() {
	Register(&Prop{ID: "C30", Gen: c30Gen, New: func() Runner { return &c30Runner{} }})
}

type c30Pkt struct {
	pi, spi       uint16
	src           []byte
	dest, ttl     byte
	hint          byte
	payload, ext  []byte
}

func (p c30Pkt) String() string {
	return fmt.Sprintf("%d:%d:%s:%d:%d:%d:%s:%s", p.pi, p.spi, hx(p.src), p.dest, p.ttl, p.hint, hx(p.payload), hx(p.ext))
}

func (p c30Pkt) build() *network.Packet {
	return network.VerifC30NewPacket(p.pi, p.spi, p.src, p.dest, p.ttl, p.payload, p.hint, p.ext)
}

const c30PayloadMax = 1024 * 1024

// wireLen is the number of bytes WriteTo emits for the packet.
func (p c30Pkt) wireLen() (l, e int) {
	l = len(p.payload)
	if l > c30PayloadMax {
		l = c30PayloadMax
	}
	e = len(p.ext) & 0x3ff
	return
}

func c30ParsePkt(s string) (p c30Pkt, ok bool) {
	f := strings.Split(s, ":")
	if len(f) != 8 {
		return
	}
	nums := make([]uint64, 6)
	for i, k := range []int{0, 1, 3, 4, 5} {
		v, err := strconv.ParseUint(f[k], 10, 32)
		if err != nil {
			return
		}
		nums[i] = v
	}
	if nums[0] > 0xffff || nums[1] > 0xffff || nums[2] > 255 || nums[3] > 255 || nums[4] > 255 {
		return
	}
	p = c30Pkt{pi: uint16(nums[0]), spi: uint16(nums[1]), dest: byte(nums[2]), ttl: byte(nums[3]), hint: byte(nums[4])}
	p.src, p.payload, p.ext = unhx(f[2]), unhx(f[6]), unhx(f[7])
	if len(p.src) != 20 {
		return
	}
	return p, true
}

func c30ParseSizes(s string) ([]int, bool) {
	var r []int
	pos := false
	for _, t := range strings.Split(s, ",") {
		v, err := strconv.ParseUint(t, 10, 31)
		if err != nil {
			return nil, false
		}
		if v > 0 {
			pos = true
		}
		r = append(r, int(v))
	}
	return r, pos
}

// c30Chunker serves data in the given chunk sizes (cycled); size 0 = (0, nil).
type c30Chunker struct {
	data  []byte
	sizes []int
	i     int
	left  int // rest of the current chunk
	reads int
}

func (c *c30Chunker) Read(p []byte) (int, error) {
	c.reads++
	if len(c.data) == 0 {
		return 0, io.EOF
	}
	if c.left == 0 {
		c.left = c.sizes[c.i%len(c.sizes)]
		c.i++
		if c.left == 0 {
			return 0, nil
		}
	}
	n := c.left
	if n > len(p) {
		n = len(p)
	}
	if n > len(c.data) {
		n = len(c.data)
		c.left = n
	}
	copy(p, c.data[:n])
	c.data = c.data[n:]
	c.left -= n
	return n, nil
}

func c30Write(ps []c30Pkt) ([]byte, error) {
	var buf bytes.Buffer
	pw := network.NewPacketWriter(&buf)
	for _, p := range ps {
		// the packet aliases the caller's payload/ext slices: hand over copies and
		// scribble over them once WritePacket has returned (the bytes are on the stream by then)
		q := p
		q.payload = append([]byte{}, p.payload...)
		q.ext = append([]byte{}, p.ext...)
		q.src = append([]byte{}, p.src...)
		if err := pw.WritePacket(q.build()); err != nil {
			return nil, err
		}
		for _, b := range [][]byte{q.payload, q.ext, q.src} {
			for i := range b {
				b[i] ^= 0xa5
			}
		}
	}
	return buf.Bytes(), nil
}

type c30Got struct {
	pi, spi      uint16
	src          []byte
	dest, ttl    byte
	length       uint32
	hash         uint64
	info         uint16
	payload, ext []byte
}

func (g c30Got) String() string {
	return fmt.Sprintf("%d:%d:%s:%d:%d:%d:%d:%d:%s:%s", g.pi, g.spi, hx(g.src), g.dest, g.ttl, g.length, g.hash, g.info, hx(g.payload), hx(g.ext))
}

// c30Held: a packet returned by ReadPacket that the consumer keeps, with the
// field values it had at the moment it was returned.
type c30Held struct {
	pkt  *network.Packet
	snap c30Got
	big  bool // payload bytes not kept in snap
}

func c30Extract(pkt *network.Packet, deep bool) c30Got {
	var g c30Got
	g.pi, g.spi, g.src, g.dest, g.ttl, g.length, g.hash, g.info, g.payload, g.ext = network.VerifC30Fields(pkt)
	if deep {
		g.src = append([]byte{}, g.src...)
		g.payload = append([]byte{}, g.payload...)
		g.ext = append([]byte{}, g.ext...)
	}
	return g
}

func (h c30Held) unchanged(payloadToo bool) (bool, string) {
	g := c30Extract(h.pkt, false)
	s := h.snap
	switch {
	case !bytes.Equal(g.src, s.src):
		return false, fmt.Sprintf("src %x -> %x", s.src, g.src)
	case g.pi != s.pi || g.spi != s.spi || g.dest != s.dest || g.ttl != s.ttl:
		return false, "protocol/dest/ttl"
	case g.length != s.length || g.hash != s.hash || g.info != s.info:
		return false, "length/hash/extendInfo"
	case len(g.payload) != len(s.payload) || len(g.ext) != len(s.ext):
		return false, "payload/ext length"
	case payloadToo && (!bytes.Equal(g.payload, s.payload) || !bytes.Equal(g.ext, s.ext)):
		return false, "payload/ext bytes"
	}
	return true, ""
}

const c30HeldKey = "held-packet-changed-after-later-reads"

// c30Read reads packets until the first error and KEEPS every returned packet;
// only after the stream is finished are the fields taken from the held packets
// (a consumer that queues packets sees them then), and each is compared with
// what it looked like when ReadPacket returned it.
func (r *c30Runner) read(stream []byte, sizes []int, o *Oracle) ([]c30Got, string) {
	src := &c30Chunker{data: append([]byte{}, stream...), sizes: sizes}
	// reuse one PacketReader across streams (Reset) for every other stream
	var pr *network.PacketReader
	if r != nil && r.pr != nil && len(stream)%2 == 0 {
		pr = r.pr
		pr.Reset(src)
		o.Count("reader-reused-after-Reset")
	} else {
		pr = network.NewPacketReader(src)
		if r != nil {
			r.pr = pr
		}
	}
	var held []c30Held
	st := ""
	for {
		pkt, err := pr.ReadPacket()
		if err != nil {
			st = "err:" + err.Error()
			switch {
			case err == io.EOF:
				st = "eof"
			case strings.HasPrefix(err.Error(), "invalid lengthOfPayload"):
				st = "badlen"
			case strings.HasPrefix(err.Error(), "invalid hashOfPacket"):
				st = "badhash"
			}
			break
		}
		held = append(held, c30Held{pkt: pkt, snap: c30Extract(pkt, true)})
	}
	got := make([]c30Got, len(held))
	for i, h := range held {
		ok, what := h.unchanged(true)
		if o != nil {
			o.Check(ok, c30HeldKey, "packet #%d of %d changed after later packets were read: %s", i, len(held), what)
		}
		got[i] = c30Extract(h.pkt, false)
	}
	if r != nil {
		r.hold(held)
	}
	return got, st
}

// hold keeps the most recent packets across ops (payload bytes only for small ones).
func (r *c30Runner) hold(held []c30Held) {
	for _, h := range held {
		if len(h.snap.payload) > 256 {
			h.snap.payload = make([]byte, len(h.snap.payload)) // length only
			h.big = true
		}
		r.held = append(r.held, h)
	}
	if n := len(r.held); n > 400 {
		r.held = append([]c30Held{}, r.held[n-400:]...)
	}
}

// recheck: packets handed out by earlier ops must still be what they were.
func (r *c30Runner) recheck(o *Oracle) {
	for i, h := range r.held {
		ok, what := h.unchanged(!h.big)
		o.Check(ok, c30HeldKey, "a packet returned %d packets ago (earlier op) changed: %s", len(r.held)-i, what)
		if !ok {
			r.held = nil // report once
			return
		}
	}
}

func c30Show(got []c30Got, st string) string {
	var sb strings.Builder
	for _, g := range got {
		sb.WriteString(g.String())
		sb.WriteByte(' ')
	}
	sb.WriteString(st)
	return sb.String()
}

// c30Same: the received packet carries exactly what was sent.
func c30Same(p c30Pkt, g c30Got) bool {
	l, e := p.wireLen()
	hint, elen := network.VerifC30ExtendInfo(g.info)
	h := fnv.New64a()
	var hdr [30]byte
	binary.BigEndian.PutUint16(hdr[0:], p.pi)
	binary.BigEndian.PutUint16(hdr[2:], p.spi)
	copy(hdr[4:24], p.src)
	hdr[24], hdr[25] = p.dest, p.ttl
	binary.BigEndian.PutUint32(hdr[26:], uint32(l))
	h.Write(hdr[:])
	h.Write(p.payload[:l])
	return g.pi == p.pi && g.spi == p.spi && bytes.Equal(g.src, p.src) && g.dest == p.dest && g.ttl == p.ttl &&
		int(g.length) == l && bytes.Equal(g.payload, p.payload[:l]) && hint == p.hint&0x3f && elen == e &&
		bytes.Equal(g.ext, p.ext[:e]) && g.hash == h.Sum64()
}

type c30Runner struct {
	pr   *network.PacketReader
	held []c30Held
}

func (r *c30Runner) Step(t []string, o *Oracle) string {
	if len(t) < 2 {
		return "bad-op"
	}
	defer r.recheck(o)
	parsePkts := func(ts []string) ([]c30Pkt, bool) {
		if len(ts) == 0 {
			return nil, false
		}
		var ps []c30Pkt
		for _, s := range ts {
			p, ok := c30ParsePkt(s)
			if !ok {
				return nil, false
			}
			ps = append(ps, p)
		}
		return ps, true
	}
	switch t[0] {
	case "wr":
		ps, ok := parsePkts(t[1:])
		if !ok {
			return "bad-op"
		}
		w, err := c30Write(ps)
		if err != nil {
			return "err"
		}
		tot := 0
		for _, p := range ps {
			l, e := p.wireLen()
			tot += 40 + l + e
		}
		o.Check(len(w) == tot, "write-length", "stream of %d bytes, expected %d", len(w), tot)
		o.Count("wr")
		return hx(w)
	case "rd":
		if len(t) != 3 {
			return "bad-op"
		}
		sizes, ok := c30ParseSizes(t[1])
		if !ok {
			return "bad-op"
		}
		got, st := r.read(unhx(t[2]), sizes, o)
		o.Count("rd-" + st)
		// chunking independence on arbitrary input
		got1, st1 := r.read(unhx(t[2]), []int{1}, o)
		o.Check(c30Show(got, st) == c30Show(got1, st1), "chunking-changes-result", "sizes %v: %s ; 1-byte chunks: %s", sizes, st, st1)
		return c30Show(got, st)
	case "rt":
		sizes, ok := c30ParseSizes(t[1])
		if !ok {
			return "bad-op"
		}
		ps, ok := parsePkts(t[2:])
		if !ok {
			return "bad-op"
		}
		w, err := c30Write(ps)
		if err != nil {
			return "err"
		}
		got, st := r.read(w, sizes, o)
		good := st == "eof" && len(got) == len(ps)
		for i := 0; good && i < len(ps); i++ {
			if len(ps[i].ext) > 1023 {
				o.Count("rt-ext-overlong-truncated")
			}
			good = c30Same(ps[i], got[i])
		}
		o.Check(good, "roundtrip-differs", "%d packets written, read back %d packets, status %s (sizes %v)", len(ps), len(got), st, sizes)
		got1, st1 := r.read(w, []int{1}, o)
		o.Check(c30Show(got, st) == c30Show(got1, st1), "chunking-changes-result", "sizes %v vs 1-byte chunks differ", sizes)
		for _, p := range ps {
			switch {
			case len(p.payload) == c30PayloadMax:
				o.Count("rt-payload-exactly-max")
			case len(p.payload) == c30PayloadMax-1:
				o.Count("rt-payload-max-minus-1")
			case len(p.payload) > c30PayloadMax:
				o.Count("rt-payload-over-max-truncated")
			}
		}
		o.Count(fmt.Sprintf("rt-%dpkts", len(ps)))
		return c30Show(got, st)
	case "cor":
		if len(t) < 5 {
			return "bad-op"
		}
		sizes, ok := c30ParseSizes(t[1])
		if !ok {
			return "bad-op"
		}
		pos, err1 := strconv.ParseUint(t[2], 10, 31)
		nb, err2 := strconv.ParseUint(t[3], 10, 31)
		ps, ok := parsePkts(t[4:])
		if err1 != nil || err2 != nil || !ok || nb > 255 {
			return "bad-op"
		}
		w, err := c30Write(ps)
		if err != nil {
			return "err"
		}
		if int(pos) >= len(w) || w[pos] == byte(nb) {
			return "bad-op"
		}
		w[pos] = byte(nb)
		got, st := r.read(w, sizes, o)
		// which packet, which region
		j, off := 0, int(pos)
		for ; j < len(ps); j++ {
			l, e := ps[j].wireLen()
			if off < 40+l+e {
				break
			}
			off -= 40 + l + e
		}
		l, _ := ps[j].wireLen()
		region := ""
		switch {
		case off < 26:
			region = "header"
		case off < 30:
			region = "length"
		case off < 30+l:
			region = "payload"
		case off < 38+l:
			region = "hash"
		case off < 40+l:
			region = "extinfo"
		default:
			region = "ext"
		}
		prefixOK := len(got) >= j
		for i := 0; prefixOK && i < j; i++ {
			prefixOK = c30Same(ps[i], got[i])
		}
		o.Check(prefixOK, "corruption-loses-earlier-packets", "corruption in packet %d (%s) but earlier packets not delivered intact", j, region)
		switch region {
		case "header", "payload", "hash":
			o.Check(len(got) == j && st == "badhash", "corrupt-"+region+"-accepted",
				"byte %d (packet %d, %s region) altered: read %d packets, status %s; want %d packets then badhash", pos, j, region, len(got), st, j)
		case "length":
			// not guaranteed by the format (see Props/C30 length_field_corruption_*): the
			// reader re-frames the stream; the property as written wants a rejection.
			acc := len(got) > j
			o.Check(!acc, "length-field-corruption-accepted",
				"length byte %d of packet %d altered: reader accepted a packet with a %d-byte payload that was never sent", pos, j, func() int {
					if acc {
						return int(got[j].length)
					}
					return 0
				}())
			o.Count("length-corruption-" + st)
		case "extinfo", "ext":
			// outside "header or payload": not covered by the hash (stated in Props/C30)
			if len(got) > j {
				o.Count(region + "-corruption-accepted")
			} else {
				o.Count(region + "-corruption-" + st)
			}
		}
		o.Count("cor-" + region)
		return c30Show(got, st)
	}
	return "bad-op"
}

// ---------------------------------------------------------------- generator

func c30GenPkt(g *Gen, small bool) c30Pkt {
	p := c30Pkt{src: g.Bytes(20)}
	p.pi = uint16(g.Pick(0, 1, 0xff, 0x100, 0xffff, g.Intn(65536)))
	p.spi = uint16(g.Pick(0, 1, 0x8000, 0xffff, g.Intn(65536)))
	p.dest = byte(g.Pick(0, 1, 2, 0xff, g.Intn(256)))
	p.ttl = byte(g.Pick(0, 1, 0xff, g.Intn(256)))
	p.hint = byte(g.Pick(0, 0, 1, 63, 64, 255, g.Intn(256)))
	var n int
	if small {
		n = g.Pick(0, 1, 2, 3, g.Intn(24))
	} else {
		switch g.Intn(20) {
		case 0:
			n = g.Pick(4055, 4056, 4057, 4095, 4096, 4097, 8192)
		case 1:
			n = g.Pick(255, 256, 257, 65535, 65536)
			if g.Tier == "quick" && n > 300 {
				n = 300
			}
		case 2:
			if g.Tier == "thorough" && g.Intn(12) == 0 {
				n = g.Pick(c30PayloadMax-1, c30PayloadMax, c30PayloadMax+1)
			} else {
				n = 1000 + g.Intn(3000)
			}
		default:
			n = g.Pick(0, 1, 2, 39, 40, 41, g.Intn(200))
		}
	}
	p.payload = g.Bytes(n)
	if n > 0 && g.Intn(8) == 0 {
		// payloads that look like framing
		for i := range p.payload {
			p.payload[i] = byte(g.Pick(0, 0, 0xff, 1))
		}
	}
	e := 0
	if small {
		e = g.Pick(0, 0, 1, 4, 5)
	} else {
		switch g.Intn(12) {
		case 0:
			e = g.Pick(1023, 1024, 1025, 2047)
		case 1, 2, 3:
			e = g.Pick(1, 4, 8, 12, 4*g.Intn(20))
		}
	}
	p.ext = g.Bytes(e)
	return p
}

func c30GenSizes(g *Gen) string {
	k := 1 + g.Intn(4)
	var s []string
	pos := false
	for i := 0; i < k; i++ {
		v := g.Pick(1, 1, 2, 3, 7, 29, 30, 31, 39, 40, 41, 4095, 4096, 4097, 100000, g.Intn(64), 0)
		if v > 0 {
			pos = true
		}
		s = append(s, strconv.Itoa(v))
	}
	if !pos {
		s = append(s, "5")
	}
	return strings.Join(s, ",")
}

// c30SizesFor: chunk sizes for a stream of these packets. The model's `_read`
// transcription appends chunk by chunk (quadratic in the number of chunks per
// read), so streams with a huge payload are only cut into large chunks.
func c30SizesFor(g *Gen, ps []c30Pkt) string {
	sz := c30GenSizes(g)
	for _, p := range ps {
		if len(p.payload) > 20000 {
			sz = []string{"4096", "65536,4097", "100000", "8191,0,70000"}[g.Intn(4)]
		}
	}
	return sz
}

func c30PktList(ps []c30Pkt) string {
	var s []string
	for _, p := range ps {
		s = append(s, p.String())
	}
	return strings.Join(s, " ")
}

// c30Crafted: two packets A (empty payload) and B such that altering only the
// last length byte of A from 0 to k makes the reader accept a k-byte payload.
func c30Crafted(g *Gen) (ps []c30Pkt, pos int, nb int) {
	a := c30GenPkt(g, true)
	a.payload, a.ext = nil, nil
	b := c30GenPkt(g, true)
	b.ext = nil
	k := 40 + g.Intn(60)
	extra := g.Intn(12)
	b.payload = g.Bytes(k - 30 + extra)
	// the stream with any B payload fixes everything the forged hash covers
	w, _ := c30Write([]c30Pkt{a, b})
	w[29] = byte(k)
	h := fnv.New64a()
	h.Write(w[:30+k])
	binary.BigEndian.PutUint64(b.payload[k-40:], h.Sum64())
	b.payload[k-40+8], b.payload[k-40+9] = 0, 0
	return []c30Pkt{a, b}, 29, k
}

// c30MaxCases: round trips at the payload maximum (every run, quick included):
// exactly DefaultPacketPayloadMax must be written AND accepted by the reader,
// max-1 likewise, max+1 is cut to max by NewPacket. Large chunks only (model cost).
func c30MaxCases(g *Gen) int {
	lens := []int{c30PayloadMax, g.Pick(c30PayloadMax-1, c30PayloadMax+1)}
	if g.Tier == "thorough" {
		lens = []int{c30PayloadMax, c30PayloadMax - 1, c30PayloadMax + 1}
	}
	for _, n := range lens {
		p := c30GenPkt(g, true)
		p.payload = g.Bytes(n)
		sz := []string{"65536", "100000", "65536,131072", "1048616"}[g.Intn(4)]
		g.Emit("rt %s %s", sz, p.String())
	}
	return len(lens)
}

// c30ManySources: one stream of 101..300 tiny packets, each from a different source
// (more sources than any id cache holds); all packets are held until the stream ends.
func c30ManySources(g *Gen) {
	n := 101 + g.Intn(200)
	ps := make([]c30Pkt, n)
	for i := range ps {
		ps[i] = c30GenPkt(g, true)
		ps[i].payload = g.Bytes(g.Intn(3))
		ps[i].ext = nil
		if g.Intn(10) == 0 && i > 0 {
			ps[i].src = ps[g.Intn(i)].src // some sources come back
		}
	}
	g.Emit("rt %s %s", c30GenSizes(g), c30PktList(ps))
}

func c30Gen(g *Gen) {
	emitted := c30MaxCases(g)
	c30ManySources(g)
	emitted++
	for emitted < g.N {
		switch r := g.Intn(100); {
		case r < 1:
			c30ManySources(g)
			emitted++
		case r < 30:
			n := 1 + g.Intn(4)
			var ps []c30Pkt
			for i := 0; i < n; i++ {
				ps = append(ps, c30GenPkt(g, false))
			}
			g.Emit("rt %s %s", c30SizesFor(g, ps), c30PktList(ps))
			emitted++
		case r < 38:
			n := 1 + g.Intn(3)
			var ps []c30Pkt
			for i := 0; i < n; i++ {
				ps = append(ps, c30GenPkt(g, g.Intn(2) == 0))
			}
			g.Emit("wr %s", c30PktList(ps))
			emitted++
		case r < 48:
			// every single-byte position of a short stream
			n := 1 + g.Intn(3)
			var ps []c30Pkt
			for i := 0; i < n; i++ {
				ps = append(ps, c30GenPkt(g, true))
			}
			w, _ := c30Write(ps)
			sz := c30GenSizes(g)
			for pos := range w {
				nb := int(w[pos]) ^ (1 << uint(g.Intn(8)))
				if g.Intn(3) == 0 {
					nb = (int(w[pos]) + 1 + g.Intn(255)) % 256
				}
				g.Emit("cor %s %d %d %s", sz, pos, nb, c30PktList(ps))
				emitted++
			}
		case r < 62:
			// random position, larger packets
			n := 1 + g.Intn(3)
			var ps []c30Pkt
			for i := 0; i < n; i++ {
				ps = append(ps, c30GenPkt(g, g.Intn(3) != 0))
			}
			w, _ := c30Write(ps)
			pos := g.Intn(len(w))
			nb := (int(w[pos]) + 1 + g.Intn(255)) % 256
			g.Emit("cor %s %d %d %s", c30SizesFor(g, ps), pos, nb, c30PktList(ps))
			emitted++
		case r < 64:
			ps, pos, nb := c30Crafted(g)
			g.Emit("cor %s %d %d %s", c30GenSizes(g), pos, nb, c30PktList(ps))
			emitted++
		default:
			// arbitrary / damaged streams
			var w []byte
			switch g.Intn(6) {
			case 0:
				w = g.Bytes(g.Pick(0, 1, 29, 30, 31, 39, 40, 41, g.Intn(120)))
			case 1, 2:
				ps := []c30Pkt{c30GenPkt(g, true), c30GenPkt(g, true)}
				w, _ = c30Write(ps)
				w = w[:g.Intn(len(w)+1)]
			case 3:
				ps := []c30Pkt{c30GenPkt(g, true)}
				w, _ = c30Write(ps)
				w = append(w, g.Bytes(g.Intn(50))...)
			case 4:
				// header with a length around the maximum, little data
				w = g.Bytes(30 + g.Intn(30))
				binary.BigEndian.PutUint32(w[26:], uint32(g.Pick(c30PayloadMax-1, c30PayloadMax, c30PayloadMax+1, 0xffffffff, 0x80000000, 5)))
			default:
				// all zero header: hash of 30 zero bytes needed; mostly badhash
				w = make([]byte, 40+g.Intn(10))
			}
			g.Emit("rd %s %s", c30GenSizes(g), hx(w))
			emitted++
		}
	}
}
