//go:build c20 || all

package main

import (
	"bytes"
	"fmt"
	"sort"
	"strings"

	"github.com/icon-project/goloop/common/crypto"
	"github.com/icon-project/goloop/common/db"
	"github.com/icon-project/goloop/common/merkle"
	"github.com/icon-project/goloop/common/trie/ompt"
)

func init() {
	Register(&Prop{ID: "C20", Gen: c20Gen, New: func() Runner { return &c20Runner{} }})
}

// ---- independent parser of trie node payloads (does not use the repo's codec) ----

// c20Items splits an RLP list payload into its raw items; ok=false if malformed.
func c20Items(b []byte) (items [][]byte, ok bool) {
	hdr, plen, ok := c20Hdr(b)
	if !ok || b[0] < 0xc0 || hdr+plen != len(b) {
		return nil, false
	}
	p := b[hdr:]
	for len(p) > 0 {
		h, l, ok := c20Hdr(p)
		if !ok || h+l > len(p) {
			return nil, false
		}
		items = append(items, p[:h+l])
		p = p[h+l:]
	}
	return items, true
}

// c20Hdr returns header length and payload length of the item starting at b.
func c20Hdr(b []byte) (int, int, bool) {
	if len(b) == 0 {
		return 0, 0, false
	}
	t := b[0]
	switch {
	case t < 0x80:
		return 0, 1, true
	case t <= 0xb7:
		return 1, int(t - 0x80), true
	case t < 0xc0:
		n := int(t - 0xb7)
		if len(b) < 1+n {
			return 0, 0, false
		}
		l := 0
		for _, x := range b[1 : 1+n] {
			l = l<<8 | int(x)
		}
		return 1 + n, l, true
	case t <= 0xf7:
		return 1, int(t - 0xc0), true
	default:
		n := int(t - 0xf7)
		if len(b) < 1+n {
			return 0, 0, false
		}
		l := 0
		for _, x := range b[1 : 1+n] {
			l = l<<8 | int(x)
		}
		return 1 + n, l, true
	}
}

// c20Refs: hashes of children that are hash links, in child order.
func c20Refs(payload []byte) ([][]byte, bool) {
	items, ok := c20Items(payload)
	if !ok {
		return nil, false
	}
	link := func(it []byte) []byte {
		if len(it) == 33 && it[0] == 0xa0 {
			return it[1:]
		}
		return nil
	}
	var refs [][]byte
	switch len(items) {
	case 17:
		for _, it := range items[:16] {
			if h := link(it); h != nil {
				refs = append(refs, h)
			}
		}
	case 2:
		h, l, _ := c20Hdr(items[0])
		if l == 0 {
			return nil, false
		}
		if items[0][h]&0x20 == 0 { // extension
			if hh := link(items[1]); hh != nil {
				refs = append(refs, hh)
			}
		}
	default:
		return nil, false
	}
	return refs, true
}

func c20RefsWire(payload []byte) string {
	refs, ok := c20Refs(payload)
	if !ok {
		return "X"
	}
	if len(refs) == 0 {
		return "-"
	}
	ss := make([]string, len(refs))
	for i, r := range refs {
		ss[i] = hx(r)
	}
	return strings.Join(ss, ",")
}

// ---- recording database: every Set that reaches the destination store is logged ----

type c20RecDB struct {
	db.Database
	sets map[db.BucketID]map[string][]byte
}

type c20RecBucket struct {
	db.Bucket
	id  db.BucketID
	rec *c20RecDB
}

func (d *c20RecDB) GetBucket(id db.BucketID) (db.Bucket, error) {
	bk, err := d.Database.GetBucket(id)
	if err != nil {
		return nil, err
	}
	return &c20RecBucket{bk, id, d}, nil
}

func (b *c20RecBucket) Set(k, v []byte) error {
	m := b.rec.sets[b.id]
	if m == nil {
		m = map[string][]byte{}
		b.rec.sets[b.id] = m
	}
	m[string(k)] = append([]byte{}, v...)
	return b.Bucket.Set(k, v)
}

// ---- source trie helper ----

type c20Source struct {
	pairs map[string][]byte
	nodes map[string][]byte // hash -> payload, every node reachable from root
	root  []byte
}

func c20BuildSource(pairs map[string][]byte) *c20Source {
	rec := &c20RecDB{Database: db.NewMapDB(), sets: map[db.BucketID]map[string][]byte{}}
	mt := ompt.NewMutable(rec, nil)
	keys := make([]string, 0, len(pairs))
	for k := range pairs {
		keys = append(keys, k)
	}
	sort.Strings(keys)
	for _, k := range keys {
		if _, err := mt.Set([]byte(k), pairs[k]); err != nil {
			panic(err)
		}
	}
	ss := mt.GetSnapshot()
	if err := ss.Flush(); err != nil {
		panic(err)
	}
	s := &c20Source{pairs: pairs, nodes: rec.sets[db.MerkleTrie], root: ss.Hash()}
	if s.nodes == nil {
		s.nodes = map[string][]byte{}
	}
	return s
}

// ---- generator ----

func c20Key(g *Gen) []byte {
	// short keys with shared prefixes produce branches/extensions with embedded and hashed children
	n := g.Pick(1, 2, 2, 3, 4, 8, 20, 32)
	k := make([]byte, n)
	for i := range k {
		k[i] = byte(g.Pick(0x00, 0x01, 0x10, 0x11, 0x12, 0xab, 0xff, g.Intn(256)))
	}
	return k
}

func c20Gen(g *Gen) {
	for c := 0; c < g.N; c++ {
		g.Emit("reset")
		np := g.Pick(0, 1, 2, 3, 5, 8, 13, 30, 60)
		if g.Tier == "thorough" && g.Intn(4) == 0 {
			np = 100 + g.Intn(300)
		}
		pairs := map[string][]byte{}
		for i := 0; i < np; i++ {
			v := g.Bytes(g.Pick(1, 1, 2, 5, 20, 31, 32, 33, 40, 70))
			pairs[string(c20Key(g))] = v
		}
		for k, v := range pairs {
			_ = k
			_ = v
		}
		keys := make([]string, 0, len(pairs))
		for k := range pairs {
			keys = append(keys, k)
		}
		sort.Strings(keys)
		for _, k := range keys {
			g.Emit("src %s %s", hx([]byte(k)), hx(pairs[k]))
		}
		src := c20BuildSource(pairs)
		g.Emit("begin %s", hx(src.root))
		// frontier computed with the harness's own parser, independent of the builder
		frontier := [][]byte{}
		inFrontier := map[string]bool{}
		done := map[string]bool{}
		if src.root != nil {
			frontier = append(frontier, src.root)
			inFrontier[string(src.root)] = true
		}
		allHashes := make([]string, 0, len(src.nodes))
		for h := range src.nodes {
			allHashes = append(allHashes, h)
		}
		sort.Strings(allHashes)
		stopEarly := g.Intn(6) == 0
		for len(frontier) > 0 {
			if stopEarly && g.Intn(4) == 0 {
				break
			}
			switch g.Intn(10) {
			case 0: // forged / arbitrary payload
				g.Emit("data %s", hx(g.Bytes(g.Pick(1, 5, 33, 60))))
				continue
			case 1: // genuine node that is not (or no longer) requested: duplicate or premature
				if len(allHashes) > 0 {
					h := allHashes[g.Intn(len(allHashes))]
					if !inFrontier[h] {
						g.Emit("data %s", hx(src.nodes[h]))
					}
				}
				continue
			case 2: // a requested node with one byte altered
				h := frontier[g.Intn(len(frontier))]
				p := append([]byte{}, src.nodes[string(h)]...)
				p[g.Intn(len(p))] ^= byte(1 << uint(g.Intn(8)))
				g.Emit("data %s", hx(p))
				continue
			}
			i := g.Intn(len(frontier))
			if g.Intn(3) == 0 {
				i = 0
			}
			h := frontier[i]
			frontier = append(frontier[:i], frontier[i+1:]...)
			delete(inFrontier, string(h))
			done[string(h)] = true
			p := src.nodes[string(h)]
			g.Emit("data %s", hx(p))
			refs, _ := c20Refs(p)
			for _, r := range refs {
				if !done[string(r)] && !inFrontier[string(r)] {
					frontier = append(frontier, r)
					inFrontier[string(r)] = true
				}
			}
		}
		g.Emit("finish")
	}
}

// ---- implementation runner ----

type c20Runner struct {
	pairs   map[string][]byte
	src     *c20Source
	dst     *c20RecDB
	b       merkle.Builder
	forged  [][]byte
	started bool
}

func (r *c20Runner) render(tag string) string {
	var ks []string
	for it := r.b.Requests(); it.Next(); {
		k := it.Key()
		if len(k) > 4 {
			k = k[:4]
		}
		ks = append(ks, fmt.Sprintf("%x", k))
	}
	// the order of outstanding requests is not part of the property: compare as a set
	sort.Strings(ks)
	s := strings.Join(ks, ",")
	if s == "" {
		s = "-"
	}
	return fmt.Sprintf("%s %d %d %s", tag, r.b.UnresolvedCount(), r.b.ResolvedCount(), s)
}

func (r *c20Runner) Step(t []string, o *Oracle) string {
	switch {
	case len(t) == 3 && t[0] == "src" && !r.started:
		if r.pairs == nil {
			r.pairs = map[string][]byte{}
		}
		r.pairs[string(unhx(t[1]))] = unhx(t[2])
		return "ok"
	case len(t) == 2 && t[0] == "begin" && !r.started:
		if r.pairs == nil {
			r.pairs = map[string][]byte{}
		}
		r.started = true
		r.src = c20BuildSource(r.pairs)
		r.dst = &c20RecDB{Database: db.NewMapDB(), sets: map[db.BucketID]map[string][]byte{}}
		r.b = merkle.NewBuilder(r.dst)
		tr := ompt.NewImmutable(r.b.Database(), r.src.root)
		tr.Resolve(r.b)
		o.Count(fmt.Sprintf("source-nodes-%s", c20Bucket(len(r.src.nodes))))
		o.Check(bytes.Equal(r.src.root, unhx(t[1])) || (len(r.src.root) == 0 && t[1] == "-"), "source-root-differs-from-generator", "root %x vs op %s", r.src.root, t[1])
		return r.render("ok")
	case len(t) == 2 && t[0] == "data" && r.started:
		v := unhx(t[1])
		h := crypto.SHA3Sum256(v)
		requested := false
		for it := r.b.Requests(); it.Next(); {
			if bytes.Equal(it.Key(), h) {
				requested = true
			}
		}
		err := r.b.OnData(db.MerkleTrie, v)
		tag := "ok"
		switch {
		case err == merkle.ErrNoRequester:
			tag = "norequester"
		case err != nil:
			tag = "err"
		}
		o.Count("ondata-" + tag)
		if _, genuine := r.src.nodes[string(h)]; !genuine {
			r.forged = append(r.forged, h)
		}
		// property oracle: accepted exactly when its hash was outstanding
		o.Check((err == nil) == requested || (err != nil && err != merkle.ErrNoRequester), "ondata-accepts-iff-requested",
			"OnData(%x…) err=%v but requested=%v", h[:4], err, requested)
		if err != nil {
			return r.render(tag)
		}
		// refs of an accepted payload, from the harness's own parser (cross-checks the model's decoder)
		return r.render(tag) + " refs=" + c20RefsWire(v)
	case len(t) == 1 && t[0] == "finish" && r.started:
		un := r.b.UnresolvedCount()
		if err := r.b.Flush(true); err != nil {
			return "err"
		}
		stored := r.dst.sets[db.MerkleTrie]
		// oracle 1: nothing but requested data is stored: every stored key is the hash of its
		// value and is a node of the source trie
		for k, v := range stored {
			o.Check(bytes.Equal(crypto.SHA3Sum256(v), []byte(k)), "stored-key-is-hash-of-value", "stored %x is not sha3 of its value", k)
			_, ok := r.src.nodes[k]
			o.Check(ok, "stored-unrequested-data", "stored key %x is not a node of the trusted trie", k)
		}
		for b, m := range r.dst.sets {
			o.Check(b == db.MerkleTrie || len(m) == 0, "stored-in-foreign-bucket", "bucket %q received %d entries", b, len(m))
		}
		// oracle 2: no outstanding requests <=> the store holds the complete state
		complete := len(stored) == len(r.src.nodes)
		for k := range r.src.nodes {
			if _, ok := stored[k]; !ok {
				complete = false
			}
		}
		o.Check((un == 0) == complete, "unresolved-zero-iff-complete", "unresolved=%d but complete=%v (stored %d of %d nodes)", un, complete, len(stored), len(r.src.nodes))
		if un == 0 {
			// oracle 3: rebuilt state has the trusted root and contents (fresh trie over the raw destination db)
			tr := ompt.NewImmutable(r.dst.Database, r.src.root)
			got := map[string][]byte{}
			for it := tr.Iterator(); it.Has(); it.Next() {
				v, k, err := it.Get()
				if err != nil {
					o.Check(false, "rebuilt-trie-unreadable", "iterator error %v", err)
					break
				}
				got[string(k)] = v
			}
			same := len(got) == len(r.pairs)
			for k, v := range r.pairs {
				if !bytes.Equal(got[k], v) {
					same = false
				}
			}
			o.Check(same, "rebuilt-contents-differ", "rebuilt trie has %d pairs, source %d", len(got), len(r.pairs))
			o.Count("finished-complete")
			return fmt.Sprintf("complete %d", len(stored))
		}
		o.Count("finished-incomplete")
		return fmt.Sprintf("incomplete %d %d", un, len(stored))
	}
	return "bad-op"
}

func c20Bucket(n int) string {
	switch {
	case n == 0:
		return "0"
	case n < 4:
		return "1-3"
	case n < 16:
		return "4-15"
	case n < 64:
		return "16-63"
	}
	return "64+"
}
